(* C02 (HTTP/2 part) - nobody ever receives someone else's answer: demultiplexing in the HTTP/2 stream connections
   (pkg/stream/http2 clientStreamConnection / serverStreamConnection handleFrame).  Only statements; proofs by `exact`. *)
From Coq Require Import List NArith Bool.
From MV Require Import Lib.HBits Gen.H2Src Model.H2Demux Proofs.H2Demux.
(* the comparison functions of the correspondence shards are built together with this file *)
From MV Require Model.H2DemuxCases.
Import ListNotations.
Open Scope N_scope.

(* handleFrame (client and server) copies every DATA payload out of the connection's read buffer (read from stream.go) *)
Theorem c02_h2_payloads_copied : h2_stream_data_copied = true.
Proof. exact (eq_refl true). Qed.

(* For EVERY set of open streams, EVERY interleaving of the frames of any number of streams and EVERY grouping of
   the frames into reads: what the receiver registered for stream sid holds - looked at with ANY later contents buf'
   of the connection's read buffer, i.e. after any number of later reads - is what the per-stream reference machine
   makes of the frames (prun: it skips every frame whose stream id is not sid, c02_h2_only_own_frames). *)
Theorem c02_h2_demux : forall opens reads sid buf', NoDup opens ->
  map (observe buf') (only_sid sid (dc_out (run_reads (negb h2_stream_data_copied) opens reads))) =
  snd (prun sid (if existsb (N.eqb sid) opens then Some ([], []) else None) (concat reads)).
Proof. exact demux_correct. Qed.
Print Assumptions c02_h2_demux.

(* nothing of any other stream: only the frames carrying sid matter *)
Theorem c02_h2_only_own_frames : forall sid fs st,
  prun sid st fs = prun sid st (filter (fun f => fsid f =? sid) fs).
Proof. exact prun_own_frames. Qed.
Print Assumptions c02_h2_only_own_frames.

(* a stream that is not open (unknown id, or already answered) receives nothing: no second delivery, no delivery
   of a late or foreign frame *)
Theorem c02_h2_closed_stream_gets_nothing : forall sid fs, prun sid None fs = (None, []).
Proof. exact prun_none. Qed.

(* exactly the own answer: for a stream whose HEADERS do not end it, the (single) delivery carries the headers of
   that stream and exactly the concatenation of the DATA payloads of that stream, in order, up to the frame that ends
   it; no delivery before that frame *)
Theorem c02_h2_own_headers_and_body : forall sid fs tok a, (forall t, ~ In (FHead sid t true) fs) ->
  snd (prun sid (Some (tok, a)) fs) = if ends sid fs then [(sid, tok_of sid tok fs, a ++ body_of sid fs)] else [].
Proof. exact prun_spec. Qed.
Print Assumptions c02_h2_own_headers_and_body.

(* later reads only add deliveries *)
Theorem c02_h2_deliveries_accumulate : forall alias opens reads more,
  exists extra, dc_out (run_reads alias opens (reads ++ more)) = dc_out (run_reads alias opens reads) ++ extra.
Proof. exact run_reads_prefix. Qed.

(* the aliasing variant (the payload of a single DATA+END_STREAM frame wrapped instead of copied): after the next
   read the receiver of stream 1 holds the body of stream 3 under its own headers *)
Theorem c02_h2_refuted_with_aliasing :
  let c := run_reads true [1; 3] alias_witness in
  map (observe (dc_buf c)) (only_sid 1 (dc_out c)) = [(1, [65], [66; 66; 66])] /\
  snd (prun 1 (Some ([], [])) (concat alias_witness)) = [(1, [65], [65; 65; 65])].
Proof. exact alias_refuted. Qed.
Print Assumptions c02_h2_refuted_with_aliasing.

Example c02_h2_example :
  let reads := [[FHead 1 [97] false; FHead 3 [98] false; FData 3 [66] false]; [FData 1 [65; 65] true; FData 3 [66; 66] false];
                [FTrail 3 [116]; FData 1 [9] true]] in
  let c := run_reads false [1; 3] reads in
  map (observe [7; 7; 7]) (dc_out c) = [(1, [97], [65; 65]); (3, [98], [66; 66; 66])] /\
  ends 3 (concat reads) = true /\ body_of 3 (concat reads) = [66; 66; 66].
Proof. cbn zeta. repeat split; vm_compute; reflexivity. Qed.
