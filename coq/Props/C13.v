(* C13 - TLS policy is enforced as configured.  Only statements here; proofs by `exact`.
   `tls_keys_lowered`, `tls_alpn_white`, `tls_provider_cfg_private` are READ FROM pkg/mtls ON THIS RUN (Gen/TLSTokens.v). *)
From Coq Require Import List String Bool NArith.
From MV Require Import Gen.TLSTokens Model.TLSSelect Proofs.TLSSelect.
Import ListNotations.
Open Scope string_scope.

(* the translator recognised buildMatch, the ALPN whitelist and the provider loop *)
Theorem c13_translator_ok : TLSTokens_translator_ok = true.
Proof. exact (eq_refl true). Qed.

(* every provider is built from its OWN TLSConfig (the loop of NewTLSServerContextManager does not hand the
   address of a shared range variable to NewProvider); with this flag false an SDS provider would serve with
   the server_name / ALPN / client-auth mode of the last context of its filter chain *)
Theorem c13_provider_cfg_private : tls_provider_cfg_private = true.
Proof. exact (eq_refl true). Qed.

(* ---- selection ---- *)

(* The loop of GetConfigForClient IS the precedence rule over the code's own matchers, for every list. *)
Theorem c13_select_is_precedence : forall ps sni protos,
  select tls_keys_lowered tls_one_mixed_set tls_alpn_white ps sni protos =
  precedence (fun p => code_name_match tls_keys_lowered tls_one_mixed_set tls_alpn_white p sni)
             (fun p => code_alpn_match tls_keys_lowered tls_one_mixed_set tls_alpn_white p protos) ps.
Proof. exact (select_is_precedence tls_keys_lowered tls_one_mixed_set tls_alpn_white). Qed.
Print Assumptions c13_select_is_precedence.

(* what the precedence rule means: Some i = the FIRST ready provider matching by name; else (none matches by
   name) the first ready one matching by ALPN; else the first ready one; None iff no provider is ready *)
Theorem c13_precedence_meaning : forall nm am ps,
  match precedence nm am ps with
  | Some i =>
         first_ready_with nm ps i
      \/ (no_ready_with nm ps /\ first_ready_with am ps i)
      \/ (no_ready_with nm ps /\ no_ready_with am ps /\ first_ready_with (fun _ => true) ps i)
  | None => forall q, In q ps -> p_ready q = false
  end.
Proof. exact precedence_meaning. Qed.
Print Assumptions c13_precedence_meaning.

(* MAIN.  For every ordered provider list and every (sni, client protocols): the code's ONE mixed set selects
   what the documented rule (names = CN + SANs + server_name, ALPN apart) selects, under the side condition
   `no_clash` that the proof forces:
     on every ready provider, (a) no key looked up for the SNI (the normalised SNI and its wildcard forms) is an
     ALPN token of that provider without also being one of its names, and (b) no client protocol is one of its
     names (or its unset server_name "") without also being one of its ALPN tokens. *)
Theorem c13_select_spec : forall ps sni protos,
  no_clash tls_alpn_white ps sni protos = true ->
  select tls_keys_lowered tls_one_mixed_set tls_alpn_white ps sni protos = spec_select true tls_alpn_white ps sni protos.
Proof. exact (select_spec tls_alpn_white). Qed.
Print Assumptions c13_select_spec.

(* for a present SNI it does not matter whether an unset server_name counts as the empty name *)
Theorem c13_select_spec_present_sni : forall ps sni protos,
  normalize sni <> "" ->
  no_clash tls_alpn_white ps sni protos = true ->
  select tls_keys_lowered tls_one_mixed_set tls_alpn_white ps sni protos = spec_select false tls_alpn_white ps sni protos.
Proof.
  intros ps sni protos Hn Hc.
  exact (eq_trans (select_spec tls_alpn_white ps sni protos Hc)
                  (eq_sym (spec_select_lit_irrelevant tls_alpn_white ps sni protos Hn))).
Qed.
Print Assumptions c13_select_spec_present_sni.

(* non-vacuity: three ready providers, wildcard, ALPN fallback and default all exercised under no_clash *)
Example c13_select_example :
  let ps := [mkP true "a.com" [] ["h2"] "" false false;
             mkP false "x.b.com" [] [] "" false false;
             mkP true "" ["*.b.com"] ["http/1.1"] "svc" true true] in
  no_clash tls_alpn_white ps "X.y.B.com." ["h2"] = true /\
  select tls_keys_lowered tls_one_mixed_set tls_alpn_white ps "X.y.B.com." ["h2"] = Some 2 /\
  no_clash tls_alpn_white ps "zzz.org" ["spdy/3"; "HTTP/1.1"] = true /\
  select tls_keys_lowered tls_one_mixed_set tls_alpn_white ps "zzz.org" ["spdy/3"; "HTTP/1.1"] = Some 2 /\
  no_clash tls_alpn_white ps "zzz.org" [] = true /\
  select tls_keys_lowered tls_one_mixed_set tls_alpn_white ps "zzz.org" [] = Some 0.
Proof. vm_compute. repeat split; reflexivity. Qed.

(* The unconditional statement is FALSE: the side condition cannot be dropped. *)
Definition c13_select_spec_unconditional : Prop := forall ps sni protos,
  select tls_keys_lowered tls_one_mixed_set tls_alpn_white ps sni protos = spec_select true tls_alpn_white ps sni protos.

(* witness 1 (listed finding tls-select:sni-equals-alpn-token): SNI "h2"; the second context has ALPN h2 and is
   chosen "by name", the rule gives the default (first) context *)
Theorem c13_select_refuted_sni_is_alpn_token : ~ c13_select_spec_unconditional.
Proof.
  intros H.
  specialize (H [mkP true "a.com" [] [] "" false false; mkP true "b.com" [] ["h2"] "" false false] "h2" []).
  vm_compute in H. discriminate H.
Qed.

(* witness 2 (listed finding tls-select:client-alpn-equals-context-name): the client offers the protocol "b.com";
   the second context carries the NAME b.com and no ALPN, and is chosen "by ALPN" *)
Theorem c13_select_refuted_alpn_is_name : ~ c13_select_spec_unconditional.
Proof.
  intros H.
  specialize (H [mkP true "a.com" [] [] "" false false; mkP true "b.com" [] [] "" false false] "zzz.org" ["b.com"]).
  vm_compute in H. discriminate H.
Qed.

(* The other variant: were names and protocols kept in two sets (tls_one_mixed_set = false, the shape of the repair),
   the rule would hold for ALL inputs.  The check reports the listed finding only while the switch says "mixed". *)
Theorem c13_select_spec_if_separate : forall ps sni protos,
  select tls_keys_lowered false tls_alpn_white ps sni protos = spec_select true tls_alpn_white ps sni protos.
Proof. exact (select_spec_separate tls_alpn_white). Qed.
Print Assumptions c13_select_spec_if_separate.

(* With keys NOT lower-cased (the code before the fix) the statement fails even under the side condition:
   CN "Svc1" never matches the SNI "Svc1".  Kept so that a regression shows which theorem is lost. *)
Theorem c13_select_unlowered_refuted :
  exists ps sni protos, no_clash tls_alpn_white ps sni protos = true /\
    select false tls_one_mixed_set tls_alpn_white ps sni protos <> spec_select true tls_alpn_white ps sni protos.
Proof.
  exists [mkP true "a.com" [] [] "" false false; mkP true "Svc1" [] [] "" false false], "Svc1", [].
  split; [vm_compute; reflexivity|vm_compute; discriminate].
Qed.

(* ---- MatchedServerName ---- *)
(* matches exactly: the normalised SNI (lower-cased, trailing dots stripped) is in the set, or the set holds
   "*." ++ suf where the normalised SNI is pre ++ "." ++ suf (a leading run of labels replaced by one "*") *)
Theorem c13_wildcard : forall set sni,
  matched_server_name set sni = true <->
  (In (normalize sni) set \/ exists pre suf, normalize sni = pre ++ "." ++ suf /\ In ("*." ++ suf) set).
Proof. exact wildcard_characterisation. Qed.
Print Assumptions c13_wildcard.

Theorem c13_normalize_no_trailing_dot : forall sni t, normalize sni <> t ++ ".".
Proof. intros sni t. exact (strip_dots_no_trailing (lower sni) t). Qed.

Example c13_wildcard_example :
  matched_server_name ["*.com"] "WWW.Example.COM.." = true /\ matched_server_name ["*.example.com"] "example.com" = false /\
  matched_server_name ["*.example.com"] "a.b.example.com" = true /\ normalize "WWW.Example.COM.." = "www.example.com".
Proof. vm_compute. repeat split; reflexivity. Qed.

(* ---- client authentication ---- *)
(* the whole 2 x 2 x 5 table in one formula *)
Theorem c13_client_auth : forall require verify r,
  accepts (client_auth require verify) r = true <->
  (verify = false \/ r = PeerRightCA \/ (require = false /\ r = PeerNone)).
Proof. exact client_auth_table. Qed.
Print Assumptions c13_client_auth.

(* the clause of the property text *)
Theorem c13_require_verify : forall r, accepts (client_auth true true) r = true <-> r = PeerRightCA.
Proof. exact require_verify_only_right_ca. Qed.

Theorem c13_upstream : forall insecure_skip r name_ok,
  upstream_accepts insecure_skip r name_ok = true <-> (insecure_skip = true \/ (r = PeerRightCA /\ name_ok = true)).
Proof. exact upstream_table. Qed.
Print Assumptions c13_upstream.

(* the upstream side over every dimension (insecure_skip x configured CA x issuer x expired x server_name) *)
Theorem c13_upstream_full : forall insecure_skip ca i expired n,
  upstream_handshake insecure_skip ca i expired n = true <->
  (insecure_skip = true \/ (issued_by_configured_ca ca i = true /\ expired = false /\ n = NameMatches)).
Proof. exact upstream_full_table. Qed.
Print Assumptions c13_upstream_full.

(* "an upstream is likewise verified unless insecure_skip is set", the ca-absent case: no ca_cert / an SDS secret without
   validation context mean the host's root set, to which no certificate of these CAs chains: nothing is accepted *)
Theorem c13_upstream_no_ca : forall insecure_skip ca i expired n,
  (ca = CaNone \/ ca = CaSdsNoValidation) -> insecure_skip = false ->
  upstream_handshake insecure_skip ca i expired n = false.
Proof. exact upstream_no_ca_accepts_nothing. Qed.

(* ---- inspector ---- *)
(* on a TCP connection of a listener with a ready context, plaintext is served iff the inspector is on and the
   first byte is not 0x16 *)
Theorem c13_inspector : forall insp b,
  serves_plain (conn_mode_of true true insp b) = true <-> (insp = true /\ b <> 22%N).
Proof. exact inspector_plain. Qed.
Print Assumptions c13_inspector.

(* the same for the manager that results from ANY history of configurations of one listener (LDS updates: inspector flips
   with unchanged contexts, context changes with unchanged inspector, ...): the manager in force is the one built from the
   LAST configuration.  `tls_manager_cached` is read from NewTLSServerContextManager on this run (false = a fresh manager
   is built on every call). *)
Theorem c13_manager_not_cached : tls_manager_cached = false.
Proof. exact (eq_refl false). Qed.
Theorem c13_inspector_after_updates : forall h ctxs insp b,
  ctxs <> [] ->
  match mode_after tls_manager_cached (h ++ [(ctxs, insp)]) b with
  | Some m => serves_plain m = true <-> (insp = true /\ b <> 22%N)
  | None => False
  end.
Proof. exact inspector_after_updates. Qed.
Print Assumptions c13_inspector_after_updates.
(* with a manager cached per listener name and reused when the contexts are unchanged, the statement is false *)
Example c13_cached_manager_refuted :
  mode_after true [([1%nat], true); ([1%nat], false)] 71 = Some ModePlain /\
  mode_after false [([1%nat], true); ([1%nat], false)] 71 = Some ModeTLS.
Proof. vm_compute. split; reflexivity. Qed.

(* ---- a RUNNING listener updated through connHandler.AddOrUpdateListener (LDS) ----
   `tls_update_ctxs_before_manager` / `tls_update_insp_before_manager` are read from the update branch on this run: every
   rawConfig field NewTLSServerContextManager reads is assigned before the manager is rebuilt from rawConfig. *)
Theorem c13_update_fields_before_manager : tls_update_ctxs_before_manager = true /\ tls_update_insp_before_manager = true.
Proof. exact (conj (eq_refl true) (eq_refl true)). Qed.
(* For EVERY history of AddOrUpdateListener calls on one listener: the manager in force is the one built from the LAST
   request (contexts AND inspector) and the stored config is the last request. *)
Theorem c13_listener_policy_is_latest : forall h c,
  lis_after tls_update_ctxs_before_manager tls_update_insp_before_manager None (h ++ [c]) = Some (mkLR (built c) c).
Proof. exact listener_policy_is_latest. Qed.
Print Assumptions c13_listener_policy_is_latest.
(* plaintext is served iff the CURRENT config says inspector = true (and the client does not start with a TLS record) *)
Theorem c13_listener_inspector_after_updates : forall h ctxs insp b,
  ctxs <> [] ->
  match lis_mode_after tls_update_ctxs_before_manager tls_update_insp_before_manager (h ++ [(ctxs, insp)]) b with
  | Some m => serves_plain m = true <-> (insp = true /\ b <> 22%N)
  | None => False
  end.
Proof. exact listener_inspector_after_updates. Qed.
Theorem c13_listener_observe_latest : forall h ctxs insp x,
  lis_observe tls_update_ctxs_before_manager tls_update_insp_before_manager (h ++ [(x :: ctxs, insp)]) = Some (insp, x).
Proof. exact listener_observe_latest. Qed.
(* the inspector flag assigned after the manager is rebuilt: the manager lags exactly one update behind (true -> false keeps
   serving plaintext, false -> true refuses it, a second identical update is right) *)
Example c13_listener_inspector_lag_refuted :
  lis_observe true false [([1%nat], true); ([1%nat], false)] = Some (true, 1%nat) /\
  lis_observe true false [([1%nat], false); ([2%nat], true)] = Some (false, 2%nat) /\
  lis_observe true false [([1%nat], true); ([1%nat], false); ([1%nat], false)] = Some (false, 1%nat) /\
  lis_observe true true [([1%nat], true); ([1%nat], false)] = Some (false, 1%nat).
Proof. vm_compute. repeat split; reflexivity. Qed.

(* ---- SDS providers: the context in force over a history of secret pushes and config updates ---- *)
Theorem c13_sds_update_always_installs : sds_update_always_installs = true.
Proof. exact (eq_refl true). Qed.
(* For EVERY history of certificate pushes, CA (validation) pushes and config updates (server_name, ALPN, verify flags,
   insecure_skip): the provider is ready iff a certificate and a CA have arrived, and the context in force is the one built
   from the LATEST certificate, the LATEST CA and the LATEST config. *)
Theorem c13_sds_context_is_latest : forall cfg0 h,
  let p := provider_after sds_update_always_installs cfg0 h in
  match sp_cert p, sp_ca p with
  | Some c, Some a => sp_ctx p = Some (mkSX c a (sp_cfg p))
  | _, _ => sp_ctx p = None
  end.
Proof. exact sds_context_is_latest. Qed.
Print Assumptions c13_sds_context_is_latest.
(* keeping the old context when "the hash is unchanged" ignores a new server_name, a rotated CA, insecure_skip *)
Example c13_sds_hash_shortcut_refuted :
  let c1 := mkSC 1 0 true true true in let c2 := mkSC 2 0 true true false in
  option_map sx_cfg (sp_ctx (provider_after false c1 [EvCert 1; EvCA 1; EvCfg c2])) = Some c1 /\
  option_map sx_ca (sp_ctx (provider_after false c1 [EvCert 1; EvCA 1; EvCA 2])) = Some 1 /\
  option_map sx_cfg (sp_ctx (provider_after true c1 [EvCert 1; EvCA 1; EvCfg c2])) = Some c2 /\
  option_map sx_ca (sp_ctx (provider_after true c1 [EvCert 1; EvCA 1; EvCA 2])) = Some 2.
Proof. vm_compute. repeat split; reflexivity. Qed.

(* ---- file-backed material (ca_cert / cert_chain / private_key given as paths) over histories of applications ---- *)
Theorem c13_ca_pool_not_cached : tls_ca_pool_cached = false.
Proof. exact (eq_refl false). Qed.
(* For EVERY history of configuration applications: the policy in force after the last application is determined by that
   configuration and the contents of its files at that moment - whatever was applied, and whatever the files held, before. *)
Theorem c13_policy_is_latest : forall h a,
  policy_after tls_ca_pool_cached (h ++ [a]) = Some (fget (fa_files a) (fa_ca a), fget (fa_files a) (fa_cert a)).
Proof. exact policy_is_latest. Qed.
Print Assumptions c13_policy_is_latest.
Theorem c13_policy_independent_of_history : forall h h' a,
  policy_after tls_ca_pool_cached (h ++ [a]) = policy_after tls_ca_pool_cached (h' ++ [a]).
Proof. exact policy_independent_of_history. Qed.
(* a pool cached by path keeps the CA that the file held at its first use *)
Example c13_ca_cache_refuted :
  policy_after true [mkFA 1 1 [(1, 1)]; mkFA 1 1 [(1, 2)]] = Some (1, 2) /\
  policy_after false [mkFA 1 1 [(1, 1)]; mkFA 1 1 [(1, 2)]] = Some (2, 2).
Proof. vm_compute. split; reflexivity. Qed.

(* modelled behaviour outside the clause: while NO context is ready (SDS secrets not delivered) Conn() returns the raw connection *)
Theorem c13_no_ready_context_is_raw : forall tcp insp b, conn_mode_of tcp false insp b = ModeRaw.
Proof. exact not_ready_is_raw. Qed.
