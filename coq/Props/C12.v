(* C12 - Runtime updates are coherent and reproducible from the dumped configuration.
   Only statements; proofs by `exact`.  Model: Model/Update.v (router manager, cluster manager, effective configuration,
   xDS endpoint assignment).  Gen/EndpointSrc.v is regenerated from /repo on every run. *)
From Coq Require Import List String ZArith.
From MV Require Import Model.Router Model.Update Proofs.Update Gen.EndpointSrc Model.UpdateRes Proofs.UpdateRes Gen.ClusterSrc.
Import ListNotations.
Local Open Scope string_scope.

(* the translator recognised ConvertUpdateEndpoints, and it issues ONE host update per load assignment (after the loop
   over the localities), not one per locality *)
Theorem c12_endpoints_source_shape : EndpointSrc_translator_ok = true /\ endpoints_update_per_locality = false.
Proof. split; exact (eq_refl _). Qed.
Print Assumptions c12_endpoints_source_shape.

(* For EVERY history of operations (valid, invalid, repeated, no-op), starting from the empty managers: each live
   router object equals the one a fresh process builds from the stored router configuration - hence MatchRoute and
   MatchAllRoutes answer every request alike - and the live clusters (lb type, hosts) are exactly the stored ones. *)
Theorem c12_refinement : forall ops,
  let s := final endpoints_update_per_locality ops in
  (forall name w, mget name (st_routers s) = Some w ->
     rw_live w = fresh_router (rw_stored w) /\
     forall rq, lookup (rw_live w) rq = lookup (fresh_router (rw_stored w)) rq /\
                lookup_all (rw_live w) rq = lookup_all (fresh_router (rw_stored w)) rq) /\
  st_clusters s = fresh_clusters (st_cfg_clusters s).
Proof. exact (refinement endpoints_update_per_locality). Qed.
Print Assumptions c12_refinement.

(* an operation that returns an error (update of an existing router with a configuration NewRouters rejects - no virtual
   hosts, duplicate default, unbuildable route ...; route change on an unknown domain, a nil routers object or with an
   unbuildable route; host operation or endpoint assignment on a missing cluster; removal naming a missing cluster)
   leaves the live objects AND the stored configuration exactly as they were - for every state, and inside every history *)
Theorem c12_failed_step_changes_nothing : forall s o,
  snd (step endpoints_update_per_locality s o) = false -> fst (step endpoints_update_per_locality s o) = s.
Proof. exact (failed_step_changes_nothing endpoints_update_per_locality). Qed.
Print Assumptions c12_failed_step_changes_nothing.

Theorem c12_failed_update_changes_nothing : forall ops1 o ops2,
  let s := final endpoints_update_per_locality ops1 in
  snd (step endpoints_update_per_locality s o) = false ->
  final endpoints_update_per_locality (ops1 ++ o :: ops2) = final endpoints_update_per_locality (ops1 ++ ops2).
Proof. exact (failed_update_changes_nothing endpoints_update_per_locality). Qed.
Print Assumptions c12_failed_update_changes_nothing.

(* last update wins *)
Theorem c12_last_router_update_wins : forall ops name c t, build c = Ok t ->
  let s := final endpoints_update_per_locality (ops ++ [OAddOrUpdateRouters name c]) in
  exists w, mget name (st_routers s) = Some w /\ rw_stored w = c /\ rw_live w = Some {| lr_cfg := c; lr_tab := t |}.
Proof. exact (last_router_update_wins endpoints_update_per_locality). Qed.
Print Assumptions c12_last_router_update_wins.

Theorem c12_last_host_update_wins : forall ops name hosts,
  let s0 := final endpoints_update_per_locality ops in
  let s := final endpoints_update_per_locality (ops ++ [OUpdateHosts name hosts]) in
  (exists c, mget name (st_clusters s0) = Some c) ->
  exists c, mget name (st_clusters s) = Some c /\ cl_hosts c = dedup hosts /\ mget name (st_cfg_clusters s) = Some c.
Proof. exact (last_host_update_wins endpoints_update_per_locality). Qed.
Print Assumptions c12_last_host_update_wins.

(* removed objects are gone, from the live map and from the stored configuration *)
Theorem c12_removed_clusters_are_gone : forall ops names,
  let s0 := final endpoints_update_per_locality ops in
  let s := final endpoints_update_per_locality (ops ++ [ORemoveClusters names]) in
  (forall n, In n names -> exists c, mget n (st_clusters s0) = Some c) ->
  forall n, In n names -> mget n (st_clusters s) = None /\ mget n (st_cfg_clusters s) = None.
Proof. exact (removed_clusters_are_gone endpoints_update_per_locality). Qed.
Print Assumptions c12_removed_clusters_are_gone.

(* per address the last update wins: after an append the live (and stored) host of every address is the first one
   carrying it in (appended batch ++ previous hosts) - a re-appended address takes the NEW weight / hostname /
   tls_disable / metadata, inside one batch the first entry wins, the other hosts are kept *)
Theorem c12_append_takes_new_attributes : forall ops name hosts c0,
  let s0 := final endpoints_update_per_locality ops in
  let s := final endpoints_update_per_locality (ops ++ [OAppendHosts name hosts]) in
  mget name (st_clusters s0) = Some c0 ->
  exists c, mget name (st_clusters s) = Some c /\ mget name (st_cfg_clusters s) = Some c /\ cl_lb c = cl_lb c0 /\
            forall a, find_host a (cl_hosts c) = find_host a (hosts ++ cl_hosts c0).
Proof. exact (append_takes_new_attributes endpoints_update_per_locality). Qed.
Print Assumptions c12_append_takes_new_attributes.

(* an endpoint assignment yields the union of the endpoints of all its localities; an address listed several times
   takes the attributes of its first occurrence (load_balancing_weight clamped to [1,128]) *)
Theorem c12_endpoints_union : forall s name ls c,
  mget name (st_clusters s) = Some c ->
  let s' := fst (step_endpoints endpoints_update_per_locality s name ls) in
  exists c', mget name (st_clusters s') = Some c' /\ cl_lb c' = cl_lb c /\
             (forall a, In a (map h_addr (cl_hosts c')) <-> exists l, In l ls /\ In a (map ep_addr l)) /\
             (forall a, find_host a (cl_hosts c') = find_host a (map ep_to_host (List.concat ls))).
Proof. exact endpoints_union. Qed.
Print Assumptions c12_endpoints_union.

(* what the code did before the repair (one update per locality): the last locality wins; kept so that the model's
   sensitivity to the shape read from the source is visible *)
Theorem c12_endpoints_union_refuted_per_locality :
  let s := fst (step true init_state (OAddOrUpdateCluster "c" 1 [])) in
  let s' := fst (step_endpoints true s "c" [[Build_endpoint "10.0.0.1:80" None]; [Build_endpoint "10.0.0.2:80" None]]) in
  option_map (fun c => map h_addr (cl_hosts c)) (mget "c" (st_clusters s')) = Some ["10.0.0.2:80"].
Proof. exact endpoints_union_fails_per_locality. Qed.
Print Assumptions c12_endpoints_union_refuted_per_locality.

(* ---- the circuit-breaker resource manager across cluster updates (Model/UpdateRes.v).
   What the translator read from UpdateClusterResourceManagerHandler: the updated cluster ADOPTS the old cluster's manager
   object and the new thresholds are written into it, so requests in flight (which hold the old snapshot) and the live
   cluster count in ONE object. *)
Theorem c12_resource_manager_source_shape : ClusterSrc_translator_ok = true /\ resource_manager_adopted = true.
Proof. split; exact (eq_refl _). Qed.
Print Assumptions c12_resource_manager_source_shape.

(* for every history of updates (identical or changed thresholds), hosts updates, removals, acquisitions through the live
   snapshot and releases through the snapshot HELD: every manager's count is the number of requests in flight that counted
   themselves in it *)
Theorem c12_resource_counts_are_holders : forall ops i r,
  nth_error (rs_mgrs (rrun resource_manager_adopted ops)) i = Some r ->
  r_cur r = Z.of_nat (cnt i (rs_held (rrun resource_manager_adopted ops))).
Proof. exact counts_are_holders. Qed.
Print Assumptions c12_resource_counts_are_holders.

(* hence, once every holder has released, every counter is 0 and the live manager IS the manager of a cluster freshly
   built from the stored configuration: CanCreate answers alike *)
Theorem c12_resource_released_means_fresh : forall ops,
  rs_held (rrun resource_manager_adopted ops) = [] ->
  (forall i r, nth_error (rs_mgrs (rrun resource_manager_adopted ops)) i = Some r -> r_cur r = 0%Z) /\
  live_resource (rrun resource_manager_adopted ops) = fresh_resource (rrun resource_manager_adopted ops).
Proof. exact released_means_fresh. Qed.
Print Assumptions c12_resource_released_means_fresh.

Theorem c12_resource_can_create_as_fresh : forall ops, rs_held (rrun resource_manager_adopted ops) = [] ->
  option_map can_create (live_resource (rrun resource_manager_adopted ops)) =
  option_map can_create (fresh_resource (rrun resource_manager_adopted ops)).
Proof. exact released_can_create. Qed.
Print Assumptions c12_resource_can_create_as_fresh.

(* the copy-the-counters variant is refuted: acquire, update with the identical threshold, release -> the live count is
   stuck at 1 and the live cluster refuses what a fresh start serves *)
Theorem c12_resource_copy_variant_refuted :
  let s := rrun false [RUpdate 1; RAcquire; RUpdate 1; RRelease 0] in
  rs_held s = [] /\ option_map r_cur (live_resource s) = Some 1%Z /\
  option_map can_create (live_resource s) = Some false /\ option_map can_create (fresh_resource s) = Some true.
Proof. exact copy_variant_leaks. Qed.
Print Assumptions c12_resource_copy_variant_refuted.

(* requests concurrent with updates: a lookup reads the wrapper's pointer, any events (updates, route additions and
   removals, other threads' lookups) happen, then it evaluates on the object it read.  Its answer is the answer of the
   CURRENT object of one of the states passed between its two steps: entirely old or entirely new, never a mixture,
   and never a failure caused by the swap. *)
Theorem c12_swap_atomic : forall s tid es rq, cwf s ->
  (forall e, In e es -> e <> ERead tid) ->
  let s1 := fst (cstep s (ERead tid)) in
  let s2 := crun s1 es in
  exists s', In s' (ctrace s1 es) /\ snd (cstep s2 (EEval tid rq)) = Some (tid, lookup (cur_obj s') rq).
Proof. exact swap_atomic. Qed.
Print Assumptions c12_swap_atomic.

(* non-vacuity: a history with an accepted and a rejected router update, a route addition through the default virtual
   host, cluster updates, a removal and a two-locality endpoint assignment *)
Definition c12_ex_route (cl : string) : route := Build_route (Build_rmatch "/" "" None [] [] []) cl false.
Definition c12_h (a : string) (w : nat) : host := Build_host a w "" false [].
Definition c12_ex_ops : list op :=
  [ OAddOrUpdateRouters "r" [Build_vhost ["a.com"] [c12_ex_route "one"]; Build_vhost ["*"] []];
    OAddOrUpdateRouters "r" [Build_vhost ["a.com"; "A.com"] []];
    OAddRoute "r" "nowhere" (c12_ex_route "added");
    OAddOrUpdateRouters "r" [];
    OAddOrUpdateCluster "c" 1 [c12_h "10.0.0.9:80" 1];
    OAppendHosts "c" [c12_h "10.0.0.1:80" 1; c12_h "10.0.0.1:80" 2];
    OAppendHosts "c" [Build_host "10.0.0.1:80" 7 "new-name" true [("zone", "b")]];
    OAddOrUpdateCluster "d" 2 [];
    ORemoveClusters ["d"];
    OEndpoints "e" [[Build_endpoint "10.0.0.1:80" None]];
    OAddOrUpdateCluster "e" 3 [];
    OEndpoints "e" [[Build_endpoint "10.0.0.1:80" (Some 500)]; [Build_endpoint "10.0.0.2:80" None; Build_endpoint "10.0.0.1:80" (Some 3)]] ].
Example c12_example :
  let (s, rs) := run endpoints_update_per_locality init_state c12_ex_ops in
  rs = [true; false; true; false; true; true; true; true; true; false; true; true] /\
  option_map cl_hosts (mget "c" (st_clusters s)) = Some [Build_host "10.0.0.1:80" 7 "new-name" true [("zone", "b")]] /\
  option_map cl_hosts (mget "e" (st_cfg_clusters s)) = Some [c12_h "10.0.0.1:80" 128; c12_h "10.0.0.2:80" 0] /\
  mget "d" (st_clusters s) = None /\
  option_map (fun w => option_map r_cluster (lookup (rw_live w)
     (Build_request [("x-mosn-host", "other.org"); ("x-mosn-path", "/x")] [] [] []))) (mget "r" (st_routers s)) = Some (Some "added") /\
  cwf {| cs_objs := [{| lr_cfg := []; lr_tab := empty_table |}]; cs_cur := 0; cs_regs := [] |}.
Proof. vm_compute. repeat split; try reflexivity. Qed.
