(* C15 - Subset load balancing honours metadata and its fallback policy.  Only statements; proofs by `exact`. *)
From Coq Require Import List Arith Bool.
From MV Require Import Gen.SubsetTokens Gen.CriteriaTokens Gen.HostUpdateTokens Model.Subset Model.Criteria Model.HostUpdate
  Proofs.Subset Proofs.SubsetKeys Proofs.SubsetIx Proofs.Criteria Proofs.HostUpdate.
Import ListNotations.

(* make1 = NewSubsetLoadBalancer (filtering builder), make2 = NewSubsetLoadBalancerPreIndex (pre-indexed builder).
   Quantified over: every host list with arbitrary (partial, overlapping) metadata, every selector list (incl.
   nested, duplicate and empty key sets), every default subset and fallback policy, every criteria (None = nil
   criteria; subset / superset / unknown keys and values / empty), every inner balancer.
   NoDup (map sid hs): host sets are de-duplicated by address before they reach a balancer (NewHostSet). *)

(* builders_equiv: HostNum, IsExistsHosts, the host ChooseHost returns (for every inner balancer) and the candidate
   set behind it agree.  The tries themselves may differ in entries without hosts; no observable depends on them. *)
Theorem c15_builders_equiv : forall hs sels pol dflt, NoDup (map sid hs) -> forall crit,
  host_num (make1 hs sels pol dflt) crit = host_num (make2 hs sels pol dflt) crit /\
  is_exists (make1 hs sels pol dflt) crit = is_exists (make2 hs sels pol dflt) crit /\
  (forall inner, choose_host inner (make1 hs sels pol dflt) crit = choose_host inner (make2 hs sels pol dflt) crit) /\
  choose_set (make1 hs sels pol dflt) crit = choose_set (make2 hs sels pol dflt) crit.
Proof. exact builders_equiv. Qed.
Print Assumptions c15_builders_equiv.

(* when does the subset apply: exactly when the criteria are non-empty, a selector with exactly the criteria's key
   list exists and some host carries all the pairs; its hosts are then exactly the hosts carrying all the pairs *)
Theorem c15_subset_applies_iff : forall hs sels c l,
  active_entry c (build1 hs sels) = Some l <->
  (c <> [] /\ In (map fst c) sels /\ (exists h, In h hs /\ host_matches c h = true) /\ l = create_subset hs c).
Proof. exact active1_iff. Qed.
Print Assumptions c15_subset_applies_iff.

(* sound: if the subset applies and its balancer (any balancer that returns members of its host list - C05) picks a
   host, that host is the answer and its metadata contain every criteria pair *)
Theorem c15_sound : forall inner, (forall l h, inner l = Some h -> In h l) ->
  forall hs sels pol dflt c l h,
  first_try (make1 hs sels pol dflt) (Some c) = Some l -> inner l = Some h ->
  choose_host inner (make1 hs sels pol dflt) (Some c) = Some h /\ In h hs /\
  (forall k v, In (k, v) c -> lookup k (smeta h) = Some v).
Proof. exact sound1. Qed.
Print Assumptions c15_sound.

Theorem c15_sound_preindex : forall inner, (forall l h, inner l = Some h -> In h l) ->
  forall hs sels pol dflt c l h, NoDup (map sid hs) ->
  first_try (make2 hs sels pol dflt) (Some c) = Some l -> inner l = Some h ->
  choose_host inner (make2 hs sels pol dflt) (Some c) = Some h /\ In h hs /\
  (forall k v, In (k, v) c -> lookup k (smeta h) = Some v).
Proof. exact sound2. Qed.
Print Assumptions c15_sound_preindex.

(* fallback_exact: no subset applies, or its balancer has no (selectable) host: none => no host; any-endpoint =>
   what the balancer over ALL hosts returns; default-subset => what the balancer over the hosts matching the
   default metadata returns (so: a host carrying the default pairs, or none) *)
Theorem c15_fallback_exact : forall inner hs sels pol dflt crit,
  (match first_try (make1 hs sels pol dflt) crit with Some l => inner l | None => None end) = None ->
  choose_host inner (make1 hs sels pol dflt) crit =
    match pol with
    | NoFallBack => None
    | AnyEndPoint => inner hs
    | DefaultSubset => inner (create_subset hs dflt)
    end.
Proof. exact fallback_exact1. Qed.
Print Assumptions c15_fallback_exact.

Theorem c15_fallback_exact_preindex : forall inner hs sels pol dflt crit,
  (match first_try (make2 hs sels pol dflt) crit with Some l => inner l | None => None end) = None ->
  choose_host inner (make2 hs sels pol dflt) crit =
    match pol with
    | NoFallBack => None
    | AnyEndPoint => inner hs
    | DefaultSubset => inner (filter_hosts hs dflt)
    end.
Proof. exact fallback_exact2. Qed.
Print Assumptions c15_fallback_exact_preindex.

Theorem c15_fallback_default_matches : forall inner, (forall l h, inner l = Some h -> In h l) ->
  forall hs dflt h, inner (create_subset hs dflt) = Some h ->
  In h hs /\ (forall k v, In (k, v) dflt -> lookup k (smeta h) = Some v).
Proof. exact fallback_default_matches. Qed.
Print Assumptions c15_fallback_default_matches.

(* no_criteria: nil criteria => the balancer over all hosts is asked first and its answer is the answer *)
Theorem c15_no_criteria : forall inner hs sels pol dflt,
  first_try (make1 hs sels pol dflt) None = Some hs /\
  (forall h, inner hs = Some h -> choose_host inner (make1 hs sels pol dflt) None = Some h).
Proof. exact no_criteria1. Qed.
Print Assumptions c15_no_criteria.

(* The pre-indexed builder with filterHosts in the SHAPE READ FROM THE SOURCE (`fh_mode`, Gen/SubsetTokens.v): make2x.
   The statements type-check only while filterHosts intersects the index sets of ALL pairs (a pair no host carries =>
   no host); the "skip unknown pairs" rewrite is refuted below (default subset with one absent value). *)
Theorem c15_filterhosts_translator_ok : SubsetTokens_translator_ok = true.
Proof. exact (eq_refl true). Qed.

Theorem c15_builders_equiv_src : forall hs sels pol dflt, NoDup (map sid hs) -> forall crit,
  host_num (make1 hs sels pol dflt) crit = host_num (make2x fh_mode hs sels pol dflt) crit /\
  is_exists (make1 hs sels pol dflt) crit = is_exists (make2x fh_mode hs sels pol dflt) crit /\
  (forall inner, choose_host inner (make1 hs sels pol dflt) crit = choose_host inner (make2x fh_mode hs sels pol dflt) crit) /\
  choose_set (make1 hs sels pol dflt) crit = choose_set (make2x fh_mode hs sels pol dflt) crit.
Proof. exact (builders_equiv_x fh_mode (eq_refl FHAllPairs)). Qed.
Print Assumptions c15_builders_equiv_src.

Theorem c15_fallback_exact_preindex_src : forall inner hs sels pol dflt crit,
  (match first_try (make2x fh_mode hs sels pol dflt) crit with Some l => inner l | None => None end) = None ->
  choose_host inner (make2x fh_mode hs sels pol dflt) crit =
    match pol with
    | NoFallBack => None
    | AnyEndPoint => inner hs
    | DefaultSubset => inner (filter (host_matches dflt) hs)
    end.
Proof. exact (fallback_exact2x fh_mode (eq_refl FHAllPairs)). Qed.
Print Assumptions c15_fallback_exact_preindex_src.

Theorem c15_filterhosts_skip_unknown_refuted : ~ fh_equiv_statement FHSkipUnknown.
Proof. exact skip_unknown_refuted. Qed.
Print Assumptions c15_filterhosts_skip_unknown_refuted.

(* Selector normalisation (types.InitSet + GenerateSubsetKeys) is part of the model: the input is the list of selectors
   AS CONFIGURED (any order, repeated keys, duplicates, prefixes of one another).  Every configured selector's key set
   is present after normalisation, nothing is invented, no entry occurs twice, and two configured selectors are merged
   exactly when they have the same key set - a selector is never dropped because it is a prefix / subset of another. *)
Theorem c15_selector_keys_preserved : forall cfg,
  let n := generate_subset_keys cfg in
  (forall S, In S cfg -> exists s, In s n /\ forall k, In k s <-> In k S) /\
  (forall s, In s n -> exists S, In S cfg /\ s = init_set S) /\
  NoDup n /\
  (forall S1 S2, init_set S1 = init_set S2 <-> (forall k, In k S1 <-> In k S2)).
Proof. exact selector_keys_preserved. Qed.
Print Assumptions c15_selector_keys_preserved.

(* the property read on the CONFIGURATION: criteria (sorted by key, distinct keys - what MetadataMatchCriteriaImpl
   holds) whose key set is the key set of a configured selector, matched by some host, select exactly the hosts whose
   metadata contain all the pairs *)
Theorem c15_subset_applies_configured : forall hs cfg c S,
  c <> [] -> ssorted (map fst c) -> In S cfg -> (forall k, In k S <-> In k (map fst c)) ->
  (exists h, In h hs /\ host_matches c h = true) ->
  active_entry c (build1 hs (generate_subset_keys cfg)) = Some (create_subset hs c).
Proof. exact subset_applies_configured. Qed.
Print Assumptions c15_subset_applies_configured.

(* selectors of ANY length: a 4-key selector whose 4th key has two values among hosts agreeing on the first three keys -
   both builders keep one subset per value *)
Example c15_four_key_selector_example :
  let hs := [mkSH 0 [(1, 1); (2, 1); (3, 1); (4, 1)] true; mkSH 1 [(1, 1); (2, 1); (3, 1); (4, 2)] true;
             mkSH 2 [(1, 1); (2, 1); (3, 1); (4, 2); (5, 1)] true] in
  let sels := generate_subset_keys [[4; 3; 2; 1]] in
  map sid (match active_entry [(1, 1); (2, 1); (3, 1); (4, 1)] (build2x fh_mode hs sels) with Some l => l | None => [] end) = [0] /\
  map sid (match active_entry [(1, 1); (2, 1); (3, 1); (4, 2)] (build2x fh_mode hs sels) with Some l => l | None => [] end) = [1; 2] /\
  map sid (match active_entry [(1, 1); (2, 1); (3, 1); (4, 2)] (build1 hs sels) with Some l => l | None => [] end) = [1; 2].
Proof. vm_compute. auto. Qed.

Example c15_selector_example :
  generate_subset_keys [[3; 1]; [1]; [1; 3; 1]; []; [2; 3]; [3]; []] = [[1; 3]; [1]; []; [2; 3]; [3]].
Proof. vm_compute. reflexivity. Qed.

(* The criteria-merging step (downStream.MetadataMatchCriteria, Model/Criteria.v): `crit_mode` = how the criteria of a
   request with dynamic metadata are produced, READ FROM pkg/proxy/downstream.go.  For EVERY history of requests through
   one route: the criteria used for request k are merge_criteria(route configuration, metadata of request k) -
   independent of all earlier requests - and the route's own criteria are unchanged after the history.
   Type-checks only while a fresh object is built; merging into the route's shared object is refuted. *)
Theorem c15_criteria_translator_ok : CriteriaTokens_translator_ok = true.
Proof. exact (eq_refl true). Qed.

Theorem c15_request_criteria_independent : forall route reqs,
  snd (crit_run crit_mode route reqs) = map (merge_criteria route) reqs /\
  fst (crit_run crit_mode route reqs) = route.
Proof. exact (crit_independent_of_mode crit_mode (eq_refl CritFresh)). Qed.
Print Assumptions c15_request_criteria_independent.

(* what merge_criteria is: the request value wins per key, route pairs are kept for the other keys, sorted by key *)
Theorem c15_merge_request_wins : forall m route k, NoDup (map fst m) ->
  lookup k (merge_pairs route m) = match lookup k m with Some v => Some v | None => lookup k route end.
Proof. exact merge_request_wins. Qed.
Print Assumptions c15_merge_request_wins.

Theorem c15_merge_sorted : forall m route, ssorted (map fst route) -> ssorted (map fst (merge_pairs route m)).
Proof. exact merge_sorted. Qed.
Print Assumptions c15_merge_sorted.

Theorem c15_criteria_merge_in_place_refuted : ~ crit_independent_statement CritMergeInPlace.
Proof. exact crit_merge_in_place_refuted. Qed.
Print Assumptions c15_criteria_merge_in_place_refuted.

(* The labels the subset balancers are built from are the PUBLISHED ones (Model/HostUpdate.v): `reuse_mode` = may the
   full host update (NewSimpleHostHandler) carry a host object over from the previous host set - READ FROM
   cluster_manager.go.  Every published host carries exactly the attributes (labels, weight, hostname, tls flag) of the
   config it was published from; after any history the published set is the last update.  Type-checks only while every
   host object is built from the new config; keeping the object when the OLD labels are a subset of the new ones is
   refuted (a label key added). *)
Theorem c15_hostupdate_translator_ok : HostUpdateTokens_translator_ok = true.
Proof. exact (eq_refl true). Qed.

Theorem c15_published_attributes_exact : forall published cfgs,
  update_hosts reuse_mode published cfgs = dedup_cfg [] cfgs.
Proof. exact (update_exact_of_mode reuse_mode (eq_refl ReuseNever)). Qed.
Print Assumptions c15_published_attributes_exact.

Theorem c15_labels_subset_shortcut_refuted : ~ update_exact_statement ReuseIfLabelsSubset.
Proof. exact labels_subset_shortcut_refuted. Qed.
Print Assumptions c15_labels_subset_shortcut_refuted.

(* C05's statements on top of subset balancing: whatever the criteria and the fallback, the returned host is a
   host of the cluster, and healthy whenever the inner policy only returns healthy hosts *)
Theorem c15_subset_member : forall inner, (forall l h, inner l = Some h -> In h l) ->
  forall hs sels pol dflt crit h,
  (choose_host inner (make1 hs sels pol dflt) crit = Some h \/
   choose_host inner (make2 hs sels pol dflt) crit = Some h) -> In h hs.
Proof. exact subset_member. Qed.
Print Assumptions c15_subset_member.

Theorem c15_subset_healthy : forall inner, (forall l h, inner l = Some h -> shealthy h = true) ->
  forall b crit h, choose_host inner b crit = Some h -> shealthy h = true.
Proof. exact subset_healthy. Qed.
Print Assumptions c15_subset_healthy.

(* non-vacuity: the Envoy-style example - hosts with partial metadata, nested selectors, a hit, a miss *)
Example c15_example :
  let hs := [mkSH 0 [(1, 1); (2, 1)] true; mkSH 1 [(1, 1); (2, 2)] true; mkSH 2 [(1, 2)] true; mkSH 3 [] true] in
  let sels := [[1]; [1; 2]; []] in
  NoDup (map sid hs) /\
  map sid (match active_entry [(1, 1)] (build1 hs sels) with Some l => l | None => [] end) = [0; 1] /\
  map sid (match active_entry [(1, 1); (2, 2)] (build2 hs sels) with Some l => l | None => [] end) = [1] /\
  active_entry [(2, 1)] (build1 hs sels) = None /\
  choose_set (make2 hs sels DefaultSubset [(1, 2)]) (Some [(1, 3)]) = [2].
Proof.
  cbn zeta. split; [|vm_compute; auto].
  repeat constructor; cbn; intuition discriminate.
Qed.
