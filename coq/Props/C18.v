(* C18 - HTTP/2 stack is wire-compatible with the reference and respects flow control.
   Only statements here; proofs by `exact`.  HPACK part (frames and flow control follow below). *)
From Coq Require Import List NArith ZArith Bool Lia.
From MV Require Import Lib.HBits Gen.HpackTables Gen.H2Src Model.Hpack
  Proofs.HpackInt Proofs.HpackHuffman Proofs.HpackString Proofs.HpackRepr Proofs.HpackEnc.
(* the comparison functions of the correspondence shards are built together with this file *)
From MV Require Model.HpackCases Model.H2FrameCases Model.FlowCases.
Import ListNotations.
Open Scope N_scope.

(* the translators recognised the source *)
Theorem c18_translators_ok : HpackTables_translator_ok = true /\ H2Src_translator_ok = true.
Proof. split; exact (eq_refl true). Qed.

(* the strings of a literal that is inserted into the dynamic table are decoded also while emitting is switched off (a
   rejected block is decoded to its end to keep the table in step with the peer's encoder): parseFieldLiteral passes
   `d.emitEnabled || it.indexed()` to readString - what parse_repr's `want` is (Model/Hpack.v); read from hpack.go on
   every run.  A readString deciding from emitEnabled alone inserts EMPTY strings (seed C18-f). *)
Theorem c18_hpack_indexed_literals_read_while_not_emitting : h2_hpack_indexed_strings_read = true.
Proof. exact (eq_refl true). Qed.

(* ------------------------------------------------------------------ HPACK primitives *)
(* Integers (RFC 7541 5.1): every prefix size 1..8, every flag in the bits above the prefix, every value
   below readVarInt's own limit 2^63 (Go uint64 arithmetic is in the model), any continuation. *)
Theorem c18_int_roundtrip : forall n flag i rest,
  1 <= n <= 8 -> flag mod 2 ^ n = 0 -> i < 2 ^ 63 ->
  dec_int n (or_first flag (enc_int n i) ++ rest) = HOk (i, rest).
Proof. exact int_roundtrip. Qed.
Print Assumptions c18_int_roundtrip.

Example c18_int_example : dec_int 5 (enc_int 5 1337 ++ [7]) = HOk (1337, [7]) /\ enc_int 5 1337 = [31; 154; 10].
Proof. split; vm_compute; reflexivity. Qed.

(* Huffman code of the GENERATED table (256 symbols + EOS): no code is a prefix of another *)
Theorem c18_huffman_prefix_free : forall a b, a <= 256 -> b <= 256 -> a <> b ->
  forall c, code_of b <> code_of a ++ c.
Proof. exact huffman_prefix_free. Qed.
Print Assumptions c18_huffman_prefix_free.

(* ... and it is complete (Kraft sum 1), lengths 5..30 *)
Theorem c18_huffman_complete : kraft_sum = 2 ^ 30.
Proof. exact huffman_kraft_complete. Qed.

(* decode (encode s) = s for EVERY byte string (decoder limit 0 = none, or at least the length) *)
Theorem c18_huffman_roundtrip : forall maxlen s, bytes_ok s -> (maxlen = 0 \/ len s <= maxlen) ->
  huff_decode maxlen (huff_encode s) = HOk s.
Proof. exact huff_roundtrip. Qed.
Print Assumptions c18_huffman_roundtrip.

Example c18_huffman_example : bytes_ok [119; 119; 119; 0; 255] /\
  huff_decode 0 (huff_encode [119; 119; 119; 0; 255]) = HOk [119; 119; 119; 0; 255].
Proof. split; [repeat constructor | vm_compute; reflexivity]. Qed.

(* String literals: either coding, any continuation *)
Theorem c18_string_roundtrip : forall maxstr h s rest, str_ok maxstr h s ->
  dec_string maxstr true (ser_string h s ++ rest) = HOk (s, rest).
Proof. exact string_roundtrip. Qed.
Print Assumptions c18_string_roundtrip.

Example c18_string_example : str_ok 0 true [97; 98] /\ str_ok 0 false [97; 98].
Proof. split; (split; [repeat constructor | split; [vm_compute; reflexivity | left; reflexivity]]). Qed.

(* ------------------------------------------------------------------ HPACK header blocks *)
(* ANY encoder that emits valid representations (x/net's, MOSN's, a peer's): for every decoder state
   between blocks and every sequence of representations - size updates first (RFC 7541 4.2), any index
   valid in the table at that point, either string coding, all literal kinds - decoding the wire bytes
   yields exactly the fields the representations mean and the table they lead to. *)
Theorem c18_hpack_valid_reprs_decode : forall st rs t' fs,
  d_save st = [] -> d_first st = true -> d_emit st = true ->
  dt_allowed (d_tab st) < 2 ^ 32 ->
  reprs_shape true rs -> Forall (repr_ok (d_maxstr st)) rs ->
  interp_reprs (d_tab st) rs = Some (t', fs) -> Forall (field_fits (d_maxstr st)) fs ->
  dec_block st (flat_map ser_repr rs) = (mkD t' (d_maxstr st) true true [], fs, WOk).
Proof. intros. apply dec_block_reprs; try assumption. exact (eq_refl true). Qed.
Print Assumptions c18_hpack_valid_reprs_decode.

Example c18_reprs_example :
  let rs := [RSize 100; RSize 4096; RIndexed 2; RLitNew KIncr true [120; 45; 97] false [49]; RIndexed 62] in
  reprs_shape true rs /\ Forall (repr_ok 0) rs /\
  exists t', interp_reprs (d_tab (dec_new 4096)) rs = Some (t', [mkF [58;109;101;116;104;111;100] [71;69;84] false; mkF [120;45;97] [49] false; mkF [120;45;97] [49] false]).
Proof.
  cbn zeta. split; [cbn; tauto|]. split.
  - repeat constructor; try (vm_compute; reflexivity); try (left; reflexivity).
  - eexists. vm_compute. reflexivity.
Qed.

(* MOSN's encoder against the decoder: for EVERY sequence of header lists (any sizes, repeated names,
   sensitive fields; MOSN picks Huffman when shorter) interleaved with SetMaxDynamicTableSize calls,
   starting from synchronised states: every block decodes to the list that was encoded, and the
   synchronisation invariant is preserved - when no size update is pending the two dynamic tables are
   equal (c18_tables_equal).  Bounds: Go's uint32 entry-size arithmetic (len name + len value + 32 < 2^31,
   table limit < 2^31); decoder string limit 0 or >= 32 (static table entries must fit). *)
Theorem c18_hpack_roundtrip : forall maxstr ops e d,
  (maxstr = 0 \/ 32 <= maxstr) ->
  sync maxstr e (d_tab d) -> enc_wf e -> dec_idle maxstr d ->
  Forall (fun o => match o with OBlock fs => Forall (field_ok maxstr) fs | OSetMax _ => True end) ops ->
  exists e' d',
    run_session e d ops = (blocks_of ops, e', d') /\
    sync maxstr e' (d_tab d') /\ enc_wf e' /\ dec_idle maxstr d'.
Proof. intros maxstr ops e d. apply session_roundtrip. exact (eq_refl true). Qed.
Print Assumptions c18_hpack_roundtrip.

Theorem c18_tables_equal : forall maxstr e d, sync maxstr e d -> e_pending e = false ->
  tab_core (e_tab e) = tab_core d.
Proof. exact sync_tables_equal. Qed.

(* the states of NewEncoder / NewDecoder(4096) satisfy the hypotheses *)
Theorem c18_initial_states : forall maxstr,
  sync maxstr enc_new (d_tab (dec_new 4096)) /\ enc_wf enc_new /\ dec_idle 0 (dec_new 4096).
Proof. intro maxstr. split; [apply sync_initial | split; [apply enc_wf_initial | repeat split]]. Qed.

Example c18_session_example :
  let f1 := mkF [120; 45; 97] [49; 50; 51] false in
  let f2 := mkF [99; 111; 111; 107; 105; 101] [115] true in
  let ops := [OBlock [f1; f2]; OSetMax 50; OSetMax 200; OBlock [f1; f1]] in
  fst (fst (run_session enc_new (dec_new 4096) ops)) = blocks_of ops /\
  Forall (fun o => match o with OBlock fs => Forall (field_ok 0) fs | OSetMax _ => True end) ops.
Proof.
  cbn zeta. split; [vm_compute; reflexivity|].
  repeat constructor; try (vm_compute; reflexivity); try (left; reflexivity).
Qed.

(* ------------------------------------------------------------------ frames *)
From MV Require Import Model.H2Frame Proofs.H2FrameStable Proofs.H2FrameRT.

(* c18_frame_roundtrip: for every frame the writers (x/net's Framer.WriteXxx, MFramer.writeXxx) can emit -
   all ten types with padding / priority / flags, and unknown types - in every reader state that accepts the
   frame (checkFrameOrder), followed by ANY bytes: the reader returns exactly that frame and its length.
   Bounds: the 24-bit length field and the reader's maxReadSize. *)
Theorem c18_frame_roundtrip : forall a last last' mx rest,
  aframe_ok a ->
  (let '(t, fl, sid, p) := aframe_parts a in len p < 16777216 /\ len p <= mx) ->
  check_order last (f_hdr (frame_of a)) = HOk last' ->
  read_raw psw_ok last mx (ser_frame a ++ rest) 0 = WFrame (frame_of a) (len (ser_frame a)) last'.
Proof. exact frame_roundtrip. Qed.
Print Assumptions c18_frame_roundtrip.

(* the source accepts HEADERS frames with an empty fragment (the switch the theorem above is stated for) *)
Theorem c18_headers_empty_fragment_accepted : h2_headers_empty_frag_ok = true.
Proof. exact (eq_refl true). Qed.

(* before the repair (`len(p)-padLength <= 0`) such a frame, which x/net's writer emits and x/net's reader
   accepts, was a stream error *)
Theorem c18_headers_empty_fragment_refuted_before_repair :
  parse_payload (mkPsw false true true) (mkFh 0 T_HEADERS 0 1) [] = HErr EStream /\
  parse_payload psw_ok (mkFh 0 T_HEADERS 0 1) [] = HOk (BHeaders None []).
Proof. split; vm_compute; reflexivity. Qed.

Example c18_frame_example :
  let a := AHeaders 5 true false (Some (mkPrio 3 true 200)) [130; 134] (Some 4) in
  aframe_ok a /\ check_order 0 (f_hdr (frame_of a)) = HOk 5 /\
  ser_frame a = [0;0;12;1;41;0;0;0;5; 4; 128;0;0;3;200; 130;134; 0;0;0;0].
Proof. cbn zeta. split; [unfold aframe_ok, sid_ok, pad_ok, prio_ok, two31; cbn; lia | split; vm_compute; reflexivity]. Qed.

(* with C07's theorem (Props/C07_h2.v c07_h2_segmentation_independent) every frame sequence parses
   identically however it is cut. *)

(* ------------------------------------------------------------------ HEADERS / CONTINUATION aggregation *)
From MV Require Import Proofs.H2FrameMeta.

(* the CONTINUATION frames that follow a HEADERS frame without END_HEADERS are collected in order, each
   once, whatever their number and sizes (empty fragments included), and exactly their bytes are accounted
   for; anything may follow.  (Before the repair of readMetaFrame the second CONTINUATION was never reached:
   Props/C08_h2.v c08_h2_reader_loop_refuted_before_repair.) *)
Theorem c18_continuation_aggregation : forall cs sid mx drains fuel pre rest off msize acc,
  cs <> [] -> sid_ok sid ->
  Forall (fun f => len f < 16777216 /\ len f <= mx) cs ->
  (length cs <= fuel)%nat -> len pre = off + msize ->
  collect psw_ok true drains fuel sid mx (pre ++ ser_conts sid cs ++ rest) off msize acc =
  COk (acc ++ cs) (msize + len (ser_conts sid cs)).
Proof. exact collect_ser. Qed.
Print Assumptions c18_continuation_aggregation.

(* frame layer and HPACK composed: a HEADERS frame (any padding / priority / END_STREAM) whose fragment is
   a complete header block of ANY valid representations - from MOSN's or x/net's encoder - of fields the
   reader's validation accepts (sink_run: lower-case token names, no control characters in values,
   pseudo-headers first, list size within MaxHeaderListSize; check_pseudos) is returned as a
   MetaHeadersFrame with exactly those fields, the bytes of the frame are consumed, and the reader's HPACK
   table is the one the representations lead to. *)
Theorem c18_headers_block_roundtrip : forall st sid es pr pad rs t' fs rest sk',
  fs_last st = 0 ->
  let a := AHeaders sid es true pr (flat_map ser_repr rs) pad in
  aframe_ok a ->
  (let '(t, fl, s, p) := aframe_parts a in len p < 16777216 /\ len p <= fs_max st) ->
  d_save (fs_dec st) = [] -> d_first (fs_dec st) = true ->
  dt_allowed (d_tab (fs_dec st)) < 2 ^ 32 ->
  rs <> [] -> reprs_shape true rs -> Forall (repr_ok (fs_maxlist st)) rs ->
  interp_reprs (d_tab (fs_dec st)) rs = Some (t', fs) ->
  Forall (field_fits (fs_maxlist st)) fs ->
  sink_run (mkSink (fs_maxlist st) false false false []) fs = Some sk' ->
  check_pseudos fs [] false false = true ->
  forall drains,
  read_frame_gen psw_ok true drains st (ser_frame a ++ rest) =
  ROk (mkFrame (f_hdr (frame_of a)) (BMeta pr fs false)) (len (ser_frame a))
      (mkFs 0 (fs_max st) (fs_maxlist st) (mkD t' (fs_maxlist st) true true [])).
Proof. intros st sid es pr pad rs t' fs rest sk'. apply headers_block_roundtrip. exact (eq_refl true). Qed.
Print Assumptions c18_headers_block_roundtrip.

Example c18_headers_block_example :
  let rs := [RIndexed 2; RIndexed 6; RIndexed 4; RLitNew KIncr true [120; 45; 97] false [49]] in
  match read_frame fs_new (ser_frame (AHeaders 1 true true None (flat_map ser_repr rs) None) ++ [0;0;0]) with
  | ROk f _ _ => f_body f = BMeta None [mkF N_method [71;69;84] false; mkF N_scheme [104;116;116;112] false; mkF N_path [47] false; mkF [120;45;97] [49] false] false
  | _ => False
  end.
Proof. vm_compute. reflexivity. Qed.

(* ------------------------------------------------------------------ header blocks over several frames; the sender *)
From MV Require Import Proofs.HpackStable Proofs.H2Send Proofs.H2FrameMulti.

(* the HPACK representation parser is prefix-stable ... *)
Theorem c18_hpack_repr_prefix_stable : forall st p e, p <> [] -> parse_repr st p <> HNeedMore ->
  parse_repr st (p ++ e) = ext_pres (parse_repr st p) e.
Proof. exact parse_repr_app. Qed.
Print Assumptions c18_hpack_repr_prefix_stable.

(* ... so the fragments of a valid header block may be cut ANYWHERE (inside integers, strings, Huffman data; empty
   fragments): feeding them one by one, as readMetaFrame does, yields the fields and the table of the whole block.
   Bound: the block is not longer than 2*(maxStrLen+8) (or no string limit) - beyond it Decoder.Write's "paranoia"
   test may refuse a fragmented block that it accepts whole. *)
Theorem c18_hpack_fragments_decode : forall frags leading st sk rs t' sk',
  mvalid leading (d_with_save st []) rs sk t' sk' ->
  flat_map ser_repr rs = d_save st ++ concat frags ->
  (d_maxstr st = 0 \/ len (d_save st ++ concat frags) <= 2 * (d_maxstr st + 8)) ->
  (concat frags = [] -> rs = [] /\ d_save st = []) ->
  exists fb, meta_frags st frags sk = (mkD t' (d_maxstr st) true fb [], sk', WOk).
Proof. intros frags leading st sk rs t' sk'. apply meta_frags_valid. exact (eq_refl true). Qed.
Print Assumptions c18_hpack_fragments_decode.

(* c18_headers_block_roundtrip for MULTI-fragment blocks: a HEADERS frame (any padding / priority) followed by any
   number of CONTINUATION frames whose fragments concatenate to a header block of ANY valid representations is read
   as one MetaHeadersFrame with exactly the encoded fields; all the frames' bytes are consumed. *)
Theorem c18_headers_multi_roundtrip : forall st sid es pr pad f0 cs rs t' fs rest sk',
  fs_last st = 0 ->
  let a := AHeaders sid es (match cs with [] => true | _ => false end) pr f0 pad in
  aframe_ok a ->
  (let '(t, fl, s, p) := aframe_parts a in len p < 16777216 /\ len p <= fs_max st) ->
  Forall (fun f => len f < 16777216 /\ len f <= fs_max st) cs ->
  d_save (fs_dec st) = [] -> d_first (fs_dec st) = true ->
  dt_allowed (d_tab (fs_dec st)) < 2 ^ 32 ->
  concat (f0 :: cs) = flat_map ser_repr rs -> rs <> [] ->
  (fs_maxlist st = 0 \/ len (flat_map ser_repr rs) <= 2 * (fs_maxlist st + 8)) ->
  reprs_shape true rs -> Forall (repr_ok (fs_maxlist st)) rs ->
  interp_reprs (d_tab (fs_dec st)) rs = Some (t', fs) ->
  Forall (field_fits (fs_maxlist st)) fs ->
  sink_run (mkSink (fs_maxlist st) false false false []) fs = Some sk' ->
  check_pseudos fs [] false false = true ->
  forall drains,
  read_frame_gen psw_ok true drains st (ser_frame a ++ ser_conts sid cs ++ rest) =
  ROk (mkFrame (f_hdr (frame_of a)) (BMeta pr fs false)) (len (ser_frame a) + len (ser_conts sid cs))
      (mkFs 0 (fs_max st) (fs_maxlist st) (mkD t' (fs_maxlist st) true true [])).
Proof. intros st sid es pr pad f0 cs rs t' fs rest sk'. apply headers_multi_roundtrip. exact (eq_refl true). Qed.
Print Assumptions c18_headers_multi_roundtrip.

(* The sender (MServerConn.writeHeaders, split at 16384; MClientConn.writeHeaders, split at the peer's
   SETTINGS_MAX_FRAME_SIZE), with the loop comparison read from the source: for EVERY block and EVERY max frame
   size >= 1 the fragments concatenate to the block, none is larger than the max frame size, END_HEADERS is set on
   the last fragment and on no other, a non-empty block yields at least one frame.  (An empty block yields no frame
   in the code: `for len(block) > 0`; header blocks are never empty - :status / :method - and the server panics
   on an empty non-trailer block before the loop.) *)
Theorem c18_header_block_fragmentation : forall block mx, 1 <= mx ->
  concat (map fst (split_block block mx)) = block /\
  Forall (fun f => len (fst f) <= mx) (split_block block mx) /\
  (block <> [] -> flags_ok (split_block block mx) /\ split_block block mx <> []) /\
  (block = [] -> split_block block mx = []).
Proof. exact (split_block_correct (eq_refl true)). Qed.
Print Assumptions c18_header_block_fragmentation.

(* with "last fragment iff remaining < max" a block of exactly k * max bytes is sent without END_HEADERS at all *)
Theorem c18_header_block_fragmentation_refuted_with_strict_comparison : forall k fuel block mx,
  1 <= mx -> len block = N.of_nat (S k) * mx -> (length block <= fuel)%nat ->
  Forall (fun f => snd f = false) (split_block_gen false fuel block mx) /\ split_block_gen false fuel block mx <> [].
Proof. exact split_strict_unterminated. Qed.
Print Assumptions c18_header_block_fragmentation_refuted_with_strict_comparison.

(* sender and reader composed: the frames writeHeaders emits for the header block of ANY valid representations,
   split at ANY max frame size the reader accepts, are read back as one MetaHeadersFrame with the encoded fields *)
Theorem c18_sent_header_block_read_back : forall st sid es mx rs t' fs rest sk',
  fs_last st = 0 -> sid_ok sid ->
  1 <= mx -> mx < 16777216 -> mx <= fs_max st ->
  d_save (fs_dec st) = [] -> d_first (fs_dec st) = true ->
  dt_allowed (d_tab (fs_dec st)) < 2 ^ 32 ->
  rs <> [] ->
  (fs_maxlist st = 0 \/ len (flat_map ser_repr rs) <= 2 * (fs_maxlist st + 8)) ->
  reprs_shape true rs -> Forall (repr_ok (fs_maxlist st)) rs ->
  interp_reprs (d_tab (fs_dec st)) rs = Some (t', fs) ->
  Forall (field_fits (fs_maxlist st)) fs ->
  sink_run (mkSink (fs_maxlist st) false false false []) fs = Some sk' ->
  check_pseudos fs [] false false = true ->
  forall drains,
  exists hdr,
  read_frame_gen psw_ok true drains st (ser_fragments sid es (split_block (flat_map ser_repr rs) mx) ++ rest) =
  ROk (mkFrame hdr (BMeta None fs false)) (len (ser_fragments sid es (split_block (flat_map ser_repr rs) mx)))
      (mkFs 0 (fs_max st) (fs_maxlist st) (mkD t' (fs_maxlist st) true true [])).
Proof. intros st sid es mx rs t' fs rest sk'. apply sent_block_read_back; exact (eq_refl true). Qed.
Print Assumptions c18_sent_header_block_read_back.

Example c18_fragmentation_example :
  map (fun f => (len (fst f), snd f)) (split_block (repeat 7 (N.to_nat 32768)) 16384) = [(16384, false); (16384, true)] /\
  map (fun f => (len (fst f), snd f)) (split_block_gen false (N.to_nat 40000) (repeat 7 (N.to_nat 32768)) 16384) = [(16384, false); (16384, false)] /\
  (let rs := [RIndexed 2; RIndexed 6; RIndexed 4; RLitNew KIncr false [120; 45; 97] false [49; 50; 51; 52; 53]] in
   match read_frame fs_new (ser_fragments 1 true (split_block (flat_map ser_repr rs) 4) ++ [0; 0]) with
   | ROk f n _ =>
       f_body f = BMeta None [mkF N_method [71;69;84] false; mkF N_scheme [104;116;116;112] false; mkF N_path [47] false; mkF [120;45;97] [49;50;51;52;53] false] false /\
       n = len (ser_fragments 1 true (split_block (flat_map ser_repr rs) 4))
   | _ => False
   end).
Proof. cbn zeta. split; [vm_compute; reflexivity|]. split; [vm_compute; reflexivity|]. vm_compute. split; reflexivity. Qed.

(* ------------------------------------------------------------------ padded frames without content *)
(* c18_frame_roundtrip quantifies over them: `AData sid es [] (Some k)`, `AHeaders .. [] (Some k)`, `APush .. [] (Some k)`
   serialise to PADDED frames whose content is empty (pad length = payload - 1 for DATA).  The pad-length comparisons
   of the three padded parsers are read from frame.go (h2_data_pad_gt, h2_headers_empty_frag_ok, h2_push_pad_gt). *)
Theorem c18_padded_parsers_as_source : psw_src = psw_ok.
Proof. exact (eq_refl psw_ok). Qed.

Example c18_zero_content_padded_frames : forall sid es k rest, sid_ok sid -> k < 256 -> 300 <= fs_max fs_new ->
  read_raw psw_ok 0 (fs_max fs_new) (ser_frame (AData sid es [] (Some k)) ++ rest) 0 =
  WFrame (frame_of (AData sid es [] (Some k))) (len (ser_frame (AData sid es [] (Some k)))) 0.
Proof.
  intros sid es k rest Hs Hk Hmx. apply frame_roundtrip.
  - cbn [aframe_ok pad_ok]. tauto.
  - cbn [aframe_parts pad_prefix pad_suffix app]. rewrite len_cons. unfold len. rewrite repeat_length. split; lia.
  - unfold frame_of. cbn [aframe_parts f_hdr]. reflexivity.
Qed.

(* with `padSize >= len(payload)` (payload already without the Pad Length octet) a padded DATA frame without data -
   e.g. a padded empty END_STREAM frame - is a connection error although it is valid and the reference accepts it;
   likewise for PUSH_PROMISE *)
Theorem c18_pad_check_refuted_with_ge : forall sid es k, sid_ok sid -> k < 256 ->
  parse_payload (mkPsw true false true) (mkFh (1 + k) T_DATA (b2n es 1 + 8) sid) ([k] ++ repeat 0 (N.to_nat k)) = HErr EProtocol /\
  parse_payload psw_ok (mkFh (1 + k) T_DATA (b2n es 1 + 8) sid) ([k] ++ repeat 0 (N.to_nat k)) = HOk (BData []).
Proof. exact data_pad_ge_refuted. Qed.
Print Assumptions c18_pad_check_refuted_with_ge.
