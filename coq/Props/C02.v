(* C02 - Request/response correlation: nobody ever receives someone else's answer.
   This file: the part owned by group `pool` - one xprotocol client stream connection (pkg/stream/xprotocol/conn.go,
   stream.go, pkg/stream/client.go): id allocation through counter wrap-around, the client stream table, responses in
   any order / duplicated / unknown / late, stream resets, connection resets; and the server-side id restore.
   Only statements here; proofs by `exact`.

   Model/XConn.v: `xrun g ops (xinit c0)` is the connection after the history `ops` of operations
   {XNew oneway, XResponse id, XReset s, XConnReset}, started with an ARBITRARY counter value c0 < 2^64 (so every
   position relative to the 2^31 / 2^32 / 2^63 / 2^64 wrap points is covered); g is the protocol's GenerateRequestID
   (GenU32 bolt/boltv2, GenS32 tars, GenU64 dubbo/dubbothrift).  Theorems quantify over all g, c0 and ALL histories. *)
From Coq Require Import List NArith Bool.
From MV Require Import Model.XConn Proofs.XConn Model.XAlloc Proofs.XAlloc Model.XReply Proofs.XReply Gen.XConnSrc.
From MV Require Model.Pool Gen.PoolSrc Proofs.Pool.
Import ListNotations.
Open Scope N_scope.

(* Delivery soundness.  After every history x: a response with id `id` is delivered to a stream s only if s exists,
   `id` is the id that was allocated to s, s is in flight and has received nothing before; after the delivery s has
   exactly one delivery, is no longer in flight and `id` is out of the table (so a duplicate is dropped); a response
   whose id is not in the table (unknown, already answered, reset by its holder) is dropped without any effect; no
   stream ever has two deliveries; a stream that is not in flight owns no table entry; only responses cause deliveries. *)
Theorem c02_delivery_sound : forall g c0 ops, real_gen g -> c0 < two64 -> let x := xrun g ops (xinit c0) in
  (forall id x' s, xstep g x (XResponse id) = (x', ODeliver s) ->
     (s < nstreams x)%nat /\ x_id (xst x s) = id /\ id = gen_id g ((c0 + N.of_nat s + 1) mod two64) /\
     x_inflight (xst x s) = true /\ x_recv (xst x s) = 0%nat /\
     x_recv (xst x' s) = 1%nat /\ x_inflight (xst x' s) = false /\ lookup id (tbl x') = None) /\
  (forall id, lookup id (tbl x) = None -> xstep g x (XResponse id) = (x, ODrop)) /\
  (forall s, (s < nstreams x)%nat -> (x_recv (xst x s) <= 1)%nat) /\
  (forall s id, (s < nstreams x)%nat -> x_inflight (xst x s) = false -> lookup id (tbl x) <> Some s) /\
  (forall o x' s, xstep g x o = (x', ODeliver s) -> exists id, o = XResponse id).
Proof. exact xconn_delivery_sound. Qed.
Print Assumptions c02_delivery_sound.

(* No stale id after a reset (time-out / abort of an attempt, also the attempt of a RETRY, which re-uses the pooled stream
   object of the request context): after XReset s of a stream not marked by a connection reset, its id is out of the
   client stream table, no table entry leads to s, and a reply carrying that id later is dropped - it cannot reach the
   request that uses the stream object next.  Read from the source on every run: xStream.ResetStream starts with the
   delete under clientMutex (no return before it), and newClientStream starts from a clean stream object, so that XNew's
   "fresh, alive stream" is what a retry gets. *)
Theorem c02_reset_leaves_no_stale_id : forall g c0 ops s, real_gen g -> c0 < two64 -> let x := xrun g ops (xinit c0) in
  (s < nstreams x)%nat -> x_connreset (xst x s) = false ->
  let x' := fst (xstep g x (XReset s)) in
  lookup (x_id (xst x s)) (tbl x') = None /\ (forall id, lookup id (tbl x') <> Some s) /\
  xstep g x' (XResponse (x_id (xst x s))) = (x', ODrop).
Proof. exact xconn_reset_no_stale_id. Qed.
Print Assumptions c02_reset_leaves_no_stale_id.

Theorem c02_stream_table_source_shape : xsrc_reset_deletes_unconditionally = true /\ xsrc_client_stream_fresh = true.
Proof. exact (conj (eq_refl true) (eq_refl true)). Qed.

(* XResponse of Model/XConn.v is ONE step - look the frame's id up, delete THAT id, then deliver.  Read from the source on
   every run: handleResponse does lookup and delete in one clientMutex critical section, keyed by the id of the frame,
   defers nothing, and calls the receiver after the unlock.  A delete that runs after the delivery and reads the id from
   the stream object (seed C02-h) meets the object already re-used by a retry created inside OnReceive: it unregisters
   the retry and leaves the answered id registered, so a duplicate frame is delivered to the retry.  In the model the
   answered id is gone from the table when the delivery happens, whatever the history, and a second frame with it is dropped. *)
Theorem c02_response_source_shape : xsrc_response_delete_atomic_before_deliver = true.
Proof. exact (eq_refl true). Qed.

Theorem c02_answered_id_is_gone_at_delivery : forall g x id x' s, xstep g x (XResponse id) = (x', ODeliver s) ->
  lookup id (tbl x') = None /\ xstep g x' (XResponse id) = (x', ODrop).
Proof. exact xconn_answered_id_gone. Qed.
Print Assumptions c02_answered_id_is_gone_at_delivery.

(* No id collision, through counter wrap-around.  `wok` is the executable ghost "no stream was kept in the table, or
   reset by its holder, id_space g (= 2^32 / 2^64) or more allocations after its own"; `displaced` counts how often a
   stream lost its table entry to ANOTHER stream carrying the same id.  After every history: wok -> displaced = 0;
   every in-flight stream owns the entry of its id; keys are unique; if every table entry is younger than a full
   turn, the id handed out next is not in the table; the counter is c0 + #allocations mod 2^64 (the wrap). *)
Theorem c02_no_collision : forall g c0 ops, real_gen g -> c0 < two64 -> let x := xrun g ops (xinit c0) in
  (wok x = true -> displaced x = 0%nat) /\
  (forall s, (s < nstreams x)%nat -> x_inflight (xst x s) = true -> lookup (x_id (xst x s)) (tbl x) = Some s) /\
  NoDup (map fst (tbl x)) /\
  (forallb (fun e => age x (snd e) <? id_space g) (tbl x) = true ->
     lookup (gen_id g (next_ctr (ctr x))) (tbl x) = None) /\
  ctr x = (c0 + N.of_nat (nstreams x)) mod two64.
Proof. exact xconn_no_collision. Qed.
Print Assumptions c02_no_collision.

(* ids allocated fewer than id_space apart differ - the arithmetic fact behind it, wrap included *)
Theorem c02_ids_distinct_in_window : forall g c0 a b, real_gen g -> c0 < two64 -> a < b -> b - a < id_space g ->
  gen_id g ((c0 + a + 1) mod two64) <> gen_id g ((c0 + b + 1) mod two64).
Proof. exact gen_inj. Qed.
Print Assumptions c02_ids_distinct_in_window.

(* End-to-end id restore (server side): the request forwarded upstream carries the upstream id, the reply written
   downstream carries the downstream request's original id, for every pairing of the two ids; payloads untouched. *)
Theorem c02_end_to_end_id : forall req u resp,
  f_id (upstream_request req u) = u /\ f_payload (upstream_request req u) = f_payload req /\
  f_id (downstream_reply (server_stream_id req) resp) = f_id req /\
  f_payload (downstream_reply (server_stream_id req) resp) = f_payload resp.
Proof. exact xserver_id_restore. Qed.
Print Assumptions c02_end_to_end_id.

(* Concurrent allocation.  Several goroutines allocate ids on ONE connection counter (worker goroutines of one multiplexed
   upstream connection).  `xsrc_<proto>` is the shape of that protocol's GenerateRequestID, READ FROM THE SOURCE on this run
   (Gen/XConnSrc.v): today a single atomic.AddUint64 with a cast for all of them.  For every number of threads, every
   number of allocations per thread (todo), every initial counter and EVERY schedule of the atomic steps (Lib/Interleave):
   as long as the allocations of the run fit into the id space, the ids handed out are pairwise distinct, and they are
   exactly the ids of consecutive counter values.  (If a protocol's GenerateRequestID stops being one atomic step, the
   `exact` below no longer type-checks.) *)
Theorem c02_translator_ok : XConnSrc_translator_ok = true.
Proof. exact (eq_refl true). Qed.

Definition concurrent_alloc_distinct (pr : alloc_prog) (g : genk) : Prop :=
  forall c0 todo sched, c0 < two64 -> N.of_nat (total_todo (athreads todo)) <= id_space g ->
  let cfg := arun pr sched todo c0 in
  NoDup (all_ids (fst cfg)) /\
  exists m, (m <= total_todo (athreads todo))%nat /\ snd cfg = (c0 + N.of_nat m) mod two64 /\
            Permutation.Permutation (all_ids (fst cfg)) (ids_upto g c0 m).

Theorem c02_concurrent_alloc_bolt : concurrent_alloc_distinct xsrc_bolt GenU32 /\ concurrent_alloc_distinct xsrc_boltv2 GenU32.
Proof. exact (conj (fun c0 todo sched H => alloc_atomic_distinct GenU32 c0 todo sched (or_introl eq_refl) H)
                   (fun c0 todo sched H => alloc_atomic_distinct GenU32 c0 todo sched (or_introl eq_refl) H)). Qed.
Print Assumptions c02_concurrent_alloc_bolt.

Theorem c02_concurrent_alloc_tars : concurrent_alloc_distinct xsrc_tars GenS32.
Proof. exact (fun c0 todo sched H => alloc_atomic_distinct GenS32 c0 todo sched (or_intror (or_introl eq_refl)) H). Qed.
Print Assumptions c02_concurrent_alloc_tars.

Theorem c02_concurrent_alloc_dubbo : concurrent_alloc_distinct xsrc_dubbo GenU64 /\ concurrent_alloc_distinct xsrc_dubbothrift GenU64.
Proof. exact (conj (fun c0 todo sched H => alloc_atomic_distinct GenU64 c0 todo sched (or_intror (or_intror eq_refl)) H)
                   (fun c0 todo sched H => alloc_atomic_distinct GenU64 c0 todo sched (or_intror (or_intror eq_refl)) H)). Qed.
Print Assumptions c02_concurrent_alloc_dubbo.

(* non-vacuity: three threads, 2+3+1 allocations, a schedule with stutters, counter crossing 2^31 with the tars generator *)
Example c02_concurrent_alloc_example :
  let cfg := arun xsrc_tars [2;0;1;1;7;0;2;1;0;1]%nat [2;3;1]%nat 2147483645 in
  all_ids (fst cfg) = [18446744071562067970; 2147483647; 18446744071562067971; 18446744071562067969; 18446744071562067968; 2147483646]
  /\ snd cfg = 2147483651.
Proof. vm_compute. split; reflexivity. Qed.

(* a wrap done in TWO atomic steps (add; if above the limit store 1 and return 1) is refuted: two threads, one allocation
   each, counter at MaxInt32; interleaved both return 1 - although run one after the other they get 1 and 2 *)
Definition c02_add_then_reset_statement : Prop :=
  forall c0 todo sched, c0 < two64 -> N.of_nat (total_todo (athreads todo)) <= two31 ->
  NoDup (all_ids (fst (arun (AddThenReset 2147483647) sched todo c0))).
Theorem c02_add_then_reset_refuted : ~ c02_add_then_reset_statement.
Proof.
  intros H. specialize (H 2147483647 [1;1]%nat [0;1;0;1]%nat eq_refl).
  assert (Hw : N.of_nat (total_todo (athreads [1; 1]%nat)) <= two31) by (vm_compute; discriminate).
  specialize (H Hw). vm_compute in H. inversion H as [|x l Hnot _]. apply Hnot. left. reflexivity.
Qed.
Example c02_add_then_reset_sequential_ok :
  all_ids (fst (arun (AddThenReset 2147483647) [0;0;1;1]%nat [1;1]%nat 2147483647)) = [1; 2].
Proof. vm_compute. reflexivity. Qed.

(* Ping-pong connections carry no usable request id on the wire (HTTP/1.1): correlation is by order.  For every
   history of the ping-pong pools (Model/Pool.v, theorems of C09) at most one stream is in flight on a connection, so the
   response read next on a connection can only belong to that one stream; the pool harness checks on the real pools that
   the token echoed in every delivered response is the receiver's own (finder `foreign-response`). *)
Theorem c02_pingpong_fifo : forall k ops, Model.Pool.k_sw k = Gen.PoolSrc.pool_src_switches ->
  let p := Model.Pool.run k ops Model.Pool.init in
  forall s1 s2, (s1 < Model.Pool.nstreams p)%nat -> (s2 < Model.Pool.nstreams p)%nat ->
    Model.Pool.live p s1 = true -> Model.Pool.live p s2 = true -> Model.Pool.scli p s1 = Model.Pool.scli p s2 -> s1 = s2.
Proof. exact (fun k ops H => Proofs.Pool.inv_excl _ _ (Proofs.Pool.reachable_inv k ops H)). Qed.
Print Assumptions c02_pingpong_fifo.

(* End-to-end id restore for EVERY kind of reply the server stream can write (Model/XReply.v).  The request frame is one
   object shared with the upstream client stream(s), which overwrite its id field with their upstream ids (any number of
   forwards: retries).  `xsrc_restamp` (where the server stream stamps its own id on what it writes) and `xsrc_hijack_<proto>`
   (the id the codec's Hijack puts in) are READ FROM THE SOURCE.  For every downstream id d, every list of upstream ids,
   every reply kind (upstream response, hijack/exception reply before or after the forwards, heartbeat ack, one-way) and
   every codec: whatever is written downstream carries d; nothing is written exactly for one-way requests and for a codec
   without hijack. *)
Theorem c02_reply_id_every_kind : forall hj d us k,
  (forall id, wire_id xsrc_restamp hj (rrun d us) k = Some id -> id = d) /\
  (wire_id xsrc_restamp hj (rrun d us) k = None <-> (k = KOneway \/ (k = KHijack /\ hj = HjNone))).
Proof. exact (fun hj d us k => conj (reply_id_restored hj d us k) (reply_written hj d us k)). Qed.
Print Assumptions c02_reply_id_every_kind.

(* stamping only the frames that did not come out of Hijack is refuted: a hijack reply built after the forward carries the
   upstream id (the request frame's id field was overwritten by the client stream) *)
Definition c02_reply_id_nonhijack_statement : Prop :=
  forall hj d us k id, wire_id RestampNonHijack hj (rrun d us) k = Some id -> id = d.
Theorem c02_reply_id_nonhijack_refuted : ~ c02_reply_id_nonhijack_statement.
Proof.
  intros H. destruct reply_id_nonhijack_bad as [d [u [Hne Hw]]]. apply Hne. symmetry. exact (H HjCopy d [u] KHijack u Hw).
Qed.
Print Assumptions c02_reply_id_nonhijack_refuted.

Example c02_reply_example :
  map (wire_id xsrc_restamp xsrc_hijack_dubbo (rrun 5 [4294967296; 77])) [KUpstream 77; KHijack; KHeartbeat; KOneway] =
    [Some 5; Some 5; Some 5; None] /\
  wire_id xsrc_restamp xsrc_hijack_bolt (rrun 5 [9]) KHijack = Some 5 /\ wire_id xsrc_restamp xsrc_hijack_tars (rrun 5 [9]) KHijack = None.
Proof. vm_compute. repeat split; reflexivity. Qed.

(* ---- non-vacuity ------------------------------------------------------------------------------------------ *)
(* bolt ids, counter two below 2^32: three streams allocated across the wrap (ids 2^32-1, 0, 1), answered in the order
   2,0,0(duplicate),unknown,1 with a stream reset and a connection reset in between: hypotheses inhabited, wok holds *)
Example c02_example_wrap :
  let x := xrun GenU32 [XNew false; XNew false; XNew false; XResponse 1; XResponse 4294967295; XResponse 4294967295;
                        XResponse 77; XReset 1; XConnReset] (xinit 4294967294) in
  map (fun s => x_id (xst x s)) [0;1;2]%nat = [4294967295; 0; 1] /\
  map (fun s => x_recv (xst x s)) [0;1;2]%nat = [1;0;1]%nat /\
  tbl x = [] /\ wok x = true /\ displaced x = 0%nat /\ ctr x = 4294967297 /\
  snd (xstep GenU32 x (XResponse 0)) = ODrop /\
  snd (xstep GenU32 (xrun GenU32 [XNew false] (xinit 4294967294)) (XResponse 4294967295)) = ODeliver 0%nat.
Proof. vm_compute. repeat split; reflexivity. Qed.

(* tars ids are sign-extended: the id after 2^31-1 is 2^64-2^31 *)
Example c02_example_tars :
  let x := xrun GenS32 [XNew false; XNew false] (xinit 2147483646) in
  map (fun s => x_id (xst x s)) [0;1]%nat = [2147483647; 18446744071562067968] /\
  snd (xstep GenS32 x (XResponse 18446744071562067968)) = ODeliver 1%nat.
Proof. vm_compute. repeat split; reflexivity. Qed.

(* ---- why the hypothesis is an allocation WINDOW and not "fewer than 2^32 streams in flight" -------------------
   With 2-bit ids (a small stand-in for 32 bits): stream 0 stays in flight while four more streams come and go
   one at a time (never more than two in flight); the fifth allocation hands out stream 0's id again, stream 0 loses
   its entry and stream 5 gets stream 0's answer.  The real code does the same (harness: c02_window_witness). *)
Example c02_window_needed :
  let ops := [XNew false; XNew false; XResponse 2; XNew false; XResponse 3; XNew false; XResponse 0; XNew false] in
  let x := xrun (GenBits 2) ops (xinit 0) in
  x_id (xst x 0%nat) = 1 /\ x_id (xst x 4%nat) = 1 /\ length (tbl x) = 1%nat /\
  wok x = false /\ displaced x = 1%nat /\ x_inflight (xst x 0%nat) = false /\
  snd (xstep (GenBits 2) x (XResponse 1)) = ODeliver 4%nat.
Proof. vm_compute. repeat split; reflexivity. Qed.
