(* C18 (flow control part) - "As a sender MOSN never puts more DATA on a stream or connection than the peer's
   advertised flow-control window and maximum frame size allow, yet delivers the complete body as window updates
   arrive."  Only statements here; proofs by `exact`.  Model: Model/Flow.v; proofs: Proofs/Flow.v.
   The two source-dependent parameters come from the generated Gen/H2Src.v:
     h2_client_settings_wakes      MClientConn.processSettings contains cc.cond.Broadcast()
     h2_winupd_wakes_always        processWindowUpdate (server and client) broadcasts unconditionally
     h2_client_settings_validated  MClientConn.processSettings calls s.Valid()
     h2_write_chunk                const maxFrameSize of MFramer.writeData *)
From Coq Require Import List ZArith Bool Lia.
From MV Require Import Gen.H2Src Model.Flow Proofs.Flow.
Import ListNotations.
Open Scope Z_scope.

(* the two sender configurations of the tree *)
Definition cfg_server : cfg := mkCfg Server true h2_winupd_wakes_always true h2_write_chunk.
Definition cfg_client : cfg :=
  mkCfg Client h2_client_settings_wakes h2_winupd_wakes_always h2_client_settings_validated h2_write_chunk.

(* ------------------------------------------------------------------ flow.add *)
(* for all int32 operands: add stores the exact sum when it is an int32 and reports true, otherwise it leaves the
   window alone and reports false - it never stores a wrapped value *)
Theorem c18_flow_add_no_silent_wrap : forall n delta,
  i32_min <= n <= i32_max -> i32_min <= delta <= i32_max ->
  (i32_min <= n + delta <= i32_max -> flow_add n delta = (n + delta, true)) /\
  (~ (i32_min <= n + delta <= i32_max) -> flow_add n delta = (n, false)).
Proof. exact flow_add_spec. Qed.
Print Assumptions c18_flow_add_no_silent_wrap.

Example c18_flow_add_examples :
  flow_add 2147483647 1 = (2147483647, false) /\ flow_add (-2147483648) (-1) = (-2147483648, false) /\
  flow_add 2147483646 1 = (2147483647, true) /\ flow_add 65535 (-65535) = (0, true) /\
  flow_add 0 (-2147483647) = (-2147483647, true) /\ flow_add (-2147483647) 2147483647 = (0, true).
Proof. vm_compute. repeat split. Qed.

(* ------------------------------------------------------------------ safety *)
(* EVERY schedule `evs` of valid events (any number of streams opened at any time with any body length; WINDOW_UPDATEs
   1..2^31-1 on streams and on the connection; SETTINGS_INITIAL_WINDOW_SIZE 0..2^31-1 up and down;
   SETTINGS_MAX_FRAME_SIZE 2^14..2^24-1; sender iterations and wake-ups in any interleaving), from a fresh connection
   with any initial windows / max frame size (the code's: 65535, 65535, 16384).  At EVERY position pre ++ e :: post:
     - no panic ("took too much", empty take);
     - every DATA frame f emitted by e comes from a sender iteration of its stream, is non-empty, at most the
       SETTINGS_MAX_FRAME_SIZE in force and at most the writeData chunk, and
       (bytes of that stream put into DATA so far, f's take included) <= (initial window in force + the stream's
       WINDOW_UPDATE increments), counted over the frames MOSN handled (`effective`: peer frames arriving after MOSN
       has answered with a connection error are never handled - the read loop has stopped);
     - all DATA of all streams so far <= initial connection window + connection WINDOW_UPDATE increments;
     - the pieces of each stream are consecutive from offset 0. *)
Definition safety_at (g : cfg) : Prop :=
  forall cw i0 m0 evs,
  0 <= cw <= i32_max -> 0 <= i0 <= i32_max -> 16384 <= m0 <= 16777215 ->
  Forall ev_valid evs ->
  forall pre e post, evs = pre ++ e :: post ->
    let c0 := conn_new cw i0 m0 in
    let c1 := fst (run g c0 pre) in
    let f1 := snd (run g c0 pre) in
    let c2 := fst (step g c1 e) in
    let f2 := snd (step g c1 e) in
    let handled := effective g c0 (pre ++ [e]) in
    c_panic c2 = false /\
    (forall f, In f f2 ->
        e = ESend (f_sid f) /\
        0 < f_len f <= gl_mfs (gledger cw i0 m0 handled) /\ f_len f <= g_chunk g /\
        sent_on (f_sid f) (f1 ++ f2) <= stream_credit cw i0 m0 (f_sid f) handled) /\
    sent_total (f1 ++ f2) <= conn_credit cw i0 m0 handled /\
    (forall sid, contig 0 (frames_of sid (f1 ++ f2))).

Theorem c18_flow_safety : safety_at cfg_server /\ safety_at cfg_client.
Proof.
  split; intros cw i0 m0 evs Hcw Hi0 Hm0.
  - exact (flow_safety cfg_server cw i0 m0 evs (eq_refl Lt) Hcw Hi0 Hm0).
  - exact (flow_safety cfg_client cw i0 m0 evs (eq_refl Lt) Hcw Hi0 Hm0).
Qed.
Print Assumptions c18_flow_safety.

(* ... and it does not depend on any wake-up (nor on the client's validation): it holds whatever the switches say *)
Theorem c18_flow_safety_any_cfg : forall sd wk wu vd, safety_at (mkCfg sd wk wu vd h2_write_chunk).
Proof. intros sd wk wu vd cw i0 m0 evs Hcw Hi0 Hm0. exact (flow_safety (mkCfg sd wk wu vd h2_write_chunk) cw i0 m0 evs (eq_refl Lt) Hcw Hi0 Hm0). Qed.

(* with a peer that never lets a credit exceed 2^31-1 (RFC 7540 6.9.1) every event is handled, there is no
   connection error and the accounting is exact: window + sent = credit on every stream and on the connection *)
Theorem c18_flow_accounting_exact : forall sd wk wu vd cw i0 m0 evs,
  0 <= cw <= i32_max -> 0 <= i0 <= i32_max -> 16384 <= m0 <= 16777215 ->
  Forall ev_valid evs -> bounded cw i0 m0 evs ->
  let g := mkCfg sd wk wu vd h2_write_chunk in
  let c := fst (run g (conn_new cw i0 m0) evs) in
  let fs := snd (run g (conn_new cw i0 m0) evs) in
  effective g (conn_new cw i0 m0) evs = evs /\ c_err c = false /\
  c_win c + sent_total fs = conn_credit cw i0 m0 evs /\
  forall s, In s (c_strs c) -> s_win s + sent_on (s_id s) fs = stream_credit cw i0 m0 (s_id s) evs.
Proof. intros sd wk wu vd cw i0 m0 evs. exact (flow_exact (mkCfg sd wk wu vd h2_write_chunk) cw i0 m0 evs (eq_refl Lt)). Qed.
Print Assumptions c18_flow_accounting_exact.

(* non-vacuity: a schedule with two streams, window shrinking below what was sent, a 2^31-1 connection update,
   a max frame size change; the frames the model emits and the hypotheses of the theorem *)
Example c18_flow_safety_example :
  let evs := [EOpen 1 100000; EOpen 3 10; ESend 1; ESetInit 100; ESend 1; ESend 3; EWinUpd 1 70000; ESetMaxFrame 65536;
              ESend 1; ESend 1; EWinUpdConn 2147418112; ESetInit 0; ESend 1; ESetInit 65535; ESend 1; ESend 1] in
  Forall ev_valid evs /\
  snd (run cfg_client conn_default evs) =
    [(1, 0, 16384); (3, 0, 10); (1, 16384, 16384); (1, 32768, 16384); (1, 49152, 16373); (1, 65525, 4475);
     (1, 70000, 16384); (1, 86384, 13616)] /\
  c_err (fst (run cfg_client conn_default evs)) = false.
Proof.
  cbn zeta. split; [|vm_compute; split; reflexivity].
  apply Forall_forall. intros x Hx.
  repeat (destruct Hx as [Hx | Hx]; [subst x; cbn [ev_valid]; unfold i32_max; lia|]). destruct Hx.
Qed.

(* ------------------------------------------------------------------ liveness *)
(* liveness_statement (Model/Flow.v): after ANY schedule of a conforming peer that leaves the stream with credit for
   its whole body and the connection with credit for the bodies of all opened streams, the sender's iterations
   deliver the complete body in order.  The schedules include SETTINGS_INITIAL_WINDOW_SIZE decreases below the bytes
   already sent (NEGATIVE stream windows, see c18_flow_negative_window_example).  Proved FROM THE SOURCE SWITCHES:
   if MClientConn.processSettings loses its cond.Broadcast() (h2_client_settings_wakes = false) or
   processWindowUpdate broadcasts only conditionally (h2_winupd_wakes_always = false) these proofs no longer
   type-check. *)
Theorem c18_flow_liveness : liveness_statement cfg_server /\ liveness_statement cfg_client.
Proof.
  split.
  - exact (flow_liveness cfg_server (eq_refl Lt) (conj (or_intror (eq_refl Server)) (eq_refl true))).
  - exact (flow_liveness cfg_client (eq_refl Lt) (conj (or_introl (eq_refl true)) (eq_refl true))).
Qed.
Print Assumptions c18_flow_liveness.

(* the same with any continuation (other streams sending, further credit and settings changes) *)
Theorem c18_flow_liveness_general : liveness_general_statement cfg_server /\ liveness_general_statement cfg_client.
Proof.
  split.
  - exact (flow_liveness_general cfg_server (eq_refl Lt) (conj (or_intror (eq_refl Server)) (eq_refl true))).
  - exact (flow_liveness_general cfg_client (eq_refl Lt) (conj (or_introl (eq_refl true)) (eq_refl true))).
Qed.
Print Assumptions c18_flow_liveness_general.

(* the client as it was before the repair (no broadcast in processSettings): the statement is FALSE *)
Theorem c18_flow_liveness_refuted_without_wake : forall wu vd, ~ liveness_statement (mkCfg Client false wu vd h2_write_chunk).
Proof. intros wu vd. exact (flow_liveness_refuted_without_wake wu vd h2_write_chunk (eq_refl Lt)). Qed.
Print Assumptions c18_flow_liveness_refuted_without_wake.

(* non-vacuity / the witness side by side: SETTINGS initial window 0, a stream with 100 bytes parks, SETTINGS raises
   the window, the sender is scheduled *)
Example c18_flow_liveness_example :
  let evs := [ESetInit 0; EOpen 1 100; ESend 1; ESetInit 65535] in
  Forall ev_valid evs /\ bounded 65535 65535 16384 evs /\
  sl_open (sledger 1 evs) = true /\ sl_body (sledger 1 evs) = 100 /\
  100 <= stream_credit 65535 65535 16384 1 evs /\
  gl_bodies (gledger 65535 65535 16384 evs) <= conn_credit 65535 65535 16384 evs /\
  frames_of 1 (snd (run cfg_client conn_default (evs ++ [ESend 1]))) = [(0, 100)] /\
  frames_of 1 (snd (run (mkCfg Client false true true h2_write_chunk) conn_default (evs ++ repeat (ESend 1) 50))) = [].
Proof.
  cbn zeta. split.
  { apply Forall_forall. intros x Hx.
    repeat (destruct Hx as [Hx | Hx]; [subst x; cbn [ev_valid]; unfold i32_max; lia|]). destruct Hx. }
  split; [|vm_compute; repeat split; discriminate].
  exact refute_schedule_bounded.
Qed.

(* processWindowUpdate with the conditional broadcast (`if exhausted { cond.Broadcast() }`, exhausted :=
   available() == 0 before the add), on EITHER side and whatever the SETTINGS wake-up: the statement is FALSE.
   A window driven negative by a SETTINGS decrease is not "exhausted"; the WINDOW_UPDATE lifting it above zero
   wakes nobody. *)
Theorem c18_flow_liveness_refuted_with_conditional_wake : forall sd wk vd,
  ~ liveness_statement (mkCfg sd wk false vd h2_write_chunk).
Proof. intros sd wk vd. exact (flow_liveness_refuted_with_conditional_wake sd wk vd h2_write_chunk (eq_refl Lt)). Qed.
Print Assumptions c18_flow_liveness_refuted_with_conditional_wake.

(* non-vacuity, the witness side by side: the window goes NEGATIVE (-64535) after the SETTINGS decrease, the
   WINDOW_UPDATE brings it to 34465 with stream credit 100000 = body; the hypotheses of liveness_statement hold;
   with the unconditional broadcast the body is completed, with the conditional one it stays at 65535 bytes *)
Example c18_flow_negative_window_example :
  let evs := cond_wake_witness in
  let neg := [EWinUpdConn 1000000; EOpen 1 100000; ESend 1; ESend 1; ESend 1; ESend 1; ESend 1; ESetInit 1000; ESend 1] in
  map s_win (c_strs (fst (run cfg_server conn_default neg))) = [-64535] /\
  Forall ev_valid evs /\ bounded 65535 65535 16384 evs /\
  sl_open (sledger 1 evs) = true /\ sl_body (sledger 1 evs) = 100000 /\
  100000 <= stream_credit 65535 65535 16384 1 evs /\
  gl_bodies (gledger 65535 65535 16384 evs) <= conn_credit 65535 65535 16384 evs /\
  sent_on 1 (snd (run cfg_server conn_default (evs ++ repeat (ESend 1) 8))) = 100000 /\
  sent_on 1 (snd (run cfg_client conn_default (evs ++ repeat (ESend 1) 8))) = 100000 /\
  sent_on 1 (snd (run (mkCfg Server true false true h2_write_chunk) conn_default (evs ++ repeat (ESend 1) 8))) = 65535 /\
  sent_on 1 (snd (run (mkCfg Client true false true h2_write_chunk) conn_default (evs ++ repeat (ESend 1) 8))) = 65535.
Proof.
  cbn zeta. split; [vm_compute; reflexivity|]. split.
  { apply Forall_forall. intros x Hx. unfold cond_wake_witness in Hx.
    repeat (destruct Hx as [Hx | Hx]; [subst x; cbn [ev_valid]; unfold i32_max; lia|]). destruct Hx. }
  split; [apply boundedb_sound; vm_compute; reflexivity|].
  vm_compute. repeat split; discriminate.
Qed.

(* ------------------------------------------------------------------ opening a stream vs the read side *)
From MV Require Import Lib.Interleave Model.FlowOpen Proofs.FlowOpen.
From MV Require Model.FlowOpenCases.

(* MClientConn.WriteHeaders does newStream (window := initial window), the HEADERS write and the registration in
   cc.streams in ONE cc.mu critical section (read from mhttp2.go) *)
Theorem c18_client_open_atomic : h2_client_open_atomic = true.
Proof. exact (eq_refl true). Qed.

(* For ANY number of opener/sender threads, ANY script of peer SETTINGS_INITIAL_WINDOW_SIZE / WINDOW_UPDATE frames and
   EVERY schedule of the micro-steps (Lib/Interleave): every stream's send window is
   (last acknowledged initial window) - (DATA sent) + (increments granted) - RFC 7540 6.9.2 - and no DATA frame ever
   exceeded the credit acknowledged at the time it was sent. *)
Theorem c18_flow_open_safe : forall threads init sched,
  let c := orun h2_client_open_atomic sched (threads, mkSh init []) in
  Forall (os_ok (sh_init (snd c))) (sh_streams (snd c)).
Proof. exact open_atomic_safe. Qed.
Print Assumptions c18_flow_open_safe.

(* with cc.mu released between newStream and the registration: SETTINGS lowering the window to 10 is acknowledged in the
   gap, 1000 bytes are sent against it; a WINDOW_UPDATE in the gap is dropped *)
Theorem c18_flow_open_refuted_when_split :
  (let c := orun false split_witness_sched (split_witness_threads, mkSh 65535 []) in
   sh_init (snd c) = 10 /\ map (fun s => (os_sent s, os_win s, os_over s)) (sh_streams (snd c)) = [(1000, 64535, true)] /\
   forallb (os_okb (sh_init (snd c))) (sh_streams (snd c)) = false /\
   map (fun s => (os_sent s, os_win s, os_over s)) (sh_streams (snd (orun true split_witness_sched (split_witness_threads, mkSh 65535 [])))) = [(10, 0, false)]) /\
  (let c := orun false [0; 0; 1; 0]%nat ([TOpen 1 0 0; TReader [PWinUpd 1 500]], mkSh 100 []) in
   map (fun s => (os_win s, os_wu s, os_reg s)) (sh_streams (snd c)) = [(100, 500, true)] /\
   forallb (os_okb (sh_init (snd c))) (sh_streams (snd c)) = false).
Proof. exact (conj open_split_refuted open_split_drops_window_update). Qed.
Print Assumptions c18_flow_open_refuted_when_split.

Example c18_flow_open_example :
  let c := orun true [0; 2; 1; 2; 0; 1; 2; 1]%nat ([TOpen 1 0 300; TOpen 3 0 50; TReader [PSettings 100; PWinUpd 1 500; PSettings 0]], mkSh 65535 []) in
  map (fun s => (os_id s, os_win s, os_sent s, os_wu s)) (sh_streams (snd c)) = [(1, 200, 300, 500); (3, -50, 50, 0)] /\ sh_init (snd c) = 0.
Proof. vm_compute. split; reflexivity. Qed.
