(* C09 - Upstream connection pools.  Only statements here; proofs by `exact`. *)
From Coq Require Import List ZArith Bool.
From MV Require Import Model.Pool Gen.PoolSrc.
Import ListNotations.

(* the translator recognised the four source spots (connpool.go NewStream/OnResetStream/OnDestroyStream,
   connpool_pingpong.go OnResetStream/OnDestroyStream/GetActiveClient) *)
Theorem c09_translator_ok : PoolSrc_translator_ok = true.
Proof. exact (eq_refl true). Qed.
