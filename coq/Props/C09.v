(* C09 - Upstream connection pools: exclusive leases, no leaks, no dirty reuse.
   Only statements here; proofs by `exact`.

   Model/Pool.v is an executable model of pkg/stream/http/connpool.go (kind Http1) and
   pkg/stream/xprotocol/connpool_pingpong.go (kind PingPong).  `run k ops init` is the pool after the history
   `ops` of operations {NewStream (dial ok / refused / timed out; request written or not), Send, Response (with or
   without "Connection: close"), LocalReset, RemoteReset, ConnClose with every close event kind, GoAway, Shutdown,
   ExtReq (another holder of the cluster's Requests resource)}; every theorem below quantifies over ALL
   configurations k (pool kind, max_connections, max_requests) and ALL histories ops.

   `pool_src_switches` is read from the Go source on every run (Gen/PoolSrc.v).  The theorems are stated for the
   code that is in the tree: if one of the repaired spots regresses, `exact` below no longer type-checks. *)
From Coq Require Import List ZArith Bool.
From MV Require Import Model.Pool Model.PoolMx Gen.PoolSrc Proofs.Pool Proofs.PoolMx Model.PoolInit Proofs.PoolInit Model.PoolDestroy Proofs.PoolDestroy Model.PoolAdmit Proofs.PoolAdmit Model.PoolAdmitN Proofs.PoolAdmitN Model.PoolPut Proofs.PoolPut.
Import ListNotations.
Open Scope Z_scope.

(* the translator recognised the source spots *)
Theorem c09_translator_ok : PoolSrc_translator_ok = true.
Proof. exact (eq_refl true). Qed.

(* resource_manager.go: Increase / Decrease count whatever the limit (max_requests = 0 only makes CanCreate let
   everything), so the Requests resource below equals the live streams (+ external holders) for EVERY max_requests *)
Theorem c09_resource_counts_unlimited : poolres_src_counts_unlimited = true.
Proof. exact (eq_refl true). Qed.

(* HTTP/1 (no request ids): data the upstream sends while NO request is outstanding on a connection - a duplicate or late
   answer of a finished exchange - is not kept for the connection's next lessee: the client stream connection closes the
   connection (Dispatch tests the awaiting flag that doSend sets and serve clears once the response is read; a connection
   with bytes behind a complete response is not reused).  The source shape is read on every run; in the histories below
   such data is therefore the operation `ConnClose c EvLocal`, resp. `Response s true` (harness family late-response). *)
Theorem c09_http_idle_data_closes : poolhttp_src_idle_data_closes = true.
Proof. exact (eq_refl true). Qed.

(* Exclusive lease.  After every history: no connection carries two in-flight requests; every connection the pool
   ever created is in exactly one of the states {closed, leased to exactly one stream, idle in the pool}. *)
Theorem c09_exclusive_lease : forall k ops, k_sw k = pool_src_switches -> let p := run k ops init in
  (forall c, (inflight p c <= 1)%nat) /\
  (forall c, (c < nclients p)%nat -> is_closed_state p c \/ is_leased_state p c \/ is_idle_state p c) /\
  (forall c, ~ (is_closed_state p c /\ is_leased_state p c) /\ ~ (is_closed_state p c /\ is_idle_state p c) /\
             ~ (is_leased_state p c /\ is_idle_state p c)).
Proof. exact pool_exclusive_lease. Qed.
Print Assumptions c09_exclusive_lease.

(* Books.  After every history: totalClientCount = number of open connections = #leased + #idle; the idle list has
   no duplicates, no closed and no leased connection; the Requests resource = live streams (+ external holders) >= 0. *)
Theorem c09_books : forall k ops, k_sw k = pool_src_switches -> let p := run k ops init in
  total p = Z.of_nat (count_open p) /\
  total p = Z.of_nat (count_leased p) + Z.of_nat (length (idle p)) /\
  NoDup (idle p) /\
  (forall c, In c (idle p) -> (c < nclients p)%nat /\ closed p c = false /\ inflight p c = 0%nat) /\
  req p = Z.of_nat (count_live p) + ext p /\ 0 <= req p.
Proof. exact pool_books. Qed.
Print Assumptions c09_books.

(* No dirty reuse.  After every history: a stream that ended in a reset (any reason) has left its connection closed
   and out of the idle list; from every reachable state a connection enters the idle list ONLY by a Response to a
   written request on a stream that was never reset (and, for HTTP/1, without "Connection: close"); a local reset /
   time-out or a remote reset of a stream in flight closes the connection in the very next state. *)
Theorem c09_no_dirty_reuse : forall k ops, k_sw k = pool_src_switches -> let p := run k ops init in
  (forall s, (s < nstreams p)%nat -> live p s = false -> s_reset (st p s) <> 0%nat ->
     closed p (scli p s) = true /\ ~ In (scli p s) (idle p)) /\
  (forall o x, In x (idle (fst (step k p o))) -> ~ In x (idle p) ->
     exists s cc, o = Response s cc /\ (s < nstreams p)%nat /\ scli p s = x /\ live p s = true /\ sent p s = true /\
                  s_reset (st p s) = 0%nat /\ closed p x = false /\ (k_kind k = Http1 -> cc = false)) /\
  (forall s, (s < nstreams p)%nat -> live p s = true -> closed (fst (step k p (LocalReset s))) (scli p s) = true) /\
  (forall s, (s < nstreams p)%nat -> live p s = true -> sent p s = true ->
     closed (fst (step k p (RemoteReset s))) (scli p s) = true).
Proof. exact pool_no_dirty_reuse. Qed.
Print Assumptions c09_no_dirty_reuse.

(* Capacity returns.  After every history (finished, failed, refused requests in any mix): a refused NewStream
   (overflow, connection refused, dial time-out) leaves the pool unchanged - nothing is taken and lost; and whenever
   fewer than max_connections connections are leased (or max_connections = 0) and the Requests limit accepts one more,
   a NewStream whose dial succeeds is granted a connection. *)
Theorem c09_capacity_returns : forall k ops, k_sw k = pool_src_switches -> let p := run k ops init in
  (forall d send, (forall c, snd (step k p (NewStream d send)) <> RL c) -> fst (step k p (NewStream d send)) = p) /\
  (forall send, can_create k p = true ->
     (k_max_conn k = 0 \/ Z.of_nat (count_leased p) < k_max_conn k) ->
     exists c, snd (step k p (NewStream DialOk send)) = RL c).
Proof. exact pool_capacity_returns. Qed.
Print Assumptions c09_capacity_returns.

(* Destroy once.  After every history every stream has seen at most one OnDestroyStream and at most one response. *)
Theorem c09_destroy_once : forall k ops, k_sw k = pool_src_switches -> let p := run k ops init in
  forall s, (s < nstreams p)%nat ->
    (s_destroys (st p s) <= 1)%nat /\ (s_recv (st p s) <= 1)%nat /\ (s_destroys (st p s) = 1%nat <-> live p s = false).
Proof. exact pool_destroy_once. Qed.
Print Assumptions c09_destroy_once.

(* ---- non-vacuity: concrete histories reach states in which the hypotheses above are inhabited ------------- *)
Definition c09_k_http := mkCfg Http1 2 1 pool_src_switches.
Definition c09_k_pp := mkCfg PingPong 1 0 pool_src_switches.

(* http, max_connections 2, max_requests 1: lease, refused second lease (requests limit), answer, lease again
   (the idle connection is reused), local reset (closed), lease (fresh connection), go on *)
Example c09_example_http :
  let p := run c09_k_http [NewStream DialOk true; NewStream DialOk true; Response 0 false; NewStream DialOk true;
                           LocalReset 1; NewStream DialOk true] init in
  nclients p = 2%nat /\ nstreams p = 3%nat /\ total p = 1 /\ idle p = [] /\ closed p 0 = true /\ closed p 1 = false /\
  inflight p 1 = 1%nat /\ s_reset (st p 1) = 1%nat /\ req p = 1 /\
  snd (step c09_k_http p (NewStream DialOk true)) = RO /\
  (exists c, snd (step c09_k_http (fst (step c09_k_http p (Response 2 false))) (NewStream DialOk true)) = RL c).
Proof. vm_compute. repeat split; try reflexivity. exists 1%nat. reflexivity. Qed.

(* ping-pong, max_connections 1: the idle list is entered by a clean completion only *)
Example c09_example_pp :
  let p := run c09_k_pp [NewStream DialOk true] init in
  idle p = [] /\ idle (fst (step c09_k_pp p (Response 0 false))) = [0%nat] /\
  idle (fst (step c09_k_pp p (RemoteReset 0))) = [] /\ closed (fst (step c09_k_pp p (ConnClose 0 EvReadErr))) 0 = true /\
  (exists c, snd (step c09_k_pp (fst (step c09_k_pp p (LocalReset 0))) (NewStream DialOk true)) = RL c).
Proof. vm_compute. repeat split; try reflexivity. exists 1%nat. reflexivity. Qed.

(* ---- the three defects that were repaired, as facts about the model with the corresponding switch off ------- *)
(* http/1 before 8134fde4d: max_requests refuses after the client was taken: connection 0 is open, not idle, not
   leased, and with max_connections = 1 no stream can ever be leased again *)
Example c09_defect_http_leak :
  let k := mkCfg Http1 1 1 (mkSw false true true true) in
  let p := run k [ExtReq true; NewStream DialOk true; ExtReq false] init in
  total p = 1 /\ idle p = [] /\ nstreams p = 0%nat /\ closed p 0 = false /\ can_create k p = true /\
  snd (step k p (NewStream DialOk true)) = RO.
Proof. vm_compute. repeat split; reflexivity. Qed.

(* ping-pong before bf52f0e7d: shouldCloseConn written, never read: the locally reset connection is idle and reused *)
Example c09_defect_pingpong_reuse :
  let k := mkCfg PingPong 0 0 (mkSw true true false true) in
  let p := run k [NewStream DialOk true; LocalReset 0] init in
  closed p 0 = false /\ idle p = [0%nat] /\ snd (step k p (NewStream DialOk true)) = RL 0%nat.
Proof. vm_compute. repeat split; reflexivity. Qed.

(* http/1 before 1b39875d0: a malformed response (remote reset) returns the connection to the idle list *)
Example c09_defect_http_remote_reset_reuse :
  let k := mkCfg Http1 0 0 (mkSw true false true true) in
  let p := run k [NewStream DialOk true; RemoteReset 0] init in
  closed p 0 = false /\ idle p = [0%nat] /\ snd (step k p (NewStream DialOk true)) = RL 0%nat.
Proof. vm_compute. repeat split; reflexivity. Qed.

(* ============================================================================================================ *)
(* Multiplex pool (pkg/stream/xprotocol/connpool_multiplex.go, Model/PoolMx.v, one slot).  `mrun k ops minit` is the
   pool after the history `ops` of {MInit dial (CheckAndInit + its init goroutine), MNew, MResponse, MReset, MConnClose
   with every close event kind, MGoAway, MShutdown, MExtReq}; `poolmx_src_switches` is read from the source. *)

(* No connection is lost.  After every history: the slot holds an open connection (if any); every open connection is
   the pool's current one or a go-away connection still draining at least one stream - so a drained go-away connection
   is closed and no healthy connection lives outside the pool; live streams sit on open connections; the Requests
   resource counts the live streams; one OnDestroyStream and at most one response per stream. *)
Theorem c09_multiplex_no_orphan : forall k ops, mk_sw k = poolmx_src_switches -> let p := mrun k ops minit in
  (forall c, mslot p = SClient c -> (c < mnclients p)%nat /\ mclosed p c = false) /\
  (forall c, (c < mnclients p)%nat -> mclosed p c = false ->
     mslot p = SClient c \/ (mc_goaway (mcl p c) = true /\ (mactive p c >= 1)%nat)) /\
  (forall c, (c < mnclients p)%nat -> mclosed p c = false -> mc_goaway (mcl p c) = true -> (mactive p c >= 1)%nat) /\
  (forall s, (s < mnstreams p)%nat -> mlive p s = true -> mclosed p (mscli p s) = false) /\
  mreq p = Z.of_nat (mcount_live p) + mext p /\ 0 <= mext p /\
  (forall s, (s < mnstreams p)%nat -> (ms_destroys (mst p s) <= 1)%nat /\ (ms_recv (mst p s) <= 1)%nat).
Proof. exact mx_no_orphan. Qed.
Print Assumptions c09_multiplex_no_orphan.

(* A stream is created only on the pool's current connection: open, Connected, no go-away received. *)
Theorem c09_multiplex_lease_sound : forall k ops c, mk_sw k = poolmx_src_switches -> let p := mrun k ops minit in
  snd (mstep k p MNew) = MRL c ->
  mslot p = SClient c /\ mclosed p c = false /\ mc_state (mcl p c) = st_connected /\ mc_goaway (mcl p c) = false.
Proof. exact mx_lease_sound. Qed.
Print Assumptions c09_multiplex_lease_sound.

(* Capacity returns: after every history, unless the pool was shut down, an empty slot or a slot holding a go-away
   connection is refilled by one CheckAndInit whose dial succeeds, and NewStream is then granted on the new connection. *)
Theorem c09_multiplex_capacity_returns : forall k ops, mk_sw k = poolmx_src_switches -> let p := mrun k ops minit in
  mshut p = false ->
  (mslot p = SEmpty \/ exists c, mslot p = SClient c /\ mc_state (mcl p c) = st_goaway) ->
  let p' := fst (mstep k p (MInit DialOk)) in
  mslot p' = SClient (mnclients p) /\ mc_state (mcl p' (mnclients p)) = st_connected /\ mclosed p' (mnclients p) = false /\
  (mcan_create k p' = true -> snd (mstep k p' MNew) = MRL (mnclients p)).
Proof. exact mx_capacity_returns. Qed.
Print Assumptions c09_multiplex_capacity_returns.

(* non-vacuity: go-away while a stream is in flight, re-init, drain: the old connection is closed when its stream ends,
   the new one stays in the slot; the later close event of the old one does not touch the slot *)
Example c09_example_multiplex :
  let k := mkMCfg 0 poolmx_src_switches in
  let p := mrun k [MInit DialOk; MNew; MGoAway 0; MInit DialOk; MNew; MResponse 0] minit in
  mnclients p = 2%nat /\ mclosed p 0 = true /\ mclosed p 1 = false /\ mslot p = SClient 1%nat /\ mactive p 1 = 1%nat /\
  mslot (fst (mstep k p (MConnClose 1 EvReadErr))) = SEmpty /\
  snd (mstep k (mrun k [MInit DialOk; MNew; MGoAway 0] minit) MNew) = MRF.
Proof. vm_compute. repeat split; reflexivity. Qed.

(* the repaired multiplex defect (b192d4c7e), as a fact about the model with the switches off: after go-away + re-init
   the drained connection 0 stays open, and when it closes later the slot - which holds the healthy connection 1 - is
   emptied: connection 1 is open outside the pool and the next CheckAndInit dials a third connection *)
Example c09_defect_multiplex_goaway :
  let k := mkMCfg 0 (mkMxSw false false) in
  let p := mrun k [MInit DialOk; MNew; MGoAway 0; MInit DialOk; MResponse 0] minit in
  mclosed p 0 = false /\ mactive p 0 = 0%nat /\ mslot p = SClient 1%nat /\
  let q := fst (mstep k p (MConnClose 0 EvRemote)) in
  mslot q = SEmpty /\ mclosed q 1 = false /\ mnclients (fst (mstep k q (MInit DialOk))) = 3%nat.
Proof. vm_compute. repeat split; reflexivity. Qed.

(* ============================================================================================================ *)
(* Inside ONE operation: the connect paths as micro-steps (Model/PoolInit.v) interleaved, under EVERY schedule of any
   length (Lib/Interleave), with the read goroutine of the new connection that delivers its close event.
   `poolinit_src_mx_dial_locked` is read from the source: is the dial of poolMultiplex.init inside the clientMux critical
   section that also stores the client (today: yes). *)

(* Multiplex init(): in every reachable configuration a client stored as Connected is open, or the close handler of its
   connection has not run yet (it will run under clientMux and find the client in the slot); so once both goroutines are
   done a stored client is open: no closed connection is left in the slot, none is handed out. *)
Theorem c09_multiplex_init_safe : forall sched,
  mx_init_good (irun sched (mx_init_cfg poolinit_src_mx_dial_locked)) = true /\
  (let c := irun sched (mx_init_cfg poolinit_src_mx_dial_locked) in
   fst c = [[]; []] -> i_slot (snd c) = 2%nat -> i_closed (snd c) = false).
Proof. exact (fun sched => conj (mx_init_locked_safe sched) (mx_init_locked_quiescent sched)). Qed.
Print Assumptions c09_multiplex_init_safe.

(* With the dial outside the critical section the statement is false: a schedule lets the close event run between the
   dial and the store; the closed client is then stored as Connected for good. *)
Definition c09_multiplex_init_unlocked_statement : Prop :=
  forall sched, let c := irun sched (mx_init_cfg false) in
  fst c = [[]; []] -> i_slot (snd c) = 2%nat -> i_closed (snd c) = false.
Theorem c09_multiplex_init_unlocked_refuted : ~ c09_multiplex_init_unlocked_statement.
Proof.
  intros H. destruct mx_init_unlocked_bad as [sched [H1 [H2 H3]]]. specialize (H sched H1 H2). congruence.
Qed.
Print Assumptions c09_multiplex_init_unlocked_refuted.

(* Ping-pong and HTTP/1 connect paths (no idle client): whatever the interleaving with the close event of the new
   connection, when both goroutines are done totalClientCount counts exactly the open connection and the closed flag is
   set iff the connection closed.  (`poolinit_src_pp_count_locked`: the ping-pong pool counts the connection inside the
   critical section that tested max_connections, as the HTTP/1 pool does; proved for both orders.) *)
Theorem c09_connect_books : forall sched,
  count_good (irun sched (pp_connect_cfg poolinit_src_pp_count_locked)) = true /\ count_good (irun sched http_connect_cfg) = true.
Proof. exact (fun sched => conj (pp_connect_books poolinit_src_pp_count_locked sched) (http_connect_books sched)). Qed.
Print Assumptions c09_connect_books.

(* max_connections under CONCURRENT NewStream calls (Model/PoolAdmit.v, three callers, limit 1, no idle client): the
   ping-pong pool counts the new connection inside the critical section that tested the limit (read from the source;
   the HTTP/1 pool has that shape), so under every schedule at most max_connections connections are dialled; counting
   after the dial (ping-pong before the repair) lets every caller pass the test. *)
Theorem c09_max_connections_concurrent : entry_statement (conn_cfg poolinit_src_pp_count_locked).
Proof. exact conn_count_locked_safe. Qed.
Print Assumptions c09_max_connections_concurrent.

(* the same for EVERY limit, EVERY number of concurrent callers and EVERY schedule, by an invariant (count = connections +
   callers between their counted test and their dial) instead of a computed reachable set; `adstepN 1` is `adstep`
   (adrunN_one), so the three-caller instance the harness exercises is the N = 3, limit = 1 case of this theorem *)
Theorem c09_max_connections_concurrent_any : forall mx n sched, (0 <= mx)%Z ->
  (ad_conns (snd (adrunN mx sched (conn_cfgN n))) <= mx)%Z.
Proof. exact conn_count_locked_safe_N. Qed.
Print Assumptions c09_max_connections_concurrent_any.

Theorem c09_max_connections_concurrent_any_instance : forall sched,
  adrunN 1 sched (conn_cfgN 3) = adrun sched (conn_cfg true).
Proof. exact (fun sched => adrunN_one sched (conn_cfg true)). Qed.

Example c09_max_connections_concurrent_any_example :
  ad_conns (snd (adrunN 2 [0;0;0;0; 1;1;1;1; 2;2;2; 3;3;3]%nat (conn_cfgN 4))) = 2%Z.
Proof. exact conn_count_locked_N_reaches_limit. Qed.

(* RETURN of a leased ping-pong client against the CLOSE EVENT of the same client (Model/PoolPut.v): the source tests the
   client's closed flag inside the critical section that appends it to the idle list (read from the source by the
   translator: putClientToPoolLocked / activeClientPingPong.Close / removeFromPool), so under every schedule a closed
   connection is never idle in the pool; with the test moved in front of the lock the close event fits between test and
   append and the next request is leased a dead connection (seed C09-h). *)
Theorem c09_pp_return_vs_close_event : put_statement (put_cfg poolput_src_pp_closed_tested_locked).
Proof. exact put_tested_locked_safe. Qed.
Print Assumptions c09_pp_return_vs_close_event.

Theorem c09_pp_closed_tested_before_lock_refuted : ~ put_statement (put_cfg false).
Proof. exact put_tested_before_lock_refuted. Qed.

Theorem c09_count_after_dial_refuted : ~ entry_statement (conn_cfg false).
Proof. exact conn_count_after_dial_refuted. Qed.
Print Assumptions c09_count_after_dial_refuted.

(* Binding pool (one upstream connection bound to each downstream connection): GetActiveClient looks the bound client up,
   dials and binds inside ONE critical section (read from the source), so two first streams of one downstream connection
   cannot both dial - the interleaving argument is the one of the HTTP/2 pool's shared client (Props/C10_pool.v
   c10_pool_h2_concurrent_pair / c10_pool_h2_unlocked_dial_refuted: check under the lock, dial unlocked, publish under the lock
   is refuted); the harness drives 2-4 concurrent first streams on the real binding pool (family binding-concurrent-first-streams). *)
Theorem c09_binding_dial_locked : poolbind_src_dial_locked = true.
Proof. exact (eq_refl true). Qed.

Example c09_init_example :
  irun [0;0;1;0;1;0;1;1;1]%nat (mx_init_cfg poolinit_src_mx_dial_locked) =
    ([[]; []], mkISh false true true 0%nat 0 false).
Proof. vm_compute. reflexivity. Qed.

(* The end of a stream on a connection that must not be reused (closeConn / shouldCloseConn set) against a CONCURRENT
   NewStream (Model/PoolDestroy.v).  `pooldestroy_src_http_close_first` is read from the source: does http
   activeClient.OnDestroyStream close the connection BEFORE onStreamDestroy appends it back (today: yes; the xprotocol
   ping-pong pool closes and returns, it never appends).  Under EVERY schedule of the destroy goroutine and a concurrent
   NewStream: the connection is never handed to that NewStream, and when the destroy is done it is out of the idle list
   with its closed flag set. *)
Theorem c09_destroy_close_before_append : forall sched,
  destroy_good (drun sched (destroy_cfg (http_destroy_prog pooldestroy_src_http_close_first))) = true /\
  destroy_good (drun sched (destroy_cfg pp_destroy_prog)) = true.
Proof. exact (fun sched => conj (http_destroy_close_first_safe sched) (pp_destroy_safe sched)). Qed.
Print Assumptions c09_destroy_close_before_append.

(* With the order swapped (append, then close) a schedule hands the dirty connection to the concurrent NewStream, although
   every quiescent state - and so every sequential history - looks the same. *)
Definition c09_destroy_append_first_statement : Prop :=
  forall sched, d_leased (snd (drun sched (destroy_cfg (http_destroy_prog false)))) = false.
Theorem c09_destroy_append_first_refuted : ~ c09_destroy_append_first_statement.
Proof. intros H. destruct http_destroy_append_first_bad as [sched Hs]. rewrite (H sched) in Hs. discriminate. Qed.
Print Assumptions c09_destroy_append_first_refuted.

Example c09_destroy_example :
  drun [0;1;0;1;0;1;0;1;0;1;0;1;0;1;0;1;0;1;0;1]%nat (destroy_cfg (http_destroy_prog pooldestroy_src_http_close_first)) =
    ([[]; []], mkDSh false true true false false).
Proof. vm_compute. reflexivity. Qed.
