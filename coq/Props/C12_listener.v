(* C12 (listener part, group tls) - runtime listener updates are coherent with the dumped configuration.
   Only statements here; proofs by `exact`.  `listener_flags` is READ FROM pkg/server/handler.go and adapter.go ON THIS RUN. *)
From Coq Require Import List.
From MV Require Import Gen.ListenerTokens Model.ListenerUpdate Proofs.ListenerUpdate.
Import ListNotations.

Theorem c12_listener_translator_ok : ListenerTokens_translator_ok = true.
Proof. exact (eq_refl true). Qed.

(* the update branch assigns the inspector flag before it builds the TLS manager, records the idle time-out in the stored
   config, and DeleteListener removes the stored config *)
Theorem c12_listener_flags : listener_flags = good.
Proof. exact (eq_refl good). Qed.

(* For EVERY history of AddOrUpdateListener / DeleteListener (adds, updates of existing listeners, inspector flips, identical
   updates, deletes, re-adds of a deleted name) and every listener name: the live listener is the listener a fresh MOSN builds
   from the stored (dumped) configuration - in particular its TLS manager is the one built from the stored contexts AND the
   stored inspector flag - and a name without stored config has no live listener (and vice versa). *)
Theorem c12_listener_refinement : forall ops n,
  live (u_run listener_flags ops) n = option_map fresh (stored (u_run listener_flags ops) n).
Proof. exact listener_refinement. Qed.
Print Assumptions c12_listener_refinement.

Theorem c12_listener_last_update_wins : forall ops n c,
  live (u_run listener_flags (ops ++ [UAddOrUpdate n c])) n = Some (fresh c).
Proof. exact last_update_wins. Qed.

Theorem c12_listener_removed_is_gone : forall ops n,
  live (u_run listener_flags (ops ++ [URemove n])) n = None /\ stored (u_run listener_flags (ops ++ [URemove n])) n = None.
Proof. exact removed_is_gone. Qed.

(* non-vacuity + the three defective shapes (each switch off), kept so that a regression shows which clause is lost *)
Example c12_listener_example :
  let a := mkLC [1] true 1 0 in let b := mkLC [1] false 2 1 in
  observe (live (u_run listener_flags [UAddOrUpdate 0 a; UAddOrUpdate 0 b]) 0) = (true, true, 1, false, 2, true) /\
  (* inspector assigned after the manager is built: the live manager is one update behind the stored config *)
  observe (live (u_run (mkF false true true) [UAddOrUpdate 0 a; UAddOrUpdate 0 b]) 0) = (true, true, 1, true, 2, true) /\
  (* idle time-out not recorded: the stored config keeps the old one *)
  option_map lc_idle (stored (u_run (mkF true false true) [UAddOrUpdate 0 a; UAddOrUpdate 0 b]) 0) = Some 0 /\
  (* delete does not clear the stored config *)
  stored (u_run (mkF true true false) [UAddOrUpdate 0 a; URemove 0]) 0 = Some a.
Proof. vm_compute. repeat split; reflexivity. Qed.
