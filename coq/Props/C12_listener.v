(* C12 (listener part, group tls) - runtime listener updates are coherent with the dumped configuration.
   Only statements here; proofs by `exact`.  `listener_flags` is READ FROM pkg/server/handler.go and adapter.go ON THIS RUN. *)
From Coq Require Import List.
From MV Require Import Gen.ListenerTokens Model.ListenerUpdate Proofs.ListenerUpdate.
Import ListNotations.

Theorem c12_listener_translator_ok : ListenerTokens_translator_ok = true.
Proof. exact (eq_refl true). Qed.

(* the update branch assigns the inspector flag before it builds the TLS manager, records the idle time-out in the stored
   config, and DeleteListener removes the stored config *)
Theorem c12_listener_flags : listener_flags = good.
Proof. exact (eq_refl good). Qed.

(* For EVERY history of AddOrUpdateListener / DeleteListener (adds, updates of existing listeners, inspector flips, identical
   updates, deletes, re-adds of a deleted name) and every listener name: the live listener is the listener a fresh MOSN builds
   from the stored (dumped) configuration - in particular its TLS manager is the one built from the stored contexts AND the
   stored inspector flag - and a name without stored config has no live listener (and vice versa). *)
Theorem c12_listener_refinement : forall ops n,
  live (u_run listener_flags ops) n = option_map fresh (stored (u_run listener_flags ops) n).
Proof. exact listener_refinement. Qed.
Print Assumptions c12_listener_refinement.

(* the last update wins for every field an update applies (live AND dumped); the static fields (bind_port, type, network,
   reuse_port, access_logs, default_read_buffer_size) of an existing listener are never changed by an update - neither in
   the live listener nor in the dump: the dump describes the listener that is running, not the last request *)
Theorem c12_listener_last_update_wins : forall ops n c,
  let s := u_run listener_flags ops in
  live (u_run listener_flags (ops ++ [UAddOrUpdate n c])) n = Some (fresh (after_update (stored s n) c)) /\
  stored (u_run listener_flags (ops ++ [UAddOrUpdate n c])) n = Some (after_update (stored s n) c).
Proof. exact last_update_wins. Qed.

Theorem c12_listener_update_keeps_static : forall ops n c p,
  stored (u_run listener_flags ops) n = Some p ->
  option_map lc_static (stored (u_run listener_flags (ops ++ [UAddOrUpdate n c])) n) = Some (lc_static p) /\
  option_map ll_static (live (u_run listener_flags (ops ++ [UAddOrUpdate n c])) n) = Some (lc_static p).
Proof. exact update_keeps_static. Qed.

Theorem c12_listener_removed_is_gone : forall ops n,
  live (u_run listener_flags (ops ++ [URemove n])) n = None /\ stored (u_run listener_flags (ops ++ [URemove n])) n = None.
Proof. exact removed_is_gone. Qed.

(* non-vacuity + the defective shapes (each switch off), kept so that a regression shows which clause is lost *)
Example c12_listener_example :
  let a := mkLC [1] true 1 0 0 in let b := mkLC [1] false 2 1 3 in
  observe (live (u_run listener_flags [UAddOrUpdate 0 a; UAddOrUpdate 0 b]) 0) = (true, true, 1, false, 2, true, 0) /\
  option_map lc_static (stored (u_run listener_flags [UAddOrUpdate 0 a; UAddOrUpdate 0 b]) 0) = Some 0 /\
  (* inspector assigned after the manager is built: the live manager is one update behind the stored config *)
  observe (live (u_run (mkF false true true true) [UAddOrUpdate 0 a; UAddOrUpdate 0 b]) 0) = (true, true, 1, true, 2, true, 0) /\
  (* idle time-out not recorded: the stored config keeps the old one *)
  option_map lc_idle (stored (u_run (mkF true false true true) [UAddOrUpdate 0 a; UAddOrUpdate 0 b]) 0) = Some 0 /\
  (* delete does not clear the stored config *)
  stored (u_run (mkF true true false true) [UAddOrUpdate 0 a; URemove 0]) 0 = Some a /\
  (* the update request is stored instead of the running listener's config: the dump shows static fields the listener does not have *)
  (let s := u_run (mkF true true true false) [UAddOrUpdate 0 a; UAddOrUpdate 0 b] in
   option_map lc_static (stored s 0) = Some 3 /\ option_map ll_static (live s 0) = Some 0).
Proof. vm_compute. repeat split; reflexivity. Qed.
