(* C13 (resumed handshakes, group tls) - a session accepted by RESUMPTION (TLS 1.2 session ticket / TLS 1.3 PSK) is one a full
   handshake with the same peer certificate would accept under the policy of the selected context and the time in force NOW.
   Only statements here; proofs by `exact`.  `tls_resume_verifies` is READ FROM pkg/mtls/crypto/tls ON THIS RUN. *)
From Coq Require Import List.
From MV Require Import Gen.TLSTokens Model.TLSSelect Model.TLSResume Proofs.TLSResume.
Import ListNotations.

(* processCertsFromClient verifies the chain it is given whatever its origin (certificate message or session ticket) *)
Theorem c13_resume_verifies : tls_resume_verifies = true.
Proof. exact (eq_refl true). Qed.

(* For EVERY history of full handshakes, resumptions (any ticket obtained so far, offered to any context), clock steps,
   in-place policy changes of a context and listener updates, from every state: a resumption is accepted only if a full
   handshake with the certificate the ticket carries would be accepted by the selected context at that moment. *)
Theorem c13_resumed_implies_full : forall ops s, run_sound tls_resume_verifies s ops = true.
Proof. exact resumed_implies_full. Qed.
Print Assumptions c13_resumed_implies_full.

Theorem c13_resumed_session_would_pass_full : forall now ps ops ctx tk c t,
  let s := r_run tls_resume_verifies now ps ops in
  nth_error (r_tickets s) tk = Some t ->
  hs_out tls_resume_verifies s (RResume ctx tk c) = Some AcceptedResumed ->
  accept_full (pol s ctx) (r_now s) (t_cert t) = true.
Proof. exact resumed_session_would_pass_full. Qed.

(* a context that verifies never resumes a session whose certificate has expired / was issued by a CA it does not trust now *)
Theorem c13_expired_ticket_cert_not_resumed : forall s ctx tk c t k,
  nth_error (r_tickets s) tk = Some t -> t_cert t = Some k -> rp_verify (pol s ctx) = true ->
  rc_to k < r_now s -> hs_out tls_resume_verifies s (RResume ctx tk c) <> Some AcceptedResumed.
Proof. exact expired_ticket_cert_not_resumed. Qed.

Theorem c13_untrusted_ticket_cert_not_resumed : forall s ctx tk c t k,
  nth_error (r_tickets s) tk = Some t -> t_cert t = Some k -> rp_verify (pol s ctx) = true ->
  rc_ca k <> rp_ca (pol s ctx) -> hs_out tls_resume_verifies s (RResume ctx tk c) <> Some AcceptedResumed.
Proof. exact untrusted_ticket_cert_not_resumed. Qed.

(* an accepted full handshake is one the client-auth table of Props/C13.v accepts *)
Theorem c13_full_accepted_is_policy : forall s ctx c,
  hs_out tls_resume_verifies s (RFull ctx c) = Some AcceptedFull ->
  accepts (r_mode (pol s ctx)) (r_rel (pol s ctx) (r_now s) (stored_cert (pol s ctx) c)) = true.
Proof. exact full_accepted_is_policy. Qed.

(* non-vacuity: the certificate (CA 1, valid at ticks 23..25) expires between the full handshake and the resumption;
   and the defective shape (chain out of a ticket not verified), kept so that a regression shows which clause is lost *)
Example c13_resume_example :
  let strict := mkRP true true 1 in let c := Some (mkRC 1 23 25) in
  let h := [RFull 0 c; RResume 0 0 c; RTick 2; RFull 0 c; RResume 0 0 c] in
  map rout_code (r_outs (r_run tls_resume_verifies 24 [strict] h)) = [1; 2; 0; 0] /\
  map rout_code (r_outs (r_run false 24 [strict] h)) = [1; 2; 0; 2] /\
  run_sound false (r_init 24 [strict]) h = false.
Proof. vm_compute. repeat split; reflexivity. Qed.
