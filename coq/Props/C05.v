(* C05 - Load balancers return only current, healthy members of the cluster.  Only statements; proofs by `exact`. *)
From Coq Require Import List ZArith NArith Bool.
From MV Require Import Lib.Interleave Gen.LBTokens Gen.RRTokens Model.LB Model.LBSnapshot Model.Edf Model.WRR Model.RRConc
  Gen.HostSetTokens Model.HostSetOps Proofs.LB Proofs.LBSnapshot Proofs.WRR Proofs.RRConc Proofs.HostSetOps.
Import ListNotations.
Open Scope Z_scope.

(* the translator recognised the text of the least-request / least-connection fallback loops *)
Theorem c05_translator_ok : LBTokens_translator_ok = true.
Proof. exact (eq_refl true). Qed.

(* `choose lr_fallback_aware lc_fallback_aware p` is the model of policy p with the two switches READ FROM THE
   SOURCE on this run (does the "power of `choice` picks" fallback test Health()?).
   Quantified over: every policy p, every host list (sizes 0,1,2,..; weights; every health pattern; active
   counts; scores), every round-robin cursor, every random draw function, every EDF pick order, every choice
   count, scheduler present or not, every maglev lookup value and every stored retry index. *)

(* member: the returned host belongs to the host set (true whatever the switches say) *)
Theorem c05_member : forall p hs rr x h,
  o_res (choose lr_fallback_aware lc_fallback_aware p hs rr x) = Some h -> In h hs.
Proof. exact (choose_member lr_fallback_aware lc_fallback_aware). Qed.
Print Assumptions c05_member.

(* healthy: the returned host is healthy.  Type-checks only when both fallbacks test Health(). *)
Theorem c05_healthy : forall p hs rr x h,
  o_res (choose lr_fallback_aware lc_fallback_aware p hs rr x) = Some h -> hhealthy h = true.
Proof.
  exact (fun p hs rr x h H =>
    proj2 (choose_sound lr_fallback_aware lc_fallback_aware p hs rr x
             (conj (fun _ => eq_refl true) (fun _ => eq_refl true)) h H)).
Qed.
Print Assumptions c05_healthy.

(* complete: no host is returned only when no host is healthy (or the set is empty).
   pre_ok: draws are non-negative (rand.Intn); maglev: the table exists and the route has a hash policy;
   maglev / request-RR: the stored retry index is >= -1 (the balancers themselves only store indexes >= 0). *)
Theorem c05_complete : forall p hs rr x, pre_ok p hs x ->
  (exists h, In h hs /\ hhealthy h = true) ->
  o_res (choose lr_fallback_aware lc_fallback_aware p hs rr x) <> None.
Proof.
  exact (fun p hs rr x =>
    choose_complete lr_fallback_aware lc_fallback_aware p hs rr x
      (conj (fun _ => eq_refl true) (fun _ => eq_refl true))).
Qed.
Print Assumptions c05_complete.

(* histories: lookups interleaved with health flips and host-set replacements; every lookup is judged against
   the host set and health pattern current at that moment *)
Theorem c05_history : forall p ops hs rr,
  Forall (entry_ok p) (run_ops lr_fallback_aware lc_fallback_aware p hs rr ops).
Proof.
  exact (fun p => history_ok lr_fallback_aware lc_fallback_aware p
                    (conj (fun _ => eq_refl true) (fun _ => eq_refl true))).
Qed.
Print Assumptions c05_history.

(* snapshot atomicity: under EVERY interleaving of UpdateHosts calls and lookups, a lookup works on ONE
   published (hostSet, lb) triple - entirely the old or entirely the new set - and returns exactly the
   balancer's choice over that set. *)
Theorem c05_snapshot_atomic : forall hs0 ts sched,
  forallb fresh ts = true ->
  let U := hs0 :: upd_sets ts in
  Forall (fun t => match t with
                   | TLook p rr x (Some tr) res =>
                       fst tr = snd tr /\ In (fst tr) U /\
                       (forall r, res = Some r ->
                          r = o_res (choose lr_fallback_aware lc_fallback_aware p (fst tr) rr x))
                   | _ => True
                   end) (fst (srun lr_fallback_aware lc_fallback_aware sched ts hs0)).
Proof. exact (snapshot_atomic lr_fallback_aware lc_fallback_aware). Qed.
Print Assumptions c05_snapshot_atomic.

(* the fallback as it was before the repair (no Health() test): an unhealthy host is returned while a healthy
   one exists - hosts [unhealthy; healthy], equal weights (no EDF scheduler), draws 0,0 *)
Theorem c05_healthy_leastrequest_unaware_refuted : forall lc,
  ~ (forall hs rr x h, o_res (choose false lc PLeastRequest hs rr x) = Some h -> hhealthy h = true).
Proof. exact least_unaware_refuted. Qed.
Print Assumptions c05_healthy_leastrequest_unaware_refuted.

Theorem c05_healthy_leastconn_unaware_refuted : forall la,
  ~ (forall hs rr x h, o_res (choose la false PLeastConn hs rr x) = Some h -> hhealthy h = true).
Proof. exact leastconn_unaware_refuted. Qed.
Print Assumptions c05_healthy_leastconn_unaware_refuted.

(* WRR at the ChooseHost level, scheduler included (composition with C06).  In the theorems above the EDF pick
   order is arbitrary; here the picks come from the scheduler model of Model/Edf.v: a sequence of ChooseHost calls
   (each given by the picks it consumed; `calls_ok`: a call returns its first healthy pick or, after `total`
   unhealthy picks, falls back) whose picks together are a run of the scheduler from any reachable state.
   For any two HEALTHY hosts the numbers of times the scheduler path returned them obey
   |n_i/w_i - n_j/w_j| <= 1/w_i + 1/w_j (times w_i*w_j), whatever the unhealthy hosts, skipped picks and
   fallback calls in between. *)
Theorem c05_wrr_window : forall hs ws pre s0 calls s1,
  Forall (fun w => 0 < w) ws ->
  edf_run (edf_of_weights ws) pre = Some s0 ->
  edf_run s0 (concat calls) = Some s1 ->
  calls_ok hs calls = true ->
  forall i j wi wj hi hj,
  nth_error ws i = Some wi -> nth_error ws j = Some wj ->
  nth_error hs i = Some hi -> nth_error hs j = Some hj -> hhealthy hi = true -> hhealthy hj = true ->
  Z.abs (count_pick i (hit_positions hs calls) * wj - count_pick j (hit_positions hs calls) * wi) <= wi + wj.
Proof. exact wrr_window. Qed.
Print Assumptions c05_wrr_window.

(* a call classified CHit is exactly the WRR balancer's ChooseHost of Model/LB.v over those picks *)
Theorem c05_wrr_hit_is_choose : forall hs c h rr, (2 <= length hs)%nat -> classify hs c = CHit h ->
  wrr_choose hs true (pick_fn c) rr = (Some h, rr, 0%nat, length c) /\ hhealthy h = true /\
  get hs (Z.of_nat (last c 0%nat)) = Some h.
Proof. exact hit_is_wrr_choose. Qed.
Print Assumptions c05_wrr_hit_is_choose.

Example c05_wrr_window_example :
  let hs := [mkHost 0 1 true 0 0 0; mkHost 1 2 true 0 0 0; mkHost 2 4 false 0 0 0] in
  let calls := [[2; 1]; [2; 2; 0]; [1]; [2; 2; 1]; [2; 2; 0]; [1]; [2; 2; 1]]%nat in
  (exists s1, edf_run (edf_of_weights [1; 2; 4]) (concat calls) = Some s1) /\
  calls_ok hs calls = true /\ hit_positions hs calls = [1; 0; 1; 1; 0; 1; 1]%nat.
Proof. cbn zeta. split; [eexists; vm_compute; reflexivity|split; vm_compute; reflexivity]. Qed.

(* Round robin under CONCURRENT lookups (Model/RRConc.v): a lookup is a thread of micro-steps (one per
   atomic.AddUint32 and one per Health() read), any number of lookups share the uint32 cursor (wrap-around in the
   model), together with health flips of single hosts and foreign cursor increments, under EVERY schedule.
   `rr_second_pass` is the index expression of the second (issue 1663) pass READ FROM loadbalancer.go. *)
Theorem c05_rr_translator_ok : RRTokens_translator_ok = true.
Proof. exact (eq_refl true). Qed.

Theorem c05_rr_concurrent_member : forall sched ts cur hl, forallb rinitial ts = true ->
  Forall (fun t => match t with RLook (RDone (Some idx)) _ => (idx < length hl)%nat | _ => True end)
         (fst (rrun rr_second_pass sched ts cur hl)).
Proof. exact (rr_member rr_second_pass). Qed.
Print Assumptions c05_rr_concurrent_member.

(* if some host is healthy and no flip touches it (healthy throughout every lookup), no lookup returns nil.
   Type-checks only for the reduced start index: the second pass then walks `total` consecutive residues from a
   start < total and visits every position (Proofs/RRConc.v cover_mod); refuted for the raw-cursor variant below. *)
Theorem c05_rr_concurrent_complete : forall sched ts cur hl k,
  forallb rinitial ts = true -> stable_healthy ts hl k ->
  Forall (fun t => match t with RLook (RDone None) _ => False | _ => True end)
         (fst (rrun rr_second_pass sched ts cur hl)).
Proof. exact (rr_complete_of_variant rr_second_pass (eq_refl SPReduced)). Qed.
Print Assumptions c05_rr_concurrent_complete.

(* per lookup: a lookup that returns nil has itself read Health() = false of EVERY position during its own run
   (so a host healthy throughout that lookup excludes nil, whatever happens before or after it) *)
Theorem c05_rr_concurrent_nil_probed_all : forall sched ts cur hl, forallb rinitial ts = true ->
  Forall (fun t => match t with
                   | RLook (RDone None) obs => forall k, (k < length hl)%nat -> In k obs
                   | _ => True end)
         (fst (rrun rr_second_pass sched ts cur hl)).
Proof. exact (rr_nil_probed_all_of_variant rr_second_pass (eq_refl SPReduced)). Qed.
Print Assumptions c05_rr_concurrent_nil_probed_all.

Theorem c05_rr_raw_second_pass_refuted : ~ rr_complete_statement SPRaw.
Proof. exact rr_raw_refuted. Qed.
Print Assumptions c05_rr_raw_second_pass_refuted.

Example c05_rr_concurrent_example :
  let ts := [new_lookup; new_lookup; RFlip 0 false; RBump 2] in
  let hl := [true; false; false; false; true; false] in
  forallb rinitial ts = true /\ stable_healthy ts hl 4 /\
  flat_map res_of (fst (rrun rr_second_pass
     [0;1;0;2;1;3;0;1;0;3;1;0;1;0;1;0;1;0;1;0;1;0;1;0;1;0;1;0;1;0;1;0;1;0;1;0;0;0;0;0;0;0;0;0;0;0;0;0;0;0;0;1;1;1;1;1;1;1;1;1;1;1;1]%nat ts 4294967290%N hl))
  = [RIdx 4; RIdx 4].
Proof. cbn zeta. split; [reflexivity|split; [split; [reflexivity|cbn; intuition discriminate]|vm_compute; reflexivity]]. Qed.

(* The host set the cluster manager publishes (Model/HostSetOps.v: UpdateClusterHosts, AppendClusterHosts,
   RemoveClusterHosts, each through NewHostSet).  `hs_append_distinct`: does AppendSimpleHostHandler publish a set that
   is distinct by address - READ FROM cluster_manager.go.  For EVERY history of operations from the empty cluster: the
   published set never names an address twice, and after RemoveClusterHosts no removed address is in it (so no policy
   can return it: c05_member).  Membership after each operation: update_members / append_members / remove_members. *)
Theorem c05_hostset_translator_ok : HostSetTokens_translator_ok = true.
Proof. exact (eq_refl true). Qed.

Theorem c05_published_hostset_distinct : forall ops, NoDup (mrun hs_append_distinct ops).
Proof. exact (published_nodup_of_mode hs_append_distinct (eq_refl true)). Qed.
Print Assumptions c05_published_hostset_distinct.

Theorem c05_removed_host_gone : forall ops l a, In a l -> ~ In a (mrun hs_append_distinct (ops ++ [MRemove l])).
Proof. exact (removed_gone_of_mode hs_append_distinct (eq_refl true)). Qed.
Print Assumptions c05_removed_host_gone.

Theorem c05_hostset_members : forall s l a,
  (In a (mstep true s (MUpdate l)) <-> In a l) /\
  (In a (mstep true s (MAppend l)) <-> In a l \/ In a s) /\
  (NoDup s -> (In a (mstep true s (MRemove l)) <-> In a s /\ ~ In a l)).
Proof. exact (fun s l a => conj (update_members s l a) (conj (append_members s l a) (remove_members s l a))). Qed.
Print Assumptions c05_hostset_members.

Theorem c05_append_nodistinct_refuted : ~ removed_gone_statement false.
Proof. exact nodistinct_refuted. Qed.
Print Assumptions c05_append_nodistinct_refuted.

(* non-vacuity: a host set with one healthy host among unhealthy ones; every policy finds it *)
Example c05_example :
  let hs := [mkHost 0 1 false 3 0 2; mkHost 1 5 false 0 4 1; mkHost 2 1 true 7 7 9] in
  let x := mkIn (fun _ => 1) (fun i => Z.of_nat i) true 2 true true 1 (VarInt 2) in
  (exists h, In h hs /\ hhealthy h = true) /\
  (forall p, pre_ok p hs x) /\
  map (fun p => option_map hid (o_res (choose lr_fallback_aware lc_fallback_aware p hs 4294967295%N x)))
      [PRandom; PRoundRobin; PWRR; PLeastRequest; PLeastConn; PPeakEwma; PMaglev; PReqRR]
  = repeat (Some 2%nat) 8.
Proof.
  cbn zeta. split; [|split].
  - eexists; split; [right; right; left; reflexivity|reflexivity].
  - intros p; split; [intros; cbn; discriminate|destruct p; cbn; auto; repeat split; auto; discriminate].
  - vm_compute. reflexivity.
Qed.
