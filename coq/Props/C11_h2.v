(* C11 (HTTP/2 part) - graceful shutdown / hot upgrade loses no request on an HTTP/2 connection: the graceful GOAWAY of a
   draining server connection (pkg/module/http2/mhttp2.go MServerConn.goAway / HandleFrame / processHeaders,
   pkg/stream/http2/stream.go GoAway, clientStreamConnection.handleFrame, clientStream.ResetStream).
   Only statements; proofs by `exact`. *)
From Coq Require Import List NArith Bool.
From MV Require Import Lib.Interleave Gen.H2Src Model.H2GoAway Proofs.H2GoAway.
(* the comparison functions of the correspondence shards are built together with this file *)
From MV Require Model.H2GoAwayCases.
Import ListNotations.
Open Scope N_scope.

(* the shapes read from the source on every run: the GOAWAY written on shutdown carries sc.maxClientStreamID; HEADERS of
   streams accepted before a graceful GOAWAY (trailers) are still processed; frames of refused streams are discarded
   before they reach the idle-stream rules; the client acts on a GOAWAY whose last-stream-id is 0 *)
Theorem c11_h2_source_shapes : gsw_src = gsw_ok.
Proof. exact (eq_refl gsw_ok). Qed.

(* For EVERY client script (requests with END_STREAM on HEADERS, completed by DATA, by trailers or cancelled; DATA frames
   in between; reading what the server wrote at any time), ANY number of threads of each kind and EVERY interleaving of
   the client, the server's reader, the shutdown event and the workers - in particular HEADERS sent before the client
   read the GOAWAY and arriving after it was written - at every moment:
   the connection is not closed; the client's streams are, in order, the accepted ones, the refused ones and those still
   on the wire; nothing is refused without a GOAWAY; the GOAWAY the client has read is the one the server wrote and a
   written GOAWAY is read or in flight; every stream the server refuses or will still meet is above the last-stream-id
   (the client replays it) and every stream of the client at or below it has been accepted; an accepted stream is never
   dropped; the answers written reach the client. *)
Theorem c11_h2_goaway_safe : forall threads sched,
  let sh := snd (grun gsw_src sched (threads, gsh0)) in
  let s := g_srv sh in let c := g_cli sh in
  s_closed s = false /\
  c_sent c = s_acc s ++ s_dropped s ++ heads (w_cs sh) /\
  (s_ga s = None -> s_dropped s = []) /\
  (forall l, c_ga c = Some l -> s_ga s = Some l) /\
  (forall l, s_ga s = Some l -> c_ga c = Some l \/ In (SGoAway l) (w_sc sh)) /\
  (forall l, s_ga s = Some l ->
     (forall id, In id (s_dropped s ++ heads (w_cs sh)) -> l < id) /\
     (forall id, In id (c_sent c) -> id <= l -> In id (s_acc s))) /\
  (forall id, In id (s_acc s) -> In id (s_open s) \/ In id (s_ready s) \/ In id (s_done s) \/ In id (s_cancelled s)) /\
  s_done s = c_answered c ++ resps (w_sc sh).
Proof. exact goaway_safe. Qed.
Print Assumptions c11_h2_goaway_safe.

(* ... and when everything in flight has been handled (both wires empty, every request completed by the client, every
   complete request answered) every request the client sent on the connection is answered (1), was cancelled by the
   client itself, or is reported retriable (2) when the connection goes away: none is lost *)
Theorem c11_h2_no_request_lost : forall threads sched,
  let sh := snd (grun gsw_src sched (threads, gsh0)) in
  w_cs sh = [] -> w_sc sh = [] -> c_pending (g_cli sh) = [] -> s_ready (g_srv sh) = [] ->
  forall id, In id (c_sent (g_cli sh)) ->
    cli_class (g_cli sh) id = 1 \/ In id (s_cancelled (g_srv sh)) \/ cli_class (g_cli sh) id = 2.
Proof. exact goaway_no_request_lost. Qed.
Print Assumptions c11_h2_no_request_lost.

(* the shape of seed C11-f (graceful GOAWAY with last-stream-id 2^31-1 while new HEADERS are still ignored): stream 3,
   sent before the client read the GOAWAY, is dropped and not retriable *)
Theorem c11_h2_refuted_when_last_stream_id_is_not_max :
  let sh := run_of (mkGsw false true true true) [TClient [AOpen None; AOpen None; ARead; ARead]; TReader; TShutdown; TWorker] [0; 1; 2; 0; 1; 3; 0; 0]%nat in
  quiet sh = true /\ c_sent (g_cli sh) = [1; 3] /\ c_ga (g_cli sh) = Some max_id /\ s_dropped (g_srv sh) = [3] /\
  cli_class (g_cli sh) 1 = 1 /\ cli_class (g_cli sh) 3 = 0.
Proof. exact refuted_last_is_not_max. Qed.

(* the three shapes repaired in the tree (fix commits 24a2a260c, ed0da78e5): trailers of an accepted stream ignored after
   the GOAWAY; DATA of a refused stream taken for a frame on an idle stream (connection closed under stream 1); a client
   that takes last-stream-id 0 for "no GOAWAY" *)
Theorem c11_h2_refuted_before_the_repairs :
  (let sh := run_of (mkGsw true false true true) [TClient [AOpen (Some FTrail); AFinish 0; ARead]; TReader; TShutdown; TWorker] [0; 1; 2; 0; 1; 3; 0]%nat in
   quiet sh = true /\ c_ga (g_cli sh) = Some 1 /\ s_open (g_srv sh) = [1] /\ cli_class (g_cli sh) 1 = 0) /\
  (let sh := run_of (mkGsw true true false true)
              [TClient [AOpen (Some FData); AOpen (Some FData); AFinish 1; AFinish 0; ARead]; TReader; TShutdown; TWorker]
              [0; 1; 2; 0; 0; 0; 1; 1; 1; 3; 0]%nat in
   s_closed (g_srv sh) = true /\ c_ga (g_cli sh) = Some 1 /\ s_dropped (g_srv sh) = [3] /\ w_cs sh = [] /\ w_sc sh = [] /\
   cli_class (g_cli sh) 1 = 0 /\ s_done (g_srv sh) = []) /\
  (let sh := run_of (mkGsw true true true false) [TClient [AOpen None; ARead]; TReader; TShutdown; TWorker] [2; 0; 1; 0]%nat in
   quiet sh = true /\ s_ga (g_srv sh) = Some 0 /\ s_dropped (g_srv sh) = [1] /\ c_ga (g_cli sh) = None /\ cli_class (g_cli sh) 1 = 0).
Proof. exact (conj refuted_trailers_ignored (conj refuted_late_frames_not_discarded refuted_client_ignores_zero)). Qed.
Print Assumptions c11_h2_refuted_before_the_repairs.

(* non-vacuity: stream 1 (completed by trailers after the GOAWAY) is answered, stream 3 (racing with the GOAWAY, its DATA
   arriving later still) is refused above last-stream-id 1 and reported retriable *)
Example c11_h2_example :
  let sh := run_of gsw_src [TClient [AOpen (Some FTrail); AOpen (Some FData); AFinish 1; AFinish 0; ARead; ARead]; TReader; TShutdown; TWorker]
              [0; 1; 2; 0; 0; 0; 1; 1; 1; 3; 0; 0]%nat in
  quiet sh = true /\ c_sent (g_cli sh) = [1; 3] /\ c_ga (g_cli sh) = Some 1 /\ s_dropped (g_srv sh) = [3] /\ s_done (g_srv sh) = [1] /\
  cli_class (g_cli sh) 1 = 1 /\ cli_class (g_cli sh) 3 = 2.
Proof. exact example_drain. Qed.
