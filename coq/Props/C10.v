(* C10 (proxy part) - Circuit-breaker (Retries resource) and active-gauge accounting is conserved.  Only statements here.
   Outputs of the model: OGauge d = DownstreamRequestActive +d (the +1 of stream creation is not an output), ORes d = Retries
   resource +d (emitted only when max_retries is configured, as resource_manager.go does).  `family`, `allowed`: see Props/C03.v. *)
From Coq Require Import List ZArith Bool.
From RecordUpdate Require Import RecordSet.
(* Model.ProxyCheck (the correspondence checker used by the case shards) is imported so that it is built with this file *)
From MV Require Import Model.ProxyCheck.
From MV Require Import Model.Proxy Model.ProxySpec Proofs.ProxyReach Proofs.ProxyFamily Proofs.ProxyFam Proofs.ProxyRefute
  Proofs.ProxyThm Proofs.ProxySndErr Proofs.ProxyGen Proofs.ProxySrc Gen.ProxyTokens.
Import ListNotations RecordSetNotations.
Open Scope Z_scope.

Theorem c10_translator_ok : ProxyTokens_translator_ok = true.
Proof. exact (eq_refl true). Qed.
(* the switches read from the source on this run are the ones the family theorems were proved for *)
Theorem c10_source_is_verified_source : proxy_src = src_tree.
Proof. exact (eq_refl src_tree). Qed.

(* ---- the active gauge: EVERY configuration, EVERY schedule ----
   the gauge is decremented at most once per request, exactly when the stream is cleaned (so 1 + sum is 0 or 1, never negative),
   together with the access log and the filters' destroy round *)
Theorem c10_gauge_conserved : forall src c rc0 sched,
  let '(s, o) := run src c (init_st rc0) sched in
  (count_gauge o <= 1)%nat /\ (cleaned s = true <-> count_gauge o = 1%nat) /\
  count_log o = count_gauge o /\ count_destroy o = count_gauge o.
Proof. exact clean_once. Qed.
Print Assumptions c10_gauge_conserved.

(* family: the sum of gauge deltas is 0 or -1, -1 iff cleaned, and at quiescence (no defect pattern of C03) the gauge is back to
   its value before the request *)
Theorem c10_gauge_zero_at_idle_family : forall c, In c family -> forall sched, Forall allowed sched ->
  let s := final proxy_src c sched in let g := summ proxy_src c sched in
  (g_gauge g = 0 \/ g_gauge g = -1) /\ (cleaned s = true <-> g_gauge g = -1) /\
  (quiescent s = true -> no_defect s = true -> 1 + g_gauge g = 0).
Proof. exact c10_gauge_family. Qed.
Print Assumptions c10_gauge_zero_at_idle_family.
(* the same over the histories in which the downstream sender returns errors from AppendHeaders (h) / AppendData (d) /
   AppendTrailers (t): the code logs or discards them and goes on to endStream() (switch read from the source on this run), so
   cleanStream still decrements the gauge exactly once *)
Theorem c10_gauge_zero_at_idle_with_sender_errors_family : forall c, In c family -> forall h d t sched, Forall allowed sched ->
  let s := final proxy_src (with_snd_err c h d t) sched in let g := summ proxy_src (with_snd_err c h d t) sched in
  (g_gauge g = 0 \/ g_gauge g = -1) /\ (cleaned s = true <-> g_gauge g = -1) /\
  (quiescent s = true -> no_defect s = true -> 1 + g_gauge g = 0).
Proof. exact c10_gauge_snd_err. Qed.
Print Assumptions c10_gauge_zero_at_idle_with_sender_errors_family.
(* with the other handling (resetStream() and return; switch set back) a refused header-only reply leaves the gauge up for ever *)
Example c10_sender_error_gauge_stuck :
  quiescent (final src_append_error_resets cfg_hdr_refused (sched_answered false)) = true /\
  g_gauge (summ src_append_error_resets cfg_hdr_refused (sched_answered false)) = 0 /\
  g_gauge (summ src_tree cfg_hdr_refused (sched_answered false)) = -1.
Proof. exact witness_sender_error_gauge_stuck. Qed.

(* ---- the Retries resource ---- *)
(* full statement for a source variant: never below its starting value on any prefix, and back to it once the stream is cleaned *)
Definition c10_retries_balanced_statement (src : srcp) : Prop :=
  forall c sched, 0 <= g_res_min (summ src c sched) /\ (cleaned (final src c sched) = true -> g_res (summ src c sched) = 0).

(* the code before the three repairs refutes it (witnesses: one plain 2xx with max_retries=3 -> -4;
   TerminateStream during a failing connection attempt -> +1 for good) *)
Theorem c10_retries_refuted_unguarded_reset : ~ c10_retries_balanced_statement src_unguarded.   (* proxy_src with reset_guarded := false *)
Proof. exact refuted_unguarded. Qed.
Print Assumptions c10_retries_refuted_unguarded_reset.
Theorem c10_retries_refuted_reservation_dropped : ~ c10_retries_balanced_statement src_keep_retry.   (* proxy_src with direct_cancels_retry := false *)
Proof. exact refuted_keep_retry. Qed.

(* resource.Increase / Decrease count whatever the limit is, max == 0 (unlimited) included - read from the source on this run
   (pkg/upstream/cluster/resource_manager.go); CanCreate accepts everything while max == 0 *)
Theorem c10_resource_counts_also_when_unlimited : res_counts_unlimited proxy_src = true.
Proof. exact (eq_refl true). Qed.
(* the code in the tree (switches read from the source on this run): for the family - breaker limits 0 (unlimited), 1, 2 - and every
   schedule, the sum of deltas stays in {0, 1} on every prefix, equals the shared counter's change, is 1 exactly while this
   request holds a reservation (= the number of reserved-and-not-released units of this request), and is 0 once the stream is
   cleaned *)
Theorem c10_retries_balanced_family : forall c, In c family -> forall sched, Forall allowed sched ->
  let s := final proxy_src c sched in let g := summ proxy_src c sched in
  0 <= g_res_min g /\ g_res g <= 1 /\ rc s = g_res g /\ (cleaned s = true -> g_res g = 0) /\
  (reserved s = true <-> g_res g = 1).
Proof. exact c10_res_family. Qed.
Print Assumptions c10_retries_balanced_family.

(* ---- upstream streams (the pools' Requests breaker and UpstreamRequestActive hang on them) ----
   family x every schedule: a retry never starts while the previous attempt's stream is still open (each abandoned attempt was
   reset / answered first), and when the request is over no stream of it is left open.  With timer callbacks that do not reset the
   stream (switch set back) the retried per-try time-out leaks the timed-out attempt. *)
Theorem c10_upstream_streams_released_family : forall c, In c family -> forall sched, Forall allowed sched ->
  let s := final proxy_src c sched in let g := summ proxy_src c sched in
  g_leak g = false /\
  (wdone s = true -> cleaned s = true -> existsb is_terminate sched = false -> c_oneway c = false -> up_alive s = false).
Proof. exact c10_streams_family. Qed.
Print Assumptions c10_upstream_streams_released_family.
Example c10_timer_without_reset_leaks :
  g_leak (summ src_timer_no_reset cfg_pertry sched_pertry) = true /\ g_leak (summ src_tree cfg_pertry sched_pertry) = false.
Proof. exact witness_timer_no_reset. Qed.

(* ---- thresholds: EVERY configuration and state ----
   a retry is accepted only while the shared counter is below max_retries (or negative, as CanCreate has it), and admission
   raises it by exactly one: with max = m > 0 and a non-negative counter, the m-th simultaneous admission succeeds and the
   (m+1)-th is refused *)
Theorem c10_threshold : forall src c code why s n,
  0 < c_max_retries c -> retry s = Some (S n) -> retry_check src c code why s = true -> 0 <= rc s -> reserved s = false ->
  reset_guarded src = true -> retry_disabled src c = false ->
  let '(s', o, r) := rs_retry src c code why s in
  (rc s < c_max_retries c -> r = RShould /\ rc s' = rc s + 1 /\ reserved s' = true) /\
  (c_max_retries c <= rc s -> r = ROver /\ rc s' = rc s /\ reserved s' = false).
Proof. exact retry_threshold. Qed.
Print Assumptions c10_threshold.

(* non-vacuity: the plain 2xx request on a cluster with max_retries = 3, code in the tree: everything back to zero *)
Example c10_example :
  wdone (final proxy_src cfg_breaker sched_plain) = true /\ cleaned (final proxy_src cfg_breaker sched_plain) = true /\
  g_res (summ proxy_src cfg_breaker sched_plain) = 0 /\ g_res_min (summ proxy_src cfg_breaker sched_plain) = 0 /\
  1 + g_gauge (summ proxy_src cfg_breaker sched_plain) = 0.
Proof. exact c10_example_holds. Qed.
