(* C03 - Every request ends exactly once, with one reply, in bounded time.  Only statements here; proofs by `exact`.
   Model: Model/Proxy.v (one request of pkg/proxy/downstream.go; worker = one step per Go phase, every asynchronous handler one
   atomic guarded step).  `proxy_src` = the switches READ FROM THE SOURCE on this run (Gen/ProxyTokens.v).
   `family` (Proofs/ProxyFam.v) = 611 configurations enumerated explicitly: 4 request shapes x retry_on x per-try x breaker x 5 pool
   scripts; non-forwarding routes; every 1- and 2-filter chain over the verdicts; hijack-and-continue chains; larger budgets.
   `allowed` (Proofs/ProxyFamily.v) = the event alphabet: upstream response (status 200/503, with or without body+trailers) and reset (4 reasons)
   for ANY attempt index, per-try and global timer expiry, client disconnect, TerminateStream(403), wake-ups, worker steps.
   The `_family` theorems hold for EVERY schedule over that alphabet - any length, any interleaving. *)
From Coq Require Import List ZArith Bool.
(* Model.ProxyCheck (the correspondence checker used by the case shards) is imported so that it is built with this file *)
From MV Require Import Model.ProxyCheck.
From MV Require Import Model.Proxy Model.ProxySpec Proofs.ProxyReach Proofs.ProxyFamily Proofs.ProxyFam Proofs.ProxyRefute
  Proofs.ProxyThm Proofs.ProxySndErr Proofs.ProxyGen Proofs.ProxySrc Gen.ProxyTokens.
Import ListNotations.
Open Scope Z_scope.

Theorem c03_translator_ok : ProxyTokens_translator_ok = true.
Proof. exact (eq_refl true). Qed.
(* the switches read from the source on this run are the ones the family theorems were proved for *)
Theorem c03_source_is_verified_source : proxy_src = src_tree.
Proof. exact (eq_refl src_tree). Qed.

(* ---- at most one reply, well formed; cleanStream's effects at most once; for EVERY configuration and EVERY schedule ---- *)
(* cleanStream runs at most once whatever happens: gauge decrement, access log and filter destroy are emitted together, and
   [cleaned] says whether they were. *)
Theorem c03_clean_once : forall src c rc0 sched,
  let '(s, o) := run src c (init_st rc0) sched in
  (count_gauge o <= 1)%nat /\ (cleaned s = true <-> count_gauge o = 1%nat) /\
  count_log o = count_gauge o /\ count_destroy o = count_gauge o.
Proof. exact clean_once. Qed.
Print Assumptions c03_clean_once.

(* the asynchronous handlers never talk to the client: only the worker goroutine does *)
Theorem c03_handlers_silent : forall src c e s, filter is_down_out (snd (env_step src c e s)) = [].
Proof. exact env_no_down. Qed.
Print Assumptions c03_handlers_silent.

(* at most one reply header, nothing before it, nothing after its end-of-stream; clean / log / destroy at most once; no nil-sender
   call *)
Theorem c03_at_most_one_reply_family : forall c, In c family -> forall sched, Forall allowed sched ->
  c03_safe (summ proxy_src c sched).
Proof. exact c03_safe_family. Qed.
Print Assumptions c03_at_most_one_reply_family.

(* ---- exactly one outcome ---- *)
(* the full statement, for every configuration and schedule: when nothing is left to happen (worker cannot step, no sleep pending,
   no timer armed) the worker has returned, the stream is cleaned, and either a complete reply was sent or the client had
   disconnected or a filter terminated the stream or the request is one-way *)
Definition c03_exactly_one_outcome_statement (src : srcp) : Prop :=
  forall c sched, quiescent (final src c sched) = true -> outcome c sched (final src c sched) (summ src c sched).

(* the code in the tree refutes it in two ways (listed findings; each is replayed on the real proxy by the harness) *)
Theorem c03_outcome_refuted_loop_exhausted : ~ c03_exactly_one_outcome_statement proxy_src.
Proof. exact refuted_loop. Qed.
Print Assumptions c03_outcome_refuted_loop_exhausted.
Theorem c03_outcome_refuted_retry_without_global_timer : ~ c03_exactly_one_outcome_statement proxy_src.
Proof. exact refuted_nog. Qed.
(* a third way, repaired by 0c05b6e5a (kept on the switch set back): TerminateStream, then an upstream reset seen by the
   processError of phase UpFilter *)
Theorem c03_outcome_refuted_upfilter_reset : ~ c03_exactly_one_outcome_statement src_no_direct_reset.
Proof. exact refuted_upf. Qed.

(* the global timer callback ends when it loses the CAS on upstreamResponseReceived (switch read from the source on this run).
   If it went on unless the reply had started downstream (switch set back), an in-time response held by the send filters would be
   thrown away: the answered stream is reset, UpstreamGlobalTimeout raised, and processError of phase UpFilter leaves the state
   machine - no reply, never cleaned *)
Theorem c03_global_timer_stops_on_lost_cas : global_lost_cas_stops proxy_src = true.
Proof. exact (eq_refl true). Qed.
Example c03_global_timer_after_answer :
  wdone (final src_global_goes_on plain_cfg sched_answered_then_global) = true /\
  cleaned (final src_global_goes_on plain_cfg sched_answered_then_global) = false /\
  g_started (summ src_global_goes_on plain_cfg sched_answered_then_global) = false /\
  quiescent (final src_global_goes_on plain_cfg sched_answered_then_global) = true /\
  cleaned (final src_tree plain_cfg sched_answered_then_global) = true /\
  g_reply_kind (summ src_tree plain_cfg sched_answered_then_global) = Some (KUp, 200).
Proof. exact witness_global_after_answer. Qed.

(* strongest true restriction: the three patterns above (flagged in the state: the outer loop ran out / a retry started with no
   global timer armed / processError of phase UpFilter consumed an upstream reset and a direct response at once) are the ONLY
   ways to end without an explained outcome *)
Theorem c03_exactly_one_outcome_partial_family : forall c, In c family -> forall sched, Forall allowed sched ->
  quiescent (final proxy_src c sched) = true -> no_defect (final proxy_src c sched) = true ->
  outcome c sched (final proxy_src c sched) (summ proxy_src c sched).
Proof. exact c03_outcome_family. Qed.
Print Assumptions c03_exactly_one_outcome_partial_family.

(* ---- the downstream sender (the stream layer) fails ----
   The sender's results are environment inputs of the append steps: [with_snd_err c h d t] is configuration [c] in which
   AppendHeaders / AppendData / AppendTrailers return an error (h / d / t).  downStream.appendHeaders only logs the error and goes
   on - to endStream() when the reply is complete - and the results of AppendData / AppendTrailers are discarded (switch read
   from the source on this run): *)
Theorem c03_append_error_logged_and_continued : append_error_continues proxy_src = true.
Proof. exact (eq_refl true). Qed.
(* so the request state machine does not depend on them at all (every configuration, every state, every schedule) ... *)
Theorem c03_sender_errors_change_nothing : forall c h d t sched s,
  run proxy_src (with_snd_err c h d t) s sched = run proxy_src c s sched.
Proof. exact snd_err_run. Qed.
Print Assumptions c03_sender_errors_change_nothing.
(* ... cleanStream's effects happen at most once over histories with sender errors (instance of c03_clean_once, which holds for
   every configuration), and the family statements hold over them: one well-formed reply attempt, clean / log / destroy at most
   once, and at quiescence the stream IS cleaned exactly once with an explained outcome *)
Theorem c03_clean_once_with_sender_errors : forall src c h d t rc0 sched,
  let '(s, o) := run src (with_snd_err c h d t) (init_st rc0) sched in
  (count_gauge o <= 1)%nat /\ (cleaned s = true <-> count_gauge o = 1%nat) /\
  count_log o = count_gauge o /\ count_destroy o = count_gauge o.
Proof. exact (fun src c h d t => clean_once src (with_snd_err c h d t)). Qed.
Print Assumptions c03_clean_once_with_sender_errors.
Theorem c03_at_most_one_reply_with_sender_errors_family : forall c, In c family -> forall h d t sched, Forall allowed sched ->
  c03_safe (summ proxy_src (with_snd_err c h d t) sched).
Proof. exact c03_safe_snd_err. Qed.
Print Assumptions c03_at_most_one_reply_with_sender_errors_family.
Theorem c03_exactly_one_outcome_with_sender_errors_family : forall c, In c family -> forall h d t sched, Forall allowed sched ->
  quiescent (final proxy_src (with_snd_err c h d t) sched) = true -> no_defect (final proxy_src (with_snd_err c h d t) sched) = true ->
  outcome (with_snd_err c h d t) sched (final proxy_src (with_snd_err c h d t) sched) (summ proxy_src (with_snd_err c h d t) sched).
Proof. exact c03_outcome_snd_err. Qed.
Print Assumptions c03_exactly_one_outcome_with_sender_errors_family.
(* the other handling (resetStream() and return on a refused header; switch set back): a header-only reply whose headers are
   refused is never cleaned - resetStream() does nothing once upstreamProcessDone is set, endStream() is skipped: no cleanStream,
   no filter destroy, gauge stuck; a reply with a body is reset and cleaned once; the handling in the tree cleans once *)
Theorem c03_sender_error_refuted_reset_and_return :
  ~ (forall c sched, quiescent (final src_append_error_resets c sched) = true -> no_defect (final src_append_error_resets c sched) = true ->
       cleaned (final src_append_error_resets c sched) = true).
Proof. exact refuted_sender_error. Qed.
Print Assumptions c03_sender_error_refuted_reset_and_return.
Example c03_sender_error_never_cleaned :
  wdone (final src_append_error_resets cfg_hdr_refused (sched_answered false)) = true /\
  quiescent (final src_append_error_resets cfg_hdr_refused (sched_answered false)) = true /\
  cleaned (final src_append_error_resets cfg_hdr_refused (sched_answered false)) = false /\
  g_started (summ src_append_error_resets cfg_hdr_refused (sched_answered false)) = true /\
  g_clean (summ src_append_error_resets cfg_hdr_refused (sched_answered false)) = 0%nat /\
  g_destroy (summ src_append_error_resets cfg_hdr_refused (sched_answered false)) = 0%nat /\
  g_gauge (summ src_append_error_resets cfg_hdr_refused (sched_answered false)) = 0 /\
  cleaned (final src_append_error_resets cfg_hdr_refused (sched_answered true)) = true /\
  g_clean (summ src_append_error_resets cfg_hdr_refused (sched_answered true)) = 1%nat /\
  g_ended (summ src_append_error_resets cfg_hdr_refused (sched_answered true)) = false /\
  cleaned (final src_tree cfg_hdr_refused (sched_answered false)) = true /\
  g_clean (summ src_tree cfg_hdr_refused (sched_answered false)) = 1%nat /\
  g_destroy (summ src_tree cfg_hdr_refused (sched_answered false)) = 1%nat /\
  g_gauge (summ src_tree cfg_hdr_refused (sched_answered false)) = -1 /\
  g_ended (summ src_tree cfg_hdr_refused (sched_answered false)) = true.
Proof. exact witness_sender_error_never_cleaned. Qed.
(* non-vacuity: a family member whose reply headers, body and trailers are all refused ends cleaned once, filters destroyed once *)
Example c03_sender_error_example :
  let c0 := mk false false false RouteForward 2 true 0 [] true 1 [] [] [PoolConnFail] in
  let c := with_snd_err c0 true true true in
  let sched := drive ++ [Env (EvUpResp 1 200 true true)] ++ drive in
  In c0 family /\ Forall allowed sched /\
  quiescent (final proxy_src c sched) = true /\ no_defect (final proxy_src c sched) = true /\ cleaned (final proxy_src c sched) = true /\
  g_hdr (summ proxy_src c sched) = 1%nat /\ g_ended (summ proxy_src c sched) = true /\ g_clean (summ proxy_src c sched) = 1%nat /\
  g_destroy (summ proxy_src c sched) = 1%nat /\ 1 + g_gauge (summ proxy_src c sched) = 0.
Proof. exact snd_err_example_holds. Qed.

(* ---- histories of several requests served from the same pooled downStream object ----
   the object is zeroed when it is given back to the buffer pool (giveStream inside cleanStream); whatever is assigned to it
   afterwards is seen by the next request that takes it ([next_request]).  onUpstreamHeaders marks the response as started BEFORE it
   hands the headers to the sender (appendHeaders may end, clean and give back the stream) and assigns nothing afterwards - read
   from the source on this run: *)
Theorem c03_response_marked_started_before_append : started_marked_first proxy_src = true.
Proof. exact (eq_refl true). Qed.
(* family x every schedule: nothing is written after give-back, so the next request starts in the initial state ... *)
Theorem c03_next_request_starts_fresh_family : forall c, In c family -> forall sched, Forall allowed sched ->
  forall rc0, next_request proxy_src (final proxy_src c sched) rc0 = init_st rc0.
Proof. exact c03_next_request_fresh_family. Qed.
Print Assumptions c03_next_request_starts_fresh_family.
(* ... and in any history of requests on one object, request k runs exactly as if it were alone *)
Theorem c03_history_independent_family : forall h,
  Forall (fun cs => In (fst cs) family /\ Forall allowed (snd cs)) h ->
  run_history proxy_src (init_st 0) h = map (fun cs => run proxy_src (fst cs) (init_st 0) (snd cs)) h.
Proof. exact ProxyThm.c03_history_independent_family. Qed.
Print Assumptions c03_history_independent_family.
(* with the assignment after appendHeaders (switch set back) it fails: a headers-only response on the clean path leaves
   downstreamResponseStarted = true in the pooled object; the next request's pool overflow is answered by resetting the client
   stream instead of the 503 reply *)
Theorem c03_write_after_give_back_refuted : ~ fresh_start_statement src_late_started.
Proof. exact refuted_write_after_give. Qed.
Print Assumptions c03_write_after_give_back_refuted.
Example c03_write_after_give_back_witness :
  gave (final src_late_started plain_cfg sched_answered_plain) = true /\
  late_started (final src_late_started plain_cfg sched_answered_plain) = true /\
  resp_started (next_request src_late_started (final src_late_started plain_cfg sched_answered_plain) 0) = true /\
  g_started (gs_outs gs0 (snd (second_run src_late_started))) = false /\
  existsb (fun o => match o with ODownReset => true | _ => false end) (snd (second_run src_late_started)) = true /\
  late_started (final src_tree plain_cfg sched_answered_plain) = false /\
  next_request src_tree (final src_tree plain_cfg sched_answered_plain) 0 = init_st 0 /\
  g_reply_kind (gs_outs gs0 (snd (second_run src_tree))) = Some (KHijack, reason_code src_tree RsOverflow) /\
  g_ended (gs_outs gs0 (snd (second_run src_tree))) = true.
Proof. exact witness_write_after_give. Qed.

(* ---- an upstream reset after the response to the client has started ----
   ([c_late_reset]: the upstream stream layer still delivers a reset of the attempt's stream after it has handed the response over.)
   downStream.resetStream() marks upstreamProcessDone, resets the client stream and relies on the synchronous OnResetStream callback
   to finish the request; OnResetStream does not look at upstreamProcessDone (read from the source on this run - only
   proxy.onDownstreamEvent does, for the streams of a closing connection): the client stream is reset and the stream cleaned once.
   With the test inside OnResetStream (switch set) the request never reaches a terminal outcome: *)
Theorem c03_reset_callback_does_not_test_process_done : on_reset_checks_done proxy_src = false.
Proof. exact (eq_refl false). Qed.
Example c03_reset_mid_response :
  trace src_reset_checks_done cfg_late_reset sched_reset_mid_response =
    [OChoose; OUpNew 0 PoolOk; OUpHdr 0 true 1; ODownHdr false KUp 200; ODownReset] /\
  cleaned (final src_reset_checks_done cfg_late_reset sched_reset_mid_response) = false /\
  quiescent (final src_reset_checks_done cfg_late_reset sched_reset_mid_response) = true /\
  no_defect_flags (final src_reset_checks_done cfg_late_reset sched_reset_mid_response) = true /\
  trace src_tree cfg_late_reset sched_reset_mid_response =
    [OChoose; OUpNew 0 PoolOk; OUpHdr 0 true 1; ODownHdr false KUp 200; ODownReset; OGauge (-1); OLog; ODestroy] /\
  cleaned (final src_tree cfg_late_reset sched_reset_mid_response) = true.
Proof. exact witness_reset_mid_response. Qed.

(* ---- time-out liveness ---- *)
(* a parked worker is always guarded by an armed timer (so a silent upstream cannot hang the request) ... *)
Theorem c03_timeout_guard_family : forall c, In c family -> forall sched, Forall allowed sched ->
  let s := final proxy_src c sched in
  parked s = true -> no_defect s = true -> c_oneway c = false ->
  global_armed s = true \/ exists k, try_armed s = Some k.
Proof. exact c03_timeout_family. Qed.
Print Assumptions c03_timeout_guard_family.

(* ... and the expiry of the global timer of a parked request ends it with the 504 hijack reply *)
Theorem c03_timeout_reply_family : forall c, In c family -> forall sched, Forall allowed sched ->
  let s := final proxy_src c sched in
  parked s = true -> global_armed s = true -> received s = false -> down_reset s = false -> up_reset s = false ->
  direct s = false -> has_upreq s = true -> c_send c = [] ->
  let '(s1, o1) := env_step proxy_src c EvGlobal s in
  let '(s2, g2) := run_worker_n proxy_src c 40 (s1, gs_outs (summ proxy_src c sched) o1) in
  wdone s2 = true /\ cleaned s2 = true /\ g_ended g2 = true /\ g_reply_kind g2 = Some (KHijack, 504).
Proof. exact ProxyThm.c03_timeout_reply_family. Qed.
Print Assumptions c03_timeout_reply_family.

(* ---- reset reason -> status of the generated reply (table read from types.ConvertReasonToCode on this run) ---- *)
Theorem c03_reason_to_code : forall src c why s,
  resp_started s = false -> ((why = RsGlobalTimeout /\ reset_excludes_global src = true) \/ retry s = None) ->
  let '(s', _) := on_upstream_reset src c why s in
  (exists d o, rsp s' = Some {| r_kind := KHijack; r_code := reason_code src why; r_data := d; r_trailers := false; r_body := o |}) /\
  direct s' = true.
Proof. exact reset_reason_code. Qed.
Print Assumptions c03_reason_to_code.

(* non-vacuity: a family member, a schedule over the alphabet that reaches quiescence with no defect pattern and a complete reply *)
Example c03_example :
  let c := mk false false false RouteForward 2 true 0 [] true 1 [] [] [PoolConnFail] in
  let sched := drive ++ [Env (EvUpResp 1 503 true true)] ++ drive ++ [Env (EvUpResp 2 200 true true)] ++ drive in
  In c family /\ Forall allowed sched /\ quiescent (final proxy_src c sched) = true /\ no_defect (final proxy_src c sched) = true /\
  g_ended (summ proxy_src c sched) = true /\ g_new (summ proxy_src c sched) = 3%nat.
Proof. exact c03_example_holds. Qed.
