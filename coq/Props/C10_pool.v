(* C10 - Circuit-breaker and active-gauge accounting is conserved.  Part of group `pool`: the REQUEST accounting of the
   xprotocol connection pools (multiplex, ping-pong, binding): host + cluster upstream_request_active and the cluster's
   Requests circuit-breaker resource.  Only statements here; proofs by `exact`.

   Model/PoolAcct.v: `arun k ops ainit` is the accounting state after the history `ops` of {ANew oneway avail (two-way or
   one-way request; avail = the connection the pool puts it on, None = the pool has none), ASend s (fails when the
   connection was closed after admission), AResponse s, AReset s (reset / time-out), AConnClose c, ANop}.
   `poolacct_src_<pool>` (does the pool listen to / count a one-way stream) and `poolacct_src_destroy_oneway` (a one-way client
   stream is destroyed once written) are READ FROM THE SOURCE on every run. *)
From Coq Require Import List ZArith Bool.
From MV Require Import Model.Pool Model.PoolAcct Gen.PoolSrc Proofs.Pool Proofs.PoolAcct.
Import ListNotations.
Open Scope Z_scope.

Definition acct_statement (pol : apolicy) : Prop :=
  forall max_req destroy_oneway ops, let k := mkACfg max_req pol destroy_oneway in let a := arun k ops ainit in
  (* the gauge is the number of admitted-and-not-finished counted requests: never negative *)
  a_active a = Z.of_nat (aactive_count a) /\ 0 <= a_active a /\
  (* the Requests resource likewise (0 when max_requests = 0: not counted) *)
  a_req a = (if max_req =? 0 then 0 else a_active a) /\ 0 <= a_req a /\
  (* nothing is leaked: when every admitted request is finished both are back at zero *)
  ((forall s, (s < a_n a)%nat -> as_live (a_st a s) = false) -> a_active a = 0 /\ a_req a = 0) /\
  (* every increment is matched by exactly one decrement, made when the request finishes *)
  (forall s, (s < a_n a)%nat ->
     (as_decs (a_st a s) <= as_incs (a_st a s) <= 1)%nat /\
     (as_live (a_st a s) = false -> as_decs (a_st a s) = as_incs (a_st a s)) /\
     (as_live (a_st a s) = true -> as_decs (a_st a s) = 0%nat)).

Theorem c10_pool_multiplex_balanced : acct_statement poolacct_src_multiplex.
Proof. exact (fun mr d ops => acct_balanced (mkACfg mr (mkAP false false) d) ops eq_refl). Qed.
Print Assumptions c10_pool_multiplex_balanced.

Theorem c10_pool_pingpong_balanced : acct_statement poolacct_src_pingpong.
Proof. exact (fun mr d ops => acct_balanced (mkACfg mr (mkAP true true) d) ops eq_refl). Qed.
Print Assumptions c10_pool_pingpong_balanced.

Theorem c10_pool_binding_balanced : acct_statement poolacct_src_binding.
Proof. exact (fun mr d ops => acct_balanced (mkACfg mr (mkAP true true) d) ops eq_refl). Qed.
Print Assumptions c10_pool_binding_balanced.

(* a one-way request that was written is finished (the stream layer destroys it): it does not stay on the gauge *)
Theorem c10_pool_oneway_finishes : poolacct_src_destroy_oneway = true.
Proof. exact (eq_refl true). Qed.

(* non-vacuity: ping-pong pool, max_requests 2: two-way + one-way admitted, the connection of the one-way request closes
   before its send (send fails after admission), a third request is refused by the breaker, then everything finishes *)
Example c10_pool_example :
  let k := mkACfg 2 poolacct_src_pingpong poolacct_src_destroy_oneway in
  map (fun ops => let a := arun k ops ainit in (a_active a, a_req a))
      [ [ANew false (Some 0%nat); ANew true (Some 1%nat)];
        [ANew false (Some 0%nat); ANew true (Some 1%nat); ANew false (Some 2%nat)];
        [ANew false (Some 0%nat); ANew true (Some 1%nat); AConnClose 1; ASend 1];
        [ANew false (Some 0%nat); ANew true (Some 1%nat); AConnClose 1; ASend 1; ASend 0; AResponse 0] ] =
  [(2, 2); (2, 2); (1, 1); (0, 0)].
Proof. vm_compute. reflexivity. Qed.

(* a pool that listens to one-way streams without counting them (the ping-pong and binding pools before 2320f946b) is
   refuted: a one-way request whose send fails after admission drives both counters to -1 *)
Theorem c10_pool_listen_without_count_refuted : ~ acct_statement (mkAP true false).
Proof.
  intros H. specialize (H 2 true [ANew true (Some 0%nat); AConnClose 0; ASend 0]).
  destruct H as [_ [H _]]. vm_compute in H. apply H. reflexivity.
Qed.
Print Assumptions c10_pool_listen_without_count_refuted.
