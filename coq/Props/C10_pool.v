(* C10 - Circuit-breaker and active-gauge accounting is conserved.  Part of group `pool`: the REQUEST accounting of the
   xprotocol connection pools (multiplex, ping-pong, binding): host + cluster upstream_request_active and the cluster's
   Requests circuit-breaker resource.  Only statements here; proofs by `exact`.

   Model/PoolAcct.v: `arun k ops ainit` is the accounting state after the history `ops` of {ANew oneway avail (two-way or
   one-way request; avail = the connection the pool puts it on, None = the pool has none), ASend s (fails when the
   connection was closed after admission), AResponse s, AReset s (reset / time-out), AConnClose c, ANop}.
   `poolacct_src_<pool>` (does the pool listen to / count a one-way stream) and `poolacct_src_destroy_oneway` (a one-way client
   stream is destroyed once written) are READ FROM THE SOURCE on every run. *)
From Coq Require Import List ZArith Bool.
From MV Require Import Lib.Interleave Model.Pool Model.PoolAcct Model.PoolH2 Model.PoolH2Race Gen.PoolSrc Proofs.Pool Proofs.PoolAcct Proofs.PoolH2 Proofs.PoolH2Race Model.PoolAdmit Proofs.PoolAdmit Model.PoolAdmitN Proofs.PoolAdmitNRefute Model.PoolInit Proofs.PoolInit.
Import ListNotations.
Open Scope Z_scope.

Definition acct_statement (pol : apolicy) : Prop :=
  forall max_req destroy_oneway ops, let k := mkACfg max_req pol destroy_oneway in let a := arun k ops ainit in
  (* the gauge is the number of accepted-and-not-finished counted requests: never negative *)
  a_active a = Z.of_nat (aactive_count a) /\ 0 <= a_active a /\
  (* the Requests resource likewise, for EVERY max_requests including 0 = unlimited (Increase / Decrease always count) *)
  a_req a = a_active a /\ 0 <= a_req a /\
  (* nothing is leaked: when every accepted request is finished both are back at zero *)
  ((forall s, (s < a_n a)%nat -> as_live (a_st a s) = false) -> a_active a = 0 /\ a_req a = 0) /\
  (* every increment is matched by exactly one decrement, made when the request finishes *)
  (forall s, (s < a_n a)%nat ->
     (as_decs (a_st a s) <= as_incs (a_st a s) <= 1)%nat /\
     (as_live (a_st a s) = false -> as_decs (a_st a s) = as_incs (a_st a s)) /\
     (as_live (a_st a s) = true -> as_decs (a_st a s) = 0%nat)).

Theorem c10_pool_multiplex_balanced : acct_statement poolacct_src_multiplex.
Proof. exact (fun mr d ops => acct_balanced (mkACfg mr (mkAP false false) d) ops eq_refl). Qed.
Print Assumptions c10_pool_multiplex_balanced.

Theorem c10_pool_pingpong_balanced : acct_statement poolacct_src_pingpong.
Proof. exact (fun mr d ops => acct_balanced (mkACfg mr (mkAP true true) d) ops eq_refl). Qed.
Print Assumptions c10_pool_pingpong_balanced.

Theorem c10_pool_binding_balanced : acct_statement poolacct_src_binding.
Proof. exact (fun mr d ops => acct_balanced (mkACfg mr (mkAP true true) d) ops eq_refl). Qed.
Print Assumptions c10_pool_binding_balanced.

(* resource_manager.go: Increase / Decrease count whatever the limit (read from the source) *)
Theorem c10_pool_resource_counts_unlimited : poolres_src_counts_unlimited = true.
Proof. exact (eq_refl true). Qed.

(* a one-way request that was written is finished (the stream layer destroys it): it does not stay on the gauge *)
Theorem c10_pool_oneway_finishes : poolacct_src_destroy_oneway = true.
Proof. exact (eq_refl true). Qed.

(* non-vacuity: ping-pong pool, max_requests 2: two-way + one-way accepted, the connection of the one-way request closes
   before its send (send fails after admission), a third request is refused by the breaker, then everything finishes *)
Example c10_pool_example :
  let k := mkACfg 2 poolacct_src_pingpong poolacct_src_destroy_oneway in
  map (fun ops => let a := arun k ops ainit in (a_active a, a_req a))
      [ [ANew false (Some 0%nat); ANew true (Some 1%nat)];
        [ANew false (Some 0%nat); ANew true (Some 1%nat); ANew false (Some 2%nat)];
        [ANew false (Some 0%nat); ANew true (Some 1%nat); AConnClose 1; ASend 1];
        [ANew false (Some 0%nat); ANew true (Some 1%nat); AConnClose 1; ASend 1; ASend 0; AResponse 0] ] =
  [(2, 2); (2, 2); (1, 1); (0, 0)].
Proof. vm_compute. reflexivity. Qed.

(* a pool that listens to one-way streams without counting them (the ping-pong and binding pools before 2320f946b) is
   refuted: a one-way request whose send fails after admission drives both counters to -1 *)
Theorem c10_pool_listen_without_count_refuted : ~ acct_statement (mkAP true false).
Proof.
  intros H. specialize (H 2 true [ANew true (Some 0%nat); AConnClose 0; ASend 0]).
  destruct H as [_ [H _]]. vm_compute in H. apply H. reflexivity.
Qed.
Print Assumptions c10_pool_listen_without_count_refuted.

(* ==== HTTP/2 pool (pkg/stream/http2/connpool.go): upstream_connection_active (host and cluster) ====================
   Model/PoolH2.v: `h2run sw ops h2init` is the pool after the history `ops` of {HNew d (pool.NewStream, cold or warm; d = the
   outcome of a dial if one is made), HGoAway c (GOAWAY frame on connection c), HClose c (any close event of connection c),
   HPoolClose (pool.Close())}; streams ending or being reset do not touch the connection accounting.  `poolh2_src_switches`
   (does deleteActiveClient test WHICH client it deletes; does the close handler skip GOAWAY'd clients; does NewStream
   decrement when it drops a GOAWAY'd client) and `poolh2_src_dial_locked` are READ FROM THE SOURCE on every run.
   Model/PoolH2Race.v: two concurrent NewStream calls on a cold pool and the close events of the connections they dial,
   as micro-steps under every schedule. *)
Definition h2_conn_statement (sw : h2sw) : Prop := forall ops,
  let q := h2run sw ops h2init in
  (* the gauge is the number of open connections the pool created: never negative *)
  h_active q = nopen (h_cl q) (h_n q) /\ 0 <= h_active q /\
  (* back at zero when none is open *)
  ((forall c, (c < h_n q)%nat -> h_closed (h_cl q c) = true) -> h_active q = 0) /\
  (* no open connection is orphaned: one that received no GOAWAY is the pool's shared client *)
  (forall c, (c < h_n q)%nat -> h_closed (h_cl q c) = false -> h_goaway (h_cl q c) = false -> h_cur q = Some c) /\
  (* the shared client is an open connection of the pool *)
  (forall c, h_cur q = Some c -> (c < h_n q)%nat /\ h_closed (h_cl q c) = false).

Theorem c10_pool_h2_connection_gauge : h2_conn_statement poolh2_src_switches.
Proof. exact (fun ops => h2_gauge h2sw_fixed ops eq_refl). Qed.
Print Assumptions c10_pool_h2_connection_gauge.

(* a stream is only placed on an open connection that received no GOAWAY, and that connection is the shared client *)
Theorem c10_pool_h2_lease_sound : forall ops d q c,
  h2step poolh2_src_switches (h2run poolh2_src_switches ops h2init) (HNew d) = (q, H2L c) ->
  (c < h_n q)%nat /\ h_closed (h_cl q c) = false /\ h_goaway (h_cl q c) = false /\ h_cur q = Some c.
Proof. exact (fun ops d q c => h2_lease_sound h2sw_fixed ops d q c eq_refl). Qed.
Print Assumptions c10_pool_h2_lease_sound.

(* two concurrent NewStream calls on a cold pool, the connect path and the close handler as they are in the source: after
   EVERY schedule the gauge is not negative and, once both calls returned and every close event was handled, it is the
   number of open connections, every open connection is the shared client and the shared client is open *)
Theorem c10_pool_h2_concurrent_pair : h2race_statement poolh2_src_dial_locked (h2_identity poolh2_src_switches).
Proof. exact (h2race_locked_safe true). Qed.
Print Assumptions c10_pool_h2_concurrent_pair.

(* ... and then every later history of atomic operations keeps the books *)
Theorem c10_pool_h2_concurrent_then_history : forall sched ops,
  let c := rrun (h2_identity poolh2_src_switches) sched (race_cfg poolh2_src_dial_locked) in
  quiescent c = true ->
  let q := h2run poolh2_src_switches ops (race_pool (snd c)) in
  h_active q = nopen (h_cl q) (h_n q) /\ 0 <= h_active q /\
  ((forall i, (i < h_n q)%nat -> h_closed (h_cl q i) = true) -> h_active q = 0) /\
  (forall i, (i < h_n q)%nat -> h_closed (h_cl q i) = false -> h_goaway (h_cl q i) = false -> h_cur q = Some i) /\
  (forall i, h_cur q = Some i -> (i < h_n q)%nat /\ h_closed (h_cl q i) = false).
Proof. exact (fun sched ops => h2race_then_history h2sw_fixed true sched ops eq_refl). Qed.
Print Assumptions c10_pool_h2_concurrent_then_history.

(* non-vacuity: cold NewStream, warm NewStream, GOAWAY, NewStream (second connection; the first stays counted until it
   closes), close of the first, failed dial after GOAWAY on the second, close of the second *)
Example c10_pool_h2_example :
  map (fun ops => let q := h2run poolh2_src_switches ops h2init in (h_active q, h_cur q))
      [ [HNew DialOk; HNew DialOk];
        [HNew DialOk; HGoAway 0%nat; HNew DialOk];
        [HNew DialOk; HGoAway 0%nat; HNew DialOk; HClose 0%nat];
        [HNew DialOk; HGoAway 0%nat; HNew DialOk; HClose 0%nat; HGoAway 1%nat; HNew DialRefused];
        [HNew DialOk; HGoAway 0%nat; HNew DialOk; HClose 0%nat; HGoAway 1%nat; HNew DialRefused; HClose 1%nat] ] =
  [(1, Some 0%nat); (2, Some 1%nat); (1, Some 1%nat); (1, None); (0, None)].
Proof. vm_compute. reflexivity. Qed.

(* the accounting before the repair (GOAWAY'd clients skipped by the close handler, decremented by the next NewStream):
   GOAWAY then close on an idle pool leaves the gauge at 1 with nothing open *)
Theorem c10_pool_h2_old_idle_leak_refuted : ~ h2_idle_zero_statement h2sw_old.
Proof. exact h2_old_idle_zero_refuted. Qed.
Print Assumptions c10_pool_h2_old_idle_leak_refuted.

(* a dial outside the pool mutex is refuted, with and without the identity test in deleteActiveClient *)
Theorem c10_pool_h2_unlocked_dial_refuted : ~ h2race_statement false false /\ ~ h2race_statement false true.
Proof. exact (conj h2race_unlocked_noidentity_refuted h2race_unlocked_identity_refuted). Qed.
Print Assumptions c10_pool_h2_unlocked_dial_refuted.

(* the schedule: both calls dial, the loser closes its connection, the loser's close event clears the winner - an open
   connection that is nobody's shared client, whose GOAWAY + close (old accounting) is never decremented *)
Theorem c10_pool_h2_unlocked_orphan : exists sched, let c := rrun false sched (race_cfg false) in
  quiescent c = true /\ r_open (snd c) 0 = true /\ r_cur (snd c) = 0%nat /\
  let q := h2run h2sw_old [HGoAway 0%nat; HClose 0%nat] (race_pool (snd c)) in
  h_active q = 1 /\ nopen (h_cl q) (h_n q) = 0.
Proof. exact h2race_unlocked_orphan. Qed.
Print Assumptions c10_pool_h2_unlocked_orphan.

(* ==== max_requests under CONCURRENT admissions ========================================================================
   Every pool's NewStream tests Requests().CanCreate() and calls Requests().Increase() later, two separate calls on
   types.Resource with nothing holding them together (Model/PoolAdmit.v: three callers, limit 1).  The threshold statement
   "never more accepted requests than max_requests, under every schedule" is REFUTED (two callers both pass the test);
   reproduced on the real HTTP/1, ping-pong, multiplex and HTTP/2 pools (finder xpool:max-requests-exceeded:concurrent-newstream:
   <pool>, listed: the repair is an atomic test-and-increment in types.Resource, an interface change across all pools - the same
   root cause as the listed L4 finding).  Partial: admissions that do not overlap never overshoot; the sequential theorems
   above and c09_books hold for every history of atomic operations. *)
Theorem c10_pool_requests_threshold_concurrent_refuted : ~ entry_statement req_cfg.
Proof. exact req_check_then_increase_refuted. Qed.
Print Assumptions c10_pool_requests_threshold_concurrent_refuted.

Theorem c10_pool_requests_threshold_serial : forall a b c, (a < 3)%nat -> (b < 3)%nat -> (c < 3)%nat ->
  entry_good (adrun (serial [a; b; c] 2) req_cfg) = true.
Proof. exact req_serial_safe. Qed.
Print Assumptions c10_pool_requests_threshold_serial.

(* the overshoot is UNBOUNDED: for every number n of concurrent callers the schedule "everyone tests, then everyone counts"
   admits all n against a limit of 1 (Model/PoolAdmitN.v: the same micro-steps with limit and callers as parameters;
   n = 3 is the configuration above) *)
Theorem c10_pool_requests_overshoot_unbounded : forall n,
  ad_entered (snd (adrunN 1 (all_test_then_all_count n) (req_cfgN n))) = Z.of_nat n.
Proof. exact req_overshoot_unbounded. Qed.
Print Assumptions c10_pool_requests_overshoot_unbounded.

Theorem c10_pool_requests_overshoot_instance : ad_entered (snd (adrun (all_test_then_all_count 3) req_cfg)) = 3%Z.
Proof. exact req_overshoot_unbounded_instance. Qed.

(* ==== "never negative", inside a connect path ==========================================================================
   Every pool increments upstream_connection_active in newActiveClient AFTER Connect() returned, while the connection's read
   goroutine is already running: when the peer closes the fresh connection at once, its close event (Dec) can be handled
   before the increment and the gauge is -1 for a moment (Model/PoolInit.v, the increment-after-dial program).  REFUTED as
   stated; reproduced on the real HTTP/1 and ping-pong pools by sampling the gauge inside Connect() after the close event was
   handled (finder <pool>:connection-active-negative:close-inside-connect, listed: momentary and self-correcting, the repair
   - count before Connect() and take it back on every failing path - touches five pools; seed C10-h shows how it goes wrong).
   Partial: at quiescence the books are right (c09_connect_books), and for every history of completed operations the gauge
   equals the open connections (finders of every pool; theorem for the HTTP/2 pool above). *)
Theorem c10_pool_gauge_nonneg_inside_connect_refuted : ~ inc_after_dial_nonneg_statement.
Proof. exact inc_after_dial_nonneg_refuted. Qed.
Print Assumptions c10_pool_gauge_nonneg_inside_connect_refuted.
