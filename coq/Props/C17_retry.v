(* C17 (proxy part) - effective time-outs and the retry policy.  Only statements here.  (Route actions / header mutation: group
   `router`, Props/C17_route.v.) *)
From Coq Require Import List ZArith Bool.
(* Model.ProxyCheck (the correspondence checker used by the case shards) is imported so that it is built with this file *)
From MV Require Import Model.ProxyCheck.
From MV Require Import Model.Proxy Model.ProxySpec Model.ProxyTimeout Proofs.ProxyReach Proofs.ProxyFamily Proofs.ProxyFam
  Proofs.ProxyRefute Proofs.ProxyThm Proofs.ProxyGen Proofs.ProxyTimeout Proofs.ProxySrc Gen.ProxyTokens.
Import ListNotations.
Open Scope Z_scope.

Theorem c17_retry_translator_ok : ProxyTokens_translator_ok = true.
Proof. exact (eq_refl true). Qed.
(* the switches read from the source on this run are the ones the family theorems were proved for *)
Theorem c17_retry_source_is_verified_source : proxy_src = src_tree.
Proof. exact (eq_refl src_tree). Qed.

(* ---- effective time-out: protocol-supplied value if present, else the request's header, else the route's, else the default;
   per-try disabled when >= global.  For ALL values.  (Model/ProxyTimeout.v parse_timeout = the override sequence of
   proxy/util.go parseProxyTimeout; dflt = types.GlobalTimeout read on this run) ---- *)
Theorem c17_timeout_precedence : forall x,
  let g0 := pick3 (t_var_g x) (t_hdr_g x) (t_route_g x) in
  let t0 := pick3 (t_var_t x) (t_hdr_t x) (t_route_t x) in
  let g := if g0 =? 0 then proxy_default_global_ms else g0 in
  parse_timeout proxy_default_global_ms x = (g, if g <=? t0 then 0 else t0).
Proof. exact (timeout_precedence proxy_default_global_ms). Qed.
Print Assumptions c17_timeout_precedence.

Example c17_timeout_example :
  parse_timeout proxy_default_global_ms
    {| t_route_g := 200; t_route_t := 80; t_hdr_g := Some 160; t_hdr_t := None; t_var_g := None; t_var_t := Some 160 |} = (160, 0) /\
  parse_timeout proxy_default_global_ms
    {| t_route_g := 0; t_route_t := 80; t_hdr_g := None; t_hdr_t := None; t_var_g := None; t_var_t := None |} = (60000, 80) /\
  (* a source that is present with the value 0 still takes precedence over the lower ones, and 0 then means "not set": the
     default applies (not the route's 200), and the per-try value is judged against that default *)
  parse_timeout proxy_default_global_ms
    {| t_route_g := 200; t_route_t := 0; t_hdr_g := Some 0; t_hdr_t := Some 300; t_var_g := None; t_var_t := None |} = (60000, 300) /\
  parse_timeout proxy_default_global_ms
    {| t_route_g := 200; t_route_t := 90; t_hdr_g := None; t_hdr_t := None; t_var_g := Some 0; t_var_t := Some 0 |} = (60000, 0).
Proof. repeat split; reflexivity. Qed.

(* ---- retry conditions: doRetryCheck, for EVERY policy ---- *)
(* on a response: only with retry_on, and only for a listed status (or, with no list, a 5xx) *)
Theorem c17_retry_condition_response : forall c code,
  retry_check c (Some code) RsEmpty = true <->
  c_retry_on c = true /\ ((c_codes c = [] /\ 500 <= code) \/ (c_codes c <> [] /\ In code (c_codes c))).
Proof. exact retry_check_response. Qed.
Print Assumptions c17_retry_condition_response.
(* on a reset: connection failure always; per-try time-out and connection termination with retry_on; overflow, the global
   time-out and every other reason never *)
Theorem c17_retry_condition_reset : forall c why,
  retry_check c None why = true <->
  why <> RsOverflow /\ (why = RsConnFailed \/ (c_retry_on c = true /\ (why = RsPerTryTimeout \/ why = RsTermination))).
Proof. exact retry_check_reset. Qed.
Print Assumptions c17_retry_condition_reset.
(* a retry is set up only where retry() said so: it consumes one unit of the budget and requires the condition *)
Theorem c17_retry_only_if_condition : forall src c code why s,
  let '(s', _, r) := rs_retry src c code why s in
  r = RShould -> retry_check c code why = true /\ exists n, retry s = Some (S n) /\ retry s' = Some n.
Proof. exact retry_should_spec. Qed.
Print Assumptions c17_retry_only_if_condition.
(* the global time-out is never retried *)
Theorem c17_global_timeout_not_retried : forall src c s,
  resp_started s = false ->
  let '(s', _) := on_upstream_reset src c RsGlobalTimeout s in setup_retry s' = setup_retry s /\ direct s' = true.
Proof. exact global_timeout_not_retried. Qed.

(* the budget read from the source: max(min_budget, num_retries) *)
Theorem c17_budget : forall c, budget proxy_src c = Nat.max proxy_min_budget (c_num_retries c).
Proof. exact (fun c => eq_refl). Qed.

(* ---- route actions are applied exactly once per request: every attempt, retries included, is sent the request headers on which
   FinalizeRequestHeaders ran exactly once ([g_fin_bad] = some attempt's headers were finalised 0 or >= 2 times; last conjunct of
   the family theorem below).  doRetry does not finalise again (switch read from the source); if it did: ---- *)
Example c17_refinalize_on_retry_doubles :
  g_fin_bad (summ src_refinalize cfg_pertry sched_pertry) = true /\ g_fin_bad (summ src_tree cfg_pertry sched_pertry) = false /\
  g_new (summ src_tree cfg_pertry sched_pertry) = 2%nat.
Proof. exact witness_refinalize. Qed.
Theorem c17_retry_does_not_refinalize : retry_refinalizes proxy_src = false.
Proof. exact (eq_refl false). Qed.

(* ---- attempts <= 1 + budget, never after the reply started, every attempt on a freshly chosen host:
   family x every schedule ---- *)
Theorem c17_retry_bound_family : forall c, In c family -> forall sched, Forall allowed sched ->
  let g := summ proxy_src c sched in
  (g_new g <= 1 + budget proxy_src c)%nat /\ g_new_after_start g = false /\ g_new_unchosen g = false /\ g_fin_bad g = false.
Proof. exact c17_retry_family. Qed.
Print Assumptions c17_retry_bound_family.

Example c17_retry_example :
  let c := mk false false false RouteForward 2 true 4 [] true 1 [] [] [PoolConnFail] in
  let sched := drive ++ [Env (EvPerTry 1)] ++ drive ++ [Env (EvUpResp 2 503 false false)] ++ drive ++ [Env (EvUpResp 3 200 false false)] ++ drive in
  In c family /\ Forall allowed sched /\ g_new (summ proxy_src c sched) = 4%nat /\ g_ended (summ proxy_src c sched) = true.
Proof. exact c17_example_holds. Qed.
