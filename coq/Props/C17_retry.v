(* C17 (proxy part) - effective time-outs and the retry policy.  Only statements here.  (Route actions / header mutation: group
   `router`, Props/C17_route.v.) *)
From Coq Require Import List ZArith Bool.
From RecordUpdate Require Import RecordSet.
Import RecordSetNotations.
(* Model.ProxyCheck (the correspondence checker used by the case shards) is imported so that it is built with this file *)
From MV Require Import Model.ProxyCheck.
From MV Require Import Model.Proxy Model.ProxySpec Model.ProxyTimeout Proofs.ProxyReach Proofs.ProxyFamily Proofs.ProxyFam
  Proofs.ProxyRefute Proofs.ProxyThm Proofs.ProxyGen Proofs.ProxyTimeout Proofs.ProxySrc Gen.ProxyTokens.
Import ListNotations.
Open Scope Z_scope.

Theorem c17_retry_translator_ok : ProxyTokens_translator_ok = true.
Proof. exact (eq_refl true). Qed.
(* the switches read from the source on this run are the ones the family theorems were proved for *)
Theorem c17_retry_source_is_verified_source : proxy_src = src_tree.
Proof. exact (eq_refl src_tree). Qed.

(* ---- effective time-out: protocol-supplied value if present, else the request's header, else the route's, else the default;
   per-try disabled when >= global.  For ALL values.  (Model/ProxyTimeout.v parse_timeout = the override sequence of
   proxy/util.go parseProxyTimeout; dflt = types.GlobalTimeout read on this run) ---- *)
Theorem c17_timeout_precedence : forall x,
  let g0 := pick3 (t_var_g x) (t_hdr_g x) (t_route_g x) in
  let t0 := pick3 (t_var_t x) (t_hdr_t x) (t_route_t x) in
  let g := if g0 =? 0 then proxy_default_global_ms else g0 in
  parse_timeout proxy_default_global_ms x = (g, if g <=? t0 then 0 else t0).
Proof. exact (timeout_precedence proxy_default_global_ms). Qed.
Print Assumptions c17_timeout_precedence.

Example c17_timeout_example :
  parse_timeout proxy_default_global_ms
    {| t_route_g := 200; t_route_t := 80; t_hdr_g := Some 160; t_hdr_t := None; t_var_g := None; t_var_t := Some 160 |} = (160, 0) /\
  parse_timeout proxy_default_global_ms
    {| t_route_g := 0; t_route_t := 80; t_hdr_g := None; t_hdr_t := None; t_var_g := None; t_var_t := None |} = (60000, 80) /\
  (* a source that is present with the value 0 still takes precedence over the lower ones, and 0 then means "not set": the
     default applies (not the route's 200), and the per-try value is judged against that default *)
  parse_timeout proxy_default_global_ms
    {| t_route_g := 200; t_route_t := 0; t_hdr_g := Some 0; t_hdr_t := Some 300; t_var_g := None; t_var_t := None |} = (60000, 300) /\
  parse_timeout proxy_default_global_ms
    {| t_route_g := 200; t_route_t := 90; t_hdr_g := None; t_hdr_t := None; t_var_g := Some 0; t_var_t := Some 0 |} = (60000, 0).
Proof. repeat split; reflexivity. Qed.

(* ---- retry conditions: doRetryCheck, for EVERY policy ----
   [retry_rule c status why]: the decision on the status the mapping yields (None = the mapping fails or is not consulted); the
   status branch comes first, the reset reasons are looked at only when there is no status.
   [retry_check src c hdr why s]: the same with the status taken from where the code takes it - [mapped_status]: hdr = Some z
   when a response with status z is judged, None when a reset is; in the HTTP flavour ([c_http]: HTTP/1.1 and HTTP/2 upstreams,
   protocol.GetStatusCodeMapping) the mapping ignores the headers and reads the x-mosn-status variable of the request context
   ([status_var]: set by the client stream when a response arrives and by sendHijackReply, never cleared between attempts). *)
(* on a response: only with retry_on, and only for a listed status (or, with no list, a 5xx) *)
Theorem c17_retry_condition_response : forall c code,
  retry_rule c (Some code) RsEmpty = true <->
  c_retry_on c = true /\ ((c_codes c = [] /\ 500 <= code) \/ (c_codes c <> [] /\ In code (c_codes c))).
Proof. exact retry_check_response. Qed.
Print Assumptions c17_retry_condition_response.
(* on a reset: connection failure always; per-try time-out and connection termination with retry_on; overflow, the global
   time-out and every other reason never *)
Theorem c17_retry_condition_reset : forall c why,
  retry_rule c None why = true <->
  why <> RsOverflow /\ (why = RsConnFailed \/ (c_retry_on c = true /\ (why = RsPerTryTimeout \/ why = RsTermination))).
Proof. exact retry_check_reset. Qed.
Print Assumptions c17_retry_condition_reset.
(* the decision for attempt k depends only on attempt k's outcome.
   (a) a RESET is judged by its reason alone, whatever an earlier attempt's response left in the request context: every
       configuration (both flavours), every state - doRetryCheck does not consult the status mapping when a reset is judged
       (switch read from the source on this run) *)
Theorem c17_reset_status_not_consulted : reset_reads_status proxy_src = false.
Proof. exact (eq_refl false). Qed.
Theorem c17_reset_judged_by_reason_only : forall c why s, retry_check proxy_src c None why s = retry_rule c None why.
Proof. exact (fun c why s => retry_reset_by_reason_only src_tree c why s (or_introl eq_refl)). Qed.
Print Assumptions c17_reset_judged_by_reason_only.
(*     with the mapping consulted for resets (switch set back; repaired by 291bbf824) it fails in the HTTP flavour: a remote reset -
       no configured retry condition - after a retried 503 is retried on the stale 503 *)
Theorem c17_reset_stale_status_refuted : ~ reset_by_reason_statement src_stale_status.
Proof. exact refuted_reset_reads_status. Qed.
Example c17_stale_status_witness :
  nnew (final src_stale_status cfg_http_codes sched_503_then_reset) = 3%nat /\
  nnew (final src_tree cfg_http_codes sched_503_then_reset) = 2%nat /\
  g_reply_kind (summ src_tree cfg_http_codes sched_503_then_reset) = Some (KHijack, reason_code src_tree RsRemoteReset) /\
  nnew (final src_stale_status (cfg_http_codes <| c_http := false |>) sched_503_then_reset) = 2%nat.
Proof. exact witness_stale_status. Qed.
(* (b) a RESPONSE is judged by its own status: when the mapping reads the headers, for every configuration and state ... *)
Theorem c17_response_judged_by_own_status : forall src c z why s,
  c_http c = false -> retry_check src c (Some z) why s = retry_rule c (Some z) why.
Proof. exact retry_response_by_own_status. Qed.
Print Assumptions c17_response_judged_by_own_status.
(*     ... and in the HTTP flavour over the family (which has 43 HTTP configurations) x every schedule: whenever onUpstreamHeaders
       hands a response to the retry state, the context variable holds that response's status *)
Theorem c17_response_judged_by_own_status_family : forall c, In c family -> forall sched, Forall allowed sched ->
  x_stale (final proxy_src c sched) = false.
Proof. exact c17_own_status_family. Qed.
Print Assumptions c17_response_judged_by_own_status_family.
(* a retry is set up only where retry() said so: it consumes one unit of the budget and requires the condition *)
Theorem c17_retry_only_if_condition : forall src c code why s,
  let '(s', _, r) := rs_retry src c code why s in
  r = RShould -> retry_check src c code why s = true /\ retry_disabled src c = false /\ exists n, retry s = Some (S n) /\ retry s' = Some n.
Proof. exact retry_should_spec. Qed.
Print Assumptions c17_retry_only_if_condition.
(* a request that carries proxy_disable_retry (the HTTP/2 server stream sets it when the request body is streamed and cannot be
   replayed; [c_disable_retry]) is never retried - every route (with or without retry_on), every reason or status, every state:
   doRetryCheck reads the variable before anything else (read from the source on this run) *)
Theorem c17_disable_retry_checked_first : disable_retry_first proxy_src = true.
Proof. exact (eq_refl true). Qed.
Theorem c17_disabled_request_never_retried : forall c code why s,
  c_disable_retry c = true -> let '(_, _, r) := rs_retry proxy_src c code why s in r <> RShould.
Proof. exact (fun c code why s => disabled_request_never_retried src_tree c code why s eq_refl). Qed.
Print Assumptions c17_disabled_request_never_retried.
(* read only on routes with retry_on (switch set back), a connect failure of such a request is retried on a route without retry_on *)
Example c17_disabled_request_retried_witness :
  nnew (final src_disable_late cfg_disabled drive) = 2%nat /\ nnew (final src_tree cfg_disabled drive) = 1%nat /\
  g_reply_kind (summ src_tree cfg_disabled drive) = Some (KHijack, reason_code src_tree RsConnFailed).
Proof. exact witness_disable_retry. Qed.

(* the global time-out is never retried: onUpstreamReset keeps UpstreamGlobalTimeout away from the retry state (switch read from
   the source on this run); every configuration, every state in which the reply has not started: no retry is set up, no attempt is
   started, the 504 local reply is pending *)
Theorem c17_global_timeout_excluded : reset_excludes_global proxy_src = true.
Proof. exact (eq_refl true). Qed.
Theorem c17_global_timeout_not_retried : forall c s,
  resp_started s = false ->
  let '(s', _) := on_upstream_reset proxy_src c RsGlobalTimeout s in
  setup_retry s' = setup_retry s /\ direct s' = true /\ nnew s' = nnew s /\
  exists d o, rsp s' = Some {| r_kind := KHijack; r_code := reason_code proxy_src RsGlobalTimeout; r_data := d; r_trailers := false; r_body := o |}.
Proof. exact (fun c s => global_timeout_not_retried src_tree c s eq_refl). Qed.
Print Assumptions c17_global_timeout_not_retried.
(* (that the expiry of the global timer of a parked request ends it with the complete 504 reply, for the family x every schedule,
   HTTP configurations included, is c03_timeout_reply_family in Props/C03.v)
   with UpstreamGlobalTimeout handed to the retry state and the status mapping consulted for resets (switches set back): after a
   retried 503 the global time-out is retried on the stale 503 - a third attempt with no global timer armed, and its 200 reaches the
   client instead of the 504 *)
Example c17_global_timeout_retried_witness :
  nnew (final src_global_retried cfg_http_codes sched_503_then_global) = 3%nat /\
  x_nog (final src_global_retried cfg_http_codes sched_503_then_global) = true /\
  g_reply_kind (summ src_global_retried cfg_http_codes sched_503_then_global) = Some (KUp, 200) /\
  nnew (final src_tree cfg_http_codes sched_503_then_global) = 2%nat /\
  g_reply_kind (summ src_tree cfg_http_codes sched_503_then_global) = Some (KHijack, 504) /\
  g_ended (summ src_tree cfg_http_codes sched_503_then_global) = true /\
  nnew (final (src_tree <| reset_reads_status := true |>) cfg_http_codes sched_503_then_global) = 2%nat.
Proof. exact witness_global_timeout_retried. Qed.
Example c17_http_example :
  let c := mk false false false RouteForward 2 true 2 [503] false 0 [] [] [] <| c_http := true |> in
  let sched := repeat Worker 12 ++ [Env (EvUpResp 0 503 false false)] ++ drive ++ [Env EvGlobal] ++ drive in
  In c family /\ Forall allowed sched /\ g_new (summ proxy_src c sched) = 2%nat /\
  g_reply_kind (summ proxy_src c sched) = Some (KHijack, 504) /\ g_ended (summ proxy_src c sched) = true /\
  quiescent (final proxy_src c sched) = true /\ cleaned (final proxy_src c sched) = true.
Proof. exact c17_http_example_holds. Qed.

(* the budget read from the source: max(min_budget, num_retries) *)
Theorem c17_budget : forall c, budget proxy_src c = Nat.max proxy_min_budget (c_num_retries c).
Proof. exact (fun c => eq_refl). Qed.

(* ---- route actions are applied exactly once per request: every attempt, retries included, is sent the request headers on which
   FinalizeRequestHeaders ran exactly once ([g_fin_bad] = some attempt's headers were finalised 0 or >= 2 times; last conjunct of
   the family theorem below).  doRetry does not finalise again (switch read from the source); if it did: ---- *)
Example c17_refinalize_on_retry_doubles :
  g_fin_bad (summ src_refinalize cfg_pertry sched_pertry) = true /\ g_fin_bad (summ src_tree cfg_pertry sched_pertry) = false /\
  g_new (summ src_tree cfg_pertry sched_pertry) = 2%nat.
Proof. exact witness_refinalize. Qed.
Theorem c17_retry_does_not_refinalize : retry_refinalizes proxy_src = false.
Proof. exact (eq_refl false). Qed.

(* ---- attempts <= 1 + budget, never after the reply started, every attempt on a freshly chosen host:
   family x every schedule ---- *)
Theorem c17_retry_bound_family : forall c, In c family -> forall sched, Forall allowed sched ->
  let g := summ proxy_src c sched in
  (g_new g <= 1 + budget proxy_src c)%nat /\ g_new_after_start g = false /\ g_new_unchosen g = false /\ g_fin_bad g = false.
Proof. exact c17_retry_family. Qed.
Print Assumptions c17_retry_bound_family.

Example c17_retry_example :
  let c := mk false false false RouteForward 2 true 4 [] true 1 [] [] [PoolConnFail] in
  let sched := drive ++ [Env (EvPerTry 1)] ++ drive ++ [Env (EvUpResp 2 503 false false)] ++ drive ++ [Env (EvUpResp 3 200 false false)] ++ drive in
  In c family /\ Forall allowed sched /\ g_new (summ proxy_src c sched) = 4%nat /\ g_ended (summ proxy_src c sched) = true.
Proof. exact c17_example_holds. Qed.
