(* C07 (codec part) - message extraction is independent of how TCP segments the byte stream.
   Only statements; proofs by `exact`.  `feed parse` is one read of the connection followed by
   streamConn.Dispatch (Lib/Seg.v); bolt_parse / boltv2_parse are derived from the decoder models. *)
From Coq Require Import List NArith Bool Permutation.
From MV Require Import Lib.Bytes Lib.Dec Lib.Seg Model.CodecParams Model.HeaderKV Model.Bolt Model.Xcodecs
  Proofs.HeaderKV Proofs.Bolt Proofs.Xcodecs Model.Matchers Proofs.Matchers.
(* the generated files are only Required (never imported): every name below is the committed expected value of
   Model/CodecParams.v unless it is qualified with MV.Gen. *)
From MV Require Gen.ProtoConsts Gen.CodecSrc.
(* the comparison functions used by the correspondence shards: imported so that they are rebuilt with this file *)
From MV Require Model.BoltCheck Model.XCheck.
Import ListNotations.
Open Scope N_scope.

Theorem c07_codec_translators_ok : MV.Gen.ProtoConsts.ProtoConsts_translator_ok = true /\ MV.Gen.CodecSrc.CodecSrc_translator_ok = true.
Proof. exact (conj eq_refl eq_refl). Qed.

(* THE TIE of the constants and source shapes: what the translators read from /repo on this run equals, by conversion, the
   values the models are written with and the theorems below are proved about (Model/CodecParams.v): field offsets, header
   lengths, magic numbers, HTTP method set, HTTP/2 preface; and every repaired spot still has its repaired shape *)
Theorem c07_codec_gen_matches_expected :
  MV.Gen.ProtoConsts.ProtoConsts_all = ProtoConsts_all /\ MV.Gen.CodecSrc.CodecSrc_all = CodecSrc_all.
Proof. exact (conj eq_refl eq_refl). Qed.

(* prefix stability: a decision of Decode on the buffered bytes (frame of n bytes / error / error reply) is never
   changed by bytes that arrive later, and a frame never extends beyond the buffered bytes *)
Theorem c07_bolt :
  (* c07_prefix_stable_bolt *)
  (stable bolt_parse) /\
  (* c07_segmentation_independent_bolt *)
  (forall chunks,
  fold_left (feed bolt_parse) chunks init = feed bolt_parse init (concat chunks)) /\
  (* c07_valid_stream_bolt *)
  (forall fs t chunks,
  Forall (frame_bytes_ok bolt_parse) fs -> tail_ok bolt_parse t ->
  concat chunks = concat (map snd fs) ++ t ->
  fold_left (feed bolt_parse) chunks init =
  {| buf := t; out := map (fun fb => EFrame (fst fb)) fs; dead := false; stuck := false |}).
Proof. exact (conj bolt_parse_stable (conj (seg_independent bolt_parse bolt_parse_stable) (seg_valid_stream bolt_parse bolt_parse_stable))). Qed.
Print Assumptions c07_bolt.
Theorem c07_boltv2 :
  (* c07_prefix_stable_boltv2 *)
  (stable boltv2_parse) /\
  (* c07_segmentation_independent_boltv2 *)
  (forall chunks,
  fold_left (feed boltv2_parse) chunks init = feed boltv2_parse init (concat chunks)) /\
  (* c07_valid_stream_boltv2 *)
  (forall fs t chunks,
  Forall (frame_bytes_ok boltv2_parse) fs -> tail_ok boltv2_parse t ->
  concat chunks = concat (map snd fs) ++ t ->
  fold_left (feed boltv2_parse) chunks init =
  {| buf := t; out := map (fun fb => EFrame (fst fb)) fs; dead := false; stuck := false |}) /\
  (* c07_bolt_family *)
  (forall b x r, b = x :: r -> x = bolt_ProtocolCode \/ x = boltv2_ProtocolCode ->
  boltv2_parse b = bolt_parse b).
Proof. exact (conj boltv2_parse_stable (conj (seg_independent boltv2_parse boltv2_parse_stable) (conj (seg_valid_stream boltv2_parse boltv2_parse_stable) bolt_family_parse))). Qed.
Print Assumptions c07_boltv2.

(* For EVERY byte string and EVERY way of cutting it into reads the connection ends in exactly the state of
   delivering it in one read: same frames and error replies, same order, each once, same residue, closed in one iff
   in the other.  (Dispatch goes on with the buffer after answering a request that carries an undecodable header block:
   the repaired conn.go, see c07_dispatch_shape_ok.) *)

(* The property as worded: for every concatenation of valid frames (fs: each byte string decodes to exactly its
   frame) followed by an incomplete frame t, and every segmentation: these frames come out, in order, each once;
   the incomplete frame consumes nothing; the connection stays open; the loop does not spin. *)

(* the bolt <-> boltv2 cross dispatch on the first byte: whichever of the two engines the connection was
   created with, a buffer starting with one of the two protocol codes is decoded identically *)

(* non-vacuity: a bolt request (class "ab", one header pair, 3 content bytes) and a boltv2 response satisfy
   frame_bytes_ok, 5 bytes of a next frame satisfy tail_ok, and a segmentation inside both frames is an instance *)
Definition ex_req : bytes := [1;1;0;1;1; 0;0;0;7; 1; 0;0;0;100; 0;2; 0;10; 0;0;0;3; 97;98; 0;0;0;1;107;0;0;0;1;118; 1;2;3].
Definition ex_resp2 : bytes := [2;1;0;0;2;1; 0;0;0;7; 1;0; 0;0; 0;0; 0;0; 0;0;0;1; 9].
Example c07_valid_stream_example :
  exists c1 c2,
    frame_bytes_ok bolt_parse (c1, ex_req) /\ frame_bytes_ok bolt_parse (c2, ex_resp2) /\ tail_ok bolt_parse [1;1;0;1;1] /\
    fold_left (feed bolt_parse) [firstn 30 ex_req; skipn 30 ex_req ++ firstn 4 ex_resp2; skipn 4 ex_resp2 ++ [1;1;0]; [1;1]] init =
    {| buf := [1;1;0;1;1]; out := [EFrame c1; EFrame c2]; dead := false; stuck := false |}.
Proof.
  eexists. eexists. split; [|split; [|split]].
  - unfold frame_bytes_ok. cbn [fst snd]. vm_compute. reflexivity.
  - unfold frame_bytes_ok. cbn [fst snd]. vm_compute. reflexivity.
  - right. vm_compute. reflexivity.
  - vm_compute. reflexivity.
Qed.

(* ===== dubbo, dubbo-thrift, tars (framing level; body parsers hess / tp / st / rp are arbitrary functions of the
   frame bytes).  These framers never answer reply-and-return, so the theorems have no side condition. ===== *)
Theorem c07_codec_src_repaired :
  MV.Gen.CodecSrc.dubbo_cmp_int = true /\ MV.Gen.CodecSrc.thrift_len_has_prefix = true /\ MV.Gen.CodecSrc.thrift_copies_frame = true /\
  MV.Gen.CodecSrc.tars_reader_in_frame = true /\ MV.Gen.CodecSrc.tars_stype_in_frame = true.
Proof. exact (conj eq_refl (conj eq_refl (conj eq_refl (conj eq_refl eq_refl)))). Qed.

(* dubbo: dubbo_parse_nz is the decoder model with a zero-length "frame" (only possible with >= 4 GiB buffered,
   where the uint32 frame length of decodeFrame wraps) mapped to an error; below 4 GiB it IS the decoder model *)
Theorem c07_dubbo :
  (* c07_dubbo_framer_is_decoder *)
  (forall hess b, blen b < U32 -> dubbo_parse hess b = dubbo_parse_nz hess b) /\
  (* c07_prefix_stable_dubbo *)
  (forall hess, stable (dubbo_parse_nz hess)) /\
  (* c07_segmentation_independent_dubbo *)
  (forall hess chunks,
  fold_left (feed (dubbo_parse_nz hess)) chunks init = feed (dubbo_parse_nz hess) init (concat chunks)) /\
  (* c07_valid_stream_dubbo *)
  (forall hess fs t chunks,
  Forall (frame_bytes_ok (dubbo_parse_nz hess)) fs -> tail_ok (dubbo_parse_nz hess) t ->
  concat chunks = concat (map snd fs) ++ t ->
  fold_left (feed (dubbo_parse_nz hess)) chunks init =
  {| buf := t; out := map (fun fb => EFrame (fst fb)) fs; dead := false; stuck := false |}).
Proof. exact (conj dubbo_parse_eq (conj dubbo_parse_nz_stable (conj (fun hess => seg_independent _ (dubbo_parse_nz_stable hess)) (fun hess => seg_valid_stream _ (dubbo_parse_nz_stable hess))))). Qed.
Print Assumptions c07_dubbo.
Theorem c07_thrift :
  (* c07_prefix_stable_thrift *)
  (forall tp, stable (thrift_parse tp)) /\
  (* c07_segmentation_independent_thrift *)
  (forall tp chunks,
  fold_left (feed (thrift_parse tp)) chunks init = feed (thrift_parse tp) init (concat chunks)) /\
  (* c07_valid_stream_thrift *)
  (forall tp fs t chunks,
  Forall (frame_bytes_ok (thrift_parse tp)) fs -> tail_ok (thrift_parse tp) t ->
  concat chunks = concat (map snd fs) ++ t ->
  fold_left (feed (thrift_parse tp)) chunks init =
  {| buf := t; out := map (fun fb => EFrame (fst fb)) fs; dead := false; stuck := false |}).
Proof. exact (conj thrift_parse_stable (conj (fun tp => seg_independent _ (thrift_parse_stable tp)) (fun tp => seg_valid_stream _ (thrift_parse_stable tp)))). Qed.
Print Assumptions c07_thrift.
Theorem c07_tars :
  (* c07_prefix_stable_tars *)
  (forall st rp, stable (tars_parse st rp)) /\
  (* c07_segmentation_independent_tars *)
  (forall st rp chunks,
  fold_left (feed (tars_parse st rp)) chunks init = feed (tars_parse st rp) init (concat chunks)) /\
  (* c07_valid_stream_tars *)
  (forall st rp fs t chunks,
  Forall (frame_bytes_ok (tars_parse st rp)) fs -> tail_ok (tars_parse st rp) t ->
  concat chunks = concat (map snd fs) ++ t ->
  fold_left (feed (tars_parse st rp)) chunks init =
  {| buf := t; out := map (fun fb => EFrame (fst fb)) fs; dead := false; stuck := false |}).
Proof. exact (conj tars_parse_stable (conj (fun st rp => seg_independent _ (tars_parse_stable st rp)) (fun st rp => seg_valid_stream _ (tars_parse_stable st rp)))). Qed.
Print Assumptions c07_tars.



(* non-vacuity: a dubbo response frame (17 bytes) is a valid frame for the framer, 3 bytes are an incomplete tail *)
Example c07_dubbo_example :
  let fr := [218;187;2;20; 0;0;0;0;0;0;0;9; 0;0;0;1; 65] in
  exists f, frame_bytes_ok (dubbo_parse_nz (fun _ => false)) (f, fr) /\ tail_ok (dubbo_parse_nz (fun _ => false)) [218;187;2].
Proof. eexists. split; [unfold frame_bytes_ok; cbn [fst snd]; vm_compute; reflexivity|right; vm_compute; reflexivity]. Qed.

(* ===== protocol matchers and automatic protocol detection ===== *)
(* stream/xprotocol/conn.go Dispatch has the shape of Lib/Seg.v drain: after handleError answered a request the loop
   goes on in a new stream context; it returns only when the connection was closed *)
Theorem c07_dispatch_shape_ok : MV.Gen.CodecSrc.dispatch_continues_after_reply = true /\ MV.Gen.CodecSrc.dispatch_progress_guard = true.
Proof. exact (conj eq_refl eq_refl). Qed.

(* protocol/api.go SelectStreamFactoryProtocol has the shape of Model/Matchers.v `select` (read from the source):
   the first accepting factory wins, otherwise EAGAIN iff some matcher said EAGAIN, otherwise FAILED *)
Theorem c07_select_shape_ok : MV.Gen.CodecSrc.select_shape_ok = true.
Proof. exact eq_refl. Qed.

(* every matcher (bolt, boltv2, dubbo, dubbo-thrift, tars, HTTP/1, HTTP/2) is monotone on prefixes:
   once it answers Success or Failed, later bytes never change the answer; only Again may change *)
Theorem c07_matchers :
  (* c07_match_monotone *)
  (forall p b e r, r <> MAgain -> matcher p b = r -> matcher p (b ++ e) = r) /\
  (* c07_select_order_independent *)
  (forall b order order', Permutation order order' -> at_most_one b ->
  select order b = select order' b) /\
  (* c07_select_prefix_stable *)
  (forall b e order p, at_most_one (b ++ e) ->
  select order b = SelProto p -> select order (b ++ e) = SelProto p).
Proof. exact (conj matcher_monotone (conj select_order_independent select_prefix_stable)). Qed.
Print Assumptions c07_matchers.

(* SelectStreamFactoryProtocol iterates a Go map: for bytes that at most one matcher accepts its result is the same
   for every iteration order, and a protocol chosen on a prefix is the protocol chosen on every longer read *)

(* EXCLUSIVITY (after the repair of the dubbo-thrift matcher, read from the source as thrift_match_first_zero): for
   well-formed bytes no two of the seven matchers accept the same bytes; hence SelectStreamFactoryProtocol - which iterates
   a Go map - returns the same answer for every iteration order, and a protocol chosen on a first read is the protocol
   chosen on every longer first read (detection commutes with segmentation) *)
Theorem c07_match_exclusive : forall b p q, wf_bytes b ->
  matcher p b = MSuccess -> matcher q b = MSuccess -> p = q.
Proof. exact matchers_exclusive. Qed.
Print Assumptions c07_match_exclusive.
Theorem c07_select_function_of_bytes :
  (forall b order order', wf_bytes b -> Permutation order order' -> select order b = select order' b) /\
  (forall b e order p, wf_bytes (b ++ e) -> select order b = SelProto p -> select order (b ++ e) = SelProto p).
Proof. exact (conj select_order_independent_wf select_prefix_stable_wf). Qed.
Print Assumptions c07_select_function_of_bytes.
Theorem c07_thrift_matcher_src_repaired : MV.Gen.CodecSrc.thrift_match_first_zero = true.
Proof. exact eq_refl. Qed.
(* the matcher before the repair accepted a bolt frame that carries 0xda 0xbc at offset 4..5 (version byte, request id) *)
Theorem c07_unrepaired_thrift_matcher_collides :
  bolt_match bolt_ProtocolCode [1;1;0;1;218; 188;0;0;7; 1; 0;0;0;100; 0;0; 0;0; 0;0;0;0] = MSuccess /\
  thrift_match_sw false [1;1;0;1;218; 188;0;0;7; 1; 0;0;0;100; 0;0; 0;0; 0;0;0;0] = MSuccess /\
  thrift_match [1;1;0;1;218; 188;0;0;7; 1; 0;0;0;100; 0;0; 0;0; 0;0;0;0] = MFailed.
Proof. exact unrepaired_thrift_collides. Qed.

(* position of the LessLen gate in boltProtocol.Decode / boltv2Protocol.Decode (read from the source): the version switch on
   the first byte comes first.  With the gate in front of it the boltv2 entry would hold back a complete 20-byte v1 response
   (the v1 heartbeat ack) that the bolt entry - and the code in the tree through either entry - extracts: *)
Theorem c07_bolt_gate_after_version_switch : MV.Gen.CodecSrc.bolt_gate_first = false.
Proof. exact eq_refl. Qed.
Theorem c07_gate_first_breaks_family :
  let hb := [1;0;0;0;1; 0;0;0;7; 1; 0;0; 0;0; 0;0; 0;0;0;0] in
  res (boltv2_decode_sw true true (view_of hb)) = NeedMore /\
  (exists c, res (bolt_decode_sw true true (view_of hb)) = Ok (c, 20)) /\
  (exists c, res (boltv2_decode (view_of hb)) = Ok (c, 20)).
Proof. exact gate_first_breaks_family. Qed.
