(* C08 (HTTP/2 part) - malformed input is contained: MOSN's HPACK decoder and HTTP/2 frame reader never
   panic, never loop forever, never read outside the received bytes and never allocate for an announced
   length whose bytes have not arrived.  Only statements; proofs by `exact`. *)
From Coq Require Import List NArith Bool.
From MV Require Import Lib.HBits Gen.H2Src Model.Hpack Model.H2Frame
  Proofs.HpackInt Proofs.HpackString Proofs.HpackTotal Proofs.H2FrameStable.
(* the comparison functions of the correspondence shards are built together with this file *)
From MV Require Model.HpackCases Model.H2FrameCases.
Import ListNotations.
Open Scope N_scope.

(* ------------------------------------------------------------------ HPACK decoder *)
(* Decoder.Write / Close, for EVERY decoder state (table, limits, buffered bytes, flags) and EVERY input:
   the outcome is ok or an error, never a panic; the parse loop, given one unit of fuel per buffered byte,
   never exhausts it (it terminates within length-of-input iterations). *)
Theorem c08_hpack_write_total : forall st p, wgood (snd (dec_write st p)).
Proof. exact dec_write_total. Qed.
Print Assumptions c08_hpack_write_total.

Theorem c08_hpack_close_total : forall st, wgood (snd (dec_close st)).
Proof. exact dec_close_total. Qed.

Theorem c08_hpack_loop_terminates : forall multi fuel st buf acc, (length buf <= fuel)%nat ->
  wgood (snd (dec_loop_gen multi fuel st buf acc)).
Proof. exact dec_loop_total. Qed.
Print Assumptions c08_hpack_loop_terminates.

(* every representation the decoder accepts consumed at least one byte of the buffer and nothing beyond it *)
Theorem c08_hpack_repr_consumes : forall st buf r, parse_repr st buf = HOk r -> consumes buf (snd r).
Proof. exact parse_repr_consumes. Qed.
Print Assumptions c08_hpack_repr_consumes.

(* the integer decoder: no panic for the prefix sizes in use, value below 2^64 *)
Theorem c08_hpack_int_total : forall n p, 1 <= n <= 8 -> dec_int n p <> HPanic /\ dec_int n p <> HFuel.
Proof. exact dec_int_no_panic. Qed.

(* string literals: no panic; memory is requested only after the announced length is known to be
   present in the buffer, and the request is bounded by the bytes received *)
Theorem c08_hpack_string_total : forall maxstr want p,
  dec_string maxstr want p <> HPanic /\ dec_string maxstr want p <> HFuel.
Proof. exact dec_string_no_panic. Qed.

Theorem c08_hpack_alloc_bounded : forall maxstr want p, dec_string_alloc maxstr want p <= 2 * len p.
Proof. exact dec_string_alloc_bounded. Qed.
Print Assumptions c08_hpack_alloc_bounded.

Theorem c08_hpack_no_alloc_for_missing_bytes : forall maxstr want p slen p1,
  dec_int 7 p = HOk (slen, p1) -> len p1 < slen -> dec_string_alloc maxstr want p = 0.
Proof. exact dec_string_short_no_alloc. Qed.
Print Assumptions c08_hpack_no_alloc_for_missing_bytes.

(* what Write keeps for later is bounded by what was buffered plus what arrived *)
Theorem c08_hpack_save_bounded : forall multi fuel st buf acc,
  (length (d_save (fst (fst (dec_loop_gen multi fuel st buf acc)))) <= Nat.max (length (d_save st)) (length buf))%nat.
Proof. exact dec_loop_save_bound. Qed.

(* Decoder.at: the source makes the dynamic-table range test on the uint64 index, before converting it to int
   (read from hpack.go on every run).  readVarInt accepts integers up to 2^63 - 1 + 2^n - 1; the totality
   theorems above cover every index it can deliver.  With the test made AFTER the conversion
   (`pos := int(i) - 61; if pos > dt.len()`), an index of 2^63 + 61 or more is negative as an int, passes the test
   and indexes the table out of range: that variant panics for EVERY table. *)
Theorem c08_hpack_at_compares_uint64 : h2_hpack_at_u64cmp = true.
Proof. exact (eq_refl true). Qed.

Theorem c08_hpack_at_refuted_with_int_comparison : forall t k, 61 <= k <= 126 ->
  static_len = 61 -> tab_at_gen false t (9223372036854775808 + k) = HPanic.
Proof. exact tab_at_int_cmp_panics. Qed.
Print Assumptions c08_hpack_at_refuted_with_int_comparison.

Example c08_hpack_at_example :
  static_len = 61 /\
  dec_int 7 [255; 255; 255; 255; 255; 255; 255; 255; 255; 127] = HOk (9223372036854775808 + 126, []) /\
  snd (dec_write (dec_new 4096) [255; 255; 255; 255; 255; 255; 255; 255; 255; 127]) = WErr EIndex /\
  snd (dec_write (dec_new 4096) [127; 255; 255; 255; 255; 255; 255; 255; 255; 127; 0]) = WErr EIndex.
Proof. repeat split; vm_compute; reflexivity. Qed.

Example c08_hpack_example :
  (* a literal announcing a 2^31-byte string with 3 bytes present: need more, nothing allocated *)
  snd (dec_write (dec_new 4096) [0; 127; 255; 255; 255; 7; 1; 2; 3]) = WOk /\
  dec_string_alloc 0 true [127; 255; 255; 255; 7; 1; 2; 3] = 0 /\
  (* an index beyond the table: an error, not a panic *)
  snd (dec_write (dec_new 4096) [255; 255; 255; 255; 7]) = WErr EIndex.
Proof. repeat split; vm_compute; reflexivity. Qed.

(* ------------------------------------------------------------------ frame reader *)
(* MFramer.ReadFrame, for EVERY reader state and EVERY buffer: frame, stream error, "again" or a
   connection error; never a panic, and its loops (CONTINUATION collection, HPACK decoding) end within
   the fuel `length buffer` (the pre-repair reader looped forever on HEADERS + 2 CONTINUATION frames:
   see c08_h2_reader_loop_refuted_before_repair). *)
Theorem c08_h2_reader_total : forall st data, rgood (read_frame st data).
Proof. exact (read_frame_src_total (eq_refl true)). Qed.
Print Assumptions c08_h2_reader_total.

(* what the reader consumes lies within the received bytes *)
Theorem c08_h2_reader_in_bounds : forall st b,
  match read_frame st b with
  | ROk _ n _ | RStream n _ => 0 < n <= len b
  | _ => True
  end.
Proof. exact (read_frame_src_consumes (eq_refl true) (eq_refl true)). Qed.
Print Assumptions c08_h2_reader_in_bounds.

(* the defect that was repaired (readMetaFrame read every CONTINUATION at the same offset): with the
   old offset arithmetic the model runs out of any fuel on HEADERS + CONTINUATION + CONTINUATION *)
Definition h2_loop_witness : bytes :=
  ser_frame (AHeaders 1 true false None [130] None) ++ ser_frame (ACont 1 false [132]) ++ ser_frame (ACont 1 true [134]).

Theorem c08_h2_reader_loop_refuted_before_repair :
  read_frame_gen psw_ok false true fs_new h2_loop_witness = RFuel /\
  (exists f n st, read_frame_gen psw_ok true true fs_new h2_loop_witness = ROk f n st).
Proof. split; [vm_compute; reflexivity | do 3 eexists; vm_compute; reflexivity]. Qed.

(* the HTTP/2 client refuses SETTINGS values outside the RFC ranges (read from MClientConn.processSettings):
   the flow-control theorems of C18 assume SETTINGS_MAX_FRAME_SIZE in 2^14..2^24-1; before the repair a peer
   could send 0 (request senders spin forever) or 2^31 (sender panics) - reproduced by `vh-h2 c08`
   (signature h2conn:client-sender-wedged-by-invalid-max-frame-size) *)
Theorem c08_h2_client_settings_validated : h2_client_settings_validated = true.
Proof. exact (eq_refl true). Qed.

Example c08_h2_example :
  (* a frame header announcing 2^20 bytes with 3 present: again; 2^20+1: connection error, nothing read *)
  read_frame fs_new ([16;0;0;0;0;0;0;0;1] ++ [1;2;3]) = RAgain /\
  read_frame fs_new ([16;0;1;0;0;0;0;0;1] ++ [1;2;3]) = RConn ETooLarge /\
  (* DATA with a pad length larger than the payload *)
  read_frame fs_new [0;0;2;0;8;0;0;0;1;9;0] = RConn EProtocol.
Proof. repeat split; vm_compute; reflexivity. Qed.
