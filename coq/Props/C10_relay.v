(* C10 (connection-level accounting of the L4 stream proxy) - "every admission that increments a cluster's
   circuit-breaker resource (... connections) or an active gauge (... connections) is matched by exactly one decrement
   ... never negative, zero when idle, max_connections trips at its threshold".  Only statements; proofs by `exact`.
   Model: Model/RelayAcct.v; proofs: Proofs/RelayAcct.v; the position of the accounting relative to Connect() is read
   from streamproxy.go on every run (Gen/RelayAcctSrc.v src_sw). *)
From Coq Require Import List ZArith Bool.
From MV Require Import Model.RelayAcct Gen.RelayAcctSrc Proofs.RelayAcct.
Import ListNotations.
Open Scope Z_scope.

(* Tie to the source: the accounting of initializeUpstreamConnection / onUpstreamEvent / finalizeUpstreamConnectionStats
   has the shape the theorems below are proved for: Increase and SetUpstreamHost only after a successful Connect, no
   Decrease in the Connect error branch (the ConnectTimeout case may call finalize: no host is set yet, so it does
   nothing), one Increase in the file, every close event finalizes, finalize = one Decrease guarded by the host. *)
Theorem c10_l4_source_shape :
  RelayAcctSrc_translator_ok = true /\ acct_shape_ok = true /\ good_sw src_sw = true.
Proof. exact l4_source_shape. Qed.

(* For EVERY history - any number of sessions, any interleaving of their events: accept, admission (CanCreate), each
   connect attempt failing (refused / timed out / no host) or succeeding, upstream close events (peer, idle/local, read
   error, write time-out), downstream close - in which no close event of an upstream connection overtakes its own
   Connect() (see c10_l4_statement_refuted), for every max_connections (0 = unlimited) and number of attempts:
   every session holds 0 or 1 unit of the Connections resource, of the host's and the cluster's
   upstream_connection_active and of the handler's connection count, and nothing once it is over (each increment is
   matched by exactly one decrement when the session ends); the four counters are the sums of what the sessions hold:
   = the number of relaying sessions (times 0 for an unlimited resource) / of sessions not over; never negative; all
   zero when no session is live. *)
Theorem c10_l4_conserved : forall c evs, no_early evs = true ->
  let g := run src_sw c evs in
  Forall (fun s => 0 <= h_res s <= 1 /\ 0 <= h_host s <= 1 /\ 0 <= h_clu s <= 1 /\ 0 <= h_down s <= 1 /\
                   (is_done s = true -> h_res s = 0 /\ h_host s = 0 /\ h_clu s = 0 /\ h_down s = 0)) (ss g) /\
  res g = sumf h_res (ss g) /\ g_host g = sumf h_host (ss g) /\ g_clu g = sumf h_clu (ss g) /\ g_down g = sumf h_down (ss g) /\
  res g = unit_res c * count is_live (ss g) /\ g_host g = count is_live (ss g) /\ g_clu g = count is_live (ss g) /\
  g_down g = count (fun s => negb (is_done s)) (ss g) /\
  0 <= res g /\ 0 <= g_host g /\ 0 <= g_clu g /\ 0 <= g_down g /\
  (forallb is_done (ss g) = true -> res g = 0 /\ g_host g = 0 /\ g_clu g = 0 /\ g_down g = 0).
Proof. exact (fun c evs => l4_conserved src_sw c evs (proj2 (proj2 l4_source_shape))). Qed.
Print Assumptions c10_l4_conserved.

(* the counters are the sums of what the sessions hold in EVERY history (also the excluded ones) *)
Theorem c10_l4_sums : forall c evs,
  let g := run src_sw c evs in
  res g = sumf h_res (ss g) /\ g_host g = sumf h_host (ss g) /\ g_clu g = sumf h_clu (ss g) /\ g_down g = sumf h_down (ss g).
Proof. exact (run_sums src_sw). Qed.
Print Assumptions c10_l4_sums.

Example c10_l4_example : (* max_connections 2: two sessions relay, a third is refused, a refused dial, all end *)
  let evs := [Accept; Admit 0; Dial 0 ConnOk; Accept; Admit 1; Dial 1 ConnOk; Accept; Admit 2; UpClose 0; DownClose 1] in
  no_early evs = true /\
  map (fun n => res (run src_sw (mkCfg 2 1) (firstn n evs))) [3; 6; 8; 9; 10]%nat = [1; 2; 2; 1; 0] /\
  overflows (run src_sw (mkCfg 2 1) evs) = 1%nat /\ g_down (run src_sw (mkCfg 2 1) evs) = 0.
Proof. vm_compute. repeat split; reflexivity. Qed.

(* Threshold.  In every reachable state the admission test refuses exactly when the resource has reached
   max_connections (m-th admitted, (m+1)-th refused) ... *)
Theorem c10_l4_admission : forall c evs i s, 0 < maxc c -> no_early evs = true ->
  let g := run src_sw c evs in
  nth_error (ss g) i = Some s -> ph s = Accepted ->
  let g' := step src_sw c g (Admit i) in
  (res g < maxc c -> overflows g' = overflows g /\
       exists s', nth_error (ss g') i = Some s' /\ ph s' = match tries c with O => Done | S _ => Dialing (tries c) end) /\
  (maxc c <= res g -> overflows g' = S (overflows g) /\ exists s', nth_error (ss g') i = Some s' /\ ph s' = Done).
Proof. exact (fun c evs i s => l4_admission src_sw c evs i s (proj2 (proj2 l4_source_shape))). Qed.
Print Assumptions c10_l4_admission.

(* ... and when admissions do not overlap (no CanCreate test while another session is between its own test and the
   end of its connect loop) the resource never exceeds max_connections. *)
Theorem c10_l4_threshold_serial : forall c evs, 0 < maxc c -> no_early evs = true ->
  serial_from src_sw c g0 evs = true -> res (run src_sw c evs) <= maxc c.
Proof. exact (fun c evs => l4_threshold_bound src_sw c evs (proj2 (proj2 l4_source_shape))). Qed.
Print Assumptions c10_l4_threshold_serial.

(* The full statements are FALSE for the code in the tree. *)
(* (1) conservation over ALL histories: Connect() starts the upstream read loop before it returns; if the upstream's
   close event is handled before initializeUpstreamConnection reaches Increase/SetUpstreamHost, finalize finds no host
   (no Decrease) and the unit taken afterwards is never given back. *)
Definition c10_l4_statement : Prop := forall c evs,
  let g := run src_sw c evs in forallb is_done (ss g) = true -> res g = 0 /\ g_host g = 0 /\ g_clu g = 0 /\ g_down g = 0.
Theorem c10_l4_statement_refuted : ~ c10_l4_statement.
Proof. exact l4_statement_refuted. Qed.
Print Assumptions c10_l4_statement_refuted.

(* (2) the threshold at any concurrency: CanCreate and Increase are separate steps with the dial between them. *)
Definition c10_l4_threshold_statement : Prop := forall c evs, 0 < maxc c -> no_early evs = true ->
  res (run src_sw c evs) <= maxc c.
Theorem c10_l4_threshold_refuted : ~ c10_l4_threshold_statement.
Proof. exact l4_threshold_refuted. Qed.
Print Assumptions c10_l4_threshold_refuted.
