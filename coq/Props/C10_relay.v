(* C10 (connection-level accounting of the L4 stream proxy) - "every admission that increments a cluster's
   circuit-breaker resource (... connections) or an active gauge (... connections) is matched by exactly one decrement
   ... never negative, zero when idle, max_connections trips at its threshold".  Only statements; proofs by `exact`.
   Model: Model/RelayAcct.v; proofs: Proofs/RelayAcct.v; the position of the accounting relative to Connect() is read
   from streamproxy.go on every run (Gen/RelayAcctSrc.v src_sw). *)
From Coq Require Import List ZArith Bool.
From MV Require Import Model.RelayAcct Gen.RelayAcctSrc Proofs.RelayAcct.
Import ListNotations.
Open Scope Z_scope.

(* Tie to the source: the accounting of initializeUpstreamConnection / onUpstreamEvent / finalizeUpstreamConnectionStats
   has the shape the theorems below are proved for (the repaired shape, fix: close event before Connect returns):
   SetUpstreamHost, Increase and the two UpstreamConnectionActive++ in front of Connect(), given back exactly once in the
   Connect error branch, the ConnectTimeout case does not finalize; resource.Increase/Decrease count unconditionally
   (fix c8b45b4d7); one Increase in the file, every close event
   finalizes, finalize = one Decrease guarded by the host. *)
Theorem c10_l4_source_shape : RelayAcctSrc_translator_ok = true /\ acct_shape_ok = true.
Proof. exact (conj eq_refl eq_refl). Qed.
(* the generated switches ARE the shape the lemmas of Proofs/RelayAcct.v are proved for (nothing in Proofs depends on
   Gen: the theorems below instantiate lemmas about the constant sw_repaired, the type check is this conversion) *)
Theorem c10_l4_source_is_verified_source : src_sw = sw_repaired.
Proof. exact eq_refl. Qed.

(* For EVERY history - any number of sessions, any interleaving of their events, and max_connections changed at any
   moment by a cluster update (SetMax n: the counter is kept, the limit replaced): accept, admission (CanCreate), each
   connect attempt failing (refused / timed out / no host) or succeeding, INCLUDING a close event of the new upstream
   connection that is handled before Connect() returns, upstream close events (peer, idle/local, read error, write
   time-out), downstream close - for every max_connections (0 = unlimited) and number of attempts:
   every session holds 0 or 1 unit of the Connections resource, of the host's and the cluster's
   upstream_connection_active and of the handler's connection count, and nothing once it is over (each increment is
   matched by exactly one decrement when the session ends); the four counters are the sums of what the sessions hold:
   = the number of relaying sessions (also while the limit is 0 = unlimited) / of sessions not over; never negative;
   all zero when no session is live. *)
Theorem c10_l4_conserved : forall c evs,
  let g := run src_sw c evs in
  Forall (fun s => 0 <= h_res s <= 1 /\ 0 <= h_host s <= 1 /\ 0 <= h_clu s <= 1 /\ 0 <= h_down s <= 1 /\
                   (is_done s = true -> h_res s = 0 /\ h_host s = 0 /\ h_clu s = 0 /\ h_down s = 0)) (ss g) /\
  res g = sumf h_res (ss g) /\ g_host g = sumf h_host (ss g) /\ g_clu g = sumf h_clu (ss g) /\ g_down g = sumf h_down (ss g) /\
  res g = count is_live (ss g) /\ g_host g = count is_live (ss g) /\ g_clu g = count is_live (ss g) /\
  g_down g = count (fun s => negb (is_done s)) (ss g) /\
  0 <= res g /\ 0 <= g_host g /\ 0 <= g_clu g /\ 0 <= g_down g /\
  (forallb is_done (ss g) = true -> res g = 0 /\ g_host g = 0 /\ g_clu g = 0 /\ g_down g = 0).
Proof. exact l4_conserved_repaired. Qed.
Print Assumptions c10_l4_conserved.

Example c10_l4_example : (* max_connections 2: two sessions relay, a third is refused, an upstream that closes before Connect returns, all end *)
  let evs := [Accept; Admit 0; Dial 0 ConnOk; Accept; Admit 1; Dial 1 ConnOk; Accept; Admit 2; UpClose 0; DownClose 1;
              Accept; Admit 3; Dial 3 ConnOkEarly] in
  map (fun n => res (run src_sw (mkCfg 2 1) (firstn n evs))) [3; 6; 8; 9; 10; 13]%nat = [1; 2; 2; 1; 0; 0] /\
  (* unlimited, two connections open, the limit is set to 1: both are counted, a third is refused, the count returns to 0 *)
  map (fun n => res (run src_sw (mkCfg 0 1) (firstn n [Accept; Admit 0; Dial 0 ConnOk; Accept; Admit 1; Dial 1 ConnOk; SetMax 1;
                                                         Accept; Admit 2; DownClose 0; UpClose 1]))) [6; 7; 9; 11]%nat = [2; 2; 2; 0] /\
  overflows (run src_sw (mkCfg 0 1) [Accept; Admit 0; Dial 0 ConnOk; Accept; Admit 1; Dial 1 ConnOk; SetMax 1; Accept; Admit 2]) = 1%nat /\
  overflows (run src_sw (mkCfg 2 1) evs) = 1%nat /\ g_down (run src_sw (mkCfg 2 1) evs) = 0 /\
  g_host (run src_sw (mkCfg 2 1) evs) = 0 /\ forallb is_done (ss (run src_sw (mkCfg 2 1) evs)) = true.
Proof. vm_compute. repeat split; reflexivity. Qed.

(* The accounting as it stood BEFORE the repair (everything taken after a successful Connect, sw_old) did not have this
   property: a close event handled before Connect returns found no host to release, and the unit taken afterwards was
   never given back.  (For that shape the statement holds for the histories without such an event: Proofs/RelayAcct.v
   l4_conserved_old.) *)
Theorem c10_l4_old_shape_refuted :
  ~ (forall c evs, let g := run sw_old c evs in
       forallb is_done (ss g) = true -> res g = 0 /\ g_host g = 0 /\ g_clu g = 0 /\ g_down g = 0).
Proof. exact l4_old_statement_refuted. Qed.
Print Assumptions c10_l4_old_shape_refuted.

(* Threshold.  In every reachable state - whatever the history did, limit changes included - the admission test refuses
   exactly when the resource has reached the limit in force (m-th accepted, (m+1)-th refused) ... *)
Theorem c10_l4_admission : forall c evs i s,
  let g := run src_sw c evs in
  0 < g_max g -> nth_error (ss g) i = Some s -> ph s = Accepted ->
  let g' := step src_sw c g (Admit i) in
  (res g < g_max g -> overflows g' = overflows g /\
       exists s', nth_error (ss g') i = Some s' /\ ph s' = match tries c with O => Done | S _ => Dialing (tries c) end) /\
  (g_max g <= res g -> overflows g' = S (overflows g) /\ exists s', nth_error (ss g') i = Some s' /\ ph s' = Done).
Proof. exact l4_admission_repaired. Qed.
Print Assumptions c10_l4_admission.

(* ... and when admissions do not overlap (no CanCreate test while another session is between its own test and the
   end of its connect loop) and the limit is not changed, the resource never exceeds max_connections.  (Lowering the
   limit below the number of open connections does not close any: after a SetMax the bound is the admission rule above.) *)
Theorem c10_l4_threshold_serial : forall c evs, 0 < maxc c -> no_setmax evs = true ->
  serial_from src_sw c (g0 c) evs = true -> res (run src_sw c evs) <= maxc c.
Proof. exact l4_threshold_bound_repaired. Qed.
Print Assumptions c10_l4_threshold_serial.

(* The resource manager as it was before fix c8b45b4d7 (Increase/Decrease no-ops while max == 0; sw_nocount) did not keep
   the counter non-negative once the limit is changed at run time: a connection opened while unlimited is not counted,
   a limit is set, the connection closes -> -1 (and CanCreate takes a negative count for "free"). *)
Theorem c10_l4_nocount_refuted : ~ (forall c evs, 0 <= res (run sw_nocount c evs)).
Proof. exact l4_nocount_statement_refuted. Qed.
Print Assumptions c10_l4_nocount_refuted.

(* The threshold at ANY concurrency is FALSE for the code in the tree: CanCreate and Increase are separate steps (the
   repair narrowed the window from the whole dial to the connection set-up, it did not close it). *)
Definition c10_l4_threshold_statement : Prop := forall c evs, 0 < maxc c -> no_setmax evs = true -> res (run src_sw c evs) <= maxc c.
Theorem c10_l4_threshold_refuted : ~ c10_l4_threshold_statement.
Proof. exact l4_threshold_refuted. Qed.
Print Assumptions c10_l4_threshold_refuted.
