(* C17 (route part) - Route actions are applied exactly as configured: header mutations at route, virtual-host and
   router level in that order, path and host rewrite, redirect and direct-response rules.
   Only statements; proofs by `exact`.  Model: Model/RouteAction.v.  The time-out and retry clauses of C17 are in the
   proxy group's files.  Gen/RouteSrc.v is regenerated from /repo on every run. *)
From Coq Require Import List String.
From MV Require Import Model.Router Model.RouteAction Proofs.RouteAction Gen.RouteSrc.
Import ListNotations.
Local Open Scope string_scope.

(* what the translator read from the source: every rule kind (variable and DSL rules included) runs the base
   FinalizeRequestHeaders; the http rule kinds call finalizePathHeader with their own matcher; chooseHost builds the
   redirect URL from the rule's scheme/host/path with the request's values as defaults, keeps the query, and drops the
   port for (new scheme http, port 443) and (new scheme https, port 80) *)
Theorem c17_route_source_shape :
  RouteSrc_translator_ok = true /\ var_rule_finalizes = true /\ dsl_rule_finalizes = true /\
  redirect_fields_ok = true /\ redirect_strip = [("http", "443"); ("https", "80")].
Proof. repeat split; exact (eq_refl _). Qed.
Print Assumptions c17_route_source_shape.

(* headers: for every rule kind, every key (the recorded original path apart) ends with the value obtained by the route
   level, then the virtual-host level, then the router level, each level = its additions to that key in order
   (append joins "old,new" when old is non-empty and append is set or absent, else overwrites), then its removal *)
Theorem c17_header_levels : forall a e k, k <> hdr_original_path ->
  hget k (e_hdrs (finalize_request var_rule_finalizes dsl_rule_finalizes a e)) =
  level (e_known e) (e_vars e) k (ra_gl_req a)
    (level (e_known e) (e_vars e) k (ra_vh_req a)
      (level (e_known e) (e_vars e) k (ra_req a) (hget k (e_hdrs e)))).
Proof. exact header_levels. Qed.
Print Assumptions c17_header_levels.

Theorem c17_response_header_levels : forall a known vars k m,
  hget k (finalize_response a known vars m) =
  level known vars k (ra_gl_resp a) (level known vars k (ra_vh_resp a) (level known vars k (ra_resp a) (hget k m))).
Proof. exact response_levels. Qed.
Print Assumptions c17_response_header_levels.

(* one parser acts on each key independently of the other keys *)
Theorem c17_evaluate_per_key : forall known vars p k m,
  hget k (evaluate known vars p m) = level known vars k p (hget k m).
Proof. exact evaluate_get. Qed.
Print Assumptions c17_evaluate_per_key.

(* closed forms of one level for one key *)
Theorem c17_level_single_add : forall known vars k p a old,
  removed k p = false -> adds_for k p = [a] -> level known vars k p old = Some (new_value known vars old a).
Proof. exact level_single. Qed.
Theorem c17_level_untouched : forall known vars k p old,
  removed k p = false -> adds_for k p = [] -> level known vars k p old = old.
Proof. exact level_untouched. Qed.
Theorem c17_level_removed : forall known vars k p old, removed k p = true -> level known vars k p old = None.
Proof. exact level_removed. Qed.
Print Assumptions c17_level_single_add.

(* path rewrite *)
Theorem c17_rewrite_prefix : forall a matched e path rest,
  ra_prefix_rewrite a <> "" -> assoc var_path (e_vars e) = Some path -> path = matched ++ rest -> path <> "" ->
  assoc var_path (e_vars (finalize_path a matched e)) = Some (ra_prefix_rewrite a ++ rest) /\
  hget hdr_original_path (e_hdrs (finalize_path a matched e)) = Some path.
Proof. exact prefix_rewrite_applies. Qed.
Print Assumptions c17_rewrite_prefix.

Theorem c17_rewrite_prefix_skipped : forall a matched e path,
  ra_prefix_rewrite a <> "" -> assoc var_path (e_vars e) = Some path -> String.prefix matched path = false ->
  finalize_path a matched e = e.
Proof. exact prefix_rewrite_skipped. Qed.
Print Assumptions c17_rewrite_prefix_skipped.

Theorem c17_rewrite_regex : forall a matched e path,
  ra_prefix_rewrite a = "" -> regex_rewrite_active a = true ->
  assoc var_path (e_vars e) = Some path -> path <> "" ->
  (e_replaced e <> path ->
     assoc var_path (e_vars (finalize_path a matched e)) = Some (e_replaced e) /\
     hget hdr_original_path (e_hdrs (finalize_path a matched e)) = Some path) /\
  (e_replaced e = path -> finalize_path a matched e = e).
Proof. exact regex_rewrite_applies. Qed.
Print Assumptions c17_rewrite_regex.

Theorem c17_rewrite_none : forall a matched e,
  (ra_prefix_rewrite a = "" /\ regex_rewrite_active a = false) \/
  assoc var_path (e_vars e) = None \/ assoc var_path (e_vars e) = Some "" ->
  finalize_path a matched e = e.
Proof. exact no_rewrite_untouched. Qed.
Print Assumptions c17_rewrite_none.

Theorem c17_rewrite_only_path_rules : forall a e, (ra_kind a = RKRpc \/ ra_kind a = RKVar \/ ra_kind a = RKDsl) ->
  assoc var_path (e_vars (finalize_request true true a e)) = assoc var_path (e_vars e).
Proof. exact rpc_var_dsl_keep_path. Qed.
Print Assumptions c17_rewrite_only_path_rules.

(* host rewrite precedence: host_rewrite > header named by auto_host_rewrite_header (read after the header actions) > auto *)
Theorem c17_host_rewrite : forall a e,
  assoc var_authority (e_vars (finalize_base a e)) =
  if negb (String.eqb (ra_host_rewrite a) "") then Some (ra_host_rewrite a)
  else if negb (String.eqb (ra_auto_host_header a) "") then
    match hget (ra_auto_host_header a) (e_hdrs (finalize_base a e)) with
    | Some v => Some v
    | None => assoc var_authority (e_vars e)
    end
  else if ra_auto_host a then
    match e_dns_host e with Some hn => Some hn | None => assoc var_authority (e_vars e) end
  else assoc var_authority (e_vars e).
Proof. exact host_rewrite_precedence. Qed.
Print Assumptions c17_host_rewrite.

(* redirect rule: code 0 means 301, the five redirect codes are kept, anything else is refused; the scheme is
   lower-cased and must be an RFC 3986 scheme; path and host are kept *)
Theorem c17_redirect_rule : forall r,
  match make_redirect r with
  | Some rule =>
      (rd_code r = 0 /\ rr_code rule = 301 \/ code_supported (rd_code r) = true /\ rr_code rule = rd_code r) /\
      rr_path rule = rd_path r /\ rr_host rule = rd_host r /\ rr_scheme rule = lower (rd_scheme r) /\
      (rd_scheme r = "" \/ scheme_valid (lower (rd_scheme r)) = true)
  | None => (rd_code r <> 0 /\ code_supported (rd_code r) = false) \/
            (lower (rd_scheme r) <> "" /\ scheme_valid (lower (rd_scheme r)) = false)
  end.
Proof. exact make_redirect_spec. Qed.
Print Assumptions c17_redirect_rule.

(* redirect location, with the strip pairs read from the source *)
Theorem c17_redirect : forall r cs ch cp cq,
  let u := redirect_url redirect_strip r cs ch cp cq in
  u_scheme u = or_else (rr_scheme r) cs /\
  u_path u = or_else (rr_path r) cp /\
  u_query u = cq /\
  (u_scheme u = cs -> u_host u = or_else (rr_host r) ch) /\
  (u_scheme u <> cs -> forall h p, split_host_port (or_else (rr_host r) ch) = SplitOk h p ->
     u_host u = if pair_in (u_scheme u) p redirect_strip then h else or_else (rr_host r) ch) /\
  (u_scheme u <> cs -> (forall h p, split_host_port (or_else (rr_host r) ch) <> SplitOk h p) ->
     u_host u = or_else (rr_host r) ch).
Proof. exact (redirect_url_spec redirect_strip). Qed.
Print Assumptions c17_redirect.

(* non-vacuity *)
Example c17_route_example :
  let p1 := Build_hparser [Build_hadd "X-A" "r" None] [] in
  let p2 := Build_hparser [Build_hadd "x-a" "v" (Some true); Build_hadd "x-b" "%x-mosn-method%" (Some false)] ["K9"] in
  let p3 := Build_hparser [Build_hadd "x-a" "g" (Some false)] ["x-b"] in
  let a := Build_raction (RKPrefix "/svc") "/new" None "up.example" "" false p1 no_parser p2 no_parser p3 no_parser in
  let e := Build_renv [("x-mosn-path", "/svc/item"); ("x-mosn-method", "GET")] [("x-a", "h"); ("k9", "z")] ["x-mosn-method"] "" None in
  let e' := finalize_request var_rule_finalizes dsl_rule_finalizes a e in
  hget "x-a" (e_hdrs e') = Some "g" /\ hget "x-b" (e_hdrs e') = None /\ hget "k9" (e_hdrs e') = None /\
  hget "x-a" (evaluate (e_known e) (e_vars e) p2 (evaluate (e_known e) (e_vars e) p1 (e_hdrs e))) = Some "h,r,v" /\
  assoc var_path (e_vars e') = Some "/new/item" /\ hget hdr_original_path (e_hdrs e') = Some "/svc/item" /\
  assoc var_authority (e_vars e') = Some "up.example" /\
  url_string (redirect_url redirect_strip (Build_redirect_rule 301 "" "" "https") "http" "a.com:80" "/p" "q=1") = "https://a.com/p?q=1" /\
  url_string (redirect_url redirect_strip (Build_redirect_rule 301 "" "" "https") "http" "a.com:8080" "/p" "") = "https://a.com:8080/p".
Proof. cbn zeta. repeat split; vm_compute; reflexivity. Qed.
