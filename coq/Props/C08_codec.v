(* C08 (codec part: xprotocol codecs and the dispatch loop) - malformed input is contained.
   Only statements; proofs by `exact`.  `bolt_decode`/`boltv2_decode` are the models of
   boltProtocol.Decode / boltv2Protocol.Decode over the header block decoder that is in the tree
   (Gen/CodecSrc.v xp_hdr_checked is read from xprotocol/header.go and the bolt decoders on every run). *)
From Coq Require Import List NArith Bool PeanoNat.
From MV Require Import Lib.Bytes Lib.Dec Lib.Seg Model.CodecParams Model.HeaderKV Model.Bolt Model.Xcodecs
  Proofs.HeaderKV Proofs.Bolt Proofs.Xcodecs.
(* the generated files are only Required (never imported): every name below is the committed expected value of
   Model/CodecParams.v unless it is qualified with MV.Gen. *)
From MV Require Gen.ProtoConsts Gen.CodecSrc.
(* the comparison functions used by the correspondence shards: imported so that they are rebuilt with this file *)
From MV Require Model.BoltCheck Model.XCheck.
(* ownership of the pooled frame copies (names qualified: Model.BufOwn.run ...) *)
From MV Require Model.BufOwn Proofs.BufOwn Model.MetaLock Proofs.MetaLock.
Import ListNotations.
Open Scope N_scope.

Theorem c08_codec_translators_ok : MV.Gen.ProtoConsts.ProtoConsts_translator_ok = true /\ MV.Gen.CodecSrc.CodecSrc_translator_ok = true.
Proof. exact (conj eq_refl eq_refl). Qed.

(* THE TIE of the constants and source shapes: what the translators read from /repo on this run equals, by conversion, the
   values the models are written with and the theorems below are proved about (Model/CodecParams.v): field offsets, header
   lengths, magic numbers, HTTP method set, HTTP/2 preface; and every repaired spot still has its repaired shape *)
Theorem c08_codec_gen_matches_expected :
  MV.Gen.ProtoConsts.ProtoConsts_all = ProtoConsts_all /\ MV.Gen.CodecSrc.CodecSrc_all = CodecSrc_all.
Proof. exact (conj eq_refl eq_refl). Qed.

(* For EVERY byte string in the read buffer and every content of its spare capacity: Decode yields a frame,
   asks for more, or fails - it never panics and its loops end (OutOfFuel is the out-of-bound marker). *)
Theorem c08_bolt :
  (* c08_total_bolt *)
  (forall v, res (bolt_decode v) <> Panic /\ res (bolt_decode v) <> OutOfFuel) /\
  (* c08_in_bounds_alloc_bounded_bolt *)
  (forall v,
  maxrd (tr (bolt_decode v)) <= vlen v /\ Forall (fun a => a <= vlen v) (allocs (tr (bolt_decode v)))) /\
  (* c08_spare_independent_bolt *)
  (forall b s1 s2,
  res (bolt_decode {| vb := b; vspare := s1 |}) = res (bolt_decode {| vb := b; vspare := s2 |})) /\
  (* c08_consumed_bolt *)
  (forall v c n, res (bolt_decode v) = Ok (c, n) -> 0 < n /\ n <= vlen v).
Proof. exact (conj bolt_decode_total (conj bolt_decode_bounded (conj bolt_decode_spare_indep bolt_decode_consumed))). Qed.
Print Assumptions c08_bolt.
Theorem c08_boltv2 :
  (* c08_total_boltv2 *)
  (forall v, res (boltv2_decode v) <> Panic /\ res (boltv2_decode v) <> OutOfFuel) /\
  (* c08_in_bounds_alloc_bounded_boltv2 *)
  (forall v,
  maxrd (tr (boltv2_decode v)) <= vlen v /\ Forall (fun a => a <= vlen v) (allocs (tr (boltv2_decode v)))) /\
  (* c08_spare_independent_boltv2 *)
  (forall b s1 s2,
  res (boltv2_decode {| vb := b; vspare := s1 |}) = res (boltv2_decode {| vb := b; vspare := s2 |})) /\
  (* c08_consumed_boltv2 *)
  (forall v c n, res (boltv2_decode v) = Ok (c, n) -> 0 < n /\ n <= vlen v).
Proof. exact (conj boltv2_decode_total (conj boltv2_decode_bounded (conj boltv2_decode_spare_indep boltv2_decode_consumed))). Qed.
Print Assumptions c08_boltv2.

(* every offset read is inside the received bytes; every allocation request is at most the number of
   bytes received (nothing is allocated for an announced length whose bytes have not arrived) *)

(* the outcome does not depend on the stale bytes behind the received ones *)

(* a frame is returned only when all its bytes have arrived, and it consumes at least one byte *)

(* the header block decoder used by bolt, boltv2 and the wasm codec, on every block *)
Theorem c08_total_header_block : forall h,
  fst (hdr_decode xp_hdr_checked h) = HOk \/ fst (hdr_decode xp_hdr_checked h) = HErr.
Proof. exact hdr_decode_total. Qed.
Print Assumptions c08_total_header_block.

(* the Dispatch loop around these decoders always ends (stuck = the loop ran out of its bound) *)
Theorem c08_dispatch_ends :
  (* c08_dispatch_ends_bolt *)
  (forall s c, stuck (feed bolt_parse s c) = stuck s) /\
  (* c08_dispatch_ends_boltv2 *)
  (forall s c, stuck (feed boltv2_parse s c) = stuck s) /\
  (* c08_dispatch_ends_dubbo *)
  (forall hess s c, stuck (feed (dubbo_parse_nz hess) s c) = stuck s) /\
  (* c08_dispatch_ends_thrift *)
  (forall tp s c, stuck (feed (thrift_parse tp) s c) = stuck s) /\
  (* c08_dispatch_ends_tars *)
  (forall st rp s c, stuck (feed (tars_parse st rp) s c) = stuck s).
Proof. exact (conj (seg_never_stuck bolt_parse bolt_parse_stable) (conj (seg_never_stuck boltv2_parse boltv2_parse_stable) (conj (fun hess => seg_never_stuck _ (dubbo_parse_nz_stable hess)) (conj (fun tp => seg_never_stuck _ (thrift_parse_stable tp)) (fun st rp => seg_never_stuck _ (tars_parse_stable st rp)))))). Qed.
Print Assumptions c08_dispatch_ends.

(* non-vacuity: the block on which the unchecked decoder (mosn.io/pkg header.DecodeHeader, used by bolt before the
   repair) panics is an error now; a frame announcing 4 GiB of content allocates nothing *)
Example c08_header_block_example :
  fst (hdr_decode false [0; 1]) = HPanic /\ fst (hdr_decode xp_hdr_checked [0; 1]) = HErr.
Proof. split; vm_compute; reflexivity. Qed.
Example c08_absurd_length_example :
  let b := [1;1;0;1;1; 0;0;0;7; 1; 0;0;0;100; 0;2; 0;10; 255;255;255;255; 97;98] in
  bolt_decode (view_of b) = (NeedMore, {| allocs := []; maxrd := 22 |}).
Proof. vm_compute. reflexivity. Qed.

(* ===== dubbo, dubbo-thrift, tars: framing level.  The body parsers of the hessian / thrift / TarsGo libraries are
   arbitrary functions here (hess, tp, st, rp are universally quantified): whatever they answer, MOSN's own
   framing code around them satisfies the statements.  The repaired spots are read from the source. ===== *)
Theorem c08_codec_src_repaired :
  MV.Gen.CodecSrc.dubbo_cmp_int = true /\ MV.Gen.CodecSrc.thrift_len_has_prefix = true /\ MV.Gen.CodecSrc.thrift_copies_frame = true /\
  MV.Gen.CodecSrc.tars_reader_in_frame = true /\ MV.Gen.CodecSrc.tars_stype_in_frame = true /\
  MV.Gen.CodecSrc.decode_keeps_frame_copy = true /\ MV.Gen.CodecSrc.ctx_reset_puts_once = true /\
  MV.Gen.CodecSrc.dubbo_meta_unlock_every_exit = true.
Proof. exact (conj eq_refl (conj eq_refl (conj eq_refl (conj eq_refl (conj eq_refl (conj eq_refl (conj eq_refl eq_refl))))))). Qed.

(* dubbo: decodeFrame computes the frame length as HeaderLen + DataLen in uint32; with 4 GiB or more buffered the
   sum can wrap, hence the bound vlen v < 2^32 (a Go integer width, written into the model) *)
Theorem c08_dubbo :
  (* c08_total_dubbo *)
  (forall hess v, vlen v < U32 ->
  res (dubbo_decode hess v) <> Panic /\ res (dubbo_decode hess v) <> OutOfFuel) /\
  (* c08_in_bounds_alloc_bounded_dubbo *)
  (forall hess v,
  maxrd (tr (dubbo_decode hess v)) <= vlen v /\ Forall (fun a => a <= vlen v) (allocs (tr (dubbo_decode hess v)))) /\
  (* c08_spare_independent_dubbo *)
  (forall hess b s1 s2,
  res (dubbo_decode hess {| vb := b; vspare := s1 |}) = res (dubbo_decode hess {| vb := b; vspare := s2 |})) /\
  (* c08_consumed_dubbo *)
  (forall hess v f n, vlen v < U32 -> res (dubbo_decode hess v) = Ok (f, n) -> 0 < n /\ n <= vlen v).
Proof. exact (conj dubbo_decode_total (conj dubbo_decode_bounded (conj dubbo_decode_spare_indep dubbo_decode_consumed))). Qed.
Print Assumptions c08_dubbo.

(* dubbo-thrift: decodeFrame runs under its own recover(); a slice expression that would panic is the error
   ERR_RECOVERED, so the decoder as a whole never panics *)
Theorem c08_thrift :
  (* c08_total_thrift *)
  (forall tp v, res (thrift_decode tp v) <> Panic /\ res (thrift_decode tp v) <> OutOfFuel) /\
  (* c08_in_bounds_alloc_bounded_thrift *)
  (forall tp v,
  maxrd (tr (thrift_decode tp v)) <= vlen v /\ Forall (fun a => a <= vlen v) (allocs (tr (thrift_decode tp v)))) /\
  (* c08_spare_independent_thrift *)
  (forall tp b s1 s2,
  res (thrift_decode tp {| vb := b; vspare := s1 |}) = res (thrift_decode tp {| vb := b; vspare := s2 |})) /\
  (* c08_consumed_thrift *)
  (forall tp v f n, res (thrift_decode tp v) = Ok (f, n) -> 0 < n /\ n <= vlen v).
Proof. exact (conj thrift_decode_total (conj thrift_decode_bounded (conj thrift_decode_spare_indep thrift_decode_consumed))). Qed.
Print Assumptions c08_thrift.

Theorem c08_tars :
  (* c08_total_tars *)
  (forall st rp v, res (tars_decode st rp v) <> Panic /\ res (tars_decode st rp v) <> OutOfFuel) /\
  (* c08_in_bounds_alloc_bounded_tars *)
  (forall st rp v,
  maxrd (tr (tars_decode st rp v)) <= vlen v /\ Forall (fun a => a <= vlen v) (allocs (tr (tars_decode st rp v)))) /\
  (* c08_spare_independent_tars *)
  (forall st rp b s1 s2,
  res (tars_decode st rp {| vb := b; vspare := s1 |}) = res (tars_decode st rp {| vb := b; vspare := s2 |})) /\
  (* c08_consumed_tars *)
  (forall st rp v f n, res (tars_decode st rp v) = Ok (f, n) -> 0 < n /\ n <= vlen v).
Proof. exact (conj tars_decode_total (conj tars_decode_bounded (conj tars_decode_spare_indep tars_decode_consumed))). Qed.
Print Assumptions c08_tars.

(* the Dispatch loop around them ends *)

(* non-vacuity: a dubbo header announcing 0xFFFFFFF5 payload bytes (the uint32 sum with the header length wraps
   to 5) asks for more data and allocates nothing; a dubbo-thrift "frame" of 4+1 bytes in front of more data is
   an error, not a panic *)
Example c08_dubbo_wrap_example :
  dubbo_decode (fun _ => true) (view_of [218;187;194;0; 0;0;0;0;0;0;0;9; 255;255;255;245; 1;2;3]) = (NeedMore, {| allocs := []; maxrd := 16 |}).
Proof. vm_compute. reflexivity. Qed.
Example c08_thrift_short_message_example :
  res (thrift_decode (fun _ => None) (view_of [0;0;0;1; 218; 0;0;0;67;218;188])) = Err ERR_RECOVERED.
Proof. vm_compute. reflexivity. Qed.

(* ===== "a failure affects only that connection (error reply or close)" =====
   Lib/Seg.v feed/drain is the Dispatch loop with handleError's decision: a decode error closes THIS connection (EClose,
   buffer dropped, connection dead) or answers THIS request (EReply) and goes on - conn.go as repaired, read from the
   source (c08_dispatch_shape_ok).  mfeed/mrun: one dispatch state per connection, interleaved reads. *)
Theorem c08_dispatch_shape_ok : MV.Gen.CodecSrc.dispatch_continues_after_reply = true /\ MV.Gen.CodecSrc.dispatch_progress_guard = true.
Proof. exact (conj eq_refl eq_refl). Qed.

(* the progress check of Dispatch (before := buf.Len() ... if buf.Len() >= before { return }): drain_g / feed_g are the loop
   with this check.  For the prefix-stable framers above it is the same loop; and for ANY framer - also one that reports
   an error reply without consuming input, as a third-party codec may - the loop ends within its bound as long as the
   codec never returns a FRAME without consuming input *)
Theorem c08_dispatch_progress : forall (F : Type) (parse : bytes -> presult F),
  (stable parse -> forall s c, feed_g parse s c = feed parse s c) /\
  ((forall b f, parse b <> POk f 0) -> forall s c, stuck (feed_g parse s c) = stuck s).
Proof. exact (fun F parse => conj (fun St => feed_g_eq parse St) (feed_g_never_spins parse)). Qed.
Print Assumptions c08_dispatch_progress.

Theorem c08_error_is_local : forall (F : Type) (parse : bytes -> presult F),
  (* whatever connection i reads - malformed or not - no other connection's state changes *)
  (forall ms i c j, j <> i -> mfeed parse ms i c j = ms j) /\
  (* after any interleaved history connection j is in the state it reaches on its own reads alone *)
  (forall hist ms j, mrun parse ms hist j =
     fold_left (feed parse) (map snd (filter (fun ic => Nat.eqb (fst ic) j) hist)) (ms j)) /\
  (* on the connection itself a read ends either alive (no close happened; errors were answered by replies) or closed,
     and then EClose is the last thing that happened and the buffer is dropped *)
  (forall s c, dead s = false -> exists evs,
     out (feed parse s c) = out s ++ evs /\
     (dead (feed parse s c) = false -> ~ In EClose evs) /\
     (dead (feed parse s c) = true -> buf (feed parse s c) = [] /\ exists pre, evs = pre ++ [EClose] /\ ~ In EClose pre)).
Proof. exact (fun F parse => conj (mfeed_local parse) (conj (mrun_projection parse) (feed_outcome parse))). Qed.
Print Assumptions c08_error_is_local.

(* which error class leads to which outcome (bolt; boltv2 alike): Decode error without a frame, a panic, or a frame with a
   header-block error that is not a two-way request -> close; a two-way request with a header-block error -> reply *)
Theorem c08_error_class_outcome_bolt : forall b,
  match res (bolt_decode (view_of b)) with
  | Ok (c, n) => bolt_parse b = if b_herr c then (if b_cmdtype c =? bolt_CmdTypeRequest then PErrReply c (N.to_nat n) else PErr) else POk c (N.to_nat n)
  | NeedMore => bolt_parse b = PNeedMore
  | _ => bolt_parse b = PErr
  end.
Proof. intros b. unfold bolt_parse, to_presult. destruct (res (bolt_decode (view_of b))) as [[c n]| | | |]; reflexivity. Qed.
Print Assumptions c08_error_class_outcome_bolt.

(* non-vacuity: three connections; connection 1 sends garbage and is closed, connection 2 sends a request with a dangling
   header byte and gets a reply, connection 0 (a valid request cut in two reads around them) is served *)
Example c08_error_is_local_example :
  let req := [1;1;0;1;1; 0;0;0;7; 1; 0;0;0;100; 0;2; 0;10; 0;0;0;3; 97;98; 0;0;0;1;107;0;0;0;1;118; 1;2;3] in
  let bad := [1;1;0;1;1; 0;0;0;9; 1; 0;0;0;100; 0;0; 0;1; 0;0;0;0; 5] in
  let ms := mrun bolt_parse (fun _ => init) [(0%nat, firstn 20 req); (1%nat, [1;7;7;7;7;7;7;7;7;7;7;7;7;7;7;7;7;7;7;7;7;7]); (2%nat, bad); (0%nat, skipn 20 req)] in
  dead (ms 1%nat) = true /\ dead (ms 2%nat) = false /\ length (out (ms 2%nat)) = 1%nat /\
  ms 0%nat = feed bolt_parse init req /\ dead (ms 0%nat) = false /\ length (out (ms 0%nat)) = 1%nat.
Proof. vm_compute. repeat split; reflexivity. Qed.

(* width of the "string ends inside the block" test of decodeStr: the code in the tree compares in int (64 bits:
   index + 4 + int(length) cannot wrap for a 32-bit length), read from the source; c08_total_header_block above therefore holds
   for EVERY 32-bit value of every key / value length prefix.  The uint32 form of the test lets 2^32-4-index .. 2^32-2 through
   (the sum wraps) and the slice expression panics: *)
Theorem c08_header_end_test_is_int : MV.Gen.CodecSrc.hdr_end_u32 = false.
Proof. exact eq_refl. Qed.
Theorem c08_header_end_u32_panics : fst (hdr_decode_sw true true [255;255;255;253; 1; 2; 3; 4]) = HPanic.
Proof. exact hdr_decode_u32_panics. Qed.

(* ===== CONTAINED ALSO THROUGH SHARED POOL STATE.  bolt / boltv2 Decode keeps the copy of a frame in an IoBuffer taken from
   the process-wide pool and records it in the stream's buffer context; the context puts it back when the stream ends
   (Model/BufOwn.v: the pool of mosn.io/pkg/buffer with its reference counts; GetIoBuffer may re-issue ANY pooled object:
   the chooser ch is universally quantified).  With the decode paths of the tree (source switch decode_keeps_frame_copy:
   nothing on a decode path gives a buffer back; ctx_reset_puts_once: the context puts each recorded buffer once), for
   EVERY schedule of decodes - with and without error - and stream ends over any number of connections:
   no two live streams ever refer to the same buffer, no buffer a live stream refers to is in the pool where another
   connection could take it, no put is a duplicate; and once all streams have ended every buffer ever made is back in the
   pool exactly once, unreferenced (each take is matched by exactly one put). ===== *)
Theorem c08_frame_buffer_ownership :
  (forall ch evs, Model.BufOwn.exclusive (Model.BufOwn.run (negb decode_keeps_frame_copy) ch evs)) /\
  (forall ch evs, let s := Model.BufOwn.run (negb decode_keeps_frame_copy) ch evs in
     Model.BufOwn.held s = [] ->
     NoDup (Model.BufOwn.free (Model.BufOwn.pl s)) /\ Model.BufOwn.dup (Model.BufOwn.pl s) = 0%nat /\
     forall x, (x < Model.BufOwn.fresh (Model.BufOwn.pl s))%nat ->
       In x (Model.BufOwn.free (Model.BufOwn.pl s)) /\ Model.BufOwn.cnt (Model.BufOwn.pl s) x = Z0).
Proof. exact (conj Proofs.BufOwn.own_exclusive Proofs.BufOwn.own_balanced). Qed.
Print Assumptions c08_frame_buffer_ownership.

(* the excluded shape: the error path of Decode releases the frame copy itself while the context keeps referring to it.
   Schedule: A decodes a frame with a broken header block, B decodes a valid frame (the pool re-issues the object put
   last), A's stream ends, C decodes: B and C refer to the SAME buffer - B is forwarded with C's bytes - and the pool's
   duplicate check never fires; it fires only when nobody took the buffer in between *)
Theorem c08_early_release_refuted :
  (let s := Model.BufOwn.run true Proofs.BufOwn.lifo
              [Model.BufOwn.Dec 0 true; Model.BufOwn.Dec 1 false; Model.BufOwn.End 0; Model.BufOwn.Dec 2 false] in
   Model.BufOwn.held s = [(2, 0); (1, 0)]%nat /\ ~ Model.BufOwn.exclusive s /\ Model.BufOwn.dup (Model.BufOwn.pl s) = 0%nat) /\
  Model.BufOwn.dup (Model.BufOwn.pl (Model.BufOwn.run true Proofs.BufOwn.lifo [Model.BufOwn.Dec 0 true; Model.BufOwn.End 0])) = 1%nat.
Proof. exact (conj Proofs.BufOwn.own_early_release_refuted Proofs.BufOwn.own_early_release_immediate). Qed.


(* ===== LIVENESS THROUGH PROCESS-WIDE STATE: the dubbo service metadata registries (one sync.RWMutex each; Find / Contains on
   the decode path of every connection of an ingress_dubbo / egress_dubbo listener with the peer's path and version, Register
   / Clear on pub/sub events; unlocked by hand).  Model/MetaLock.v: the reader-writer lock with a leaked read lock never
   released.  With every exit releasing what it acquired (source switch dubbo_meta_unlock_every_exit, read over all return
   statements of Find, Contains, Register, Clear), EVERY sequence of calls - whatever exits the peers' inputs select - and
   registry writes completes.  With one exit that does not unlock: one request that takes it is decoded normally, the next
   registry write waits for ever, and after that every call of every connection waits for ever. ===== *)
Theorem c08_metadata_lock_live :
  forall ops, Forall (eq Model.MetaLock.Done) (Model.MetaLock.runl (negb dubbo_meta_unlock_every_exit) Model.MetaLock.lk0 ops).
Proof. exact Proofs.MetaLock.meta_lock_live. Qed.
Print Assumptions c08_metadata_lock_live.
Theorem c08_metadata_lock_leak_wedges : forall ops,
  exists rest, Model.MetaLock.runl true Model.MetaLock.lk0 (Model.MetaLock.Find true :: Model.MetaLock.Write :: ops)
               = Model.MetaLock.Done :: Model.MetaLock.Blocked :: rest /\ Forall (eq Model.MetaLock.Blocked) rest.
Proof. exact Proofs.MetaLock.meta_lock_leak_wedges. Qed.
