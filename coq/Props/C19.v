(* C19 - Configuration survives dump and reload.  Only statements here; proofs by `exact`.

   Objects (Lib/GoJson.v, Model/ConfigRT.v over the GENERATED type graph Gen/CfgTypes.v):
     encode T fuel t v   type-directed model of encoding/json Marshal (tags, omitempty, json:"-", pointers, slices,
                         string-keyed maps, RawMessage / interface{} carried as JSON, opaque leaf coders, and the custom
                         MarshalJSON hooks whose shadow-field assignments the translator extracts with go/ast)
     decode T fuel t j   the corresponding model of Unmarshal (case-insensitive member match, last member wins, null
                         leaves non-nilable targets at zero, unknown members ignored, derivations of the unmarshal hooks)
     wf T t v            v is a well-formed value of the hook-free ("plain") fragment at type t
     table_ok T          in every plain struct the JSON names are pairwise different ignoring case, and no pointer
                         points at something that itself prints as null
     hook_law sd         classification of a struct's (MarshalJSON, UnmarshalJSON) pair *)
From Coq Require Import List String Bool ZArith NArith Ascii Permutation.
From MV Require Import Lib.GoJson Lib.GoJsonFacts Gen.CfgTypes Model.ConfigRT Model.EffConfig Proofs.ConfigRT Proofs.ConfigRTFull Proofs.EffConfig Proofs.DurationCoder Proofs.JsonText.
Import ListNotations.
Open Scope string_scope.

Theorem c19_translator_ok : CfgTypes_translator_ok = true.
Proof. exact (eq_refl true). Qed.

(* HOOK LAWS.  Finite check over every struct of the generated graph (all types of config/v2 with a custom
   (un)marshaler are in it - the translator fails otherwise): a struct has no hook; or its pair has the shadow shape
   "marshal: copy each JSON-hidden derived field into the embedded config, marshal the embedded config / unmarshal:
   parse the embedded config, derive each hidden field from it" with the SAME embedded target on both sides, every
   marshal assignment `cfg.x := f(hidden)` answered by a derivation `hidden := g(cfg.x)` for a known inverse pair
   (f, g), every derivation answered by a marshal assignment, and EVERY exported json:"-" field of the struct written
   by the unmarshal side; or it is one of the five named pairs whose unmarshal side does more than derive (Listener,
   FilterChain, RouterConfiguration, ClusterManagerConfig, SecretConfigWrapper).  A new or changed hook that fits
   none of these makes the check fail. *)
Theorem c19_hook_laws : hook_laws_ok cfg_structs = true.
Proof. exact hook_laws_ok_true. Qed.
Print Assumptions c19_hook_laws.

(* the coder used by six of the pairs (Host, Router, RouteAction, ClusterWeight ...): metadata map <-> filter_metadata.
   Printing, reloading and printing again gives the same, for every string-valued metadata map (and for nil). *)
Theorem c19_metadata_coder : forall r es, all_strings es ->
  call_marshal_fn "metadataToConfig" (call_unmarshal_fn "configToMetadata" (call_marshal_fn "metadataToConfig" (VRef r es)))
  = call_marshal_fn "metadataToConfig" (VRef r es).
Proof. exact metadata_coder_law. Qed.
Print Assumptions c19_metadata_coder.

(* ... and, stronger, the coder is the IDENTITY on string maps - the loaded value, not only its print: for EVERY map from
   strings to strings (any keys and values, byte for byte: "1.10", "007", "true", "", blanks, quotes ...) converting to the
   config form and back gives the map; and through the text: dumping the config form, loading the text and converting
   back gives the map.  (No value is re-typed or re-spelled: the model's metadataToConfig writes every value as a JSON
   string, as the source does - src_metadata_strings_only is read by go/ast: metadataToConfig stores every value unchanged,
   configToMetadata takes string members only - and the correspondence compares the real strings on every run, with
   values from a hostile pool.) *)
Theorem c19_metadata_identity : forall r es, all_strings es ->
  call_unmarshal_fn "configToMetadata" (call_marshal_fn "metadataToConfig" (VRef r es)) = VRef 0 es.
Proof. exact metadata_coder_identity. Qed.
Theorem c19_metadata_text_identity : forall t, is_meta_slot t = true -> forall r e es, all_strings (e :: es) ->
  forall fuel fuel' x,
    fuel_free (encode cfg_structs fuel t (call_marshal_fn "metadataToConfig" (VRef r (e :: es)))) = true ->
    decode cfg_structs fuel' t (encode cfg_structs fuel t (call_marshal_fn "metadataToConfig" (VRef r (e :: es)))) = Some x ->
    call_unmarshal_fn "configToMetadata" x = VRef 0 (e :: es).
Proof. exact metadata_text_identity. Qed.
Print Assumptions c19_metadata_text_identity.
Theorem c19_source_metadata_strings : src_metadata_strings_only = true.
Proof. exact (eq_refl true). Qed.
(* non-vacuity; members of the input that are not strings (numbers, booleans, null) are not metadata *)
Example c19_metadata_examples :
  call_unmarshal_fn "configToMetadata" (call_marshal_fn "metadataToConfig" (VRef 7 [("version", VStr "1.10"); ("zeros", VStr "007"); ("t", VStr "true"); ("e", VStr "")]))
    = VRef 0 [("version", VStr "1.10"); ("zeros", VStr "007"); ("t", VStr "true"); ("e", VStr "")] /\
  encode cfg_structs 8 (TPtr (TNamed "v2.MetadataConfig")) (call_marshal_fn "metadataToConfig" (VRef 7 [("version", VStr "1.10"); ("t", VStr "true")]))
    = JObj [("filter_metadata", JObj [("mosn.lb", JObj [("version", JStr "1.10"); ("t", JStr "true")])])] /\
  option_map (call_unmarshal_fn "configToMetadata")
    (decode cfg_structs 8 (TPtr (TNamed "v2.MetadataConfig"))
       (JObj [("filter_metadata", JObj [("mosn.lb", JObj [("version", JStr "1.10"); ("n", JNum "2"); ("b", JBool true); ("z", JNull)])])]))
    = Some (VRef 0 [("version", VStr "1.10")]).
Proof. exact metadata_examples. Qed.

(* the type table of THIS tree meets the conditions of the generic theorem *)
Theorem c19_table_ok : table_ok cfg_structs = true.
Proof. exact table_ok_true. Qed.

(* ROUND TRIP (generic, by induction on the encoder's recursion over the type description; no bound on sizes or
   nesting).  For every type table meeting table_ok, every type, every well-formed value v of the plain fragment
   whose dump is complete (no fuel marker), and every result v' of loading that dump (with any fuel):
     dump v' = dump v          - the second dump equals the first: nothing is dropped, defaulted differently or
                                 re-typed by load-after-dump, and
     v' is non-empty wherever v was (so that omitempty decisions are the same).
   v' itself may differ from v only where Go differs too (an empty list reloads as nil). *)
Theorem c19_roundtrip : forall T, table_ok T = true -> forall fuel t v,
  wf T t v = true -> ty_ptr_ok t = true -> fuel_free (encode T fuel t v) = true ->
  forall fuel' v', decode T fuel' t (encode T fuel t v) = Some v' ->
    encode T fuel t v' = encode T fuel t v /\ (is_empty v = false -> is_empty v' = false).
Proof. exact stable. Qed.
Print Assumptions c19_roundtrip.

(* instance for the generated graph *)
Theorem c19_roundtrip_cfg : forall fuel t v,
  wf cfg_structs t v = true -> ty_ptr_ok t = true -> fuel_free (encode cfg_structs fuel t v) = true ->
  forall fuel' v', decode cfg_structs fuel' t (encode cfg_structs fuel t v) = Some v' ->
    encode cfg_structs fuel t v' = encode cfg_structs fuel t v.
Proof. exact (fun fuel t v Hw Hp Hf fuel' v' Hd => proj1 (stable cfg_structs table_ok_true fuel t v Hw Hp Hf fuel' v' Hd)). Qed.
Print Assumptions c19_roundtrip_cfg.

(* non-vacuity: a DNS resolver config with a non-empty and an EMPTY list; the reload differs from the value (the empty
   list became nil) and the second dump is nevertheless the first *)
Example c19_example :
  wf cfg_structs (TNamed "v2.DnsResolverConfig") w_dns = true /\
  ty_ptr_ok (TNamed "v2.DnsResolverConfig") = true /\
  fuel_free (encode cfg_structs 8 (TNamed "v2.DnsResolverConfig") w_dns) = true /\
  exists v', decode cfg_structs 8 (TNamed "v2.DnsResolverConfig") (encode cfg_structs 8 (TNamed "v2.DnsResolverConfig") w_dns) = Some v' /\
             val_eqb v' w_dns = false /\
             encode cfg_structs 8 (TNamed "v2.DnsResolverConfig") v' = encode cfg_structs 8 (TNamed "v2.DnsResolverConfig") w_dns.
Proof. exact witness_roundtrip. Qed.

(* PATH (DIRECTORY) MODE FILE NAMING.  The order of the three operations on the item name - truncate to MaxFilePath
   bytes, replace path separators, append ".json" - is read from ClusterManagerConfig.MarshalJSON and
   RouterConfiguration.MarshalJSON (through helper functions) on every run: *)
Theorem c19_file_name_shape :
  src_fname_ops_cluster = canon_ops /\ src_fname_ops_router = canon_ops /\ src_max_file_path = 128%nat.
Proof. exact src_file_name_shape. Qed.

(* with that order, for EVERY name and limit the file name ends in ".json" (so the loader reads the file back) and
   has at most max + 5 bytes *)
Theorem c19_file_name_json : forall max n, exists p, file_name max canon_ops n = (p ++ ".json")%string.
Proof. exact file_name_canon_json. Qed.
Theorem c19_file_name_length : forall max n, (String.length (file_name max canon_ops n) <= max + 5)%nat.
Proof. exact file_name_canon_length. Qed.
Print Assumptions c19_file_name_json.

(* two items of a container are kept in the same file (the second overwrites the first, which is then missing after a
   reload) EXACTLY when their names agree on the first max bytes up to '/' against '_' ... *)
Theorem c19_file_name_collide_iff : forall max a b,
  file_name max canon_ops a = file_name max canon_ops b <-> replace_sep (firstn_str max a) = replace_sep (firstn_str max b).
Proof. exact file_name_collide_iff. Qed.
(* ... so the naming is injective on names of at most max bytes without a separator, *)
Theorem c19_file_name_injective_short : forall max a b,
  (String.length a <= max)%nat -> (String.length b <= max)%nat -> has_sep a = false -> has_sep b = false ->
  file_name max canon_ops a = file_name max canon_ops b -> a = b.
Proof. exact file_name_injective_short. Qed.
Print Assumptions c19_file_name_injective_short.
(* ... and NOT injective in general (listed finding reload-lost-item:*:file-name-collision, reproduced on the real code) *)
Theorem c19_file_name_not_injective :
  (exists a b, a <> b /\ file_name 128 canon_ops a = file_name 128 canon_ops b /\ String.length a = 130%nat) /\
  (exists a b, a <> b /\ file_name 128 canon_ops a = file_name 128 canon_ops b /\ String.length a = 3%nat).
Proof. exact file_name_not_injective. Qed.

(* the other order (extension before truncation) drops the extension from 124 bytes on: 123 survives, 124 is skipped
   by the loader *)
Theorem c19_file_name_append_first_refuted :
  loader_accepts (file_name 128 [FReplaceSep; FAppendJson; FTrunc] (repeat_char "a"%char 123)) = true /\
  loader_accepts (file_name 128 [FReplaceSep; FAppendJson; FTrunc] (repeat_char "a"%char 124)) = false /\
  loader_accepts (file_name 128 canon_ops (repeat_char "a"%char 124)) = true /\
  loader_accepts (file_name 128 canon_ops (repeat_char "a"%char 200)) = true.
Proof. exact file_name_append_first_refuted. Qed.

(* ============================================================================================================== *)
(* THE FULL GRAPH: the round trip THROUGH the hooked structs.                                                      *)
(* The (Un)MarshalJSON pairs get their meaning from a form compiled to field indices (Lib/GoJson.v hook_compiled):   *)
(*   CShadow  the 12 shadow-field pairs: marshal copies out_c(hidden) into slot i of the embedded target for each   *)
(*            extracted assignment, unmarshal parses the target and sets hidden := in_c(slot)                       *)
(*   CChain   FilterChain (single tls_context <-> tls_context_set)     CInline  RouterConfiguration /               *)
(*   CListener Listener (address, network default)                              ClusterManagerConfig, inline mode   *)
(*   CJson    SecretConfigWrapper: carried as the JSON it prints                                                    *)
(* WF T t v (Model/ConfigRT.v) is the explicit well-formedness: plain parts as before; a hooked struct value is      *)
(* well-formed when what it hands to the encoder is, plus: hidden metadata are string maps (shadow pairs), the        *)
(* parsed context list of a FilterChain is not empty, the path field of RouterConfiguration / ClusterManagerConfig   *)
(* is "" (inline mode), a Listener has a resolved non-empty address and a normalised network.  table_ok2 adds to     *)
(* table_ok the conditions on every hooked struct (indices in range and distinct, targets plain, slot types, no        *)
(* pointer to a hook whose target prints as null).  meta_rt is the one fact about the metadata slot type.            *)
(* ============================================================================================================== *)
Theorem c19_table_ok2 : table_ok2 cfg_structs = true.
Proof. exact table_ok2_true. Qed.
Theorem c19_meta_slot : meta_rt cfg_structs.
Proof. exact meta_rt_cfg. Qed.
Print Assumptions c19_meta_slot.

(* generic: every table meeting the conditions (the hook laws are part of table_ok2: a vm_compute check on the compiled
   hooks, lifted to "copy-out after copy-in gives back the reloaded target" by the lemmas shadow_roundtrip,
   chain_roundtrip, inline_roundtrip, listener_roundtrip of Proofs/ConfigRTFull.v) *)
Theorem c19_roundtrip_full_generic : forall T, table_ok2 T = true -> meta_rt T -> forall fuel t v,
  WF T t v -> ty_ok T t = true -> fuel_free (encode T fuel t v) = true ->
  forall fuel' v', decode T fuel' t (encode T fuel t v) = Some v' ->
    encode T fuel t v' = encode T fuel t v /\ (is_empty v = false -> is_empty v' = false).
Proof. exact stable_full. Qed.
Print Assumptions c19_roundtrip_full_generic.

(* for the generated graph: every well-formed value of every type of the MOSNConfig graph - listeners with filter
   chains and TLS contexts, routers with virtual hosts, routes, actions, clusters with hosts, health checks ... any
   sizes and nesting - satisfies  dump (load (dump v)) = dump v.  (At this level nothing is reordered: the order of the
   name-keyed lists changes only in the effective config, see c19_eff_*.) *)
Theorem c19_roundtrip_full : forall fuel t v, WF cfg_structs t v -> ty_ok cfg_structs t = true ->
  fuel_free (encode cfg_structs fuel t v) = true ->
  forall fuel' v', decode cfg_structs fuel' t (encode cfg_structs fuel t v) = Some v' ->
    encode cfg_structs fuel t v' = encode cfg_structs fuel t v /\ (is_empty v = false -> is_empty v' = false).
Proof. exact roundtrip_full_cfg. Qed.
Print Assumptions c19_roundtrip_full.

(* WF is decidable by the executable check used in the correspondence *)
Theorem c19_wfb_sound : forall T fuel t v, wfb T fuel t v = true -> WF T t v.
Proof. exact wfb_sound. Qed.

(* non-vacuity: a configuration with a listener (Listener + FilterChain hooks, single tls_context), a router with a
   route (RouterConfiguration, Router, RouteAction: metadata and a duration), a cluster (ClusterManagerConfig,
   HealthCheck durations, CircuitBreakers, Host metadata): well-formed, loads back, and its dump is NOT the input
   document (tls_context became tls_context_set, network and zero durations appeared) *)
Example c19_example_full :
  wfb cfg_structs 64 (TNamed "v2.MOSNConfig") w_cfg = true /\
  ty_ok cfg_structs (TNamed "v2.MOSNConfig") = true /\
  fuel_free (encode cfg_structs 64 (TNamed "v2.MOSNConfig") w_cfg) = true /\
  (exists v', decode cfg_structs 64 (TNamed "v2.MOSNConfig") (encode cfg_structs 64 (TNamed "v2.MOSNConfig") w_cfg) = Some v') /\
  json_eqb (encode cfg_structs 64 (TNamed "v2.MOSNConfig") w_cfg) w_doc = false.
Proof. exact example_full. Qed.

(* THE TEXT OF A STRING.  The dump is the standard JSON encoding of the configuration value, with NO post-processing of the
   text (src_transfer_returns_marshal: transferConfig returns the output of json.MarshalIndent as it is, read by go/ast).
   escape models the literal body encoding/json writes for a string (quote, backslash, control characters, the HTML
   characters < > & as \u00XX, U+2028/9), unescape the string a decoder reads from a literal body; both are compared with
   encoding/json on every run (EscCase / UnescCase, strings from the hostile pool).  For EVERY string - backslashes,
   backslash followed by what looks like an escape, already-escaped JSON documents, quotes, control characters - the
   text written for it is read back as the same string ... *)
Theorem c19_string_text_roundtrip : forall s, unescape (escape s) = Some s.
Proof. exact unescape_escape. Qed.
Print Assumptions c19_string_text_roundtrip.
Theorem c19_source_transfer_returns_marshal : src_transfer_returns_marshal = true.
Proof. exact (eq_refl true). Qed.
(* ... and a textual replacement on the encoded text breaks that: for the value a-backslash-u003cb the replacement of
   backslash-u003c by < leaves backslash-<, which no decoder accepts (for a plain < it is harmless) *)
Theorem c19_text_postprocess_refuted :
  unescape (escape w_pre_escaped) = Some w_pre_escaped /\
  readable_json (escape w_pre_escaped) = String "a" (String bs "<b") /\
  unescape (readable_json (escape w_pre_escaped)) = None /\
  unescape (readable_json (escape "a<b>&c")) = Some "a<b>&c".
Proof. exact post_replace_refuted. Qed.

(* THE DURATION CODER.  api.DurationConfig and the duration-valued shadow fields are dumped with time.Duration.String and
   loaded with time.ParseDuration.  fmt_duration / parse_duration (Lib/GoJson.v) model the two functions (Go 1.18):
   String with its unit selection (ns / micro sign s / ms below a second, then [h][m]s), the fraction with trailing zeros
   removed, the sign; ParseDuration as the general scanner (optional sign, then one or more of: digits, optional dot and digits, unit name;
   or "0"; the eight unit names) over
   unbounded numbers.  For EVERY integer d - in particular every int64 nanosecond count, sub-millisecond values, the
   minimum and the maximum included -  ParseDuration (String d) = d: no duration is changed by a dump and reload.
   Modelling assumptions (stated, and checked on the real functions on every run, DurFmt / DurCase): the overflow exits
   of ParseDuration are not taken on these inputs, and its float computation of the fraction is exact when the scale
   divides the unit (String prints at most 9 / 6 / 3 fraction digits for s / ms / us). *)
Theorem c19_duration_coder : forall d : Z, parse_duration (fmt_duration d) = Some d.
Proof. exact parse_fmt_duration. Qed.
Print Assumptions c19_duration_coder.
Example c19_duration_examples :
  fmt_duration 0 = "0s" /\ fmt_duration 1 = "1ns" /\ fmt_duration 200000 = ("200" ++ micro_s)%string /\
  fmt_duration 1500000 = "1.5ms" /\ fmt_duration 5400000000000 = "1h30m0s" /\
  fmt_duration 9223372036854775807 = "2562047h47m16.854775807s" /\
  fmt_duration (-9223372036854775808) = "-2562047h47m16.854775808s" /\
  parse_duration "0.5ms" = Some 500000%Z /\ parse_duration "1h0m0.000001s" = Some 3600000001000%Z /\
  parse_duration "1.5h" = Some 5400000000000%Z /\ parse_duration "" = None /\ parse_duration "5" = None /\
  parse_duration "0" = Some 0%Z.
Proof. exact fmt_duration_examples. Qed.

(* PATH (DIRECTORY) MODE of RouterConfiguration / ClusterManagerConfig.  The directory is a finite map file name ->
   document (Model/ConfigRT.v: dir, path_write = what MarshalJSON does to it - write one file per item, a later item with
   the same file name replacing the earlier file, then remove every other file; path_read = what UnmarshalJSON does - list
   sorted by name, skip what the loader does not accept, decode the rest).  Under the EXPLICIT no-collision premise (no
   two items share a file name; c19_file_name_collide_iff says exactly when they do), for any directory to start from
   (stale files), any number of items of a type t of the generated graph, each well-formed, whose document decodes to an
   item of the same name (premises checked on the real code on every run): the directory reads back to as many items as
   were written, and dumping those - into any directory - gives the directory of the first dump, file by file.  The file
   names are the canonical ones (c19_file_name_ops: the order read from the source is canon_ops). *)
Theorem c19_path_mode_dir_roundtrip : forall fuel t (name_of : val -> string) (d : dir) (items : list val),
  NoDup (map fst d) ->
  NoDup (map (fun it => file_name src_max_file_path canon_ops (name_of it)) items) ->
  ty_ok cfg_structs t = true ->
  (forall it, In it items ->
     WF cfg_structs t it /\ fuel_free (encode cfg_structs fuel t it) = true /\
     exists v', decode cfg_structs fuel t (encode cfg_structs fuel t it) = Some v' /\ name_of v' = name_of it) ->
  exists l,
    path_read loader_accepts (decode cfg_structs fuel t)
      (path_write (fun it => file_name src_max_file_path canon_ops (name_of it)) (encode cfg_structs fuel t) d items) = Some l /\
    List.length l = List.length items /\
    forall d', NoDup (map fst d') ->
      Permutation (path_write (fun it => file_name src_max_file_path canon_ops (name_of it)) (encode cfg_structs fuel t) d' l)
                  (path_write (fun it => file_name src_max_file_path canon_ops (name_of it)) (encode cfg_structs fuel t) d items).
Proof. exact path_mode_dir_roundtrip_cfg. Qed.
Print Assumptions c19_path_mode_dir_roundtrip.

(* generic form, for any item type, naming and coder: after the write the directory holds exactly one file per item and
   nothing else; items that are their own reload come back as they are, up to the order of the listing *)
Theorem c19_path_mode_dir_content : forall (A : Type) (fn : A -> string) (enc : A -> json) (d : dir) (items : list A),
  NoDup (map fst d) -> NoDup (map fn items) ->
  forall k x, In (k, x) (path_write fn enc d items) <-> exists it, In it items /\ k = fn it /\ x = enc it.
Proof. exact (fun A fn enc d items => path_write_in fn enc d items). Qed.
Theorem c19_path_mode_dir_identity : forall (A : Type) (fn : A -> string) (enc : A -> json)
    (accepts : string -> bool) (dec : json -> option A) (d : dir) (items : list A),
  NoDup (map fst d) -> NoDup (map fn items) ->
  (forall it, In it items -> accepts (fn it) = true) ->
  (forall it, In it items -> dec (enc it) = Some it) ->
  exists l, path_read accepts dec (path_write fn enc d items) = Some l /\ Permutation l items.
Proof. exact (fun A fn enc => path_roundtrip fn enc). Qed.
(* WITHOUT the premise the property is false (the listed finding): of two items with one file name only the second is
   in the directory *)
Theorem c19_path_mode_collision_loses : forall a b : string,
  a <> b -> file_name 128 canon_ops a = file_name 128 canon_ops b ->
  map fst (path_write (file_name 128 canon_ops) (fun n => JStr n) [] [a; b]) = [file_name 128 canon_ops b] /\
  map snd (path_write (file_name 128 canon_ops) (fun n => JStr n) [] [a; b]) = [JStr b].
Proof. exact path_collision_loses. Qed.

(* STILL OPEN (kept under _partial): the directory is not threaded through `encode` / `decode` of the enclosing document -
   the container-level theorem above is about the directory of ONE container; in the whole-document theorem
   c19_roundtrip_full, WF demands inline mode (inline_side) and the model's decode gives no result for a non-empty path.
   Items with an empty name get a file named after the clock (not modelled; the harness never generates them in path
   mode). *)
Theorem c19_path_mode_partial : forall tgt hidden pathf inlf z sub p,
  iget [pathf] sub = Some (VStr p) -> p <> "" -> inline_in tgt hidden pathf inlf z sub = None.
Proof.
  intros tgt hidden pathf inlf z sub p H Hp. unfold inline_in. rewrite H.
  destruct p; [contradiction|reflexivity].
Qed.

(* ============================================================================================================== *)
(* THE EFFECTIVE CONFIGURATION (Model/EffConfig.v): the setters of effectiveconfig.go as a state machine eff_step     *)
(* over configuration values (maps as name-sorted association lists) and transferConfig as `transfer`; tied to the    *)
(* real code on every run by generated histories of the real setters (state and persisted form must agree).          *)
(* ============================================================================================================== *)
(* for EVERY history of setter calls whose arguments are well-formed (routers in inline mode), every listener, cluster
   and router the state holds is well-formed, the routers are held with the empty path and the remembered paths are
   empty: *)
Theorem c19_eff_invariant : forall ops st, inv_lists st -> Forall op_ok ops -> inv_lists (eff_run ops st).
Proof. exact eff_run_inv. Qed.
Print Assumptions c19_eff_invariant.
(* hence the name-keyed lists transferConfig assembles are well-formed lists of listeners / clusters *)
Theorem c19_eff_transfer_lists : forall ops, Forall op_ok ops ->
  let st := eff_run ops eff_init in
  WF cfg_structs (TSlice (TNamed "v2.Listener")) (VRef 0 (map (fun kv => ("", snd kv)) (e_listeners st))) /\
  WF cfg_structs (TSlice (TNamed "v2.Cluster")) (VRef 0 (map (fun kv => ("", snd kv)) (e_clusters st))) /\
  Forall (fun kv => snd kv = VStr "") (e_rpaths st).
Proof. exact transfer_lists_wf. Qed.
(* SetHosts stores its argument.  For EVERY history of setter calls with well-formed arguments, every cluster name and
   EVERY host list (no premise on it): if the cluster is known, afterwards the effective config holds it with exactly
   that host list - every host, every field (address, hostname, weight, tls_disable, the labels in MetaData), in that
   order - while every other field of the cluster, every other cluster and every other part of the state are as
   before; if the cluster is not known nothing changes.  In particular an update that changes only the labels is not
   dropped.  The model step is the one the source has: src_sethosts_stores_argument is read from SetHosts by go/ast
   (known cluster: assign, store, trigger the dump - no other branch, no early return) and the model is run against the
   real cluster manager's host updates on every run (eff-hosts-variation histories). *)
Theorem c19_eff_sethosts_exact : forall ops n hosts, Forall op_ok ops ->
  let st := eff_run ops eff_init in
  let st' := eff_step st (OSetHosts n hosts) in
  match aget n (e_clusters st) with
  | Some c => exists c', aget n (e_clusters st') = Some c' /\ iget [i_c_hosts] c' = Some hosts /\
                         (forall j, j <> i_c_hosts -> iget [j] c' = iget [j] c)
  | None => st' = st
  end /\
  (forall m, m <> n -> aget m (e_clusters st') = aget m (e_clusters st)) /\
  e_mosn st' = e_mosn st /\ e_listeners st' = e_listeners st /\ e_routers st' = e_routers st /\
  e_extends st' = e_extends st /\ e_cpath st' = e_cpath st /\ e_rpaths st' = e_rpaths st.
Proof. exact eff_sethosts_exact. Qed.
Print Assumptions c19_eff_sethosts_exact.
Theorem c19_source_sethosts : src_sethosts_stores_argument = true.
Proof. exact (eq_refl true). Qed.

(* dump / load of the persisted form round-trips whenever the reassembled v2.MOSNConfig is well-formed (instance of
   c19_roundtrip_full; the name-keyed lists come out sorted by name in the model - in Go in map order, which is what
   "up to the order of the name-keyed lists" refers to) *)
Theorem c19_eff_roundtrip : forall ops fuel, WF cfg_structs t_mosn (transfer (eff_run ops eff_init)) ->
  fuel_free (encode cfg_structs fuel t_mosn (transfer (eff_run ops eff_init))) = true ->
  forall fuel' v', decode cfg_structs fuel' t_mosn (encode cfg_structs fuel t_mosn (transfer (eff_run ops eff_init))) = Some v' ->
    encode cfg_structs fuel t_mosn v' = encode cfg_structs fuel t_mosn (transfer (eff_run ops eff_init)).
Proof. exact eff_roundtrip. Qed.
Print Assumptions c19_eff_roundtrip.
(* STILL OPEN (c19_eff_wf_partial): that `transfer (eff_run ops eff_init)` as a WHOLE is well-formed for every history of
   well-formed arguments is not proved (the lists are, above; the reassembly of the server / cluster-manager structs
   around them is not); it is CHECKED (wfb, sound by c19_wfb_sound) together with the model's dump/load/dump on the
   initialisation histories of generated loaded configurations on every run. *)
Definition c19_eff_wf_partial_statement : Prop :=
  forall ops, Forall op_ok ops -> WF cfg_structs t_mosn (transfer (eff_run ops eff_init)).
