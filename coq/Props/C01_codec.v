(* C01 (codec part: the xprotocol codecs) - forwarding fidelity.  Only statements; proofs by `exact`.
   bolt_decode / boltv2_decode / bolt_encode are the models of Decode / Encode of the code in the tree
   (bolt_enc_checked, xp_hdr_checked, dubbo_setdata_resets_raw read from the source on every run). *)
From Coq Require Import List NArith Bool.
From MV Require Import Lib.Bytes Lib.Dec Lib.Seg Model.CodecParams Model.HeaderKV Model.Bolt Model.Xcodecs
  Proofs.HeaderKV Proofs.Bolt Proofs.BoltEnc Proofs.Xcodecs Proofs.XcodecsEnc Proofs.EncLen.
(* the generated files are only Required (never imported): every name below is the committed expected value of
   Model/CodecParams.v unless it is qualified with MV.Gen. *)
From MV Require Gen.ProtoConsts Gen.CodecSrc.
(* the comparison functions used by the correspondence shards: imported so that they are rebuilt with this file *)
From MV Require Model.BoltCheck Model.XCheck.
Import ListNotations.
Open Scope N_scope.

Theorem c01_codec_translators_ok : MV.Gen.ProtoConsts.ProtoConsts_translator_ok = true /\ MV.Gen.CodecSrc.CodecSrc_translator_ok = true.
Proof. exact (conj eq_refl eq_refl). Qed.

(* THE TIE of the constants and source shapes: what the translators read from /repo on this run equals, by conversion, the
   values the models are written with and the theorems below are proved about (Model/CodecParams.v): field offsets, header
   lengths, magic numbers, HTTP method set, HTTP/2 preface; and every repaired spot still has its repaired shape *)
Theorem c01_codec_gen_matches_expected :
  MV.Gen.ProtoConsts.ProtoConsts_all = ProtoConsts_all /\ MV.Gen.CodecSrc.CodecSrc_all = CodecSrc_all.
Proof. exact (conj eq_refl eq_refl). Qed.
Theorem c01_codec_src_repaired : MV.Gen.CodecSrc.bolt_enc_checked = true /\ MV.Gen.CodecSrc.xp_hdr_checked = true /\ MV.Gen.CodecSrc.dubbo_setdata_resets_raw = true /\ MV.Gen.CodecSrc.thrift_copies_frame = true /\
  MV.Gen.CodecSrc.setdata_sees_inplace_rewrite = true /\ MV.Gen.CodecSrc.thrift_enc_fields_after_body = true.
Proof. exact (conj eq_refl (conj eq_refl (conj eq_refl (conj eq_refl (conj eq_refl eq_refl))))). Qed.

(* FAST PATH.  For every content of the read buffer from which Decode extracts a frame (any field values, any
   class/header/content lengths, any header pairs, any body) and every id: Decode, SetRequestId(id), Encode returns the
   n received frame bytes with exactly the 4 bytes of the request-id field replaced (patch b i p = takeN i b ++ p ++
   dropN (i + |p|) b), whatever `mem` the connection's read buffer holds by then. *)
Theorem c01_fast_path_identity :
  (* c01_fast_path_identity_bolt *)
  (forall v c n id mem, res (bolt_decode v) = Ok (c, n) ->
  exists c', bolt_encode mem (set_request_id id c) =
             EncOk (patch (takeN n (vb v)) (reqid_off c) (be_enc 4 (id mod 4294967296))) c') /\
  (* c01_fast_path_identity_boltv2 *)
  (forall v c n id mem, res (boltv2_decode v) = Ok (c, n) ->
  exists c', bolt_encode mem (set_request_id id c) =
             EncOk (patch (takeN n (vb v)) (reqid_off c) (be_enc 4 (id mod 4294967296))) c') /\
  (* c01_fast_path_identity_dubbo *)
  (forall hess v f n id mem, res (dubbo_decode hess v) = Ok (f, n) ->
  dubbo_encode mem (dubbo_set_id id f) = patch (takeN n (vb v)) dubbo_IdIdx (be_enc 8 (id mod U64))) /\
  (* c01_fast_path_identity_thrift *)
  (forall tp v f n id mem, res (thrift_decode tp v) = Ok (f, n) ->
  let idx := (thrift_MessageLenSize + nth_num f 2 + U16 - thrift_IdLen) mod U16 in
  idx + 8 <= n ->
  thrift_encode mem (thrift_set_id id f) = Some (patch (takeN n (vb v)) idx (be_enc 8 (id mod U64)))).
Proof. exact (conj bolt_fast_path_identity (conj boltv2_fast_path_identity (conj dubbo_fast_path_identity thrift_fast_path_identity))). Qed.
Print Assumptions c01_fast_path_identity.
(* dubbo-thrift patches the id at MessageLenSize + HeaderLength - IdLen (uint16 arithmetic), i.e. where the header
   length field of the frame says the id is; idx + 8 <= n excludes frames whose header length field points outside *)

(* READ BUFFER REUSE.  After any sequence of setters the encoder's output does not depend on the current content of
   the connection's read buffer (mem, mem' arbitrary): the decoded command owns a private copy. *)
Theorem c01_buffer_independence :
  (* c01_buffer_independence_bolt *)
  (forall v c n ops mem mem', res (bolt_decode v) = Ok (c, n) ->
  bolt_encode mem (fold_left apply_op ops c) = bolt_encode mem' (fold_left apply_op ops c)) /\
  (* c01_buffer_independence_boltv2 *)
  (forall v c n ops mem mem', res (boltv2_decode v) = Ok (c, n) ->
  bolt_encode mem (fold_left apply_op ops c) = bolt_encode mem' (fold_left apply_op ops c)) /\
  (* c01_buffer_independence_dubbo *)
  (forall hess v f n id mem mem', res (dubbo_decode hess v) = Ok (f, n) ->
  dubbo_encode mem (dubbo_set_id id f) = dubbo_encode mem' (dubbo_set_id id f)).
Proof. exact (conj bolt_buffer_independence (conj boltv2_buffer_independence dubbo_buffer_independence)). Qed.
Print Assumptions c01_buffer_independence.

(* MODIFIED FRAMES.  For every decoded frame and EVERY sequence of SetRequestId / header Set / header Del / SetData
   that marks the frame changed: Encode either refuses (exactly when the class or the header block exceeds 65535 bytes
   or the body 2^32-1: `fits` is false), or returns bytes `out` that decode - all of them, as one frame, without error -
   to exactly the modified class, header pairs (in order) and body, with every other field unchanged, and whose three
   length fields are the true lengths. *)
Theorem c01_modify_roundtrip :
  (* c01_modify_roundtrip_bolt *)
  (forall v c n ops mem, res (bolt_decode v) = Ok (c, n) ->
  let c' := fold_left apply_op ops c in
  (b_hchanged c' || b_cchanged c') = true ->
  match bolt_encode mem c' with
  | EncErr => fits c' = false
  | EncOk out c'' => fits c' = true /\ b_classlen c'' = blen (b_class c') /\ b_headerlen c'' = hdr_enc_len (b_kvs c') /\ b_contentlen c'' = blen (b_content c') /\
      exists d, res (bolt_decode (view_of out)) = Ok (d, blen out) /\ b_herr d = false /\ same_content d c'
  end) /\
  (* c01_modify_roundtrip_boltv2 *)
  (forall v c n ops mem, res (boltv2_decode v) = Ok (c, n) ->
  let c' := fold_left apply_op ops c in
  (b_hchanged c' || b_cchanged c') = true ->
  match bolt_encode mem c' with
  | EncErr => fits c' = false
  | EncOk out c'' => fits c' = true /\ b_classlen c'' = blen (b_class c') /\ b_headerlen c'' = hdr_enc_len (b_kvs c') /\ b_contentlen c'' = blen (b_content c') /\
      exists d, res (bolt_decode (view_of out)) = Ok (d, blen out) /\ b_herr d = false /\ same_content d c'
  end) /\
  (* c01_header_block_roundtrip *)
  (forall chk kvs, kvs_ok kvs -> hdr_decode chk (hdr_encode kvs) = (HOk, kvs)).
Proof. exact (conj bolt_modify_roundtrip (conj boltv2_modify_roundtrip hdr_roundtrip)). Qed.
Print Assumptions c01_modify_roundtrip.

(* header block: decode (encode kvs) = kvs for every list of pairs whose strings are shorter than 2^32-1 *)

(* the slow path before the repair (bolt_enc_checked = false) announced a truncated length: the full statement
   does not hold for that encoder *)
Theorem c01_unchecked_encoder_refuted :
  let c := {| b_v2 := false; b_resp := false; b_proto := 1; b_cmdtype := 1; b_cmdcode := 1; b_ver := 1; b_reqid := 7; b_codec := 1;
              b_tail := 0; b_ver1 := 0; b_switch := 0; b_classlen := 0; b_headerlen := 0; b_contentlen := 0;
              b_class := repeat 97 (N.to_nat 65537); b_kvs := []; b_content := []; b_raw := None; b_hchanged := true; b_cchanged := false; b_herr := false |} in
  match bolt_encode_sw false [] c with
  | EncOk out c' => b_classlen c' = 1 /\ blen out = 22 + 65537
  | EncErr => False
  end.
Proof. exact unchecked_slow_inconsistent. Qed.

(* non-vacuity: a request with class "ab", header pair (k,v) and 3 body bytes is decoded; after Set("kk","vvv"),
   Del("k") and SetData of 65536 bytes the frame is encoded and decodes to the modified content *)
Definition ex_req : bytes := [1;1;0;1;1; 0;0;0;7; 1; 0;0;0;100; 0;2; 0;10; 0;0;0;3; 97;98; 0;0;0;1;107;0;0;0;1;118; 1;2;3].
Example c01_roundtrip_example :
  exists c n, res (bolt_decode (view_of ex_req)) = Ok (c, n) /\ n = 37 /\
    let c' := fold_left apply_op [OpSetHeader [107;107] [118;118;118]; OpDelHeader [107]; OpSetData (repeat 9 (N.to_nat 65536)); OpSetId 99] c in
    (b_hchanged c' || b_cchanged c') = true /\ fits c' = true /\ b_kvs c' = [([107;107], [118;118;118])] /\
    match bolt_encode [] c' with EncOk out _ => blen out = 22 + 2 + 13 + 65536 | EncErr => False end.
Proof. eexists. eexists. split; [vm_compute; reflexivity|]. split; [reflexivity|]. vm_compute. repeat split; reflexivity. Qed.
Example c01_fast_path_example :
  exists c n, res (bolt_decode (view_of ex_req)) = Ok (c, n) /\
    match bolt_encode [7;7;7] (set_request_id 258 c) with
    | EncOk out _ => out = [1;1;0;1;1; 0;0;1;2; 1; 0;0;0;100; 0;2; 0;10; 0;0;0;3; 97;98; 0;0;0;1;107;0;0;0;1;118; 1;2;3]
    | EncErr => False end.
Proof. eexists. eexists. split; vm_compute; reflexivity. Qed.

(* ===== slow paths and library encoders ===== *)
(* dubbo: SetData(d) with another buffer, Encode, Decode: for every decoded frame and every new body d (frame below 4 GiB;
   for a request that is parsed for service metadata the new body must be hessian-decodable: hess d) the encoded bytes
   decode - all of them - to a frame with exactly the new body, DataLen = |d|, and the same flag, status and id *)
Theorem c01_dubbo_set_data_roundtrip : forall hess v f n d mem, res (dubbo_decode hess v) = Ok (f, n) ->
  dubbo_HeaderLen + blen d < U32 ->
  (negb (N.testbit (nth_num f 0) 5) && N.testbit (nth_num f 0) 7 = true -> hess d = true) ->
  let out := dubbo_encode mem (dubbo_set_data true d (dubbo_set_id (nth_num f 2) f)) in
  exists f', res (dubbo_decode hess (view_of out)) = Ok (f', blen out) /\
    x_payload f' = d /\ nth_num f' 3 = blen d /\ nth_num f' 0 = nth_num f 0 /\ nth_num f' 1 = nth_num f 1 /\ nth_num f' 2 = nth_num f 2.
Proof. exact dubbo_set_data_roundtrip. Qed.
Print Assumptions c01_dubbo_set_data_roundtrip.

(* dubbo-thrift slow path (after SetData), RELATIVE to the thrift library's own reader/writer law `thrift_law` (premise;
   validated by the harness on the real library: premise:thrift-library-law): the re-encoded frame decodes completely to
   the new payload and the id, with consistent frame / message / header length fields *)
Theorem c01_thrift_slow_roundtrip : forall tparse whdr mbegin, thrift_law tparse whdr mbegin -> forall svc id payload mt,
  id < U64 -> mbegin payload = Some mt ->
  thrift_HeaderIdx + blen (whdr svc id) < U16 ->
  thrift_MessageLenSize + thrift_HeaderIdx + blen (whdr svc id) + blen payload < U32 ->
  let out := thrift_encode_slow whdr svc id payload in
  exists f, res (thrift_decode tparse (view_of out)) = Ok (f, blen out) /\
    x_payload f = payload /\ nth_num f 3 = id /\ nth_num f 2 = thrift_HeaderIdx + blen (whdr svc id) /\
    nth_num f 0 = blen out /\ nth_num f 1 = blen out - thrift_MessageLenSize.
Proof. exact thrift_slow_roundtrip. Qed.
Print Assumptions c01_thrift_slow_roundtrip.

(* tars: Encode serialises the parsed packet through TarsGo.  RELATIVE to TarsGo's laws (premises, validated by the
   harness: premise:tarsgo-roundtrip-law, premise:tarsgo-stype-law): the encoded frame decodes completely, as one frame
   of the same direction, to exactly the packet that was encoded (after SetRequestId: the received packet with only the
   id replaced) and its length prefix is the true length.  Byte identity with the received frame is NOT claimed
   (listed finding tars:reserialised-not-byte-identical). *)
Theorem c01_tars_encode_decode : forall (pkt : Type) jread jwrite (pid : pkt -> N) stype,
  tars_law_roundtrip pkt jread jwrite -> tars_law_stype pkt jwrite stype -> forall resp p,
  tars_MessageSizeLen + blen (jwrite resp p) <= tars_MaxPackageLength ->
  let out := tars_encode pkt jwrite resp p in
  res (tars_decode stype (tars_rparse pkt jread pid) (view_of out)) =
    Ok ({| x_nums := [if resp then 1 else 0; pid p]; x_raw := Some (Private out); x_payload := out; x_magic := [] |}, blen out) /\
  jread resp (dropN tars_MessageSizeLen out) = Some p.
Proof. exact (fun pkt jread jwrite pid stype => tars_encode_decode pkt jread jwrite pid stype). Qed.
Print Assumptions c01_tars_encode_decode.

(* BODY REWRITTEN IN PLACE (the way stream filters replace a body: proxy SetRequestData/SetResponseData refill the SAME buffer
   object, then SetData gets that buffer).  apply_op's OpRewriteInPlace is part of the op sequences of
   c01_modify_roundtrip (a rewrite of another length flags the content changed: rewrite_other_length_changes); a rewrite
   of the SAME length flags nothing and the fast path returns the received frame with exactly the content bytes and the
   request id replaced - every length field is the received one and still true *)
Theorem c01_in_place_same_length :
  (forall v c n id d mem, res (bolt_decode v) = Ok (c, n) -> blen d = blen (b_content c) ->
   exists c', bolt_encode mem (set_request_id id (rewrite_in_place d c)) =
              EncOk (patch (patch (takeN n (vb v)) (content_index c) d) (reqid_off c) (be_enc 4 (id mod 4294967296))) c') /\
  (forall v c n id d mem, res (boltv2_decode v) = Ok (c, n) -> blen d = blen (b_content c) ->
   exists c', bolt_encode mem (set_request_id id (rewrite_in_place d c)) =
              EncOk (patch (patch (takeN n (vb v)) (content_index c) d) (reqid_off c) (be_enc 4 (id mod 4294967296))) c') /\
  (forall c raw d, b_raw c = Some (Private raw) -> blen d <> blen (b_content c) ->
   b_cchanged (rewrite_in_place d c) = true /\ b_content (rewrite_in_place d c) = d).
Proof. exact (conj bolt_in_place_same_length (conj boltv2_in_place_same_length rewrite_other_length_changes)). Qed.
Print Assumptions c01_in_place_same_length.

(* CONSISTENT LENGTH FIELDS, ON THE EMITTED BYTES.  rd out lo hi / fld out (lo,hi) = the big-endian value of the bytes
   [lo,hi) of the emitted frame: a field reader that knows nothing of the encoders.  For every frame that takes an encoder's
   slow path - header or body changed through the setters, or a frame without raw bytes (built locally: hijack reply,
   heartbeat, NewRpcRequest/Response) - and for EVERY class / header block / body of every size the fields can hold (the
   bolt encoder refuses the others: c01_modify_roundtrip), every length field of the emitted frame is the length of the
   part it describes, the parts sit where the fields say, and they add up to the length of the frame.  The harness
   evaluates the same readers on the bytes the real encoders emit (finder <codec>:reencoded-frame-length-field-inconsistent)
   and compares the full emitted bytes with the models' bytes (enc_case, xenc_case, xslow_case), with re-encoded sizes on
   both sides of 1024 / 2048 / 4096 / 8192 / 65536. *)
Theorem c01_encoded_length_fields :
  (* bolt, boltv2 *)
  (forall mem c out c', (b_raw c = None \/ (b_hchanged c || b_cchanged c) = true) -> bolt_encode mem c = EncOk out c' ->
    let L := layout_of (b_v2 c) (b_resp c) in
    fits c = true /\
    fld out (l_class L) = blen (b_class c) /\ fld out (l_header L) = hdr_enc_len (b_kvs c) /\ fld out (l_content L) = blen (b_content c) /\
    blen out = l_hlen L + blen (b_class c) + hdr_enc_len (b_kvs c) + blen (b_content c) /\
    sub out (l_hlen L) (l_hlen L + blen (b_class c)) = b_class c /\
    sub out (l_hlen L + blen (b_class c)) (l_hlen L + blen (b_class c) + hdr_enc_len (b_kvs c)) = hdr_encode (b_kvs c) /\
    sub out (l_hlen L + blen (b_class c) + hdr_enc_len (b_kvs c)) (blen out) = b_content c) /\
  (* dubbo: SetData(d), Encode *)
  (forall mem f d, blen (x_magic f) = 2 -> length (x_nums f) = 8%nat -> dubbo_HeaderLen + blen d < U32 ->
    let out := dubbo_encode mem (dubbo_set_data true d f) in
    blen out = dubbo_HeaderLen + blen d /\ rd out 12 16 = blen d /\ sub out dubbo_HeaderLen (blen out) = d) /\
  (* dubbo-thrift: the slow path, whatever the thrift library writes for service name and id *)
  (forall whdr svc id payload, thrift_HeaderIdx + blen (whdr svc id) < U16 ->
    thrift_MessageLenSize + thrift_HeaderIdx + blen (whdr svc id) + blen payload < U32 ->
    let out := thrift_encode_slow whdr svc id payload in
    let hlen := thrift_HeaderIdx + blen (whdr svc id) in
    blen out = thrift_MessageLenSize + hlen + blen payload /\
    rd out 0 4 = blen out - 4 /\ rd out 6 10 = blen out - 4 /\ rd out 10 12 = hlen /\
    sub out (thrift_MessageLenSize + hlen) (blen out) = payload) /\
  (* tars: the length prefix in front of what TarsGo wrote *)
  (forall (pkt : Type) (jwrite : bool -> pkt -> bytes) resp p, tars_MessageSizeLen + blen (jwrite resp p) < U32 ->
    let out := tars_encode pkt jwrite resp p in
    rd out 0 4 = blen out /\ sub out tars_MessageSizeLen (blen out) = jwrite resp p).
Proof.
  exact (conj (fun mem c out c' => bolt_slow_length_fields mem c out c')
        (conj dubbo_set_data_length_field (conj thrift_slow_length_fields tars_length_prefix))).
Qed.
Print Assumptions c01_encoded_length_fields.

(* the encoder shape excluded by the source switch thrift_enc_fields_after_body (c01_codec_src_repaired): the message length
   written through a slice of the 1024-byte scratch buffer that was taken before the body was appended.  Up to 1024 bytes
   of header + body nothing shows; one byte more and the emitted frame announces MaxInt32 as its message length while the
   frame prefix and the header length are right: the statement above does not hold for that encoder *)
Theorem c01_thrift_stale_slice_refuted :
  (let out := thrift_encode_slow_sw false (fun _ _ => repeat 0 12%nat) [] 0 (repeat 7 1004%nat) in
   blen out = 1029 /\ rd out 0 4 = blen out - 4 /\ rd out 10 12 = 21 /\ rd out 6 10 = 2147483647 /\ rd out 6 10 <> blen out - 4) /\
  (let out := thrift_encode_slow_sw false (fun _ _ => repeat 0 12%nat) [] 0 (repeat 7 1003%nat) in
   blen out = 1028 /\ rd out 6 10 = blen out - 4) /\
  (forall whdr svc id payload, thrift_encode_slow_sw thrift_enc_fields_after_body whdr svc id payload = thrift_encode_slow whdr svc id payload).
Proof. exact (conj thrift_stale_slice_refuted (conj thrift_stale_slice_small_ok thrift_late_is_slow)). Qed.
