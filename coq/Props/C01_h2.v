(* C01 (HTTP/2 part) - forwarding fidelity through the HTTP/2 stream layer (pkg/stream/http2 serverStreamConnection /
   clientStreamConnection, pkg/module/http2 mhttp2.go, transport.go encodeHeaders, write.go encodeHeaders), both
   directions.  Only statements; proofs by `exact`.
   The path of a message: wire -> frame layer (C18/C07 parts: frames, CONTINUATION, HPACK) -> handleFrame collects the
   stream's HEADERS / DATA / trailers -> the proxy holds what it was handed BY REFERENCE while the connection goes on
   reading -> AppendHeaders / AppendData / AppendTrailers on the other side -> frame layer -> wire. *)
From Coq Require Import List NArith Bool Permutation.
From MV Require Import Lib.HBits Gen.H2Src Model.Hpack Model.H2Frame Model.H2Demux Model.H2Fwd
  Proofs.H2Demux Proofs.H2FrameRT Proofs.H2FrameMeta Proofs.H2Fwd.
(* the comparison functions of the correspondence shards are built together with this file *)
From MV Require Model.H2FwdCases.
Import ListNotations.
Open Scope N_scope.

(* handleFrame (client and server) copies every DATA payload out of the connection's read buffer (read from stream.go
   on every run; shared with C02) *)
Theorem c01_h2_payloads_copied : h2_stream_data_copied = true.
Proof. exact (eq_refl true). Qed.

(* STREAM LAYER.  For EVERY set of open streams, EVERY interleaving of the frames of any number of streams, EVERY
   grouping of the frames into reads and EVERY delivery d made to the receiver of stream sid:
   (1) d - kept by reference, looked at with ANY later contents buf' of the connection's read buffer, i.e. after any
       number of later reads - carries the headers, the body and the trailers the per-stream reference machine makes of
       the frames of stream sid alone (c01_h2_reference_is_the_message: what that is in terms of the frames);
   (2) forwarded on stream sid' of the other side - the body cut into DATA frames by ANY sequence of flow-control grants
       (one frame, frames of the maximum size, a body larger than the maximum frame size, an empty body), the frames of
       other streams interleaved at will - the peer's reference machine delivers exactly these headers, this body and
       these trailers. *)
Theorem c01_h2_forwarding : forall opens reads sid buf' d, NoDup opens ->
  In d (only_sid sid (dc_out (run_reads (negb h2_stream_data_copied) opens reads))) ->
  In (observe4 buf' d) (snd (prun4 sid (if existsb (N.eqb sid) opens then Some ([], []) else None) (concat reads))) /\
  forall nilbody sid' takes wire,
    filter (fun f => fsid f =? sid') wire = forward buf' nilbody d sid' takes ->
    snd (prun4 sid' (Some ([], [])) wire) =
    [(sid', dl_tok d, resolve buf' (dl_body d), norm_trail (dl_trail d))].
Proof. exact forward_fidelity. Qed.
Print Assumptions c01_h2_forwarding.

(* all deliveries of a stream, with their trailers, at any later time *)
Theorem c01_h2_deliveries : forall opens reads sid buf', NoDup opens ->
  map (observe4 buf') (only_sid sid (dc_out (run_reads (negb h2_stream_data_copied) opens reads))) =
  snd (prun4 sid (if existsb (N.eqb sid) opens then Some ([], []) else None) (concat reads)).
Proof. exact demux4_correct. Qed.
Print Assumptions c01_h2_deliveries.

(* the reference machine: only the frames of its own stream, at most one message, and that message is the stream's
   headers, exactly the concatenation of its DATA payloads in order up to the frame that ends it - whatever the DATA
   framing: a single DATA frame with END_STREAM, an empty final DATA frame, many frames - and the trailers of the frame
   that ends it; a message that is only HEADERS with END_STREAM has an empty body and no trailers *)
Theorem c01_h2_reference_is_the_message :
  (forall sid fs st, prun4 sid st fs = prun4 sid st (filter (fun f => fsid f =? sid) fs)) /\
  (forall sid fs st, (length (snd (prun4 sid st fs)) <= 1)%nat) /\
  (forall sid fs tok a, (forall t, ~ In (FHead sid t true) fs) ->
     snd (prun4 sid (Some (tok, a)) fs) =
     if ends sid fs then [(sid, tok_of sid tok fs, a ++ body_of sid fs, trail_of sid fs)] else []) /\
  (forall sid fs t rest, filter (fun f => fsid f =? sid) fs = FHead sid t true :: rest ->
     snd (prun4 sid (Some ([], [])) fs) = [(sid, t, [], None)]).
Proof. exact (conj prun4_own_frames (conj prun4_at_most_one (conj prun4_spec prun4_headers_only))). Qed.
Print Assumptions c01_h2_reference_is_the_message.

(* the sender: whatever the grants, the DATA frames carry exactly the body, and the peer receives the message; on the
   wire every DATA frame is read back as that frame by the frame layer (the header blocks: Props/C18.v
   c18_sent_header_block_read_back) *)
Theorem c01_h2_sender :
  (forall sid takes b, flat_map (fun f => match f with FData _ p _ => p | _ => [] end) (data_frames sid takes b) = b) /\
  (forall sid tok body trail takes wire,
     filter (fun f => fsid f =? sid) wire = send_stream sid tok body trail takes ->
     snd (prun4 sid (Some ([], [])) wire) = [(sid, tok, match body with Some b => b | None => [] end, norm_trail trail)]) /\
  (forall sid es p mx rest, sid_ok sid -> len p < 16777216 -> len p <= mx ->
     read_raw psw_ok 0 mx (ser_frame (AData sid es p None) ++ rest) 0 =
     WFrame (frame_of (AData sid es p None)) (len (ser_frame (AData sid es p None))) 0).
Proof. exact (conj data_frames_body (conj send_stream_received data_frame_wire)). Qed.
Print Assumptions c01_h2_sender.

(* the aliasing variant (the payload of a single DATA+END_STREAM frame wrapped instead of copied): after the next read
   the body of stream 1, forwarded, is the body of stream 3 *)
Theorem c01_h2_refuted_with_aliasing :
  let c := run_reads true [1; 3] alias_witness in
  map (fun d => snd (prun4 7 (Some ([], [])) (forward (dc_buf c) false d 7 []))) (only_sid 1 (dc_out c)) =
    [[(7, [65], [66; 66; 66], None)]] /\
  snd (prun4 1 (Some ([], [])) (concat alias_witness)) = [(1, [65], [65; 65; 65], None)].
Proof. exact forward_alias_refuted. Qed.
Print Assumptions c01_h2_refuted_with_aliasing.

(* HEADER LAYER, requests (processRequest -> http.Request -> encodeHeaders).  For EVERY received field list whose
   regular names are lower case (c01_h2_frame_layer_guarantees), EVERY iteration order of the header map (a Go map) and
   every field the transport adds on its own account: every name the path does not manage itself (host, content-length,
   connection-specific fields, user-agent, cookie, expect, trailer, accept-encoding) has the same values in the same
   order - duplicates, empty values and case of the values included; the cookie fields come out joined with "; " as
   one field (RFC 7540 8.1.2.5); :method, :path, :scheme are carried over and :authority too, the Host field standing
   in for a missing one. *)
Theorem c01_h2_request_fields : forall fs es r iter tr cl gz ua,
  srv_request fs es = Some r -> (forall f, In f (regular fs) -> lower (fst f) = fst f) ->
  Permutation iter (r_hdr r) ->
  (forall n, lower n = n -> is_pseudo n = false -> memb n req_managed = false ->
     values n (cli_request_fields iter r tr cl gz ua) = values n (regular fs)) /\
  values n_cookie (cli_request_fields iter r tr cl gz ua) =
    (let cs := values n_cookie (regular fs) in if Nat.ltb 1 (length cs) then [join sep_cookie cs] else cs).
Proof.
  exact (fun fs es r iter tr cl gz ua H Hl Hp =>
    conj (fun n Hn Hps Hm => req_fields_fidelity fs es r iter tr cl gz ua n H Hl Hp Hn Hps Hm)
         (req_cookie_fidelity fs es r iter tr cl gz ua H Hl Hp)).
Qed.
Print Assumptions c01_h2_request_fields.

Theorem c01_h2_request_pseudo_fields : forall fs es r iter tr cl gz ua,
  srv_request fs es = Some r ->
  r_method r = pseudo_value p_method fs /\ r_path r = pseudo_value p_path fs /\ r_scheme r = pseudo_value p_scheme fs /\
  r_authority r = (if nilb (pseudo_value p_authority fs) then st_first (canon n_host) (store_of (regular fs)) else pseudo_value p_authority fs) /\
  pseudo_value p_authority (cli_request_fields iter r tr cl gz ua) = r_authority r /\
  pseudo_value p_method (cli_request_fields iter r tr cl gz ua) = r_method r /\
  (bytes_eqb (r_method r) v_connect = false ->
   pseudo_value p_path (cli_request_fields iter r tr cl gz ua) = r_path r /\
   pseudo_value p_scheme (cli_request_fields iter r tr cl gz ua) = r_scheme r).
Proof. exact req_pseudo_fidelity. Qed.
Print Assumptions c01_h2_request_pseudo_fields.

(* HEADER LAYER, responses (handleResponse -> http.Response -> WriteHeader / writeHeaders).  For EVERY received field list
   (regular names lower case, values valid), EVERY order of the keys and every field the server side adds on its own
   account: every wire-valid name the path does not manage itself (trailer, content-length, content-type, date,
   transfer-encoding) has the same values in the same order; the status is carried over. *)
Theorem c01_h2_response_fields : forall fs p iter ct cl dt n,
  cli_response fs = Some p ->
  (forall f, In f (regular fs) -> lower (fst f) = fst f /\ valid_value (snd f) = true) ->
  Permutation iter (rsp_hdr p) -> valid_name n = true -> memb n rsp_managed = false ->
  values n (srv_response_fields iter p ct cl dt) = values n (regular fs) /\
  pseudo_value p_status (srv_response_fields iter p ct cl dt) = pseudo_value p_status fs.
Proof. exact resp_fields_fidelity. Qed.
Print Assumptions c01_h2_response_fields.

(* where the hypotheses on the names and values come from: a field list the frame layer accepted (the emit callback of
   readMetaFrame, Model/H2Frame.v sink_emit; Props/C18.v c18_headers_block_roundtrip) has, after its pseudo-header fields,
   only fields with wire-valid lower-case names and valid values *)
Theorem c01_h2_frame_layer_guarantees : forall fs sk sk', sink_run sk fs = Some sk' ->
  forall f, In f (regular (map pair_of fs)) ->
    valid_name (fst f) = true /\ valid_value (snd f) = true /\ lower (fst f) = fst f /\ is_pseudo (fst f) = false.
Proof. exact sink_wire. Qed.
Print Assumptions c01_h2_frame_layer_guarantees.

(* non-vacuity: two multiplexed requests, the body of stream 1 in one DATA+END_STREAM frame, that of stream 3 in three
   frames and ended by trailers; delivered, retained over a later read and forwarded with grants 2, 1 *)
Example c01_h2_example :
  let reads := [[FHead 1 [97] false; FHead 3 [98] false; FData 3 [66] false]; [FData 1 [65; 65; 65] true; FData 3 [66; 66] false];
                [FTrail 3 [116]]] in
  let c := run_reads false [1; 3] reads in
  map (fun d => forward [9; 9; 9; 9] false d (dl_sid d + 100) [2; 1]) (dc_out c) =
    [[FHead 101 [97] false; FData 101 [65; 65] false; FData 101 [65] false; FData 101 [] true];
     [FHead 103 [98] false; FData 103 [66; 66] false; FData 103 [66] false; FTrail 103 [116]]].
Proof. vm_compute. reflexivity. Qed.

(* a request: :authority missing (Host stands in), two cookie crumbs, a duplicated field, an empty value *)
Example c01_h2_header_example :
  let fs := [(58 :: p_method, [71; 69; 84]); (58 :: p_scheme, v_http); (58 :: p_path, [47]);
             (n_host, [104]); ([120; 45; 97], [49]); (n_cookie, [97; 61; 49]); ([120; 45; 97], []); (n_cookie, [98; 61; 50])] in
  match srv_request fs true with
  | Some r => cli_request_fields (r_hdr r) r None None false [85] =
      [(58 :: p_authority, [104]); (58 :: p_method, [71; 69; 84]); (58 :: p_path, [47]); (58 :: p_scheme, v_http);
       (n_cookie, [97; 61; 49; 59; 32; 98; 61; 50]); ([120; 45; 97], [49]); ([120; 45; 97], []); (n_ua, [85])]
  | None => False
  end.
Proof. vm_compute. reflexivity. Qed.
