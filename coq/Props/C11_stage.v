(* C11 - the stage manager under INTERLEAVED signals.  Only statements here; proofs by `exact`.
   `stop_always_drains` is READ FROM pkg/stagemanager/stage_manager.go ON THIS RUN. *)
From Coq Require Import List Bool.
From MV Require Import Gen.StageTokens Model.Stage Proofs.Stage.
Import ListNotations.

Theorem c11_stage_translator_ok : StageTokens_translator_ok = true.
Proof. exact (eq_refl true). Qed.
(* runGracefulStopStage calls Application.Shutdown unconditionally; Stop() runs it before Application.Close; the upgrade
   handler shuts the servers down before it reports success *)
Theorem c11_stop_always_drains : stop_always_drains = true.
Proof. exact (eq_refl true). Qed.
Theorem c11_stop_drains_before_close : stop_graceful_stage_before_close = true /\ upgrade_handler_drains_before_done = true.
Proof. exact (conj eq_refl eq_refl). Qed.

(* For EVERY admissible interleaving of SIGTERM, SIGHUP, the new server's dial (upgrade start), the upgrade handler's progress
   (fds sent, ack, servers shut down, done) and failure, and the main goroutine's Stop(): Application.Close is never called
   before a drain (Application.Shutdown by Stop, or shutdownServers by the upgrade handler) has been performed.
   Admissible = no SIGINT/SIGQUIT (they ask for a stop without drain) and no SIGHUP in the window between the release of the
   main goroutine and its Stop(). *)
Theorem c11_close_never_before_drain : forall evs,
  admissible stop_always_drains evs = true ->
  drained_before_close (g_trace (g_run stop_always_drains evs)) = true.
Proof. exact close_never_before_drain. Qed.
Print Assumptions c11_close_never_before_drain.

Example c11_stage_example :
  admissible stop_always_drains [EvNewDial; EvHandlerStep; EvTerm; EvMainStop] = true /\
  g_trace (g_run stop_always_drains [EvNewDial; EvHandlerStep; EvTerm; EvMainStop]) = [CDrainByStop; CClose] /\
  g_trace (g_run stop_always_drains [EvNewDial; EvHandlerStep; EvHandlerStep; EvHandlerStep; EvHandlerStep; EvMainStop]) = [CDrainByHandler; CDrainByStop; CClose] /\
  g_trace (g_run stop_always_drains [EvNewDial; EvHandlerFail; EvTerm; EvMainStop]) = [CDrainByStop; CClose].
Proof. vm_compute. repeat split; reflexivity. Qed.

(* skipping the drain "because the state was Upgrading" is wrong: the state becomes Upgrading long before the handler drains *)
Example c11_stage_skip_when_upgrading_refuted :
  admissible false [EvNewDial; EvTerm; EvMainStop] = true /\
  drained_before_close (g_trace (g_run false [EvNewDial; EvTerm; EvMainStop])) = false.
Proof. vm_compute. split; reflexivity. Qed.

(* the side condition on SIGHUP cannot be dropped: the stop action is ONE field, the latest notice wins *)
Example c11_stage_sighup_in_the_window :
  drained_before_close (g_trace (g_run stop_always_drains [EvNewDial; EvTerm; EvHup; EvMainStop])) = false /\
  admissible stop_always_drains [EvNewDial; EvTerm; EvHup; EvMainStop] = false.
Proof. vm_compute. split; reflexivity. Qed.
