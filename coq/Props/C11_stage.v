(* C11 - the stage manager under INTERLEAVED signals.  Only statements here; proofs by `exact`.
   `stop_always_drains` is READ FROM pkg/stagemanager/stage_manager.go ON THIS RUN. *)
From Coq Require Import List Bool.
From MV Require Import Gen.StageTokens Model.Stage Proofs.Stage.
Import ListNotations.

Theorem c11_stage_translator_ok : StageTokens_translator_ok = true.
Proof. exact (eq_refl true). Qed.
(* runGracefulStopStage calls Application.Shutdown unconditionally and NoticeStop ignores a reload once a stop has been
   noticed; Stop() runs the graceful stage before Application.Close; the upgrade handler shuts the servers down before it
   reports success *)
Theorem c11_stage_flags : stage_flags = good.
Proof. exact (eq_refl good). Qed.
Theorem c11_stop_drains_before_close : stop_graceful_stage_before_close = true /\ upgrade_handler_drains_before_done = true.
Proof. exact (conj eq_refl eq_refl). Qed.

(* For EVERY interleaving of SIGTERM, SIGHUP, the new server's dial (upgrade start), the upgrade handler's progress (fds sent,
   ack, servers shut down, done) and failure, and the main goroutine's Stop() - SIGINT/SIGQUIT excluded, they ask for a stop
   without drain -: Application.Close is never called before a drain (Application.Shutdown by Stop, or shutdownServers by the
   upgrade handler) has been performed. *)
Theorem c11_close_never_before_drain : forall evs,
  admissible evs = true ->
  drained_before_close (g_trace (g_run stage_flags evs)) = true.
Proof. exact close_never_before_drain. Qed.
Print Assumptions c11_close_never_before_drain.

Example c11_stage_example :
  g_trace (g_run stage_flags [EvNewDial; EvHandlerStep; EvTerm; EvMainStop]) = [CDrainByStop; CClose] /\
  g_trace (g_run stage_flags [EvNewDial; EvHandlerStep; EvHandlerStep; EvHandlerStep; EvHandlerStep; EvMainStop]) = [CDrainByHandler; CDrainByStop; CClose] /\
  g_trace (g_run stage_flags [EvNewDial; EvHandlerFail; EvTerm; EvMainStop]) = [CDrainByStop; CClose] /\
  g_trace (g_run stage_flags [EvTerm; EvHup; EvMainStop]) = [CDrainByStop; CClose].
Proof. vm_compute. repeat split; reflexivity. Qed.

(* skipping the drain "because the state was Upgrading" is wrong: the state becomes Upgrading long before the handler drains *)
Example c11_stage_skip_when_upgrading_refuted :
  drained_before_close (g_trace (g_run (mkSF false true) [EvNewDial; EvTerm; EvMainStop])) = false.
Proof. vm_compute. reflexivity. Qed.

(* the code before fix c0bbda20b: a SIGHUP between SIGTERM and the main goroutine's Stop() overwrote the stop action (ONE
   field, the latest notice wins) and Stop() skipped the graceful stage *)
Example c11_stage_sighup_after_sigterm_refuted :
  drained_before_close (g_trace (g_run (mkSF true false) [EvTerm; EvHup; EvMainStop])) = false /\
  drained_before_close (g_trace (g_run (mkSF true false) [EvNewDial; EvTerm; EvHup; EvMainStop])) = false.
Proof. vm_compute. split; reflexivity. Qed.
