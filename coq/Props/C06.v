(* C06 - Configured weights are honoured exactly.  Only statements here; proofs by `exact`. *)
From Coq Require Import List ZArith String Permutation.
From Coq Require Import QArith Qabs.
From MV Require Import Gen.SrcTokens Model.WCluster Model.Edf Model.EdfHeap Model.EdfVar Model.EdfHealth Proofs.WCluster Proofs.Edf Proofs.EdfHeap Proofs.EdfQ Proofs.EdfVar Proofs.EdfHealth.
Import ListNotations.
Open Scope Z_scope.

(* the translator recognised the source of ClusterName *)
Theorem c06_translator_ok : SrcTokens_translator_ok = true.
Proof. exact (eq_refl true). Qed.

(* First half.  `wc_cmp` is the comparison operator READ FROM base_rule.go on this run.
   For every weight map with non-negative weights and positive total, every storage order
   cs' of it (map iteration order) and every cluster c: exactly `weight c` of the `total`
   equally likely draws select c.  Hence: probability exactly weight/total, a zero-weight
   cluster is never selected, and the histogram does not depend on storage order. *)
Theorem c06_cluster_exact : forall cs, NoDup (map fst cs) -> Forall (fun p => 0 <= snd p) cs ->
  0 < total cs -> forall cs', Permutation cs cs' -> forall c w, In (c, w) cs ->
  hits wc_cmp cs' c = w.
Proof. exact cluster_exact. Qed.
Print Assumptions c06_cluster_exact.

Theorem c06_zero_weight_never : forall cs, Forall (fun p => 0 <= snd p) cs -> forall v d,
  0 <= v < total cs -> exists w, In (pick wc_cmp cs v d, w) cs /\ 0 < w.
Proof. exact pick_lt_in_range. Qed.
Print Assumptions c06_zero_weight_never.

(* non-vacuity: a concrete weight map meets the hypotheses *)
Example c06_cluster_example :
  let cs := [("a"%string, 3); ("z"%string, 0); ("b"%string, 5)] in
  NoDup (map fst cs) /\ Forall (fun p => 0 <= snd p) cs /\ 0 < total cs /\
  hits wc_cmp (rev cs) "a" = 3 /\ hits wc_cmp cs "z" = 0.
Proof. cbn zeta. split; [|split; [|split; [|split]]].
  - repeat constructor; cbn; intuition congruence.
  - repeat constructor; cbn; discriminate.
  - reflexivity.
  - vm_compute; reflexivity.
  - vm_compute; reflexivity.
Qed.

(* Second half: EDF weighted round robin.  For all positive integer weights, any window start
   reachable from the initial scheduler (pre) and any window (picks), for any two hosts i, j:
   |n_i/w_i - n_j/w_j| <= 1/w_i + 1/w_j, stated multiplied by w_i*w_j > 0.
   `edf_run` accepts exactly the pick sequences in which every pick has a minimal deadline
   (any tie-break), so the statement covers the Go heap's tie-break. *)
Theorem c06_edf_window : forall ws pre s0 picks s1,
  Forall (fun w => 0 < w) ws ->
  edf_run (edf_of_weights ws) pre = Some s0 ->
  edf_run s0 picks = Some s1 ->
  forall i j wi wj, nth_error ws i = Some wi -> nth_error ws j = Some wj ->
  Z.abs (count_pick i picks * wj - count_pick j picks * wi) <= wi + wj.
Proof. exact edf_window_weights. Qed.
Print Assumptions c06_edf_window.

(* the deterministic Go tie-break (deadline, then queuedTime) is one of the allowed behaviours *)
Theorem c06_edf_det_refines : forall s i, edf_next_det s = Some i -> exists s', edf_pick s i = Some s'.
Proof. exact next_det_is_next. Qed.
Print Assumptions c06_edf_det_refines.

Example c06_edf_example :
  exists s0 s1, edf_run (edf_of_weights [1; 2; 128]) [2%nat; 2%nat] = Some s0 /\
                edf_run s0 [2%nat; 2%nat; 2%nat] = Some s1.
Proof. eexists; eexists; split; vm_compute; reflexivity. Qed.

(* The Go array heap (edfheap.go: hole-based fixUp/fixDown, Push, Fix) with the scheduler of edf.go on
   top of it, modelled index for index in Model/EdfHeap.v, REFINES the abstract scheduler: every pick the
   heap scheduler makes is a deadline-minimal pick of Model/Edf.v, for every weight list and run length. *)
Theorem c06_heap_refines : forall ws n,
  exists s', edf_run (edf_of_weights ws) (map fst (hs_run (hs_of_weights ws) n)) = Some s'.
Proof. exact heap_scheduler_refines_weights. Qed.
Print Assumptions c06_heap_refines.

(* hence the window bound holds for the sequences the heap scheduler itself produces *)
Theorem c06_heap_window : forall ws a n, Forall (fun w => 0 < w) ws ->
  let seq := map fst (hs_run (hs_of_weights ws) (a + n)) in
  let window := skipn a seq in
  forall i j wi wj, nth_error ws i = Some wi -> nth_error ws j = Some wj ->
  Z.abs (count_pick i window * wj - count_pick j window * wi) <= wi + wj.
Proof. exact heap_scheduler_window. Qed.
Print Assumptions c06_heap_window.

Example c06_heap_example :
  map fst (hs_run (hs_of_weights [1; 2; 4]) 7) = [2; 1; 2; 2; 0; 1; 2]%nat.
Proof. vm_compute. reflexivity. Qed.

(* The same bound in the rational form of the property text: |n_i/w_i - n_j/w_j| <= 1/w_i + 1/w_j. *)
Theorem c06_edf_window_rational : forall ws pre s0 picks s1,
  Forall (fun w => 0 < w) ws ->
  edf_run (edf_of_weights ws) pre = Some s0 -> edf_run s0 picks = Some s1 ->
  forall i j wi wj, nth_error ws i = Some wi -> nth_error ws j = Some wj ->
  (Qabs ((count_pick i picks # Z.to_pos wi) - (count_pick j picks # Z.to_pos wj))
     <= (1 # Z.to_pos wi) + (1 # Z.to_pos wj))%Q.
Proof.
  intros ws pre s0 picks s1 Hpos Hpre Hrun i j wi wj Hi Hj.
  assert (Hwi : 0 < wi) by (rewrite Forall_forall in Hpos; apply Hpos; eapply nth_error_In; eassumption).
  assert (Hwj : 0 < wj) by (rewrite Forall_forall in Hpos; apply Hpos; eapply nth_error_In; eassumption).
  exact (window_q_form _ _ wi wj Hwi Hwj (edf_window_weights ws pre s0 picks s1 Hpos Hpre Hrun i j wi wj Hi Hj)).
Qed.
Print Assumptions c06_edf_window_rational.

(* Hosts may JOIN a running scheduler: for every history of Adds (positive periods per = D/w for a common
   multiple D of the weights) and picks reaching s0, and every window of picks from s0, the bound holds for
   all entries present at the window start (scaled form: n_i*per_i stands for n_i/w_i * D). *)
Theorem c06_edf_window_after_late_add : forall pre s0 picks s1,
  Forall eop_ok pre -> edf_exec edf_init pre = Some s0 -> edf_run s0 picks = Some s1 ->
  forall i j, (i < List.length (es s0))%nat -> (j < List.length (es s0))%nat ->
  Z.abs (count_pick i picks * per_at s0 i - count_pick j picks * per_at s0 j)
    <= per_at s0 i + per_at s0 j.
Proof. exact edf_window_reachable. Qed.
Print Assumptions c06_edf_window_after_late_add.

Example c06_late_add_example :
  exists s0 s1, edf_exec edf_init [OAdd 128; OAdd 1; OPick 1%nat; OPick 1%nat; OAdd 2] = Some s0 /\
                edf_run s0 [1%nat; 2%nat; 1%nat] = Some s1 /\ List.length (es s0) = 3%nat.
Proof. eexists; eexists; split; [vm_compute; reflexivity|split; vm_compute; reflexivity]. Qed.

(* Duplicate names in the configured list: the entries live in a map (last occurrence wins, `dedup_last`)
   and the draw bound is the sum of the STORED weights (checked against the real rule on every run): every
   stored cluster gets exactly its stored weight, in every storage order. *)
Theorem c06_cluster_exact_with_duplicate_names : forall cfg, Forall (fun p => 0 <= snd p) cfg ->
  forall cs', Permutation (dedup_last cfg) cs' -> forall c w, In (c, w) (dedup_last cfg) ->
  hits wc_cmp cs' c = w.
Proof. exact cluster_exact_dedup. Qed.
Print Assumptions c06_cluster_exact_with_duplicate_names.

Example c06_duplicate_names_example :
  dedup_last [("a"%string, 10); ("b"%string, 20); ("a"%string, 30)] = [("b"%string, 20); ("a"%string, 30)] /\
  total (dedup_last [("a"%string, 10); ("b"%string, 20); ("a"%string, 30)]) = 50.
Proof. split; reflexivity. Qed.

(* READ FROM edf.go on this run: NextAndPush re-queues the popped entry with 1.0/weightFunc(entry.item), the
   weight the weight function answers at that pick, and Add queues with currentTime + 1.0/weight - the shape
   `edf_pickw` / `edf_add` model. *)
Theorem c06_edf_source_shape : edf_requeue_asks_weightfunc = true.
Proof. exact (eq_refl true). Qed.

(* Weights may CHANGE while the scheduler runs (NextAndPush asks the weight function at every pick; `edf_pickw`
   re-queues with the period answered at that pick).  For every history `pre` of Adds and picks with arbitrarily
   changing positive weights, once the weight function stands still (W) and both hosts have been re-queued under
   it (picked at least once in `warm`), every later window satisfies the bound of the property with the CURRENT
   weights.  D is a common multiple of the weights in force (period = D / weight). *)
Theorem c06_edf_window_after_weight_changes : forall D W pre s0 warm sm picks s1,
  0 < D -> (forall i, 0 < W i /\ (W i | D)) ->
  Forall wop_ok pre -> edf_execw edf_init pre = Some s0 ->
  edf_runw s0 (fun i => D / W i) warm = Some sm -> edf_runw sm (fun i => D / W i) picks = Some s1 ->
  forall i j, (i < List.length (es s0))%nat -> (j < List.length (es s0))%nat ->
  0 < count_pick i warm -> 0 < count_pick j warm ->
  Z.abs (count_pick i picks * W j - count_pick j picks * W i) <= W i + W j.
Proof. exact edf_window_settled_weights. Qed.
Print Assumptions c06_edf_window_after_weight_changes.

(* while a weight is in transit (an entry still queued with the period of its previous weight) the lag is bounded
   by the larger of the old and the new period of each of the two hosts; scaled form, from any invariant state *)
Theorem c06_edf_window_during_weight_change : forall s0 P picks s1,
  (forall i, 0 < P i) -> EInv s0 -> edf_runw s0 P picks = Some s1 ->
  forall i j, (i < List.length (es s0))%nat -> (j < List.length (es s0))%nat ->
  Z.abs (count_pick i picks * P i - count_pick j picks * P j)
    <= Z.max (per_at s0 i) (P i) + Z.max (per_at s0 j) (P j).
Proof. exact edf_window_transient. Qed.
Print Assumptions c06_edf_window_during_weight_change.

(* with an unchanged weight function a segment is exactly a run of the fixed-weight model *)
Theorem c06_edf_constant_weights_is_fixed_model : forall P picks s,
  (forall i, (i < List.length (es s))%nat -> P i = per_at s i) -> edf_runw s P picks = edf_run s picks.
Proof. exact runw_settled. Qed.
Print Assumptions c06_edf_constant_weights_is_fixed_model.

(* the other handling - a period cached in the entry and refreshed only when the weight differs from the one
   remembered at Add - is refuted: weights 4,2,1, the first goes 4 -> 1 -> 4, every entry re-queued, and a later
   window of 28 picks violates the bound *)
Theorem c06_edf_stale_period_refuted :
  (forall k, In k stale_window -> (k < 3)%nat) /\
  ~ (Z.abs (count_pick 0 stale_window * stale_wA 1 - count_pick 1 stale_window * stale_wA 0)
       <= stale_wA 0 + stale_wA 1).
Proof. exact stale_period_refuted. Qed.
Print Assumptions c06_edf_stale_period_refuted.

Example c06_weight_change_example :
  let WA := fun i : nat => match i with 0%nat => 4 | 1%nat => 2 | _ => 1 end in
  exists s0 sm s1,
    edf_execw edf_init [WAdd 1; WAdd 2; WAdd 4; WPick 0%nat 1; WPick 1%nat 2; WPick 0%nat 1;
                        (* weight of host 0: 4 -> 1 *) WPick 0%nat 4; WPick 2%nat 4; WPick 1%nat 2] = Some s0 /\
    (* restored to 4 *)
    edf_runw s0 (fun i => 4 / WA i) [1%nat; 0%nat; 2%nat; 1%nat] = Some sm /\
    edf_runw sm (fun i => 4 / WA i) [0%nat; 0%nat; 1%nat; 0%nat; 0%nat] = Some s1 /\
    List.length (es s0) = 3%nat.
Proof. cbn zeta. eexists; eexists; eexists; split; [vm_compute; reflexivity|split; [vm_compute; reflexivity|split; vm_compute; reflexivity]]. Qed.

(* HEALTH flips under the weighted round robin balancer.  READ FROM loadbalancer.go on this run: refresh queues
   EVERY host of the host set whatever its health (one unconditional Add in the Range callback) and ChooseHost
   takes up to `total` scheduler picks, returning the first healthy one (then the unweighted fallback, which does
   not touch the scheduler).  `edf_observe_all` is the set of scheduler states compatible with an observed history
   of (unhealthy flags, host returned).  Whatever hosts were unhealthy when the balancer was built or while earlier
   picks were made, once all hosts are healthy every window of picks satisfies the bound - without a rebuild. *)
Theorem c06_wrr_source_shape : edf_refresh_adds_every_host = true.
Proof. exact (eq_refl true). Qed.

Theorem c06_wrr_window_after_health_flips : forall ws pre s0 obs s1 picks s2,
  Forall (fun w => 0 < w) ws ->
  edf_run (edf_of_weights ws) pre = Some s0 ->
  In s1 (edf_observe_all [s0] obs) -> edf_run s1 picks = Some s2 ->
  forall i j wi wj, nth_error ws i = Some wi -> nth_error ws j = Some wj ->
  Z.abs (count_pick i picks * wj - count_pick j picks * wi) <= wi + wj.
Proof. exact wrr_window_after_health_flips_weights. Qed.
Print Assumptions c06_wrr_window_after_health_flips.

(* queueing only the hosts that are healthy at build time is refuted: weights 1,2,5 with the weight-5 host down
   at build time: it is never picked after it recovers, and a 5-pick window already violates the bound *)
Theorem c06_queue_only_healthy_refuted :
  (forall picks s', edf_run only_healthy_start picks = Some s' -> count_pick 2 picks = 0) /\
  exists picks s', edf_run only_healthy_start picks = Some s' /\
    ~ (Z.abs (count_pick 2 picks * 2 - count_pick 1 picks * 5) <= 5 + 2).
Proof.
  split; [exact queue_only_healthy_refuted|].
  exists [1; 1; 0; 1; 1]%nat. eexists. split; [vm_compute; reflexivity|]. vm_compute. intros H; apply H; reflexivity.
Qed.
Print Assumptions c06_queue_only_healthy_refuted.

Example c06_health_flip_example :
  existsb (fun s1 => match edf_run s1 [1%nat; 2%nat; 2%nat] with Some _ => true | None => false end)
          (edf_observe_all [edf_of_weights [1; 2; 4]]
             [([false; false; true], 1%nat); ([false; false; true], 0%nat)]) = true.
Proof. vm_compute. reflexivity. Qed.
