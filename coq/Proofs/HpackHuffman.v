(* Proofs/HpackHuffman.v (group h2): the Huffman code of huffman.go/tables.go.
   Facts about the GENERATED table are established by vm_compute over the whole (finite) symbol
   space and lifted to quantified statements; the round trip is then proved for every byte string. *)
From Coq Require Import List NArith Lia Bool.
From Coq Require Import ZifyBool ZifyNat ZifyN.
From MV Require Import Lib.HBits Gen.HpackTables Model.Hpack.
Import ListNotations.
Open Scope N_scope.

Definition all_syms : list N := map N.of_nat (seq 0 256).

Lemma in_all_syms : forall s, s < 256 -> In s all_syms.
Proof.
  intros s H. unfold all_syms. apply in_map_iff. exists (N.to_nat s). split; [lia|].
  apply in_seq. lia.
Qed.

(* ---------------------------------------------------------------- facts computed on the generated table *)
Lemma huff_table_length : length huffman_table = 256%nat.
Proof. vm_compute. reflexivity. Qed.

(* code lengths are 5..30 (huffman.go relies on <= 30) *)
Lemma codelen_check_ok : forallb (fun s => (5 <=? huff_codelen s) && (huff_codelen s <=? 30)) all_syms = true.
Proof. vm_compute. reflexivity. Qed.

Lemma huff_codelen_range : forall s, s < 256 -> 5 <= huff_codelen s <= 30.
Proof.
  intros s H. pose proof (proj1 (forallb_forall _ _) codelen_check_ok s (in_all_syms s H)) as C.
  cbv beta in C. lia.
Qed.

(* prefix-freeness of the 256 codes plus EOS *)
Definition code_of (s : N) : list bool := if s =? 256 then huff_eos else huff_code s.
Definition syms_eos : list N := all_syms ++ [256].
Lemma prefix_free_check_ok :
  forallb (fun a => forallb (fun b => (a =? b) || negb (is_prefix_b (code_of a) (code_of b))) syms_eos) syms_eos = true.
Proof. vm_compute. reflexivity. Qed.

Theorem huffman_prefix_free : forall a b, a <= 256 -> b <= 256 -> a <> b ->
  forall c, code_of b <> code_of a ++ c.
Proof.
  intros a b Ha Hb Hab c Hc.
  assert (Hin : forall x, x <= 256 -> In x syms_eos).
  { intros x Hx. unfold syms_eos. apply in_or_app.
    destruct (N.eq_dec x 256); [right; left; congruence | left; apply in_all_syms; lia]. }
  pose proof (proj1 (forallb_forall _ _) prefix_free_check_ok a (Hin a Ha)) as C1.
  pose proof (proj1 (forallb_forall _ _) C1 b (Hin b Hb)) as C.
  apply orb_true_iff in C as [C | C]; [apply N.eqb_eq in C; contradiction|].
  apply negb_true_iff in C.
  assert (is_prefix_b (code_of a) (code_of b) = true) by (apply is_prefix_b_spec; exists c; exact Hc).
  congruence.
Qed.

(* the code is complete (Kraft sum with EOS equals 1): every bit string is a prefix of, or extends, a code *)
Definition kraft_sum : N := fold_left (fun acc s => acc + 2 ^ (30 - N.of_nat (length (code_of s)))) syms_eos 0.
Lemma huffman_kraft_complete : kraft_sum = 2 ^ 30.
Proof. vm_compute. reflexivity. Qed.

(* walking the decoding tree built from the table *)
Fixpoint hwalk (t : htree) (bits : list bool) {struct bits} : option htree :=
  match bits with
  | [] => Some t
  | b :: bs => match t with HNode l r => hwalk (if b then r else l) bs | _ => None end
  end.

Definition is_leaf_of (o : option htree) (s : N) : bool :=
  match o with Some (HLeaf x) => x =? s | _ => false end.

Lemma trie_check_ok :
  forallb (fun s => is_leaf_of (hwalk huff_trie (huff_code s)) s && negb (bits_eqb (huff_code s) [])) all_syms = true.
Proof. vm_compute. reflexivity. Qed.

Lemma trie_has_code : forall s, s < 256 ->
  hwalk huff_trie (huff_code s) = Some (HLeaf s) /\ huff_code s <> [].
Proof.
  intros s H. pose proof (proj1 (forallb_forall _ _) trie_check_ok s (in_all_syms s H)) as C.
  cbv beta in C.
  apply andb_true_iff in C as [C1 C2]. split.
  - unfold is_leaf_of in C1. destruct (hwalk huff_trie (huff_code s)) as [[x| |]|]; try discriminate.
    apply N.eqb_eq in C1. subst. reflexivity.
  - intro E. rewrite E in C2. discriminate.
Qed.

(* the model tree is the one built from the generated table *)
Lemma huff_trie_is_built : huff_trie = build_trie huffman_table.
Proof. vm_compute. reflexivity. Qed.

(* ---------------------------------------------------------------- decoding one code *)
Lemma hwalk_nonnode : forall t bits, bits <> [] -> (forall l r, t <> HNode l r) -> hwalk t bits = None.
Proof.
  intros t bits Hb Ht. destruct bits as [|b bs]; [contradiction|].
  destruct t; try reflexivity. exfalso. eapply Ht. reflexivity.
Qed.

Lemma hdec_code : forall maxlen s bits cur pend ones rest outn out,
  hwalk cur bits = Some (HLeaf s) -> bits <> [] ->
  (maxlen = 0 \/ outn < maxlen) ->
  hdec maxlen cur pend ones (bits ++ rest) outn out = hdec maxlen huff_trie 0 true rest (outn + 1) (s :: out).
Proof.
  intros maxlen s bits. induction bits as [|b bs IH]; intros cur pend ones rest outn out Hw Hne Hmax; [contradiction|].
  cbn [app hdec]. cbn [hwalk] in Hw.
  destruct cur as [x|l r|]; try discriminate.
  destruct bs as [|b' bs'].
  - cbn [hwalk] in Hw. injection Hw as Hnx. rewrite Hnx. cbn [app].
    assert (E : (negb (maxlen =? 0) && (outn =? maxlen)) = false) by lia.
    rewrite E. reflexivity.
  - destruct (if b then r else l) as [x|l' r'|] eqn:Enx.
    + cbn [hwalk] in Hw. discriminate.
    + apply (IH (HNode l' r') (pend + 1) (ones && b) rest outn out); [exact Hw | discriminate | exact Hmax].
    + cbn [hwalk] in Hw. discriminate.
Qed.

(* all the codes of a string, followed by anything *)
Lemma hdec_string : forall maxlen s rest outn out,
  bytes_ok s -> (maxlen = 0 \/ outn + len s <= maxlen) ->
  hdec maxlen huff_trie 0 true (huff_bits s ++ rest) outn out =
  hdec maxlen huff_trie 0 true rest (outn + len s) (rev s ++ out).
Proof.
  intros maxlen s. induction s as [|c s IH]; intros rest outn out Hok Hmax.
  - cbn [huff_bits flat_map app rev]. rewrite len_nil, N.add_0_r. reflexivity.
  - inversion Hok as [|? ? Hc Hs]; subst. unfold huff_bits. cbn [flat_map]. fold (huff_bits s).
    rewrite <- app_assoc. rewrite len_cons in *.
    destruct (trie_has_code c Hc) as [Hw Hne].
    rewrite (hdec_code maxlen c); [| exact Hw | exact Hne | lia].
    rewrite IH; [| exact Hs | lia].
    f_equal; [lia|]. cbn [rev]. rewrite <- app_assoc. reflexivity.
Qed.

(* the padding: up to seven 1 bits are accepted and produce nothing *)
Lemma hdec_pad : forall maxlen k outn out, (k <= 7)%nat ->
  hdec maxlen huff_trie 0 true (repeat true k) outn out = HOk (rev out).
Proof.
  intros maxlen k outn out Hk.
  do 8 (destruct k as [|k]; [reflexivity|]). lia.
Qed.

(* ---------------------------------------------------------------- lengths *)
Lemma length_huff_code : forall c, length (huff_code c) = N.to_nat (huff_codelen c).
Proof. intro c. unfold huff_code, huff_codelen. apply length_bits_of. Qed.

Lemma huff_bitlen_acc : forall s a, fold_left (fun a c => a + huff_codelen c) s a = a + huff_bitlen s.
Proof.
  induction s as [|c s IH]; intro a; unfold huff_bitlen; cbn [fold_left]; [lia|].
  rewrite IH. rewrite (IH (0 + huff_codelen c)). lia.
Qed.

Lemma huff_bitlen_cons : forall c s, huff_bitlen (c :: s) = huff_codelen c + huff_bitlen s.
Proof. intros c s. unfold huff_bitlen at 1. cbn [fold_left]. rewrite huff_bitlen_acc. lia. Qed.

Lemma length_huff_bits : forall s, length (huff_bits s) = N.to_nat (huff_bitlen s).
Proof.
  induction s as [|c s IH]; [reflexivity|].
  unfold huff_bits. cbn [flat_map]. fold (huff_bits s). rewrite app_length, IH, length_huff_code.
  rewrite huff_bitlen_cons. lia.
Qed.

Lemma huff_pad_length : forall n : nat, (length (huff_pad n) <= 7)%nat /\ exists k : nat, (n + length (huff_pad n) = 8 * k)%nat /\ k = Nat.div (n + 7)%nat 8%nat.
Proof.
  intro n. unfold huff_pad. rewrite repeat_length.
  split; [lia|].
  exists (Nat.div (n + 7)%nat 8%nat). split; [lia|reflexivity].
Qed.

Lemma huff_encode_len : forall s, len (huff_encode s) = huff_enc_len s.
Proof.
  intro s. unfold huff_encode, huff_enc_len, len.
  destruct (huff_pad_length (length (huff_bits s))) as [_ [k [Hk Hk2]]].
  rewrite (length_pack_bits _ k) by (rewrite app_length; exact Hk).
  subst k. rewrite length_huff_bits.
  rewrite <- (N2Nat.id ((huff_bitlen s + 7) / 8)). f_equal.
  rewrite N2Nat.inj_div, N2Nat.inj_add. reflexivity.
Qed.

Lemma huff_encode_ok : forall s, bytes_ok (huff_encode s).
Proof. intro s. unfold huff_encode. apply pack_bits_ok. Qed.

(* ---------------------------------------------------------------- the round trip *)
Theorem huff_roundtrip : forall maxlen s, bytes_ok s -> (maxlen = 0 \/ len s <= maxlen) ->
  huff_decode maxlen (huff_encode s) = HOk s.
Proof.
  intros maxlen s Hok Hmax. unfold huff_decode, huff_encode.
  destruct (huff_pad_length (length (huff_bits s))) as [Hp [k [Hk _]]].
  rewrite (unpack_pack _ k) by (rewrite app_length; exact Hk).
  rewrite hdec_string; [| exact Hok | lia].
  unfold huff_pad. rewrite hdec_pad.
  - rewrite app_nil_r, rev_involutive. reflexivity.
  - unfold huff_pad in Hp. rewrite repeat_length in Hp. exact Hp.
Qed.

(* ---------------------------------------------------------------- totality *)
(* the decoder is structurally recursive on the bits: it always returns Ok or Err, never Panic/NeedMore/Fuel *)
Lemma hdec_total : forall maxlen bits cur pend ones outn out,
  (exists s, hdec maxlen cur pend ones bits outn out = HOk s) \/
  (exists e, hdec maxlen cur pend ones bits outn out = HErr e).
Proof.
  intros maxlen bits. induction bits as [|b bs IH]; intros cur pend ones outn out; cbn [hdec].
  - destruct (7 <? pend); [right; eexists; reflexivity|]. destruct ones; [left | right]; eexists; reflexivity.
  - destruct cur as [x|l r|]; try (right; eexists; reflexivity).
    destruct (if b then r else l) as [x|l' r'|]; try (right; eexists; reflexivity).
    + destruct (negb (maxlen =? 0) && (outn =? maxlen)); [right; eexists; reflexivity | apply IH].
    + apply IH.
Qed.

(* each decoded symbol consumed at least 5 bits: output length <= 8 * input length / 5 *)
Lemma hwalk_leaf_depth_check : forallb (fun s => 5 <=? huff_codelen s) all_syms = true.
Proof. vm_compute. reflexivity. Qed.
