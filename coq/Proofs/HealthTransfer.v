From Coq Require Import List NArith Bool Lia.
From MV Require Import Lib.Interleave Model.Health Model.HealthTransfer Proofs.Health.
Import ListNotations.
Open Scope N_scope.

Definition xremaining (ts : list xthread) : list hop := concat (map xtodo ts).
Definition xfuture (c : list xthread * N) : N := apply_all (xremaining (fst c)) (snd c).
Definition xwithin (progs : list (list hop)) (ts : list xthread) : Prop :=
  Forall2 (fun t p => incl (xtodo t) p) ts progs.

Lemma xremaining_app : forall l1 l2, xremaining (l1 ++ l2) = xremaining l1 ++ xremaining l2.
Proof. intros; unfold xremaining; rewrite map_app, concat_app; auto. Qed.
Lemma xremaining_cons : forall t l, xremaining (t :: l) = xtodo t ++ xremaining l.
Proof. reflexivity. Qed.

Lemma xremaining_in_concat : forall ts progs, xwithin progs ts -> incl (xremaining ts) (concat progs).
Proof.
  unfold xwithin, xremaining. induction 1 as [|t p ts progs Htp _ IH]; cbn; intros a Ha; auto.
  apply in_app_or in Ha. apply in_or_app. destruct Ha; [left|right]; auto.
Qed.

(* under XferNone a transfer thread is only ever at XStart or XDone *)
Definition xclean (t : xthread) : Prop :=
  match t with XTransfer XStart => True | XTransfer XDone => True | XTransfer _ => False | XWriter _ => True end.

(* a step of the transfer thread that does not write leaves everything as it is; a writer step commits its head op *)
Lemma xstep_preserves : forall progs, cross_disjoint progs -> forall c k,
  xwithin progs (fst c) -> Forall xclean (fst c) ->
  xwithin progs (fst (sched_step (xstep XferNone) c k)) /\ Forall xclean (fst (sched_step (xstep XferNone) c k)) /\
  xfuture (sched_step (xstep XferNone) c k) = xfuture c.
Proof.
  intros progs Hdis [ts w] k Hw Hcl. unfold sched_step; cbn [fst snd] in *.
  destruct (nth_error ts k) as [t|] eqn:Hk; [|repeat split; auto].
  assert (Hct : xclean t) by (rewrite Forall_forall in Hcl; apply Hcl; eapply nth_error_In; eauto).
  assert (Hclu : forall t', xclean t' -> Forall xclean (upd_nth k t' ts)) by (intros; apply Forall_upd_nth; auto).
  destruct (nth_error_split_upd _ _ _ Hk) as (l1 & l2 & Ets & Hlen & Hupd).
  rewrite Hupd. subst ts. unfold xwithin in Hw.
  apply Forall2_app_inv_l in Hw. destruct Hw as (P1 & Prest & HW1 & HW2 & Eprogs).
  inversion HW2 as [|? p ? P2 Htp HW3]; subst.
  assert (Hsame : forall t' w', xtodo t' = xtodo t -> w' = w ->
     xwithin (P1 ++ p :: P2) (l1 ++ t' :: l2) /\ xfuture (l1 ++ t' :: l2, w') = xfuture (l1 ++ t :: l2, w)).
  { intros t' w' Et ->. split.
    - apply Forall2_app; auto. constructor; auto. rewrite Et; auto.
    - unfold xfuture; cbn [fst snd]. rewrite !xremaining_app, !xremaining_cons, Et. auto. }
  destruct t as [[|o rest]|ph].
  - cbn [xstep fst snd]. destruct (Hsame (XWriter []) w eq_refl eq_refl). repeat split; auto; try (rewrite <- Hupd; apply Hclu; exact I).
  - cbn [xstep fst snd]. split; [|split; [rewrite <- Hupd; apply Hclu; exact I|]].
    + apply Forall2_app; auto. constructor; auto. cbn [xtodo] in *. intros a Ha. apply Htp. right; auto.
    + unfold xfuture; cbn [fst snd]. rewrite !xremaining_app, !apply_all_app, !xremaining_cons. cbn [xtodo].
      rewrite !apply_all_app. f_equal.
      change (apply_all (o :: rest) (apply_all (xremaining l1) w)) with (apply_all rest (apply_op o (apply_all (xremaining l1) w))).
      f_equal. rewrite apply_all_comm_op; auto.
      intros a Ha. apply (xremaining_in_concat _ _ HW1) in Ha. apply in_concat in Ha. destruct Ha as (q & Hq & Haq).
      pose proof (fop_split _ _ _ _ Hdis) as HF. rewrite Forall_forall in HF.
      rewrite N.land_comm. apply (HF q Hq a o Haq). apply Htp. left; auto.
  - destruct ph as [|r|fs|f pr fs|]; cbn in Hct; try contradiction; cbn [xstep fst snd].
    + destruct (Hsame (XTransfer XDone) w eq_refl eq_refl). repeat split; auto; try (rewrite <- Hupd; apply Hclu; exact I).
    + destruct (Hsame (XTransfer XDone) w eq_refl eq_refl). repeat split; auto; try (rewrite <- Hupd; apply Hclu; exact I).
Qed.

Lemma xinit_within : forall ts, xwithin (map xtodo ts) ts.
Proof. unfold xwithin. induction ts; cbn; constructor; auto. apply incl_refl. Qed.

Lemma xdone_remaining : forall ts, forallb xdone ts = true -> xremaining ts = [].
Proof.
  unfold xremaining. induction ts as [|t ts IH]; cbn; auto. intros H. apply andb_prop in H. destruct H as [H1 H2].
  rewrite IH by auto. destruct t as [[|o r]|ph]; cbn in *; auto; discriminate.
Qed.

(* the transfer that does not touch health flags: every interleaving of writers and host replacements *)
Theorem xfer_none_ok : xfer_statement XferNone.
Proof.
  intros ts Hinit Hdis sched w0 Hdone. unfold xrun in *. set (c0 := (ts, w0)) in *.
  assert (H : xwithin (map xtodo ts) (fst (run (xstep XferNone) sched c0)) /\ Forall xclean (fst (run (xstep XferNone) sched c0)) /\
              xfuture (run (xstep XferNone) sched c0) = xfuture c0).
  { apply (run_invariant (xstep XferNone) (fun c => xwithin (map xtodo ts) (fst c) /\ Forall xclean (fst c) /\ xfuture c = xfuture c0)).
    - intros c k (Hw & Hc & Hf). destruct (xstep_preserves _ Hdis c k Hw Hc) as (Hw' & Hc' & Hf'). repeat split; auto. congruence.
    - repeat split; auto; [apply xinit_within|]. cbn [fst c0]. rewrite Forall_forall. intros t Ht.
      rewrite forallb_forall in Hinit. specialize (Hinit t Ht). destruct t as [l|[]]; cbn in *; auto; discriminate. }
  destruct H as (_ & _ & Hf). unfold xfuture in Hf. rewrite (xdone_remaining _ Hdone) in Hf. cbn in Hf. exact Hf.
Qed.

Theorem xfer_ok_of_mode : forall md, md = XferNone -> xfer_statement md.
Proof. intros md ->. exact xfer_none_ok. Qed.

Lemma two_disjoint_x : cross_disjoint [[HClear 1]; []].
Proof. repeat constructor. intros a b _ []. Qed.

(* read-then-OR of the whole word: the health checker clears FAILED_ACTIVE_HC between the read and the OR of a host
   replacement - the flag is back although its last writer cleared it *)
Theorem xfer_read_then_set_refuted : ~ xfer_statement XferReadThenSet.
Proof.
  intros H.
  specialize (H [XWriter [HClear 1]; XTransfer XStart] eq_refl two_disjoint_x [1; 0; 1]%nat 1 eq_refl).
  vm_compute in H. discriminate.
Qed.

Theorem xfer_per_flag_refuted : ~ xfer_statement (XferPerFlag [1; 2]).
Proof.
  intros H.
  specialize (H [XWriter [HClear 1]; XTransfer XStart] eq_refl two_disjoint_x [1; 1; 0; 1; 1; 1; 1]%nat 1 eq_refl).
  vm_compute in H. discriminate.
Qed.
