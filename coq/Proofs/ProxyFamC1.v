(* exhaustive reachability check of one part of the configuration family (vm_compute) *)
From Coq Require Import List ZArith Bool.
From MV Require Import Model.Proxy Model.ProxySpec Proofs.ProxyReach Proofs.ProxyFamily Gen.ProxyTokens.
Lemma famC1_ok : fam_check proxy_src (good_all proxy_src) (chunk 1 fam_filters2) = true.
Proof. vm_compute. reflexivity. Qed.
