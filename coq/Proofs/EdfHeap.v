From Coq Require Import List ZArith Bool Arith Lia Permutation.
From Coq Require Import ZifyBool ZifyNat.
From MV Require Import Model.EdfHeap.
Import ListNotations.
Ltac Zify.zify_post_hook ::= Z.div_mod_to_equations.
Open Scope Z_scope.

(* ---- the order ---- *)
Definition hle (x y : hentry) : Prop := hless y x = false.

Lemma hless_spec x y : hless x y = true <-> hdl x < hdl y \/ (hdl x = hdl y /\ hqt x < hqt y).
Proof. unfold hless. destruct (Z.eqb_spec (hdl x) (hdl y)); rewrite Z.ltb_lt; lia. Qed.
Lemma hle_spec x y : hle x y <-> hdl x < hdl y \/ (hdl x = hdl y /\ hqt x <= hqt y).
Proof.
  unfold hle. destruct (hless y x) eqn:E.
  - apply hless_spec in E. split; [discriminate|lia].
  - split; [intros _|reflexivity].
    assert (~ (hdl y < hdl x \/ hdl y = hdl x /\ hqt y < hqt x)) by (rewrite <- hless_spec; congruence). lia.
Qed.
Lemma hle_trans x y z : hle x y -> hle y z -> hle x z.
Proof. rewrite !hle_spec; lia. Qed.
Lemma hless_hle x y : hless x y = true -> hle x y.
Proof. rewrite hless_spec, hle_spec; lia. Qed.
Lemma hle_refl x : hle x x.
Proof. rewrite hle_spec; lia. Qed.
Lemma hle_dl x y : hle x y -> hdl x <= hdl y.
Proof. rewrite hle_spec; lia. Qed.

(* ---- arrays ---- *)
Lemma hupd_length a i x : length (hupd a i x) = length a.
Proof. revert i; induction a as [|y a IH]; intros [|i]; cbn; auto. Qed.
Lemma hget_hupd_same a i x : (i < length a)%nat -> hget (hupd a i x) i = x.
Proof. unfold hget. revert i; induction a as [|y a IH]; intros [|i] H; cbn in *; try lia; auto. apply IH; lia. Qed.
Lemma hget_hupd_other a i j x : i <> j -> hget (hupd a i x) j = hget a j.
Proof. unfold hget. revert i j; induction a as [|y a IH]; intros [|i] [|j] H; cbn; auto; try congruence. Qed.
Lemma hupd_hupd_same a i x y : hupd (hupd a i x) i y = hupd a i y.
Proof. revert i; induction a as [|z a IH]; intros [|i]; cbn; auto. f_equal; apply IH. Qed.
Lemma hupd_get_id a i : hupd a i (hget a i) = a.
Proof. unfold hget. revert i; induction a as [|z a IH]; intros [|i]; cbn; auto. f_equal; apply IH. Qed.

(* replacing cell i: multiset(hupd a i x) + a[i] = multiset(a) + x *)
Lemma hupd_perm_cons a i x : (i < length a)%nat -> Permutation (x :: a) (hget a i :: hupd a i x).
Proof.
  unfold hget. revert i; induction a as [|z a IH]; intros [|i] H; cbn in *; try lia.
  - apply perm_swap.
  - specialize (IH i ltac:(lia)).
    eapply perm_trans; [apply perm_swap|]. eapply perm_trans; [|apply perm_swap]. constructor. exact IH.
Qed.

(* swapping the values written at two different in-range positions is a permutation *)
Lemma hupd_swap_perm a i j x y : i <> j -> (i < length a)%nat -> (j < length a)%nat ->
  Permutation (hupd (hupd a i x) j y) (hupd (hupd a i y) j x).
Proof.
  intros Hne Hi Hj.
  pose proof (hupd_perm_cons (hupd a i x) j y ltac:(rewrite hupd_length; lia)) as P1.
  pose proof (hupd_perm_cons (hupd a i y) j x ltac:(rewrite hupd_length; lia)) as P2.
  rewrite hget_hupd_other in P1, P2 by exact Hne.
  pose proof (hupd_perm_cons a i x Hi) as Q1. pose proof (hupd_perm_cons a i y Hi) as Q2.
  apply (Permutation_cons_inv (a := hget a j)). apply (Permutation_cons_inv (a := hget a i)).
  (* a[i] :: a[j] :: L  ~  a[i] :: y :: hupd a i x ~ y :: x :: a ~ ... *)
  eapply perm_trans; [apply perm_skip; symmetry; exact P1|].
  eapply perm_trans; [apply perm_swap|]. eapply perm_trans; [apply perm_skip; symmetry; exact Q1|].
  eapply perm_trans; [apply perm_swap|].
  eapply perm_trans; [apply perm_skip; exact Q2|]. eapply perm_trans; [apply perm_swap|].
  apply perm_skip. exact P2.
Qed.

Definition parent (j : nat) : nat := Nat.div (j - 1) 2.

Definition HeapOrd (a : list hentry) (n : nat) : Prop :=
  forall j, (0 < j < n)%nat -> hle (hget a (parent j)) (hget a j).

(* ---- fixDown ---- *)
Definition DownInv (a : list hentry) (el : hentry) (i n : nat) : Prop :=
  (forall j, (0 < j < n)%nat -> j <> i -> parent j <> i -> hle (hget a (parent j)) (hget a j)) /\
  (forall j, (0 < j < n)%nat -> parent j = i -> (0 < i)%nat -> hle (hget a (parent i)) (hget a j)) /\
  ((0 < i)%nat -> hle (hget a (parent i)) el).

Lemma down_loop_spec : forall fuel a el i n,
  n = length a -> (i < n)%nat -> (n <= fuel + i)%nat -> DownInv a el i n ->
  let '(a', j) := down_loop fuel a el i n in
  HeapOrd (hupd a' j el) n /\ length a' = length a /\ (j < n)%nat /\
  Permutation (hupd a' j el) (hupd a i el) /\ (j = i -> a' = a).
Proof.
  induction fuel as [|fuel IH]; intros a el i n Hn Hi Hfuel Hinv; [lia|].
  cbn [down_loop]. set (c := (2 * i + 1)%nat).
  assert (Hfinish : forall (Hno : forall j, (0 < j < n)%nat -> parent j = i -> hle el (hget a j)),
             HeapOrd (hupd a i el) n).
  { intros Hno j Hj. destruct Hinv as [H1 [H2 H3]].
    destruct (Nat.eq_dec j i) as [->|Hji].
    - rewrite hget_hupd_same by lia. rewrite hget_hupd_other by (unfold parent; lia). apply H3; lia.
    - destruct (Nat.eq_dec (parent j) i) as [Hp|Hp].
      + rewrite Hp, hget_hupd_same by lia. rewrite hget_hupd_other by lia. apply Hno; assumption.
      + rewrite !hget_hupd_other by lia. apply H1; assumption. }
  destruct (Nat.ltb_spec c n) as [Hc|Hc].
  2:{ (* no children *)
      repeat split; try lia; try reflexivity.
      apply Hfinish. intros j Hj Hp. unfold parent in Hp. subst c. lia. }
  set (c' := if Nat.ltb (c + 1) n && hless (hget a (c + 1)) (hget a c) then (c + 1)%nat else c).
  assert (Hc'min : (c' = c \/ c' = c + 1)%nat /\ (c' < n)%nat /\
                   hle (hget a c') (hget a c) /\ ((c + 1 < n)%nat -> hle (hget a c') (hget a (c + 1)))).
  { subst c'. destruct (Nat.ltb_spec (c + 1) n) as [H1|H1]; cbn [andb].
    - destruct (hless (hget a (c + 1)) (hget a c)) eqn:E.
      + repeat split; [right; reflexivity|lia|apply hless_hle; exact E|intros; apply hle_refl].
      + repeat split; [left; reflexivity|lia|apply hle_refl|intros _; exact E].
    - repeat split; [left; reflexivity|lia|apply hle_refl|lia]. }
  destruct Hc'min as [Hc'eq [Hc'n [Hc'c Hc'c1]]].
  assert (Hchildren : forall j, (0 < j < n)%nat -> parent j = i -> hle (hget a c') (hget a j)).
  { intros j Hj Hp. unfold parent in Hp. assert (j = c \/ j = (c + 1)%nat) as [->| ->] by (subst c; lia).
    - exact Hc'c.
    - apply Hc'c1; lia. }
  destruct (hless (hget a c') el) eqn:Eless.
  - (* move child up, continue at c' *)
    assert (Hpc' : parent c' = i) by (unfold parent; subst c; lia).
    specialize (IH (hupd a i (hget a c')) el c' n).
    rewrite hupd_length in IH. specialize (IH Hn Hc'n ltac:(subst c; lia)).
    assert (Hinv' : DownInv (hupd a i (hget a c')) el c' n).
    { destruct Hinv as [H1 [H2 H3]]. split; [|split].
      - intros j Hj Hjc Hpjc.
        destruct (Nat.eq_dec j i) as [->|Hji].
        + rewrite hget_hupd_same by lia. rewrite hget_hupd_other by (unfold parent; lia).
          apply H2; [lia|exact Hpc'|lia].
        + destruct (Nat.eq_dec (parent j) i) as [Hp|Hp].
          * rewrite Hp, hget_hupd_same by lia. rewrite hget_hupd_other by lia. apply Hchildren; assumption.
          * rewrite !hget_hupd_other by lia. apply H1; assumption.
      - intros j Hj Hp _. rewrite Hpc', hget_hupd_same by lia.
        rewrite hget_hupd_other by (unfold parent in Hp; subst c; lia).
        replace (hget a c') with (hget a (parent j)) by (rewrite Hp; reflexivity).
        apply H1; [lia| unfold parent in Hp; subst c; lia | rewrite Hp; subst c; lia].
      - intros _. rewrite Hpc', hget_hupd_same by lia. apply hless_hle; exact Eless. }
    specialize (IH Hinv').
    destruct (down_loop fuel (hupd a i (hget a c')) el c' n) as [a' j] eqn:Eloop.
    destruct IH as [Hord [Hlen [Hj [Hperm Hsame]]]].
    repeat split; try assumption.
    + eapply perm_trans; [exact Hperm|].
      (* hupd (hupd a i a[c']) c' el  ~  hupd a i el  (whose cell c' still holds a[c']) *)
      replace (hupd a i el) with (hupd (hupd a i el) c' (hget a c')).
      * apply hupd_swap_perm; subst c; lia.
      * rewrite <- (hget_hupd_other a i c' el) by (subst c; lia). apply hupd_get_id.
    + intros ->. exfalso.
      (* j >= c' > i : the loop never returns to i *)
      assert (Hmono : forall f a0 i0, (snd (down_loop f a0 el i0 n) >= i0)%nat).
      { induction f as [|f IHf]; intros a0 i0; cbn [down_loop]; [cbn; lia|].
        destruct (Nat.ltb (2 * i0 + 1) n); [|cbn; lia].
        match goal with |- context [if hless ?x el then _ else _] => destruct (hless x el) end; [|cbn; lia].
        match goal with |- context [down_loop f ?aa el ?cc n] => specialize (IHf aa cc) end.
        destruct (Nat.ltb (2 * i0 + 1 + 1) n && hless (hget a0 (2 * i0 + 1 + 1)) (hget a0 (2 * i0 + 1))); lia. }
      specialize (Hmono fuel (hupd a i (hget a c')) c'). rewrite Eloop in Hmono. cbn in Hmono. subst c; lia.
  - (* break: el fits here *)
    repeat split; try lia; try reflexivity.
    apply Hfinish. intros j Hj Hp. eapply hle_trans; [|apply Hchildren; assumption]. exact Eless.
Qed.

(* ---- fixUp ---- *)
Definition UpInv (a : list hentry) (el : hentry) (i n : nat) : Prop :=
  (forall j, (0 < j < n)%nat -> j <> i -> parent j <> i -> hle (hget a (parent j)) (hget a j)) /\
  (forall j, (0 < j < n)%nat -> parent j = i ->
     hle el (hget a j) /\ ((0 < i)%nat -> hle (hget a (parent i)) (hget a j))).

Lemma up_loop_le : forall fuel a el i, (snd (up_loop fuel a el i) <= i)%nat.
Proof.
  induction fuel as [|f IH]; intros a el i; cbn [up_loop]; [cbn; lia|].
  destruct i as [|i]; [cbn; lia|].
  destruct (hless el (hget a (Nat.div (S i - 1) 2))); [|cbn; lia].
  specialize (IH (hupd a (S i) (hget a (Nat.div (S i - 1) 2))) el (Nat.div (S i - 1) 2)). lia.
Qed.

Lemma up_loop_spec : forall fuel a el i n,
  n = length a -> (i < n)%nat -> (i < fuel)%nat -> UpInv a el i n ->
  let '(a', j) := up_loop fuel a el i in
  HeapOrd (hupd a' j el) n /\ length a' = length a /\ (j < n)%nat /\
  Permutation (hupd a' j el) (hupd a i el) /\ (j = i -> a' = a).
Proof.
  induction fuel as [|fuel IH]; intros a el i n Hn Hi Hfuel Hinv; [lia|].
  cbn [up_loop].
  assert (Hfinish : ((0 < i)%nat -> hle (hget a (parent i)) el) -> HeapOrd (hupd a i el) n).
  { intros Hp j Hj. destruct Hinv as [H1 H2].
    destruct (Nat.eq_dec j i) as [->|Hji].
    - rewrite hget_hupd_same by lia. rewrite hget_hupd_other by (unfold parent; lia). apply Hp; lia.
    - destruct (Nat.eq_dec (parent j) i) as [Hpj|Hpj].
      + rewrite Hpj, hget_hupd_same by lia. rewrite hget_hupd_other by lia. apply H2; assumption.
      + rewrite !hget_hupd_other by lia. apply H1; assumption. }
  destruct i as [|i0].
  { repeat split; try lia; try reflexivity. apply Hfinish; lia. }
  set (i := S i0) in *. fold (parent i). set (p := parent i).
  assert (Hpi : (p < i)%nat) by (subst p; unfold parent; lia).
  destruct (hless el (hget a p)) eqn:Eless.
  - specialize (IH (hupd a i (hget a p)) el p n). rewrite hupd_length in IH.
    specialize (IH Hn ltac:(lia) ltac:(lia)).
    assert (Hinv' : UpInv (hupd a i (hget a p)) el p n).
    { destruct Hinv as [H1 H2]. split.
      - intros j Hj Hjp Hpjp.
        destruct (Nat.eq_dec j i) as [Hji|Hji]; [subst j; fold p in Hpjp; congruence|].
        destruct (Nat.eq_dec (parent j) i) as [Hpj|Hpj].
        + rewrite Hpj, hget_hupd_same by lia. rewrite hget_hupd_other by lia.
          apply H2; [lia|exact Hpj|lia].
        + rewrite !hget_hupd_other by lia. apply H1; assumption.
      - intros j Hj Hpj.
        assert (Hedge_p : (0 < p)%nat -> hle (hget a (parent p)) (hget a p)).
        { intros Hp0. apply H1; [lia|lia|unfold parent; lia]. }
        destruct (Nat.eq_dec j i) as [->|Hji].
        + rewrite hget_hupd_same by lia. split; [apply hless_hle; exact Eless|].
          intros Hp0. rewrite hget_hupd_other by (unfold parent; lia). apply Hedge_p; exact Hp0.
        + rewrite hget_hupd_other by lia.
          assert (Hpj' : hle (hget a p) (hget a j)).
          { rewrite <- Hpj. apply H1; [lia|exact Hji|rewrite Hpj; lia]. }
          split; [eapply hle_trans; [apply hless_hle; exact Eless|exact Hpj']|].
          intros Hp0. rewrite hget_hupd_other by (unfold parent; lia).
          eapply hle_trans; [apply Hedge_p; exact Hp0|exact Hpj']. }
    specialize (IH Hinv').
    pose proof (up_loop_le fuel (hupd a i (hget a p)) el p) as Hle.
    destruct (up_loop fuel (hupd a i (hget a p)) el p) as [a' j] eqn:Eloop. cbn [snd] in Hle.
    destruct IH as [Hord [Hlen [Hj [Hperm Hsame]]]].
    repeat split; try assumption.
    + eapply perm_trans; [exact Hperm|].
      replace (hupd a i el) with (hupd (hupd a i el) p (hget a p)).
      * apply hupd_swap_perm; lia.
      * rewrite <- (hget_hupd_other a i p el) by lia. apply hupd_get_id.
    + intros ->. lia.
  - repeat split; try lia; try reflexivity. apply Hfinish. intros _. exact Eless.
Qed.

(* ---- Fix(0) after the root was overwritten, and Push ---- *)
Lemma heap_fix0_spec a : (0 < length a)%nat ->
  (forall j, (0 < j < length a)%nat -> parent j <> 0%nat -> hle (hget a (parent j)) (hget a j)) ->
  HeapOrd (heap_fix a 0) (length a) /\ Permutation (heap_fix a 0) a /\ length (heap_fix a 0) = length a.
Proof.
  intros Hlen Hedges. unfold heap_fix, fix_down.
  pose proof (down_loop_spec (length a) a (hget a 0) 0 (length a) eq_refl Hlen ltac:(lia)) as Hd.
  assert (Hinv : DownInv a (hget a 0) 0 (length a)).
  { split; [|split]; [|intros; lia|intros; lia]. intros j Hj _ Hp. apply Hedges; assumption. }
  specialize (Hd Hinv). destruct (down_loop (length a) a (hget a 0) 0 (length a)) as [a' j].
  destruct Hd as [Hord [Hl [Hj [Hperm Hsame]]]]. rewrite hupd_get_id in Hperm.
  destruct (Nat.eqb_spec j 0) as [->|Hne].
  - rewrite (Hsame eq_refl) in *. cbn. rewrite hupd_get_id in Hord. repeat split; auto.
  - repeat split; [exact Hord|exact Hperm|rewrite hupd_length; exact Hl].
Qed.

Lemma hget_app1 a b j : (j < length a)%nat -> hget (a ++ b) j = hget a j.
Proof. intros; unfold hget; apply app_nth1; assumption. Qed.
Lemma hget_app_last a e : hget (a ++ [e]) (length a) = e.
Proof. unfold hget. rewrite app_nth2 by lia. rewrite Nat.sub_diag. reflexivity. Qed.

Lemma heap_push_spec a e : HeapOrd a (length a) ->
  HeapOrd (heap_push a e) (S (length a)) /\ Permutation (heap_push a e) (a ++ [e]) /\
  length (heap_push a e) = S (length a).
Proof.
  intros Hord. unfold heap_push, fix_up. rewrite hget_app_last.
  assert (Hl : length (a ++ [e]) = S (length a)) by (rewrite app_length; cbn; lia).
  pose proof (up_loop_spec (S (length a)) (a ++ [e]) e (length a) (S (length a)) (eq_sym Hl) ltac:(lia) ltac:(lia)) as Hu.
  assert (Hinv : UpInv (a ++ [e]) e (length a) (S (length a))).
  { split.
    - intros j Hj Hji Hp. rewrite !hget_app1 by (unfold parent; lia). apply Hord; lia.
    - intros j Hj Hp. unfold parent in Hp. lia. }
  specialize (Hu Hinv). destruct (up_loop (S (length a)) (a ++ [e]) e (length a)) as [a' j].
  destruct Hu as [Ho [Hl' [Hj [Hperm Hsame]]]].
  assert (Hid : hupd (a ++ [e]) (length a) e = a ++ [e]).
  { rewrite <- (hget_app_last a e) at 2. apply hupd_get_id. }
  rewrite Hid in Hperm.
  destruct (Nat.eqb_spec j (length a)) as [->|Hne]; cbn [fst].
  - rewrite (Hsame eq_refl) in Ho. rewrite Hid in Ho. repeat split; auto.
  - repeat split; [exact Ho|exact Hperm|rewrite hupd_length; lia].
Qed.

Lemma root_min a n : HeapOrd a n -> forall j, (j < n)%nat -> hle (hget a 0) (hget a j).
Proof.
  intros Hord j. induction j as [j IH] using lt_wf_ind. intros Hj.
  destruct j as [|j]; [apply hle_refl|].
  eapply hle_trans; [apply (IH (parent (S j))); unfold parent; lia|]. apply Hord; lia.
Qed.

(* ---- the scheduler on the heap refines Model.Edf (the abstract `next`) ---- *)
From MV Require Import Model.Edf Proofs.Edf.

Definition tag1 (i : nat) (e : entry) : hentry := {| hid := i; hper := per e; hdl := dl e; hqt := qt e |}.
Fixpoint tag_from (k : nat) (l : list entry) : list hentry :=
  match l with [] => [] | e :: l' => tag1 k e :: tag_from (S k) l' end.
Definition tag (s : edf) : list hentry := tag_from 0 (es s).

Lemma tag_from_length k l : length (tag_from k l) = length l.
Proof. revert k; induction l; intros; cbn; auto. Qed.
Lemma tag_from_nth k l i e : nth_error l i = Some e -> nth_error (tag_from k l) i = Some (tag1 (k + i) e).
Proof.
  revert k i; induction l as [|x l IH]; intros k [|i] H; cbn in *; try discriminate.
  - inversion H; subst. rewrite Nat.add_0_r. reflexivity.
  - rewrite (IH (S k) i H). f_equal. f_equal. lia.
Qed.
Lemma tag_from_in k l h : In h (tag_from k l) ->
  exists i e, nth_error l i = Some e /\ h = tag1 (k + i) e.
Proof.
  revert k; induction l as [|x l IH]; intros k H; cbn in H; [destruct H|].
  destruct H as [<-|H].
  - exists 0%nat, x. split; [reflexivity|]. rewrite Nat.add_0_r; reflexivity.
  - destruct (IH _ H) as [i [e [Hn ->]]]. exists (S i), e. split; [exact Hn|]. f_equal. lia.
Qed.
Lemma tag_from_app k l1 l2 : tag_from k (l1 ++ l2) = tag_from k l1 ++ tag_from (k + length l1) l2.
Proof.
  revert k; induction l1 as [|x l1 IH]; intros k; cbn.
  - rewrite Nat.add_0_r; reflexivity.
  - rewrite IH. do 3 f_equal. lia.
Qed.
Lemma tag_from_upd k l i x : tag_from k (upd l i x) = hupd (tag_from k l) i (tag1 (k + i) x).
Proof.
  revert k i; induction l as [|y l IH]; intros k [|i]; cbn; auto.
  - rewrite Nat.add_0_r; reflexivity.
  - rewrite IH. do 3 f_equal. lia.
Qed.
Lemma hget_nth_error a i h : nth_error a i = Some h -> hget a i = h.
Proof. intros H. unfold hget. apply nth_error_nth; exact H. Qed.

Definition R (h : hsched) (s : edf) : Prop :=
  hnow h = now s /\ hclock h = clock s /\ Permutation (harr h) (tag s) /\ hcount h = length (es s).
Definition HInv (h : hsched) : Prop := HeapOrd (harr h) (length (harr h)).

Lemma R_init : R hs_init edf_init /\ HInv hs_init.
Proof. split; [repeat split; constructor|]. intros j Hj. cbn in Hj. lia. Qed.

Lemma hs_add_refines h s p : HInv h -> R h s -> R (hs_add h p) (edf_add s p) /\ HInv (hs_add h p).
Proof.
  intros Hinv [Hnow [Hclk [Hperm Hcnt]]].
  set (e := {| hid := hcount h; hper := p; hdl := hnow h + p; hqt := hclock h + 1 |}).
  destruct (heap_push_spec (harr h) e Hinv) as [Ho [Hp Hl]].
  split.
  - unfold R, hs_add, edf_add; cbn [hnow hclock harr hcount now clock es]. fold e.
    repeat split; try congruence.
    + eapply perm_trans; [exact Hp|]. unfold tag; cbn [es]. rewrite tag_from_app. cbn [tag_from].
      apply Permutation_app; [exact Hperm|]. unfold e, tag1; cbn. rewrite Hnow, Hclk, Hcnt. reflexivity.
    + rewrite app_length; cbn. lia.
  - unfold HInv, hs_add; cbn [harr]. fold e. rewrite Hl. exact Ho.
Qed.

Lemma in_tag_nth s h : In h (tag s) -> exists e, nth_error (es s) (hid h) = Some e /\ h = tag1 (hid h) e.
Proof.
  intros H. apply tag_from_in in H as [i [e [Hn ->]]]. cbn. exists e. split; [exact Hn|reflexivity].
Qed.

Theorem hs_next_refines h s i h' : HInv h -> R h s -> hs_next h = Some (i, h') ->
  exists s', edf_pick s i = Some s' /\ R h' s' /\ HInv h'.
Proof.
  intros Hinv [Hnow [Hclk [Hperm Hcnt]]] Hnext. unfold hs_next in Hnext.
  destruct (harr h) as [|e rest] eqn:Harr; [discriminate|]. inversion Hnext; subst i h'; clear Hnext.
  assert (Hin : In e (tag s)) by (eapply Permutation_in; [exact Hperm|left; reflexivity]).
  destruct (in_tag_nth s e Hin) as [e0 [Hn He]].
  (* the root is deadline-minimal among all entries *)
  assert (Hmin : dl_minimal e0 (es s) = true).
  { apply dl_minimal_spec. rewrite Forall_forall. intros e1 He1.
    apply In_nth_error in He1 as [k Hk].
    pose proof (tag_from_nth 0 (es s) k e1 Hk) as Ht. cbn [Nat.add] in Ht.
    assert (Hin1 : In (tag1 k e1) (e :: rest)).
    { eapply Permutation_in; [symmetry; exact Hperm|]. eapply nth_error_In; exact Ht. }
    apply In_nth_error in Hin1 as [j Hj].
    assert (Hjl : (j < length (e :: rest))%nat) by (apply nth_error_Some; congruence).
    unfold HInv in Hinv. rewrite Harr in Hinv.
    pose proof (root_min _ _ Hinv j Hjl) as Hle. rewrite (hget_nth_error _ _ _ Hj) in Hle.
    apply hle_dl in Hle. cbn in Hle. rewrite He in Hle. cbn in Hle. exact Hle. }
  unfold edf_pick. rewrite Hn, Hmin. eexists; split; [reflexivity|].
  set (e' := {| hid := hid e; hper := hper e; hdl := hdl e + hper e; hqt := hclock h + 1 |}).
  assert (Hlen : (0 < length (hupd (e :: rest) 0 e'))%nat) by (cbn; lia).
  destruct (heap_fix0_spec (hupd (e :: rest) 0 e') Hlen) as [Ho [Hp Hl]].
  { intros j Hj Hpj. rewrite hupd_length in Hj. rewrite !hget_hupd_other by (unfold parent in *; lia).
    unfold HInv in Hinv. rewrite Harr in Hinv. apply Hinv. exact Hj. }
  split.
  - unfold R; cbn [hnow hclock harr hcount now clock es].
    assert (Hdl : hdl e = dl e0) by (rewrite He; reflexivity).
    assert (Hper : hper e = per e0) by (rewrite He; reflexivity).
    repeat split; try congruence.
    + fold e'. eapply perm_trans; [exact Hp|]. cbn [hupd].
      unfold tag; cbn [es]. rewrite tag_from_upd. cbn [Nat.add].
      assert (He' : tag1 (hid e) {| per := per e0; dl := dl e0 + per e0; qt := clock s + 1 |} = e').
      { unfold e', tag1; cbn. rewrite Hdl, Hper, Hclk. reflexivity. }
      rewrite He'.
      (* (e' :: rest) ~ hupd (tag s) (hid e) e' *)
      pose proof (tag_from_nth 0 (es s) (hid e) e0 Hn) as Ht. cbn [Nat.add] in Ht. rewrite <- He in Ht.
      assert (Hil : (hid e < length (tag_from 0 (es s)))%nat) by (apply nth_error_Some; congruence).
      pose proof (hupd_perm_cons (tag_from 0 (es s)) (hid e) e' Hil) as Hq.
      rewrite (hget_nth_error _ _ _ Ht) in Hq.
      apply (Permutation_cons_inv (a := e)).
      eapply perm_trans; [apply perm_swap|]. eapply perm_trans; [apply perm_skip; exact Hperm|]. exact Hq.
    + rewrite upd_length. exact Hcnt.
  - unfold HInv; cbn [harr]. fold e'. cbn [hupd] in *. rewrite Hl. exact Ho.
Qed.

(* every run of the heap scheduler is a run of the abstract scheduler *)
Lemma hs_run_refines n : forall h s, HInv h -> R h s ->
  exists s', edf_run s (map fst (hs_run h n)) = Some s'.
Proof.
  induction n as [|n IH]; intros h s Hinv HR; cbn [hs_run].
  - eexists; reflexivity.
  - destruct (hs_next h) as [[i h']|] eqn:Hn; [|eexists; reflexivity].
    destruct (hs_next_refines h s i h' Hinv HR Hn) as [s1 [Hp [HR' Hinv']]].
    cbn [map fst edf_run]. rewrite Hp. apply IH with (h := h'); assumption.
Qed.

Lemma hs_of_periods_refines ps : forall h s, HInv h -> R h s ->
  R (fold_left hs_add ps h) (fold_left edf_add ps s) /\ HInv (fold_left hs_add ps h).
Proof.
  induction ps as [|p ps IH]; intros h s Hinv HR; cbn [fold_left]; [split; assumption|].
  destruct (hs_add_refines h s p Hinv HR) as [HR' Hinv']. apply IH; assumption.
Qed.

Theorem heap_scheduler_refines ps n :
  exists s', edf_run (fold_left edf_add ps edf_init) (map fst (hs_run (hs_of_periods ps) n)) = Some s'.
Proof.
  destruct R_init as [HR Hinv].
  destruct (hs_of_periods_refines ps hs_init edf_init Hinv HR) as [HR' Hinv'].
  apply (hs_run_refines n (hs_of_periods ps)); assumption.
Qed.

(* in weight form, matching Proofs.Edf.edf_window_weights *)
Lemma fold_add_map {A} (f : A -> Z) ws : forall s,
  fold_left edf_add (map f ws) s = fold_left (fun s w => edf_add s (f w)) ws s.
Proof. induction ws as [|w ws IH]; intros s; cbn; auto. Qed.

Theorem heap_scheduler_refines_weights ws n :
  exists s', edf_run (edf_of_weights ws) (map fst (hs_run (hs_of_weights ws) n)) = Some s'.
Proof.
  unfold hs_of_weights, edf_of_weights.
  replace (prodz ws) with (prod_weights ws) by reflexivity.
  rewrite <- fold_add_map. apply heap_scheduler_refines.
Qed.

Lemma edf_run_app p1 : forall s p2 s', edf_run s (p1 ++ p2) = Some s' ->
  exists s0, edf_run s p1 = Some s0 /\ edf_run s0 p2 = Some s'.
Proof.
  induction p1 as [|i p1 IH]; intros s p2 s' H; cbn [app edf_run] in *.
  - eexists; split; [reflexivity|exact H].
  - destruct (edf_pick s i) as [s1|]; [|discriminate]. apply IH; exact H.
Qed.

(* The window bound for the sequences the Go heap scheduler itself produces:
   any window start a, any window length (the tail after a of a run of length a+n). *)
Theorem heap_scheduler_window ws a n : Forall (fun w => 0 < w) ws ->
  let seq := map fst (hs_run (hs_of_weights ws) (a + n)) in
  let window := skipn a seq in
  forall i j wi wj, nth_error ws i = Some wi -> nth_error ws j = Some wj ->
  Z.abs (count_pick i window * wj - count_pick j window * wi) <= wi + wj.
Proof.
  intros Hpos seq window i j wi wj Hi Hj.
  destruct (heap_scheduler_refines_weights ws (a + n)) as [s' Hrun]. fold seq in Hrun.
  rewrite <- (firstn_skipn a seq) in Hrun. apply edf_run_app in Hrun as [s0 [H1 H2]].
  eapply edf_window_weights; eauto.
Qed.
