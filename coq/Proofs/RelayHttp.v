(* Proofs about Model/RelayHttp.v (C01, HTTP/1 header fields and body).  Nothing here depends on Gen/*.v. *)
From Coq Require Import List NArith Bool String Ascii.
From MV Require Import Model.RelayHttp.
Import ListNotations.
Open Scope string_scope.
Open Scope list_scope.

Lemma named_app n a b : named n (a ++ b) = named n a ++ named n b.
Proof. apply filter_app. Qed.

Lemma named_one_other n m v : n <> m -> named n (one m v) = [].
Proof.
  intros H. destruct v as [v|]; cbn; [|reflexivity]. destruct (String.eqb m n) eqn:E; [|reflexivity].
  apply String.eqb_eq in E. congruence.
Qed.
Lemma named_one_same n v : named n (one n v) = one n v.
Proof. destruct v as [v|]; cbn; [|reflexivity]. now rewrite String.eqb_refl. Qed.

Lemma named_single_other n m (v : list N) : m <> n -> named n [(m, v)] = [].
Proof.
  intros H. unfold named. cbn [filter fst]. destruct (String.eqb m n) eqn:E; [apply String.eqb_eq in E; congruence|reflexivity].
Qed.
Lemma named_single_same n (v : list N) : named n [(n, v)] = [(n, v)].
Proof. unfold named. cbn [filter fst]. now rewrite String.eqb_refl. Qed.

(* filtering by a predicate that keeps every field named n does not change the fields named n *)
Lemma named_filter n (P : field -> bool) fs :
  (forall f, fst f = n -> P f = true) -> named n (filter P fs) = named n fs.
Proof.
  intros H. unfold named. induction fs as [|f fs IH]; cbn; [reflexivity|].
  destruct (String.eqb (fst f) n) eqn:E.
  - assert (Pf : P f = true) by (apply H; now apply String.eqb_eq). rewrite Pf. cbn. rewrite E. now rewrite IH.
  - destruct (P f); cbn; [rewrite E|]; exact IH.
Qed.

Lemma named_idem n fs : named n (named n fs) = named n fs.
Proof.
  unfold named. induction fs as [|f fs IH]; cbn; [reflexivity|].
  destruct (String.eqb (fst f) n) eqn:E; cbn; [rewrite E; now rewrite IH|exact IH].
Qed.

Lemma named_named_other n m fs : n <> m -> named n (named m fs) = [].
Proof.
  intros H. unfold named. induction fs as [|f fs IH]; cbn; [reflexivity|].
  destruct (String.eqb (fst f) m) eqn:E; cbn; [|exact IH].
  apply String.eqb_eq in E. destruct (String.eqb (fst f) n) eqn:E2; [apply String.eqb_eq in E2; congruence|exact IH].
Qed.

Lemma existsb_eqb_false n ns : ~ In n ns -> existsb (String.eqb n) ns = false.
Proof.
  induction ns as [|m ns IH]; cbn; intros H; [reflexivity|].
  destruct (String.eqb n m) eqn:E; [apply String.eqb_eq in E; subst; exfalso; apply H; now left|].
  apply IH. intros Hin; apply H; now right.
Qed.

Lemma named_others n ns fs : ~ In n ns -> named n (others ns fs) = named n fs.
Proof. intros H. apply named_filter. intros f <-. now rewrite (existsb_eqb_false _ _ H). Qed.

Lemma named_others_in n ns fs : In n ns -> named n (others ns fs) = [].
Proof.
  intros H. unfold named, others. induction fs as [|f fs IH]; cbn; [reflexivity|].
  destruct (existsb (String.eqb (fst f)) ns) eqn:E; cbn; [exact IH|].
  destruct (String.eqb (fst f) n) eqn:E2; [|exact IH].
  apply String.eqb_eq in E2. exfalso. assert (X : existsb (String.eqb (fst f)) ns = true).
  { apply existsb_exists. exists n. split; [exact H|]. rewrite E2. apply String.eqb_refl. }
  congruence.
Qed.

Lemma named_drop_close n fs : n <> "connection" -> named n (drop_close fs) = named n fs.
Proof.
  intros H. apply named_filter. intros f <-.
  destruct (String.eqb (fst f) "connection") eqn:E; [apply String.eqb_eq in E; congruence|reflexivity].
Qed.

Ltac notin H := let X := fresh in intros X; apply H; cbn; tauto.

(* ------------------------------------------------------------------ request *)
Lemma fwd_req_generic w mp q n : ~ In n req_exceptions ->
  named n (q_fields (fwd_req w mp q)) = named n (q_fields q).
Proof.
  intros H. unfold fwd_req. cbn [q_fields].
  assert (Hua : n <> "user-agent") by (intros ->; apply H; cbn; tauto).
  assert (Hh : n <> "host") by (intros ->; apply H; cbn; tauto).
  assert (Hct : n <> "content-type") by (intros ->; apply H; cbn; tauto).
  assert (Hc : n <> "connection") by (intros ->; apply H; cbn; tauto).
  assert (He : n <> "expect") by (intros ->; apply H; cbn; tauto).
  rewrite !named_app, !named_one_other by congruence. cbn [app].
  assert (G0 : named n (drop_close (others req_special (q_fields q))) = named n (q_fields q)).
  { rewrite named_drop_close by exact Hc. apply named_others. unfold req_special. cbn. intuition congruence. }
  set (g0 := drop_close (others req_special (q_fields q))) in *.
  assert (G1 : forall g, named n g = named n (q_fields q) ->
               named n (match named "expect" g with
                        | (_, v) :: _ => if beqb v v_100 then others ["expect"] g else g
                        | [] => g end) = named n (q_fields q)).
  { intros g Hg. destruct (named "expect" g) as [|[m v] r]; [exact Hg|]. destruct (beqb v v_100); [|exact Hg].
    rewrite named_others; [exact Hg|]. cbn. intuition congruence. }
  specialize (G1 g0 G0).
  destruct (conn_scan (q_fields q) false); [|exact G1].
  rewrite named_others; [exact G1|]. cbn. intuition congruence.
Qed.

Lemma fwd_req_method w mp q : q_method (fwd_req w mp q) = q_method q.
Proof. reflexivity. Qed.

Lemma fwd_req_body w mp q : no_multipart_preparse w = true -> q_body (fwd_req w mp q) = q_body q.
Proof. intros H. unfold fwd_req. cbn [q_body]. now rewrite H. Qed.

(* the single-valued fields: what arrives is the last occurrence (if it is non-empty) *)
Lemma generic_no_special w mp q n : In n req_special ->
  named n (q_fields (fwd_req w mp q)) =
  named n (one "user-agent" (nonempty (last_value "user-agent" (q_fields q))) ++
           one "host" (option_map lowerb (last_value "host" (q_fields q))) ++
           one "content-type" (match nonempty (last_value "content-type" (q_fields q)) with
                               | Some v => Some v
                               | None => if req_no_default_ct w || ignore_body (q_method q) then None else Some default_req_ct
                               end)).
Proof.
  intros H. unfold fwd_req. cbn [q_fields]. rewrite !named_app.
  assert (Z : forall g, named n g = [] ->
     named n (if conn_scan (q_fields q) false then others ["connection"] g else g) = []).
  { intros g Hg. destruct (conn_scan (q_fields q) false); [|exact Hg].
    rewrite named_others; [exact Hg|]. unfold req_special in H. cbn in *. intuition congruence. }
  assert (G0 : named n (drop_close (others req_special (q_fields q))) = []).
  { rewrite named_drop_close; [now apply named_others_in|]. unfold req_special in H. cbn in H. intuition congruence. }
  set (g0 := drop_close (others req_special (q_fields q))) in *.
  assert (G1 : named n (match named "expect" g0 with
                        | (_, v) :: _ => if beqb v v_100 then others ["expect"] g0 else g0
                        | [] => g0 end) = []).
  { destruct (named "expect" g0) as [|[m v] r]; [exact G0|]. destruct (beqb v v_100); [|exact G0].
    rewrite named_others; [exact G0|]. unfold req_special in H. cbn in *. intuition congruence. }
  rewrite (Z _ G1). now rewrite !app_nil_r, <- !named_app.
Qed.

(* ------------------------------------------------------------------ response *)
Lemma fwd_resp_generic w head closing now p n : ~ In n resp_exceptions ->
  named n (p_fields (fwd_resp w head closing now p)) = named n (p_fields p).
Proof.
  intros H. unfold fwd_resp. cbn [p_fields].
  assert (Hs : n <> "server") by (intros ->; apply H; cbn; tauto).
  assert (Hct : n <> "content-type") by (intros ->; apply H; cbn; tauto).
  assert (Hce : n <> "content-encoding") by (intros ->; apply H; cbn; tauto).
  assert (Hc : n <> "connection") by (intros ->; apply H; cbn; tauto).
  assert (Hd : n <> "date") by (intros ->; apply H; cbn; tauto).
  rewrite !named_app, !named_one_other by congruence.
  assert (D : named n [("date", now)] = []).
  { apply named_single_other. congruence. }
  rewrite D. cbn [app].
  assert (C : named n (if conn_scan (p_fields p) false || p_close_delim p || closing then [("connection", v_close)] else []) = []).
  { destruct (conn_scan (p_fields p) false || p_close_delim p || closing); [|reflexivity].
    apply named_single_other. congruence. }
  rewrite C, app_nil_r.
  destruct (String.eqb n "set-cookie") eqn:Esc.
  - (* set-cookie: taken out of the generic list, appended in order *)
    apply String.eqb_eq in Esc. subst n.
    assert (G : forall b : bool, named "set-cookie" (if b then others ["connection"] (drop_close (others resp_special (p_fields p)))
                                          else drop_close (others resp_special (p_fields p))) = []).
    { intros b. destruct b.
      - rewrite named_others by (cbn; intuition congruence). rewrite named_drop_close by congruence.
        apply named_others_in. unfold resp_special. cbn. tauto.
      - rewrite named_drop_close by congruence. apply named_others_in. unfold resp_special. cbn. tauto. }
    rewrite G. cbn [app]. apply named_idem.
  - assert (Nsc : n <> "set-cookie") by (intros ->; rewrite String.eqb_refl in Esc; discriminate).
    assert (S : named n (named "set-cookie" (p_fields p)) = []) by (now apply named_named_other).
    rewrite S, app_nil_r.
    assert (G0 : named n (drop_close (others resp_special (p_fields p))) = named n (p_fields p)).
    { rewrite named_drop_close by exact Hc. apply named_others. unfold resp_special. cbn. intuition congruence. }
    destruct (closing && negb (conn_scan (p_fields p) false || p_close_delim p)); [|exact G0].
    rewrite named_others; [exact G0|]. cbn. intuition congruence.
Qed.

Lemma fwd_resp_body w head closing now p :
  p_body (fwd_resp w head closing now p) = if head then [] else p_body p.
Proof. reflexivity. Qed.
Lemma fwd_resp_status w head closing now p : p_status (fwd_resp w head closing now p) = p_status p.
Proof. reflexivity. Qed.

(* the Date field that arrives is the proxy's clock *)
Lemma fwd_resp_date w head closing now p :
  named "date" (p_fields (fwd_resp w head closing now p)) = [("date", now)].
Proof.
  unfold fwd_resp. cbn [p_fields]. rewrite !named_app, !named_one_other by discriminate.
  assert (G : forall b : bool, named "date" (if b then others ["connection"] (drop_close (others resp_special (p_fields p)))
                                       else drop_close (others resp_special (p_fields p))) = []).
  { intros b. destruct b.
    - rewrite named_others by (cbn; intuition congruence). rewrite named_drop_close by congruence.
      apply named_others_in. unfold resp_special. cbn. tauto.
    - rewrite named_drop_close by congruence. apply named_others_in. unfold resp_special. cbn. tauto. }
  rewrite G.
  assert (S : named "date" (named "set-cookie" (p_fields p)) = []) by (apply named_named_other; discriminate).
  rewrite S.
  destruct (conn_scan (p_fields p) false || p_close_delim p || closing);
    [rewrite (named_single_other "date" "connection") by discriminate|]; cbn [app]; rewrite ?app_nil_r; apply named_single_same.
Qed.

(* "the origin's Date arrives unchanged" is false *)
Lemma date_statement_refuted :
  ~ (forall w head closing now p, named "date" (p_fields (fwd_resp w head closing now p)) = named "date" (p_fields p)).
Proof.
  intros H. specialize (H hsw_verified false false [50%N] (mkResp 200 [("date", [49%N])] [] 0 false)).
  rewrite fwd_resp_date in H. cbn in H. discriminate H.
Qed.

(* before the repairs: a Content-Type appears from nowhere; the body of a multipart request is whatever fasthttp re-serialises *)
Lemma old_request_content_type_invented :
  named "content-type" (q_fields (fwd_req hsw_old (fun b => b) (mkReq "POST" [("host", [104%N])] [1%N]))) =
  [("content-type", default_req_ct)].
Proof. vm_compute. reflexivity. Qed.
Lemma old_response_content_type_invented :
  named "content-type" (p_fields (fwd_resp hsw_old false false [] (mkResp 200 [] [1%N] 0 false))) =
  [("content-type", default_resp_ct)].
Proof. vm_compute. reflexivity. Qed.
Lemma old_body_statement_refuted :
  ~ (forall mp q, q_body (fwd_req hsw_old mp q) = q_body q).
Proof.
  intros H. specialize (H (fun _ => []) (mkReq "POST" [("content-type", bytes_of "multipart/form-data; boundary=x")] [1%N])).
  vm_compute in H. discriminate H.
Qed.

Lemma single_valued_verified q n :
  named n (one "user-agent" (nonempty (last_value "user-agent" (q_fields q))) ++
           one "host" (option_map lowerb (last_value "host" (q_fields q))) ++
           one "content-type" (match nonempty (last_value "content-type" (q_fields q)) with
                               | Some v => Some v
                               | None => if req_no_default_ct hsw_verified || ignore_body (q_method q) then None else Some default_req_ct
                               end)) =
  named n (one "user-agent" (nonempty (last_value "user-agent" (q_fields q))) ++
           one "host" (option_map lowerb (last_value "host" (q_fields q))) ++
           one "content-type" (nonempty (last_value "content-type" (q_fields q)))).
Proof. cbn [req_no_default_ct hsw_verified orb]. destruct (nonempty (last_value "content-type" (q_fields q))); reflexivity. Qed.
