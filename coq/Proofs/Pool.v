(* Proofs about Model/Pool.v: the pool invariant holds after EVERY history of operations (induction on the
   op list), for both pool kinds, for the repaired code (switches = sw_fixed); the C09 theorems follow. *)
From Coq Require Import List ZArith Bool Arith Lia Permutation.
From Coq Require Import ZifyBool ZifyNat.
From RecordUpdate Require Import RecordUpdate.
From MV Require Import Model.Pool.
Import ListNotations.
Open Scope Z_scope.

(* the proofs treat the resource updates through their field lemmas: keep cbn/simpl from unfolding them *)
Arguments req_inc : simpl never.
Arguments req_dec : simpl never.
Arguments lease : simpl never.

(* ------------------------------------------------------------------------------------------------ *)
(* counting over 0..n-1 *)
Fixpoint countb (f : nat -> bool) (n : nat) : nat :=
  match n with O => O | S m => ((if f m then 1 else 0) + countb f m)%nat end.

Lemma countb_ext : forall f g n, (forall i, (i < n)%nat -> f i = g i) -> countb f n = countb g n.
Proof.
  induction n as [|n IH]; intros H; cbn [countb]; [reflexivity|].
  rewrite (H n) by lia. rewrite IH; [reflexivity|]. intros; apply H; lia.
Qed.

Lemma countb_clear : forall f g n c, (c < n)%nat -> f c = true -> g c = false ->
  (forall i, i <> c -> g i = f i) -> countb f n = S (countb g n).
Proof.
  induction n as [|n IH]; intros c Hc Hf Hg Ho; [lia|]. cbn [countb].
  destruct (Nat.eq_dec c n) as [->|Hne].
  - rewrite Hf, Hg. cbn. f_equal. apply countb_ext. intros i Hi. symmetry. apply Ho. lia.
  - rewrite (Ho n) by lia. rewrite (IH c) by (auto; lia). lia.
Qed.

Lemma countb_le : forall f n, (countb f n <= n)%nat.
Proof. induction n; cbn [countb]; [lia|]. destruct (f n); lia. Qed.

(* ------------------------------------------------------------------------------------------------ *)
(* list facts: remove1 / swap_remove / removelast *)
Lemma remove1_In : forall c l x, In x (remove1 c l) -> In x l.
Proof.
  induction l as [|y l IH]; cbn; intros x H; [tauto|].
  destruct (Nat.eqb_spec y c); [auto|]. destruct H; auto.
Qed.

Lemma remove1_NoDup : forall c l, NoDup l -> NoDup (remove1 c l).
Proof.
  induction l as [|y l IH]; cbn; intros H; [constructor|].
  inversion H; subst. destruct (Nat.eqb_spec y c); [assumption|].
  constructor; [|auto]. intros Hin. apply remove1_In in Hin. contradiction.
Qed.

Lemma remove1_spec : forall c l x, NoDup l -> (In x (remove1 c l) <-> In x l /\ x <> c).
Proof.
  induction l as [|y l IH]; cbn; intros x H; [tauto|].
  inversion H; subst. destruct (Nat.eqb_spec y c) as [->|Hne].
  - split; [intros Hx; split; [auto|intros ->; contradiction]|intros [[->|Hx] Hn]; [congruence|assumption]].
  - cbn. rewrite IH by assumption. split.
    + intros [->|[Hx Hn]]; [split; auto|split; auto].
    + intros [[->|Hx] Hn]; [left; reflexivity|right; auto].
Qed.

Lemma remove1_notin : forall c l, ~ In c l -> remove1 c l = l.
Proof.
  induction l as [|y l IH]; cbn; intros H; [reflexivity|].
  destruct (Nat.eqb_spec y c) as [->|Hne]; [tauto|]. f_equal. apply IH. tauto.
Qed.

Lemma removelast_last_perm : forall (l : list nat) d, l <> [] -> Permutation (last l d :: removelast l) l.
Proof.
  intros l d H. rewrite (app_removelast_last d H) at 3. apply Permutation_cons_append.
Qed.

Lemma swap_remove_perm : forall c l, Permutation (swap_remove c l) (remove1 c l).
Proof.
  induction l as [|y l IH]; cbn; [constructor|].
  destruct (Nat.eqb_spec y c) as [->|Hne].
  - destruct l as [|z l']; [constructor|]. apply removelast_last_perm. discriminate.
  - constructor. exact IH.
Qed.

Lemma idle_remove_perm : forall k c l, Permutation (idle_remove k c l) (remove1 c l).
Proof. intros k c l. unfold idle_remove. destruct (k_kind k); [reflexivity|apply swap_remove_perm]. Qed.

Lemma idle_remove_NoDup : forall k c l, NoDup l -> NoDup (idle_remove k c l).
Proof.
  intros k c l H. eapply Permutation_NoDup; [symmetry; apply idle_remove_perm|]. apply remove1_NoDup; assumption.
Qed.

Lemma idle_remove_spec : forall k c l x, NoDup l -> (In x (idle_remove k c l) <-> In x l /\ x <> c).
Proof.
  intros k c l x H. rewrite <- remove1_spec by assumption.
  split; intros Hx; eapply Permutation_in; try eassumption; [apply idle_remove_perm|symmetry; apply idle_remove_perm].
Qed.

Lemma idle_remove_length_notin : forall k c l, ~ In c l -> length (idle_remove k c l) = length l.
Proof.
  intros k c l H. rewrite (Permutation_length (idle_remove_perm k c l)). rewrite remove1_notin; auto.
Qed.

Lemma remove1_length_in : forall c l, In c l -> S (length (remove1 c l)) = length l.
Proof.
  induction l as [|y l IH]; cbn; intros H; [tauto|].
  destruct (Nat.eqb_spec y c) as [->|Hne]; [reflexivity|]. cbn. f_equal. apply IH. destruct H; [congruence|assumption].
Qed.

Lemma idle_remove_length_in : forall k c l, In c l -> S (length (idle_remove k c l)) = length l.
Proof.
  intros k c l H. rewrite (Permutation_length (idle_remove_perm k c l)). apply remove1_length_in; assumption.
Qed.

Lemma removelast_last_split : forall (l : list nat), l <> [] -> l = removelast l ++ [last l 0%nat].
Proof. intros. apply app_removelast_last. assumption. Qed.

Lemma NoDup_app_single : forall (l : list nat) x, NoDup (l ++ [x]) <-> NoDup l /\ ~ In x l.
Proof.
  intros l x. split.
  - intros H. apply NoDup_remove in H. rewrite app_nil_r in H. exact H.
  - intros [H1 H2]. apply NoDup_rev in H1. rewrite <- (rev_involutive (l ++ [x])). apply NoDup_rev.
    rewrite rev_app_distr. cbn. constructor; [rewrite <- in_rev; assumption|assumption].
Qed.

(* ------------------------------------------------------------------------------------------------ *)
(* the invariant *)
Definition leased (p : pool) (c : nat) : Prop :=
  exists s, (s < nstreams p)%nat /\ live p s = true /\ scli p s = c.
Definition count_open (p : pool) : nat := countb (fun c => negb (closed p c)) (nclients p).
Definition count_live (p : pool) : nat := countb (live p) (nstreams p).

Record PInv (k : cfg) (p : pool) : Prop := mkPInv {
  inv_nodup : NoDup (idle p);
  inv_idle : forall c, In c (idle p) -> (c < nclients p)%nat /\ closed p c = false /\ ~ leased p c;
  inv_nolost : forall c, (c < nclients p)%nat -> closed p c = false -> In c (idle p) \/ leased p c;
  inv_excl : forall s1 s2, (s1 < nstreams p)%nat -> (s2 < nstreams p)%nat ->
             live p s1 = true -> live p s2 = true -> scli p s1 = scli p s2 -> s1 = s2;
  inv_scli : forall s, (s < nstreams p)%nat -> (scli p s < nclients p)%nat;
  inv_held : forall s, (s < nstreams p)%nat -> live p s = true -> closed p (scli p s) = true ->
             k_kind k = Http1 /\ sent p s = false;
  inv_total : total p = Z.of_nat (count_open p);
  inv_req : req p = Z.of_nat (count_live p) + ext p;
  inv_ext : 0 <= ext p;
  inv_dirty : forall s, (s < nstreams p)%nat -> live p s = false -> s_reset (st p s) <> 0%nat ->
              closed p (scli p s) = true;
  inv_once : forall s, (s < nstreams p)%nat ->
             s_destroys (st p s) = (if live p s then 0 else 1)%nat /\ (s_recv (st p s) <= 1)%nat /\
             (live p s = true -> s_recv (st p s) = 0%nat /\ s_reset (st p s) = 0%nat)
}.

Lemma init_inv : forall k, PInv k init.
Proof.
  intros k. constructor; cbn; try (intros; lia); try tauto.
  all: try (now constructor).
Qed.

(* states that agree on everything the invariant reads *)
Lemma PInv_ext : forall k p p',
  nclients p' = nclients p -> (forall c, closed p' c = closed p c) ->
  nstreams p' = nstreams p -> (forall s, st p' s = st p s) ->
  idle p' = idle p -> total p' = total p -> req p' = req p -> ext p' = ext p ->
  PInv k p -> PInv k p'.
Proof.
  intros k p p' Hn Hc Hs Hst Hi Ht Hr He [I1 I2 I3 I4 I5 I6 I7 I8 I9 I10 I11].
  assert (Hl : forall s, live p' s = live p s) by (intros; unfold live; rewrite Hst; reflexivity).
  assert (Hsc : forall s, scli p' s = scli p s) by (intros; unfold scli; rewrite Hst; reflexivity).
  assert (Hse : forall s, sent p' s = sent p s) by (intros; unfold sent; rewrite Hst; reflexivity).
  assert (Hle : forall c, leased p' c <-> leased p c).
  { intros c. unfold leased. rewrite Hs. split; intros [s Hx]; exists s; rewrite ?Hl, ?Hsc in *; exact Hx. }
  constructor; rewrite ?Hi, ?Hn, ?Hs, ?Ht, ?Hr, ?He; intros;
    repeat match goal with
           | H : context [closed p' _] |- _ => rewrite Hc in H
           | H : context [live p' _] |- _ => rewrite Hl in H
           | H : context [scli p' _] |- _ => rewrite Hsc in H
           | H : context [st p' _] |- _ => rewrite Hst in H
           end;
    rewrite ?Hc, ?Hl, ?Hsc, ?Hse, ?Hst, ?Hle; auto.
  - rewrite I7. unfold count_open. rewrite Hn. f_equal. apply countb_ext. intros; rewrite Hc; reflexivity.
  - rewrite I8. unfold count_live. rewrite Hs. 
    f_equal. f_equal. apply countb_ext. intros; rewrite Hl; reflexivity.
Qed.

(* ------------------------------------------------------------------------------------------------ *)
(* A live stream s ends (OnDestroyStream).  Three ways, according to what happens to its client c. *)
Section StreamEnds.
  Variable k : cfg.
  Variables p p' : pool.
  Variable s : nat.
  Hypothesis HI : PInv k p.
  Hypothesis Hs : (s < nstreams p)%nat.
  Hypothesis Hlive : live p s = true.
  Hypothesis Hn : nclients p' = nclients p.
  Hypothesis Hns : nstreams p' = nstreams p.
  Hypothesis Hst_o : forall s', s' <> s -> st p' s' = st p s'.
  Hypothesis Hst_s : st p' s = mkStream (s_cli (st p s)) false (s_sent (st p s)) (s_recv (st p s))
                                        (S (s_destroys (st p s))) (s_reset (st p s)).
  Hypothesis Hreq : req p' = req p - 1.
  Hypothesis Hext : ext p' = ext p.

  Let c := scli p s.

  Lemma se_live : forall s', live p' s' = if Nat.eqb s' s then false else live p s'.
  Proof.
    intros s'. unfold live. destruct (Nat.eqb_spec s' s) as [->|Hne]; [rewrite Hst_s; reflexivity|rewrite Hst_o by assumption; reflexivity].
  Qed.
  Lemma se_scli : forall s', scli p' s' = scli p s'.
  Proof.
    intros s'. unfold scli. destruct (Nat.eq_dec s' s) as [->|Hne]; [rewrite Hst_s; reflexivity|rewrite Hst_o by assumption; reflexivity].
  Qed.
  Lemma se_sent : forall s', sent p' s' = sent p s'.
  Proof.
    intros s'. unfold sent. destruct (Nat.eq_dec s' s) as [->|Hne]; [rewrite Hst_s; reflexivity|rewrite Hst_o by assumption; reflexivity].
  Qed.
  Lemma se_count : count_live p = S (count_live p').
  Proof.
    unfold count_live. rewrite Hns. apply countb_clear with (c := s); auto.
    - rewrite se_live, Nat.eqb_refl. reflexivity.
    - intros i Hi. rewrite se_live. destruct (Nat.eqb_spec i s); [contradiction|reflexivity].
  Qed.
  Lemma se_leased : forall c', leased p' c' <-> leased p c' /\ c' <> c.
  Proof.
    intros c'. unfold leased. rewrite Hns. split.
    - intros [s' [H1 [H2 H3]]]. rewrite se_live in H2. rewrite se_scli in H3.
      destruct (Nat.eqb_spec s' s) as [->|Hne]; [discriminate|].
      split; [exists s'; auto|]. intros ->. apply Hne. apply (inv_excl _ _ HI); auto.
    - intros [[s' [H1 [H2 H3]]] Hc]. exists s'. rewrite se_live, se_scli.
      destruct (Nat.eqb_spec s' s) as [->|Hne]; [exfalso; apply Hc; symmetry; exact H3|auto].
  Qed.
  Lemma se_req : req p' = Z.of_nat (count_live p') + ext p'.
  Proof.
    rewrite Hreq, Hext, (inv_req _ _ HI), se_count. lia.
  Qed.
  Lemma se_once : forall s', (s' < nstreams p')%nat ->
             s_destroys (st p' s') = (if live p' s' then 0 else 1)%nat /\ (s_recv (st p' s') <= 1)%nat /\
             (live p' s' = true -> s_recv (st p' s') = 0%nat /\ s_reset (st p' s') = 0%nat).
  Proof.
    intros s' H. rewrite Hns in H. rewrite se_live. destruct (Nat.eqb_spec s' s) as [->|Hne].
    - destruct (inv_once _ _ HI s Hs) as [H1 [H2 H3]]. rewrite Hlive in H1. rewrite Hst_s. cbn.
      split; [lia|split; [assumption|discriminate]].
    - rewrite Hst_o by assumption. apply (inv_once _ _ HI s' H).
  Qed.
  (* a dead stream with a reset reason: either an old one, or never s (s was alive, so its reason is still 0) *)
  Lemma se_dirty_pre : forall s', (s' < nstreams p)%nat -> live p' s' = false -> s_reset (st p' s') <> 0%nat ->
      s' <> s /\ live p s' = false /\ s_reset (st p s') <> 0%nat.
  Proof.
    intros s' H1 H2 H3. rewrite se_live in H2. destruct (Nat.eqb_spec s' s) as [->|Hne].
    - exfalso. rewrite Hst_s in H3. cbn in H3. destruct (inv_once _ _ HI s Hs) as [_ [_ H4]]. destruct (H4 Hlive). contradiction.
    - rewrite Hst_o in H3 by assumption. auto.
  Qed.

  (* A: the client's connection is already closed *)
  Lemma stream_ends_closed :
    closed p c = true -> (forall c', closed p' c' = closed p c') -> idle p' = idle p -> total p' = total p ->
    PInv k p'.
  Proof.
    intros Hcl Hc Hi Ht.
    constructor; rewrite ?Hi, ?Hn, ?Hns, ?Ht.
    - apply (inv_nodup _ _ HI).
    - intros c' Hin. destruct (inv_idle _ _ HI c' Hin) as [H1 [H2 H3]]. rewrite Hc, se_leased. tauto.
    - intros c' H1 H2. rewrite Hc in H2. destruct (inv_nolost _ _ HI c' H1 H2) as [H|H]; [left; assumption|].
      right. rewrite se_leased. split; [assumption|]. intros ->. congruence.
    - intros s1 s2 H1 H2. rewrite !se_live, !se_scli.
      destruct (Nat.eqb_spec s1 s); [discriminate|]. destruct (Nat.eqb_spec s2 s); [discriminate|]. apply (inv_excl _ _ HI); assumption.
    - intros s' H. rewrite se_scli. apply (inv_scli _ _ HI); assumption.
    - intros s' H. rewrite se_live, se_scli, se_sent, Hc. destruct (Nat.eqb_spec s' s); [discriminate|]. apply (inv_held _ _ HI); assumption.
    - rewrite (inv_total _ _ HI). unfold count_open. rewrite Hn. f_equal. apply countb_ext. intros; rewrite Hc; reflexivity.
    - apply se_req.
    - rewrite Hext. apply (inv_ext _ _ HI).
    - intros s' H1 H2 H3. destruct (se_dirty_pre s' H1 H2 H3) as [Hne [H4 H5]].
      rewrite se_scli, Hc. rewrite Hst_o in H3 by assumption. apply (inv_dirty _ _ HI); assumption.
    - intros s' H. apply se_once. rewrite Hns; assumption.
  Qed.

  (* B: the client's connection is open and is closed now *)
  Lemma stream_ends_closing :
    closed p c = false -> (forall c', closed p' c' = if Nat.eqb c' c then true else closed p c') ->
    idle p' = idle_remove k c (idle p) -> total p' = total p - 1 ->
    PInv k p'.
  Proof.
    intros Hcl Hc Hi Ht.
    assert (Hcn : (c < nclients p)%nat) by (apply (inv_scli _ _ HI); assumption).
    assert (Hnotidle : ~ In c (idle p)).
    { intros Hin. destruct (inv_idle _ _ HI c Hin) as [_ [_ H3]]. apply H3. exists s. auto. }
    constructor; rewrite ?Hi, ?Hn, ?Hns, ?Ht.
    - apply idle_remove_NoDup. apply (inv_nodup _ _ HI).
    - intros c' Hin. apply idle_remove_spec in Hin; [|apply (inv_nodup _ _ HI)]. destruct Hin as [Hin Hne].
      destruct (inv_idle _ _ HI c' Hin) as [H1 [H2 H3]]. rewrite Hc, se_leased.
      destruct (Nat.eqb_spec c' c); [contradiction|]. tauto.
    - intros c' H1 H2. rewrite Hc in H2. destruct (Nat.eqb_spec c' c) as [->|Hne]; [discriminate|].
      destruct (inv_nolost _ _ HI c' H1 H2) as [H|H].
      + left. apply idle_remove_spec; [apply (inv_nodup _ _ HI)|]. auto.
      + right. rewrite se_leased. auto.
    - intros s1 s2 H1 H2. rewrite !se_live, !se_scli.
      destruct (Nat.eqb_spec s1 s); [discriminate|]. destruct (Nat.eqb_spec s2 s); [discriminate|]. apply (inv_excl _ _ HI); assumption.
    - intros s' H. rewrite se_scli. apply (inv_scli _ _ HI); assumption.
    - intros s' H. rewrite se_live, se_scli, se_sent, Hc. destruct (Nat.eqb_spec s' s) as [->|Hne]; [discriminate|].
      intros Hl. destruct (Nat.eqb_spec (scli p s') c) as [He|He].
      + exfalso. apply Hne. apply (inv_excl _ _ HI); auto.
      + apply (inv_held _ _ HI); assumption.
    - rewrite (inv_total _ _ HI). unfold count_open. rewrite Hn.
      rewrite (countb_clear (fun c' => negb (closed p c')) (fun c' => negb (closed p' c')) (nclients p) c); auto.
      + lia.
      + rewrite Hcl. reflexivity.
      + rewrite Hc, Nat.eqb_refl. reflexivity.
      + intros i Hi'. rewrite Hc. destruct (Nat.eqb_spec i c); [contradiction|reflexivity].
    - apply se_req.
    - rewrite Hext. apply (inv_ext _ _ HI).
    - intros s' H1 H2 H3. destruct (se_dirty_pre s' H1 H2 H3) as [Hne [H4 H5]].
      rewrite se_scli, Hc. destruct (Nat.eqb_spec (scli p s') c); [reflexivity|].
      rewrite Hst_o in H3 by assumption. apply (inv_dirty _ _ HI); assumption.
    - intros s' H. apply se_once. rewrite Hns; assumption.
  Qed.

  (* C: the client's connection is open and returns to the idle list *)
  Lemma stream_ends_idle :
    closed p c = false -> (forall c', closed p' c' = closed p c') ->
    idle p' = idle p ++ [c] -> total p' = total p ->
    PInv k p'.
  Proof.
    intros Hcl Hc Hi Ht.
    assert (Hcn : (c < nclients p)%nat) by (apply (inv_scli _ _ HI); assumption).
    assert (Hnotidle : ~ In c (idle p)).
    { intros Hin. destruct (inv_idle _ _ HI c Hin) as [_ [_ H3]]. apply H3. exists s. auto. }
    constructor; rewrite ?Hi, ?Hn, ?Hns, ?Ht.
    - apply NoDup_app_single. split; [apply (inv_nodup _ _ HI)|assumption].
    - intros c' Hin. apply in_app_or in Hin. rewrite Hc, se_leased. destruct Hin as [Hin|[<-|[]]].
      + destruct (inv_idle _ _ HI c' Hin) as [H1 [H2 H3]]. tauto.
      + tauto.
    - intros c' H1 H2. rewrite Hc in H2. destruct (Nat.eq_dec c' c) as [->|Hne].
      + left. apply in_or_app. right. left. reflexivity.
      + destruct (inv_nolost _ _ HI c' H1 H2) as [H|H]; [left; apply in_or_app; auto|right; rewrite se_leased; auto].
    - intros s1 s2 H1 H2. rewrite !se_live, !se_scli.
      destruct (Nat.eqb_spec s1 s); [discriminate|]. destruct (Nat.eqb_spec s2 s); [discriminate|]. apply (inv_excl _ _ HI); assumption.
    - intros s' H. rewrite se_scli. apply (inv_scli _ _ HI); assumption.
    - intros s' H. rewrite se_live, se_scli, se_sent, Hc. destruct (Nat.eqb_spec s' s); [discriminate|]. apply (inv_held _ _ HI); assumption.
    - rewrite (inv_total _ _ HI). unfold count_open. rewrite Hn. f_equal. apply countb_ext. intros; rewrite Hc; reflexivity.
    - apply se_req.
    - rewrite Hext. apply (inv_ext _ _ HI).
    - intros s' H1 H2 H3. destruct (se_dirty_pre s' H1 H2 H3) as [Hne [H4 H5]].
      rewrite se_scli, Hc. rewrite Hst_o in H3 by assumption. apply (inv_dirty _ _ HI); assumption.
    - intros s' H. apply se_once. rewrite Hns; assumption.
  Qed.
End StreamEnds.

(* ------------------------------------------------------------------------------------------------ *)
(* the model's primitives preserve the invariant (repaired code: all four switches on) *)

Lemma sw_pp_fixed : forall k, k_sw k = sw_fixed -> sw_pp_close_on_destroy (k_sw k) = true.
Proof. intros k ->. reflexivity. Qed.

Lemma upd_same : forall A (f : nat -> A) i v, upd f i v i = v.
Proof. intros. unfold upd. rewrite Nat.eqb_refl. reflexivity. Qed.
Lemma upd_other : forall A (f : nat -> A) i v j, j <> i -> upd f i v j = f j.
Proof. intros. unfold upd. destruct (Nat.eqb_spec j i); [contradiction|reflexivity]. Qed.

Lemma destroy_inv : forall k p s, k_sw k = sw_fixed -> PInv k p -> (s < nstreams p)%nat -> live p s = true ->
  PInv k (destroy k s p).
Proof.
  intros k p s Hsw HI Hs Hl. unfold destroy.
  set (c := scli p s).
  assert (Hc1 : closed (mark_dead p s) c = closed p c) by reflexivity.
  assert (Hc2 : cconn (mark_dead p s) c = cconn p c) by reflexivity.
  unfold closes_on_destroy. rewrite Hc1, Hc2.
  assert (Hk : match k_kind k with Http1 => true | PingPong => sw_pp_close_on_destroy (k_sw k) end = true).
  { rewrite Hsw. destruct (k_kind k); reflexivity. }
  rewrite Hk, andb_true_r.
  destruct (closed p c) eqn:Ecl.
  - (* A *) cbn [negb andb].
    assert (Hc3 : closed (req_dec k (mark_dead p s)) c = true).
    { unfold req_dec. destruct (k_max_req k =? 0); exact Ecl. }
    rewrite Hc3.
    apply (stream_ends_closed k p _ s HI Hs Hl); unfold req_dec; destruct (k_max_req k =? 0); cbn;
      try reflexivity; try (intros; rewrite upd_other by assumption; reflexivity); try (rewrite upd_same; reflexivity);
      try exact Ecl.
  - cbn [negb andb]. destruct (cconn p c) eqn:Ecc.
    + (* B *)
      unfold close_client. rewrite Hc1.
      match goal with |- PInv k (if closed ?q c then _ else _) => assert (Hc3 : closed q c = true) end.
      { unfold req_dec. destruct (k_max_req k =? 0); cbn; unfold closed; cbn; rewrite upd_same; reflexivity. }
      rewrite Hc3.
      apply (stream_ends_closing k p _ s HI Hs Hl); unfold req_dec; destruct (k_max_req k =? 0); cbn;
        try reflexivity; try (intros; rewrite upd_other by assumption; reflexivity); try (rewrite upd_same; reflexivity);
        try exact Ecl;
        try (intros c'; unfold closed; cbn; unfold upd; fold c; destruct (Nat.eqb c' c); reflexivity).
    + (* C *)
      assert (Hc3 : closed (req_dec k (mark_dead p s)) c = false).
      { unfold req_dec. destruct (k_max_req k =? 0); exact Ecl. }
      rewrite Hc3.
      apply (stream_ends_idle k p _ s HI Hs Hl); unfold req_dec; destruct (k_max_req k =? 0); cbn;
        try reflexivity; try (intros; rewrite upd_other by assumption; reflexivity); try (rewrite upd_same; reflexivity);
        try exact Ecl.
Qed.

(* fields of the state after destroy *)
Lemma destroy_frame : forall k p s,
  nclients (destroy k s p) = nclients p /\ nstreams (destroy k s p) = nstreams p /\
  st (destroy k s p) = st (mark_dead p s) /\ ext (destroy k s p) = ext p.
Proof.
  intros k p s. unfold destroy, closes_on_destroy, close_client, req_dec.
  repeat match goal with |- context [if ?b then _ else _] => destruct b end; cbn; auto.
Qed.

Lemma destroy_live : forall k p s s', live (destroy k s p) s' = if Nat.eqb s' s then false else live p s'.
Proof.
  intros. unfold live. destruct (destroy_frame k p s) as [_ [_ [-> _]]]. cbn. unfold upd.
  destruct (Nat.eqb s' s); reflexivity.
Qed.
Lemma destroy_scli : forall k p s s', scli (destroy k s p) s' = scli p s'.
Proof.
  intros. unfold scli. destruct (destroy_frame k p s) as [_ [_ [-> _]]]. cbn. unfold upd.
  destruct (Nat.eqb_spec s' s) as [->|]; reflexivity.
Qed.
Lemma destroy_recv_reset : forall k p s s',
  s_recv (st (destroy k s p) s') = s_recv (st p s') /\ s_reset (st (destroy k s p) s') = s_reset (st p s').
Proof.
  intros. destruct (destroy_frame k p s) as [_ [_ [-> _]]]. cbn. unfold upd.
  destruct (Nat.eqb_spec s' s) as [->|]; auto.
Qed.

Lemma closed_req_dec : forall k q c, closed (req_dec k q) c = closed q c.
Proof. intros. unfold req_dec. destruct (k_max_req k =? 0); reflexivity. Qed.
Lemma idle_req_dec : forall k q, idle (req_dec k q) = idle q.
Proof. intros. unfold req_dec. destruct (k_max_req k =? 0); reflexivity. Qed.

(* after destroy the client is closed if it was closed or marked to be closed *)
Lemma destroy_closed : forall k p s, k_sw k = sw_fixed ->
  closed p (scli p s) = true \/ cconn p (scli p s) = true -> closed (destroy k s p) (scli p s) = true.
Proof.
  intros k p s Hsw H. unfold destroy, closes_on_destroy.
  set (c := scli p s) in *.
  assert (Hk : match k_kind k with Http1 => true | PingPong => sw_pp_close_on_destroy (k_sw k) end = true).
  { rewrite Hsw. destruct (k_kind k); reflexivity. }
  rewrite Hk, andb_true_r.
  change (closed (mark_dead p s) c) with (closed p c). change (cconn (mark_dead p s) c) with (cconn p c).
  destruct (closed p c) eqn:Ecl; cbn [negb andb].
  - rewrite closed_req_dec. change (closed (mark_dead p s) c) with (closed p c). rewrite Ecl.
    rewrite closed_req_dec. exact Ecl.
  - destruct H as [H|H]; [discriminate|]. rewrite H.
    assert (Hc : closed (close_client k c (mark_dead p s)) c = true).
    { unfold close_client. change (closed (mark_dead p s) c) with (closed p c). rewrite Ecl.
      unfold closed. cbn. rewrite upd_same. reflexivity. }
    rewrite closed_req_dec, Hc, closed_req_dec. exact Hc.
Qed.

(* the only way into the idle list through destroy: the stream's own open, unmarked client *)
Lemma destroy_idle_sub : forall k p s x, k_sw k = sw_fixed -> NoDup (idle p) -> In x (idle (destroy k s p)) ->
  In x (idle p) \/ (x = scli p s /\ closed p x = false /\ cconn p x = false).
Proof.
  intros k p s x Hsw Hnd. unfold destroy, closes_on_destroy.
  set (c := scli p s).
  assert (Hk : match k_kind k with Http1 => true | PingPong => sw_pp_close_on_destroy (k_sw k) end = true).
  { rewrite Hsw. destruct (k_kind k); reflexivity. }
  rewrite Hk, andb_true_r.
  change (closed (mark_dead p s) c) with (closed p c). change (cconn (mark_dead p s) c) with (cconn p c).
  destruct (closed p c) eqn:Ecl; cbn [negb andb].
  - rewrite closed_req_dec. change (closed (mark_dead p s) c) with (closed p c). rewrite Ecl.
    rewrite idle_req_dec. cbn. auto.
  - destruct (cconn p c) eqn:Ecc.
    + assert (Hc : closed (close_client k c (mark_dead p s)) c = true).
      { unfold close_client. change (closed (mark_dead p s) c) with (closed p c). rewrite Ecl.
        unfold closed. cbn. rewrite upd_same. reflexivity. }
      rewrite closed_req_dec, Hc, idle_req_dec.
      unfold close_client. change (closed (mark_dead p s) c) with (closed p c). rewrite Ecl. cbn.
      intros H. apply idle_remove_spec in H; tauto.
    + rewrite closed_req_dec. change (closed (mark_dead p s) c) with (closed p c). rewrite Ecl.
      cbn. rewrite idle_req_dec. cbn. intros H. apply in_app_or in H. destruct H as [H|[<-|[]]]; auto.
Qed.

(* one stream record changes in the fields sent / recv / reset only *)
Lemma PInv_st_update : forall k p p' s,
  PInv k p -> (s < nstreams p)%nat ->
  nclients p' = nclients p -> (forall c, closed p' c = closed p c) -> nstreams p' = nstreams p ->
  idle p' = idle p -> total p' = total p -> req p' = req p -> ext p' = ext p ->
  (forall s', s' <> s -> st p' s' = st p s') ->
  s_cli (st p' s) = s_cli (st p s) -> s_live (st p' s) = s_live (st p s) -> s_destroys (st p' s) = s_destroys (st p s) ->
  (live p s = true -> closed p (scli p s) = true -> s_sent (st p' s) = false) ->
  (s_recv (st p' s) <= 1)%nat ->
  (live p s = true -> s_recv (st p' s) = 0%nat /\ s_reset (st p' s) = 0%nat) ->
  (live p s = false -> s_reset (st p' s) <> 0%nat -> closed p (scli p s) = true) ->
  PInv k p'.
Proof.
  intros k p p' s HI Hs Hn Hc Hns Hi Ht Hr He Hst_o Hcli Hlv Hds Hsent Hrecv Hlive0 Hdirty.
  assert (Hl : forall s', live p' s' = live p s').
  { intros s'. unfold live. destruct (Nat.eq_dec s' s) as [->|Hne]; [assumption|rewrite Hst_o by assumption; reflexivity]. }
  assert (Hsc : forall s', scli p' s' = scli p s').
  { intros s'. unfold scli. destruct (Nat.eq_dec s' s) as [->|Hne]; [assumption|rewrite Hst_o by assumption; reflexivity]. }
  assert (Hle : forall c, leased p' c <-> leased p c).
  { intros c. unfold leased. rewrite Hns. split; intros [s' Hx]; exists s'; rewrite ?Hl, ?Hsc in *; exact Hx. }
  destruct HI as [I1 I2 I3 I4 I5 I6 I7 I8 I9 I10 I11].
  constructor; rewrite ?Hi, ?Hn, ?Hns, ?Ht, ?Hr, ?He.
  - assumption.
  - intros c Hin. rewrite Hc, Hle. auto.
  - intros c H1 H2. rewrite Hc in H2. rewrite Hle. auto.
  - intros s1 s2 H1 H2. rewrite !Hl, !Hsc. auto.
  - intros s' H. rewrite Hsc. auto.
  - intros s' H. rewrite Hl, Hsc, Hc. intros H1 H2. destruct (I6 s' H H1 H2) as [H3 H4]. split; [assumption|].
    unfold sent. destruct (Nat.eq_dec s' s) as [->|Hne]; [apply Hsent; assumption|rewrite Hst_o by assumption; exact H4].
  - rewrite I7. unfold count_open. rewrite Hn. f_equal. apply countb_ext. intros; rewrite Hc; reflexivity.
  - rewrite I8. unfold count_live. rewrite Hns. 
    f_equal. f_equal. apply countb_ext. intros; rewrite Hl; reflexivity.
  - assumption.
  - intros s' H1. rewrite Hl, Hsc, Hc. destruct (Nat.eq_dec s' s) as [->|Hne]; [auto|rewrite Hst_o by assumption; auto].
  - intros s' H1. rewrite Hl. destruct (Nat.eq_dec s' s) as [->|Hne].
    + destruct (I11 s H1) as [H2 [H3 H4]]. rewrite Hds. split; [assumption|]. split; assumption.
    + rewrite Hst_o by assumption. auto.
Qed.

Lemma note_reset_inv : forall k p s r, PInv k p -> (s < nstreams p)%nat -> live p s = false ->
  closed p (scli p s) = true -> PInv k (note_reset p s r).
Proof.
  intros k p s r HI Hs Hl Hc.
  apply (PInv_st_update k p _ s HI Hs); cbn; try reflexivity; try (rewrite upd_same; cbn; try reflexivity).
  - intros s' Hne. rewrite upd_other by assumption. reflexivity.
  - intros H. unfold live in Hl, H. congruence.
  - apply (inv_once _ _ HI s Hs).
  - intros H. unfold live in Hl, H. congruence.
  - intros _ _. assumption.
Qed.

Lemma deliver_inv : forall k p s, PInv k p -> (s < nstreams p)%nat -> live p s = false ->
  s_recv (st p s) = 0%nat -> PInv k (deliver p s).
Proof.
  intros k p s HI Hs Hl Hr.
  apply (PInv_st_update k p _ s HI Hs); cbn; try reflexivity; try (rewrite upd_same; cbn; try reflexivity).
  - intros s' Hne. rewrite upd_other by assumption. reflexivity.
  - intros H. unfold live in Hl, H. congruence.
  - lia.
  - intros H. unfold live in Hl, H. congruence.
  - intros H1. apply (inv_dirty _ _ HI s Hs H1).
Qed.

Lemma set_sent_inv : forall k p s, PInv k p -> (s < nstreams p)%nat -> closed p (scli p s) = false ->
  PInv k (set_sent p s).
Proof.
  intros k p s HI Hs Hc.
  apply (PInv_st_update k p _ s HI Hs); cbn; try reflexivity; try (rewrite upd_same; cbn; try reflexivity).
  - intros s' Hne. rewrite upd_other by assumption. reflexivity.
  - intros _ H. congruence.
  - apply (inv_once _ _ HI s Hs).
  - apply (inv_once _ _ HI s Hs).
  - intros H1. apply (inv_dirty _ _ HI s Hs H1).
Qed.

Lemma set_cconn_inv : forall k p c, PInv k p -> PInv k (set_cconn p c).
Proof.
  intros k p c HI. apply (PInv_ext k p); try reflexivity; [|assumption].
  intros c'. unfold closed, set_cconn. cbn. unfold upd. destruct (Nat.eqb_spec c' c) as [->|]; reflexivity.
Qed.

Lemma set_cconn_fold_inv : forall k l p, PInv k p -> PInv k (fold_left set_cconn l p).
Proof. induction l as [|c l IH]; cbn; intros p HI; [assumption|]. apply IH. apply set_cconn_inv. assumption. Qed.

Lemma reset_marks_fixed : forall k r, k_sw k = sw_fixed -> reset_marks k r = true.
Proof. intros k r Hsw. unfold reset_marks. rewrite Hsw. destruct (k_kind k); cbn; apply orb_true_r. Qed.

Lemma reset_stream_inv : forall k p s r, k_sw k = sw_fixed -> PInv k p -> (s < nstreams p)%nat ->
  PInv k (reset_stream k s r p).
Proof.
  intros k p s r Hsw HI Hs. unfold reset_stream. destruct (live p s) eqn:Hl; [|assumption].
  rewrite reset_marks_fixed by assumption. cbn [andb].
  set (c := scli p s).
  set (p1 := if negb (closed p c) then set_cconn p c else p).
  assert (HI1 : PInv k p1) by (unfold p1; destruct (negb (closed p c)); [apply set_cconn_inv|]; assumption).
  assert (Hn1 : nstreams p1 = nstreams p) by (unfold p1; destruct (negb (closed p c)); reflexivity).
  assert (Hl1 : live p1 s = true) by (unfold p1; destruct (negb (closed p c)); exact Hl).
  assert (Hc1 : scli p1 s = c) by (unfold p1; destruct (negb (closed p c)); reflexivity).
  assert (Hcl : closed p1 c = true \/ cconn p1 c = true).
  { unfold p1. destruct (closed p c) eqn:E; cbn [negb]; [left; exact E|right].
    unfold cconn, set_cconn. cbn. rewrite upd_same. reflexivity. }
  apply note_reset_inv.
  - apply destroy_inv; auto. rewrite Hn1. assumption.
  - destruct (destroy_frame k p1 s) as [_ [-> _]]. rewrite Hn1. assumption.
  - rewrite destroy_live, Nat.eqb_refl. reflexivity.
  - rewrite destroy_scli, Hc1.
    pose proof (destroy_closed k p1 s Hsw) as Hd. rewrite Hc1 in Hd. apply Hd. assumption.
Qed.

(* ------------------------------------------------------------------------------------------------ *)
(* a connection closes while no stream ends: the client is idle, or (http) its unsent stream stays with the lessee *)
Lemma client_closes_inv : forall k p p' c,
  PInv k p -> (c < nclients p)%nat -> closed p c = false ->
  (forall s, (s < nstreams p)%nat -> live p s = true -> scli p s = c -> k_kind k = Http1 /\ sent p s = false) ->
  nclients p' = nclients p -> (forall c', closed p' c' = if Nat.eqb c' c then true else closed p c') ->
  nstreams p' = nstreams p -> (forall s, st p' s = st p s) ->
  idle p' = idle_remove k c (idle p) -> total p' = total p - 1 -> req p' = req p -> ext p' = ext p ->
  PInv k p'.
Proof.
  intros k p p' c HI Hcn Hcl Hheld Hn Hc Hns Hst Hi Ht Hr He.
  assert (Hl : forall s, live p' s = live p s) by (intros; unfold live; rewrite Hst; reflexivity).
  assert (Hsc : forall s, scli p' s = scli p s) by (intros; unfold scli; rewrite Hst; reflexivity).
  assert (Hse : forall s, sent p' s = sent p s) by (intros; unfold sent; rewrite Hst; reflexivity).
  assert (Hle : forall c', leased p' c' <-> leased p c').
  { intros c'. unfold leased. rewrite Hns. split; intros [s Hx]; exists s; rewrite ?Hl, ?Hsc in *; exact Hx. }
  destruct HI as [I1 I2 I3 I4 I5 I6 I7 I8 I9 I10 I11].
  constructor; rewrite ?Hi, ?Hn, ?Hns, ?Ht, ?Hr, ?He.
  - apply idle_remove_NoDup. assumption.
  - intros c' Hin. apply idle_remove_spec in Hin; [|assumption]. destruct Hin as [Hin Hne].
    rewrite Hc, Hle. destruct (Nat.eqb_spec c' c); [contradiction|]. auto.
  - intros c' H1 H2. rewrite Hc in H2. destruct (Nat.eqb_spec c' c) as [->|Hne]; [discriminate|].
    rewrite Hle. destruct (I3 c' H1 H2) as [H|H]; [left; apply idle_remove_spec; auto|right; assumption].
  - intros s1 s2 H1 H2. rewrite !Hl, !Hsc. auto.
  - intros s H. rewrite Hsc. auto.
  - intros s H. rewrite Hl, Hsc, Hse, Hc. intros H1. destruct (Nat.eqb_spec (scli p s) c) as [E|E]; [intros _; auto|auto].
  - rewrite I7. unfold count_open. rewrite Hn.
    rewrite (countb_clear (fun c' => negb (closed p c')) (fun c' => negb (closed p' c')) (nclients p) c); auto.
    + lia.
    + rewrite Hcl. reflexivity.
    + rewrite Hc, Nat.eqb_refl. reflexivity.
    + intros i Hi'. rewrite Hc. destruct (Nat.eqb_spec i c); [contradiction|reflexivity].
  - rewrite I8. unfold count_live. rewrite Hns. 
    f_equal. f_equal. apply countb_ext. intros; rewrite Hl; reflexivity.
  - assumption.
  - intros s H1. rewrite Hl, Hsc, Hst, Hc. intros H2 H3. destruct (Nat.eqb_spec (scli p s) c); [reflexivity|auto].
  - intros s H1. rewrite Hl, Hst. auto.
Qed.

Lemma find_live_some : forall p c n s, find_live p c n = Some s -> (s < n)%nat /\ live p s = true /\ scli p s = c.
Proof.
  induction n as [|n IH]; cbn; intros s H; [discriminate|].
  destruct (live p n) eqn:E1; cbn in H.
  - destruct (Nat.eqb_spec (scli p n) c) as [E2|E2].
    + inversion H; subst. auto.
    + destruct (IH s H) as [H1 H2]. split; [lia|assumption].
  - destruct (IH s H) as [H1 H2]. split; [lia|assumption].
Qed.
Lemma find_live_none : forall p c n, find_live p c n = None -> forall s, (s < n)%nat -> live p s = true -> scli p s <> c.
Proof.
  induction n as [|n IH]; cbn; intros H s Hs Hl; [lia|].
  destruct (live p n) eqn:E1; cbn in H.
  - destruct (Nat.eqb_spec (scli p n) c) as [E2|E2]; [discriminate|].
    destruct (Nat.eq_dec s n) as [->|Hne]; [assumption|apply IH; auto; lia].
  - destruct (Nat.eq_dec s n) as [->|Hne]; [congruence|apply IH; auto; lia].
Qed.

Lemma conn_close_inv : forall k p c ev, k_sw k = sw_fixed -> PInv k p -> PInv k (conn_close k c ev p).
Proof.
  intros k p c ev Hsw HI. unfold conn_close.
  destruct (Nat.ltb_spec c (nclients p)) as [Hcn|]; cbn [andb]; [|assumption].
  destruct (closed p c) eqn:Ecl; cbn [negb]; [assumption|].
  assert (Hcc : close_client k c p = (set_closed p c) <| total := total p - 1 |> <| idle := idle_remove k c (idle p) |>).
  { unfold close_client. rewrite Ecl. reflexivity. }
  assert (Hclosed' : forall c', closed (close_client k c p) c' = if Nat.eqb c' c then true else closed p c').
  { intros c'. rewrite Hcc. unfold closed. cbn. unfold upd. destruct (Nat.eqb c' c); reflexivity. }
  destruct (find_live p c (nstreams p)) as [s|] eqn:Ef.
  - destruct (find_live_some _ _ _ _ Ef) as [Hs [Hl Hsc]].
    destruct (match k_kind k with Http1 => sent p s | PingPong => true end) eqn:Ek.
    + (* the stream in flight is reset: stream ends, client closes *)
      unfold reset_stream.
      assert (Hl1 : live (close_client k c p) s = true) by (rewrite Hcc; exact Hl).
      assert (Hsc1 : scli (close_client k c p) s = c) by (rewrite Hcc; exact Hsc).
      rewrite Hl1, Hsc1, Hclosed', Nat.eqb_refl. cbn [negb]. rewrite andb_false_r.
      set (q := destroy k s (close_client k c p)).
      assert (HIq : PInv k q).
      { unfold q, destroy. rewrite Hsc1. unfold closes_on_destroy.
        change (closed (mark_dead (close_client k c p) s) c) with (closed (close_client k c p) c).
        rewrite Hclosed', Nat.eqb_refl. cbn [negb andb].
        rewrite closed_req_dec.
        change (closed (mark_dead (close_client k c p) s) c) with (closed (close_client k c p) c).
        rewrite Hclosed', Nat.eqb_refl.
        apply (stream_ends_closing k p _ s HI Hs Hl); rewrite ?Hsc; try exact Ecl;
          unfold req_dec; rewrite Hcc; destruct (k_max_req k =? 0); cbn;
          try reflexivity; try (intros; rewrite upd_other by assumption; reflexivity); try (rewrite upd_same; reflexivity);
          try (intros c'; unfold closed; cbn; unfold upd; destruct (Nat.eqb c' c); reflexivity). }
      apply note_reset_inv; auto.
      * unfold q. destruct (destroy_frame k (close_client k c p) s) as [_ [-> _]]. rewrite Hcc. exact Hs.
      * unfold q. rewrite destroy_live, Nat.eqb_refl. reflexivity.
      * unfold q. rewrite destroy_scli, Hsc1.
        pose proof (destroy_closed k (close_client k c p) s Hsw) as Hd. rewrite Hsc1 in Hd. apply Hd.
        left. rewrite Hclosed', Nat.eqb_refl. reflexivity.
    + (* http, request not written yet: the stream stays with its lessee *)
      destruct (k_kind k) eqn:Ekind; [|discriminate].
      apply (client_closes_inv k p _ c HI Hcn Ecl); rewrite ?Hcc; try reflexivity; try exact Hclosed'.
      * intros s' Hs' Hl' Hsc'. split; [assumption|].
        assert (s' = s) by (apply (inv_excl _ _ HI); auto; congruence). subst. exact Ek.
      * intros c'. rewrite <- Hcc. apply Hclosed'.
  - apply (client_closes_inv k p _ c HI Hcn Ecl); rewrite ?Hcc; try reflexivity.
    + intros s' Hs' Hl' Hsc'. exfalso. apply (find_live_none _ _ _ Ef s' Hs' Hl' Hsc').
    + intros c'. rewrite <- Hcc. apply Hclosed'.
Qed.

(* ------------------------------------------------------------------------------------------------ *)
(* a stream is leased on client c, which is either brand new or was taken from the idle list *)
Lemma lease_abstract : forall k p p' c send,
  PInv k p ->
  (nclients p <= nclients p')%nat ->
  (forall c', (c' < nclients p)%nat -> closed p' c' = closed p c') ->
  (c < nclients p')%nat -> closed p' c = false -> ~ leased p c ->
  (forall c', (nclients p <= c')%nat -> (c' < nclients p')%nat -> c' = c) ->
  nstreams p' = S (nstreams p) ->
  (forall s', s' <> nstreams p -> st p' s' = st p s') ->
  st p' (nstreams p) = mkStream c true send 0 0 0 ->
  NoDup (idle p') -> (forall x, In x (idle p') <-> In x (idle p) /\ x <> c) ->
  total p' = Z.of_nat (count_open p') ->
  req p' = req p + 1 -> ext p' = ext p ->
  PInv k p'.
Proof.
  intros k p p' c send HI Hn Hc_old Hcn Hcopen Hnl Hrange Hns Hst_o Hst_s Hnd Hidle Htot Hreq Hext.
  set (m := nstreams p) in *.
  assert (Hl : forall s', live p' s' = if Nat.eqb s' m then true else live p s').
  { intros s'. unfold live. destruct (Nat.eqb_spec s' m) as [->|Hne]; [rewrite Hst_s; reflexivity|rewrite Hst_o by assumption; reflexivity]. }
  assert (Hsc : forall s', scli p' s' = if Nat.eqb s' m then c else scli p s').
  { intros s'. unfold scli. destruct (Nat.eqb_spec s' m) as [->|Hne]; [rewrite Hst_s; reflexivity|rewrite Hst_o by assumption; reflexivity]. }
  assert (Hle : forall c', leased p' c' <-> leased p c' \/ c' = c).
  { intros c'. unfold leased. rewrite Hns. fold m. split.
    - intros [s' [H1 [H2 H3]]]. rewrite Hl in H2. rewrite Hsc in H3. destruct (Nat.eqb_spec s' m) as [->|Hne]; [right; auto|].
      left. exists s'. split; [lia|auto].
    - intros [ [s' [H1 [H2 H3] ] ] | -> ].
      + exists s'. rewrite Hl, Hsc. destruct (Nat.eqb_spec s' m); [lia|]. split; [lia|auto].
      + exists m. rewrite Hl, Hsc, Nat.eqb_refl. split; [lia|auto]. }
  destruct HI as [I1 I2 I3 I4 I5 I6 I7 I8 I9 I10 I11].
  constructor.
  - assumption.
  - intros c' Hin. apply Hidle in Hin. destruct Hin as [Hin Hne]. destruct (I2 c' Hin) as [H1 [H2 H3]].
    split; [lia|]. split; [rewrite Hc_old by assumption; assumption|]. rewrite Hle. tauto.
  - intros c' H1 H2. rewrite Hle. destruct (Nat.eq_dec c' c) as [->|Hne]; [right; right; reflexivity|].
    assert (Hlt : (c' < nclients p)%nat).
    { destruct (Nat.lt_ge_cases c' (nclients p)) as [H|H]; [assumption|]. exfalso. apply Hne. apply Hrange; assumption. }
    rewrite Hc_old in H2 by assumption. destruct (I3 c' Hlt H2) as [H|H]; [left; apply Hidle; auto|right; left; assumption].
  - intros s1 s2 H1 H2. rewrite Hns in H1, H2. fold m in H1, H2. rewrite !Hl, !Hsc.
    destruct (Nat.eqb_spec s1 m) as [->|N1]; destruct (Nat.eqb_spec s2 m) as [->|N2]; intros L1 L2 E; auto.
    + exfalso. apply Hnl. exists s2. split; [unfold m in *; lia|auto].
    + exfalso. apply Hnl. exists s1. split; [unfold m in *; lia|auto].
    + apply I4; auto; unfold m in *; lia.
  - intros s' H. rewrite Hns in H. fold m in H. rewrite Hsc. destruct (Nat.eqb_spec s' m); [assumption|].
    assert ((scli p s' < nclients p)%nat) by (apply I5; unfold m in *; lia). lia.
  - intros s' H. rewrite Hns in H. fold m in H. rewrite Hl, Hsc. destruct (Nat.eqb_spec s' m) as [->|Hne].
    + intros _ E. congruence.
    + intros L E. assert (Hs' : (s' < nstreams p)%nat) by (unfold m in *; lia).
      assert (Hlt := I5 s' Hs'). rewrite Hc_old in E by assumption. destruct (I6 s' Hs' L E) as [E1 E2].
      split; [assumption|]. unfold sent. rewrite Hst_o by assumption. exact E2.
  - assumption.
  - rewrite Hreq, Hext, I8. unfold count_live. rewrite Hns. fold m. cbn [countb]. rewrite Hl, Nat.eqb_refl.
    rewrite (countb_ext (live p') (live p) m).
    + destruct (k_max_req k =? 0); lia.
    + intros i Hi. rewrite Hl. destruct (Nat.eqb_spec i m); [lia|reflexivity].
  - rewrite Hext. assumption.
  - intros s' H. rewrite Hns in H. fold m in H. rewrite Hl, Hsc. destruct (Nat.eqb_spec s' m) as [->|Hne]; [discriminate|].
    rewrite Hst_o by assumption. intros L R. assert (Hs' : (s' < nstreams p)%nat) by (unfold m in *; lia).
    assert (Hlt := I5 s' Hs'). rewrite Hc_old by assumption. auto.
  - intros s' H. rewrite Hns in H. fold m in H. rewrite Hl. destruct (Nat.eqb_spec s' m) as [->|Hne].
    + rewrite Hst_s. cbn. auto.
    + rewrite Hst_o by assumption. apply I11. unfold m in *; lia.
Qed.

Lemma lease_fields : forall k c send q,
  nclients (lease k c send q) = nclients q /\ cl (lease k c send q) = cl q /\
  nstreams (lease k c send q) = S (nstreams q) /\
  st (lease k c send q) = upd (st q) (nstreams q) (mkStream c true send 0 0 0) /\
  idle (lease k c send q) = idle q /\ total (lease k c send q) = total q /\ ext (lease k c send q) = ext q /\
  req (lease k c send q) = req q + 1.
Proof. intros. unfold lease, req_inc. destruct (k_max_req k =? 0); cbn; auto 10. Qed.

Lemma lease_new_inv : forall k p send, PInv k p -> PInv k (lease k (nclients p) send (new_client p)).
Proof.
  intros k p send HI.
  destruct (lease_fields k (nclients p) send (new_client p)) as [F1 [F2 [F3 [F4 [F5 [F6 [F7 F8]]]]]]].
  assert (Hcl : forall c', closed (lease k (nclients p) send (new_client p)) c' = if Nat.eqb c' (nclients p) then false else closed p c').
  { intros c'. unfold closed. rewrite F2. cbn. unfold upd. destruct (Nat.eqb c' (nclients p)); reflexivity. }
  apply (lease_abstract k p _ (nclients p) send HI); rewrite ?F1, ?F3, ?F4, ?F5, ?F6, ?F7, ?F8; cbn.
  - lia.
  - intros c' H. rewrite Hcl. destruct (Nat.eqb_spec c' (nclients p)); [lia|reflexivity].
  - lia.
  - rewrite Hcl, Nat.eqb_refl. reflexivity.
  - intros [s [H1 [H2 H3]]]. assert (H := inv_scli _ _ HI s H1). lia.
  - intros; lia.
  - reflexivity.
  - intros s' H. rewrite upd_other by assumption. reflexivity.
  - rewrite upd_same. reflexivity.
  - apply (inv_nodup _ _ HI).
  - intros x. split; [intros H; split; [assumption|]|tauto]. intros ->. destruct (inv_idle _ _ HI _ H). lia.
  - rewrite (inv_total _ _ HI).
    assert (Hnn : nclients (req_inc k (new_client p)) = S (nclients p)) by (unfold req_inc; destruct (k_max_req k =? 0); reflexivity).
    try rewrite Hnn. unfold count_open at 2. rewrite ?F1. change (nclients (new_client p)) with (S (nclients p)).
    cbn [countb]. rewrite Hcl, Nat.eqb_refl. cbn [negb].
    rewrite (countb_ext (fun c' => negb (closed (lease k (nclients p) send (new_client p)) c')) (fun c' => negb (closed p c')) (nclients p)).
    + unfold count_open. lia.
    + intros i Hi. rewrite Hcl. destruct (Nat.eqb_spec i (nclients p)); [lia|reflexivity].
  - reflexivity.
  - reflexivity.
Qed.

Lemma lease_pop_inv : forall k p send, PInv k p -> idle p <> [] ->
  PInv k (lease k (last (idle p) 0%nat) send (p <| idle := removelast (idle p) |>)).
Proof.
  intros k p send HI Hne.
  set (c := last (idle p) 0%nat).
  destruct (lease_fields k c send (p <| idle := removelast (idle p) |>)) as [F1 [F2 [F3 [F4 [F5 [F6 [F7 F8]]]]]]].
  assert (Hsplit := removelast_last_split (idle p) Hne). fold c in Hsplit.
  assert (Hnd := inv_nodup _ _ HI). rewrite Hsplit in Hnd. apply NoDup_app_single in Hnd. destruct Hnd as [Hnd1 Hnd2].
  assert (Hcin : In c (idle p)) by (rewrite Hsplit; apply in_or_app; right; left; reflexivity).
  destruct (inv_idle _ _ HI c Hcin) as [Hc1 [Hc2 Hc3]].
  assert (Hcl : forall c', closed (lease k c send (p <| idle := removelast (idle p) |>)) c' = closed p c').
  { intros c'. unfold closed. rewrite F2. reflexivity. }
  apply (lease_abstract k p _ c send HI); rewrite ?F1, ?F3, ?F4, ?F5, ?F6, ?F7, ?F8; cbn; auto; try (rewrite Hcl; assumption).
  - intros; lia.
  - intros s' H. rewrite upd_other by assumption. reflexivity.
  - rewrite upd_same. reflexivity.
  - intros x. rewrite Hsplit at 2. rewrite in_app_iff. cbn. split.
    + intros H. split; [left; assumption|]. intros ->. contradiction.
    + intros [[H|[H|[]]] Hx]; [assumption|congruence].
  - rewrite (inv_total _ _ HI).
    assert (Hnn : nclients (req_inc k (p <| idle := removelast (idle p) |>)) = nclients p) by (unfold req_inc; destruct (k_max_req k =? 0); reflexivity).
    try rewrite Hnn. unfold count_open. rewrite ?F1. cbn [nclients]. f_equal; try (apply countb_ext; intros; rewrite Hcl; reflexivity).
Qed.

(* ------------------------------------------------------------------------------------------------ *)
(* every operation preserves the invariant *)
Lemma take_client_cases : forall k ok p,
  (exists r, take_client k ok p = (p, None, r) /\ (r = RO \/ r = RF)) \/
  take_client k ok p = (new_client p, Some (nclients p), RN) \/
  (idle p <> [] /\ take_client k ok p = (p <| idle := removelast (idle p) |>, Some (last (idle p) 0%nat), RN)).
Proof.
  intros k ok p. unfold take_client. destruct (idle p) as [|x l] eqn:E.
  - destruct (match k_kind k with Http1 => _ | PingPong => _ end); [destruct ok|]; eauto 6.
  - destruct (negb (k_max_conn k =? 0) && (k_max_conn k <? total p - Z.of_nat (length (x :: l)) + 1)); [eauto 6|].
    right. right. split; [discriminate|reflexivity].
Qed.

Lemma can_create_take : forall k ok p, can_create k (fst (fst (take_client k ok p))) = can_create k p.
Proof.
  intros k ok p. destruct (take_client_cases k ok p) as [[r [-> _]]|[->|[_ ->]]]; reflexivity.
Qed.

Lemma new_stream_fixed : forall k ok send p, k_sw k = sw_fixed ->
  new_stream k ok send p =
    if negb (can_create k p) then (p, RO)
    else match take_client k ok p with
         | (p1, Some c, _) => (lease k c send p1, RL c)
         | (p1, None, r) => (p1, r)
         end.
Proof.
  intros k ok send p Hsw. unfold new_stream.
  assert (Hcf : match k_kind k with Http1 => sw_http_check_first (k_sw k) | PingPong => true end = true).
  { rewrite Hsw. destruct (k_kind k); reflexivity. }
  rewrite Hcf. cbn [andb]. destruct (can_create k p) eqn:Ecc; cbn [negb]; [|reflexivity].
  pose proof (can_create_take k ok p) as H. destruct (take_client k ok p) as [[p1 [c|]] r]; cbn in H; [|reflexivity].
  rewrite H, Ecc. reflexivity.
Qed.

Lemma new_stream_inv : forall k ok send p, k_sw k = sw_fixed -> PInv k p -> PInv k (fst (new_stream k ok send p)).
Proof.
  intros k ok send p Hsw HI. rewrite new_stream_fixed by assumption.
  destruct (negb (can_create k p)); [assumption|].
  destruct (take_client_cases k ok p) as [[r [-> _]]|[->|[Hne ->]]]; cbn [fst].
  - assumption.
  - apply lease_new_inv. assumption.
  - apply lease_pop_inv; assumption.
Qed.

Lemma step_inv : forall k p o, k_sw k = sw_fixed -> PInv k p -> PInv k (fst (step k p o)).
Proof.
  intros k p o Hsw HI. destruct o as [d send|s|s cc|s|s|c ev|c| |inc]; cbn [step].
  - apply new_stream_inv; assumption.
  - destruct (Nat.ltb_spec s (nstreams p)) as [Hs|]; cbn [andb]; [|assumption].
    destruct (live p s) eqn:Hl; cbn [andb]; [|assumption].
    destruct (sent p s); cbn [negb fst]; [assumption|].
    destruct (closed p (scli p s)) eqn:Ecl.
    + apply reset_stream_inv; assumption.
    + apply set_sent_inv; assumption.
  - destruct (Nat.ltb_spec s (nstreams p)) as [Hs|]; cbn [andb]; [|assumption].
    destruct (live p s) eqn:Hl; cbn [andb]; [|assumption].
    destruct (sent p s) eqn:Hsent; cbn [fst]; [|assumption].
    set (p1 := match k_kind k with Http1 => if cc then set_cconn p (scli p s) else p | PingPong => p end).
    assert (HI1 : PInv k p1) by (unfold p1; destruct (k_kind k); [destruct cc; [apply set_cconn_inv|]|]; assumption).
    assert (Hsame : nstreams p1 = nstreams p /\ st p1 = st p) by (unfold p1; destruct (k_kind k); [destruct cc|]; auto).
    destruct Hsame as [Hn1 Hst1].
    assert (Hl1 : live p1 s = true) by (unfold live; rewrite Hst1; exact Hl).
    apply deliver_inv.
    + apply destroy_inv; auto. rewrite Hn1. assumption.
    + destruct (destroy_frame k p1 s) as [_ [-> _]]. rewrite Hn1. assumption.
    + rewrite destroy_live, Nat.eqb_refl. reflexivity.
    + destruct (destroy_recv_reset k p1 s s) as [-> _]. rewrite Hst1.
      destruct (inv_once _ _ HI s Hs) as [_ [_ H]]. apply H. assumption.
  - destruct (Nat.ltb_spec s (nstreams p)) as [Hs|]; cbn [fst]; [|assumption]. apply reset_stream_inv; assumption.
  - destruct (Nat.ltb_spec s (nstreams p)) as [Hs|]; cbn [andb fst]; [|assumption].
    destruct (match k_kind k with Http1 => sent p s | PingPong => true end); cbn [fst]; [|assumption].
    apply reset_stream_inv; assumption.
  - cbn [fst]. apply conn_close_inv; assumption.
  - destruct (k_kind k); cbn [fst]; [assumption|]. destruct (Nat.ltb c (nclients p)); cbn [fst]; [apply set_cconn_inv|]; assumption.
  - cbn [fst]. apply set_cconn_fold_inv. assumption.
  - destruct HI as [I1 I2 I3 I4 I5 I6 I7 I8 I9 I10 I11].
    destruct inc; [|destruct (0 <? ext p) eqn:Ee]; cbn [fst]; try (constructor; assumption);
      constructor; cbn; try assumption; unfold count_live, live in *; cbn; lia.
Qed.

Theorem run_inv : forall k ops p, k_sw k = sw_fixed -> PInv k p -> PInv k (run k ops p).
Proof.
  intros k ops. unfold run. induction ops as [|o ops IH]; cbn [fold_left]; intros p Hsw HI; [assumption|].
  apply IH; [assumption|]. apply step_inv; assumption.
Qed.

Theorem reachable_inv : forall k ops, k_sw k = sw_fixed -> PInv k (run k ops init).
Proof. intros. apply run_inv; [assumption|apply init_inv]. Qed.

(* ------------------------------------------------------------------------------------------------ *)
(* consequences of the invariant, in the vocabulary of the property *)

(* number of live streams on client c *)
Definition inflight (p : pool) (c : nat) : nat := countb (fun s => live p s && Nat.eqb (scli p s) c) (nstreams p).
Definition has_live (p : pool) (c : nat) : bool := existsb (fun s => live p s && Nat.eqb (scli p s) c) (seq 0 (nstreams p)).
Definition memb (c : nat) (l : list nat) : bool := existsb (Nat.eqb c) l.
(* connections that are open and leased to a stream *)
Definition count_leased (p : pool) : nat := countb (fun c => negb (closed p c) && has_live p c) (nclients p).

Lemma countb_zero : forall f n, (forall i, (i < n)%nat -> f i = false) -> countb f n = 0%nat.
Proof. induction n; cbn [countb]; intros H; [reflexivity|]. rewrite (H n) by lia. rewrite IHn; [reflexivity|]. intros; apply H; lia. Qed.

Lemma countb_le1 : forall f n, (forall i j, (i < n)%nat -> (j < n)%nat -> f i = true -> f j = true -> i = j) -> (countb f n <= 1)%nat.
Proof.
  induction n as [|n IH]; cbn [countb]; intros H; [lia|].
  destruct (f n) eqn:E.
  - rewrite countb_zero; [lia|]. intros i Hi. destruct (f i) eqn:Ei; [|reflexivity].
    assert (i = n) by (apply H; auto; lia). lia.
  - assert ((countb f n <= 1)%nat) by (apply IH; intros; apply H; auto; lia). lia.
Qed.

Lemma memb_In : forall c l, memb c l = true <-> In c l.
Proof.
  intros c l. unfold memb. rewrite existsb_exists. split.
  - intros [x [H1 H2]]. apply Nat.eqb_eq in H2. subst. assumption.
  - intros H. exists c. split; [assumption|apply Nat.eqb_refl].
Qed.

Lemma has_live_leased : forall p c, has_live p c = true <-> leased p c.
Proof.
  intros p c. unfold has_live, leased. rewrite existsb_exists. split.
  - intros [s [H1 H2]]. apply in_seq in H1. apply andb_true_iff in H2. destruct H2 as [H2 H3]. apply Nat.eqb_eq in H3.
    exists s. split; [lia|auto].
  - intros [s [H1 [H2 H3]]]. exists s. split; [apply in_seq; lia|]. rewrite H2, H3, Nat.eqb_refl. reflexivity.
Qed.

Lemma countb_split : forall f g n, countb f n = (countb (fun i => f i && g i) n + countb (fun i => f i && negb (g i)) n)%nat.
Proof. induction n; cbn [countb]; [reflexivity|]. rewrite IHn. destruct (f n), (g n); cbn; lia. Qed.

Lemma countb_members : forall f n l, NoDup l -> (forall x, In x l -> (x < n)%nat /\ f x = true) ->
  countb (fun c => f c && memb c l) n = length l.
Proof.
  induction n as [|n IH]; intros l Hnd Hl.
  - destruct l as [|x l]; [reflexivity|]. destruct (Hl x (or_introl eq_refl)). lia.
  - cbn [countb]. destruct (memb n l) eqn:Em.
    + apply memb_In in Em. destruct (Hl n Em) as [_ Hf]. rewrite Hf. cbn [andb].
      rewrite <- (remove1_length_in n l Em). cbn [Nat.add]. f_equal.
      rewrite <- (IH (remove1 n l)).
      * apply countb_ext. intros i Hi. f_equal.
        destruct (memb i l) eqn:E1; destruct (memb i (remove1 n l)) eqn:E2; auto.
        -- apply memb_In in E1. assert (In i (remove1 n l)) by (apply remove1_spec; auto; split; [assumption|lia]).
           apply memb_In in H. congruence.
        -- apply memb_In in E2. apply remove1_In in E2. apply memb_In in E2. congruence.
      * apply remove1_NoDup. assumption.
      * intros x Hx. apply remove1_spec in Hx; [|assumption]. destruct Hx as [Hx Hne]. destruct (Hl x Hx). split; [lia|assumption].
    + rewrite andb_false_r. cbn. apply IH; [assumption|].
      intros x Hx. destruct (Hl x Hx). split; [|assumption].
      assert (x <> n) by (intros ->; apply memb_In in Hx; congruence). lia.
Qed.

Section Consequences.
  Variable k : cfg.
  Variable p : pool.
  Hypothesis HI : PInv k p.

  (* no connection carries two in-flight requests *)
  Lemma inflight_le1 : forall c, (inflight p c <= 1)%nat.
  Proof.
    intros c. unfold inflight. apply countb_le1. intros i j Hi Hj Fi Fj.
    apply andb_true_iff in Fi, Fj. destruct Fi as [Li Ci], Fj as [Lj Cj]. apply Nat.eqb_eq in Ci, Cj.
    apply (inv_excl _ _ HI); auto. congruence.
  Qed.

  (* each connection is in exactly one of the states closed / leased / idle *)
  Lemma client_state : forall c, (c < nclients p)%nat ->
    (closed p c = true /\ ~ In c (idle p)) \/
    (closed p c = false /\ leased p c /\ ~ In c (idle p)) \/
    (closed p c = false /\ ~ leased p c /\ In c (idle p)).
  Proof.
    intros c Hc. destruct (closed p c) eqn:E.
    - left. split; [reflexivity|]. intros Hin. destruct (inv_idle _ _ HI c Hin) as [_ [H _]]. congruence.
    - right. destruct (inv_nolost _ _ HI c Hc E) as [Hin|Hl].
      + right. destruct (inv_idle _ _ HI c Hin) as [_ [_ H]]. auto.
      + left. split; [reflexivity|]. split; [assumption|]. intros Hin. destruct (inv_idle _ _ HI c Hin) as [_ [_ H]]. contradiction.
  Qed.

  (* the books: totalClientCount is the number of open connections = leased + idle *)
  Lemma books_total_open : total p = Z.of_nat (count_open p).
  Proof. apply (inv_total _ _ HI). Qed.

  Lemma books_partition : count_open p = (count_leased p + length (idle p))%nat.
  Proof.
    unfold count_open, count_leased.
    rewrite (countb_split (fun c => negb (closed p c)) (fun c => memb c (idle p))).
    rewrite (countb_members (fun c => negb (closed p c)) (nclients p) (idle p)).
    - rewrite Nat.add_comm. f_equal. apply countb_ext. intros c Hc.
      destruct (closed p c) eqn:E; cbn [negb andb]; [reflexivity|].
      destruct (client_state c Hc) as [[H _]|[[_ [H1 H2]]|[_ [H1 H2]]]]; [congruence| |].
      + apply has_live_leased in H1. rewrite H1. destruct (memb c (idle p)) eqn:Em; [apply memb_In in Em; contradiction|reflexivity].
      + apply memb_In in H2. rewrite H2. cbn. destruct (has_live p c) eqn:Eh; [apply has_live_leased in Eh; contradiction|reflexivity].
    - apply (inv_nodup _ _ HI).
    - intros x Hx. destruct (inv_idle _ _ HI x Hx) as [H1 [H2 _]]. rewrite H2. auto.
  Qed.

  Lemma books : total p = Z.of_nat (count_leased p) + Z.of_nat (length (idle p)) /\
                total p = Z.of_nat (count_open p) /\ NoDup (idle p) /\
                (forall c, In c (idle p) -> (c < nclients p)%nat /\ closed p c = false /\ inflight p c = 0%nat).
  Proof.
    split; [rewrite books_total_open, books_partition; lia|]. split; [apply books_total_open|]. split; [apply (inv_nodup _ _ HI)|].
    intros c Hin. destruct (inv_idle _ _ HI c Hin) as [H1 [H2 H3]]. split; [assumption|]. split; [assumption|].
    unfold inflight. apply countb_zero. intros s Hs. destruct (live p s) eqn:El; [|reflexivity].
    destruct (Nat.eqb_spec (scli p s) c) as [E|E]; [|reflexivity]. exfalso. apply H3. exists s. auto.
  Qed.

  (* the Requests resource counts exactly the live streams (plus what others hold) and is never negative *)
  Lemma requests_balanced : req p = Z.of_nat (count_live p) + ext p /\ 0 <= req p.
  Proof.
    split; [apply (inv_req _ _ HI)|]. rewrite (inv_req _ _ HI). pose proof (inv_ext _ _ HI). destruct (k_max_req k =? 0); lia.
  Qed.

  (* a stream that ended in a reset leaves its connection closed, hence neither idle nor leased again *)
  Lemma reset_connection_closed : forall s, (s < nstreams p)%nat -> live p s = false -> s_reset (st p s) <> 0%nat ->
    closed p (scli p s) = true /\ ~ In (scli p s) (idle p) /\
    (forall s', (s' < nstreams p)%nat -> live p s' = true -> scli p s' = scli p s -> k_kind k = Http1 /\ sent p s' = false).
  Proof.
    intros s Hs Hl Hr. assert (Hc := inv_dirty _ _ HI s Hs Hl Hr). split; [assumption|]. split.
    - intros Hin. destruct (inv_idle _ _ HI _ Hin) as [_ [H _]]. congruence.
    - intros s' Hs' Hl' E. apply (inv_held _ _ HI s' Hs' Hl'). rewrite E. assumption.
  Qed.

  (* OnDestroyStream effects occur once per stream; at most one response is delivered per stream *)
  Lemma destroy_once : forall s, (s < nstreams p)%nat ->
    (s_destroys (st p s) <= 1)%nat /\ (s_recv (st p s) <= 1)%nat /\ (s_destroys (st p s) = 1%nat <-> live p s = false).
  Proof.
    intros s Hs. destruct (inv_once _ _ HI s Hs) as [H1 [H2 _]]. destruct (live p s); rewrite H1; split; try lia; split; try lia; split; intros; try lia; congruence.
  Qed.
End Consequences.

(* ------------------------------------------------------------------------------------------------ *)
(* step-level facts *)

Lemma note_reset_idle : forall p s r, idle (note_reset p s r) = idle p.
Proof. reflexivity. Qed.
Lemma note_reset_closed : forall p s r c, closed (note_reset p s r) c = closed p c.
Proof. reflexivity. Qed.

Lemma reset_stream_idle_sub : forall k p s r x, k_sw k = sw_fixed -> NoDup (idle p) ->
  In x (idle (reset_stream k s r p)) -> In x (idle p).
Proof.
  intros k p s r x Hsw Hnd. unfold reset_stream. destruct (live p s); [|auto].
  rewrite reset_marks_fixed by assumption. cbn [andb]. rewrite note_reset_idle.
  destruct (closed p (scli p s)) eqn:Ecl; cbn [negb]; intros H.
  - apply destroy_idle_sub in H; auto. destruct H as [H|[-> [H _]]]; [assumption|congruence].
  - apply destroy_idle_sub in H; auto. destruct H as [H|[-> [_ H]]]; [exact H|].
    exfalso. unfold cconn, set_cconn in H. cbn in H. unfold scli in H. cbn in H. rewrite upd_same in H. discriminate.
Qed.

(* after a reset of a live stream (local reset / time-out, remote reset, failed write) its connection is closed *)
Lemma reset_stream_closes : forall k p s r, k_sw k = sw_fixed -> live p s = true ->
  closed (reset_stream k s r p) (scli p s) = true.
Proof.
  intros k p s r Hsw Hl. unfold reset_stream. rewrite Hl. rewrite reset_marks_fixed by assumption. cbn [andb].
  rewrite note_reset_closed.
  set (p1 := if negb (closed p (scli p s)) then set_cconn p (scli p s) else p).
  assert (Hc1 : scli p1 s = scli p s) by (unfold p1; destruct (negb (closed p (scli p s))); reflexivity).
  pose proof (destroy_closed k p1 s Hsw) as Hd. rewrite Hc1 in Hd. apply Hd.
  unfold p1. destruct (closed p (scli p s)) eqn:E; cbn [negb]; [left; exact E|right].
  unfold cconn, set_cconn. cbn. rewrite upd_same. reflexivity.
Qed.

Lemma close_client_idle_sub : forall k c p x, NoDup (idle p) -> In x (idle (close_client k c p)) -> In x (idle p).
Proof.
  intros k c p x Hnd. unfold close_client. destruct (closed p c); [auto|]. cbn. intros H. apply idle_remove_spec in H; tauto.
Qed.

Lemma close_client_nodup : forall k c p, NoDup (idle p) -> NoDup (idle (close_client k c p)).
Proof. intros k c p Hnd. unfold close_client. destruct (closed p c); [auto|]. cbn. apply idle_remove_NoDup. assumption. Qed.

Lemma fold_set_cconn_idle : forall l p, idle (fold_left set_cconn l p) = idle p.
Proof. induction l as [|c l IH]; cbn; intros p; [reflexivity|]. rewrite IH. reflexivity. Qed.

Lemma removelast_In : forall (l : list nat) x, In x (removelast l) -> In x l.
Proof.
  intros l x H. destruct l as [|y l']; [assumption|]. rewrite (removelast_last_split (y :: l')) by discriminate.
  apply in_or_app. left. assumption.
Qed.

(* The ONLY way into the idle list: the clean completion of an exchange (a response to a request that was
   written, on a stream that was never reset, without "Connection: close"/go-away mark). *)
Lemma idle_only_by_clean_completion : forall k p o x, k_sw k = sw_fixed -> PInv k p ->
  In x (idle (fst (step k p o))) -> ~ In x (idle p) ->
  exists s cc, o = Response s cc /\ (s < nstreams p)%nat /\ scli p s = x /\ live p s = true /\ sent p s = true /\
               s_reset (st p s) = 0%nat /\ closed p x = false /\ (k_kind k = Http1 -> cc = false).
Proof.
  intros k p o x Hsw HI Hin Hnot. assert (Hnd := inv_nodup _ _ HI).
  destruct o as [d send|s|s cc|s|s|c ev|c| |inc]; cbn [step] in Hin.
  - exfalso. apply Hnot. rewrite new_stream_fixed in Hin by assumption.
    destruct (negb (can_create k p)); [exact Hin|].
    destruct (take_client_cases k (dial_ok d) p) as [[r [E _]]|[E|[Hne E]]]; rewrite E in Hin; cbn [fst] in Hin.
    + exact Hin.
    + destruct (lease_fields k (nclients p) send (new_client p)) as [_ [_ [_ [_ [F _]]]]]. rewrite F in Hin. exact Hin.
    + destruct (lease_fields k (last (idle p) 0%nat) send (p <| idle := removelast (idle p) |>)) as [_ [_ [_ [_ [F _]]]]].
      rewrite F in Hin. cbn in Hin. apply removelast_In. exact Hin.
  - exfalso. apply Hnot.
    destruct (Nat.ltb s (nstreams p) && live p s && negb (sent p s)); cbn [fst] in Hin; [|exact Hin].
    destruct (closed p (scli p s)); [apply reset_stream_idle_sub in Hin; auto|exact Hin].
  - destruct (Nat.ltb_spec s (nstreams p)) as [Hs|]; cbn [andb] in Hin; [|contradiction].
    destruct (live p s) eqn:Hl; cbn [andb] in Hin; [|contradiction].
    destruct (sent p s) eqn:Hsent; cbn [fst] in Hin; [|contradiction].
    change (idle (deliver ?q s)) with (idle q) in Hin.
    set (p1 := match k_kind k with Http1 => if cc then set_cconn p (scli p s) else p | PingPong => p end) in Hin.
    assert (Hi1 : idle p1 = idle p) by (unfold p1; destruct (k_kind k); [destruct cc|]; reflexivity).
    assert (Hc1 : scli p1 s = scli p s) by (unfold p1; destruct (k_kind k); [destruct cc|]; reflexivity).
    assert (Hcl1 : forall c, closed p1 c = closed p c).
    { intros c. unfold p1. destruct (k_kind k); [destruct cc|]; try reflexivity.
      unfold closed, set_cconn. cbn. unfold upd. destruct (Nat.eqb_spec c (scli p s)) as [->|]; reflexivity. }
    apply destroy_idle_sub in Hin; [|assumption|rewrite Hi1; assumption].
    rewrite Hi1, Hc1, Hcl1 in Hin. destruct Hin as [Hin|[-> [Hcl Hcc]]]; [contradiction|].
    exists s, cc. repeat split; auto.
    + destruct (inv_once _ _ HI s Hs) as [_ [_ H]]. apply H. assumption.
    + intros Hk. destruct cc; [|reflexivity]. exfalso. unfold p1 in Hcc. rewrite Hk in Hcc.
      unfold cconn, set_cconn in Hcc. cbn in Hcc. rewrite upd_same in Hcc. discriminate.
  - exfalso. apply Hnot. destruct (Nat.ltb s (nstreams p)); cbn [fst] in Hin; [|exact Hin].
    apply reset_stream_idle_sub in Hin; auto.
  - exfalso. apply Hnot.
    destruct (Nat.ltb s (nstreams p) && match k_kind k with Http1 => sent p s | PingPong => true end); cbn [fst] in Hin; [|exact Hin].
    apply reset_stream_idle_sub in Hin; auto.
  - exfalso. apply Hnot. cbn [fst] in Hin. unfold conn_close in Hin.
    destruct (Nat.ltb c (nclients p) && negb (closed p c)); [|exact Hin].
    destruct (find_live p c (nstreams p)) as [s|].
    + destruct (match k_kind k with Http1 => sent p s | PingPong => true end).
      * apply reset_stream_idle_sub in Hin; [|assumption|apply close_client_nodup; assumption].
        apply close_client_idle_sub in Hin; assumption.
      * apply close_client_idle_sub in Hin; assumption.
    + apply close_client_idle_sub in Hin; assumption.
  - exfalso. apply Hnot. destruct (k_kind k); cbn [fst] in Hin; [exact Hin|].
    destruct (Nat.ltb c (nclients p)); exact Hin.
  - exfalso. apply Hnot. cbn [fst] in Hin. rewrite fold_set_cconn_idle in Hin. exact Hin.
  - exfalso. apply Hnot. destruct inc; [exact Hin|]. destruct (0 <? ext p); exact Hin.
Qed.

(* after a local reset / time-out or a remote reset of a stream in flight, the connection's next state is closed *)
Lemma local_reset_closes : forall k p s, k_sw k = sw_fixed -> (s < nstreams p)%nat -> live p s = true ->
  closed (fst (step k p (LocalReset s))) (scli p s) = true.
Proof.
  intros k p s Hsw Hs Hl. cbn [step]. destruct (Nat.ltb_spec s (nstreams p)); [|lia]. cbn [fst].
  apply reset_stream_closes; assumption.
Qed.
Lemma remote_reset_closes : forall k p s, k_sw k = sw_fixed -> (s < nstreams p)%nat -> live p s = true -> sent p s = true ->
  closed (fst (step k p (RemoteReset s))) (scli p s) = true.
Proof.
  intros k p s Hsw Hs Hl Hse. cbn [step]. destruct (Nat.ltb_spec s (nstreams p)); [|lia]. rewrite Hse.
  destruct (k_kind k); cbn [andb fst]; apply reset_stream_closes; assumption.
Qed.

(* a refused request (overflow, connect failure) changes nothing: nothing is taken, nothing is lost *)
Lemma refused_unchanged : forall k p d send, k_sw k = sw_fixed ->
  (forall c, snd (step k p (NewStream d send)) <> RL c) -> fst (step k p (NewStream d send)) = p.
Proof.
  intros k p d send Hsw H. cbn [step] in *. rewrite new_stream_fixed in * by assumption.
  destruct (negb (can_create k p)); [reflexivity|].
  destruct (take_client_cases k (dial_ok d) p) as [[r [E _]]|[E|[Hne E]]]; rewrite E in *; cbn [fst snd] in *.
  - reflexivity.
  - exfalso. apply (H (nclients p)). reflexivity.
  - exfalso. apply (H (last (idle p) 0%nat)). reflexivity.
Qed.

(* capacity: whenever fewer than max_connections connections are leased (total - idle of them are) and the
   Requests limit accepts one more, a NewStream that can connect succeeds *)
Lemma capacity_available : forall k p send, k_sw k = sw_fixed ->
  can_create k p = true ->
  (k_max_conn k = 0 \/ total p - Z.of_nat (length (idle p)) < k_max_conn k) ->
  exists c, snd (step k p (NewStream DialOk send)) = RL c.
Proof.
  intros k p send Hsw Hcc Hroom. cbn [step dial_ok]. rewrite new_stream_fixed by assumption. rewrite Hcc. cbn [negb].
  unfold take_client. destruct (idle p) as [|x l] eqn:Ei.
  - cbn [length] in Hroom.
    assert (Hr : match k_kind k with Http1 => (k_max_conn k =? 0) || (total p + 1 <=? k_max_conn k)
                                | PingPong => (k_max_conn k =? 0) || (total p <? k_max_conn k) end = true).
    { destruct (k_kind k); lia. }
    rewrite Hr. eexists. reflexivity.
  - assert (Hr : negb (k_max_conn k =? 0) && (k_max_conn k <? total p - Z.of_nat (length (x :: l)) + 1) = false) by lia.
    rewrite Hr. eexists. reflexivity.
Qed.

(* ------------------------------------------------------------------------------------------------ *)
(* the statements used by Props/C09.v, over ALL histories *)
Definition is_leased_state (p : pool) (c : nat) : Prop := closed p c = false /\ inflight p c = 1%nat /\ ~ In c (idle p).
Definition is_idle_state (p : pool) (c : nat) : Prop := closed p c = false /\ inflight p c = 0%nat /\ In c (idle p).
Definition is_closed_state (p : pool) (c : nat) : Prop := closed p c = true /\ ~ In c (idle p).

Lemma inflight_leased : forall p c, (inflight p c >= 1)%nat <-> leased p c.
Proof.
  intros p c. unfold inflight, leased. split.
  - intros H. assert (exists s, (s < nstreams p)%nat /\ (live p s && Nat.eqb (scli p s) c) = true) as [s [H1 H2]].
    { revert H. generalize (nstreams p). induction n as [|n IH]; cbn [countb]; intros H; [lia|].
      destruct (live p n && Nat.eqb (scli p n) c) eqn:E; [exists n; split; [lia|assumption]|].
      destruct IH as [s [H1 H2]]; [lia|]. exists s. split; [lia|assumption]. }
    apply andb_true_iff in H2. destruct H2 as [H2 H3]. apply Nat.eqb_eq in H3. exists s. auto.
  - intros [s [H1 [H2 H3]]]. revert H1. generalize (nstreams p). induction n as [|n IH]; cbn [countb]; intros H1; [lia|].
    destruct (Nat.eq_dec s n) as [->|Hne]; [rewrite H2, H3, Nat.eqb_refl; cbn; lia|].
    assert ((countb (fun s0 => live p s0 && Nat.eqb (scli p s0) c) n >= 1)%nat) by (apply IH; lia). lia.
Qed.

Theorem pool_exclusive_lease : forall k ops, k_sw k = sw_fixed -> let p := run k ops init in
  (forall c, (inflight p c <= 1)%nat) /\
  (forall c, (c < nclients p)%nat -> is_closed_state p c \/ is_leased_state p c \/ is_idle_state p c) /\
  (forall c, ~ (is_closed_state p c /\ is_leased_state p c) /\ ~ (is_closed_state p c /\ is_idle_state p c) /\
             ~ (is_leased_state p c /\ is_idle_state p c)).
Proof.
  intros k ops Hsw p. assert (HI := reachable_inv k ops Hsw). fold p in HI.
  split; [apply (inflight_le1 k p HI)|]. split.
  - intros c Hc. destruct (client_state k p HI c Hc) as [H|[[H1 [H2 H3]]|[H1 [H2 H3]]]].
    + left. exact H.
    + right. left. split; [assumption|]. split; [|assumption].
      apply inflight_leased in H2. pose proof (inflight_le1 k p HI c). lia.
    + right. right. split; [assumption|]. split; [|assumption].
      destruct (Nat.eq_dec (inflight p c) 0) as [E|E]; [assumption|]. exfalso. apply H2. apply inflight_leased. lia.
  - intros c. unfold is_closed_state, is_leased_state, is_idle_state. repeat split; intros [[A1 A2] [B1 B2]]; try congruence; tauto.
Qed.

Theorem pool_books : forall k ops, k_sw k = sw_fixed -> let p := run k ops init in
  total p = Z.of_nat (count_open p) /\
  total p = Z.of_nat (count_leased p) + Z.of_nat (length (idle p)) /\
  NoDup (idle p) /\
  (forall c, In c (idle p) -> (c < nclients p)%nat /\ closed p c = false /\ inflight p c = 0%nat) /\
  req p = Z.of_nat (count_live p) + ext p /\ 0 <= req p.
Proof.
  intros k ops Hsw p. assert (HI := reachable_inv k ops Hsw). fold p in HI.
  destruct (books k p HI) as [B1 [B2 [B3 B4]]]. destruct (requests_balanced k p HI) as [R1 R2]. auto 10.
Qed.

Theorem pool_no_dirty_reuse : forall k ops, k_sw k = sw_fixed -> let p := run k ops init in
  (* a connection whose exchange was reset is closed: not idle, and no later stream was or will be leased on it *)
  (forall s, (s < nstreams p)%nat -> live p s = false -> s_reset (st p s) <> 0%nat ->
     closed p (scli p s) = true /\ ~ In (scli p s) (idle p)) /\
  (* the idle list grows only by the clean completion of an exchange *)
  (forall o x, In x (idle (fst (step k p o))) -> ~ In x (idle p) ->
     exists s cc, o = Response s cc /\ (s < nstreams p)%nat /\ scli p s = x /\ live p s = true /\ sent p s = true /\
                  s_reset (st p s) = 0%nat /\ closed p x = false /\ (k_kind k = Http1 -> cc = false)) /\
  (* after a local reset / time-out or a remote reset the connection's next state is closed *)
  (forall s, (s < nstreams p)%nat -> live p s = true -> closed (fst (step k p (LocalReset s))) (scli p s) = true) /\
  (forall s, (s < nstreams p)%nat -> live p s = true -> sent p s = true ->
     closed (fst (step k p (RemoteReset s))) (scli p s) = true).
Proof.
  intros k ops Hsw p. assert (HI := reachable_inv k ops Hsw). fold p in HI. split; [|split; [|split]].
  - intros s H1 H2 H3. destruct (reset_connection_closed k p HI s H1 H2 H3) as [A [B _]]. auto.
  - intros o x. apply idle_only_by_clean_completion; assumption.
  - intros s H1 H2. apply local_reset_closes; assumption.
  - intros s H1 H2 H3. apply remote_reset_closes; assumption.
Qed.

Theorem pool_capacity_returns : forall k ops, k_sw k = sw_fixed -> let p := run k ops init in
  (* a refused request (overflow / connect failure) leaves the pool exactly as it was *)
  (forall d send, (forall c, snd (step k p (NewStream d send)) <> RL c) -> fst (step k p (NewStream d send)) = p) /\
  (* count_leased p = total - idle connections are leased; below max_connections (and within max_requests) NewStream succeeds *)
  (forall send, can_create k p = true ->
     (k_max_conn k = 0 \/ Z.of_nat (count_leased p) < k_max_conn k) ->
     exists c, snd (step k p (NewStream DialOk send)) = RL c).
Proof.
  intros k ops Hsw p. assert (HI := reachable_inv k ops Hsw). fold p in HI. split.
  - intros d send. apply refused_unchanged. assumption.
  - intros send Hcc Hroom. apply capacity_available; auto.
    destruct (books k p HI) as [B1 _]. destruct Hroom as [H|H]; [left; assumption|right; lia].
Qed.

Theorem pool_destroy_once : forall k ops, k_sw k = sw_fixed -> let p := run k ops init in
  forall s, (s < nstreams p)%nat ->
    (s_destroys (st p s) <= 1)%nat /\ (s_recv (st p s) <= 1)%nat /\ (s_destroys (st p s) = 1%nat <-> live p s = false).
Proof.
  intros k ops Hsw p. assert (HI := reachable_inv k ops Hsw). fold p in HI. apply (destroy_once k p HI).
Qed.
