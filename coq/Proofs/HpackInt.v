(* Proofs/HpackInt.v (group h2): the HPACK integer codec (appendVarInt / readVarInt). *)
From Coq Require Import List NArith Lia Bool.
From Coq Require Import ZifyBool ZifyNat ZifyN.
From MV Require Import Lib.HBits Model.Hpack.
Import ListNotations.
Open Scope N_scope.

Lemma pow2_pos : forall m, 0 < 2 ^ m.
Proof. intro m. apply N.neq_0_lt_0. apply N.pow_nonzero. discriminate. Qed.

Lemma pow2_add7 : forall m, 2 ^ (m + 7) = 2 ^ m * 128.
Proof. intro m. rewrite N.pow_add_r. reflexivity. Qed.

Lemma u64_small : forall x, x < 18446744073709551616 -> u64 x = x.
Proof. intros x H. unfold u64. apply N.mod_small. exact H. Qed.

(* the continuation loop inverts enc_cont *)
Lemma dec_cont_enc : forall fuel j acc m rest,
  (0 < fuel)%nat ->
  j < 2 ^ (7 * N.of_nat fuel) ->
  j * 2 ^ m < 2 ^ 63 ->
  acc + j * 2 ^ m < 2 ^ 64 ->
  dec_cont (enc_cont fuel j ++ rest) acc m = HOk (acc + j * 2 ^ m, rest).
Proof.
  induction fuel as [|fuel IH]; intros j acc m rest Hf Hj H63 H64.
  - lia.
  - cbn [enc_cont]. destruct (j <? 128) eqn:E.
    + apply N.ltb_lt in E. cbn [app dec_cont].
      rewrite (N.mod_small j 128) by exact E.
      assert (Hlt : (j <? 128) = true) by (apply N.ltb_lt; exact E). rewrite Hlt.
      rewrite u64_small; [reflexivity|]. change 18446744073709551616 with (2 ^ 64). exact H64.
    + apply N.ltb_ge in E. cbn [app dec_cont].
      pose proof (N.mod_lt j 128 ltac:(discriminate)) as Hm.
      pose proof (N.div_mod j 128 ltac:(discriminate)) as Hdm.
      assert (Hb : (128 + j mod 128) mod 128 = j mod 128).
      { rewrite N.add_mod by discriminate. rewrite N.mod_same by discriminate. cbn [N.add].
        rewrite N.mod_mod by discriminate. rewrite N.mod_small; [reflexivity | exact Hm]. }
      rewrite Hb.
      assert (Hnlt : (128 + j mod 128 <? 128) = false) by (apply N.ltb_ge; lia). rewrite Hnlt.
      pose proof (pow2_pos m) as Hp.
      assert (Hm7 : m + 7 < 63).
      { destruct (N.lt_ge_cases (m + 7) 63) as [|Hge]; [assumption|].
        exfalso. assert (2 ^ 63 <= 2 ^ (m + 7)) by (apply N.pow_le_mono_r; [discriminate | exact Hge]).
        rewrite pow2_add7 in H. nia. }
      assert (Hcmp : (63 <=? m + 7) = false) by (apply N.leb_gt; exact Hm7). rewrite Hcmp.
      assert (Hpart : acc + (j mod 128) * 2 ^ m < 2 ^ 64) by nia.
      rewrite u64_small by (change 18446744073709551616 with (2 ^ 64); exact Hpart).
      assert (Hdiv : j / 128 < 2 ^ (7 * N.of_nat fuel)).
      { replace (7 * N.of_nat (S fuel)) with (7 * N.of_nat fuel + 7) in Hj by lia.
        rewrite pow2_add7 in Hj. apply N.div_lt_upper_bound; [discriminate | lia]. }
      assert (Hd1 : 1 <= j / 128) by (apply N.div_le_lower_bound; [discriminate | lia]).
      rewrite IH.
      * f_equal. f_equal. rewrite pow2_add7. nia.
      * destruct fuel; [|lia]. exfalso. change (2 ^ (7 * N.of_nat 0)) with 1 in Hdiv. lia.
      * exact Hdiv.
      * rewrite pow2_add7. nia.
      * rewrite pow2_add7. nia.
Qed.

(* c18_int_roundtrip: for every prefix size 1..8, every flag occupying the bits above the prefix,
   every i < 2^63 (readVarInt's own limit) and every continuation of the input *)
Theorem int_roundtrip : forall n flag i rest,
  1 <= n <= 8 -> flag mod 2 ^ n = 0 -> i < 2 ^ 63 ->
  dec_int n (or_first flag (enc_int n i) ++ rest) = HOk (i, rest).
Proof.
  intros n flag i rest Hn Hflag Hi.
  unfold dec_int.
  assert (E1 : ((n <? 1) || (8 <? n)) = false) by lia. rewrite E1.
  pose proof (pow2_pos n) as Hp.
  assert (Hk : 2 ^ n <= 256).
  { change 256 with (2 ^ 8). apply N.pow_le_mono_r; [discriminate | lia]. }
  unfold enc_int. destruct (i <? 2 ^ n - 1) eqn:E.
  - apply N.ltb_lt in E. cbn [or_first app].
    assert (Hmod : (flag + i) mod 2 ^ n = i).
    { rewrite N.add_mod by lia. rewrite Hflag. cbn [N.add]. rewrite N.mod_mod by lia.
      apply N.mod_small. lia. }
    rewrite Hmod. assert (E2 : (i <? 2 ^ n - 1) = true) by (apply N.ltb_lt; exact E). rewrite E2. reflexivity.
  - apply N.ltb_ge in E. cbn [or_first app].
    assert (Hmod : (flag + (2 ^ n - 1)) mod 2 ^ n = 2 ^ n - 1).
    { rewrite N.add_mod by lia. rewrite Hflag. cbn [N.add]. rewrite N.mod_mod by lia.
      apply N.mod_small. lia. }
    rewrite Hmod. rewrite N.ltb_irrefl.
    rewrite dec_cont_enc.
    + f_equal. f_equal. cbn [N.pow]. lia.
    + lia.
    + change (2 ^ (7 * N.of_nat 10)) with 1180591620717411303424. change (2 ^ 63) with 9223372036854775808 in Hi. lia.
    + cbn [N.pow]. lia.
    + cbn [N.pow]. change (2 ^ 64) with 18446744073709551616. change (2 ^ 63) with 9223372036854775808 in Hi. lia.
Qed.

(* without a flag *)
Corollary int_roundtrip0 : forall n i rest,
  1 <= n <= 8 -> i < 2 ^ 63 -> dec_int n (enc_int n i ++ rest) = HOk (i, rest).
Proof.
  intros n i rest Hn Hi.
  replace (enc_int n i) with (or_first 0 (enc_int n i)).
  - apply int_roundtrip; [exact Hn | apply N.mod_0_l; apply N.pow_nonzero; discriminate | exact Hi].
  - unfold or_first. destruct (enc_int n i); reflexivity.
Qed.

(* the encoding is never empty and its bytes are bytes *)
Lemma enc_cont_ok : forall fuel j, bytes_ok (enc_cont fuel j).
Proof.
  induction fuel as [|fuel IH]; intro j; cbn [enc_cont]; [constructor|].
  destruct (j <? 128) eqn:E.
  - constructor; [unfold byte_ok; lia | constructor].
  - constructor; [| apply IH]. unfold byte_ok. pose proof (N.mod_lt j 128 ltac:(discriminate)). lia.
Qed.

Lemma enc_int_ok : forall n i, n <= 8 -> bytes_ok (enc_int n i).
Proof.
  intros n i Hn. unfold enc_int.
  assert (Hk : 2 ^ n <= 256). { change 256 with (2 ^ 8). apply N.pow_le_mono_r; [discriminate | lia]. }
  pose proof (pow2_pos n).
  destruct (i <? 2 ^ n - 1) eqn:E.
  - constructor; [unfold byte_ok; lia | constructor].
  - constructor; [unfold byte_ok; lia | apply enc_cont_ok].
Qed.

Lemma enc_int_first : forall n i, exists b r, enc_int n i = b :: r /\ b < 2 ^ n.
Proof.
  intros n i. unfold enc_int. pose proof (pow2_pos n).
  destruct (i <? 2 ^ n - 1) eqn:E.
  - exists i, []. split; [reflexivity | lia].
  - exists (2 ^ n - 1), (enc_cont 10 (i - (2 ^ n - 1))). split; [reflexivity | lia].
Qed.

(* ---------------------------------------------------------------- decoder totality facts *)
(* readVarInt never panics for the prefix sizes the decoder uses, consumes at least one byte on success,
   and returns a suffix of its input *)
Lemma dec_cont_suffix : forall p i m v rest, dec_cont p i m = HOk (v, rest) ->
  exists used, p = used ++ rest /\ (0 < length used)%nat.
Proof.
  induction p as [|b p IH]; intros i m v rest H; cbn in H; [discriminate|].
  destruct (b <? 128).
  - inversion H; subst. exists [b]. split; [reflexivity | cbn; lia].
  - destruct (63 <=? m + 7); [discriminate|].
    apply IH in H as [used [Hu Hl]]. exists (b :: used). split; [cbn; f_equal; exact Hu | cbn; lia].
Qed.

Lemma dec_int_suffix : forall n p v rest, dec_int n p = HOk (v, rest) ->
  exists used, p = used ++ rest /\ (0 < length used)%nat.
Proof.
  intros n p v rest H. unfold dec_int in H.
  destruct ((n <? 1) || (8 <? n)); [discriminate|].
  destruct p as [|b p]; [discriminate|].
  destruct (b mod 2 ^ n <? 2 ^ n - 1).
  - inversion H; subst. exists [b]. split; [reflexivity | cbn; lia].
  - apply dec_cont_suffix in H as [used [Hu Hl]]. exists (b :: used). split; [cbn; f_equal; exact Hu | cbn; lia].
Qed.

Lemma dec_cont_no_panic : forall p i m, dec_cont p i m <> HPanic /\ dec_cont p i m <> HFuel.
Proof.
  induction p as [|b p IH]; intros i m; cbn; [split; discriminate|].
  destruct (b <? 128); [split; discriminate|].
  destruct (63 <=? m + 7); [split; discriminate | apply IH].
Qed.

Lemma dec_int_no_panic : forall n p, 1 <= n <= 8 -> dec_int n p <> HPanic /\ dec_int n p <> HFuel.
Proof.
  intros n p Hn. unfold dec_int.
  assert (E1 : ((n <? 1) || (8 <? n)) = false) by lia. rewrite E1.
  destruct p as [|b p]; [split; discriminate|].
  destruct (b mod 2 ^ n <? 2 ^ n - 1); [split; discriminate | apply dec_cont_no_panic].
Qed.

(* the decoded value is below 2^64 (no silent wrap: every partial sum is reduced by u64, and the
   overflow test m >= 63 bounds the number of continuation bytes) *)
Lemma dec_cont_bound : forall p i m v rest, i < 2 ^ 64 -> dec_cont p i m = HOk (v, rest) -> v < 2 ^ 64.
Proof.
  induction p as [|b p IH]; intros i m v rest Hi H; cbn in H; [discriminate|].
  assert (Hu : forall x, u64 x < 2 ^ 64).
  { intro x. unfold u64. change (2 ^ 64) with 18446744073709551616. apply N.mod_lt. discriminate. }
  destruct (b <? 128).
  - inversion H; subst. apply Hu.
  - destruct (63 <=? m + 7); [discriminate|]. eapply IH; [|exact H]. apply Hu.
Qed.
