From Coq Require Import List Arith Bool Lia.
From MV Require Import Model.Subset Model.Criteria Proofs.SubsetKeys.
Import ListNotations.

(* for every history of requests through one route: the criteria used for request k are merge(route_cfg, req_k),
   independent of the earlier requests, and the route's criteria are unchanged after any history *)
Theorem crit_independent_fresh : crit_independent_statement CritFresh.
Proof.
  intros route reqs. induction reqs as [|q reqs IH]; [split; reflexivity|].
  cbn [crit_run]. assert (E : crit_step CritFresh route q = (route, merge_criteria route q)).
  { unfold crit_step. destruct q; reflexivity. }
  rewrite E. destruct IH as [IH1 IH2]. destruct (crit_run CritFresh route reqs) as [r2 cs]. cbn [fst snd] in *.
  split; [cbn [map]; congruence|auto].
Qed.

Theorem crit_independent_of_mode : forall md, md = CritFresh -> crit_independent_statement md.
Proof. intros md ->. exact crit_independent_fresh. Qed.

(* merging in place: route {k2=1}; a request with {k1=2} then a request without metadata: the second request is
   balanced with {k1=2, k2=1} and the route's object has changed *)
Theorem crit_merge_in_place_refuted : ~ crit_independent_statement CritMergeInPlace.
Proof.
  intros H. destruct (H (Some [(2, 1)]) [Some [(1, 2)]; None]) as [H1 _]. vm_compute in H1. discriminate.
Qed.

(* the merged criteria: the request value wins per key, route pairs are kept for the other keys, sorted by key *)
Lemma put_lookup : forall k v l k', lookup k' (put k v l) = if Nat.eqb k' k then Some v else lookup k' l.
Proof.
  induction l as [|[a b] l IH]; intros k'; simpl.
  - destruct (Nat.eqb k' k); reflexivity.
  - destruct (Nat.ltb_spec k a); simpl.
    + destruct (Nat.eqb_spec k' k); auto.
    + destruct (Nat.eqb_spec k a) as [->|Hne]; simpl.
      * destruct (Nat.eqb_spec k' a); auto.
      * rewrite IH. destruct (Nat.eqb_spec k' a) as [->|]; auto. destruct (Nat.eqb_spec a k); [congruence|auto].
Qed.

Lemma put_keys_sorted : forall k v l, ssorted (map fst l) -> ssorted (map fst (put k v l)).
Proof.
  induction l as [|[a b] l IH]; intros Hs; simpl; [split; [intros y []|exact I]|].
  simpl in Hs. destruct Hs as [Ha Hl]. destruct (Nat.ltb_spec k a); simpl.
  - split; [|split; auto]. intros y [<-|Hy]; auto. specialize (Ha y Hy). lia.
  - destruct (Nat.eqb_spec k a) as [->|Hne]; simpl; [split; auto|]. split; auto.
    intros y Hy. apply in_map_iff in Hy. destruct Hy as ([k1 v1] & <- & Hin). simpl.
    assert (Hl1 : lookup k1 (put k v l) <> None \/ True) by auto.
    destruct (Nat.eq_dec k1 k) as [->|Hk]; [lia|].
    apply Ha. clear - Hin Hk. induction l as [|[c d] l IHl]; simpl in *; [destruct Hin as [E|[]]; inversion E; congruence|].
    destruct (Nat.ltb k c); simpl in Hin.
    + destruct Hin as [E|[E|Hin]]; [inversion E; congruence|inversion E; left; auto|right; apply in_map_iff; exists (k1, v1); auto].
    + destruct (Nat.eqb k c); simpl in Hin.
      * destruct Hin as [E|Hin]; [inversion E; congruence|right; apply in_map_iff; exists (k1, v1); auto].
      * destruct Hin as [E|Hin]; [inversion E; left; auto|right; auto].
Qed.

Theorem merge_request_wins : forall m route k,
  NoDup (map fst m) ->
  lookup k (merge_pairs route m) = match lookup k m with Some v => Some v | None => lookup k route end.
Proof.
  induction m as [|[a b] m IH]; intros route k Hnd; simpl; auto.
  inversion Hnd as [|? ? Hnot Hnd']; subst. unfold merge_pairs in *. simpl. rewrite IH by auto.
  destruct (Nat.eqb_spec k a) as [->|Hne].
  - assert (lookup a m = None).
    { clear - Hnot. induction m as [|[c d] m IHm]; simpl; auto. destruct (Nat.eqb_spec a c) as [->|]; [exfalso; apply Hnot; left; auto|].
      apply IHm. intros H; apply Hnot; right; auto. }
    rewrite H, put_lookup, Nat.eqb_refl. reflexivity.
  - destruct (lookup k m); auto. rewrite put_lookup. destruct (Nat.eqb_spec k a); [congruence|auto].
Qed.

Theorem merge_sorted : forall m route, ssorted (map fst route) -> ssorted (map fst (merge_pairs route m)).
Proof.
  induction m as [|[a b] m IH]; intros route Hs; simpl; auto. unfold merge_pairs in *. simpl. apply IH. apply put_keys_sorted; auto.
Qed.
