(* Proofs about Model/TLSResume.v (property C13, resumed handshakes). *)
From Coq Require Import List Arith Bool Lia.
From MV Require Import Model.TLSSelect Model.TLSResume.
Import ListNotations.

Lemma step_sound_true s o : step_sound true s o = true.
Proof.
  destruct o as [ctx c|ctx tk c|d|ctx p|ps]; try reflexivity.
  unfold step_sound, hs_out. destruct (nth_error (r_tickets s) tk) as [t|]; [|reflexivity].
  destruct (ticket_usable (key s ctx) (pol s ctx) t).
  - cbn [negb orb]. destruct (accept_full (pol s ctx) (r_now s) (t_cert t)) eqn:E; reflexivity.
  - unfold full_out. destruct (accept_full (pol s ctx) (r_now s) (stored_cert (pol s ctx) c)); reflexivity.
Qed.

(* for EVERY history of full handshakes, resumptions, clock steps, in-place policy changes and manager rebuilds, from every
   state: a resumption is accepted only if a full handshake with the ticket's certificate would be accepted at that moment *)
Theorem resumed_implies_full ops : forall s, run_sound true s ops = true.
Proof.
  induction ops as [|o ops IH]; intros s; cbn [run_sound]; [reflexivity|].
  rewrite step_sound_true, IH. reflexivity.
Qed.

(* the same, as a statement about one resumption in an arbitrary reachable state *)
Theorem resumed_session_would_pass_full now ps ops ctx tk c t :
  let s := r_run true now ps ops in
  nth_error (r_tickets s) tk = Some t ->
  hs_out true s (RResume ctx tk c) = Some AcceptedResumed ->
  accept_full (pol s ctx) (r_now s) (t_cert t) = true.
Proof.
  cbv zeta. intros Ht Ho. pose proof (step_sound_true (r_run true now ps ops) (RResume ctx tk c)) as H.
  unfold step_sound in H. rewrite Ht, Ho in H. exact H.
Qed.

(* an accepted full handshake is one the policy accepts (ties hs_out to the client-auth table of Model.TLSSelect) *)
Theorem full_accepted_is_policy s ctx c :
  hs_out true s (RFull ctx c) = Some AcceptedFull -> accepts (r_mode (pol s ctx)) (r_rel (pol s ctx) (r_now s) (stored_cert (pol s ctx) c)) = true.
Proof.
  cbn [hs_out]. unfold full_out, accept_full. destruct (accepts _ _); [reflexivity|discriminate].
Qed.

(* consequences for a context that verifies: a ticket whose certificate has expired, or was issued by another CA than the
   one the selected context trusts NOW, is never accepted by resumption *)
Theorem expired_ticket_cert_not_resumed s ctx tk c t k :
  nth_error (r_tickets s) tk = Some t -> t_cert t = Some k -> rp_verify (pol s ctx) = true ->
  rc_to k < r_now s -> hs_out true s (RResume ctx tk c) <> Some AcceptedResumed.
Proof.
  intros Ht Hk Hv Hexp Ho. pose proof (step_sound_true s (RResume ctx tk c)) as H.
  unfold step_sound in H. rewrite Ht, Ho in H.
  unfold accept_full, r_mode, client_auth, r_rel in H. rewrite Hk, Hv in H.
  assert (Nat.leb (r_now s) (rc_to k) = false) as E by (apply Nat.leb_gt; exact Hexp).
  rewrite E, andb_false_r in H.
  destruct (rp_require (pol s ctx)), (Nat.eqb (rc_ca k) (rp_ca (pol s ctx))); cbn in H; discriminate.
Qed.

Theorem untrusted_ticket_cert_not_resumed s ctx tk c t k :
  nth_error (r_tickets s) tk = Some t -> t_cert t = Some k -> rp_verify (pol s ctx) = true ->
  rc_ca k <> rp_ca (pol s ctx) -> hs_out true s (RResume ctx tk c) <> Some AcceptedResumed.
Proof.
  intros Ht Hk Hv Hca Ho. pose proof (step_sound_true s (RResume ctx tk c)) as H.
  unfold step_sound in H. rewrite Ht, Ho in H.
  unfold accept_full, r_mode, client_auth, r_rel in H. rewrite Hk, Hv in H.
  apply Nat.eqb_neq in Hca. rewrite Hca in H.
  destruct (rp_require (pol s ctx)); cbn in H; discriminate.
Qed.
