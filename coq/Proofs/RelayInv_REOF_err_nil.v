(* case file of rd_inv (see Proofs/RelayInvDefs.v): read outcome REOF, write outcomes [WErr k].  All case files have
   the same proof script. *)
From Coq Require Import List NArith Bool Lia.
From MV Require Import Model.Relay Proofs.RelayInvDefs.
Import ListNotations.

Lemma rd_inv_REOF_err_nil x y b k : Inv2 x y -> Inv2 (fst (rd x y b REOF [WErr k])) (snd (rd x y b REOF [WErr k])).
Proof.
  intros H.
  destruct x as [xrb xren xcl xpe xpf xo xi xt xw], y as [yrb yren ycl ype ypf yo yi yt yw].
  unfold rd. cbn [c_closed c_ren].
  destruct xcl; [exact H|]. destruct xren; [|exact H]. cbn [orb negb].
  assert (Hx : closes xt = [] /\ xrb = []) by (destruct H as [[Hw _] _]; apply Hw; reflexivity).
  destruct Hx as [Hxt ->].
  unfold on_read, deliver, close_conn, react, wr, do_write, next_w, mark_closed, add_trace, set_rbuf, set_in, is_nil, flushes.
  cbn [c_rbuf c_ren c_closed c_pend c_peof c_out c_in c_trace c_werr app].
  brk; cbn [fst snd].
  all: prep H.
  all: rewrite ?Hxt in *; cbn [app] in *.
  all: sat.
  all: repeat split; intros.
  all: try triv.
  all: sat.
  all: try fin.
Qed.
