(* Proofs about Model/Update.v: after every history the live objects are those a fresh process builds from the stored
   configuration; endpoint assignments; lookups concurrent with updates. *)
From Coq Require Import List String Bool Arith Lia.
From MV Require Import Model.Router Model.Update Proofs.Router.
Import ListNotations.
Local Open Scope string_scope.

(* ------------------------------------------------------------------ maps *)
Section MapLemmas.
  Context {V : Type}.
  Lemma mget_mset_same k (v : V) m : mget k (mset k v m) = Some v.
  Proof.
    induction m as [|[k' v'] m IH]; cbn [mset mget]; [now rewrite String.eqb_refl|].
    destruct (String.eqb_spec k' k) as [->|Hne]; cbn [mget]; [now rewrite String.eqb_refl|].
    destruct (String.eqb_spec k' k); [contradiction|exact IH].
  Qed.
  Lemma mget_mset_other k k' (v : V) m : k' <> k -> mget k (mset k' v m) = mget k m.
  Proof.
    intros Hne. induction m as [|[k0 v0] m IH]; cbn [mset mget].
    - destruct (String.eqb_spec k' k); [contradiction|reflexivity].
    - destruct (String.eqb_spec k0 k') as [->|Hne0]; cbn [mget].
      + destruct (String.eqb_spec k' k); [contradiction|reflexivity].
      + destruct (String.eqb_spec k0 k); [reflexivity|exact IH].
  Qed.
  Lemma mset_mset k (v1 v2 : V) m : mset k v2 (mset k v1 m) = mset k v2 m.
  Proof.
    induction m as [|[k' v'] m IH]; cbn [mset]; [now rewrite String.eqb_refl|].
    destruct (String.eqb_spec k' k) as [->|Hne]; cbn [mset].
    - now rewrite String.eqb_refl.
    - destruct (String.eqb_spec k' k); [contradiction|now rewrite IH].
  Qed.
  Lemma mget_mdel_same k (m : list (string * V)) : mget k (mdel k m) = None.
  Proof.
    induction m as [|[k' v'] m IH]; cbn [mdel mget]; [reflexivity|].
    destruct (String.eqb_spec k' k) as [->|Hne]; [exact IH|]. cbn [mget].
    destruct (String.eqb_spec k' k); [contradiction|exact IH].
  Qed.
  Lemma mget_mdel_other k k' (m : list (string * V)) : k' <> k -> mget k (mdel k' m) = mget k m.
  Proof.
    intros Hne. induction m as [|[k0 v0] m IH]; cbn [mdel mget]; [reflexivity|].
    destruct (String.eqb_spec k0 k') as [->|Hne0].
    - destruct (String.eqb_spec k' k); [contradiction|exact IH].
    - cbn [mget]. destruct (String.eqb_spec k0 k); [reflexivity|exact IH].
  Qed.
  Lemma mget_mdel_none k k' (m : list (string * V)) : mget k m = None -> mget k (mdel k' m) = None.
  Proof.
    intros H. destruct (String.eqb_spec k' k) as [->|Hne]; [apply mget_mdel_same|].
    rewrite mget_mdel_other; auto.
  Qed.
End MapLemmas.

(* ------------------------------------------------------------------ route changes do not change the tables *)
Definition keeps_domains (g : vhost -> vhost) : Prop :=
  forall v, vh_domains (g v) = vh_domains v /\
            (existsb r_bad (vh_routes v) = false -> existsb r_bad (vh_routes (g v)) = false).

Lemma build_from_update_nth g n : keeps_domains g -> forall vs t i t',
  build_from t i vs = Ok t' -> build_from t i (update_nth n g vs) = Ok t'.
Proof.
  intros Hg. induction n as [|n IH]; intros [|v vs] t i t'; cbn [update_nth build_from]; try (intros H; exact H).
  - destruct (Hg v) as [Hd Hb]. destruct (existsb r_bad (vh_routes v)); [discriminate|].
    rewrite (Hb eq_refl), Hd. intros H; exact H.
  - destruct (existsb r_bad (vh_routes v)); [discriminate|].
    destruct (add_domains t i (vh_domains v)); [apply IH|discriminate].
Qed.

Lemma build_update_nth g n c t : keeps_domains g -> build c = Ok t -> build (update_nth n g c) = Ok t.
Proof.
  intros Hg. unfold build. destruct c as [|v vs]; [discriminate|].
  intros H. apply (build_from_update_nth g n Hg) in H.
  destruct n; cbn [update_nth] in *; exact H.
Qed.

Lemma add_route_keeps r : r_bad r = false ->
  keeps_domains (fun v => {| vh_domains := vh_domains v; vh_routes := vh_routes v ++ [r] |}).
Proof.
  intros Hr v. cbn [vh_domains vh_routes]. split; [reflexivity|].
  intros H. rewrite existsb_app, H. cbn [existsb]. rewrite Hr. reflexivity.
Qed.

Lemma clear_routes_keeps : keeps_domains (fun v => {| vh_domains := vh_domains v; vh_routes := [] |}).
Proof. intros v. cbn [vh_domains vh_routes]. split; reflexivity. Qed.

(* ------------------------------------------------------------------ the invariant *)
Definition router_coherent (w : rwrap) : Prop := rw_live w = fresh_router (rw_stored w).

Definition coherent (s : state) : Prop :=
  (forall name w, mget name (st_routers s) = Some w -> router_coherent w) /\
  st_clusters s = fresh_clusters (st_cfg_clusters s).

Lemma coherent_init : coherent init_state.
Proof. split; [intros name w H; discriminate H|reflexivity]. Qed.

Lemma fresh_router_ok c t : build c = Ok t -> fresh_router c = Some {| lr_cfg := c; lr_tab := t |}.
Proof. unfold fresh_router. intros ->. reflexivity. Qed.

Lemma coherent_set_router s name w :
  coherent s -> router_coherent w -> coherent (set_routers s (mset name w (st_routers s))).
Proof.
  intros [Hr Hc] Hw. split; [|exact Hc]. cbn [set_routers st_routers]. intros n w' H.
  destruct (String.eqb_spec name n) as [->|Hne].
  - rewrite mget_mset_same in H. inversion H; subst. exact Hw.
  - rewrite mget_mset_other in H by exact Hne. eapply Hr; eauto.
Qed.

Lemma step_route_change_coherent s name domain bad f :
  (forall i, bad = false -> exists g, keeps_domains g /\ forall c, f i c = update_nth i g c) ->
  coherent s -> coherent (fst (step_route_change s name domain bad f)).
Proof.
  intros Hf Hs. unfold step_route_change.
  destruct (mget name (st_routers s)) as [w|] eqn:Ew; [|exact Hs].
  destruct (rw_live w) as [l|] eqn:El; [|exact Hs].
  destruct (vhost_index_of_domain (lr_tab l) domain) as [i|]; [|exact Hs].
  destruct bad; [exact Hs|]. cbn [fst].
  apply coherent_set_router; [exact Hs|].
  destruct Hs as [Hr _]. specialize (Hr _ _ Ew). unfold router_coherent in Hr. rewrite El in Hr.
  unfold fresh_router in Hr. destruct (build (rw_stored w)) as [t|e] eqn:Eb; [|discriminate].
  inversion Hr as [Hl]. unfold router_coherent. cbn [rw_live rw_stored lr_cfg lr_tab].
  destruct (Hf i eq_refl) as (g & Hg & Hfg). rewrite !Hfg.
  rewrite (fresh_router_ok _ t (build_update_nth g i _ _ Hg Eb)). reflexivity.
Qed.

Lemma set_hosts_cfg_after_set name lb ch hosts m :
  set_hosts_cfg name hosts (mset name {| cl_lb := lb; cl_hosts := ch |} m) = mset name {| cl_lb := lb; cl_hosts := hosts |} m.
Proof. unfold set_hosts_cfg. rewrite mget_mset_same. cbn [cl_lb]. apply mset_mset. Qed.

Lemma step_update_cluster_coherent s name lb ch nh :
  coherent s -> coherent (fst (step_update_cluster s name lb ch nh)).
Proof.
  intros [Hr Hc]. unfold step_update_cluster. cbn [fst]. split; [exact Hr|].
  cbn [set_clusters st_clusters st_cfg_clusters]. unfold fresh_clusters in *.
  rewrite set_hosts_cfg_after_set, Hc. reflexivity.
Qed.

Lemma step_update_hosts_coherent s name f :
  coherent s -> coherent (fst (step_update_hosts s name f)).
Proof.
  intros [Hr Hc]. unfold step_update_hosts.
  destruct (mget name (st_clusters s)) as [c|] eqn:Ec; [|split; assumption]. cbn [fst]. split; [exact Hr|].
  cbn [set_clusters st_clusters st_cfg_clusters]. unfold fresh_clusters in *.
  unfold set_hosts_cfg. rewrite <- Hc, Ec. reflexivity.
Qed.

Lemma endpoints_per_locality_coherent name ls : forall s ok,
  coherent s -> coherent (fst (endpoints_per_locality s name ls ok)).
Proof.
  induction ls as [|l ls IH]; intros s ok Hs; cbn [endpoints_per_locality]; [exact Hs|].
  pose proof (step_update_hosts_coherent s name (fun _ => dedup (map ep_to_host l)) Hs) as H1.
  destruct (step_update_hosts s name (fun _ => dedup (map ep_to_host l))) as [s' r]. apply IH. exact H1.
Qed.

Lemma remove_clusters_coherent names : forall s, coherent s ->
  coherent (fold_left (fun s n => set_clusters s (mdel n (st_clusters s)) (mdel n (st_cfg_clusters s))) names s).
Proof.
  induction names as [|n names IH]; intros s Hs; cbn [fold_left]; [exact Hs|].
  apply IH. destruct Hs as [Hr Hc]. split; [exact Hr|].
  cbn [set_clusters st_clusters st_cfg_clusters]. unfold fresh_clusters in *. rewrite Hc. reflexivity.
Qed.

Lemma step_coherent pl s o : coherent s -> coherent (fst (step pl s o)).
Proof.
  intros Hs. destruct o as [name c|name domain r|name domain|name lb ch|name lb ch hosts|names|name hosts|name hosts|name addrs|name ls];
    cbn [step].
  - unfold step_add_or_update_routers. destruct (mget name (st_routers s)) as [w|] eqn:Ew.
    + destruct (build c) as [t|e] eqn:Eb; [|exact Hs]. cbn [fst]. apply coherent_set_router; [exact Hs|].
      unfold router_coherent. cbn [rw_live rw_stored]. now rewrite (fresh_router_ok _ _ Eb).
    + cbn [fst]. apply coherent_set_router; [exact Hs|]. unfold router_coherent, fresh_router. reflexivity.
  - apply step_route_change_coherent; [|exact Hs]. intros i Hb.
    exists (fun v => {| vh_domains := vh_domains v; vh_routes := vh_routes v ++ [r] |}). split; [now apply add_route_keeps|reflexivity].
  - apply step_route_change_coherent; [|exact Hs]. intros i _.
    exists (fun v => {| vh_domains := vh_domains v; vh_routes := [] |}). split; [apply clear_routes_keeps|reflexivity].
  - now apply step_update_cluster_coherent.
  - now apply step_update_cluster_coherent.
  - destruct (forallb _ names); [|exact Hs]. cbn [fst]. now apply remove_clusters_coherent.
  - now apply step_update_hosts_coherent.
  - now apply step_update_hosts_coherent.
  - now apply step_update_hosts_coherent.
  - unfold step_endpoints. destruct ls as [|l ls]; [now apply step_update_hosts_coherent|].
    destruct pl; [now apply endpoints_per_locality_coherent|now apply step_update_hosts_coherent].
Qed.

Lemma run_coherent pl ops : forall s, coherent s -> coherent (fst (run pl s ops)).
Proof.
  induction ops as [|o ops IH]; intros s Hs; cbn [run]; [exact Hs|].
  pose proof (step_coherent pl s o Hs) as H1. destruct (step pl s o) as [s1 r].
  specialize (IH s1 H1). destruct (run pl s1 ops) as [s2 rs]. exact IH.
Qed.

(* for every history: every live router is the one a fresh process builds from the stored configuration (so every
   lookup is answered alike), and the live clusters (lb type, hosts) are the stored ones *)
Theorem refinement pl ops :
  let s := final pl ops in
  (forall name w, mget name (st_routers s) = Some w ->
     rw_live w = fresh_router (rw_stored w) /\
     forall rq, lookup (rw_live w) rq = lookup (fresh_router (rw_stored w)) rq /\
                lookup_all (rw_live w) rq = lookup_all (fresh_router (rw_stored w)) rq) /\
  st_clusters s = fresh_clusters (st_cfg_clusters s).
Proof.
  cbn zeta. unfold final. destruct (run_coherent pl ops init_state coherent_init) as [Hr Hc].
  split; [|exact Hc]. intros name w H. specialize (Hr _ _ H). unfold router_coherent in Hr.
  split; [exact Hr|]. intros rq. rewrite Hr. split; reflexivity.
Qed.

Lemma run_app_state pl ops1 ops2 s :
  fst (run pl s (ops1 ++ ops2)) = fst (run pl (fst (run pl s ops1)) ops2).
Proof.
  revert s; induction ops1 as [|o ops1 IH]; intros s; cbn [run app fst]; [reflexivity|].
  destruct (step pl s o) as [s1 r]. specialize (IH s1).
  destruct (run pl s1 (ops1 ++ ops2)) as [s2 rs]. destruct (run pl s1 ops1) as [s3 rs3]. cbn [fst] in *. exact IH.
Qed.

(* ------------------------------------------------------------------ a rejected operation changes nothing *)
Lemma endpoints_per_locality_absent name ls : forall s ok, mget name (st_clusters s) = None ->
  fst (endpoints_per_locality s name ls ok) = s.
Proof.
  induction ls as [|l ls IH]; intros s ok Hn; cbn [endpoints_per_locality]; [reflexivity|].
  unfold step_update_hosts. rewrite Hn. apply IH. exact Hn.
Qed.

Lemma endpoints_per_locality_present name ls : forall s ok c, mget name (st_clusters s) = Some c ->
  snd (endpoints_per_locality s name ls ok) = ok.
Proof.
  induction ls as [|l ls IH]; intros s ok c Hc; cbn [endpoints_per_locality]; [reflexivity|].
  unfold step_update_hosts. rewrite Hc.
  erewrite IH; [apply andb_true_r|]. cbn [set_clusters st_clusters]. apply mget_mset_same.
Qed.

(* an operation that returns an error leaves the live objects AND the stored configuration exactly as they were *)
Theorem failed_step_changes_nothing pl s o : snd (step pl s o) = false -> fst (step pl s o) = s.
Proof.
  destruct o as [name c|name domain r|name domain|name lb ch|name lb ch hosts|names|name hosts|name hosts|name addrs|name ls];
    cbn [step].
  - unfold step_add_or_update_routers. destruct (mget name (st_routers s)); [destruct (build c)|]; cbn [fst snd]; congruence.
  - unfold step_route_change. destruct (mget name (st_routers s)) as [w|]; [|reflexivity].
    destruct (rw_live w) as [l|]; [|reflexivity]. destruct (vhost_index_of_domain (lr_tab l) domain); [|reflexivity].
    destruct (r_bad r); cbn [fst snd]; congruence.
  - unfold step_route_change. destruct (mget name (st_routers s)) as [w|]; [|reflexivity].
    destruct (rw_live w) as [l|]; [|reflexivity]. destruct (vhost_index_of_domain (lr_tab l) domain); cbn [fst snd]; congruence.
  - cbn [step_update_cluster snd]. discriminate.
  - cbn [step_update_cluster snd]. discriminate.
  - destruct (forallb _ names); cbn [fst snd]; congruence.
  - unfold step_update_hosts. destruct (mget name (st_clusters s)); cbn [fst snd]; congruence.
  - unfold step_update_hosts. destruct (mget name (st_clusters s)); cbn [fst snd]; congruence.
  - unfold step_update_hosts. destruct (mget name (st_clusters s)); cbn [fst snd]; congruence.
  - unfold step_endpoints.
    assert (forall f, snd (step_update_hosts s name f) = false -> fst (step_update_hosts s name f) = s) as Hu.
    { intros f. unfold step_update_hosts. destruct (mget name (st_clusters s)); cbn [fst snd]; congruence. }
    destruct ls as [|l ls]; [apply Hu|]. destruct pl; [|apply Hu].
    destruct (mget name (st_clusters s)) as [c|] eqn:Ec.
    + rewrite (endpoints_per_locality_present name (l :: ls) s true c Ec). discriminate.
    + intros _. now apply endpoints_per_locality_absent.
Qed.

(* for every history: wherever an operation of the history is rejected, the state before and after it are the same *)
Theorem failed_update_changes_nothing pl ops1 o ops2 :
  let s := final pl ops1 in
  snd (step pl s o) = false ->
  final pl (ops1 ++ o :: ops2) = final pl (ops1 ++ ops2).
Proof.
  cbn zeta. intros Hf. unfold final in *. rewrite !run_app_state. cbn [run].
  pose proof (failed_step_changes_nothing pl _ o Hf) as Hs.
  set (s0 := fst (run pl init_state ops1)) in *.
  destruct (step pl s0 o) as [s1 r]. cbn [fst] in Hs. rewrite Hs.
  destruct (run pl s0 ops2); reflexivity.
Qed.

(* ------------------------------------------------------------------ last update wins / removed objects are gone *)
Lemma run_app pl ops1 ops2 s :
  fst (run pl s (ops1 ++ ops2)) = fst (run pl (fst (run pl s ops1)) ops2).
Proof.
  revert s; induction ops1 as [|o ops1 IH]; intros s; cbn [run app fst]; [reflexivity|].
  destruct (step pl s o) as [s1 r]. specialize (IH s1).
  destruct (run pl s1 (ops1 ++ ops2)) as [s2 rs]. destruct (run pl s1 ops1) as [s3 rs3]. cbn [fst] in *. exact IH.
Qed.

Theorem last_router_update_wins pl ops name c t : build c = Ok t ->
  let s := final pl (ops ++ [OAddOrUpdateRouters name c]) in
  exists w, mget name (st_routers s) = Some w /\ rw_stored w = c /\ rw_live w = Some {| lr_cfg := c; lr_tab := t |}.
Proof.
  intros Hb. cbn zeta. unfold final. rewrite run_app. set (s0 := fst (run pl init_state ops)).
  cbn [run step fst]. unfold step_add_or_update_routers. rewrite Hb.
  destruct (mget name (st_routers s0)); cbn [fst set_routers st_routers]; rewrite mget_mset_same; eexists; repeat split.
Qed.

Theorem last_host_update_wins pl ops name hosts :
  let s0 := final pl ops in
  let s := final pl (ops ++ [OUpdateHosts name hosts]) in
  (exists c, mget name (st_clusters s0) = Some c) ->
  exists c, mget name (st_clusters s) = Some c /\ cl_hosts c = dedup hosts /\
            mget name (st_cfg_clusters s) = Some c.
Proof.
  cbn zeta. intros [c0 Hc0]. unfold final in *. rewrite run_app. set (s0 := fst (run pl init_state ops)) in *.
  pose proof (run_coherent pl ops init_state coherent_init) as [_ Hcoh]. fold s0 in Hcoh. unfold fresh_clusters in Hcoh.
  cbn [run step fst]. unfold step_update_hosts. rewrite Hc0. cbn [fst set_clusters st_clusters st_cfg_clusters].
  unfold set_hosts_cfg. rewrite <- Hcoh, Hc0. rewrite mget_mset_same. eexists. repeat split.
Qed.

Lemma remove_fold_gone names : forall s n, In n names \/ mget n (st_clusters s) = None /\ mget n (st_cfg_clusters s) = None ->
  let s' := fold_left (fun s n => set_clusters s (mdel n (st_clusters s)) (mdel n (st_cfg_clusters s))) names s in
  mget n (st_clusters s') = None /\ mget n (st_cfg_clusters s') = None.
Proof.
  induction names as [|x names IH]; intros s n H; cbn [fold_left].
  - destruct H as [[]|H]; exact H.
  - apply IH. cbn [set_clusters st_clusters st_cfg_clusters].
    destruct H as [[->|Hin]|[H1 H2]].
    + right. split; apply mget_mdel_same.
    + now left.
    + right. split; apply mget_mdel_none; assumption.
Qed.

Theorem removed_clusters_are_gone pl ops names :
  let s0 := final pl ops in
  let s := final pl (ops ++ [ORemoveClusters names]) in
  (forall n, In n names -> exists c, mget n (st_clusters s0) = Some c) ->
  forall n, In n names -> mget n (st_clusters s) = None /\ mget n (st_cfg_clusters s) = None.
Proof.
  cbn zeta. intros Hall n Hn. unfold final in *. rewrite run_app. set (s0 := fst (run pl init_state ops)) in *.
  cbn [run step fst].
  assert (forallb (fun n => match mget n (st_clusters s0) with Some _ => true | None => false end) names = true) as Hf.
  { apply forallb_forall. intros x Hx. destruct (Hall x Hx) as [c ->]. reflexivity. }
  rewrite Hf. cbn [fst]. apply remove_fold_gone. now left.
Qed.

(* ------------------------------------------------------------------ hosts with attributes *)
Lemma find_host_filter_other a x l : h_addr x <> a ->
  find_host a (filter (fun y => negb (String.eqb (h_addr y) (h_addr x))) l) = find_host a l.
Proof.
  intros Hne. induction l as [|y l IH]; cbn [filter find_host]; [reflexivity|].
  destruct (String.eqb_spec (h_addr y) (h_addr x)) as [Heq|Hn]; cbn [negb].
  - destruct (String.eqb_spec (h_addr y) a) as [Ha|_]; [congruence|exact IH].
  - cbn [find_host]. destruct (String.eqb_spec (h_addr y) a); [reflexivity|exact IH].
Qed.

(* NewHostSet: for every address the FIRST host of the list is the one kept *)
Lemma find_host_dedup a l : find_host a (dedup l) = find_host a l.
Proof.
  induction l as [|x l IH]; cbn [dedup find_host]; [reflexivity|].
  destruct (String.eqb_spec (h_addr x) a) as [Heq|Hne]; [reflexivity|].
  rewrite find_host_filter_other by exact Hne. exact IH.
Qed.

Lemma find_host_some a l h : find_host a l = Some h -> In h l /\ h_addr h = a.
Proof.
  induction l as [|x l IH]; cbn [find_host]; [discriminate|].
  destruct (String.eqb_spec (h_addr x) a) as [Heq|Hne].
  - intros H; inversion H; subst. split; [now left|reflexivity].
  - intros H. destruct (IH H). split; [now right|assumption].
Qed.

Lemma find_host_in_addr a l : In a (map h_addr l) <-> exists h, find_host a l = Some h.
Proof.
  induction l as [|x l IH]; cbn [map In find_host].
  - split; [intros []|intros [h H]; discriminate].
  - destruct (String.eqb_spec (h_addr x) a) as [Heq|Hne].
    + split; [intros _; eauto|intros _; now left].
    + rewrite <- IH. split; [intros [H|H]; [contradiction|exact H]|intros H; now right].
Qed.

(* an append: for every address the live host is the first one carrying it in (appended batch ++ previous hosts):
   a re-appended address takes the NEW attributes, inside one batch the first entry wins, other hosts are kept *)
Theorem append_takes_new_attributes pl ops name hosts c0 :
  let s0 := final pl ops in
  let s := final pl (ops ++ [OAppendHosts name hosts]) in
  mget name (st_clusters s0) = Some c0 ->
  exists c, mget name (st_clusters s) = Some c /\ mget name (st_cfg_clusters s) = Some c /\ cl_lb c = cl_lb c0 /\
            forall a, find_host a (cl_hosts c) = find_host a (hosts ++ cl_hosts c0).
Proof.
  cbn zeta. intros Hc0. unfold final in *. rewrite run_app. set (s0 := fst (run pl init_state ops)) in *.
  pose proof (run_coherent pl ops init_state coherent_init) as [_ Hcoh]. fold s0 in Hcoh. unfold fresh_clusters in Hcoh.
  cbn [run step fst]. unfold step_update_hosts. rewrite Hc0. cbn [fst set_clusters st_clusters st_cfg_clusters].
  unfold set_hosts_cfg. rewrite <- Hcoh, Hc0. rewrite mget_mset_same. eexists. split; [reflexivity|]. split; [reflexivity|].
  split; [reflexivity|]. intros a. cbn [cl_hosts]. apply find_host_dedup.
Qed.

(* ------------------------------------------------------------------ endpoint assignment *)
(* with one host update per assignment: the host ADDRESSES are the union of the endpoints of all localities, and for an
   address that occurs several times the first occurrence (in locality order) gives the attributes *)
Theorem endpoints_union s name ls c :
  mget name (st_clusters s) = Some c ->
  let s' := fst (step_endpoints false s name ls) in
  exists c', mget name (st_clusters s') = Some c' /\ cl_lb c' = cl_lb c /\
             (forall a, In a (map h_addr (cl_hosts c')) <-> exists l, In l ls /\ In a (map ep_addr l)) /\
             (forall a, find_host a (cl_hosts c') = find_host a (map ep_to_host (List.concat ls))).
Proof.
  intros Hc. cbn zeta. unfold step_endpoints.
  assert (forall hosts, exists c', mget name (st_clusters (fst (step_update_hosts s name (fun _ => hosts)))) = Some c' /\
                                   cl_lb c' = cl_lb c /\ cl_hosts c' = hosts) as Hstep.
  { intros hosts. unfold step_update_hosts. rewrite Hc. cbn [fst set_clusters st_clusters]. rewrite mget_mset_same.
    eexists. repeat split. }
  destruct ls as [|l ls].
  - destruct (Hstep []) as (c' & H1 & H2 & H3). exists c'. split; [exact H1|]. split; [exact H2|]. rewrite H3. split.
    + intros a. cbn [map In]. split; [intros []|intros (l & [] & _)].
    + reflexivity.
  - destruct (Hstep (dedup (map ep_to_host (List.concat (l :: ls))))) as (c' & H1 & H2 & H3). exists c'.
    split; [exact H1|]. split; [exact H2|]. rewrite H3. split.
    + intros a. rewrite find_host_in_addr. setoid_rewrite find_host_dedup. rewrite <- find_host_in_addr.
      rewrite map_map. cbn [ep_to_host h_addr].
      rewrite <- (map_map ep_addr (fun x => x)), map_id, concat_map, in_concat. split.
      * intros (x & Hx1 & Hx2). apply in_map_iff in Hx1 as (l0 & <- & Hl0). exists l0. auto.
      * intros (l0 & Hl0 & Ha). exists (map ep_addr l0). split; [now apply in_map|exact Ha].
    + intros a. apply find_host_dedup.
Qed.

(* with one host update per locality the last locality replaces the others (the behaviour before the repair) *)
Theorem endpoints_union_fails_per_locality :
  let s := fst (step true init_state (OAddOrUpdateCluster "c" 1 [])) in
  let s' := fst (step_endpoints true s "c" [[Build_endpoint "10.0.0.1:80" None]; [Build_endpoint "10.0.0.2:80" None]]) in
  option_map (fun c => map h_addr (cl_hosts c)) (mget "c" (st_clusters s')) = Some ["10.0.0.2:80"].
Proof. vm_compute. reflexivity. Qed.

(* ------------------------------------------------------------------ lookups concurrent with updates *)
(* the states of a run, one per prefix of the event list *)
Fixpoint ctrace (s : cstate) (es : list ev) : list cstate :=
  s :: match es with [] => [] | e :: es' => ctrace (fst (cstep s e)) es' end.

Lemma update_nth_other {A} (f : A -> A) n m l : n <> m -> nth_error (update_nth n f l) m = nth_error l m.
Proof.
  revert n m; induction l as [|x l IH]; intros [|n] [|m] H; cbn [update_nth nth_error]; try reflexivity; try contradiction.
  apply IH. lia.
Qed.

Lemma update_nth_length {A} (f : A -> A) n l : List.length (update_nth n f l) = List.length l.
Proof. revert n; induction l as [|x l IH]; intros [|n]; cbn [update_nth List.length]; auto. Qed.

(* well-formed: the pointer designates an existing object *)
Definition cwf (s : cstate) : Prop := cs_cur s < List.length (cs_objs s).

Lemma cstep_wf s e : cwf s -> cwf (fst (cstep s e)).
Proof.
  unfold cwf. intros H. destruct e as [c|d r|d|tid|tid rq]; cbn [cstep].
  - destruct (build c); cbn [fst cs_cur cs_objs]; [rewrite app_length; cbn; lia|exact H].
  - cbn [fst mutate_cur cs_cur cs_objs]. now rewrite update_nth_length.
  - cbn [fst mutate_cur cs_cur cs_objs]. now rewrite update_nth_length.
  - exact H.
  - destruct (reg_get tid (cs_regs s)); exact H.
Qed.

(* an object that is not the current one is never written again, and never becomes current again *)
Lemma cstep_frozen s e o : cwf s -> o < List.length (cs_objs s) -> o <> cs_cur s ->
  let s' := fst (cstep s e) in
  nth_error (cs_objs s') o = nth_error (cs_objs s) o /\ o <> cs_cur s' /\ o < List.length (cs_objs s').
Proof.
  unfold cwf. intros Hwf Ho Hne. cbn zeta. destruct e as [c|d r|d|tid|tid rq]; cbn [cstep].
  - destruct (build c); cbn [fst cs_cur cs_objs]; [|auto].
    rewrite nth_error_app1 by exact Ho. rewrite app_length. cbn. repeat split; lia.
  - cbn [fst mutate_cur cs_cur cs_objs]. rewrite update_nth_length. split; [apply update_nth_other; congruence|auto].
  - cbn [fst mutate_cur cs_cur cs_objs]. rewrite update_nth_length. split; [apply update_nth_other; congruence|auto].
  - cbn [fst cs_cur cs_objs]. auto.
  - destruct (reg_get tid (cs_regs s)); cbn [fst]; auto.
Qed.

Lemma crun_frozen es : forall s o, cwf s -> o < List.length (cs_objs s) -> o <> cs_cur s ->
  nth_error (cs_objs (crun s es)) o = nth_error (cs_objs s) o.
Proof.
  induction es as [|e es IH]; intros s o Hwf Ho Hne; cbn [crun]; [reflexivity|].
  destruct (cstep_frozen s e o Hwf Ho Hne) as (H1 & H2 & H3).
  rewrite IH; [exact H1|now apply cstep_wf|exact H3|exact H2].
Qed.

(* A lookup that read the pointer in state s (object cs_cur s) and evaluates after the events es sees the object as it
   is then.  That object is the CURRENT object of one of the states passed in between: the lookup is answered entirely
   by the configuration in force at some moment between its two steps (never by a mixture). *)
Theorem lookup_sees_one_state es : forall s, cwf s ->
  exists s', In s' (ctrace s es) /\
             nth_error (cs_objs (crun s es)) (cs_cur s) = cur_obj s'.
Proof.
  induction es as [|e es IH]; intros s Hwf.
  - exists s. split; [now left|reflexivity].
  - cbn [crun ctrace].
    destruct (Nat.eq_dec (cs_cur (fst (cstep s e))) (cs_cur s)) as [Heq|Hne].
    + (* still the current object after e: continue from the next state *)
      destruct (IH (fst (cstep s e)) (cstep_wf s e Hwf)) as (s' & Hin & Hs'). exists s'. split; [now right|].
      rewrite <- Heq. exact Hs'.
    + (* e swapped the pointer: the object is frozen as it was in s *)
      exists s. split; [now left|]. unfold cur_obj.
      assert (cs_objs (fst (cstep s e)) = (cs_objs s ++ skipn (List.length (cs_objs s)) (cs_objs (fst (cstep s e))))%list /\
              List.length (cs_objs s) <= List.length (cs_objs (fst (cstep s e)))) as [Hobjs Hlen].
      { destruct e as [c|d r|d|tid|tid rq]; cbn [cstep] in *.
        - destruct (build c); cbn [fst cs_objs cs_cur] in *; [|contradiction].
          rewrite skipn_app, skipn_all, Nat.sub_diag. cbn [skipn app]. rewrite app_length. split; [reflexivity|lia].
        - cbn [fst mutate_cur cs_cur] in Hne. contradiction.
        - cbn [fst mutate_cur cs_cur] in Hne. contradiction.
        - cbn [fst cs_cur] in Hne. contradiction.
        - destruct (reg_get tid (cs_regs s)); cbn [fst] in Hne; contradiction. }
      rewrite crun_frozen.
      * rewrite Hobjs. apply nth_error_app1. exact Hwf.
      * now apply cstep_wf.
      * unfold cwf in Hwf. lia.
      * congruence.
Qed.

(* the same, stated on the event list: thread tid reads, other events happen, thread tid evaluates *)
Theorem swap_atomic s tid es rq : cwf s ->
  (forall e, In e es -> e <> ERead tid) ->
  let s1 := fst (cstep s (ERead tid)) in
  let s2 := crun s1 es in
  exists s', In s' (ctrace s1 es) /\ snd (cstep s2 (EEval tid rq)) = Some (tid, lookup (cur_obj s') rq).
Proof.
  intros Hwf Hnoread. cbn zeta.
  set (s1 := fst (cstep s (ERead tid))).
  assert (cwf s1) as Hwf1 by (apply cstep_wf; exact Hwf).
  assert (cs_cur s1 = cs_cur s) as Hcur by reflexivity.
  (* the register of tid still holds the object read *)
  assert (forall es' s0, (forall e, In e es' -> e <> ERead tid) -> reg_get tid (cs_regs s0) = Some (cs_cur s) ->
          reg_get tid (cs_regs (crun s0 es')) = Some (cs_cur s)) as Hreg.
  { induction es' as [|e es' IH]; intros s0 Hno Hr; cbn [crun]; [exact Hr|]. apply IH; [intros e' He'; apply Hno; now right|].
    destruct e as [c|d r|d|t|t rq']; cbn [cstep].
    - destruct (build c); exact Hr.
    - exact Hr.
    - exact Hr.
    - cbn [fst cs_regs reg_get]. destruct (Nat.eqb_spec t tid) as [->|]; [|exact Hr].
      exfalso. exact (Hno (ERead tid) (or_introl eq_refl) eq_refl).
    - destruct (reg_get t (cs_regs s0)); exact Hr. }
  destruct (lookup_sees_one_state es s1 Hwf1) as (s' & Hin & Hs'). exists s'. split; [exact Hin|].
  cbn [cstep]. rewrite (Hreg es s1 Hnoread).
  - cbn [snd]. rewrite Hcur in Hs'. rewrite Hs'. reflexivity.
  - unfold s1. cbn [cstep fst cs_regs reg_get]. now rewrite Nat.eqb_refl.
Qed.
