(* parseProxyTimeout: the sequence of overrides of Model/ProxyTimeout.v equals the precedence the property states. *)
From Coq Require Import List ZArith Bool Lia.
From MV Require Import Model.ProxyTimeout.
Open Scope Z_scope.

(* protocol-supplied if present, else the request's header, else the route's value *)
Definition pick3 (v h : option Z) (r : Z) : Z :=
  match v with Some x => x | None => match h with Some x => x | None => r end end.

Theorem timeout_precedence : forall dflt x,
  let g0 := pick3 (t_var_g x) (t_hdr_g x) (t_route_g x) in
  let t0 := pick3 (t_var_t x) (t_hdr_t x) (t_route_t x) in
  let g := if g0 =? 0 then dflt else g0 in
  parse_timeout dflt x = (g, if g <=? t0 then 0 else t0).
Proof. intros dflt [rg rt [hg|] [ht|] [vg|] [vt|]]; reflexivity. Qed.

(* consequences: the per-try time-out, when enabled, is strictly below the global one; a configured global value is used as is *)
Corollary timeout_try_below_global : forall dflt x, 0 < dflt ->
  let '(g, t) := parse_timeout dflt x in t <> 0 -> t < g.
Proof.
  intros dflt x Hd. rewrite timeout_precedence. cbn zeta.
  destruct (_ <=? _) eqn:E; [congruence|]. intros _. apply Z.leb_gt in E. exact E.
Qed.
