(* Proofs/H2Send.v (group h2): header block fragmentation on the sending side (writeHeaders of MServerConn and
   MClientConn): for EVERY block and every max frame size >= 1 the fragments concatenate to the block, none exceeds
   the max frame size, exactly the last one carries END_HEADERS and a non-empty block yields at least one frame. *)
From Coq Require Import List NArith Arith Lia Bool.
From Coq Require Import ZifyBool ZifyNat ZifyN.
From MV Require Import Lib.HBits Gen.H2Src Model.Hpack Model.H2Frame.
Import ListNotations.
Open Scope N_scope.

Lemma split_concat : forall fuel block mx, 1 <= mx -> (length block <= fuel)%nat ->
  concat (map fst (split_block_gen true fuel block mx)) = block.
Proof.
  induction fuel as [|fuel IH]; intros block mx Hmx Hf.
  - destruct block; [reflexivity | cbn in Hf; lia].
  - cbn [split_block_gen]. destruct block as [|b tl]; [reflexivity|].
    destruct (len (b :: tl) <=? mx) eqn:E.
    + cbn [map fst concat]. rewrite app_nil_r. reflexivity.
    + cbn [map fst concat]. rewrite IH.
      * apply firstn_skipn.
      * exact Hmx.
      * rewrite skipn_length. unfold len in E. cbn [length] in *. lia.
Qed.

Lemma split_sizes : forall fuel block mx, Forall (fun f => len (fst f) <= mx) (split_block_gen true fuel block mx).
Proof.
  induction fuel as [|fuel IH]; intros block mx; [constructor|].
  cbn [split_block_gen]. destruct block as [|b tl]; [constructor|].
  destruct (len (b :: tl) <=? mx) eqn:E.
  - constructor; [cbn [fst]; lia | constructor].
  - constructor; [| apply IH]. cbn [fst]. unfold len. rewrite firstn_length. lia.
Qed.

(* END_HEADERS: false on every fragment but the last, true on the last *)
Fixpoint flags_ok (l : list (bytes * bool)) : Prop :=
  match l with
  | [] => False
  | [x] => snd x = true
  | x :: r => snd x = false /\ flags_ok r
  end.

Lemma split_flags : forall fuel block mx, 1 <= mx -> (length block <= fuel)%nat -> block <> [] ->
  flags_ok (split_block_gen true fuel block mx).
Proof.
  induction fuel as [|fuel IH]; intros block mx Hmx Hf Hne.
  - destruct block; [contradiction | cbn in Hf; lia].
  - cbn [split_block_gen]. destruct block as [|b tl]; [contradiction|].
    destruct (len (b :: tl) <=? mx) eqn:E; [reflexivity|].
    assert (Hrest : skipn (N.to_nat mx) (b :: tl) <> []).
    { intro Hx. apply (f_equal (@length N)) in Hx. rewrite skipn_length in Hx. unfold len in E. cbn [length] in *. lia. }
    assert (Hlen : (length (skipn (N.to_nat mx) (b :: tl)) <= fuel)%nat).
    { rewrite skipn_length. cbn [length] in *. lia. }
    specialize (IH _ mx Hmx Hlen Hrest).
    destruct (split_block_gen true fuel (skipn (N.to_nat mx) (b :: tl)) mx) eqn:Es; [contradiction|].
    cbn [flags_ok]. split; [reflexivity | exact IH].
Qed.

Lemma flags_ok_nonempty : forall l, flags_ok l -> l <> [].
Proof. intros l H. destruct l; [contradiction | discriminate]. Qed.

(* the sender as configured by the source *)
Theorem split_block_correct : h2_hdr_split_last_le = true -> forall block mx, 1 <= mx ->
  concat (map fst (split_block block mx)) = block /\
  Forall (fun f => len (fst f) <= mx) (split_block block mx) /\
  (block <> [] -> flags_ok (split_block block mx) /\ split_block block mx <> []) /\
  (block = [] -> split_block block mx = []).
Proof.
  intros Hle block mx Hmx. unfold split_block. rewrite Hle.
  split; [apply split_concat; [exact Hmx | lia]|].
  split; [apply split_sizes|].
  split.
  - intro Hne. pose proof (split_flags (S (length block)) block mx Hmx (Nat.le_succ_diag_r _) Hne) as Hf.
    split; [exact Hf | apply flags_ok_nonempty; exact Hf].
  - intro He. subst. reflexivity.
Qed.

(* the strict comparison (`len(block) < maxFrameSize` decides "last"): a block of exactly k * max bytes is sent
   without END_HEADERS on any fragment *)
Lemma split_strict_unterminated : forall k fuel block mx, 1 <= mx -> len block = N.of_nat (S k) * mx ->
  (length block <= fuel)%nat ->
  Forall (fun f => snd f = false) (split_block_gen false fuel block mx) /\ split_block_gen false fuel block mx <> [].
Proof.
  induction k as [|k IH]; intros fuel block mx Hmx Hlen Hf.
  - change (N.of_nat 1) with 1 in Hlen. rewrite N.mul_1_l in Hlen.
    destruct fuel as [|fuel]; [unfold len in Hlen; lia|].
    cbn [split_block_gen]. destruct block as [|b tl]; [unfold len in Hlen; cbn [length] in Hlen; lia|].
    assert (E : (len (b :: tl) <? mx) = false) by lia. rewrite E.
    assert (Hs : skipn (N.to_nat mx) (b :: tl) = []).
    { apply length_zero_iff_nil. rewrite skipn_length. unfold len in Hlen. lia. }
    rewrite Hs. destruct fuel; cbn [split_block_gen]; (split; [repeat constructor | discriminate]).
  - rewrite Nat2N.inj_succ, N.mul_succ_l in Hlen.
    assert (Hpos : 1 <= N.of_nat (S k) * mx).
    { rewrite Nat2N.inj_succ, N.mul_succ_l. lia. }
    destruct fuel as [|fuel]; [unfold len in Hlen; lia|].
    cbn [split_block_gen]. destruct block as [|b tl]; [unfold len in Hlen; cbn [length] in Hlen; lia|].
    assert (E : (len (b :: tl) <? mx) = false) by lia. rewrite E.
    destruct (IH fuel (skipn (N.to_nat mx) (b :: tl)) mx Hmx) as [H1 H2].
    + unfold len in *. rewrite skipn_length. lia.
    + rewrite skipn_length. unfold len in Hlen. cbn [length] in *. lia.
    + split; [constructor; [reflexivity | exact H1] | discriminate].
Qed.
