(* Proofs about Model/PoolAcct.v: for a pool that counts a one-way stream exactly when it listens to it, after EVERY history
   the gauge equals the number of accepted-and-not-finished counted requests (never negative, zero when all are finished),
   the Requests resource likewise, and every increment is matched by exactly one decrement. *)
From Coq Require Import List ZArith Bool Arith Lia.
From Coq Require Import ZifyBool ZifyNat.
From RecordUpdate Require Import RecordUpdate.
From MV Require Import Model.Pool Model.PoolAcct Proofs.Pool.
Import ListNotations.
Open Scope Z_scope.

Definition acounted_live (a : acct) (s : nat) : bool := as_live (a_st a s) && as_counted (a_st a s).
Definition aactive_count (a : acct) : nat := countb (acounted_live a) (a_n a).

Record AInv (k : acfg) (a : acct) : Prop := mkAInv {
  ai_lc : forall s, (s < a_n a)%nat -> as_listened (a_st a s) = as_counted (a_st a s);
  ai_active : a_active a = Z.of_nat (aactive_count a);
  ai_req : a_req a = a_active a;
  ai_once : forall s, (s < a_n a)%nat ->
            as_incs (a_st a s) = (if as_counted (a_st a s) then 1 else 0)%nat /\
            as_decs (a_st a s) = (if as_counted (a_st a s) && negb (as_live (a_st a s)) then 1 else 0)%nat
}.

Definition policy_ok (k : acfg) : Prop := ap_listen_oneway (ac_pol k) = ap_count_oneway (ac_pol k).

Lemma ainit_inv : forall k, AInv k ainit.
Proof. intros k. constructor; cbn; try (intros; lia). Qed.

Lemma areq_add_fields : forall k a d, a_n (areq_add k a d) = a_n a /\ a_st (areq_add k a d) = a_st a /\
  a_closed (areq_add k a d) = a_closed a /\ a_active (areq_add k a d) = a_active a /\
  a_req (areq_add k a d) = a_req a + d.
Proof. intros. unfold areq_add. cbn. auto. Qed.

Lemma areq_add_n : forall k a d, a_n (areq_add k a d) = a_n a.
Proof. reflexivity. Qed.
(* the proofs below go through areq_add_fields *)
#[local] Opaque areq_add.

Lemma adestroy_inv : forall k a s, AInv k a -> (s < a_n a)%nat -> AInv k (adestroy k s a).
Proof.
  intros k a s HI Hs. unfold adestroy. set (x := a_st a s). destruct (as_live x) eqn:El; [|assumption].
  destruct HI as [I1 I2 I3 I4].
  assert (Hlc : as_listened x = as_counted x) by (apply I1; assumption).
  set (x' := mkAS (as_oneway x) (as_conn x) (as_listened x) (as_counted x) false (as_sent x) (as_incs x)
                  (if as_listened x then S (as_decs x) else as_decs x)).
  set (a1 := a <| a_st := upd (a_st a) s x' |>).
  assert (Hcnt : aactive_count a = ((if as_counted x then 1 else 0) + aactive_count a1)%nat).
  { unfold aactive_count. change (a_n a1) with (a_n a). destruct (as_counted x) eqn:Ec.
    - rewrite (countb_clear (acounted_live a) (acounted_live a1) (a_n a) s); auto.
      + unfold acounted_live. fold x. rewrite El, Ec. reflexivity.
      + unfold acounted_live, a1. cbn. unfold upd. rewrite Nat.eqb_refl. reflexivity.
      + intros i Hi. unfold acounted_live, a1. cbn. unfold upd. destruct (Nat.eqb_spec i s); [contradiction|reflexivity].
    - cbn. apply countb_ext. intros i Hi. unfold acounted_live, a1. cbn. unfold upd.
      destruct (Nat.eqb_spec i s) as [->|]; [|reflexivity]. fold x. cbn. rewrite Ec, El. reflexivity. }
  assert (Hst : forall q, a_st q = a_st a1 -> a_n q = a_n a ->
            (forall t, (t < a_n q)%nat -> as_listened (a_st q t) = as_counted (a_st q t)) /\
            (forall t, (t < a_n q)%nat ->
               as_incs (a_st q t) = (if as_counted (a_st q t) then 1 else 0)%nat /\
               as_decs (a_st q t) = (if as_counted (a_st q t) && negb (as_live (a_st q t)) then 1 else 0)%nat)).
  { intros q Q1 Q2. rewrite Q1, Q2. split; intros t Ht; unfold a1; cbn; unfold upd; destruct (Nat.eqb_spec t s) as [->|N]; auto.
    cbn. destruct (I4 s Hs) as [A B]. fold x in A, B. rewrite El in B. rewrite Hlc. split; [exact A|].
    cbn [negb] in B. rewrite andb_false_r in B. rewrite B. destruct (as_counted x); reflexivity. }
  rewrite Hlc. destruct (as_counted x) eqn:Ec.
  - set (q := areq_add k (a1 <| a_active := a_active a1 - 1 |>) (-1)).
    destruct (areq_add_fields k (a1 <| a_active := a_active a1 - 1 |>) (-1)) as [F1 [F2 [F3 [F4 F5]]]]. fold q in F1, F2, F3, F4, F5.
    destruct (Hst q F2 F1) as [S1 S2].
    constructor; auto.
    + rewrite F4. cbn. rewrite I2, Hcnt. unfold aactive_count. rewrite F1. change (a_n a1) with (a_n a).
      change (acounted_live q) with (acounted_live a1). change (a_n (a1 <| a_active := a_active a1 - 1 |>)) with (a_n a). lia.
    + rewrite F5, F4. cbn. rewrite I3. lia.
  - destruct (Hst a1 eq_refl eq_refl) as [S1 S2]. constructor; auto.
    cbn. rewrite I2, Hcnt. reflexivity.
Qed.

Lemma adestroy_n : forall k a s, a_n (adestroy k s a) = a_n a.
Proof.
  intros. unfold adestroy. destruct (as_live (a_st a s)); [|reflexivity]. destruct (as_listened (a_st a s)); [|reflexivity].
  rewrite areq_add_n. reflexivity.
Qed.

Lemma aclose_streams_inv : forall k c n a, AInv k a -> (n <= a_n a)%nat ->
  AInv k (aclose_streams k c n a) /\ a_n (aclose_streams k c n a) = a_n a.
Proof.
  intros k c n. induction n as [|n IH]; intros a HI Hn; cbn [aclose_streams]; [auto|].
  destruct (IH a HI) as [A B]; [lia|].
  destruct (as_live (a_st (aclose_streams k c n a) n) && negb (as_oneway (a_st (aclose_streams k c n a) n)) &&
            Nat.eqb (as_conn (a_st (aclose_streams k c n a) n)) c); [|auto].
  split; [apply adestroy_inv; [assumption|lia]|rewrite adestroy_n; assumption].
Qed.

Lemma astep_inv : forall k a o, policy_ok k -> AInv k a -> AInv k (astep k a o).
Proof.
  intros k a o Hp HI. destruct o as [oneway [c|]|s|s|s|c|]; cbn [astep]; try assumption.
  - (* ANew *)
    destruct (acan_create k a); [|assumption].
    set (listened := negb oneway || ap_listen_oneway (ac_pol k)).
    set (counted := negb oneway || ap_count_oneway (ac_pol k)).
    assert (Hlc : listened = counted) by (unfold listened, counted; rewrite Hp; reflexivity).
    set (x := mkAS oneway c listened counted true false (if counted then 1 else 0)%nat 0).
    set (a1 := a <| a_st := upd (a_st a) (a_n a) x |> <| a_n := S (a_n a) |>).
    destruct HI as [I1 I2 I3 I4].
    assert (Hcnt : aactive_count a1 = ((if counted then 1 else 0) + aactive_count a)%nat).
    { unfold aactive_count. change (a_n a1) with (S (a_n a)). cbn [countb].
      assert (E : acounted_live a1 (a_n a) = counted) by (unfold acounted_live, a1; cbn; unfold upd; rewrite Nat.eqb_refl; reflexivity).
      rewrite E. f_equal. apply countb_ext. intros i Hi. unfold acounted_live, a1. cbn. unfold upd.
      destruct (Nat.eqb_spec i (a_n a)); [lia|reflexivity]. }
    assert (Hst : forall q, a_st q = a_st a1 -> a_n q = S (a_n a) ->
              (forall t, (t < a_n q)%nat -> as_listened (a_st q t) = as_counted (a_st q t)) /\
              (forall t, (t < a_n q)%nat ->
                 as_incs (a_st q t) = (if as_counted (a_st q t) then 1 else 0)%nat /\
                 as_decs (a_st q t) = (if as_counted (a_st q t) && negb (as_live (a_st q t)) then 1 else 0)%nat)).
    { intros q Q1 Q2. rewrite Q1, Q2. split; intros t Ht; unfold a1; cbn; unfold upd; destruct (Nat.eqb_spec t (a_n a)) as [->|N].
      - exact Hlc.
      - apply I1. lia.
      - cbn. rewrite andb_false_r. auto.
      - apply I4. lia. }
    destruct counted eqn:Ec.
    + set (q := areq_add k (a1 <| a_active := a_active a1 + 1 |>) 1).
      destruct (areq_add_fields k (a1 <| a_active := a_active a1 + 1 |>) 1) as [F1 [F2 [F3 [F4 F5]]]]. fold q in F1, F2, F3, F4, F5.
      destruct (Hst q F2 F1) as [S1 S2]. constructor; auto.
      * rewrite F4. cbn. rewrite I2.
        assert (E : aactive_count q = aactive_count a1).
        { unfold aactive_count. rewrite F1. change (a_n a1) with (S (a_n a)). apply countb_ext. intros i _. unfold acounted_live. rewrite F2. reflexivity. }
        rewrite E, Hcnt. lia.
      * rewrite F5, F4. cbn. rewrite I3. lia.
    + destruct (Hst a1 eq_refl eq_refl) as [S1 S2]. constructor; auto.
      change (a_active a1) with (a_active a). rewrite I2, Hcnt. reflexivity.
  - (* ASend *)
    set (x := a_st a s).
    destruct (Nat.ltb_spec s (a_n a)) as [Hs|]; cbn [andb]; [|assumption].
    destruct (as_live x) eqn:El; cbn [andb]; [|assumption].
    destruct (as_sent x) eqn:Es; cbn [negb]; [assumption|].
    destruct (a_closed a (as_conn x)); [apply adestroy_inv; assumption|].
    set (a1 := a <| a_st := upd (a_st a) s (mkAS (as_oneway x) (as_conn x) (as_listened x) (as_counted x) true true (as_incs x) (as_decs x)) |>).
    assert (HI1 : AInv k a1).
    { destruct HI as [I1 I2 I3 I4]. constructor.
      - intros t Ht. unfold a1. cbn. unfold upd. destruct (Nat.eqb_spec t s) as [->|]; [apply (I1 s Hs)|apply I1; assumption].
      - cbn. rewrite I2. f_equal. unfold aactive_count. apply countb_ext. intros i Hi. unfold acounted_live, a1. cbn. unfold upd.
        destruct (Nat.eqb_spec i s) as [->|]; [fold x; rewrite El; reflexivity|reflexivity].
      - exact I3.
      - intros t Ht. unfold a1. cbn. unfold upd. destruct (Nat.eqb_spec t s) as [->|]; [|apply I4; assumption].
        cbn. destruct (I4 s Hs) as [A B]. fold x in A, B. rewrite El in B. exact (conj A B). }
    destruct (as_oneway x && ac_destroy_oneway k); [apply adestroy_inv; [exact HI1|exact Hs]|exact HI1].
  - (* AResponse *)
    destruct (Nat.ltb_spec s (a_n a)) as [Hs|]; cbn [andb]; [|assumption].
    destruct (as_live (a_st a s) && as_sent (a_st a s) && negb (as_oneway (a_st a s))); [apply adestroy_inv; assumption|assumption].
  - (* AReset *)
    destruct (Nat.ltb_spec s (a_n a)) as [Hs|]; [apply adestroy_inv; assumption|assumption].
  - (* AConnClose *)
    apply aclose_streams_inv; [|cbn; lia].
    destruct HI as [I1 I2 I3 I4]. constructor; auto.
Qed.

Theorem arun_inv : forall k ops, policy_ok k -> AInv k (arun k ops ainit).
Proof.
  intros k ops Hp. unfold arun. generalize (ainit_inv k). generalize ainit.
  induction ops as [|o ops IH]; cbn [fold_left]; intros a HI; [assumption|]. apply IH. apply astep_inv; assumption.
Qed.

(* the statement used by Props/C10_pool.v *)
Theorem acct_balanced : forall k ops, policy_ok k -> let a := arun k ops ainit in
  a_active a = Z.of_nat (aactive_count a) /\ 0 <= a_active a /\
  a_req a = a_active a /\ 0 <= a_req a /\
  ((forall s, (s < a_n a)%nat -> as_live (a_st a s) = false) -> a_active a = 0 /\ a_req a = 0) /\
  (forall s, (s < a_n a)%nat ->
     (as_decs (a_st a s) <= as_incs (a_st a s) <= 1)%nat /\
     (as_live (a_st a s) = false -> as_decs (a_st a s) = as_incs (a_st a s)) /\
     (as_live (a_st a s) = true -> as_decs (a_st a s) = 0%nat)).
Proof.
  intros k ops Hp a. destruct (arun_inv k ops Hp) as [I1 I2 I3 I4]. fold a in I1, I2, I3, I4.
  split; [exact I2|]. split; [lia|]. split; [exact I3|]. split; [rewrite I3; lia|]. split.
  - intros Hd. assert (aactive_count a = 0%nat).
    { unfold aactive_count. apply countb_zero. intros i Hi. unfold acounted_live. rewrite (Hd i Hi). reflexivity. }
    rewrite I3, I2, H. auto.
  - intros s Hs. destruct (I4 s Hs) as [A B]. rewrite A, B.
    destruct (as_counted (a_st a s)), (as_live (a_st a s)); cbn; repeat split; intros; try lia; try discriminate.
Qed.
