(* Proofs/H2GoAway.v (group h2): C11 for HTTP/2 - no request is lost by the graceful GOAWAY of a draining connection.
   For EVERY client script, EVERY interleaving of the client, the server's reader, the shutdown event and the workers:
   the connection is never closed under accepted streams, every stream the server refuses is above the last-stream-id of
   the GOAWAY the client reads (so it is replayed), every stream at or below it was accepted, and once everything in
   flight has been handled every request the client sent is answered, was cancelled by the client itself, or is reported
   retriable.  Each of the four source shapes the switches stand for is refuted by a schedule. *)
From Coq Require Import List NArith Arith Lia Bool.
From Coq Require Import ZifyBool ZifyNat ZifyN.
From MV Require Import Lib.Interleave Model.H2GoAway.
Import ListNotations.
Open Scope N_scope.

(* ---------------------------------------------------------------- strictly increasing id lists *)
Fixpoint inc_from (lo : N) (l : list N) : Prop :=
  match l with [] => True | x :: r => lo < x /\ inc_from x r end.

Lemma last_default : forall (l : list N) y d d', last (y :: l) d = last (y :: l) d'.
Proof. induction l as [|z l IH]; intros y d d'; [reflexivity|]. change (last (z :: l) d = last (z :: l) d'). apply IH. Qed.

Lemma inc_app : forall a b lo, inc_from lo (a ++ b) <-> inc_from lo a /\ inc_from (last a lo) b.
Proof.
  induction a as [|x a IH]; intros b lo; cbn [app inc_from]; [cbn [last]; tauto|].
  rewrite IH. destruct a as [|y a]; [cbn [last]; tauto|].
  change (last (x :: y :: a) lo) with (last (y :: a) lo). rewrite (last_default a y x lo). tauto.
Qed.

Lemma inc_gt : forall l lo x, inc_from lo l -> In x l -> lo < x.
Proof.
  induction l as [|y l IH]; intros lo x H Hi; [contradiction|]. destruct H as [H1 H2].
  destruct Hi as [->|Hi]; [exact H1|]. pose proof (IH y x H2 Hi). lia.
Qed.

Lemma inc_le_last : forall l lo x, inc_from lo l -> In x l -> x <= last l lo.
Proof.
  induction l as [|y l IH]; intros lo x H Hi; [contradiction|]. destruct H as [H1 H2].
  destruct l as [|z l]; [destruct Hi as [->|[]]; cbn; lia|].
  change (last (y :: z :: l) lo) with (last (z :: l) lo).
  rewrite <- (last_default l z y lo).
  destruct Hi as [<-|Hi].
  - assert (Hz : In z (z :: l)) by (left; reflexivity). pose proof (IH y z H2 Hz) as G. destruct H2 as [H2 _]. lia.
  - exact (IH y x H2 Hi).
Qed.

Lemma last_snoc : forall (l : list N) x d, last (l ++ [x]) d = x.
Proof. intros. apply last_last. Qed.

(* ---------------------------------------------------------------- the wires *)
Definition heads (cs : list cframe) : list N := flat_map (fun f => match f with CHead id _ => [id] | _ => [] end) cs.
Definition fin_for (id : N) (f : cframe) : bool :=
  match f with CData i true => i =? id | CTrail i => i =? id | CRst i => i =? id | _ => false end.
Definition finish_in (id : N) (cs : list cframe) : Prop := existsb (fin_for id) cs = true.

Fixpoint wire_ok (pend : list N) (cs : list cframe) : Prop :=
  match cs with
  | [] => True
  | CHead id false :: r => (finish_in id r \/ In id pend) /\ wire_ok pend r
  | _ :: r => wire_ok pend r
  end.

Definition resps (sc : list sframe) : list N := flat_map (fun f => match f with SResp id => [id] | _ => [] end) sc.

Lemma heads_app : forall a b, heads (a ++ b) = heads a ++ heads b.
Proof. intros. unfold heads. apply flat_map_app. Qed.
Lemma resps_app : forall a b, resps (a ++ b) = resps a ++ resps b.
Proof. intros. unfold resps. apply flat_map_app. Qed.

Lemma finish_app : forall id a b, finish_in id a -> finish_in id (a ++ b).
Proof. intros id a b H. unfold finish_in in *. rewrite existsb_app, H. reflexivity. Qed.
Lemma finish_app_r : forall id a b, finish_in id b -> finish_in id (a ++ b).
Proof. intros id a b H. unfold finish_in in *. rewrite existsb_app, H. apply orb_true_r. Qed.

Lemma finish_tail : forall id f r, finish_in id (f :: r) -> fin_for id f = false -> finish_in id r.
Proof. intros id f r H E. unfold finish_in in *. cbn [existsb] in H. rewrite E in H. exact H. Qed.

Lemma wire_ok_tail : forall p f r, wire_ok p (f :: r) -> wire_ok p r.
Proof. intros p f r H. destruct f as [id es| | |]; cbn [wire_ok] in H; try exact H. destruct es; [exact H | apply H]. Qed.

Lemma wire_ok_mono : forall p p' cs, (forall x, In x p -> In x p') -> wire_ok p cs -> wire_ok p' cs.
Proof.
  intros p p' cs Hs. induction cs as [|f r IH]; intro H; [exact I|].
  destruct f as [id es| | |]; cbn [wire_ok] in *; try (apply IH; exact H).
  destruct es; [apply IH; exact H|]. destruct H as [[H|H] H2]; (split; [|apply IH; exact H2]); [left; exact H | right; apply Hs; exact H].
Qed.

(* appending a frame: every waiting HEADERS that loses its pending entry finds its last frame at the end *)
Lemma wire_ok_snoc : forall p p' f cs,
  (forall x, In x p -> In x p' \/ fin_for x f = true) ->
  (forall id, f = CHead id false -> In id p') ->
  wire_ok p cs -> wire_ok p' (cs ++ [f]).
Proof.
  intros p p' f cs Hp Hf. induction cs as [|g r IH]; intro H.
  - cbn [app]. destruct f as [id es| | |]; cbn [wire_ok]; try exact I. destruct es; [exact I|]. split; [right; apply Hf; reflexivity | exact I].
  - cbn [app]. destruct g as [id es| | |]; cbn [wire_ok] in *; try (apply IH; exact H).
    destruct es; [apply IH; exact H|]. destruct H as [H H2]. split; [|apply IH; exact H2].
    destruct H as [H|H]; [left; apply finish_app; exact H|].
    destruct (Hp id H) as [G|G]; [right; exact G|]. left. apply finish_app_r. unfold finish_in. cbn [existsb]. rewrite G. reflexivity.
Qed.

Lemma in_rm : forall x y l, In x (rm y l) <-> In x l /\ x <> y.
Proof. intros x y l. unfold rm. rewrite filter_In. split; intros [H1 H2]; (split; [exact H1|]); [intro E; subst; rewrite N.eqb_refl in H2; discriminate | apply negb_true_iff; apply N.eqb_neq; exact H2]. Qed.

Lemma mem_in : forall x l, mem x l = true <-> In x l.
Proof. intros x l. unfold mem. rewrite existsb_exists. split; [intros [y [H1 H2]]; apply N.eqb_eq in H2; subst; exact H1 | intro H; exists x; split; [exact H | apply N.eqb_refl]]. Qed.

Lemma in_drop_nth : forall (l : list (N * fkind)) n x, In x (map fst l) ->
  In x (map fst (drop_nth n l)) \/ exists k, nth_error l n = Some (x, k).
Proof.
  induction l as [|[y k] l IH]; intros n x H; [contradiction|]. destruct n as [|n]; cbn [drop_nth nth_error map In fst] in *.
  - destruct H as [->|H]; [right; exists k; reflexivity | left; exact H].
  - destruct H as [->|H]; [left; left; reflexivity|]. destruct (IH n x H) as [G|G]; [left; right; exact G | right; exact G].
Qed.

Lemma in_drop_nth_inv : forall (l : list (N * fkind)) n x, In x (map fst (drop_nth n l)) -> In x (map fst l).
Proof.
  induction l as [|[y k] l IH]; intros n x H; [destruct n; exact H|]. destruct n as [|n]; cbn [drop_nth map In fst] in *.
  - right. exact H.
  - destruct H as [H|H]; [left; exact H | right; apply (IH n); exact H].
Qed.

(* ---------------------------------------------------------------- the invariant *)
Definition pend (c : cli) : list N := map fst (c_pending c).

Record Inv (sh : gsh) : Prop := mkInv {
  i_part : c_sent (g_cli sh) = s_acc (g_srv sh) ++ s_dropped (g_srv sh) ++ heads (w_cs sh);
  i_inc : inc_from 0 (c_sent (g_cli sh));
  i_next : last (c_sent (g_cli sh)) 0 < c_next (g_cli sh);
  i_max : s_max (g_srv sh) = last (s_acc (g_srv sh)) 0;
  i_nodrop : s_ga (g_srv sh) = None -> s_dropped (g_srv sh) = [];
  i_last : forall l, s_ga (g_srv sh) = Some l -> l = s_max (g_srv sh);
  i_alive : s_closed (g_srv sh) = false;
  i_fin : forall id, In id (s_open (g_srv sh)) -> finish_in id (w_cs sh) \/ In id (pend (g_cli sh));
  i_wire : wire_ok (pend (g_cli sh)) (w_cs sh);
  i_acc : forall id, In id (s_acc (g_srv sh)) ->
          In id (s_open (g_srv sh)) \/ In id (s_ready (g_srv sh)) \/ In id (s_done (g_srv sh)) \/ In id (s_cancelled (g_srv sh));
  i_sub : forall id, In id (s_open (g_srv sh)) -> In id (s_acc (g_srv sh));
  i_done : s_done (g_srv sh) = c_answered (g_cli sh) ++ resps (w_sc sh);
  i_cga : forall l, c_ga (g_cli sh) = Some l -> s_ga (g_srv sh) = Some l;
  i_wga : forall l, In (SGoAway l) (w_sc sh) -> s_ga (g_srv sh) = Some l;
  i_ga : forall l, s_ga (g_srv sh) = Some l -> c_ga (g_cli sh) = Some l \/ In (SGoAway l) (w_sc sh) }.

Lemma inv0 : Inv gsh0.
Proof.
  constructor; cbn; try reflexivity; try tauto; try discriminate; try lia; intros; try contradiction; try discriminate.
Qed.

(* every id still to be handled by the server (refused or in flight) is above everything it has accepted *)
Lemma inv_above : forall sh, Inv sh -> forall id, In id (s_dropped (g_srv sh) ++ heads (w_cs sh)) -> s_max (g_srv sh) < id.
Proof.
  intros sh H id Hi. pose proof (i_inc sh H) as Hinc. rewrite (i_part sh H) in Hinc.
  apply inc_app in Hinc as [_ Hinc]. rewrite (i_max sh H). exact (inc_gt _ _ _ Hinc Hi).
Qed.

Lemma inv_acc_le : forall sh, Inv sh -> forall id, In id (s_acc (g_srv sh)) -> id <= s_max (g_srv sh).
Proof.
  intros sh H id Hi. pose proof (i_inc sh H) as Hinc. rewrite (i_part sh H) in Hinc.
  apply inc_app in Hinc as [Hinc _]. rewrite (i_max sh H). exact (inc_le_last _ _ _ Hinc Hi).
Qed.

(* ---------------------------------------------------------------- the client's steps *)
Lemma inv_open : forall sh k, Inv sh -> c_ga (g_cli sh) = None ->
  let c := g_cli sh in let id := c_next c in
  Inv (mkGsh (w_cs sh ++ [CHead id (match k with None => true | Some _ => false end)]) (w_sc sh) (g_srv sh)
             (mkCli (id + 2) (c_sent c ++ [id]) (match k with None => c_pending c | Some fk => c_pending c ++ [(id, fk)] end)
                    (c_ga c) (c_answered c) (c_diverted c))).
Proof.
  intros sh k H Hga c id. destruct H. subst c id.
  assert (Hp : forall x, In x (pend (g_cli sh)) ->
               In x (map fst (match k with None => c_pending (g_cli sh) | Some fk => c_pending (g_cli sh) ++ [(c_next (g_cli sh), fk)] end))).
  { intros x Hx. destruct k; cbv beta iota; [|exact Hx]. unfold pend in Hx. apply in_map_iff in Hx as [e [E He]]. apply in_map_iff. exists e. split; [exact E | apply in_or_app; left; exact He]. }
  constructor; cbn [g_cli g_srv w_cs w_sc c_sent c_next c_pending c_ga c_answered pend]; try assumption.
  - rewrite heads_app. cbn [heads flat_map app]. rewrite i_part0, !app_assoc. reflexivity.
  - apply inc_app. split; [exact i_inc0|]. cbn [inc_from]. split; [exact i_next0 | exact I].
  - rewrite last_snoc. lia.
  - intros x Hx. destruct (i_fin0 x Hx) as [G|G]; [left; apply finish_app; exact G | right; apply Hp; exact G].
  - apply (wire_ok_snoc (pend (g_cli sh))); [intros x Hx; left; apply Hp; exact Hx | | exact i_wire0].
    intros id0 E. destruct k as [fk|]; [|discriminate]. inversion E; subst. apply in_map_iff. exists (c_next (g_cli sh), fk). split; [reflexivity | apply in_or_app; right; left; reflexivity].
Qed.

Lemma inv_same_wires : forall sh c', Inv sh ->
  c_sent c' = c_sent (g_cli sh) -> c_next c' = c_next (g_cli sh) -> c_pending c' = c_pending (g_cli sh) ->
  c_ga c' = c_ga (g_cli sh) -> c_answered c' = c_answered (g_cli sh) ->
  Inv (mkGsh (w_cs sh) (w_sc sh) (g_srv sh) c').
Proof.
  intros sh c' H E1 E2 E3 E4 E5. destruct H.
  constructor; cbn [g_cli g_srv w_cs w_sc]; unfold pend in *; rewrite ?E1, ?E2, ?E3, ?E4, ?E5; assumption.
Qed.

Lemma inv_data : forall sh id, Inv sh -> Inv (mkGsh (w_cs sh ++ [CData id false]) (w_sc sh) (g_srv sh) (g_cli sh)).
Proof.
  intros sh id H. destruct H.
  constructor; cbn [g_cli g_srv w_cs w_sc]; try assumption.
  - rewrite heads_app. cbn [heads flat_map app]. rewrite app_nil_r. exact i_part0.
  - intros x Hx. destruct (i_fin0 x Hx) as [G|G]; [left; apply finish_app; exact G | right; exact G].
  - apply (wire_ok_snoc (pend (g_cli sh))); [intros x Hx; left; exact Hx | intros id0 E; discriminate | exact i_wire0].
Qed.

Lemma fin_for_fin_frame : forall id k, fin_for id (fin_frame id k) = true.
Proof. intros id k. destruct k; cbn; apply N.eqb_refl. Qed.

Lemma inv_finish : forall sh n id fk, Inv sh -> nth_error (c_pending (g_cli sh)) n = Some (id, fk) ->
  let c := g_cli sh in
  Inv (mkGsh (w_cs sh ++ [fin_frame id fk]) (w_sc sh) (g_srv sh)
             (mkCli (c_next c) (c_sent c) (drop_nth n (c_pending c)) (c_ga c) (c_answered c) (c_diverted c))).
Proof.
  intros sh n id fk H Hn c. destruct H. subst c.
  assert (Hp : forall x, In x (pend (g_cli sh)) -> In x (map fst (drop_nth n (c_pending (g_cli sh)))) \/ fin_for x (fin_frame id fk) = true).
  { intros x Hx. destruct (in_drop_nth _ n x Hx) as [G|[k G]]; [left; exact G|]. rewrite Hn in G. inversion G; subst. right. apply fin_for_fin_frame. }
  constructor; cbn [g_cli g_srv w_cs w_sc c_sent c_next c_pending c_ga c_answered pend]; try assumption.
  - rewrite heads_app. assert (E : heads [fin_frame id fk] = []) by (destruct fk; reflexivity). rewrite E, app_nil_r. exact i_part0.
  - intros x Hx. destruct (i_fin0 x Hx) as [G|G]; [left; apply finish_app; exact G|].
    destruct (Hp x G) as [G2|G2]; [right; exact G2|]. left. apply finish_app_r. unfold finish_in. cbn [existsb]. rewrite G2. reflexivity.
  - apply (wire_ok_snoc (pend (g_cli sh))); [exact Hp | intros id0 E; destruct fk; discriminate | exact i_wire0].
Qed.

Lemma inv_read : forall sh f r, Inv sh -> w_sc sh = f :: r ->
  Inv (mkGsh (w_cs sh) r (g_srv sh) (cli_read gsw_ok (g_cli sh) f)).
Proof.
  intros sh f r H Hsc. destruct H. rewrite Hsc in *.
  destruct f as [l|id]; cbn [cli_read gsw_ok g_client_zero negb]; rewrite ?andb_false_r.
  - constructor; cbn [g_cli g_srv w_cs w_sc c_sent c_next c_pending c_ga c_answered pend]; try assumption.
    + intros l' E. inversion E; subst. apply i_wga0. left. reflexivity.
    + intros l' Hi. apply i_wga0. right. exact Hi.
    + intros l' E. assert (El : s_ga (g_srv sh) = Some l) by (apply i_wga0; left; reflexivity).
      rewrite El in E. inversion E; subst. left. reflexivity.
  - constructor; cbn [g_cli g_srv w_cs w_sc c_sent c_next c_pending c_ga c_answered pend]; try assumption.
    + rewrite i_done0. cbn [resps flat_map app]. rewrite <- app_assoc. reflexivity.
    + intros l' Hi. apply i_wga0. right. exact Hi.
    + intros l' E. destruct (i_ga0 l' E) as [G|[G|G]]; [left; exact G | discriminate | right; exact G].
Qed.

(* ---------------------------------------------------------------- the server's steps *)
Lemma inv_shutdown : forall sh, Inv sh ->
  let x := srv_shutdown gsw_ok (g_srv sh) in Inv (mkGsh (w_cs sh) (w_sc sh ++ snd x) (fst x) (g_cli sh)).
Proof.
  intros sh H x. subst x. pose proof H as H0. destruct H. unfold srv_shutdown. rewrite i_alive0.
  destruct (s_ga (g_srv sh)) as [l|] eqn:Ega; cbn [fst snd].
  - rewrite app_nil_r. destruct sh; exact H0.
  - cbn [gsw_ok g_last_is_max].
    constructor; cbn [g_cli g_srv w_cs w_sc s_max s_ga s_open s_ready s_done s_cancelled s_acc s_dropped s_closed]; try assumption; try reflexivity.
    + intro E. discriminate.
    + intros l E. inversion E. reflexivity.
    + rewrite resps_app. cbn [resps flat_map]. rewrite app_nil_r. exact i_done0.
    + intros l E. pose proof (i_cga0 l E) as C. discriminate.
    + intros l Hi. apply in_app_or in Hi as [Hi|[Hi|[]]]; [pose proof (i_wga0 l Hi) as C; discriminate | inversion Hi; reflexivity].
    + intros l E. inversion E; subst. right. apply in_or_app. right. left. reflexivity.
Qed.

Lemma inv_worker : forall sh, Inv sh ->
  let x := srv_answer (g_srv sh) in Inv (mkGsh (w_cs sh) (w_sc sh ++ snd x) (fst x) (g_cli sh)).
Proof.
  intros sh H x. subst x. pose proof H as H0. destruct H. unfold srv_answer. rewrite i_alive0.
  destruct (s_ready (g_srv sh)) as [|id r] eqn:Er; cbn [fst snd].
  - rewrite app_nil_r. destruct sh; exact H0.
  - constructor; cbn [g_cli g_srv w_cs w_sc s_max s_ga s_open s_ready s_done s_cancelled s_acc s_dropped s_closed]; try assumption; try reflexivity.
    + intros x Hx. destruct (i_acc0 x Hx) as [G|[G|[G|G]]]; [left; exact G | | right; right; left; apply in_or_app; left; exact G | right; right; right; exact G].
      destruct G as [->|G]; [right; right; left; apply in_or_app; right; left; reflexivity | right; left; exact G].
    + rewrite resps_app. cbn [resps flat_map]. rewrite i_done0, <- app_assoc. reflexivity.
    + intros l Hi. apply in_app_or in Hi as [Hi|[Hi|[]]]; [exact (i_wga0 l Hi) | discriminate].
    + intros l E. destruct (i_ga0 l E) as [G|G]; [left; exact G | right; apply in_or_app; left; exact G].
Qed.

(* moving a stream out of `open` (to ready / cancelled) *)
Lemma fin_after_move : forall sh f r id, Inv sh -> w_cs sh = f :: r -> fin_for id f = true \/ True ->
  forall x, In x (rm id (s_open (g_srv sh))) -> (forall y, fin_for y f = true -> y = id) -> finish_in x r \/ In x (pend (g_cli sh)).
Proof.
  intros sh f r id H Hcs _ x Hx Hf. apply in_rm in Hx as [Hx Hne].
  destruct (i_fin sh H x Hx) as [G|G]; [|right; exact G]. left. rewrite Hcs in G.
  apply (finish_tail x f r G). destruct (fin_for x f) eqn:E; [|reflexivity]. exfalso. apply Hne. apply Hf. exact E.
Qed.

(* a frame that leaves the server's state as it is *)
Lemma inv_skip : forall sh f r, Inv sh -> w_cs sh = f :: r -> heads [f] = [] ->
  (forall x, In x (s_open (g_srv sh)) -> fin_for x f = false) ->
  Inv (mkGsh r (w_sc sh) (g_srv sh) (g_cli sh)).
Proof.
  intros sh f r H Hcs Hh Hf. destruct H. rewrite Hcs in *.
  constructor; cbn [g_cli g_srv w_cs w_sc]; try assumption.
  - rewrite i_part0. change (f :: r) with ([f] ++ r). rewrite heads_app, Hh. reflexivity.
  - intros x Hx. destruct (i_fin0 x Hx) as [G|G]; [left; apply (finish_tail x f r G); apply Hf; exact Hx | right; exact G].
  - exact (wire_ok_tail _ _ _ i_wire0).
Qed.

Lemma inv_reader : forall sh f r, Inv sh -> w_cs sh = f :: r ->
  Inv (mkGsh r (w_sc sh) (srv_frame gsw_ok (g_srv sh) f) (g_cli sh)).
Proof.
  intros sh f r H Hcs. pose proof H as H0. pose proof (inv_above sh H) as Habove. pose proof (inv_acc_le sh H) as Hle.
  assert (Hlate : forall id, In id (s_open (g_srv sh)) -> late (g_srv sh) id = false).
  { intros id Hi. unfold late. pose proof (Hle id (i_sub sh H id Hi)). destruct (in_goaway (g_srv sh)); [cbn [andb]; lia | reflexivity]. }
  (* a stream's last frame meets the stream in `open` only if it is not late *)
  assert (Hskip : forall id, heads [f] = [] -> (forall y, fin_for y f = true -> y = id) -> late (g_srv sh) id = true ->
                  Inv (mkGsh r (w_sc sh) (g_srv sh) (g_cli sh))).
  { intros id Hh Hf Hl. apply (inv_skip sh f r H Hcs Hh). intros x Hx. destruct (fin_for x f) eqn:E; [|reflexivity].
    rewrite (Hf x E) in Hx. rewrite (Hlate id Hx) in Hl. discriminate. }
  assert (Hskip2 : forall id, heads [f] = [] -> (forall y, fin_for y f = true -> y = id) -> mem id (s_open (g_srv sh)) = false ->
                   Inv (mkGsh r (w_sc sh) (g_srv sh) (g_cli sh))).
  { intros id Hh Hf Hm. apply (inv_skip sh f r H Hcs Hh). intros x Hx. destruct (fin_for x f) eqn:E; [|reflexivity].
    rewrite (Hf x E) in Hx. apply mem_in in Hx. rewrite Hx in Hm. discriminate. }
  (* the stream goes from open to ready *)
  assert (Hready : forall id, heads [f] = [] -> (forall y, fin_for y f = true -> y = id) -> In id (s_open (g_srv sh)) ->
                   Inv (mkGsh r (w_sc sh) (s_to_ready (g_srv sh) id) (g_cli sh))).
  { intros id Hh Hf Hi. destruct H.
    constructor; cbn [g_cli g_srv w_cs w_sc s_to_ready s_max s_ga s_open s_ready s_done s_cancelled s_acc s_dropped s_closed]; try assumption.
    - rewrite i_part0, Hcs. change (f :: r) with ([f] ++ r). rewrite heads_app, Hh. reflexivity.
    - intros x Hx. exact (fin_after_move sh f r id H0 Hcs (or_intror I) x Hx Hf).
    - rewrite Hcs in i_wire0. exact (wire_ok_tail _ _ _ i_wire0).
    - intros x Hx. destruct (N.eq_dec x id) as [->|Hne]; [right; left; apply in_or_app; right; left; reflexivity|].
      destruct (i_acc0 x Hx) as [G|[G|G]]; [left; apply in_rm; split; assumption | right; left; apply in_or_app; left; exact G | right; right; exact G].
    - intros x Hx. apply in_rm in Hx as [Hx _]. apply i_sub0. exact Hx. }
  unfold srv_frame. rewrite (i_alive sh H).
  destruct f as [id es | id es | id | id].
  - (* HEADERS of a new stream *)
    assert (Hgt : s_max (g_srv sh) < id).
    { apply Habove. apply in_or_app. right. rewrite Hcs. left. reflexivity. }
    destruct H. rewrite Hcs in *.
    assert (Hfin : forall x, In x (s_open (g_srv sh)) -> finish_in x r \/ In x (pend (g_cli sh))).
    { intros x Hx. destruct (i_fin0 x Hx) as [G|G]; [left; apply (finish_tail x _ r G); reflexivity | right; exact G]. }
    unfold in_goaway. destruct (s_ga (g_srv sh)) as [l|] eqn:Ega.
    + assert (E : (s_max (g_srv sh) <? id) = true) by lia. rewrite E.
      constructor; cbn [g_cli g_srv w_cs w_sc s_max s_ga s_open s_ready s_done s_cancelled s_acc s_dropped s_closed]; try assumption; try reflexivity.
      * rewrite i_part0. cbn [heads flat_map app]. rewrite <- !app_assoc. reflexivity.
      * intro C; discriminate.
      * exact (wire_ok_tail _ _ _ i_wire0).
    + assert (E : (id <=? s_max (g_srv sh)) = false) by lia. rewrite E.
      pose proof (i_nodrop0 eq_refl) as Hd. rewrite Hd in *.
      constructor; cbn [g_cli g_srv w_cs w_sc s_max s_ga s_open s_ready s_done s_cancelled s_acc s_dropped s_closed]; try assumption; try reflexivity.
      * rewrite i_part0. cbn [heads flat_map app]. rewrite <- app_assoc. reflexivity.
      * rewrite last_snoc. reflexivity.
      * intro C; discriminate.
      * intros x Hx. destruct es; [apply Hfin; exact Hx|]. apply in_app_or in Hx as [Hx|[<-|[]]]; [apply Hfin; exact Hx|].
        cbn [wire_ok] in i_wire0. apply i_wire0.
      * exact (wire_ok_tail _ _ _ i_wire0).
      * intros x Hx. apply in_app_or in Hx as [Hx|[<-|[]]].
        -- destruct (i_acc0 x Hx) as [G|[G|G]]; [left; destruct es; [|apply in_or_app; left]; exact G | right; left; destruct es; [apply in_or_app; left|]; exact G | right; right; exact G].
        -- destruct es; [right; left; apply in_or_app; right; left; reflexivity | left; apply in_or_app; right; left; reflexivity].
      * intros x Hx. apply in_or_app. destruct es; [left; apply i_sub0; exact Hx|].
        apply in_app_or in Hx as [Hx|Hx]; [left; apply i_sub0; exact Hx | right; exact Hx].
  - (* DATA *)
    assert (Hf : forall y, fin_for y (CData id es) = true -> y = id).
    { intros y E. cbn [fin_for] in E. destruct es; [apply N.eqb_eq in E; symmetry; exact E | discriminate]. }
    destruct (late (g_srv sh) id) eqn:El; [cbn [gsw_ok g_late_discarded]; destruct sh; exact (Hskip id eq_refl Hf El)|].
    destruct (es && mem id (s_open (g_srv sh))) eqn:Em.
    + apply andb_true_iff in Em as [_ Em]. apply mem_in in Em. exact (Hready id eq_refl Hf Em).
    + destruct es; [cbn [andb] in Em; destruct sh; exact (Hskip2 id eq_refl Hf Em)|].
      pose proof (inv_skip sh _ r H0 Hcs eq_refl (fun _ _ => eq_refl)) as K. destruct sh; exact K.
  - (* trailers *)
    assert (Hf : forall y, fin_for y (CTrail id) = true -> y = id).
    { intros y E. cbn [fin_for] in E. apply N.eqb_eq in E. symmetry. exact E. }
    destruct (late (g_srv sh) id) eqn:El; [destruct sh; exact (Hskip id eq_refl Hf El)|].
    cbn [gsw_ok g_old_continue negb]. rewrite andb_false_r.
    destruct (mem id (s_open (g_srv sh))) eqn:Em; [apply mem_in in Em; exact (Hready id eq_refl Hf Em) | destruct sh; exact (Hskip2 id eq_refl Hf Em)].
  - (* RST_STREAM *)
    assert (Hf : forall y, fin_for y (CRst id) = true -> y = id).
    { intros y E. cbn [fin_for] in E. apply N.eqb_eq in E. symmetry. exact E. }
    destruct (late (g_srv sh) id) eqn:El; [cbn [gsw_ok g_late_discarded]; destruct sh; exact (Hskip id eq_refl Hf El)|].
    destruct (mem id (s_open (g_srv sh)) || mem id (s_ready (g_srv sh))) eqn:Em.
    + destruct H.
      constructor; cbn [g_cli g_srv w_cs w_sc s_max s_ga s_open s_ready s_done s_cancelled s_acc s_dropped s_closed]; try assumption; try reflexivity.
      * rewrite i_part0, Hcs. reflexivity.
      * intros x Hx. exact (fin_after_move sh _ r id H0 Hcs (or_intror I) x Hx Hf).
      * rewrite Hcs in i_wire0. exact (wire_ok_tail _ _ _ i_wire0).
      * intros x Hx. destruct (N.eq_dec x id) as [->|Hne]; [right; right; right; apply in_or_app; right; left; reflexivity|].
        destruct (i_acc0 x Hx) as [G|[G|[G|G]]]; [left; apply in_rm; split; assumption | right; left; apply in_rm; split; assumption | right; right; left; exact G | right; right; right; apply in_or_app; left; exact G].
      * intros x Hx. apply in_rm in Hx as [Hx _]. apply i_sub0. exact Hx.
    + apply orb_false_iff in Em as [Em _]. destruct sh; exact (Hskip2 id eq_refl Hf Em).
Qed.

(* ---------------------------------------------------------------- every thread, every schedule *)
Lemma inv_gstep : forall t sh, Inv sh -> Inv (snd (gstep gsw_ok t sh)).
Proof.
  intros t sh H. destruct t as [script | | |]; cbn [gstep].
  - destruct script as [|a rest]; [exact H|]. destruct a as [k | n | n |].
    + destruct (c_ga (g_cli sh)) as [l|] eqn:Ega; cbn [snd].
      * apply (inv_same_wires sh _ H); cbn; try reflexivity. symmetry; exact Ega.
      * pose proof (inv_open sh k H Ega) as K. cbv zeta in K. rewrite Ega in K. exact K.
    + destruct (nth_error (c_pending (g_cli sh)) n) as [[id fk]|]; cbn [snd]; [|exact H].
      pose proof (inv_data sh id H) as K. exact K.
    + destruct (nth_error (c_pending (g_cli sh)) n) as [[id fk]|] eqn:En; cbn [snd]; [|exact H].
      exact (inv_finish sh n id fk H En).
    + destruct (w_sc sh) as [|f r] eqn:Esc; cbn [snd]; [exact H|]. exact (inv_read sh f r H Esc).
  - destruct (w_cs sh) as [|f r] eqn:Ecs; cbn [snd]; [exact H|]. exact (inv_reader sh f r H Ecs).
  - cbn [snd]. exact (inv_shutdown sh H).
  - cbn [snd]. exact (inv_worker sh H).
Qed.

Theorem inv_every_schedule : forall threads sched, Inv (snd (grun gsw_ok sched (threads, gsh0))).
Proof.
  intros threads sched. unfold grun.
  apply (run_invariant (gstep gsw_ok) (fun c => Inv (snd c))); [|exact inv0].
  intros c k Hc. unfold sched_step. destruct (nth_error (fst c) k) as [t|]; [|exact Hc].
  cbn [snd]. apply inv_gstep. exact Hc.
Qed.

(* ---------------------------------------------------------------- what the invariant says *)
(* at every moment of every run *)
Theorem goaway_safe : forall threads sched,
  let sh := snd (grun gsw_ok sched (threads, gsh0)) in
  let s := g_srv sh in let c := g_cli sh in
  (* the connection is not closed under the accepted streams *)
  s_closed s = false /\
  (* the client's streams: accepted ones, refused ones, ones still on the wire - nothing else, in this order *)
  c_sent c = s_acc s ++ s_dropped s ++ heads (w_cs sh) /\
  (* nothing is refused without a GOAWAY; the GOAWAY the client has read is the one the server wrote, and a written
     GOAWAY is read or still in flight *)
  (s_ga s = None -> s_dropped s = []) /\
  (forall l, c_ga c = Some l -> s_ga s = Some l) /\
  (forall l, s_ga s = Some l -> c_ga c = Some l \/ In (SGoAway l) (w_sc sh)) /\
  (* once the GOAWAY(l) is written: every stream the server refuses or will still meet is ABOVE l - the client replays it -
     and every stream of the client at or below l has been accepted *)
  (forall l, s_ga s = Some l ->
     (forall id, In id (s_dropped s ++ heads (w_cs sh)) -> l < id) /\
     (forall id, In id (c_sent c) -> id <= l -> In id (s_acc s))) /\
  (* an accepted stream is being received, waits for its answer, is answered, or was cancelled by the client - never dropped *)
  (forall id, In id (s_acc s) -> In id (s_open s) \/ In id (s_ready s) \/ In id (s_done s) \/ In id (s_cancelled s)) /\
  (* the answers written are the ones the client has read plus the ones in flight *)
  s_done s = c_answered c ++ resps (w_sc sh).
Proof.
  intros threads sched sh s c. subst s c. pose proof (inv_every_schedule threads sched) as H. fold sh in H.
  split; [exact (i_alive sh H)|]. split; [exact (i_part sh H)|]. split; [exact (i_nodrop sh H)|].
  split; [exact (i_cga sh H)|]. split; [exact (i_ga sh H)|]. split; [|split; [exact (i_acc sh H) | exact (i_done sh H)]].
  intros l El. rewrite (i_last sh H l El). split.
  - exact (inv_above sh H).
  - intros id Hi Hle. rewrite (i_part sh H) in Hi. apply in_app_or in Hi as [Hi|Hi]; [exact Hi|].
    pose proof (inv_above sh H id Hi). lia.
Qed.

(* when everything in flight has been handled: every request the client sent on the connection is answered, was
   cancelled by the client itself, or is reported retriable when the connection goes away *)
Theorem goaway_no_request_lost : forall threads sched,
  let sh := snd (grun gsw_ok sched (threads, gsh0)) in
  w_cs sh = [] -> w_sc sh = [] -> c_pending (g_cli sh) = [] -> s_ready (g_srv sh) = [] ->
  forall id, In id (c_sent (g_cli sh)) ->
    cli_class (g_cli sh) id = 1 \/ In id (s_cancelled (g_srv sh)) \/ cli_class (g_cli sh) id = 2.
Proof.
  intros threads sched sh Hcs Hsc Hp Hr id Hi. pose proof (inv_every_schedule threads sched) as H. fold sh in H.
  unfold cli_class. destruct (mem id (c_answered (g_cli sh))) eqn:Em; [left; reflexivity|].
  rewrite (i_part sh H), Hcs in Hi. cbn [heads flat_map] in Hi. rewrite app_nil_r in Hi. apply in_app_or in Hi as [Hi|Hi].
  - destruct (i_acc sh H id Hi) as [G|[G|[G|G]]].
    + exfalso. destruct (i_fin sh H id G) as [K|K]; [rewrite Hcs in K; discriminate | unfold pend in K; rewrite Hp in K; exact K].
    + rewrite Hr in G. contradiction.
    + rewrite (i_done sh H), Hsc in G. cbn [resps flat_map] in G. rewrite app_nil_r in G. apply mem_in in G. rewrite G in Em. discriminate.
    + right. left. exact G.
  - right. right. destruct (s_ga (g_srv sh)) as [l|] eqn:Ega; [|rewrite (i_nodrop sh H Ega) in Hi; contradiction].
    destruct (i_ga sh H l Ega) as [G|G]; [|rewrite Hsc in G; contradiction]. rewrite G.
    pose proof (inv_above sh H id (in_or_app _ _ _ (or_introl Hi))) as Hgt. rewrite <- (i_last sh H l Ega) in Hgt.
    assert (E : (l <? id) = true) by lia. rewrite E. reflexivity.
Qed.

(* ---------------------------------------------------------------- the four source shapes, refuted *)
(* the seeded shape: the graceful GOAWAY says 2^31-1 and new HEADERS are still ignored: stream 3, sent before the client
   read the GOAWAY, is dropped and not retriable *)
Definition run_of (sw : gsw) (threads : list gthread) (sched : list nat) : gsh := snd (grun sw sched (threads, gsh0)).
Definition quiet (sh : gsh) : bool :=
  match w_cs sh, w_sc sh, c_pending (g_cli sh), s_ready (g_srv sh) with [], [], [], [] => true | _, _, _, _ => false end.

Lemma refuted_last_is_not_max :
  let sh := run_of (mkGsw false true true true) [TClient [AOpen None; AOpen None; ARead; ARead]; TReader; TShutdown; TWorker] [0; 1; 2; 0; 1; 3; 0; 0]%nat in
  quiet sh = true /\ c_sent (g_cli sh) = [1; 3] /\ c_ga (g_cli sh) = Some max_id /\ s_dropped (g_srv sh) = [3] /\
  cli_class (g_cli sh) 1 = 1 /\ cli_class (g_cli sh) 3 = 0.
Proof. vm_compute. repeat split; reflexivity. Qed.

(* trailers of an accepted stream ignored after the GOAWAY: stream 1 (<= last-stream-id 1) is never answered *)
Lemma refuted_trailers_ignored :
  let sh := run_of (mkGsw true false true true) [TClient [AOpen (Some FTrail); AFinish 0; ARead]; TReader; TShutdown; TWorker] [0; 1; 2; 0; 1; 3; 0]%nat in
  quiet sh = true /\ c_ga (g_cli sh) = Some 1 /\ s_open (g_srv sh) = [1] /\ cli_class (g_cli sh) 1 = 0.
Proof. vm_compute. repeat split; reflexivity. Qed.

(* DATA of the refused stream 3 runs into the idle-stream rule: the connection is closed, the accepted stream 1 is lost *)
Lemma refuted_late_frames_not_discarded :
  let sh := run_of (mkGsw true true false true)
              [TClient [AOpen (Some FData); AOpen (Some FData); AFinish 1; AFinish 0; ARead]; TReader; TShutdown; TWorker]
              [0; 1; 2; 0; 0; 0; 1; 1; 1; 3; 0]%nat in
  s_closed (g_srv sh) = true /\ c_ga (g_cli sh) = Some 1 /\ s_dropped (g_srv sh) = [3] /\ w_cs sh = [] /\ w_sc sh = [] /\
  cli_class (g_cli sh) 1 = 0 /\ s_done (g_srv sh) = [].
Proof. vm_compute. repeat split; reflexivity. Qed.

(* a client that takes last-stream-id 0 for "no GOAWAY": stream 1, refused, is not retriable *)
Lemma refuted_client_ignores_zero :
  let sh := run_of (mkGsw true true true false) [TClient [AOpen None; ARead]; TReader; TShutdown; TWorker] [2; 0; 1; 0]%nat in
  quiet sh = true /\ s_ga (g_srv sh) = Some 0 /\ s_dropped (g_srv sh) = [1] /\ c_ga (g_cli sh) = None /\ cli_class (g_cli sh) 1 = 0.
Proof. vm_compute. repeat split; reflexivity. Qed.

(* non-vacuity: the same schedules with the source's shapes *)
Lemma example_drain :
  let sh := run_of gsw_ok [TClient [AOpen (Some FTrail); AOpen (Some FData); AFinish 1; AFinish 0; ARead; ARead]; TReader; TShutdown; TWorker]
              [0; 1; 2; 0; 0; 0; 1; 1; 1; 3; 0; 0]%nat in
  quiet sh = true /\ c_sent (g_cli sh) = [1; 3] /\ c_ga (g_cli sh) = Some 1 /\ s_dropped (g_srv sh) = [3] /\ s_done (g_srv sh) = [1] /\
  cli_class (g_cli sh) 1 = 1 /\ cli_class (g_cli sh) 3 = 2.
Proof. vm_compute. repeat split; reflexivity. Qed.
