From Coq Require Import List Arith Bool Lia.
From MV Require Import Model.HostSetOps.
Import ListNotations.

Lemma existsb_eqb : forall x l, existsb (Nat.eqb x) l = true <-> In x l.
Proof.
  intros x l. rewrite existsb_exists. split.
  - intros (y & Hy & E). apply Nat.eqb_eq in E. subst; auto.
  - intros H. exists x. split; auto. apply Nat.eqb_refl.
Qed.

Lemma dedup_in : forall l seen a, In a (dedup seen l) <-> In a l /\ ~ In a seen.
Proof.
  induction l as [|x l IH]; intros seen a; cbn; [tauto|].
  destruct (existsb (Nat.eqb x) seen) eqn:E.
  - apply existsb_eqb in E. rewrite IH. split; [tauto|]. intros [[->|H] Hn]; [contradiction|tauto].
  - assert (Hx : ~ In x seen) by (intros H; apply existsb_eqb in H; congruence).
    cbn. rewrite IH. cbn. split.
    + intros [->|[H1 H2]]; [tauto|]. split; [tauto|]. intros H; apply H2; right; auto.
    + intros [[->|H] Hn]; [left; auto|]. destruct (Nat.eq_dec x a) as [->|Hne]; [left; auto|].
      right. split; auto. intros [E1|E1]; [congruence|contradiction].
Qed.

Lemma dedup_nodup : forall l seen, NoDup (dedup seen l).
Proof.
  induction l as [|x l IH]; intros seen; cbn; [constructor|].
  destruct (existsb (Nat.eqb x) seen); auto. constructor; auto.
  intros H. apply dedup_in in H. destruct H as [_ H]. apply H; left; auto.
Qed.

Lemma insert_in : forall x l a, In a (insert x l) <-> a = x \/ In a l.
Proof.
  induction l as [|y l IH]; intros a; simpl.
  - split; intros H; repeat (destruct H as [H|H]); subst; simpl; auto; contradiction.
  - destruct (Nat.leb x y); simpl.
    + split; intros H; repeat (destruct H as [H|H]); subst; simpl; auto.
    + rewrite IH. split; intros H; repeat (destruct H as [H|H]); subst; simpl; auto.
Qed.

Lemma insert_nodup : forall x l, NoDup l -> ~ In x l -> NoDup (insert x l).
Proof.
  induction l as [|y l IH]; intros Hn Hx; simpl; [constructor; auto|].
  destruct (Nat.leb x y); [constructor; auto|]. inversion Hn; subst. constructor.
  - intros H. apply insert_in in H. destruct H as [->|H]; [apply Hx; left; auto|contradiction].
  - apply IH; auto. intros H; apply Hx; right; auto.
Qed.

Lemma isort_in : forall l a, In a (isort l) <-> In a l.
Proof. induction l as [|x l IH]; intros a; simpl; [tauto|]. rewrite insert_in, IH. intuition (subst; auto). Qed.

Lemma isort_nodup : forall l, NoDup l -> NoDup (isort l).
Proof.
  induction l as [|x l IH]; intros H; simpl; [constructor|]. inversion H; subst.
  apply insert_nodup; auto. rewrite isort_in; auto.
Qed.

Lemma remove_one_in : forall a l x, NoDup l -> (In x (remove_one a l) <-> In x l /\ x <> a).
Proof.
  induction l as [|y l IH]; intros x Hn; simpl; [tauto|]. inversion Hn as [|? ? Hnot Hnd]; subst.
  destruct (Nat.eqb_spec a y) as [->|Hne].
  - split.
    + intros Hx. split; [auto|]. intros ->; contradiction.
    + intros [[->|Hx] Hxa]; [congruence|auto].
  - simpl. rewrite IH by auto. split.
    + intros [->|[Hx Hxa]]; [split; auto|tauto].
    + intros [[->|Hx] Hxa]; [left; auto|right; auto].
Qed.

Lemma remove_one_nodup : forall a l, NoDup l -> NoDup (remove_one a l).
Proof.
  induction l as [|y l IH]; intros Hn; simpl; [constructor|]. inversion Hn as [|? ? Hnot Hnd]; subst.
  destruct (Nat.eqb a y); auto. constructor; auto. intros Hin. apply remove_one_in in Hin; tauto.
Qed.

Lemma remove_all_in : forall rs l x, NoDup l ->
  NoDup (fold_left (fun acc a => remove_one a acc) rs l) /\
  (In x (fold_left (fun acc a => remove_one a acc) rs l) <-> In x l /\ ~ In x rs).
Proof.
  induction rs as [|a rs IH]; intros l x Hn; simpl; [tauto|].
  destruct (IH (remove_one a l) x (remove_one_nodup a l Hn)) as [H1 H2]. split; auto.
  rewrite H2, remove_one_in by auto. split.
  - intros [[Hx Hne] Hr]. split; auto. intros [E|E]; [congruence|contradiction].
  - intros [Hx Hr]. repeat split; auto; try (intros ->; apply Hr; left; auto); try (intros Hin; apply Hr; right; auto).
Qed.

(* every published host set has pairwise different addresses *)
Theorem published_nodup : forall ops, NoDup (mrun true ops).
Proof.
  intros ops. unfold mrun. assert (H : NoDup (@nil nat)) by constructor. revert H. generalize (@nil nat).
  induction ops as [|o ops IH]; intros s Hs; simpl; auto. apply IH.
  destruct o; simpl; apply dedup_nodup.
Qed.

Lemma dedup_nil_in : forall l a, In a (dedup [] l) <-> In a l.
Proof. intros. rewrite dedup_in. simpl. tauto. Qed.

(* membership after each operation *)
Theorem update_members : forall s l a, In a (mstep true s (MUpdate l)) <-> In a l.
Proof. intros. simpl. apply dedup_nil_in. Qed.

Theorem append_members : forall s l a, In a (mstep true s (MAppend l)) <-> In a l \/ In a s.
Proof. intros. simpl. rewrite dedup_nil_in. apply in_app_iff. Qed.

Theorem remove_members : forall s l a, NoDup s -> (In a (mstep true s (MRemove l)) <-> In a s /\ ~ In a l).
Proof.
  intros s l a Hn. simpl. rewrite dedup_nil_in.
  destruct (remove_all_in l (isort s) a (isort_nodup s Hn)) as [_ H]. rewrite H, isort_in. tauto.
Qed.

(* after RemoveClusterHosts no removed address is in the published set - for every history *)
Theorem removed_gone : forall ops l a, In a l -> ~ In a (mrun true (ops ++ [MRemove l])).
Proof.
  intros ops l a Hl H. unfold mrun in H. rewrite fold_left_app in H. simpl in H.
  apply remove_members in H; [tauto|]. apply published_nodup.
Qed.

Definition removed_gone_statement (distinct : bool) : Prop :=
  forall ops l a, In a l -> ~ In a (mrun distinct (ops ++ [MRemove l])).

Theorem removed_gone_of_mode : forall d, d = true -> removed_gone_statement d.
Proof. intros d -> ops l a. apply removed_gone. Qed.

Theorem published_nodup_of_mode : forall d, d = true -> forall ops, NoDup (mrun d ops).
Proof. intros d ->. apply published_nodup. Qed.

(* publishing the appended batch without de-duplication: the same address twice in one AppendClusterHosts call
   survives a RemoveClusterHosts of that address *)
Theorem nodistinct_refuted : ~ removed_gone_statement false.
Proof.
  intros H. apply (H [MAppend [5; 5]] [5] 5); [left; auto|]. vm_compute. left; auto.
Qed.
