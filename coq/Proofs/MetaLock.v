(* Proofs/MetaLock.v (codec) *)
From Coq Require Import List Arith Bool Lia.
From MV Require Import Model.MetaLock.
Import ListNotations.

Lemma run_clean ops : forall s, readers s = 0 -> wpending s = false -> Forall (eq Done) (runl false s ops).
Proof.
  induction ops as [|o r IH]; intros s Hr Hw; cbn; [constructor|].
  destruct o as [ex|]; cbn; rewrite ?Hw, ?Hr; cbn.
  - constructor; [reflexivity|]. apply IH; cbn; [lia|reflexivity].
  - constructor; [reflexivity|]. apply IH; assumption.
Qed.
(* every exit unlocks: whatever the peers send and whenever the registry is written, every call completes *)
Theorem meta_lock_live : forall ops, Forall (eq Done) (runl false lk0 ops).
Proof. intros. apply run_clean; reflexivity. Qed.

Lemma run_wedged ops : forall s, readers s <> 0 -> wpending s = true -> Forall (eq Blocked) (runl true s ops).
Proof.
  induction ops as [|o r IH]; intros s Hr Hw; cbn; [constructor|].
  destruct o as [ex|]; cbn [runl step].
  - rewrite Hw. constructor; [reflexivity|]. apply IH; assumption.
  - destruct (readers s =? 0) eqn:E; [apply Nat.eqb_eq in E; contradiction|]. constructor; [reflexivity|]. apply IH; cbn; [assumption|reflexivity].
Qed.
(* one exit without the unlock: ONE call that takes it (it completes normally on its own connection), then the next
   registry write waits for ever, and from then on EVERY call of every connection waits for ever *)
Theorem meta_lock_leak_wedges : forall ops,
  exists rest, runl true lk0 (Find true :: Write :: ops) = Done :: Blocked :: rest /\ Forall (eq Blocked) rest.
Proof.
  intros ops. cbn. eexists. split; [reflexivity|]. apply run_wedged; cbn; [discriminate|reflexivity].
Qed.
