(* Proofs/H2FrameRT.v (group h2): c18_frame_roundtrip - parsing what the frame writers serialise gives
   the frame back, for all ten frame types (padding, priority, flags) and unknown types, followed by
   anything, in any reader state that accepts the frame (checkFrameOrder). *)
From Coq Require Import List NArith ZArith Arith Lia Bool.
From Coq Require Import ZifyBool ZifyNat ZifyN.
From MV Require Import Lib.HBits Gen.HpackTables Gen.H2Src Model.Hpack Model.H2Frame Proofs.H2FrameStable.
Import ListNotations.
Open Scope N_scope.

Ltac Zify.zify_post_hook ::= Z.div_mod_to_equations.

(* ---------------------------------------------------------------- big-endian fields *)
Lemma rd_wr_u16 : forall v rest, v < 65536 -> rd_u16 (wr_u16 v ++ rest) = v.
Proof. intros v rest H. unfold wr_u16, rd_u16. cbn [app]. lia. Qed.

Lemma rd_wr_u24 : forall v rest, v < 16777216 -> rd_u24 (wr_u24 v ++ rest) = v.
Proof. intros v rest H. unfold wr_u24, rd_u24. cbn [app]. lia. Qed.

Lemma rd_wr_u32 : forall v rest, v < 4294967296 -> rd_u32 (wr_u32 v ++ rest) = v.
Proof. intros v rest H. unfold wr_u32, rd_u32. cbn [app]. lia. Qed.

Lemma len_wr_u32 : forall v, len (wr_u32 v) = 4.
Proof. reflexivity. Qed.

Lemma skipn_wr_u32 : forall v rest, skipn 4 (wr_u32 v ++ rest) = rest.
Proof. reflexivity. Qed.

Lemma parse_fhdr_ser : forall l t f s rest, l < 16777216 -> s < two31 ->
  parse_fhdr (ser_hdr l t f s ++ rest) = mkFh l t f s.
Proof.
  intros l t f s rest Hl Hs. unfold parse_fhdr, ser_hdr.
  rewrite <- !app_assoc. rewrite rd_wr_u24 by exact Hl.
  unfold wr_u24. cbn [app nth skipn].
  rewrite rd_wr_u32 by (unfold two31 in Hs; lia).
  rewrite N.mod_small by exact Hs. reflexivity.
Qed.

Lemma len_ser_hdr : forall l t f s, len (ser_hdr l t f s) = 9.
Proof. reflexivity. Qed.

(* ---------------------------------------------------------------- the reader on a serialised frame *)
Lemma read_raw_ser : forall eo last mx t fl sid p rest,
  len p < 16777216 -> len p <= mx -> sid < two31 ->
  read_raw eo last mx (ser_frame_raw t fl sid p ++ rest) 0 =
  match parse_payload eo (mkFh (len p) t fl sid) p with
  | HOk b => match check_order last (mkFh (len p) t fl sid) with
             | HOk last' => WFrame (mkFrame (mkFh (len p) t fl sid) b) (9 + len p) last'
             | HErr e => WConn e
             | _ => WConn EOther
             end
  | HErr EStream => WStream (9 + len p)
  | HErr e => WConn e
  | _ => WConn EOther
  end.
Proof.
  intros eo last mx t fl sid p rest Hl Hmx Hs. unfold read_raw, ser_frame_raw.
  rewrite <- !app_assoc.
  assert (E1 : (len (ser_hdr (len p) t fl sid ++ p ++ rest) <? 0 + 9) = false).
  { rewrite len_app, len_ser_hdr. lia. }
  rewrite E1. cbn [N.to_nat skipn].
  rewrite parse_fhdr_ser by assumption. cbn [fh_len].
  assert (E2 : (mx <? len p) = false) by lia. rewrite E2.
  assert (E3 : (len (ser_hdr (len p) t fl sid ++ p ++ rest) - (0 + 9) <? len p) = false).
  { rewrite !len_app, len_ser_hdr. lia. }
  rewrite E3.
  assert (Hsl : slice (ser_hdr (len p) t fl sid ++ p ++ rest) (0 + 9) (len p) = p).
  { unfold slice. replace (N.to_nat (0 + 9)) with (length (ser_hdr (len p) t fl sid)) by reflexivity.
    rewrite skipn_app, skipn_all, Nat.sub_diag. cbn [skipn app].
    unfold len. rewrite Nat2N.id. rewrite firstn_app, Nat.sub_diag, firstn_all. cbn [firstn]. apply app_nil_r. }
  rewrite Hsl. reflexivity.
Qed.

(* ---------------------------------------------------------------- validity of what the writers accept *)
Definition prio_ok (p : prio) : Prop := p_dep p < two31 /\ p_weight p < 256.
Definition pad_ok (pad : option N) : Prop := match pad with Some k => k < 256 | None => True end.
Definition sid_ok (sid : N) : Prop := 0 < sid < two31.
Definition setting_ok (s : N * N) : Prop := fst s < 65536 /\ snd s < 4294967296.

Definition aframe_ok (a : aframe) : Prop :=
  match a with
  | AData sid _ _ pad => sid_ok sid /\ pad_ok pad
  | AHeaders sid _ _ pr _ pad => sid_ok sid /\ pad_ok pad /\ match pr with Some p => prio_ok p | None => True end
  | APriority sid pr => sid_ok sid /\ prio_ok pr
  | ARst sid code => sid_ok sid /\ code < 4294967296
  | ASettings ack ss => (ack = true -> ss = []) /\ Forall setting_ok ss /\
                        (forall v, setting_value ss 4 = Some v -> v < two31)
  | APush sid promised _ _ pad => sid_ok sid /\ promised < two31 /\ pad_ok pad
  | APing _ data => len data = 8
  | AGoAway last code _ => last < two31 /\ code < 4294967296
  | AWinUpd sid inc => sid < two31 /\ 0 < inc < two31
  | ACont sid _ _ => sid_ok sid
  | AUnknown typ _ sid _ => 9 < typ /\ sid < two31
  end.

(* ---------------------------------------------------------------- payload parsers invert the writers *)
Lemma drop_last_suffix : forall (x : bytes) k, drop_last (x ++ repeat 0 (N.to_nat k)) k = x.
Proof.
  intros x k. unfold drop_last. rewrite app_length, repeat_length.
  replace (length x + N.to_nat k - N.to_nat k)%nat with (length x) by lia.
  rewrite firstn_app, Nat.sub_diag, firstn_all. cbn [firstn]. apply app_nil_r.
Qed.

Lemma drop_last_0 : forall (x : bytes), drop_last x 0 = x.
Proof. intro x. unfold drop_last. cbn [N.to_nat]. rewrite Nat.sub_0_r. apply firstn_all. Qed.

Lemma len_repeat : forall k, len (repeat 0 (N.to_nat k)) = k.
Proof. intro k. unfold len. rewrite repeat_length. lia. Qed.

Lemma parse_prio_ser : forall p rest, prio_ok p -> parse_prio (ser_prio p ++ rest) = p.
Proof.
  intros [dep excl w] rest [Hd Hw]. cbn [p_dep p_weight] in *. unfold parse_prio, ser_prio. cbn [p_dep p_excl p_weight].
  rewrite <- app_assoc. unfold two31 in *.
  assert (Hv : dep + b2n excl 2147483648 < 4294967296) by (destruct excl; cbn [b2n]; lia).
  rewrite rd_wr_u32 by exact Hv.
  unfold wr_u32. cbn [app nth].
  f_equal.
  - destruct excl; cbn [b2n].
    + replace (dep + 2147483648) with (dep + 1 * 2147483648) by lia. rewrite N.mod_add by discriminate. apply N.mod_small. exact Hd.
    + rewrite N.add_0_r. apply N.mod_small. exact Hd.
  - destruct excl; cbn [b2n]; lia.
Qed.

Lemma len_ser_prio : forall p, len (ser_prio p) = 5.
Proof. reflexivity. Qed.

Lemma skipn5_ser_prio : forall p rest, skipn 5 (ser_prio p ++ rest) = rest.
Proof. reflexivity. Qed.

Lemma ser_settings_cons : forall i v ss,
  ser_settings ((i, v) :: ss) =
  (i / 256 mod 256) :: (i mod 256) :: (v / 16777216 mod 256) :: (v / 65536 mod 256) :: (v / 256 mod 256) :: (v mod 256) :: ser_settings ss.
Proof. reflexivity. Qed.

Lemma parse_settings_ser : forall ss fuel, Forall setting_ok ss -> (length (ser_settings ss) <= fuel)%nat ->
  parse_settings fuel (ser_settings ss) = ss.
Proof.
  induction ss as [|[i v] ss IH]; intros fuel Hok Hf.
  - destruct fuel; reflexivity.
  - inversion Hok as [|? ? [Hi Hv] Hss]; subst. cbn [fst snd] in *.
    rewrite ser_settings_cons in *. cbn [length] in Hf.
    destruct fuel as [|fuel]; [lia|].
    cbn [parse_settings]. f_equal.
    + f_equal.
      * unfold rd_u16. lia.
      * unfold rd_u32. lia.
    + apply IH; [exact Hss | lia].
Qed.

Lemma len_ser_settings : forall ss, len (ser_settings ss) = 6 * N.of_nat (length ss).
Proof.
  induction ss as [|[i v] ss IH]; [reflexivity|].
  rewrite ser_settings_cons. rewrite !len_cons, IH. cbn [length]. lia.
Qed.

(* flags *)
Lemma flag_data_padded : forall es pad, flag (b2n es 1 + pad_flag pad) F_PADDED = match pad with Some _ => true | None => false end.
Proof. intros [] []; reflexivity. Qed.

Lemma flag_headers_padded : forall es eh pad (pr : option prio),
  flag (b2n es 1 + b2n eh 4 + pad_flag pad + match pr with Some _ => 32 | None => 0 end) F_PADDED = match pad with Some _ => true | None => false end.
Proof. intros [] [] [] []; reflexivity. Qed.

Lemma flag_headers_prio : forall es eh pad (pr : option prio),
  flag (b2n es 1 + b2n eh 4 + pad_flag pad + match pr with Some _ => 32 | None => 0 end) F_PRIORITY = match pr with Some _ => true | None => false end.
Proof. intros [] [] [] []; reflexivity. Qed.

Lemma flag_push_padded : forall eh pad, flag (b2n eh 4 + pad_flag pad) F_PADDED = match pad with Some _ => true | None => false end.
Proof. intros [] []; reflexivity. Qed.

Lemma flag_ack : forall ack, flag (b2n ack 1) F_ACK = ack.
Proof. intros []; reflexivity. Qed.

Theorem parse_payload_ser : forall a, aframe_ok a ->
  let '(t, fl, sid, p) := aframe_parts a in
  parse_payload psw_ok (mkFh (len p) t fl sid) p = HOk (body_of a).
Proof.
  intros a Hok. destruct a as [sid es data pad | sid es eh pr frag pad | sid pr | sid code | ack ss
                              | sid promised eh frag pad | ack data | last code debug | sid inc | sid eh frag | typ flags sid payload];
    cbn [aframe_parts body_of aframe_ok] in *; unfold parse_payload, psw_ok; cbn [fh_type fh_sid fh_flags fh_len sw_empty sw_data_gt sw_push_gt].
  - (* DATA *)
    destruct Hok as [[Hs1 Hs2] Hp]. change (T_DATA =? T_DATA) with true. cbv iota.
    assert (E : (sid =? 0) = false) by lia. rewrite E. rewrite flag_data_padded.
    destruct pad as [k|]; cbn [pad_prefix pad_suffix app].
    + rewrite len_app, len_repeat. assert (E2 : (len data + k <? k) = false) by lia. rewrite E2.
      rewrite drop_last_suffix. reflexivity.
    + rewrite app_nil_r. reflexivity.
  - (* HEADERS *)
    destruct Hok as [[Hs1 Hs2] [Hp Hpr]].
    change (T_HEADERS =? T_DATA) with false. change (T_HEADERS =? T_HEADERS) with true. cbv iota.
    assert (E : (sid =? 0) = false) by lia. rewrite E.
    rewrite flag_headers_padded, flag_headers_prio.
    destruct pad as [k|]; cbn [pad_prefix pad_suffix app hbind fst snd].
    + destruct pr as [p|]; cbn [hbind fst snd].
      * rewrite !len_app, len_ser_prio, len_repeat.
        assert (E4 : (5 + (len frag + k) <? 4) = false) by lia. rewrite E4.
        assert (E5 : (5 + (len frag + k) <? 5) = false) by lia. rewrite E5.
        cbn [hbind fst snd]. rewrite skipn5_ser_prio. rewrite len_app, len_repeat.
        assert (E6 : ((len frag + k <? k) || negb true && (len frag + k =? k)) = false) by lia. rewrite E6.
        rewrite parse_prio_ser by exact Hpr. rewrite drop_last_suffix. reflexivity.
      * cbn [app]. rewrite len_app, len_repeat.
        assert (E6 : ((len frag + k <? k) || negb true && (len frag + k =? k)) = false) by lia. rewrite E6.
        rewrite drop_last_suffix. reflexivity.
    + destruct pr as [p|]; cbn [hbind fst snd].
      * rewrite app_nil_r. rewrite !len_app, len_ser_prio.
        assert (E4 : (5 + len frag <? 4) = false) by lia. rewrite E4.
        assert (E5 : (5 + len frag <? 5) = false) by lia. rewrite E5.
        cbn [hbind fst snd]. rewrite skipn5_ser_prio.
        assert (E6 : ((len frag <? 0) || negb true && (len frag =? 0)) = false) by lia. rewrite E6.
        rewrite parse_prio_ser by exact Hpr. rewrite drop_last_0. reflexivity.
      * cbn [app]. rewrite app_nil_r.
        assert (E6 : ((len frag <? 0) || negb true && (len frag =? 0)) = false) by lia. rewrite E6.
        rewrite drop_last_0. reflexivity.
  - (* PRIORITY *)
    destruct Hok as [[Hs1 Hs2] Hpr].
    change (T_PRIORITY =? T_DATA) with false. change (T_PRIORITY =? T_HEADERS) with false. change (T_PRIORITY =? T_PRIORITY) with true. cbv iota.
    assert (E : (sid =? 0) = false) by lia. rewrite E. rewrite len_ser_prio. cbn [N.eqb Pos.eqb negb].
    rewrite <- (app_nil_r (ser_prio pr)). rewrite parse_prio_ser by exact Hpr. reflexivity.
  - (* RST_STREAM *)
    destruct Hok as [[Hs1 Hs2] Hc].
    change (T_RST =? T_DATA) with false. change (T_RST =? T_HEADERS) with false. change (T_RST =? T_PRIORITY) with false.
    change (T_RST =? T_RST) with true. cbv iota. rewrite len_wr_u32. cbn [N.eqb Pos.eqb negb].
    assert (E : (sid =? 0) = false) by lia. rewrite E.
    rewrite <- (app_nil_r (wr_u32 code)). rewrite rd_wr_u32 by exact Hc. reflexivity.
  - (* SETTINGS *)
    destruct Hok as [Hack [Hss Hiw]].
    change (T_SETTINGS =? T_DATA) with false. change (T_SETTINGS =? T_HEADERS) with false. change (T_SETTINGS =? T_PRIORITY) with false.
    change (T_SETTINGS =? T_RST) with false. change (T_SETTINGS =? T_SETTINGS) with true. cbv iota.
    rewrite flag_ack. rewrite len_ser_settings.
    assert (E1 : (ack && (0 <? 6 * N.of_nat (length ss))) = false).
    { destruct ack; [rewrite (Hack eq_refl); reflexivity | reflexivity]. }
    rewrite E1. cbn [N.eqb negb].
    assert (E2 : negb ((6 * N.of_nat (length ss)) mod 6 =? 0) = false).
    { rewrite N.mul_comm, N.mod_mul by discriminate. reflexivity. }
    rewrite E2. rewrite parse_settings_ser by (try exact Hss; lia).
    destruct (setting_value ss 4) as [v|] eqn:Ev; [|reflexivity].
    specialize (Hiw v eq_refl). assert (E3 : (two31 <=? v) = false) by lia. rewrite E3. reflexivity.
  - (* PUSH_PROMISE *)
    destruct Hok as [[Hs1 Hs2] [Hpm Hp]].
    change (T_PUSH =? T_DATA) with false. change (T_PUSH =? T_HEADERS) with false. change (T_PUSH =? T_PRIORITY) with false.
    change (T_PUSH =? T_RST) with false. change (T_PUSH =? T_SETTINGS) with false. change (T_PUSH =? T_PUSH) with true. cbv iota.
    assert (E : (sid =? 0) = false) by lia. rewrite E. rewrite flag_push_padded.
    assert (Hpm32 : promised < 4294967296) by (unfold two31 in Hpm; lia).
    destruct pad as [k|]; cbn [pad_prefix pad_suffix app hbind fst snd].
    + rewrite !len_app, len_wr_u32, len_repeat.
      assert (E4 : (4 + (len frag + k) <? 4) = false) by lia. rewrite E4.
      rewrite skipn_wr_u32. rewrite len_app, len_repeat.
      assert (E5 : (len frag + k <? k) = false) by lia. rewrite E5.
      rewrite rd_wr_u32 by exact Hpm32. rewrite N.mod_small by exact Hpm. rewrite drop_last_suffix. reflexivity.
    + rewrite app_nil_r. rewrite !len_app, len_wr_u32.
      assert (E4 : (4 + len frag <? 4) = false) by lia. rewrite E4.
      rewrite skipn_wr_u32.
      assert (E5 : (len frag <? 0) = false) by lia. rewrite E5.
      rewrite rd_wr_u32 by exact Hpm32. rewrite N.mod_small by exact Hpm. rewrite drop_last_0. reflexivity.
  - (* PING *)
    change (T_PING =? T_DATA) with false. change (T_PING =? T_HEADERS) with false. change (T_PING =? T_PRIORITY) with false.
    change (T_PING =? T_RST) with false. change (T_PING =? T_SETTINGS) with false. change (T_PING =? T_PUSH) with false.
    change (T_PING =? T_PING) with true. cbv iota. rewrite Hok. reflexivity.
  - (* GOAWAY *)
    destruct Hok as [Hl Hc].
    change (T_GOAWAY =? T_DATA) with false. change (T_GOAWAY =? T_HEADERS) with false. change (T_GOAWAY =? T_PRIORITY) with false.
    change (T_GOAWAY =? T_RST) with false. change (T_GOAWAY =? T_SETTINGS) with false. change (T_GOAWAY =? T_PUSH) with false.
    change (T_GOAWAY =? T_PING) with false. change (T_GOAWAY =? T_GOAWAY) with true. cbv iota. cbn [N.eqb negb].
    rewrite !len_app, !len_wr_u32.
    assert (E : (4 + (4 + len debug) <? 8) = false) by lia. rewrite E.
    assert (Hl32 : last < 4294967296) by (unfold two31 in Hl; lia).
    rewrite rd_wr_u32 by exact Hl32. rewrite N.mod_small by exact Hl.
    rewrite skipn_wr_u32. rewrite rd_wr_u32 by exact Hc.
    replace (skipn 8 (wr_u32 last ++ wr_u32 code ++ debug)) with debug by reflexivity. reflexivity.
  - (* WINDOW_UPDATE *)
    destruct Hok as [Hs [Hi1 Hi2]].
    change (T_WINUPD =? T_DATA) with false. change (T_WINUPD =? T_HEADERS) with false. change (T_WINUPD =? T_PRIORITY) with false.
    change (T_WINUPD =? T_RST) with false. change (T_WINUPD =? T_SETTINGS) with false. change (T_WINUPD =? T_PUSH) with false.
    change (T_WINUPD =? T_PING) with false. change (T_WINUPD =? T_GOAWAY) with false. change (T_WINUPD =? T_WINUPD) with true. cbv iota.
    rewrite len_wr_u32. cbn [N.eqb Pos.eqb negb].
    assert (Hi32 : inc < 4294967296) by (unfold two31 in Hi2; lia).
    rewrite <- (app_nil_r (wr_u32 inc)). rewrite rd_wr_u32 by exact Hi32. rewrite N.mod_small by exact Hi2.
    assert (E : (inc =? 0) = false) by lia. rewrite E. reflexivity.
  - (* CONTINUATION *)
    destruct Hok as [Hs1 Hs2].
    change (T_CONT =? T_DATA) with false. change (T_CONT =? T_HEADERS) with false. change (T_CONT =? T_PRIORITY) with false.
    change (T_CONT =? T_RST) with false. change (T_CONT =? T_SETTINGS) with false. change (T_CONT =? T_PUSH) with false.
    change (T_CONT =? T_PING) with false. change (T_CONT =? T_GOAWAY) with false. change (T_CONT =? T_WINUPD) with false.
    change (T_CONT =? T_CONT) with true. cbv iota.
    assert (E : (sid =? 0) = false) by lia. rewrite E. reflexivity.
  - (* unknown type *)
    destruct Hok as [Ht Hs]. unfold T_DATA, T_HEADERS, T_PRIORITY, T_RST, T_SETTINGS, T_PUSH, T_PING, T_GOAWAY, T_WINUPD, T_CONT.
    assert (E0 : (typ =? 0) = false) by lia. assert (E1 : (typ =? 1) = false) by lia. assert (E2 : (typ =? 2) = false) by lia.
    assert (E3 : (typ =? 3) = false) by lia. assert (E4 : (typ =? 4) = false) by lia. assert (E5 : (typ =? 5) = false) by lia.
    assert (E6 : (typ =? 6) = false) by lia. assert (E7 : (typ =? 7) = false) by lia. assert (E8 : (typ =? 8) = false) by lia.
    assert (E9 : (typ =? 9) = false) by lia.
    rewrite E0, E1, E2, E3, E4, E5, E6, E7, E8, E9. reflexivity.
Qed.

Lemma aframe_sid_bound : forall a, aframe_ok a -> let '(t, fl, sid, p) := aframe_parts a in sid < two31.
Proof.
  intros a Hok. destruct a; cbn [aframe_parts aframe_ok] in *; unfold sid_ok, two31 in *; try tauto; try lia.
Qed.

(* c18_frame_roundtrip *)
Theorem frame_roundtrip : forall a last last' mx rest,
  aframe_ok a ->
  (let '(t, fl, sid, p) := aframe_parts a in len p < 16777216 /\ len p <= mx) ->
  check_order last (f_hdr (frame_of a)) = HOk last' ->
  read_raw psw_ok last mx (ser_frame a ++ rest) 0 = WFrame (frame_of a) (len (ser_frame a)) last'.
Proof.
  intros a last last' mx rest Hok Hlen Hord.
  pose proof (parse_payload_ser a Hok) as Hpp. pose proof (aframe_sid_bound a Hok) as Hsid.
  unfold ser_frame, frame_of in *.
  destruct (aframe_parts a) as [[[t fl] sid] p]. destruct Hlen as [Hl Hm]. cbn [f_hdr] in Hord.
  rewrite read_raw_ser by assumption. rewrite Hpp, Hord.
  unfold ser_frame_raw. rewrite len_app, len_ser_hdr. reflexivity.
Qed.

(* the `>=` variant of the DATA pad check rejects every padded DATA frame that carries no data *)
Lemma data_pad_ge_refuted : forall sid es k, sid_ok sid -> k < 256 ->
  parse_payload (mkPsw true false true) (mkFh (1 + k) T_DATA (b2n es 1 + 8) sid) ([k] ++ repeat 0 (N.to_nat k)) = HErr EProtocol /\
  parse_payload psw_ok (mkFh (1 + k) T_DATA (b2n es 1 + 8) sid) ([k] ++ repeat 0 (N.to_nat k)) = HOk (BData []).
Proof.
  intros sid es k [Hs1 Hs2] Hk. unfold parse_payload, psw_ok. cbn [fh_type fh_sid fh_flags fh_len sw_empty sw_data_gt sw_push_gt].
  change (T_DATA =? T_DATA) with true. cbv iota.
  assert (E : (sid =? 0) = false) by lia. rewrite E.
  assert (Ef : flag (b2n es 1 + 8) F_PADDED = true) by (destruct es; reflexivity). rewrite Ef.
  cbn [app]. rewrite len_repeat.
  assert (E1 : (k <=? k) = true) by lia. assert (E2 : (k <? k) = false) by lia. rewrite E1, E2.
  split; [reflexivity|].
  replace (repeat 0 (N.to_nat k)) with (@nil N ++ repeat 0 (N.to_nat k)) by reflexivity.
  rewrite drop_last_suffix. reflexivity.
Qed.
