(* Proofs/EffConfig.v (cfg, C19) - invariants of the effective-config state machine. *)
From Coq Require Import List String Bool ZArith NArith Lia.
From MV Require Import Lib.GoJson Lib.GoJsonFacts Gen.CfgTypes Model.ConfigRT Model.EffConfig Proofs.ConfigRT Proofs.ConfigRTFull.
Import ListNotations.
Open Scope string_scope.
Open Scope list_scope.

Definition T := cfg_structs.
Definition t_listener := TNamed "v2.Listener".
Definition t_cluster := TNamed "v2.Cluster".
Definition t_router := TNamed "v2.RouterConfiguration".
Definition t_hosts := TSlice (TNamed "v2.Host").

(* arguments of the setters: well-formed values of their types (routers in inline mode: part of WF) *)
Definition op_ok (o : eff_op) : Prop :=
  match o with
  | OSetMosn cfg => WF T t_mosn cfg
  | OSetListener l => WF T t_listener l
  | OSetCluster c => WF T t_cluster c
  | OSetHosts _ hs => WF T t_hosts hs
  | OSetRouter r => WF T t_router r
  | OSetExtend _ cfg => WF T TRaw cfg
  | OSetCMTLS tls => WF T (TNamed "v2.TLSConfig") tls
  | ORemoveCluster _ | OReset => True
  end.

Definition all_wf (t : ty) (l : list (string * val)) : Prop := Forall (fun kv => WF T t (snd kv)) l.

Definition inv_lists (st : eff) : Prop :=
  all_wf t_listener (e_listeners st) /\ all_wf t_cluster (e_clusters st) /\ all_wf t_router (e_routers st) /\
  all_wf TRaw (e_extends st) /\ Forall (fun kv => snd kv = VStr "") (e_rpaths st).

Lemma aset_Forall {A} (P : string * A -> Prop) k x : forall l, Forall P l -> P (k, x) -> Forall P (aset k x l).
Proof.
  induction l as [|[k' y] l IH]; intros Hl Hx; cbn; [constructor; [exact Hx|constructor]|].
  inversion Hl; subst. destruct (String.compare k k'); constructor; auto.
Qed.
Lemma adel_Forall {A} (P : string * A -> Prop) k : forall l, Forall P l -> Forall P (adel k l).
Proof.
  induction l as [|[k' y] l IH]; intros Hl; cbn; [constructor|].
  inversion Hl; subst. destruct (String.eqb k k'); [assumption|constructor; auto].
Qed.
Lemma aget_Forall {A} (P : string * A -> Prop) k x : forall l, Forall P l -> aget k l = Some x -> exists k', P (k', x).
Proof.
  induction l as [|[k' y] l IH]; intros Hl H; cbn in H; [discriminate|].
  inversion Hl; subst. destruct (String.eqb k k'); [inversion H; subst; eauto|apply IH; assumption].
Qed.
Lemma set_extend_Forall (P : string * val -> Prop) typ cfg : (forall t, P (t, cfg)) -> forall l, Forall P l -> Forall P (set_extend typ cfg l).
Proof.
  intros Hx. induction l as [|[t c] l IH]; intros Hl; cbn; [constructor; [apply Hx|constructor]|].
  inversion Hl; subst. destruct (String.eqb t typ); constructor; auto.
Qed.

(* replacing a field of a well-formed plain struct value by a well-formed value of the field's type *)
Lemma Forall2_set_nth {A B} (P : A -> B -> Prop) : forall l m i a x,
  Forall2 P l m -> nth_error l i = Some a -> P a x -> Forall2 P l (set_nth i x m).
Proof.
  induction l as [|y l IH]; intros m i a x H Ha Hx; destruct i; cbn in Ha; try discriminate; inversion H; subst; cbn.
  - inversion Ha; subst. constructor; assumption.
  - constructor; [assumption|eapply IH; eauto].
Qed.

Lemma WF_iset_plain n sd i fd x v :
  find_struct T n = Some sd -> plain_struct sd = true -> nth_error (s_fields sd) i = Some fd ->
  WF T (TNamed n) v -> WF T (f_ty fd) x -> WF T (TNamed n) (iset [i] x v).
Proof.
  intros Hf Hp Hi Hv Hx.
  destruct (WF_plain_inv T n sd v Hf Hp Hv) as [vs [-> [Hl Hfl]]].
  cbn [iset]. destruct (nth_error vs i) as [y|] eqn:Ey.
  - apply (WF_plain T n sd _ Hf Hp). eapply Forall2_set_nth; eauto.
  - exact Hv.
Qed.

(* the routers are kept with their path cleared: in inline mode that changes nothing *)
Lemma router_inline r : WF T t_router r -> iset [i_r_cfg; i_r_path] (VStr "") r = r /\ iget_d [i_r_cfg; i_r_path] r = VStr "".
Proof.
  intros Hw. inversion Hw as [t v Hsh Hwf| | | |n sd vs Hfs Hp Hfl|n sd vs t2 w Hfs Hout Hside Hlen Hmp Hw2|n sd j Hfs Hc Hj]; subst.
  - destruct r; cbn in Hwf; try discriminate; try contradiction.
  - exfalso. assert (E : find_struct T "v2.RouterConfiguration" = Some sd) by exact Hfs. vm_compute in E. inversion E; subst. discriminate Hp.
  - assert (E : find_struct T "v2.RouterConfiguration" = Some sd) by exact Hfs. vm_compute in E. inversion E; subst sd. clear E.
    assert (Eh : hook_compiled T (mkS "v2.RouterConfiguration"
                 [mkF "VirtualHosts" "VirtualHosts" false true false (TSlice (TNamed "v2.VirtualHost"));
                  mkF "RouterConfigurationConfig" "RouterConfigurationConfig" false false true (TNamed "v2.RouterConfigurationConfig")]
                 (HkDirMode ["RouterConfigurationConfig"; "RouterConfigPath"] [HAssign ["RouterConfigurationConfig"; "StaticVirtualHosts"] (HPath ["VirtualHosts"])] ["RouterConfigurationConfig"])
                 (UkShadow ["RouterConfigurationConfig"] [] 8) false) = CInline 1 0 5 6) by (vm_compute; reflexivity).
    rewrite Eh in Hside. cbn [hook_side] in Hside. unfold inline_side in Hside.
    change i_r_cfg with 1. change i_r_path with 5.
    split.
    + cbn [iget] in Hside. cbn [iset]. destruct (nth_error vs 1) as [c|] eqn:Ec; [|discriminate].
      destruct c as [| | | | |cs| | | |]; try discriminate. destruct (nth_error cs 5) as [p|] eqn:Ep; [|discriminate].
      inversion Hside; subst p. rewrite (set_nth_same (VStr "") cs 5 Ep). rewrite (set_nth_same (VStruct cs) vs 1 Ec). reflexivity.
    + unfold iget_d. rewrite Hside. reflexivity.
  - exfalso. assert (E : find_struct T "v2.RouterConfiguration" = Some sd) by exact Hfs. vm_compute in E. inversion E; subst sd. vm_compute in Hc. discriminate Hc.
Qed.

Lemma cluster_hosts_field : exists sd fd, find_struct T "v2.Cluster" = Some sd /\ plain_struct sd = true /\
  nth_error (s_fields sd) i_c_hosts = Some fd /\ f_ty fd = t_hosts.
Proof. eexists. eexists. split; [vm_compute; reflexivity|]. split; [vm_compute; reflexivity|]. split; vm_compute; reflexivity. Qed.

Theorem eff_step_inv st o : inv_lists st -> op_ok o -> inv_lists (eff_step st o).
Proof.
  intros (HL & HC & HR & HE & HP) Ho. destruct o; cbn [eff_step op_ok] in *.
  - (* only the record projections are reduced: a full cbn would evaluate the zero values of the graph *)
    unfold set_mosn, inv_lists. cbn [e_listeners e_clusters e_routers e_extends e_rpaths]. repeat split; assumption.
  - cbn. repeat split; try assumption. apply aset_Forall; assumption.
  - cbn. repeat split; try assumption. apply aset_Forall; assumption.
  - cbn. repeat split; try assumption. apply adel_Forall; assumption.
  - destruct (aget n (e_clusters st)) as [c|] eqn:Ec; [|repeat split; assumption].
    cbn. repeat split; try assumption. apply aset_Forall; [assumption|]. cbn [snd].
    destruct (aget_Forall _ n c _ HC Ec) as [k' Hc]. cbn in Hc.
    destruct cluster_hosts_field as (sd & fd & Hf & Hp & Hi & Ht).
    apply (WF_iset_plain "v2.Cluster" sd i_c_hosts fd hosts c Hf Hp Hi Hc). rewrite Ht. exact Ho.
  - destruct (router_inline r Ho) as [E1 E2]. rewrite E1, E2. cbn.
    repeat split; try assumption; apply aset_Forall; try assumption; reflexivity.
  - cbn. repeat split; try assumption. apply set_extend_Forall; [intros t0; exact Ho|assumption].
  - unfold inv_lists. cbn [e_listeners e_clusters e_routers e_extends e_rpaths]. repeat split; assumption.
  - unfold inv_lists. cbn [e_listeners e_clusters e_routers e_extends e_rpaths]. repeat split; constructor.
Qed.

Lemma inv_init : inv_lists eff_init.
Proof. repeat split; constructor. Qed.

Theorem eff_run_inv : forall ops st, inv_lists st -> Forall op_ok ops -> inv_lists (eff_run ops st).
Proof.
  induction ops as [|o ops IH]; intros st Hi Ho; [exact Hi|]. inversion Ho; subst.
  apply IH; [apply eff_step_inv; assumption|assumption].
Qed.

(* the name-keyed lists that transferConfig assembles are well-formed lists of their element types *)
Lemma list_of_map_WF t l : all_wf t l -> WF T (TSlice t) (VRef 0 (map (fun kv => ("", snd kv)) l)).
Proof.
  intros H. apply WF_slice. apply Forall_forall. intros kv Hin. apply in_map_iff in Hin. destruct Hin as [[k x] [E Hin]]. subst kv. cbn.
  unfold all_wf in H. rewrite Forall_forall in H. apply (H (k, x) Hin).
Qed.

Theorem transfer_lists_wf ops : Forall op_ok ops ->
  let st := eff_run ops eff_init in
  WF T (TSlice t_listener) (VRef 0 (map (fun kv => ("", snd kv)) (e_listeners st))) /\
  WF T (TSlice t_cluster) (VRef 0 (map (fun kv => ("", snd kv)) (e_clusters st))) /\
  Forall (fun kv => snd kv = VStr "") (e_rpaths st).
Proof.
  intros Ho st. destruct (eff_run_inv ops eff_init inv_init Ho) as (HL & HC & HR & HE & HP).
  split; [apply list_of_map_WF; exact HL|]. split; [apply list_of_map_WF; exact HC|exact HP].
Qed.

(* dump / load of the persisted form: an instance of the full round-trip theorem *)
Theorem eff_roundtrip ops fuel : WF T t_mosn (transfer (eff_run ops eff_init)) ->
  fuel_free (encode T fuel t_mosn (transfer (eff_run ops eff_init))) = true ->
  forall fuel' v', decode T fuel' t_mosn (encode T fuel t_mosn (transfer (eff_run ops eff_init))) = Some v' ->
    encode T fuel t_mosn v' = encode T fuel t_mosn (transfer (eff_run ops eff_init)).
Proof.
  intros Hw Hf fuel' v' Hd.
  exact (proj1 (roundtrip_full_cfg fuel t_mosn _ Hw ltac:(vm_compute; reflexivity) Hf fuel' v' Hd)).
Qed.

(* ================================================================================================ *)
(* SetHosts stores its argument, whole                                                              *)
(* ================================================================================================ *)
Lemma aget_aset_same {A} k (x : A) : forall l, aget k (aset k x l) = Some x.
Proof.
  induction l as [|[k' y] l IH]; cbn; [rewrite String.eqb_refl; reflexivity|].
  destruct (String.compare k k') eqn:E; cbn.
  - rewrite String.eqb_refl. reflexivity.
  - rewrite String.eqb_refl. reflexivity.
  - destruct (String.eqb k k') eqn:E2; [|exact IH].
    apply String.eqb_eq in E2. subst k'. pose proof (String.compare_antisym k k) as Ha. rewrite E in Ha. discriminate.
Qed.

Lemma aget_aset_other {A} k m (x : A) : m <> k -> forall l, aget m (aset k x l) = aget m l.
Proof.
  intros Hm. assert (Em : String.eqb m k = false) by (apply String.eqb_neq; exact Hm).
  induction l as [|[k' y] l IH]; cbn; [rewrite Em; reflexivity|].
  destruct (String.compare k k') eqn:E; cbn.
  - apply String.compare_eq_iff in E. subst k'. rewrite Em. reflexivity.
  - rewrite Em. reflexivity.
  - rewrite IH. reflexivity.
Qed.

Lemma Forall2_nth_l {X Y} (P : X -> Y -> Prop) : forall l m i a,
  Forall2 P l m -> nth_error l i = Some a -> exists b, nth_error m i = Some b /\ P a b.
Proof.
  induction l as [|x l IH]; intros m i a H Ha; destruct i; cbn in Ha; try discriminate; inversion H; subst; cbn.
  - inversion Ha; subst. eexists. split; [reflexivity|assumption].
  - eapply IH; eauto.
Qed.

Lemma cluster_has_hosts c : WF T t_cluster c -> exists y, iget [i_c_hosts] c = Some y.
Proof.
  intros Hc. destruct cluster_hosts_field as (sd & fd & Hf & Hp & Hi & Ht).
  destruct (WF_plain_inv T "v2.Cluster" sd c Hf Hp Hc) as [vs [-> [Hl Hfl]]].
  destruct (Forall2_nth_l _ _ _ _ _ Hfl Hi) as [y [Hy _]]. exists y. cbn [iget]. rewrite Hy. reflexivity.
Qed.

(* for EVERY history of setter calls with well-formed arguments, every cluster name and EVERY host list (no premise on
   it): if the cluster is known, afterwards it is held with exactly that host list - every host, every field, metadata
   included, in that order - every other field of the cluster, every other cluster and every other part of the state are
   as before; if it is not known nothing changes *)
Theorem eff_sethosts_exact ops n hosts : Forall op_ok ops ->
  let st := eff_run ops eff_init in
  let st' := eff_step st (OSetHosts n hosts) in
  match aget n (e_clusters st) with
  | Some c => exists c', aget n (e_clusters st') = Some c' /\ iget [i_c_hosts] c' = Some hosts /\
                         (forall j, j <> i_c_hosts -> iget [j] c' = iget [j] c)
  | None => st' = st
  end /\
  (forall m, m <> n -> aget m (e_clusters st') = aget m (e_clusters st)) /\
  e_mosn st' = e_mosn st /\ e_listeners st' = e_listeners st /\ e_routers st' = e_routers st /\
  e_extends st' = e_extends st /\ e_cpath st' = e_cpath st /\ e_rpaths st' = e_rpaths st.
Proof.
  intros Ho st st'. destruct (eff_run_inv ops eff_init inv_init Ho) as (_ & HC & _).
  fold st in HC. subst st'. cbn [eff_step].
  destruct (aget n (e_clusters st)) as [c|] eqn:Ec.
  - cbn. split; [|split; [intros m Hm; apply aget_aset_other; exact Hm|repeat split]].
    exists (iset [i_c_hosts] hosts c). split; [apply aget_aset_same|].
    destruct (aget_Forall _ n c _ HC Ec) as [k' Hc]. cbn in Hc.
    destruct (cluster_has_hosts c Hc) as [y Hy]. split.
    + exact (iget_iset1_same i_c_hosts hosts c y Hy).
    + intros j Hj. exact (iget_iset1_other i_c_hosts j hosts c (fun E => Hj (eq_sym E))).
  - split; [reflexivity|]. split; [intros; reflexivity|repeat split].
Qed.
