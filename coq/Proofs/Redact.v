(* Proofs/Redact.v (cfg, C20) *)
From Coq Require Import List String Bool ZArith NArith Lia Ascii.
From MV Require Import Lib.CfgStore Lib.GoJson Lib.GoJsonFacts Gen.CfgTypes Model.Redact.
Import ListNotations.
Open Scope string_scope.

(* ================================================================================================ *)
(* 1. copy-before-write: a safe program only writes to storage it allocated                         *)
(* ================================================================================================ *)

Lemma assoc_prog_can_write l f : (fix go (l : list (string * rprog)) : bool :=
     match l with [] => false | (_, q) :: l' => (can_write q || go l')%bool end) l = false ->
  can_write (assoc_prog l f) = false.
Proof.
  induction l as [|[k q] l IH]; cbn; intros H; [reflexivity|].
  apply orb_false_iff in H. destruct H as [H1 H2].
  destruct (String.eqb k f); auto.
Qed.

Lemma sub_prog_can_write p f : can_write p = false -> can_write (sub_prog p f) = false.
Proof.
  destruct p; cbn; intros H; try reflexivity.
  apply assoc_prog_can_write. exact H.
Qed.

Lemma assoc_prog_safe l f : (fix go (l : list (string * rprog)) : bool :=
     match l with [] => true | (_, q) :: l' => (safe q && go l')%bool end) l = true ->
  safe (assoc_prog l f) = true.
Proof.
  induction l as [|[k q] l IH]; cbn; intros H; [reflexivity|].
  apply andb_true_iff in H. destruct H as [H1 H2].
  destruct (String.eqb k f); auto.
Qed.

Lemma sub_prog_safe p f : safe p = true -> safe (sub_prog p f) = true.
Proof.
  destruct p; cbn; intros H; try reflexivity.
  apply assoc_prog_safe. exact H.
Qed.

(* a program that cannot write, does not *)
Definition quiet {A} (next : N) (r : A * N * list N) : Prop := snd (fst r) = next /\ snd r = [].

Lemma zipf_st_quiet f vs :
  Forall (fun x => forall fd next, quiet next (f fd x next)) vs ->
  forall fds next, quiet next (zipf_st f fds vs next).
Proof.
  induction 1 as [|x vs Hx Hvs IH]; intros fds next; cbn; [split; reflexivity|].
  destruct fds as [|fd fds]; [split; reflexivity|].
  destruct (f fd x next) as [[x' n1] w1] eqn:E1.
  destruct (zipf_st f fds vs n1) as [[r n2] w2] eqn:E2.
  specialize (Hx fd next). rewrite E1 in Hx. destruct Hx as [Hn Hw]. cbn in Hn, Hw. subst.
  specialize (IH fds next). rewrite E2 in IH. destruct IH as [Hn Hw]. cbn in Hn, Hw. subst.
  split; reflexivity.
Qed.

Lemma map_es_st_quiet f es :
  Forall (fun kv => forall next, quiet next (f (snd kv) next)) es ->
  forall next, quiet next (map_es_st f es next).
Proof.
  induction 1 as [|[k e] es Hx Hes IH]; intros next; cbn; [split; reflexivity|].
  destruct (f e next) as [[e' n1] w1] eqn:E1.
  destruct (map_es_st f es n1) as [[r n2] w2] eqn:E2.
  specialize (Hx next). cbn in Hx. rewrite E1 in Hx. destruct Hx as [Hn Hw]. cbn in Hn, Hw. subst.
  specialize (IH next). rewrite E2 in IH. destruct IH as [Hn Hw]. cbn in Hn, Hw. subst.
  split; reflexivity.
Qed.

Lemma redact_quiet T : forall v t p cur next, can_write p = false -> quiet next (redact T t p cur next v).
Proof.
  induction v as [v Hl|fs IH|r es IH] using val_ind'; intros t p cur next Hp.
  - destruct v; try contradiction; cbn; try (split; reflexivity).
    + destruct p; try (split; reflexivity). cbn in Hp.
      destruct m; cbn in *; try discriminate; destruct (elem_ty t); split; reflexivity.
    + destruct p; cbn in *; try discriminate; split; reflexivity.
  - cbn. destruct t; try (split; reflexivity).
    destruct (find_struct T n) as [sd|]; [|split; reflexivity].
    match goal with |- context [zipf_st ?F _ _ _] => pose proof (zipf_st_quiet F fs) as Hz end.
    match type of Hz with ?A -> _ => assert (HA : A) end.
    { eapply Forall_impl; [|exact IH]. intros x Hx fd nx. cbn beta.
      destruct p; cbn in Hp; try discriminate; apply Hx; try reflexivity.
      apply sub_prog_can_write. exact Hp. }
    specialize (Hz HA (s_fields sd) next).
    destruct (zipf_st _ (s_fields sd) fs next) as [[vs' n'] w]. exact Hz.
  - cbn. destruct (elem_ty t) as [t'|]; [|split; reflexivity].
    assert (Hc : copies (mode_of p) es = false).
    { destruct p; cbn in *; try reflexivity. destruct m; cbn in *; try discriminate; reflexivity. }
    rewrite Hc.
    match goal with |- context [map_es_st ?F _ _] => pose proof (map_es_st_quiet F es) as Hz end.
    match type of Hz with ?A -> _ => assert (HA : A) end.
    { eapply Forall_impl; [|exact IH]. intros kv Hx nx. cbn beta. apply Hx.
      destruct p; cbn in *; try reflexivity. destruct m; cbn in *; try discriminate; exact Hp. }
    specialize (Hz HA next).
    destruct (map_es_st _ es next) as [[es' n'] w]. destruct Hz as [Hn Hw]. cbn in *. subst. split; reflexivity.
Qed.

(* writes of a safe program: only to `cur` (when owned) or to regions allocated from `next` on *)
Definition fresh_res {A} (n0 next : N) (r : A * N * list N) : Prop :=
  (next <= snd (fst r))%N /\ Forall (fun x => (n0 <= x)%N) (snd r).

Lemma zipf_st_fresh n0 f vs :
  Forall (fun x => forall fd next, (n0 <= next)%N -> fresh_res n0 next (f fd x next)) vs ->
  forall fds next, (n0 <= next)%N -> fresh_res n0 next (zipf_st f fds vs next).
Proof.
  induction 1 as [|x vs Hx Hvs IH]; intros fds next Hn; cbn; [split; [cbn; lia|constructor]|].
  destruct fds as [|fd fds]; [split; [cbn; lia|constructor]|].
  destruct (f fd x next) as [[x' n1] w1] eqn:E1.
  destruct (zipf_st f fds vs n1) as [[r n2] w2] eqn:E2.
  specialize (Hx fd next Hn). rewrite E1 in Hx. destruct Hx as [Hn1 Hw1]. cbn in Hn1, Hw1.
  assert (Hn1' : (n0 <= n1)%N) by lia.
  specialize (IH fds n1 Hn1'). rewrite E2 in IH. destruct IH as [Hn2 Hw2]. cbn in Hn2, Hw2.
  split; cbn; [lia|apply Forall_app; split; assumption].
Qed.

Lemma map_es_st_fresh n0 f es :
  Forall (fun kv => forall next, (n0 <= next)%N -> fresh_res n0 next (f (snd kv) next)) es ->
  forall next, (n0 <= next)%N -> fresh_res n0 next (map_es_st f es next).
Proof.
  induction 1 as [|[k e] es Hx Hes IH]; intros next Hn; cbn; [split; [cbn; lia|constructor]|].
  destruct (f e next) as [[e' n1] w1] eqn:E1.
  destruct (map_es_st f es n1) as [[r n2] w2] eqn:E2.
  specialize (Hx next Hn). cbn in Hx. rewrite E1 in Hx. destruct Hx as [Hn1 Hw1]. cbn in Hn1, Hw1.
  assert (Hn1' : (n0 <= n1)%N) by lia.
  specialize (IH n1 Hn1'). rewrite E2 in IH. destruct IH as [Hn2 Hw2]. cbn in Hn2, Hw2.
  split; cbn; [lia|apply Forall_app; split; assumption].
Qed.

Lemma quiet_fresh {A} n0 next (r : A * N * list N) : quiet next r -> fresh_res n0 next r.
Proof. intros [Hn Hw]. split; [rewrite Hn; lia|rewrite Hw; constructor]. Qed.

Theorem redact_fresh T n0 : forall v t p cur next,
  safe p = true -> (n0 <= cur)%N -> (n0 <= next)%N -> fresh_res n0 next (redact T t p cur next v).
Proof.
  induction v as [v Hl|fs IH|r es IH] using val_ind'; intros t p cur next Hp Hc Hn.
  - destruct v; try contradiction; cbn; try solve [split; [cbn; lia|repeat constructor; assumption]].
    + destruct (mode_of p); try solve [split; [cbn; lia|repeat constructor; assumption]].
      destruct (elem_ty t); split; cbn; try lia; repeat constructor; assumption.
    + destruct p; solve [split; [cbn; lia|repeat constructor; assumption]].
  - cbn. destruct t; try solve [split; [cbn; lia|repeat constructor; assumption]].
    destruct (find_struct T n) as [sd|]; [|split; [cbn; lia|constructor]].
    match goal with |- context [zipf_st ?F _ _ _] => pose proof (zipf_st_fresh n0 F fs) as Hz end.
    match type of Hz with ?A -> _ => assert (HA : A) end.
    { eapply Forall_impl; [|exact IH]. intros x Hx fd nx Hnx. cbn beta.
      destruct p; try (apply Hx; [apply sub_prog_safe; exact Hp|assumption|assumption]).
      destruct (String.eqb (f_go fd) tls_key_go).
      - destruct (blank_val x) as [y ch]. split; cbn; [lia|]. destruct ch; repeat constructor; assumption.
      - apply Hx; [reflexivity|assumption|assumption]. }
    specialize (Hz HA (s_fields sd) next Hn).
    destruct (zipf_st _ (s_fields sd) fs next) as [[vs' n'] w]. exact Hz.
  - cbn. destruct (elem_ty t) as [t'|]; [|split; [cbn; lia|constructor]].
    destruct (copies (mode_of p) es) eqn:Ec.
    + (* fresh storage *)
      assert (Hq : safe (elem_prog p) = true).
      { destruct p; cbn in *; try reflexivity. destruct m; cbn in *; try discriminate; exact Hp. }
      match goal with |- context [map_es_st ?F _ _] => pose proof (map_es_st_fresh n0 F es) as Hz end.
      match type of Hz with ?A -> _ => assert (HA : A) end.
      { eapply Forall_impl; [|exact IH]. intros kv Hx nx Hnx. cbn beta. apply Hx; [exact Hq|lia|assumption]. }
      assert (Hs : (n0 <= N.succ next)%N) by lia.
      specialize (Hz HA (N.succ next) Hs).
      destruct (map_es_st _ es (N.succ next)) as [[es' n'] w]. destruct Hz as [Hn' Hw]. cbn in *.
      split; cbn; [lia|constructor; assumption].
    + (* in place: nothing below may write *)
      destruct es as [|kv0 es0]; [cbn; split; [cbn; lia|constructor]|].
      remember (kv0 :: es0) as es eqn:Ees.
      assert (Hq : can_write (elem_prog p) = false).
      { destruct p; cbn in *; try reflexivity. destruct m; cbn in *; try discriminate.
        - apply negb_true_iff. exact Hp.
        - subst es. discriminate. }
      match goal with |- context [map_es_st ?F _ _] => pose proof (map_es_st_quiet F es) as Hz end.
      match type of Hz with ?A -> _ => assert (HA : A) end.
      { apply Forall_forall. intros kv _ nx. apply redact_quiet. exact Hq. }
      specialize (Hz HA next).
      destruct (map_es_st _ es next) as [[es' n'] w]. destruct Hz as [Hn' Hw]. cbn in *. subst.
      split; cbn; [lia|constructor].
Qed.

(* ================================================================================================ *)
(* 2. raw JSON: the key-based redaction blanks whatever taint_json marks                            *)
(* ================================================================================================ *)

Definition oks (l : list string) : Prop := Forall ok_secret l.
Definition plain (v : val) : Prop := vsecrets v = [].

Lemma flat_map_nil_iff {A B} (f : A -> list B) l : flat_map f l = [] <-> Forall (fun x => f x = []) l.
Proof.
  induction l as [|x l IH]; cbn; split; intros H; try constructor; try reflexivity.
  - apply app_eq_nil in H. tauto.
  - apply IH. apply app_eq_nil in H. tauto.
  - inversion H; subst. rewrite H2. cbn. apply IH. assumption.
Qed.

Lemma oks_nil : oks []. Proof. constructor. Qed.
Lemma oks_app a b : oks (a ++ b) <-> oks a /\ oks b. Proof. apply Forall_app. Qed.
Lemma oks_eq_nil l : l = [] -> oks l. Proof. intros ->. constructor. Qed.

(* every secret leaf sits directly under a member named "private_key" (any case) *)
Fixpoint keyed_ok (j : json) : Prop :=
  match j with
  | JSecret _ => False
  | JFuel l => l = []
  | JArr l => (fix go (l : list json) : Prop := match l with [] => True | x :: l' => keyed_ok x /\ go l' end) l
  | JObj kvs =>
    (fix go (kvs : list (string * json)) : Prop :=
       match kvs with
       | [] => True
       | (k, x) :: kvs' => match x with JSecret _ => key_eq k tls_key_json = true | _ => keyed_ok x end /\ go kvs'
       end) kvs
  | _ => True
  end.

Lemma jplain_keyed j : jsecrets j = [] -> keyed_ok j.
Proof.
  induction j as [j Hl|l IH|kvs IH] using json_ind'; intros H.
  - destruct j; try contradiction; cbn in *; try exact I; try discriminate; exact H.
  - cbn in *. induction IH as [|x l Hx Hl IH']; [exact I|].
    cbn in H. apply app_eq_nil in H. destruct H as [H1 H2]. split; [apply Hx; exact H1|apply IH'; exact H2].
  - cbn in *. induction IH as [|[k x] kvs Hx Hl IH']; [exact I|].
    cbn in H. apply app_eq_nil in H. destruct H as [H1 H2]. split; [|apply IH'; exact H2].
    cbn in Hx. specialize (Hx H1). destruct x; try exact Hx. cbn in H1. discriminate.
Qed.

Lemma ok_placeholder : ok_secret placeholder. Proof. right; reflexivity. Qed.

Lemma blank_keyed_ok j : keyed_ok j -> oks (jsecrets (blank_json_keys j)).
Proof.
  induction j as [j Hl|l IH|kvs IH] using json_ind'; intros H.
  - destruct j; try contradiction; cbn in *; try apply oks_nil. subst. apply oks_nil.
  - cbn in *. induction IH as [|x l Hx Hl IH']; [apply oks_nil|].
    destruct H as [H1 H2]. cbn. apply oks_app. split; [apply Hx; exact H1|apply IH'; exact H2].
  - cbn in *. induction IH as [|[k x] kvs Hx Hl IH']; [apply oks_nil|].
    destruct H as [H1 H2]. cbn. apply oks_app. split; [|apply IH'; exact H2].
    cbn in Hx. destruct (key_eq k tls_key_json) eqn:Ek.
    + destruct x; try (apply Hx; exact H1).
      * destruct (String.eqb s ""); cbn; apply oks_nil.
      * destruct (String.eqb s "") eqn:Es; cbn.
        -- apply String.eqb_eq in Es. subst. constructor; [left; reflexivity|constructor].
        -- constructor; [apply ok_placeholder|constructor].
    + destruct x; try (apply Hx; exact H1). rewrite H1 in Ek. discriminate.
Qed.

Lemma key_eq_trans a b c : key_eq a b = true -> key_eq a c = true -> key_eq b c = true.
Proof.
  unfold key_eq. intros H1 H2. apply String.eqb_eq in H1. apply String.eqb_eq in H2.
  apply String.eqb_eq. congruence.
Qed.

Lemma find_json_field_key fs k fd : find_json_field fs k = Some fd -> In fd fs /\ key_eq (f_json fd) k = true.
Proof.
  induction fs as [|f fs IH]; cbn; [discriminate|].
  destruct (negb (f_skip f) && key_eq (f_json f) k)%bool eqn:E.
  - intros H; inversion H; subst. apply andb_true_iff in E. split; [left; reflexivity|tauto].
  - intros H. apply IH in H. split; [right; tauto|tauto].
Qed.

Section WithTable.
Variable T : table.
Hypothesis HK : tls_key_named_b T = true.

Lemma tls_key_json_name n sd fd : find_struct T n = Some sd -> In fd (s_fields sd) -> is_tls_key n fd = true ->
  key_eq (f_json fd) tls_key_json = true.
Proof.
  intros Hs Hin Hk. unfold is_tls_key in Hk. apply andb_true_iff in Hk. destruct Hk as [Hn Hg].
  apply String.eqb_eq in Hn. subst n.
  unfold tls_key_named_b in HK. rewrite Hs in HK.
  rewrite forallb_forall in HK. specialize (HK fd Hin). rewrite Hg in HK. cbn in HK. exact HK.
Qed.

Definition member_ok (k : string) (x : json) : Prop :=
  match x with JSecret _ => key_eq k tls_key_json = true | _ => keyed_ok x end.

Lemma taint_json_ty_secret t s : taint_json_ty T t (JSecret s) = JSecret s.
Proof. cbn. destruct (strip_ptr t); reflexivity. Qed.

Lemma taint_json_ty_secret_inv t x s : taint_json_ty T t x = JSecret s -> x = JSecret s.
Proof.
  destruct x; cbn; destruct (strip_ptr t); try (intros H; exact H); try discriminate.
  destruct (find_struct T n); discriminate.
Qed.

Lemma member_ok_taint_ty k x t : (keyed_ok x -> keyed_ok (taint_json_ty T t x)) -> member_ok k x -> member_ok k (taint_json_ty T t x).
Proof.
  intros Hk Hm.
  assert (Hx : (exists s, x = JSecret s) \/ keyed_ok x).
  { destruct x; try (right; exact Hm). left; eexists; reflexivity. }
  destruct Hx as [[s ->]|Hx]; [rewrite taint_json_ty_secret; exact Hm|].
  specialize (Hk Hx).
  destruct (taint_json_ty T t x) eqn:E; try exact Hk.
  apply taint_json_ty_secret_inv in E. subst. exact Hm.
Qed.

Lemma keyed_obj_cons k x kvs : keyed_ok (JObj ((k, x) :: kvs)) <-> member_ok k x /\ keyed_ok (JObj kvs).
Proof. cbn. unfold member_ok. tauto. Qed.
Lemma keyed_obj_iff kvs : keyed_ok (JObj kvs) <-> Forall (fun kv => member_ok (fst kv) (snd kv)) kvs.
Proof.
  induction kvs as [|[k x] kvs IH].
  - cbn. split; intros; [constructor|exact I].
  - rewrite keyed_obj_cons, IH. split.
    + intros [H1 H2]. constructor; assumption.
    + intros H. inversion H; subst. split; assumption.
Qed.
Lemma keyed_arr_cons x l : keyed_ok (JArr (x :: l)) <-> keyed_ok x /\ keyed_ok (JArr l).
Proof. cbn. tauto. Qed.
Lemma keyed_arr_iff l : keyed_ok (JArr l) <-> Forall keyed_ok l.
Proof.
  induction l as [|x l IH].
  - cbn. split; intros; [constructor|exact I].
  - rewrite keyed_arr_cons, IH. split.
    + intros [H1 H2]. constructor; assumption.
    + intros H. inversion H; subst. split; assumption.
Qed.

Lemma taint_json_ty_keyed : forall j t, keyed_ok j -> keyed_ok (taint_json_ty T t j).
Proof.
  induction j as [j Hl|l IH|kvs IH] using json_ind'; intros t H.
  - destruct j; try contradiction; cbn; destruct (strip_ptr t); exact H.
  - cbn [taint_json_ty]. destruct (strip_ptr t); try exact H.
    apply keyed_arr_iff in H. apply keyed_arr_iff.
    induction IH as [|x l Hx Hl IH']; [constructor|].
    inversion H; subst. constructor; [apply Hx; assumption|apply IH'; assumption].
  - cbn [taint_json_ty]. destruct (strip_ptr t) as [| | | |n|?|?|t'| | |?]; try exact H.
    + destruct (find_struct T n) as [sd|] eqn:Es; [|exact H].
      apply keyed_obj_iff in H. apply keyed_obj_iff.
      induction IH as [|[k x] kvs Hx Hl IH']; [constructor|].
      inversion H; subst. constructor; [|apply IH'; assumption].
      cbn [fst snd] in *.
      destruct (find_json_field (s_fields sd) k) as [fd|] eqn:Ef; [|assumption].
      apply find_json_field_key in Ef. destruct Ef as [Hin Hkey].
      destruct (is_tls_key n fd) eqn:Ek.
      * pose proof (tls_key_json_name n sd fd Es Hin Ek) as Hj.
        destruct x; try assumption. cbn. eapply key_eq_trans; eauto.
      * apply member_ok_taint_ty; [apply Hx|assumption].
    + apply keyed_obj_iff in H. apply keyed_obj_iff.
      induction IH as [|[k x] kvs Hx Hl IH']; [constructor|].
      inversion H; subst. constructor; [|apply IH'; assumption].
      cbn [fst snd] in *. apply member_ok_taint_ty; [apply Hx|assumption].
Qed.

Lemma taint_keys_secret_inv x s : taint_keys x = JSecret s -> x = JSecret s.
Proof. destruct x; cbn; try (intros H; exact H); discriminate. Qed.

Lemma member_ok_taint_keys k x : (keyed_ok x -> keyed_ok (taint_keys x)) -> member_ok k x ->
  member_ok k (if key_eq k tls_key_json then match x with JStr s => JSecret s | _ => taint_keys x end else taint_keys x).
Proof.
  intros Hk Hm.
  assert (Hx : (exists s, x = JSecret s) \/ keyed_ok x).
  { destruct x; try (right; exact Hm). left; eexists; reflexivity. }
  destruct Hx as [[s ->]|Hx].
  - cbn [taint_keys]. destruct (key_eq k tls_key_json) eqn:Ek; exact Hm.
  - specialize (Hk Hx).
    assert (Hplain : member_ok k (taint_keys x)).
    { destruct (taint_keys x) eqn:E; try exact Hk. apply taint_keys_secret_inv in E. subst. exact Hm. }
    destruct (key_eq k tls_key_json) eqn:Ek; [|exact Hplain].
    destruct x; try exact Hplain. cbn. exact Ek.
Qed.

Lemma taint_keys_keyed : forall j, keyed_ok j -> keyed_ok (taint_keys j).
Proof.
  induction j as [j Hl|l IH|kvs IH] using json_ind'; intros H.
  - destruct j; try contradiction; exact H.
  - cbn [taint_keys]. apply keyed_arr_iff in H. apply keyed_arr_iff.
    induction IH as [|x l Hx Hl IH']; [constructor|].
    inversion H; subst. constructor; [apply Hx; assumption|apply IH'; assumption].
  - cbn [taint_keys]. apply keyed_obj_iff in H. apply keyed_obj_iff.
    induction IH as [|[k x] kvs Hx Hl IH']; [constructor|].
    inversion H; subst. constructor; [|apply IH'; assumption].
    cbn [fst snd] in *. apply member_ok_taint_keys; assumption.
Qed.

Lemma taint_json_keyed : forall j t, keyed_ok j -> keyed_ok (taint_json T t j).
Proof.
  intros j t H. unfold taint_json. destruct (is_keys_ty t); [apply taint_keys_keyed|apply taint_json_ty_keyed]; exact H.
Qed.

Lemma fold_taint_json_keyed interps : forall j, keyed_ok j -> keyed_ok (fold_left (fun j t' => taint_json T t' j) interps j).
Proof. induction interps as [|t' l IH]; intros j H; cbn; [exact H|]. apply IH. apply taint_json_keyed. exact H. Qed.

End WithTable.

(* ================================================================================================ *)
(* 3. coverage is sound: covers = true  ->  after redaction every marked key is the placeholder      *)
(* ================================================================================================ *)

Lemma plain_struct fs : plain (VStruct fs) <-> Forall plain fs.
Proof. unfold plain. cbn. apply flat_map_nil_iff. Qed.
Lemma plain_ref r es : plain (VRef r es) <-> Forall (fun kv => plain (snd kv)) es.
Proof. unfold plain. cbn. apply (flat_map_nil_iff (fun kv : string * val => vsecrets (snd kv))). Qed.

Lemma blank_json_plain j : jsecrets j = [] -> jsecrets (blank_json_keys j) = [].
Proof.
  induction j as [j Hl|l IH|kvs IH] using json_ind'; intros H.
  - destruct j; try contradiction; exact H.
  - cbn in *. induction IH as [|x l Hx Hl IH']; [reflexivity|].
    cbn in H. apply app_eq_nil in H. destruct H as [H1 H2]. cbn. rewrite (Hx H1). cbn. apply IH'. exact H2.
  - cbn in *. induction IH as [|[k x] kvs Hx Hl IH']; [reflexivity|].
    cbn in H. apply app_eq_nil in H. destruct H as [H1 H2]. cbn. rewrite (IH' H2), app_nil_r.
    cbn in Hx. specialize (Hx H1).
    destruct (key_eq k tls_key_json); [|exact Hx].
    destruct x; try exact Hx.
    + destruct (String.eqb s ""); reflexivity.
    + cbn in H1. discriminate.
Qed.

(* blanking never turns an acceptable secret leaf into an unacceptable one *)
Lemma blank_oks j : oks (jsecrets j) -> oks (jsecrets (blank_json_keys j)).
Proof.
  induction j as [j Hl|l IH|kvs IH] using json_ind'; intros H.
  - destruct j; try contradiction; exact H.
  - cbn in *. induction IH as [|x l Hx Hl IH']; [apply oks_nil|].
    cbn in H. apply oks_app in H. destruct H as [H1 H2]. cbn. apply oks_app. split; [apply Hx; exact H1|apply IH'; exact H2].
  - cbn in *. induction IH as [|[k x] kvs Hx Hl IH']; [apply oks_nil|].
    cbn in H. apply oks_app in H. destruct H as [H1 H2]. cbn. apply oks_app. split; [|apply IH'; exact H2].
    cbn in Hx. specialize (Hx H1).
    destruct (key_eq k tls_key_json); [|exact Hx].
    destruct x; try exact Hx.
    + destruct (String.eqb s ""); apply oks_nil.
    + destruct (String.eqb s "") eqn:Es; cbn.
      * exact H1.
      * constructor; [apply ok_placeholder|constructor].
Qed.

Lemma zipf_plain f fds : (forall fd x, plain x -> plain (f fd x)) -> forall vs, Forall plain vs -> Forall plain (zipf f fds vs).
Proof.
  intros Hf vs. revert fds. induction vs as [|x vs IH]; intros fds H; cbn; [constructor|].
  destruct fds as [|fd fds]; [exact H|]. inversion H; subst. constructor; [apply Hf; assumption|apply IH; assumption].
Qed.
Lemma zipf_plain_in f fds vs : Forall (fun x => forall fd, plain x -> plain (f fd x)) vs -> Forall plain vs -> Forall plain (zipf f fds vs).
Proof.
  revert fds. induction vs as [|x vs IH]; intros fds Hf H; cbn; [constructor|].
  destruct fds as [|fd fds]; [exact H|]. inversion H; subst. inversion Hf; subst.
  constructor; [auto|apply IH; assumption].
Qed.
Lemma map_es_plain_in f es : Forall (fun kv => plain (snd kv) -> plain (f (snd kv))) es -> Forall (fun kv => plain (snd kv)) es ->
  Forall (fun kv => plain (snd kv)) (map_es f es).
Proof.
  induction es as [|[k e] es IH]; intros Hf H; cbn; [constructor|].
  inversion H; subst. inversion Hf; subst. constructor; [cbn in *; auto|apply IH; assumption].
Qed.

Lemma prune_plain T pruned : forall v path t, plain v -> plain (prune T pruned path t v).
Proof.
  induction v as [v Hl|fs IH|r es IH] using val_ind'; intros path t H.
  - destruct v; try contradiction; exact H.
  - cbn. destruct t; try exact H. destruct (find_struct T n) as [sd|]; [|exact H].
    apply plain_struct. apply plain_struct in H. apply zipf_plain_in; [|exact H].
    eapply Forall_impl; [|exact IH]. intros x Hx fd Hp. cbn beta.
    destruct (path_mem _ pruned); [reflexivity|apply Hx; exact Hp].
  - cbn. destruct t; try exact H; (apply plain_ref; apply plain_ref in H; apply map_es_plain_in; [|exact H];
      eapply Forall_impl; [|exact IH]; intros kv Hx Hp; apply Hx; exact Hp).
Qed.

Section Cover.
Variable T : table.
Hypothesis HK : tls_key_named_b T = true.

Definition R (pruned : list (list string)) (path : list string) (t : ty) (p : rprog) (cur next : N) (v : val) : val :=
  rval (redact T t p cur next (taint T t (prune T pruned path t v))).


(* unfolding equations *)
Lemma prune_struct_eq pruned path n sd vs : find_struct T n = Some sd ->
  prune T pruned path (TNamed n) (VStruct vs) =
  VStruct (zipf (fun fd x => if path_mem (path ++ [f_go fd]) pruned then VNil
                             else prune T pruned (path ++ [f_go fd]) (f_ty fd) x) (s_fields sd) vs).
Proof. intros H. cbn. rewrite H. reflexivity. Qed.
Lemma taint_struct_eq n sd vs : find_struct T n = Some sd ->
  taint T (TNamed n) (VStruct vs) =
  VStruct (zipf (fun fd x =>
                   if is_tls_key n fd then match x with VStr s => VSecret s | _ => x end
                   else match f_ty fd, x with
                        | TRaw, VJson j => VJson (fold_left (fun j t' => taint_json T t' j) (raw_interps n sd vs) j)
                        | _, _ => taint T (f_ty fd) x
                        end) (s_fields sd) vs).
Proof. intros H. cbn. rewrite H. reflexivity. Qed.
Lemma redact_struct_eq n sd p cur next vs : find_struct T n = Some sd ->
  redact T (TNamed n) p cur next (VStruct vs) =
  let '(vs', next', w) :=
    zipf_st (fun fd x next =>
               match p with
               | RBlankKey =>
                 if String.eqb (f_go fd) tls_key_go
                 then let '(y, ch) := blank_val x in (y, next, if ch then [cur] else [])
                 else redact T (f_ty fd) RNone cur next x
               | _ => redact T (f_ty fd) (sub_prog p (f_go fd)) cur next x
               end) (s_fields sd) vs next in
  (VStruct vs', next', w).
Proof. intros H. cbn. rewrite H. reflexivity. Qed.
Lemma redact_ref_eq t t' p cur next r es : elem_ty t = Some t' ->
  redact T t p cur next (VRef r es) =
  let copy := copies (mode_of p) es in
  let r' := if copy then next else r in
  let next1 := if copy then N.succ next else next in
  let '(es', n2, w) := map_es_st (fun e next => redact T t' (elem_prog p) r' next e) es next1 in
  (VRef r' es', n2, ((if copy then [cur] else []) ++ w)%list).
Proof. intros H. cbn. rewrite H. reflexivity. Qed.

(* redaction of a value whose type has neither fields nor elements *)
Lemma redact_inert t p cur next v :
  (match t with TNamed _ | TPtr _ | TSlice _ | TMap _ => False | _ => True end) -> plain v ->
  plain (rval (redact T t p cur next v)).
Proof.
  intros Ht Hp. destruct v; cbn; try exact Hp.
  - destruct t; try contradiction; exact Hp.
  - destruct t; try contradiction; cbn; destruct (mode_of p); exact Hp.
  - destruct t; try contradiction; cbn; exact Hp.
  - destruct p; try exact Hp. unfold plain, rval. cbn. apply blank_json_plain. exact Hp.
Qed.

Lemma taint_inert t v :
  (match t with TNamed _ | TPtr _ | TSlice _ | TMap _ => False | _ => True end) -> taint T t v = v.
Proof. intros Ht. destruct v; try reflexivity; destruct t; try contradiction; reflexivity. Qed.
Lemma prune_inert pruned path t v :
  (match t with TNamed _ | TPtr _ | TSlice _ | TMap _ => False | _ => True end) -> prune T pruned path t v = v.
Proof. intros Ht. destruct v; try reflexivity; destruct t; try contradiction; reflexivity. Qed.

(* the three zips of a struct value, field by field *)
Lemma zip3_ok (fP fT : field -> val -> val) (fR : field -> val -> N -> rres) fds :
  forall vs next,
    Forall plain vs ->
    (forall fd x nx, In fd fds -> In x vs -> oks (vsecrets (rval (fR fd (fT fd (fP fd x)) nx)))) ->
    oks (flat_map vsecrets (fst (fst (zipf_st fR fds (zipf fT fds (zipf fP fds vs)) next)))).
Proof.
  induction fds as [|fd fds IH]; intros vs next Hp Hf.
  - destruct vs; cbn; [apply oks_nil|]. apply oks_eq_nil. apply flat_map_nil_iff in Hp. exact Hp.
  - destruct vs as [|x vs]; cbn; [apply oks_nil|].
    destruct (fR fd (fT fd (fP fd x)) next) as [[x' n1] w1] eqn:E1.
    destruct (zipf_st fR fds (zipf fT fds (zipf fP fds vs)) n1) as [[r n2] w2] eqn:E2.
    cbn. apply oks_app. split.
    + specialize (Hf fd x next (or_introl eq_refl) (or_introl eq_refl)). rewrite E1 in Hf. exact Hf.
    + inversion Hp; subst. specialize (IH vs n1 H2). rewrite E2 in IH. apply IH.
      intros fd' x0 nx Hfd Hx. apply Hf; right; assumption.
Qed.

Lemma map3_ok (fP fT : val -> val) (fR : val -> N -> rres) :
  forall es next,
    (forall kv nx, In kv es -> oks (vsecrets (rval (fR (fT (fP (snd kv))) nx)))) ->
    oks (flat_map (fun kv : string * val => vsecrets (snd kv)) (fst (fst (map_es_st fR (map_es fT (map_es fP es)) next)))).
Proof.
  induction es as [|[k e] es IH]; intros next Hf; cbn; [apply oks_nil|].
  destruct (fR (fT (fP e)) next) as [[e' n1] w1] eqn:E1.
  destruct (map_es_st fR (map_es fT (map_es fP es)) n1) as [[r n2] w2] eqn:E2.
  cbn. apply oks_app. split.
  - specialize (Hf (k, e) next (or_introl eq_refl)). cbn in Hf. rewrite E1 in Hf. exact Hf.
  - specialize (IH n1). rewrite E2 in IH. apply IH. intros kv nx Hin. apply Hf. right; assumption.
Qed.

Lemma raw_interps_nil n sd vs : (String.eqb n ext_struct) = false -> raw_interps n sd vs = [].
Proof. unfold raw_interps. intros H. rewrite H. reflexivity. Qed.

Lemma tls_not_ext : String.eqb tls_struct ext_struct = false.
Proof. reflexivity. Qed.

Lemma blank_val_ok x : plain x \/ (exists s, x = VSecret s) -> oks (vsecrets (fst (blank_val x))).
Proof.
  intros [H|[s ->]].
  - destruct x; cbn; try (apply oks_eq_nil; exact H); try apply oks_nil.
    + destruct (String.eqb s ""); cbn; apply oks_nil.
    + unfold plain in H. cbn in H. discriminate.
  - cbn. destruct (String.eqb s "") eqn:Es; cbn.
    + apply String.eqb_eq in Es. subst. constructor; [left; reflexivity|constructor].
    + constructor; [apply ok_placeholder|constructor].
Qed.

(* the three per-field functions of prune / taint / redact on a struct *)
Definition fprune pruned path (fd : field) (x : val) : val :=
  if path_mem (path ++ [f_go fd]) pruned then VNil else prune T pruned (path ++ [f_go fd]) (f_ty fd) x.
Definition ftaint n interps (fd : field) (y : val) : val :=
  if is_tls_key n fd then match y with VStr s => VSecret s | _ => y end
  else match f_ty fd, y with
       | TRaw, VJson j => VJson (fold_left (fun j t' => taint_json T t' j) interps j)
       | _, _ => taint T (f_ty fd) y
       end.
Definition fredact p cur (fd : field) (y : val) (next : N) : rres :=
  match p with
  | RBlankKey =>
    if String.eqb (f_go fd) tls_key_go
    then let '(y', ch) := blank_val y in (y', next, if ch then [cur] else [])
    else redact T (f_ty fd) RNone cur next y
  | _ => redact T (f_ty fd) (sub_prog p (f_go fd)) cur next y
  end.

Lemma ftaint_nonraw n interps fd y : f_ty fd <> TRaw -> is_tls_key n fd = false -> ftaint n interps fd y = taint T (f_ty fd) y.
Proof. intros Hr Hk. unfold ftaint. rewrite Hk. destruct (f_ty fd); try reflexivity. congruence. Qed.
Lemma ftaint_raw n interps fd y : f_ty fd = TRaw -> is_tls_key n fd = false ->
  ftaint n interps fd y = match y with VJson j => VJson (fold_left (fun j t' => taint_json T t' j) interps j) | _ => y end.
Proof. intros Hr Hk. unfold ftaint. rewrite Hk, Hr. destruct y; try reflexivity. Qed.

Lemma fprune_plain pruned path fd x : plain x -> plain (fprune pruned path fd x).
Proof. intros H. unfold fprune. destruct (path_mem _ pruned); [reflexivity|apply prune_plain; exact H]. Qed.

Lemma redact_nil_plain t q cur nx : plain (rval (redact T t q cur nx VNil)).
Proof. cbn. destruct (mode_of q); try reflexivity. destruct (elem_ty t); reflexivity. Qed.

Lemma taint_nil t : taint T t VNil = VNil. Proof. reflexivity. Qed.

Lemma raw_field_ok interps q y cur nx : plain y -> (interps = [] \/ q = RJsonKeys) ->
  oks (vsecrets (rval (redact T TRaw q cur nx
     (match y with VJson j => VJson (fold_left (fun j t' => taint_json T t' j) interps j) | _ => y end)))).
Proof.
  intros Hp [->| ->].
  - apply oks_eq_nil. apply redact_inert; [exact I|]. destruct y; exact Hp.
  - destruct y; try (apply oks_eq_nil; apply redact_inert; [exact I|exact Hp]).
    unfold rval. cbn. apply blank_keyed_ok. apply fold_taint_json_keyed; [exact HK|]. apply jplain_keyed. exact Hp.
Qed.

Definition IHty (x : val) : Prop :=
  forall fuel pruned path t p cur next, covers T fuel pruned path t p = true -> plain x -> oks (vsecrets (R pruned path t p cur next x)).

(* a field of the TLS struct, program RBlankKey *)
Lemma field_ok_tls f pruned path cur nx fd x :
  IHty x -> plain x ->
  (String.eqb (f_go fd) tls_key_go || covers T f pruned (path ++ [f_go fd]) (f_ty fd) RNone)%bool = true ->
  oks (vsecrets (rval (fredact RBlankKey cur fd (ftaint tls_struct [] fd (fprune pruned path fd x)) nx))).
Proof.
  intros IH Hp Hc. pose proof (fprune_plain pruned path fd x Hp) as Hy.
  unfold fredact. destruct (String.eqb (f_go fd) tls_key_go) eqn:Eg.
  - (* the key *)
    assert (Hk : is_tls_key tls_struct fd = true) by (unfold is_tls_key; rewrite Eg; reflexivity).
    unfold ftaint. rewrite Hk. set (y := fprune pruned path fd x) in *.
    destruct (blank_val (match y with VStr s => VSecret s | _ => y end)) as [y' ch] eqn:Eb. unfold rval; cbn.
    replace y' with (fst (blank_val (match y with VStr s => VSecret s | _ => y end))) by (rewrite Eb; reflexivity).
    apply blank_val_ok. destruct y; try (left; exact Hy). right; eexists; reflexivity.
  - cbn [orb] in Hc.
    assert (Hk : is_tls_key tls_struct fd = false) by (unfold is_tls_key; rewrite Eg; apply andb_false_r).
    destruct (f_ty fd) eqn:Et.
    all: try (rewrite ftaint_nonraw by (try exact Hk; rewrite Et; discriminate); rewrite Et;
              unfold fprune; destruct (path_mem _ pruned);
              [ rewrite taint_nil; apply oks_eq_nil; apply redact_nil_plain
              | rewrite Et; eapply (IH f pruned (path ++ [f_go fd])%list _ RNone cur nx); [exact Hc|exact Hp] ]).
    (* TRaw *)
    rewrite ftaint_raw by assumption. apply raw_field_ok; [exact Hy|left; reflexivity].
Qed.

(* a field of any other struct *)
Lemma field_ok_other f n interps pruned path p cur nx fd x :
  IHty x -> plain x -> String.eqb n tls_struct = false -> p <> RBlankKey ->
  ((String.eqb n ext_struct) = false -> interps = []) ->
  (path_mem (path ++ [f_go fd]) pruned
   || match f_ty fd with
      | TRaw => if (String.eqb n ext_struct) then prog_eq_json (sub_prog p (f_go fd)) else true
      | _ => covers T f pruned (path ++ [f_go fd]) (f_ty fd) (sub_prog p (f_go fd))
      end)%bool = true ->
  oks (vsecrets (rval (fredact p cur fd (ftaint n interps fd (fprune pruned path fd x)) nx))).
Proof.
  intros IH Hp En Hnb Hint Hc. pose proof (fprune_plain pruned path fd x Hp) as Hy.
  assert (Hk : is_tls_key n fd = false) by (unfold is_tls_key; rewrite En; reflexivity).
  assert (Hfr : fredact p cur fd = fun y next => redact T (f_ty fd) (sub_prog p (f_go fd)) cur next y).
  { unfold fredact. destruct p; try reflexivity. congruence. }
  rewrite Hfr. clear Hfr.
  destruct (f_ty fd) eqn:Et.
  all: try (rewrite ftaint_nonraw by (try exact Hk; rewrite Et; discriminate); rewrite Et;
            unfold fprune; destruct (path_mem _ pruned);
            [ rewrite taint_nil; apply oks_eq_nil; apply redact_nil_plain
            | cbn [orb] in Hc; rewrite Et; eapply (IH f pruned (path ++ [f_go fd])%list _ _ cur nx); [exact Hc|exact Hp] ]).
  (* TRaw *)
  rewrite ftaint_raw by assumption.
  unfold fprune in *. destruct (path_mem (path ++ [f_go fd]) pruned) eqn:Epm.
  - apply oks_eq_nil. apply redact_nil_plain.
  - apply raw_field_ok; [exact Hy|].
    cbn [orb] in Hc. destruct (String.eqb n ext_struct) eqn:Ee; [|left; apply Hint; reflexivity].
    right. destruct (sub_prog p (f_go fd)); try discriminate. reflexivity.
Qed.

Lemma prune_struct_eq' pruned path n sd vs : find_struct T n = Some sd ->
  prune T pruned path (TNamed n) (VStruct vs) = VStruct (zipf (fprune pruned path) (s_fields sd) vs).
Proof. apply prune_struct_eq. Qed.
Lemma taint_struct_eq' n sd vs : find_struct T n = Some sd ->
  taint T (TNamed n) (VStruct vs) = VStruct (zipf (ftaint n (raw_interps n sd vs)) (s_fields sd) vs).
Proof. apply taint_struct_eq. Qed.
Lemma redact_struct_eq' n sd p cur next vs : find_struct T n = Some sd ->
  redact T (TNamed n) p cur next (VStruct vs) =
  let '(vs', next', w) := zipf_st (fredact p cur) (s_fields sd) vs next in (VStruct vs', next', w).
Proof. apply redact_struct_eq. Qed.

Theorem cover_ok : forall v, IHty v.
Proof.
  induction v as [v Hl|fs IH|r es IH] using val_ind'; intros fuel pruned path t p cur next Hc Hp; unfold R.
  - (* leaves *)
    assert (Hid : taint T t (prune T pruned path t v) = v) by (destruct v; try contradiction; reflexivity).
    rewrite Hid. apply oks_eq_nil.
    destruct v; try contradiction; cbn; try exact Hp.
    + destruct (mode_of p); try exact Hp. destruct (elem_ty t); [reflexivity|exact Hp].
    + destruct p; try exact Hp. unfold rval; cbn. apply blank_json_plain. exact Hp.
  - (* structs *)
    destruct t as [| | | |n|?|?|?| | |?];
      try (rewrite prune_inert, taint_inert by exact I; apply oks_eq_nil; apply redact_inert; [exact I|exact Hp]);
      try (cbn; apply oks_eq_nil; exact Hp).
    destruct fuel as [|f]; [discriminate|]. cbn [covers] in Hc.
    destruct (find_struct T n) as [sd|] eqn:Es; [|discriminate].
    rewrite (prune_struct_eq' _ _ _ _ _ Es), (taint_struct_eq' _ _ _ Es), (redact_struct_eq' _ _ _ _ _ _ Es).
    set (interps := raw_interps n sd (zipf (fprune pruned path) (s_fields sd) fs)).
    pose proof (zip3_ok (fprune pruned path) (ftaint n interps) (fredact p cur) (s_fields sd) fs next) as Hz.
    apply plain_struct in Hp.
    match type of Hz with _ -> ?A -> _ => assert (HA : A) end.
    { intros fd x nx Hfd Hx.
      rewrite Forall_forall in IH. specialize (IH x Hx).
      rewrite Forall_forall in Hp. specialize (Hp x Hx).
      destruct (String.eqb n tls_struct) eqn:En.
      - apply andb_true_iff in Hc. destruct Hc as [Hc Hall]. apply andb_true_iff in Hc. destruct Hc as [Hb _].
        destruct p; try discriminate.
        rewrite forallb_forall in Hall. specialize (Hall fd Hfd).
        assert (Hi : interps = []).
        { apply raw_interps_nil. apply String.eqb_eq in En. subst n. rewrite tls_not_ext. reflexivity. }
        rewrite Hi. apply String.eqb_eq in En. subst n.
        eapply field_ok_tls; eauto.
      - apply andb_true_iff in Hc. destruct Hc as [Hnb Hall].
        rewrite forallb_forall in Hall. specialize (Hall fd Hfd).
        eapply field_ok_other; eauto.
        + intros ->. discriminate.
        + intros He. apply raw_interps_nil. exact He. }
    specialize (Hz Hp HA).
    destruct (zipf_st (fredact p cur) (s_fields sd) (zipf (ftaint n interps) (s_fields sd) (zipf (fprune pruned path) (s_fields sd) fs)) next) as [[vs' n'] w].
    exact Hz.
  - (* references *)
    destruct t as [| | | |?|t'|t'|t'| | |?];
      try (rewrite prune_inert, taint_inert by exact I; apply oks_eq_nil; apply redact_inert; [exact I|exact Hp]);
      try (cbn; apply oks_eq_nil; exact Hp).
    all: destruct fuel as [|f]; [discriminate|]; cbn [covers] in Hc;
      cbn [prune taint];
      erewrite redact_ref_eq by reflexivity; cbv zeta;
      match goal with |- context [map_es_st ?fR (map_es ?fT (map_es ?fP _)) ?nx] =>
        pose proof (map3_ok fP fT fR es nx) as Hz end;
      match type of Hz with ?A -> _ => assert (HA : A) end;
      [ intros kv nx Hin; rewrite Forall_forall in IH; specialize (IH kv Hin);
        apply plain_ref in Hp; rewrite Forall_forall in Hp; specialize (Hp kv Hin);
        eapply (IH f pruned path t' (elem_prog p)); [exact Hc|exact Hp]
      | specialize (Hz HA);
        match goal with |- context [map_es_st ?fR ?a ?b] => destruct (map_es_st fR a b) as [[es' n'] w] end;
        exact Hz ].
Qed.

(* ---- a field of the root struct, as the section endpoints select it *)
Lemma nth_zipf (g : field -> val -> val) : forall fds vs i fd,
  nth_error fds i = Some fd -> nth_error (zipf g fds vs) i = option_map (g fd) (nth_error vs i).
Proof.
  induction fds as [|fd0 fds IH]; intros vs i fd H; [destruct i; discriminate|].
  destruct vs as [|x vs]; [destruct i; reflexivity|].
  destruct i as [|i]; cbn in *.
  - inversion H; subst. reflexivity.
  - apply IH. exact H.
Qed.

Lemma field_index_nth : forall fds f k i fd,
  field_index fds f k = Some (i, fd) -> (k <= i)%nat /\ nth_error fds (i - k) = Some fd /\ f_go fd = f.
Proof.
  induction fds as [|fd0 fds IH]; intros f k i fd H; cbn in H; [discriminate|].
  destruct (String.eqb (f_go fd0) f) eqn:E.
  - inversion H; subst. rewrite Nat.sub_diag. apply String.eqb_eq in E. repeat split; auto.
  - apply IH in H. destruct H as [Hk [Hn Hf]]. split; [lia|]. split; [|exact Hf].
    replace (i - k)%nat with (S (i - S k)) by lia. exact Hn.
Qed.

Lemma root_field_ok root_n sd f i fd pruned p cur next vs fuel :
  find_struct T root_n = Some sd -> field_index (s_fields sd) f 0 = Some (i, fd) ->
  String.eqb root_n tls_struct = false -> f_ty fd <> TRaw -> path_mem [f] pruned = false ->
  covers T fuel pruned [f] (f_ty fd) p = true ->
  plain (VStruct vs) ->
  match vget T (TNamed root_n) (taint T (TNamed root_n) (prune T pruned [] (TNamed root_n) (VStruct vs))) [f] with
  | Some (t, v) => t = f_ty fd /\ oks (vsecrets (rval (redact T t p cur next v)))
  | None => True
  end.
Proof.
  intros Hs Hf Hn Hr Hpm Hc Hp.
  rewrite (prune_struct_eq' _ _ _ _ _ Hs), (taint_struct_eq' _ _ _ Hs).
  cbn [vget]. rewrite Hs, Hf.
  apply field_index_nth in Hf. destruct Hf as [_ [Hnth Hgo]]. rewrite Nat.sub_0_r in Hnth.
  rewrite (nth_zipf _ _ _ _ _ Hnth), (nth_zipf _ _ _ _ _ Hnth).
  destruct (nth_error vs i) as [x|] eqn:Ex; cbn [option_map]; [|exact I].
  split; [reflexivity|].
  assert (Hk : is_tls_key root_n fd = false) by (unfold is_tls_key; rewrite Hn; reflexivity).
  rewrite ftaint_nonraw by assumption.
  unfold fprune. cbn [app]. rewrite Hgo, Hpm.
  apply plain_struct in Hp. rewrite Forall_forall in Hp.
  apply (cover_ok x fuel pruned [f] (f_ty fd) p cur next Hc). apply Hp. eapply nth_error_In; eauto.
Qed.

End Cover.

(* ================================================================================================ *)
(* 4. the endpoints of the generated graph                                                          *)
(* ================================================================================================ *)

Lemma oks_incl a b : incl a b -> oks b -> oks a.
Proof. unfold oks. intros Hi Hb. apply Forall_forall. intros x Hx. rewrite Forall_forall in Hb. apply Hb, Hi, Hx. Qed.

Lemma assoc_val_secrets es k x : assoc_val es k = Some x ->
  incl (vsecrets x) (flat_map (fun kv : string * val => vsecrets (snd kv)) es).
Proof.
  induction es as [|[k' y] es IH]; cbn; [discriminate|].
  destruct (String.eqb k' k).
  - intros H; inversion H; subst. apply incl_appl, incl_refl.
  - intros H. apply incl_appr. apply IH. exact H.
Qed.

Lemma select_secrets e t v : incl (vsecrets (snd (select e t v))) (vsecrets v).
Proof.
  destruct e; cbn; try apply incl_refl;
    (destruct (elem_ty t); [|apply incl_nil_l]; destruct v; try apply incl_nil_l;
     destruct (assoc_val es n) eqn:E; [|apply incl_nil_l]; cbn; eapply assoc_val_secrets; eauto).
Qed.

(* everything the finite check [covers_all] establishes, as propositions *)
Definition graph_ok : Prop :=
  tls_key_named_b cfg_structs = true /\ endpoint_types_ok = true /\
  forall e, covers_endpoint e = true.

Lemma covers_endpoint_name e : covers_endpoint e =
  covers_endpoint (match e with ERouter _ => ERouter "" | ECluster _ => ECluster "" | EListener _ => EListener "" | _ => e end).
Proof. destruct e; reflexivity. Qed.

Lemma covers_all_graph_ok : covers_all = true -> graph_ok.
Proof.
  unfold covers_all. intros H.
  (* (no `apply ... in H` here: H is a closed term and unification would evaluate it lazily) *)
  destruct (forallb covers_endpoint all_endpoint_kinds) eqn:E1; [|exfalso; cbv [andb] in H; discriminate].
  destruct endpoint_types_ok eqn:E2; [|exfalso; cbv [andb] in H; discriminate].
  destruct (tls_key_named_b cfg_structs) eqn:E3; [|exfalso; cbv [andb] in H; discriminate].
  clear H.
  split; [reflexivity|]. split; [reflexivity|].
  intros e. rewrite covers_endpoint_name. rewrite forallb_forall in E1. apply E1.
  destruct e; cbv [all_endpoint_kinds In]; tauto.
Qed.

Lemma root_struct : exists sd, find_struct cfg_structs cfg_root = Some sd.
Proof. vm_compute. eexists; reflexivity. Qed.

Lemma root_not_tls : String.eqb cfg_root tls_struct = false.
Proof. vm_compute. reflexivity. Qed.

(* from here on nothing may evaluate the graph by conversion (the facts about it are vm_compute lemmas) *)
#[local] Opaque covers cfg_structs.

(* the value an endpoint serialises contains, after redaction, no key but the placeholder *)
Lemma dump_value_ok : graph_ok -> forall e next0 c, plain c ->
  let '(t, v, w) := dump_value e next0 (taint cfg_structs root_ty (live c)) in oks (vsecrets v).
Proof.
  intros [HK [Hty Hcov]] e next0 c Hp.
  unfold dump_value.
  destruct (endpoint_part e (taint cfg_structs root_ty (live c))) as [[t p] v] eqn:Eep.
  destruct (select e t (rval (redact cfg_structs t p next0 (N.succ next0) v))) as [t2 v2] eqn:Esel.
  assert (Hred : oks (vsecrets (rval (redact cfg_structs t p next0 (N.succ next0) v)))).
  { specialize (Hcov e). unfold covers_endpoint in Hcov.
    destruct (match e with EFull => true | _ => false end) eqn:Efull.
    - destruct e; try discriminate Efull. cbn in Eep. inversion Eep; subst.
      apply (cover_ok cfg_structs HK c graph_fuel pruned_root [] root_ty p_root next0 (N.succ next0) Hcov Hp).
    - destruct (match e with EBad => true | _ => false end) eqn:Ebad.
      + destruct e; try discriminate Ebad. cbn in Eep. inversion Eep; subst. cbn. apply oks_nil.
      + (* section endpoints: a field of the root struct *)
        destruct c as [| | | | |vs| | | |];
          try (assert (Hv : v = VNil) by (destruct e; try discriminate Efull; try discriminate Ebad; cbn in Eep; inversion Eep; reflexivity);
               subst v; apply oks_eq_nil; apply (redact_nil_plain cfg_structs)).
        destruct root_struct as [sd Hsd].
        assert (Hf : exists f, endpoint_path e = [f] /\
                     endpoint_part e (taint cfg_structs root_ty (live (VStruct vs))) =
                     (let '(t0, v0) := root_field (taint cfg_structs root_ty (live (VStruct vs))) f in (t0, endpoint_prog e, v0))).
        { destruct e; try discriminate Efull; try discriminate Ebad; eexists; split; try reflexivity;
            cbn [endpoint_part]; destruct (root_field _ _); reflexivity. }
        destruct Hf as [f [Hpath Hpart]]. rewrite Hpart in Eep. clear Hpart.
        unfold root_field, live, root_ty in Eep.
        unfold endpoint_types_ok in Hty. rewrite forallb_forall in Hty.
        assert (Hin : In (match e with ERouter _ => ERouter "" | ECluster _ => ECluster "" | EListener _ => EListener "" | _ => e end) all_endpoint_kinds)
          by (destruct e; cbn; tauto).
        specialize (Hty _ Hin).
        assert (Hpath' : endpoint_path (match e with ERouter _ => ERouter "" | ECluster _ => ECluster "" | EListener _ => EListener "" | _ => e end) = [f])
          by (destruct e; exact Hpath).
        assert (Hety : endpoint_ty (match e with ERouter _ => ERouter "" | ECluster _ => ECluster "" | EListener _ => EListener "" | _ => e end) = endpoint_ty e)
          by (destruct e; reflexivity).
        rewrite Hpath', Hsd, Hety in Hty.
        destruct (field_index (s_fields sd) f 0) as [[i fd]|] eqn:Efi; [|discriminate Hty].
        apply andb_true_iff in Hty. destruct Hty as [_ Hty].
        assert (Hteq : f_ty fd = endpoint_ty e /\ f_ty fd <> TRaw).
        { clear - Hty.
          destruct (f_ty fd) as [| | | |a|?|?|tm| | |?]; destruct (endpoint_ty e) as [| | | |b|?|?|tm'| | |?]; try discriminate Hty.
          all: try (destruct tm; try discriminate Hty; destruct tm'; try discriminate Hty).
          all: apply String.eqb_eq in Hty; subst; (split; [reflexivity|intros X; discriminate X]). }
        destruct Hteq as [Hteq Hnr].
        assert (Hpm : path_mem [f] pruned_root = false).
        { clear - Hpath Efull Ebad. destruct e; try discriminate Efull; try discriminate Ebad; cbn in Hpath; inversion Hpath; subst; reflexivity. }
        rewrite Hpath in Hcov. rewrite <- Hteq in Hcov.
        pose proof (root_field_ok cfg_structs HK cfg_root sd f i fd pruned_root (endpoint_prog e) next0 (N.succ next0) vs graph_fuel
                      Hsd Efi root_not_tls Hnr Hpm Hcov Hp) as Hrf.
        destruct (vget cfg_structs (TNamed cfg_root) _ [f]) as [[t0 v0]|].
        * inversion Eep; subst. destruct Hrf as [_ Hrf]. exact Hrf.
        * inversion Eep; subst. apply oks_eq_nil. apply (redact_nil_plain cfg_structs). }
  pose proof (select_secrets e t (rval (redact cfg_structs t p next0 (N.succ next0) v))) as Hs.
  rewrite Esel in Hs. cbn in Hs. eapply oks_incl; eauto.
Qed.

Theorem no_leak_with : graph_ok -> forall scrub fuel e next0 c, plain c ->
  oks (jsecrets (dump_endpoint_with scrub fuel e next0 (taint cfg_structs root_ty (live c)))).
Proof.
  intros G scrub fuel e next0 c Hp. unfold dump_endpoint_with.
  pose proof (dump_value_ok G e next0 c Hp) as Hv.
  destruct (dump_value e next0 (taint cfg_structs root_ty (live c))) as [[t v] w].
  assert (He : oks (jsecrets (encode cfg_structs fuel t v))) by (eapply oks_incl; [apply encode_secrets|exact Hv]).
  assert (Hs : oks (jsecrets (if scrub then blank_json_keys (encode cfg_structs fuel t v) else encode cfg_structs fuel t v)))
    by (destruct scrub; [apply blank_oks; exact He|exact He]).
  destruct e; try exact Hs.
  cbn. apply oks_nil.
Qed.

Theorem no_leak : graph_ok -> forall fuel e next0 c, plain c ->
  oks (jsecrets (dump_endpoint fuel e next0 (taint cfg_structs root_ty (live c)))).
Proof. intros G fuel e next0 c Hp. apply no_leak_with; assumption. Qed.

(* ---- purity *)
Definition all_safe : bool := forallb (fun e => safe (endpoint_prog e)) all_endpoint_kinds.

Lemma endpoint_prog_name e : endpoint_prog e =
  endpoint_prog (match e with ERouter _ => ERouter "" | ECluster _ => ECluster "" | EListener _ => EListener "" | _ => e end).
Proof. destruct e; reflexivity. Qed.

Lemma endpoint_part_prog e c : snd (fst (endpoint_part e c)) = endpoint_prog e.
Proof. destruct e; cbn; try reflexivity; destruct (root_field c _); reflexivity. Qed.

Theorem pure_log : all_safe = true -> forall e next0 c, Forall (fun r => (next0 <= r)%N) (dump_log e next0 c).
Proof.
  intros Hs e next0 c. unfold dump_log, dump_value.
  destruct (endpoint_part e c) as [[t p] v] eqn:Eep.
  destruct (select e t (rval (redact cfg_structs t p next0 (N.succ next0) v))) as [t2 v2].
  assert (Hp : safe p = true).
  { pose proof (endpoint_part_prog e c) as H. rewrite Eep in H. cbn in H. subst p.
    rewrite endpoint_prog_name. unfold all_safe in Hs. rewrite forallb_forall in Hs. apply Hs. destruct e; cbn; tauto. }
  pose proof (redact_fresh cfg_structs next0 v t p next0 (N.succ next0) Hp) as Hf.
  destruct Hf as [_ Hw]; [lia|lia|]. exact Hw.
Qed.

(* ================================================================================================ *)
(* 5. finite facts about the generated graph (vm_compute)                                           *)
(* ================================================================================================ *)
Lemma covers_all_true : covers_all = true.
Proof. vm_compute. reflexivity. Qed.

Lemma all_safe_true : all_safe = true.
Proof. vm_compute. reflexivity. Qed.

Lemma graph_ok_holds : graph_ok.
Proof. apply covers_all_graph_ok. exact covers_all_true. Qed.

(* the two defective shapes of redact.go (before the repairs) break the property: kept as theorems about the
   model with the switch in the defective position *)
Lemma covers_without_extends_false :
  covers cfg_structs graph_fuel pruned_root [] root_ty (p_root_with CopyMake false) = false.
Proof. vm_compute. reflexivity. Qed.

Lemma leak_without_extends :
  plain w_conf /\
  leaked (jsecrets (fst (dump_full_with CopyMake false 64 w_next0 (taint cfg_structs root_ty (live w_conf))))) = ["KEY-EXT"].
Proof. split; [vm_compute; reflexivity|vm_compute; reflexivity]. Qed.

Lemma live_write_in_place :
  existsb (fun r => N.ltb r w_next0) (snd (dump_full_with InPlace true 64 w_next0 (taint cfg_structs root_ty (live w_conf)))) = true.
Proof. vm_compute. reflexivity. Qed.

(* non-vacuity: the witness configuration has keys at every kind of position, all visible without redaction *)
Lemma witness_visible :
  plain w_conf /\
  leaked (jsecrets (raw_endpoint 64 (taint cfg_structs root_ty (live w_conf)))) =
    ["KEY-CONTEXTS"; "KEY-CM"; "KEY-CONTEXTS"; "KEY-CLUSTER"; "KEY-EXT"] /\
  leaked (jsecrets (dump_endpoint 64 EFull w_next0 (taint cfg_structs root_ty (live w_conf)))) = [] /\
  existsb (fun r => N.ltb r w_next0) (dump_log EFull w_next0 (taint cfg_structs root_ty (live w_conf))) = false /\
  dump_log EFull w_next0 (taint cfg_structs root_ty (live w_conf)) <> [].
Proof.
  split; [vm_compute; reflexivity|].
  split; [vm_compute; reflexivity|].
  split; [vm_compute; reflexivity|].
  split; [vm_compute; reflexivity|].
  vm_compute. discriminate.
Qed.

(* ================================================================================================ *)
(* 6. the JSON-level redactor on its own (redactRawJSON / redactJSONValue of redact.go)              *)
(* ================================================================================================ *)
Lemma blank_not_string x : match x with JStr _ | JSecret _ => False | _ => True end ->
  match blank_json_keys x with JStr _ | JSecret _ => False | _ => True end.
Proof. destruct x; cbn; auto. Qed.

(* for EVERY JSON value: after the redaction every string under a "private_key" member is empty or the placeholder *)
Theorem blank_key_strings : forall j, oks (key_strings (blank_json_keys j)).
Proof.
  induction j as [j Hl|l IH|kvs IH] using json_ind'.
  - destruct j; try contradiction; apply oks_nil.
  - cbn. induction IH as [|x l Hx Hl IH']; [apply oks_nil|]. cbn. apply oks_app. split; assumption.
  - cbn. induction IH as [|[k x] kvs Hx Hl IH']; [apply oks_nil|]. cbn in Hx. cbn.
    apply oks_app. split; [|apply oks_app; split; [|exact IH']].
    + destruct (key_eq k tls_key_json) eqn:Ek; [|apply oks_nil].
      destruct x; cbn; try apply oks_nil.
      * destruct (String.eqb s "") eqn:Es; cbn.
        -- apply String.eqb_eq in Es. subst. constructor; [left; reflexivity|constructor].
        -- constructor; [apply ok_placeholder|constructor].
      * destruct (String.eqb s "") eqn:Es; cbn.
        -- apply String.eqb_eq in Es. subst. constructor; [left; reflexivity|constructor].
        -- constructor; [apply ok_placeholder|constructor].
    + destruct (key_eq k tls_key_json); [|exact Hx].
      destruct x; try exact Hx; (destruct (String.eqb s ""); apply oks_nil).
Qed.

Lemma same_but_keys_refl : forall j, same_but_keys j j.
Proof.
  induction j as [j Hl|l IH|kvs IH] using json_ind'.
  - destruct j; try contradiction; reflexivity.
  - cbn. induction IH as [|x l Hx Hl IH']; [exact I|]. split; assumption.
  - cbn. induction IH as [|[k x] kvs Hx Hl IH']; [exact I|]. cbn in Hx.
    split; [reflexivity|]. split; [|exact IH'].
    destruct (key_eq k tls_key_json); [|exact Hx]. destruct x; try exact Hx; exact I.
Qed.

(* ... and nothing else is changed: same shape, same members in the same order, same leaves *)
Theorem blank_same_but_keys : forall j, same_but_keys j (blank_json_keys j).
Proof.
  induction j as [j Hl|l IH|kvs IH] using json_ind'.
  - destruct j; try contradiction; reflexivity.
  - cbn. induction IH as [|x l Hx Hl IH']; [exact I|]. split; assumption.
  - cbn. induction IH as [|[k x] kvs Hx Hl IH']; [exact I|]. cbn in Hx.
    split; [reflexivity|]. split; [|exact IH'].
    destruct (key_eq k tls_key_json); [|exact Hx].
    destruct x; try exact Hx; (destruct (String.eqb s ""); exact I).
Qed.

(* a document without such members is returned as it is *)
Lemma blank_no_keys_id : forall j, key_strings j = [] -> blank_json_keys j = j.
Proof.
  induction j as [j Hl|l IH|kvs IH] using json_ind'; intros H.
  - destruct j; try contradiction; reflexivity.
  - cbn in *. f_equal. induction IH as [|x l Hx Hl IH']; [reflexivity|].
    cbn in H. apply app_eq_nil in H. destruct H as [H1 H2]. f_equal; [apply Hx; exact H1|apply IH'; exact H2].
  - cbn in *. f_equal. induction IH as [|[k x] kvs Hx Hl IH']; [reflexivity|]. cbn in Hx.
    cbn in H. apply app_eq_nil in H. destruct H as [H0 H]. apply app_eq_nil in H. destruct H as [H1 H2].
    f_equal; [|apply IH'; exact H2]. f_equal.
    destruct (key_eq k tls_key_json); [|apply Hx; exact H1].
    destruct x; try (apply Hx; exact H1); discriminate.
Qed.

(* marked or not, nothing marked survives (the form used by c20_no_leak) *)
Theorem blank_taint_keys_ok : forall j, jsecrets j = [] -> oks (jsecrets (blank_json_keys (taint_keys j))).
Proof. intros j H. apply blank_keyed_ok. apply taint_keys_keyed. apply jplain_keyed. exact H. Qed.

(* ================================================================================================ *)
(* 7. the scrub of the serialized dump: opaque blobs (filter configs, ...) and anything else         *)
(* ================================================================================================ *)
Lemma scrub_on : src_dump_scrubs_output = true. Proof. reflexivity. Qed.

(* whatever the configuration value is - typed or not, marked or not, well-formed or not - and whatever the typed
   program did or did not do: in the response every string member named "private_key", at any depth, under any
   position of the graph, is empty or the placeholder *)
Theorem dump_no_key_strings_with : forall fuel e next0 c, oks (key_strings (dump_endpoint_with true fuel e next0 c)).
Proof.
  intros fuel e next0 c. unfold dump_endpoint_with.
  destruct (dump_value e next0 c) as [[t v] w].
  destruct e; try apply blank_key_strings.
  cbn. apply oks_nil.
Qed.
Theorem dump_no_key_strings : forall fuel e next0 c, oks (key_strings (dump_endpoint fuel e next0 c)).
Proof. intros. unfold dump_endpoint. rewrite scrub_on. apply dump_no_key_strings_with. Qed.

(* and the scrub changes nothing but those strings *)
Theorem dump_scrub_only_keys : forall fuel e next0 c,
  same_but_keys (dump_endpoint_with false fuel e next0 c) (dump_endpoint_with true fuel e next0 c).
Proof.
  intros fuel e next0 c. unfold dump_endpoint_with.
  destruct (dump_value e next0 c) as [[t v] w].
  destruct e; apply blank_same_but_keys.
Qed.

(* covers_all accounts for the opaque positions through the scrub *)
Lemma covers_all_blobs : covers_all = true -> blob_positions_ok = true /\ keylike_ok = true.
Proof.
  unfold covers_all. intros H.
  destruct blob_positions_ok eqn:E1; [|exfalso; rewrite !andb_false_r in H; cbv [andb] in H; discriminate].
  destruct keylike_ok eqn:E2; [|exfalso; rewrite !andb_false_r in H; cbv [andb] in H; discriminate].
  split; reflexivity.
Qed.

(* the shape before the repair (typed program only): a filter configuration's key is printed; with the scrub it is not *)
Lemma blob_leak_without_scrub :
  plain w_conf_blob /\
  leaked (key_strings (dump_endpoint_with false 64 EAllListeners w_next0_blob (taint cfg_structs root_ty (live w_conf_blob))))
    = ["KEY-FILTER-TOP"; "KEY-FILTER-NESTED"] /\
  leaked (key_strings (dump_endpoint_with false 64 EFull w_next0_blob (taint cfg_structs root_ty (live w_conf_blob))))
    = ["KEY-FILTER-TOP"; "KEY-FILTER-NESTED"] /\
  leaked (key_strings (dump_endpoint 64 EAllListeners w_next0_blob (taint cfg_structs root_ty (live w_conf_blob)))) = [] /\
  leaked (key_strings (dump_endpoint 64 EFull w_next0_blob (taint cfg_structs root_ty (live w_conf_blob)))) = [] /\
  List.length (key_strings (dump_endpoint 64 EFull w_next0_blob (taint cfg_structs root_ty (live w_conf_blob)))) = 7.
Proof.
  split; [vm_compute; reflexivity|].
  split; [vm_compute; reflexivity|].
  split; [vm_compute; reflexivity|].
  split; [vm_compute; reflexivity|].
  split; [vm_compute; reflexivity|].
  vm_compute. reflexivity.
Qed.

(* ================================================================================================ *)
(* 8. the redaction of a text, whatever its spelling                                                *)
(* ================================================================================================ *)
(* for EVERY text (as a tree of spelled names and strings) that decodes at all: in the redaction no string member whose
   DECODED name is private_key (any case) survives *)
Theorem redact_text_no_leak : forall s j, redact_text s = Some j -> oks (key_strings j).
Proof.
  intros s j H. unfold redact_text in H. destruct (sdecode s) as [j0|]; [|discriminate].
  cbn in H. inversion H; subst. apply blank_key_strings.
Qed.

Theorem redact_text_defined : forall s j0, sdecode s = Some j0 -> redact_text s = Some (blank_json_keys j0).
Proof. intros s j0 H. unfold redact_text. rewrite H. reflexivity. Qed.

(* the name is compared after unescaping: a string member, however its name and its value are spelled *)
Theorem spelled_member_blanked : forall k lit rest k' v jr,
  unescape k = Some k' -> key_eq k' tls_key_json = true -> unescape lit = Some v ->
  sdecode (SObj rest) = Some (JObj jr) ->
  exists jr', redact_text (SObj ((k, SStr lit) :: rest)) = Some (JObj ((k', JStr (if String.eqb v "" then v else placeholder)) :: jr')).
Proof.
  intros k lit rest k' v jr Hk Hkey Hv Hr.
  assert (Hd : sdecode (SObj ((k, SStr lit) :: rest)) = Some (JObj ((k', JStr v) :: jr))).
  { cbn [sdecode] in *. rewrite Hk, Hv. cbn [option_map].
    destruct ((fix go (kvs : list (string * sjson)) : option (list (string * json)) :=
                 match kvs with
                 | [] => Some []
                 | (k0, x) :: r => match unescape k0, sdecode x, go r with
                                   | Some k'0, Some a, Some b => Some ((k'0, a) :: b)
                                   | _, _, _ => None
                                   end
                 end) rest) as [l|]; [|discriminate].
    cbn in Hr. inversion Hr; subst. reflexivity. }
  rewrite (redact_text_defined _ _ Hd). cbn [blank_json_keys]. rewrite Hkey.
  destruct (String.eqb v ""); eexists; reflexivity.
Qed.

(* a document whose text does not contain the name at all: every decoder reads private_key / Private_Key members *)
Definition w_spelled : sjson :=
  SObj [("enable", SBool false);
        ("tls_context", SObj [("private\u005fkey", SStr "KEY-\u0045SC"); ("status", SBool true)]);
        ("agents", SArr [SObj [("\u0050rivate\u005FKey", SStr "KEY-2")]])].

Lemma spelled_witness :
  contains tls_key_json (lower (sprint w_spelled)) = false /\
  option_map key_strings (sdecode w_spelled) = Some ["KEY-ESC"; "KEY-2"] /\
  option_map key_strings (redact_text w_spelled) = Some [placeholder; placeholder] /\
  option_map (fun j => leaked (key_strings j)) (redact_text_prefiltered w_spelled) = Some ["KEY-ESC"; "KEY-2"].
Proof. repeat split; vm_compute; reflexivity. Qed.

Lemma unescape_examples :
  unescape "private\u005fkey" = Some "private_key" /\ unescape "\u0050RIVATE\u005FKEY" = Some "PRIVATE_KEY" /\
  unescape "a\/b\\c\""d\n" = Some (String "a" (String "/" (String "b" (String "\" (String "c" (String """" (String "d" (String (ascii_of_N 10) ""))))))))
  /\ unescape "\u00e9" = Some (String (ascii_of_N 195) (String (ascii_of_N 169) "")) /\
  unescape "\u4e2d" = Some (String (ascii_of_N 228) (String (ascii_of_N 184) (String (ascii_of_N 173) ""))) /\
  unescape "\x" = None /\ unescape "\u12" = None /\ unescape "\ud83d" = None.
Proof. repeat split; vm_compute; reflexivity. Qed.

(* an output handed out by reference to a region that is written afterwards reads as what was written *)
Lemma output_by_reference_overwritten (A : Type) (st : store A) (r : N) (unredacted : A) :
  commit A st [(r, unredacted)] r = unredacted.
Proof. unfold commit, write. cbn. rewrite N.eqb_refl. reflexivity. Qed.

(* ================================================================================================ *)
(* 9. opaque values held by reference: redaction of a deep copy writes nothing that is live          *)
(* ================================================================================================ *)
Section RjsonInd.
  Variable P : rjson -> Prop.
  Hypothesis HS : forall j, P (RScalar j).
  Hypothesis HT : forall s, P (RStr s).
  Hypothesis HA : forall r l, Forall P l -> P (RArr r l).
  Hypothesis HO : forall r kvs, Forall (fun kv => P (snd kv)) kvs -> P (RObj r kvs).
  Fixpoint rjson_ind' (j : rjson) : P j :=
    match j with
    | RScalar x => HS x
    | RStr s => HT s
    | RArr r l => HA r l ((fix go (l : list rjson) : Forall P l :=
                             match l with [] => Forall_nil _ | x :: l' => Forall_cons _ (rjson_ind' x) (go l') end) l)
    | RObj r kvs => HO r kvs ((fix go (kvs : list (string * rjson)) : Forall (fun kv => P (snd kv)) kvs :=
                                 match kvs with [] => Forall_nil _ | kv :: kvs' => Forall_cons _ (rjson_ind' (snd kv)) (go kvs') end) kvs)
    end.
End RjsonInd.

Lemma blank_inplace_relabel f : forall j, blank_inplace (relabel f j) = map f (blank_inplace j).
Proof.
  induction j as [x|s|r l IH|r kvs IH] using rjson_ind'; try reflexivity.
  - cbn. induction IH as [|x l Hx Hl IH']; [reflexivity|]. cbn. rewrite Hx, IH', map_app. reflexivity.
  - cbn. induction IH as [|[k x] kvs Hx Hl IH']; [reflexivity|]. cbn in Hx. cbn. rewrite IH', map_app. f_equal.
    destruct (key_eq k tls_key_json); [|exact Hx].
    destruct x; try exact Hx. cbn. destruct (String.eqb s "" || String.eqb s placeholder)%bool; reflexivity.
Qed.

(* for EVERY opaque value (any depth, any sharing among the live regions) and every next: the in-place redactor run on a
   deep copy writes only regions >= next, i.e. none of the live configuration *)
Theorem deep_copy_redaction_pure : forall next j, Forall (fun r => (next <= r)%N) (blank_inplace (copy_deep next j)).
Proof.
  intros next j. unfold copy_deep. rewrite blank_inplace_relabel. apply Forall_forall. intros r Hin.
  apply in_map_iff in Hin. destruct Hin as [r0 [E _]]. subst r. lia.
Qed.

(* the one-level copy is refuted: the key two levels down is written in a live region; a key at the top is not *)
Lemma top_copy_redaction_refuted :
  blank_inplace (copy_top 10 w_ev_nested) = [3%N] /\ blank_inplace (copy_top 10 w_ev_top) = [10%N] /\
  blank_inplace (copy_deep 10 w_ev_nested) = [13%N].
Proof. repeat split; vm_compute; reflexivity. Qed.
