(* The source switches as they are in the tree this development was proved against, as plain constants (NOT generated): the big
   reachability proofs are about [src_tree], so a change of a generated file does not invalidate them; Proofs/ProxyTree.v (tiny,
   depends on Gen/ProxyTokens.v) proves that the switches read from the source on this run are these. *)
From Coq Require Import ZArith.
From MV Require Import Model.Proxy.
Open Scope Z_scope.

Definition tree_reason_code (r : reason) : Z :=
  match r with
  | RsTermination => 500
  | RsConnFailed => 502
  | RsLocalReset => 502
  | RsOverflow => 503
  | RsRemoteReset => 502
  | RsUpstreamReset => 502
  | RsGlobalTimeout => 504
  | RsPerTryTimeout => 504
  | RsEmpty => 500
  end.

Definition src_tree : srcp :=
  {| loop_bound := 10; min_budget := 3; reset_guarded := true; direct_clears_again := true; direct_cancels_retry := true; direct_resets_upstream := true;
     put_resets_cursor := true; retry_checks_direct := true; retry_refinalizes := false;
     timers_reset_stream := true; hijack_clears_body := true; retry_clears_reuse := true;
     setupretry_clears_reuse := false; global_lost_cas_stops := true; append_error_continues := true;
     reset_excludes_global := true; reset_reads_status := false; res_counts_unlimited := true;
     send_once_per_upreq := false; started_marked_first := true; try_captures_id := true; global_captures_id := true; on_reset_checks_done := false; disable_retry_first := true; reason_code := tree_reason_code |}.
