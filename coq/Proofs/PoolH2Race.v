(* Proofs about Model/PoolH2Race.v: the state space of two concurrent NewStream calls racing with the close events of the
   connections they dial is finite; its reachable set is computed, checked closed under the steps of all four goroutines
   (vm_compute), and the property then holds after EVERY schedule (of any length) by Interleave.run_invariant.  A quiescent
   state is handed over to the atomic model (Proofs/PoolH2.v), whose invariant carries through every later history. *)
From Coq Require Import List ZArith Bool Arith Lia.
From MV Require Import Lib.Interleave Model.Pool Model.PoolH2 Model.PoolH2Race Proofs.PoolH2.
Import ListNotations.
Open Scope Z_scope.

Lemma rinstr_eqb_eq : forall a b, rinstr_eqb a b = true -> a = b.
Proof. destruct a, b; cbn; intros H; try discriminate; try reflexivity; apply Nat.eqb_eq in H; subst; reflexivity. Qed.

Lemma leqb_eq : forall A (e : A -> A -> bool), (forall x y, e x y = true -> x = y) ->
  forall a b, list_eqb e a b = true -> a = b.
Proof.
  intros A e He. induction a as [|x a IH]; destruct b as [|y b]; cbn; intros H; try discriminate; [reflexivity|].
  apply andb_true_iff in H. destruct H as [H1 H2]. f_equal; [apply He; assumption|apply IH; assumption].
Qed.

Lemma rsh_eqb_eq : forall a b, rsh_eqb a b = true -> a = b.
Proof.
  intros [m1 a1 b1 c1 d1 u1 g1] [m2 a2 b2 c2 d2 u2 g2]. unfold rsh_eqb. cbn. intros H.
  rewrite !andb_true_iff in H. destruct H as [[[[[[A B] C] D] E] F] G].
  apply eqb_prop in A, B, C, D, E. apply Nat.eqb_eq in F. apply Z.eqb_eq in G. subst. reflexivity.
Qed.

Lemma rcfg_eqb_eq : forall a b, rcfg_eqb a b = true -> a = b.
Proof.
  intros [t1 s1] [t2 s2]. unfold rcfg_eqb. cbn. intros H. apply andb_true_iff in H. destruct H as [H1 H2].
  f_equal; [|apply rsh_eqb_eq; assumption].
  apply (leqb_eq _ (list_eqb rinstr_eqb)); [|assumption]. apply leqb_eq. apply rinstr_eqb_eq.
Qed.

Lemma rmem_In : forall c l, rmem c l = true -> In c l.
Proof.
  intros c l H. unfold rmem in H. apply existsb_exists in H. destruct H as [d [H1 H2]].
  apply rcfg_eqb_eq in H2. subst. assumption.
Qed.

Lemma rclosed_step : forall idn c0 R, rclosed_check idn c0 R = true ->
  In c0 R /\ forall c k, In c R -> In (sched_step (rstep idn) c k) R.
Proof.
  intros idn c0 R H. unfold rclosed_check in H. apply andb_true_iff in H. destruct H as [H0 H].
  split; [apply rmem_In; assumption|]. rewrite forallb_forall in H.
  intros c k Hc. specialize (H c Hc). apply andb_true_iff in H. destruct H as [Hlen Hs].
  apply Nat.eqb_eq in Hlen. unfold rsucc in Hs. cbn [map forallb] in Hs.
  rewrite !andb_true_iff in Hs. destruct Hs as [S0 [S1 [S2 [S3 _]]]].
  destruct k as [|[|[|[|k]]]]; try (apply rmem_In; assumption).
  (* no such thread: a stutter *)
  unfold sched_step. destruct (fst c) as [|a [|b [|x [|y [|z l]]]]] eqn:E; cbn in Hlen; try discriminate. destruct k; cbn; assumption.
Qed.

Theorem rreach_every_schedule : forall idn (good : rcfg -> bool) c0,
  rclosed_check idn c0 (rreachable idn c0) = true -> forallb good (rreachable idn c0) = true ->
  forall sched, good (rrun idn sched c0) = true.
Proof.
  intros idn good c0 Hc Hg sched. destruct (rclosed_step idn c0 _ Hc) as [H0 Hstep].
  rewrite forallb_forall in Hg. apply Hg. unfold rrun.
  apply (run_invariant (rstep idn) (fun c => In c (rreachable idn c0))); [intros c k; apply Hstep|assumption].
Qed.

(* the dial under the pool mutex: after every schedule the gauge is not negative, and a quiescent pool's books are right -
   with or without the identity test in deleteActiveClient (two connections never coexist) *)
Theorem h2race_locked_safe : forall idn sched, race_good (rrun idn sched (race_cfg true)) = true.
Proof. intros [|]; apply rreach_every_schedule; vm_compute; reflexivity. Qed.

(* hand-over: the books of a quiescent state are the invariant of the atomic model *)
Lemma books_inv : forall s, books_ok s = true -> H2Inv (race_pool s).
Proof.
  intros s H. unfold books_ok in H. rewrite !andb_true_iff in H. destruct H as [[[Hg H0] H1] Hc].
  apply Z.eqb_eq in Hg. split; cbn.
  - rewrite Hg. destruct (r_open s 0), (r_open s 1); reflexivity.
  - intros c E. destruct (r_cur s) as [|i]; [discriminate|]. injection E as ->.
    apply andb_true_iff in Hc. destruct Hc as [Hlt Ho]. apply Nat.ltb_lt in Hlt. split; [assumption|]. rewrite Ho. reflexivity.
  - intros c Hlt Ho _. apply negb_false_iff in Ho.
    destruct c as [|[|c]]; [| |lia].
    + rewrite Ho in H0. cbn in H0. apply Nat.eqb_eq in H0. rewrite H0. reflexivity.
    + rewrite Ho in H1. cbn in H1. apply Nat.eqb_eq in H1. rewrite H1. reflexivity.
Qed.

(* every interleaving of the concurrent pair, then every later history of atomic operations *)
Theorem h2race_then_history : forall sw idn sched ops, h2_fixed sw = true ->
  let c := rrun idn sched (race_cfg true) in
  quiescent c = true ->
  let q := h2run sw ops (race_pool (snd c)) in
  h_active q = nopen (h_cl q) (h_n q) /\ 0 <= h_active q /\
  ((forall i, (i < h_n q)%nat -> h_closed (h_cl q i) = true) -> h_active q = 0) /\
  (forall i, (i < h_n q)%nat -> h_closed (h_cl q i) = false -> h_goaway (h_cl q i) = false -> h_cur q = Some i) /\
  (forall i, h_cur q = Some i -> (i < h_n q)%nat /\ h_closed (h_cl q i) = false).
Proof.
  intros sw idn sched ops Hf c Hq. apply h2_gauge_from; [assumption|]. apply books_inv.
  pose proof (h2race_locked_safe idn sched) as H. fold c in H. unfold race_good in H.
  apply andb_true_iff in H. destruct H as [_ H]. rewrite Hq in H. exact H.
Qed.

(* ---- the dial outside the mutex ------------------------------------------------------------------------- *)
Definition h2race_statement (dial_locked idn : bool) : Prop :=
  forall sched, race_good (rrun idn sched (race_cfg dial_locked)) = true.

(* without the identity test: the loser's close event clears the winner - an open connection that is nobody's shared
   client; under the accounting before the repair its GOAWAY + close then leaves the gauge at 1 with nothing open *)
Theorem h2race_unlocked_orphan : exists sched, let c := rrun false sched (race_cfg false) in
  quiescent c = true /\ r_open (snd c) 0 = true /\ r_cur (snd c) = 0%nat /\
  let q := h2run h2sw_old [HGoAway 0%nat; HClose 0%nat] (race_pool (snd c)) in
  h_active q = 1 /\ nopen (h_cl q) (h_n q) = 0.
Proof. exists [0;0;0;0;0;1;1;1;1;1;0;0;0;1;1;1;1;3;3;3;3]%nat. vm_compute. repeat split; reflexivity. Qed.

Theorem h2race_unlocked_noidentity_refuted : ~ h2race_statement false false.
Proof.
  intros H. specialize (H [0;0;0;0;0;1;1;1;1;1;0;0;0;1;1;1;1;3;3;3;3]%nat). vm_compute in H. discriminate.
Qed.

(* with the identity test: a connection that closes between the unlocked dial and the publish is published as the shared
   client although it is closed (and the gauge is transiently negative) *)
Theorem h2race_unlocked_identity_refuted : ~ h2race_statement false true.
Proof.
  intros H. specialize (H [0;0;0;0;0;2;2;2;2;0;0;0;1;1;1]%nat). vm_compute in H. discriminate.
Qed.
Theorem h2race_unlocked_closed_published : exists sched, let c := rrun true sched (race_cfg false) in
  quiescent c = true /\ r_cur (snd c) = 1%nat /\ r_closed (snd c) 0 = true.
Proof. exists [0;0;0;0;0;2;2;2;2;0;0;0;1;1;1]%nat. vm_compute. repeat split; reflexivity. Qed.
