(* Proofs/HpackStable.v (group h2): prefix stability of the HPACK representation parser: a representation parsed
   (or rejected) from a buffer is parsed (rejected) identically when more bytes follow; hence a proper prefix of a
   valid representation always yields "need more".  Used for header blocks split over CONTINUATION frames. *)
From Coq Require Import List NArith Arith Lia Bool.
From Coq Require Import ZifyBool ZifyNat ZifyN.
From MV Require Import Lib.HBits Gen.HpackTables Gen.H2Src Model.Hpack
  Proofs.HpackInt Proofs.HpackHuffman Proofs.HpackString Proofs.HpackRepr Proofs.HpackTotal.
Import ListNotations.
Open Scope N_scope.

(* "the same result, with e appended to the unparsed rest" *)
Definition ext_int (r : hout (N * bytes)) (e : bytes) : hout (N * bytes) :=
  match r with HOk (v, rest) => HOk (v, rest ++ e) | x => x end.

Lemma dec_cont_app : forall p e i m, dec_cont p i m <> HNeedMore ->
  dec_cont (p ++ e) i m = ext_int (dec_cont p i m) e.
Proof.
  induction p as [|b p IH]; intros e i m H; cbn [dec_cont] in *; [contradiction H; reflexivity|].
  cbn [app dec_cont].
  destruct (b <? 128); [reflexivity|].
  destruct (63 <=? m + 7); [reflexivity|]. apply IH. exact H.
Qed.

Lemma dec_int_app : forall n p e, dec_int n p <> HNeedMore ->
  dec_int n (p ++ e) = ext_int (dec_int n p) e.
Proof.
  intros n p e H. unfold dec_int in *.
  destruct ((n <? 1) || (8 <? n)); [reflexivity|].
  destruct p as [|b p]; [contradiction H; reflexivity|]. cbn [app].
  destruct (b mod 2 ^ n <? 2 ^ n - 1); [reflexivity|]. apply dec_cont_app. exact H.
Qed.

Definition ext_str (r : hout (bytes * bytes)) (e : bytes) : hout (bytes * bytes) :=
  match r with HOk (s, rest) => HOk (s, rest ++ e) | x => x end.

Lemma dec_string_app : forall maxstr want p e, dec_string maxstr want p <> HNeedMore ->
  dec_string maxstr want (p ++ e) = ext_str (dec_string maxstr want p) e.
Proof.
  intros maxstr want p e H. unfold dec_string in *.
  destruct p as [|b0 p']; [contradiction H; reflexivity|]. cbn [app].
  change (b0 :: p' ++ e) with ((b0 :: p') ++ e).
  destruct (dec_int 7 (b0 :: p')) as [[slen p1]| |er| |] eqn:E.
  - rewrite dec_int_app by (rewrite E; discriminate). rewrite E. cbn [ext_int hbind fst snd] in *.
    destruct (negb (maxstr =? 0) && (maxstr <? slen)); [reflexivity|].
    destruct (len p1 <? slen) eqn:El; [contradiction H; reflexivity|].
    assert (El' : (len (p1 ++ e) <? slen) = false) by (rewrite len_app; lia). rewrite El'.
    unfold slice_to, slice_from in *.
    assert (Hle : (slen <=? len p1) = true) by lia. rewrite Hle in *.
    assert (Hle' : (slen <=? len (p1 ++ e)) = true) by (rewrite len_app; lia). rewrite Hle'.
    cbn [hbind] in *.
    assert (Hf : firstn (N.to_nat slen) (p1 ++ e) = firstn (N.to_nat slen) p1).
    { rewrite firstn_app. replace (N.to_nat slen - length p1)%nat with 0%nat by (unfold len in Hle; lia). cbn [firstn]. apply app_nil_r. }
    assert (Hs : skipn (N.to_nat slen) (p1 ++ e) = skipn (N.to_nat slen) p1 ++ e).
    { rewrite skipn_app. replace (N.to_nat slen - length p1)%nat with 0%nat by (unfold len in Hle; lia). reflexivity. }
    rewrite Hf, Hs.
    destruct (negb (128 <=? b0)); [reflexivity|].
    destruct want; [|reflexivity].
    destruct (huff_decode maxstr (firstn (N.to_nat slen) p1)); reflexivity.
  - contradiction H. reflexivity.
  - rewrite dec_int_app by (rewrite E; discriminate). rewrite E. reflexivity.
  - rewrite dec_int_app by (rewrite E; discriminate). rewrite E. reflexivity.
  - rewrite dec_int_app by (rewrite E; discriminate). rewrite E. reflexivity.
Qed.

Definition ext_pres (r : hout pres) (e : bytes) : hout pres :=
  match r with HOk (st, em, rest) => HOk (st, em, rest ++ e) | x => x end.

Lemma call_emit_app : forall st f rest e, call_emit st f (rest ++ e) = ext_pres (call_emit st f rest) e.
Proof. intros. unfold call_emit. destruct (_ && _); reflexivity. Qed.

Lemma parse_indexed_app : forall st p e, parse_indexed st p <> HNeedMore ->
  parse_indexed st (p ++ e) = ext_pres (parse_indexed st p) e.
Proof.
  intros st p e H. unfold parse_indexed in *.
  destruct (dec_int 7 p) as [[i p1]| |er| |] eqn:E; try (contradiction H; reflexivity);
    rewrite dec_int_app by (rewrite E; discriminate); rewrite E; cbn [ext_int hbind fst snd]; try reflexivity.
  destruct (tab_at (d_tab st) i) as [[en|]| |er| |]; cbn [hbind]; try reflexivity.
  apply call_emit_app.
Qed.

Lemma parse_literal_app : forall k st p e, parse_literal k st p <> HNeedMore ->
  parse_literal k st (p ++ e) = ext_pres (parse_literal k st p) e.
Proof.
  intros k st p e H. unfold parse_literal in *.
  destruct (dec_int (kind_prefix k) p) as [[i p1]| |er| |] eqn:E; try (contradiction H; reflexivity);
    rewrite dec_int_app by (rewrite E; discriminate); rewrite E; cbn [ext_int hbind fst snd] in *; try reflexivity.
  set (want := d_emit st || kind_indexed k) in *.
  (* the name *)
  assert (Hname : forall (X : hout (bytes * bytes)) , True) by (intros; exact I). clear Hname.
  destruct (0 <? i).
  - destruct (tab_at (d_tab st) i) as [[en|]| |er| |]; cbn [hbind fst snd] in *; try reflexivity.
    destruct (dec_string (d_maxstr st) want p1) as [[v p2]| |er| |] eqn:Ev; try (contradiction H; reflexivity);
      rewrite dec_string_app by (rewrite Ev; discriminate); rewrite Ev; cbn [ext_str hbind fst snd]; try reflexivity.
    apply call_emit_app.
  - destruct (dec_string (d_maxstr st) want p1) as [[n p2]| |er| |] eqn:En; try (contradiction H; reflexivity);
      rewrite dec_string_app by (rewrite En; discriminate); rewrite En; cbn [ext_str hbind fst snd] in *; try reflexivity.
    destruct (dec_string (d_maxstr st) want p2) as [[v p3]| |er| |] eqn:Ev; try (contradiction H; reflexivity);
      rewrite dec_string_app by (rewrite Ev; discriminate); rewrite Ev; cbn [ext_str hbind fst snd]; try reflexivity.
    apply call_emit_app.
Qed.

Lemma parse_size_update_app : forall st p e, parse_size_update st p <> HNeedMore ->
  parse_size_update st (p ++ e) = ext_pres (parse_size_update st p) e.
Proof.
  intros st p e H. unfold parse_size_update in *.
  destruct (negb (d_first st) && (0 <? dt_size (d_tab st))); [reflexivity|].
  destruct (dec_int 5 p) as [[i p1]| |er| |] eqn:E; try (contradiction H; reflexivity);
    rewrite dec_int_app by (rewrite E; discriminate); rewrite E; cbn [ext_int hbind fst snd]; try reflexivity.
  destruct (dt_allowed (d_tab st) <? i); reflexivity.
Qed.

(* prefix stability of parseHeaderFieldRepr *)
Theorem parse_repr_app : forall st p e, p <> [] -> parse_repr st p <> HNeedMore ->
  parse_repr st (p ++ e) = ext_pres (parse_repr st p) e.
Proof.
  intros st p e Hne H. unfold parse_repr in *. destruct p as [|b tl]; [contradiction|]. cbn [app].
  change (b :: tl ++ e) with ((b :: tl) ++ e).
  destruct (128 <=? b); [apply parse_indexed_app; exact H|].
  destruct (64 <=? b); [apply parse_literal_app; exact H|].
  destruct (b <? 16); [apply parse_literal_app; exact H|].
  destruct (b <? 32); [apply parse_literal_app; exact H|].
  destruct (b <? 64); [apply parse_size_update_app; exact H | reflexivity].
Qed.

(* a proper, non-empty prefix of a representation that parses completely yields "need more" *)
Theorem parse_repr_prefix_needmore : forall st a c tail st' em,
  a <> [] -> c <> [] ->
  parse_repr st (a ++ c ++ tail) = HOk (st', em, tail) ->
  parse_repr st a = HNeedMore.
Proof.
  intros st a c tail st' em Ha Hc H.
  destruct (parse_repr st a) as [[[s1 e1] r1]| |er| |] eqn:E; try reflexivity.
  - rewrite parse_repr_app in H by (try exact Ha; rewrite E; discriminate). rewrite E in H. cbn [ext_pres] in H.
    inversion H as [[H1 H2 H3]]. apply (f_equal (@length N)) in H3. rewrite !app_length in H3.
    destruct c; [contradiction | cbn [length] in H3; lia].
  - rewrite parse_repr_app in H by (try exact Ha; rewrite E; discriminate). rewrite E in H. discriminate.
  - destruct (parse_repr_good st a Ha) as [Hp _]. contradiction.
  - destruct (parse_repr_good st a Ha) as [_ Hf]. contradiction.
Qed.
