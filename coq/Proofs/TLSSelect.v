(* Proofs about Model/TLSSelect.v (property C13). *)
From Coq Require Import List String Ascii Bool Arith NArith Lia.
From MV Require Import Model.TLSSelect.
Import ListNotations.
Open Scope string_scope.

(* ------------------------------------------------------------------ find_index *)
Lemma find_index_ext {A} (f g : A -> bool) l i :
  (forall x, In x l -> f x = g x) -> find_index f l i = find_index g l i.
Proof.
  revert i; induction l as [|x l IH]; intros i H; cbn [find_index]; [reflexivity|].
  rewrite (H x (or_introl eq_refl)). destruct (g x); [reflexivity|].
  apply IH. intros y Hy. apply H. right; exact Hy.
Qed.

Lemma find_index_none {A} (f : A -> bool) l i :
  find_index f l i = None <-> (forall x, In x l -> f x = false).
Proof.
  revert i; induction l as [|x l IH]; intros i; cbn [find_index].
  - split; [intros _ y []|reflexivity].
  - destruct (f x) eqn:E.
    + split; [discriminate|]. intros H. rewrite (H x (or_introl eq_refl)) in E. discriminate.
    + rewrite IH. split.
      * intros H y [<-|Hy]; [exact E|apply H; exact Hy].
      * intros H y Hy. apply H. right; exact Hy.
Qed.

(* the index found is the FIRST position satisfying f *)
Lemma find_index_some {A} (f : A -> bool) l i k :
  find_index f l i = Some k ->
  exists j x, k = i + j /\ nth_error l j = Some x /\ f x = true /\
              (forall j' y, j' < j -> nth_error l j' = Some y -> f y = false).
Proof.
  revert i; induction l as [|x l IH]; intros i H; cbn [find_index] in H; [discriminate|].
  destruct (f x) eqn:E.
  - injection H as <-. exists 0, x. repeat split; [lia|exact E|]. intros j' y Hj; lia.
  - destruct (IH _ H) as (j & y & -> & Hn & Hf & Hmin).
    exists (S j), y. repeat split; [lia|exact Hn|exact Hf|].
    intros j' z Hj Hz. destruct j' as [|j']; cbn in Hz.
    + injection Hz as <-. exact E.
    + apply (Hmin j' z); [lia|exact Hz].
Qed.

(* ------------------------------------------------------------------ the loop is the precedence rule *)
Definition precedence_from (nm am : provider -> bool) (ps : list provider) (i : nat) (dflt fa : option nat) : option nat :=
  match find_index (fun p => andb (p_ready p) (nm p)) ps i with
  | Some j => Some j
  | None =>
      match fa with
      | Some a => Some a
      | None =>
          match find_index (fun p => andb (p_ready p) (am p)) ps i with
          | Some j => Some j
          | None => match dflt with Some d => Some d | None => find_index p_ready ps i end
          end
      end
  end.

Lemma select_go_precedence nm am ps : forall i dflt fa,
  select_go nm am ps i dflt fa = precedence_from nm am ps i dflt fa.
Proof.
  induction ps as [|p ps IH]; intros i dflt fa; unfold precedence_from; cbn [select_go find_index].
  - destruct fa; [reflexivity|]. destruct dflt; reflexivity.
  - destruct (p_ready p) eqn:Er; cbn [negb andb].
    + destruct (nm p) eqn:En; [reflexivity|].
      rewrite IH. unfold precedence_from.
      destruct (find_index (fun q => andb (p_ready q) (nm q)) ps (S i)); [reflexivity|].
      destruct fa as [a|]; [reflexivity|].
      destruct (am p) eqn:Ea; [reflexivity|].
      destruct (find_index (fun q => andb (p_ready q) (am q)) ps (S i)); [reflexivity|].
      destruct dflt; reflexivity.
    + rewrite IH. reflexivity.
Qed.

Lemma select_is_precedence lk mixed white ps sni protos :
  select lk mixed white ps sni protos =
  precedence (fun p => code_name_match lk mixed white p sni) (fun p => code_alpn_match lk mixed white p protos) ps.
Proof. unfold select. rewrite select_go_precedence. reflexivity. Qed.

Lemma precedence_ext nm am nm' am' ps :
  (forall p, In p ps -> p_ready p = true -> nm p = nm' p /\ am p = am' p) ->
  precedence nm am ps = precedence nm' am' ps.
Proof.
  intros H. unfold precedence.
  rewrite (find_index_ext (fun p => andb (p_ready p) (nm p)) (fun p => andb (p_ready p) (nm' p))).
  2:{ intros p Hp. destruct (p_ready p) eqn:E; [|reflexivity]. cbn. apply H; assumption. }
  rewrite (find_index_ext (fun p => andb (p_ready p) (am p)) (fun p => andb (p_ready p) (am' p))).
  2:{ intros p Hp. destruct (p_ready p) eqn:E; [|reflexivity]. cbn. apply H; assumption. }
  reflexivity.
Qed.

(* what `precedence` means, stated without find_index *)
Definition first_ready_with (f : provider -> bool) (ps : list provider) (i : nat) : Prop :=
  exists p, nth_error ps i = Some p /\ p_ready p = true /\ f p = true /\
            forall j q, j < i -> nth_error ps j = Some q -> p_ready q = true -> f q = false.
Definition no_ready_with (f : provider -> bool) (ps : list provider) : Prop :=
  forall q, In q ps -> p_ready q = true -> f q = false.

Lemma find_ready_with f ps i :
  find_index (fun p => andb (p_ready p) (f p)) ps 0 = Some i -> first_ready_with f ps i.
Proof.
  intros H. destruct (find_index_some _ _ _ _ H) as (j & p & -> & Hn & Hf & Hmin).
  apply andb_true_iff in Hf as [Hr Hf]. exists p. cbn. repeat split; try assumption.
  intros j' q Hj Hq Hrq. specialize (Hmin j' q Hj Hq). rewrite Hrq in Hmin. exact Hmin.
Qed.

Lemma find_ready_none f ps :
  find_index (fun p => andb (p_ready p) (f p)) ps 0 = None -> no_ready_with f ps.
Proof.
  intros H q Hq Hr. apply (proj1 (find_index_none _ _ _) H) in Hq. rewrite Hr in Hq. exact Hq.
Qed.

Lemma precedence_meaning nm am ps :
  match precedence nm am ps with
  | Some i =>
         first_ready_with nm ps i
      \/ (no_ready_with nm ps /\ first_ready_with am ps i)
      \/ (no_ready_with nm ps /\ no_ready_with am ps /\ first_ready_with (fun _ => true) ps i)
  | None => forall q, In q ps -> p_ready q = false
  end.
Proof.
  unfold precedence.
  destruct (find_index (fun p => andb (p_ready p) (nm p)) ps 0) as [i|] eqn:E1.
  { left. apply find_ready_with. exact E1. }
  pose proof (find_ready_none _ _ E1) as N1.
  destruct (find_index (fun p => andb (p_ready p) (am p)) ps 0) as [i|] eqn:E2.
  { right; left. split; [exact N1|]. apply find_ready_with. exact E2. }
  pose proof (find_ready_none _ _ E2) as N2.
  destruct (find_index p_ready ps 0) as [i|] eqn:E3.
  - right; right. split; [exact N1|]. split; [exact N2|].
    apply find_ready_with. rewrite <- E3. apply find_index_ext. intros x _. rewrite andb_true_r. reflexivity.
  - intros q Hq. exact (proj1 (find_index_none _ _ _) E3 q Hq).
Qed.

(* ------------------------------------------------------------------ membership *)
Lemma mem_app x (a b : list string) : mem x (a ++ b) = orb (mem x a) (mem x b).
Proof. unfold mem. apply existsb_app. Qed.

Lemma mem_In x l : mem x l = true <-> In x l.
Proof.
  unfold mem. rewrite existsb_exists. split.
  - intros (y & Hy & E). apply String.eqb_eq in E. subst. exact Hy.
  - intros H. exists x. split; [exact H|apply String.eqb_refl].
Qed.

Lemma existsb_ext_in {A} (f g : A -> bool) l :
  (forall x, In x l -> f x = g x) -> existsb f l = existsb g l.
Proof.
  induction l as [|x l IH]; intros H; cbn; [reflexivity|].
  rewrite (H x (or_introl eq_refl)). f_equal. apply IH. intros y Hy. apply H. right; exact Hy.
Qed.

(* ------------------------------------------------------------------ the mixed set versus the separate sets *)
Lemma match_set_split white p :
  match_set true white p = (map lower (cert_names p) ++ spec_alpn white p ++ [lower (p_sname p)])%list.
Proof. unfold match_set, spec_alpn, key. rewrite !map_app. reflexivity. Qed.

Lemma spec_names_true p : spec_names true p = (map lower (cert_names p) ++ [lower (p_sname p)])%list.
Proof. unfold spec_names. cbn [negb andb]. rewrite map_app. reflexivity. Qed.

Lemma mem_match_set white p k :
  mem k (match_set true white p) = orb (mem k (spec_names true p)) (mem k (spec_alpn white p)).
Proof.
  rewrite match_set_split, spec_names_true, !mem_app.
  destruct (mem k (map lower (cert_names p))), (mem k (spec_alpn white p)), (mem k [lower (p_sname p)]); reflexivity.
Qed.

Lemma no_clash_name white p sni protos :
  no_clash_p white sni protos p = true ->
  code_name_match true true white p sni = spec_name_match true p sni.
Proof.
  intros H. unfold no_clash_p in H. apply andb_true_iff in H as [H _].
  unfold code_name_match, spec_name_match, matched_server_name.
  apply existsb_ext_in. intros k Hk. rewrite mem_match_set.
  rewrite forallb_forall in H. specialize (H k Hk).
  destruct (mem k (spec_alpn white p)), (mem k (spec_names true p)); cbn in *; congruence.
Qed.

Lemma no_clash_alpn white p sni protos :
  no_clash_p white sni protos p = true ->
  code_alpn_match true true white p protos = spec_alpn_match white p protos.
Proof.
  intros H. unfold no_clash_p in H. apply andb_true_iff in H as [_ H].
  unfold code_alpn_match, spec_alpn_match, matched_alpn.
  apply existsb_ext_in. intros q Hq. rewrite mem_match_set.
  rewrite forallb_forall in H. specialize (H q Hq).
  destruct (mem (lower q) (spec_alpn white p)), (mem (lower q) (spec_names true p)); cbn in *; congruence.
Qed.

(* MAIN: under the side condition the code computes the documented precedence *)
Theorem select_spec white ps sni protos :
  no_clash white ps sni protos = true ->
  select true true white ps sni protos = spec_select true white ps sni protos.
Proof.
  intros H. rewrite select_is_precedence. unfold spec_select. apply precedence_ext.
  intros p Hp Hr. unfold no_clash in H. rewrite forallb_forall in H. specialize (H p Hp).
  rewrite Hr in H. cbn in H. split; [eapply no_clash_name|eapply no_clash_alpn]; exact H.
Qed.

(* with two separate sets (the repaired shape) no side condition is needed *)
Theorem select_spec_separate white ps sni protos :
  select true false white ps sni protos = spec_select true white ps sni protos.
Proof. rewrite select_is_precedence. reflexivity. Qed.

(* ------------------------------------------------------------------ non-empty SNI: both readings of an unset server_name agree *)
Lemma append_nonempty a b : a <> "" -> (a ++ b) <> "".
Proof. destruct a; [congruence|]. cbn. discriminate. Qed.

Lemma wild_candidates_nonempty ls k : In k (wild_candidates ls) -> k <> "".
Proof.
  induction ls as [|l rest IH]; cbn [wild_candidates]; [intros []|].
  destruct rest as [|r rest']; [intros []|].
  intros [<-|H]; [|apply IH; exact H].
  cbn [join_dot]. discriminate.
Qed.

Lemma lookup_keys_nonempty sni k : normalize sni <> "" -> In k (lookup_keys sni) -> k <> "".
Proof.
  intros Hn [<-|H]; [exact Hn|]. eapply wild_candidates_nonempty; exact H.
Qed.

Lemma lower_empty s : lower s = "" -> s = "".
Proof. destruct s; [reflexivity|discriminate]. Qed.

Lemma mem_spec_names_lit p k : k <> "" -> mem k (spec_names false p) = mem k (spec_names true p).
Proof.
  intros Hk. unfold spec_names. cbn [negb andb].
  destruct (is_empty (p_sname p)) eqn:E; [|reflexivity].
  destruct (p_sname p); [|discriminate]. rewrite !map_app, !mem_app. cbn.
  destruct (String.eqb_spec k ""); [contradiction|]. reflexivity.
Qed.

Theorem spec_select_lit_irrelevant white ps sni protos :
  normalize sni <> "" -> spec_select false white ps sni protos = spec_select true white ps sni protos.
Proof.
  intros Hn. unfold spec_select. apply precedence_ext. intros p _ _. split; [|reflexivity].
  unfold spec_name_match, matched_server_name. apply existsb_ext_in. intros k Hk.
  apply mem_spec_names_lit. eapply lookup_keys_nonempty; eassumption.
Qed.

(* ------------------------------------------------------------------ wildcard characterisation *)
Fixpoint dot_suffix_cands (s : string) : list string :=
  match s with
  | EmptyString => []
  | String c s' => if Ascii.eqb c "." then ("*." ++ s') :: dot_suffix_cands s' else dot_suffix_cands s'
  end.

Lemma split_dot_nonnil s : split_dot s <> [].
Proof.
  induction s as [|c s IH]; cbn [split_dot]; [discriminate|].
  destruct (Ascii.eqb c "."); [discriminate|]. destruct (split_dot s); [discriminate|discriminate].
Qed.

Lemma join_split s : join_dot (split_dot s) = s.
Proof.
  induction s as [|c s IH]; cbn [split_dot]; [reflexivity|].
  destruct (Ascii.eqb_spec c ".") as [->|Hc].
  - pose proof (split_dot_nonnil s) as Hn.
    cbn [join_dot]. destruct (split_dot s) as [|l ls]; [congruence|]. rewrite IH. reflexivity.
  - pose proof (split_dot_nonnil s) as Hn.
    destruct (split_dot s) as [|l ls]; [congruence|].
    cbn [join_dot] in *. destruct ls as [|l2 ls']; cbn; rewrite <- IH; reflexivity.
Qed.

Lemma wild_candidates_head x y ls : wild_candidates (x :: ls) = wild_candidates (y :: ls).
Proof. reflexivity. Qed.

Lemma wild_is_dot_suffix s : wild_candidates (split_dot s) = dot_suffix_cands s.
Proof.
  induction s as [|c s IH]; cbn [split_dot dot_suffix_cands]; [reflexivity|].
  pose proof (split_dot_nonnil s) as Hn. pose proof (join_split s) as Hj.
  destruct (Ascii.eqb c ".").
  - destruct (split_dot s) as [|l ls] eqn:E; [congruence|].
    change (wild_candidates ("" :: l :: ls)) with (join_dot ("*" :: l :: ls) :: wild_candidates (l :: ls)).
    rewrite IH. f_equal.
    change (join_dot ("*" :: l :: ls)) with ("*" ++ "." ++ join_dot (l :: ls)). rewrite Hj. reflexivity.
  - destruct (split_dot s) as [|l ls] eqn:E; [congruence|].
    rewrite (wild_candidates_head (String c l) l ls). exact IH.
Qed.

Lemma dot_suffix_cands_spec s k :
  In k (dot_suffix_cands s) <-> exists pre suf, s = pre ++ "." ++ suf /\ k = "*." ++ suf.
Proof.
  induction s as [|c s IH]; cbn [dot_suffix_cands].
  - split; [intros []|]. intros (pre & suf & H & _). destruct pre; discriminate.
  - destruct (Ascii.eqb_spec c ".") as [->|Hc].
    + split.
      * intros [<-|H].
        -- exists "", s. split; reflexivity.
        -- apply IH in H as (pre & suf & -> & ->). exists (String "." pre), suf. split; reflexivity.
      * intros (pre & suf & H & ->). destruct pre as [|a pre]; cbn in H.
        -- injection H as <-. left; reflexivity.
        -- injection H as _ ->. right. apply IH. exists pre, suf. split; reflexivity.
    + rewrite IH. split.
      * intros (pre & suf & -> & ->). exists (String c pre), suf. split; reflexivity.
      * intros (pre & suf & H & ->). destruct pre as [|a pre]; cbn in H.
        -- injection H as E _. congruence.
        -- injection H as _ ->. exists pre, suf. split; reflexivity.
Qed.

(* MatchedServerName(set, sni) holds exactly when the normalised SNI is in the set, or the set holds
   "*." ++ suf for some way of writing the normalised SNI as pre ++ "." ++ suf *)
Theorem wildcard_characterisation set sni :
  matched_server_name set sni = true <->
  (In (normalize sni) set \/
   exists pre suf, normalize sni = pre ++ "." ++ suf /\ In ("*." ++ suf) set).
Proof.
  unfold matched_server_name, lookup_keys. cbn [existsb]. rewrite orb_true_iff, mem_In, existsb_exists.
  rewrite wild_is_dot_suffix. split.
  - intros [H|(k & Hk & Hm)]; [left; exact H|]. right.
    apply dot_suffix_cands_spec in Hk as (pre & suf & E & ->). apply mem_In in Hm. exists pre, suf. split; assumption.
  - intros [H|(pre & suf & E & Hm)]; [left; exact H|]. right.
    exists ("*." ++ suf). split; [|apply mem_In; exact Hm].
    apply dot_suffix_cands_spec. exists pre, suf. split; [exact E|reflexivity].
Qed.

(* normalisation: result is lower-case-stable and has no trailing dot *)
Lemma strip_dots_no_trailing s : forall t, strip_dots s <> t ++ ".".
Proof.
  induction s as [|c s IH]; intros t; cbn [strip_dots].
  - destruct t; discriminate.
  - destruct (is_empty (strip_dots s)) eqn:Ee; cbn [andb].
    + destruct (Ascii.eqb_spec c ".") as [->|Hc].
      * destruct t; discriminate.
      * destruct (strip_dots s); [|discriminate]. destruct t as [|a t]; cbn.
        -- intros H. injection H as H. congruence.
        -- destruct t; discriminate.
    + destruct t as [|a t]; cbn.
      * intros H. injection H as _ H. rewrite H in Ee. discriminate.
      * intros H. injection H as _ H. exact (IH t H).
Qed.

(* ------------------------------------------------------------------ client authentication *)
Theorem client_auth_table rq vf r :
  accepts (client_auth rq vf) r = true <->
  (vf = false \/ r = PeerRightCA \/ (rq = false /\ r = PeerNone)).
Proof.
  destruct rq, vf, r; cbn; split; intros H; try reflexivity; try discriminate;
    try (left; reflexivity); try (right; left; reflexivity); try (right; right; split; reflexivity);
    destruct H as [H|[H|[H1 H2]]]; discriminate.
Qed.

Theorem require_verify_only_right_ca r :
  accepts (client_auth true true) r = true <-> r = PeerRightCA.
Proof. destruct r; cbn; split; intros H; try reflexivity; discriminate. Qed.

Theorem upstream_table sk r n :
  upstream_accepts sk r n = true <-> (sk = true \/ (r = PeerRightCA /\ n = true)).
Proof.
  destruct sk, r, n; cbn; split; intros H; try reflexivity; try discriminate;
    try (left; reflexivity); try (right; split; reflexivity);
    destruct H as [H|[H1 H2]]; discriminate.
Qed.

(* every dimension of the upstream side: unless insecure_skip, a handshake completes iff the presented certificate was
   issued by the CONFIGURED CA, is not expired, and server_name is set and matches *)
Theorem upstream_full_table sk ca i ex n :
  upstream_handshake sk ca i ex n = true <->
  (sk = true \/ (issued_by_configured_ca ca i = true /\ ex = false /\ n = NameMatches)).
Proof.
  destruct sk, ca, i, ex, n; cbn; split; intros H; try reflexivity; try discriminate;
    try (left; reflexivity); try (right; repeat split; reflexivity);
    destruct H as [H|(H1 & H2 & H3)]; discriminate.
Qed.

(* in particular: with no CA configured (nil pool = the host's roots) nothing a test CA issued is accepted *)
Theorem upstream_no_ca_accepts_nothing sk ca i ex n :
  (ca = CaNone \/ ca = CaSdsNoValidation) -> sk = false -> upstream_handshake sk ca i ex n = false.
Proof. intros [-> | ->] ->; destruct i, ex, n; reflexivity. Qed.

(* ------------------------------------------------------------------ inspector *)
Theorem inspector_plain insp b :
  serves_plain (conn_mode_of true true insp b) = true <-> (insp = true /\ b <> 22%N).
Proof.
  unfold conn_mode_of. cbn [negb]. destruct insp; cbn [negb].
  - destruct (N.eqb_spec b 22); cbn; split.
    + discriminate.
    + intros [_ H]. contradiction.
    + intros _. split; [reflexivity|assumption].
    + reflexivity.
  - cbn. split; [discriminate|intros [H _]; discriminate].
Qed.

Theorem not_ready_is_raw tcp insp b : conn_mode_of tcp false insp b = ModeRaw.
Proof. unfold conn_mode_of. destruct tcp; reflexivity. Qed.

(* ------------------------------------------------------------------ the manager in force after an update history *)
Lemma manager_after_last cur h c : manager_after false cur (h ++ [c]) = Some c.
Proof.
  revert cur; induction h as [|x h IH]; intros cur; cbn [app manager_after].
  - destruct cur; reflexivity.
  - apply IH.
Qed.

(* without caching the manager in force is the one built from the LAST configuration, whatever came before *)
Theorem inspector_after_updates h ctxs insp b :
  ctxs <> [] ->
  (match mode_after false (h ++ [(ctxs, insp)]) b with
   | Some m => serves_plain m = true <-> (insp = true /\ b <> 22%N)
   | None => False
   end).
Proof.
  intros Hc. unfold mode_after. rewrite manager_after_last.
  destruct ctxs as [|x xs]; [congruence|]. cbn [negb]. apply inspector_plain.
Qed.

(* ------------------------------------------------------------------ a running listener after AddOrUpdateListener calls *)
Lemma lis_after_last cur h c : lis_after true true cur (h ++ [c]) = Some (mkLR (built c) c).
Proof.
  revert cur; induction h as [|x h IH]; intros cur; cbn [app lis_after].
  - destruct cur; cbn [lis_update]; destruct c; reflexivity.
  - apply IH.
Qed.

(* the manager in force on the running listener is the one built from the LAST request, and so is the stored config *)
Theorem listener_policy_is_latest h c : lis_after true true None (h ++ [c]) = Some (mkLR (built c) c).
Proof. apply lis_after_last. Qed.

Theorem listener_inspector_after_updates h ctxs insp b :
  ctxs <> [] ->
  (match lis_mode_after true true (h ++ [(ctxs, insp)]) b with
   | Some m => serves_plain m = true <-> (insp = true /\ b <> 22%N)
   | None => False
   end).
Proof.
  intros Hc. unfold lis_mode_after. rewrite lis_after_last. cbn [lr_mgr built fst snd].
  destruct ctxs as [|x xs]; [congruence|]. cbn [negb]. apply inspector_plain.
Qed.

Theorem listener_observe_latest h ctxs insp x :
  lis_observe true true (h ++ [(x :: ctxs, insp)]) = Some (insp, x).
Proof.
  unfold lis_observe, lis_mode_after. rewrite lis_after_last. cbn [lr_mgr built fst snd negb hd].
  unfold conn_mode_of. cbn [negb]. destruct insp; reflexivity.
Qed.

(* ------------------------------------------------------------------ the context of an SDS provider is the latest one *)
Definition sp_latest (p : sprov) : Prop :=
  match sp_cert p, sp_ca p with
  | Some c, Some a => sp_ctx p = Some (mkSX c a (sp_cfg p))
  | _, _ => sp_ctx p = None
  end.

Lemma sp_step_latest p e : sp_latest p -> sp_latest (sp_step true p e).
Proof.
  intros H. unfold sp_latest in *. destruct p as [pc pa cfg ctx]; cbn in H.
  destruct e as [c|a|c]; unfold sp_step, sp_update; cbn;
    destruct pc as [pc|], pa as [pa|]; cbn in *; try (destruct ctx; reflexivity); try exact H; subst; reflexivity.
Qed.

Theorem sds_context_is_latest cfg0 h : sp_latest (provider_after true cfg0 h).
Proof.
  unfold provider_after.
  assert (H0 : sp_latest (sp_update true (mkSP None None cfg0 None))) by reflexivity.
  revert H0. generalize (sp_update true (mkSP None None cfg0 None)).
  induction h as [|e h IH]; intros p Hp; cbn [fold_left]; [exact Hp|].
  apply IH. apply sp_step_latest. exact Hp.
Qed.

(* ------------------------------------------------------------------ file-backed material: independence from earlier applications *)
Lemma policy_from_last cache cur h a :
  policy_from false cache cur (h ++ [a]) = Some (fget (fa_files a) (fa_ca a), fget (fa_files a) (fa_cert a)).
Proof.
  revert cache cur; induction h as [|x h IH]; intros cache cur; cbn [app policy_from apply_cfg]; [reflexivity|apply IH].
Qed.

(* the policy in force after the k-th application is a function of the k-th configuration and the file contents at that
   application alone *)
Theorem policy_is_latest h a :
  policy_after false (h ++ [a]) = Some (fget (fa_files a) (fa_ca a), fget (fa_files a) (fa_cert a)).
Proof. apply policy_from_last. Qed.

Corollary policy_independent_of_history h h' a : policy_after false (h ++ [a]) = policy_after false (h' ++ [a]).
Proof. rewrite !policy_is_latest. reflexivity. Qed.
