(* Proofs about Model/Relay.v, part 2: whole runs, c01_relay_identity, the doRead-level statements. *)
From Coq Require Import List NArith Bool Lia.
From MV Require Import Model.Relay Proofs.RelayInv.
Import ListNotations.

(* ------------------------------------------------------------------ whole runs *)
Definition Inv (s : st) : Prop :=
  Inv2 (s_d s) (s_u s) /\ (s_tried s = false -> s_d s = conn0 false /\ s_u s = conn0 false).

Lemma inv2_conn0 (a b : bool) : Inv2 (conn0 a) (conn0 b).
Proof.
  unfold Inv2, wf, flow, exact, link, sync, pairing, rdok; cbn.
  repeat split; intros; try triv; try (exists (@nil N); reflexivity).
Qed.

Lemma inv_st0 : Inv st0.
Proof. split; [apply inv2_conn0|]. intros _. split; reflexivity. Qed.

Lemma rd_disabled x y b e wo : c_ren x = false -> rd x y b e wo = (x, y).
Proof. intros H. unfold rd. rewrite H. now rewrite orb_true_r. Qed.

Lemma step_inv s ev : Inv s -> Inv (step s ev).
Proof.
  intros [H Hp]. destruct ev as [ok|[|] b e wo]; cbn [step].
  - destruct (s_tried s) eqn:Ht; [split; [exact H|intros; congruence]|]. destruct (Hp eq_refl) as [Hd Hu].
    rewrite Hd, Hu. destruct ok; (split; [|cbn; discriminate]); cbn [s_d s_u]; [apply inv2_conn0|].
    unfold Inv2, wf, flow, exact, link, sync, pairing, rdok; cbn.
    repeat split; intros; try triv; try (exists (@nil N); reflexivity).
  - pose proof (rd_inv (s_d s) (s_u s) b e wo H) as H1.
    destruct (rd (s_d s) (s_u s) b e wo) as [d u] eqn:E. cbn [fst snd] in H1. split; [exact H1|].
    cbn [s_tried s_d s_u]. intros Ht. destruct (Hp Ht) as [Hd Hu].
    rewrite rd_disabled in E by (rewrite Hd; reflexivity). inversion E; subst. split; assumption.
  - pose proof (rd_inv (s_u s) (s_d s) b e wo (Inv2_sym _ _ H)) as H1.
    destruct (rd (s_u s) (s_d s) b e wo) as [u d] eqn:E. cbn [fst snd] in H1. split; [apply Inv2_sym; exact H1|].
    cbn [s_tried s_d s_u]. intros Ht. destruct (Hp Ht) as [Hd Hu].
    rewrite rd_disabled in E by (rewrite Hu; reflexivity). inversion E; subst. split; assumption.
Qed.

Lemma run_from_inv evs : forall s, Inv s -> Inv (fold_left step evs s).
Proof. induction evs as [|ev evs IH]; cbn; intros s H; [exact H|]. apply IH, step_inv, H. Qed.

Lemma run_inv evs : Inv2 (s_d (run evs)) (s_u (run evs)).
Proof. apply (run_from_inv evs st0 inv_st0). Qed.

(* ------------------------------------------------------------------ the statements used by Props/C01_relay.v *)
Lemma inv2_identity x y : Inv2 x y ->
  prefix (c_out y) (c_in x) /\
  (closes (c_trace x) = [RemoteClose] -> c_werr y = false -> closes (c_trace y) = [LocalClose] -> c_out y = c_in x) /\
  (closes (c_trace x) = [RemoteClose] -> c_werr x = false -> c_werr y = false ->
     closes (c_trace y) = [LocalClose] /\ c_closed y = true /\ c_out y = c_in x).
Proof.
  intros H. destruct x as [xrb xren xcl xpe xpf xo xi xt xw], y as [yrb yren ycl ype ypf yo yi yt yw].
  prep H. unfold prefix. fields.
  assert (E : closes xt = [RemoteClose] -> yw = false -> closes yt = [LocalClose] -> yo = xi).
  { intros Hx Hw Hy. destruct Hwy as (_ & Hc & _). destruct (Hc Hw) as [-> _].
    rewrite app_nil_r in Hexy. symmetry. apply Hexy; right; assumption. }
  split; [|split].
  - destruct Hfxy as [r ->]. exists (ype ++ r). reflexivity.
  - exact E.
  - intros Hx Hwx' Hwy'. pose proof (Hpxy Hwx' Hwy' Hx) as Hy. split; [exact Hy|]. split; [|apply E; assumption].
    destruct Hwy as (_ & _ & Hc). apply Hc. rewrite Hy. discriminate.
Qed.

Theorem relay_identity : forall evs,
  let s := run evs in
  prefix (c_out (s_u s)) (c_in (s_d s)) /\ prefix (c_out (s_d s)) (c_in (s_u s)) /\
  (forall x, let cx := get s x in let cy := get s (other x) in
     closes (c_trace cx) = [RemoteClose] ->
     (c_werr cy = false -> closes (c_trace cy) = [LocalClose] -> c_out cy = c_in cx) /\
     (c_werr cx = false -> c_werr cy = false ->
        closes (c_trace cy) = [LocalClose] /\ c_closed cy = true /\ c_out cy = c_in cx)).
Proof.
  intros evs s. pose proof (run_inv evs) as H. fold s in H.
  pose proof (inv2_identity _ _ H) as (P1 & E1 & F1).
  pose proof (inv2_identity _ _ (Inv2_sym _ _ H)) as (P2 & E2 & F2).
  split; [exact P1|]. split; [exact P2|].
  intros [|]; cbn [get other]; intros Hx; split; auto.
Qed.

(* doRead level: every byte a raw Read returned - alone, before or together with io.EOF - has been handed to the
   filter chain, in order and before the connection's close event, unless the Read failed with an error other than
   io.EOF / time-out (then the bytes of that Read stay in the read buffer and the only event is OnReadErrClose). *)
Theorem read_delivered : forall evs x,
  let c := get (run evs) x in
  c_in c = fdata (c_trace c) ++ c_rbuf c /\ dbc (c_trace c) = true /\
  (c_closed c = false -> c_rbuf c = []).
Proof.
  intros evs x c. pose proof (run_inv evs) as H. unfold Inv2 in H.
  destruct H as (Hwx & Hwy & _ & _ & _ & _ & _ & _ & _ & _ & _ & Hrx & Hry).
  destruct x; cbn [get] in c; subst c.
  - destruct Hrx as [A B]. split; [exact A|]. split; [exact B|]. intros Hc. apply Hwx, Hc.
  - destruct Hry as [A B]. split; [exact A|]. split; [exact B|]. intros Hc. apply Hwy, Hc.
Qed.

(* one read-loop iteration: a Read that returns n > 0 bytes together with io.EOF hands exactly the buffered bytes
   plus these n bytes to the filter chain and THEN raises a close event *)
Lemma rd_eof_delivers : forall x y bytes wo,
  c_closed x = false -> c_ren x = true -> c_rbuf x ++ bytes <> [] ->
  exists ev, c_trace (fst (rd x y bytes REOF wo)) = c_trace x ++ [TData (c_rbuf x ++ bytes); TClose ev].
Proof.
  intros x y bytes wo Hc Hr Hne.
  destruct x as [xrb xren xcl xpe xpf xo xi xt xw], y as [yrb yren ycl ype ypf yo yi yt yw].
  cbn [c_closed c_ren c_rbuf c_trace] in *. subst xcl xren.
  unfold rd. cbn [c_closed c_ren orb negb].
  unfold on_read, deliver, close_conn, react, wr, do_write, next_w, mark_closed, add_trace, set_rbuf, set_in, is_nil, flushes.
  cbn [c_rbuf c_ren c_closed c_pend c_peof c_out c_in c_trace c_werr].
  destruct (xrb ++ bytes) eqn:E; [congruence|].
  brk; cbn [fst snd c_trace c_closed] in *; try discriminate; rewrite <- ?app_assoc; cbn [app]; eexists; reflexivity.
Qed.

(* ------------------------------------------------------------------ tie to the source *)
(* Nothing in Proofs depends on Gen/*.v.  The proxy's reaction to a close event of either connection as the model has it
   (`flushes`), written as the table the translator generates; Props/C01_relay.v compares Gen/RelaySrc.v's up_reaction /
   down_reaction with this constant by conversion. *)
Definition reaction_table (ev : cev) : option bool :=
  match ev with
  | RemoteClose => Some true
  | LocalClose => Some false
  | OnReadErrClose => Some false
  | OnWriteTimeout => Some true
  end.

Lemma reaction_table_is_flushes : forall ev, reaction_table ev = Some (flushes ev).
Proof. intros ev; destruct ev; reflexivity. Qed.
