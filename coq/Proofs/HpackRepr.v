(* Proofs/HpackRepr.v (group h2): the decoder (hpack.go) inverts the wire format of EVERY valid
   representation sequence - the "any encoder that emits valid representations" half of c18_hpack_roundtrip. *)
From Coq Require Import List NArith Arith Lia Bool.
From Coq Require Import ZifyBool ZifyNat ZifyN.
From MV Require Import Lib.HBits Gen.HpackTables Gen.H2Src Model.Hpack Proofs.HpackInt Proofs.HpackHuffman Proofs.HpackString.
Import ListNotations.
Open Scope N_scope.

Definition field_fits (maxstr : N) (f : hfield) : Prop :=
  maxstr = 0 \/ (len (hname f) <= maxstr /\ len (hvalue f) <= maxstr).

(* wire-level validity of a representation for a decoder with string limit maxstr *)
Definition repr_ok (maxstr : N) (r : repr) : Prop :=
  match r with
  | RIndexed i => i < 2 ^ 63
  | RLitIdx k i hv v => i < 2 ^ 63 /\ str_ok maxstr hv v
  | RLitNew k hn n hv v => str_ok maxstr hn n /\ str_ok maxstr hv v
  | RSize v => True
  end.

(* size updates only at the beginning of a block (RFC 7541 4.2) *)
Fixpoint reprs_shape (leading : bool) (rs : list repr) : Prop :=
  match rs with
  | [] => True
  | RSize _ :: r => leading = true /\ reprs_shape true r
  | _ :: r => reprs_shape false r
  end.

(* ---------------------------------------------------------------- table access never panics *)
Lemma index_at_nth : forall {A} (l : list A) i, (N.to_nat i < length l)%nat ->
  exists x, nth_error l (N.to_nat i) = Some x /\ index_at l i = HOk x.
Proof.
  intros A l i H. unfold index_at. destruct (nth_error l (N.to_nat i)) eqn:E.
  - eexists; split; reflexivity.
  - apply nth_error_None in E. lia.
Qed.

Lemma tab_at_lookup : forall t i, tab_at t i = HOk (tab_lookup t i).
Proof.
  intros t i. unfold tab_at, tab_at_gen, h2_hpack_at_u64cmp, tab_lookup.
  destruct (i =? 0) eqn:E0; [reflexivity|].
  destruct (i <=? static_len) eqn:E1.
  - destruct (index_at_nth hpack_static_table (i - 1)) as [x [Hx Hi]].
    { unfold static_len in E1. lia. }
    rewrite Hi, Hx. reflexivity.
  - destruct (N.of_nat (length (dt_ents t)) + static_len <? i) eqn:E2; [reflexivity|].
    destruct (index_at_nth (dt_ents t) (N.of_nat (length (dt_ents t)) - (i - static_len))) as [x [Hx Hi]].
    { lia. }
    rewrite Hi, Hx. reflexivity.
Qed.

Lemma d_with_tab_same : forall st, d_with_tab st (d_tab st) = st.
Proof. destruct st; reflexivity. Qed.

Lemma call_emit_ok : forall st f rest, d_emit st = true -> field_fits (d_maxstr st) f ->
  call_emit st f rest = HOk (st, [f], rest).
Proof.
  intros st f rest He Hf. unfold call_emit. rewrite He.
  assert (E : (negb (d_maxstr st =? 0) && ((d_maxstr st <? len (hname f)) || (d_maxstr st <? len (hvalue f)))) = false).
  { destruct Hf as [H0 | [H1 H2]]; lia. }
  rewrite E. reflexivity.
Qed.

(* ---------------------------------------------------------------- one representation *)
Lemma first_byte_or : forall flag n i, exists b r, or_first flag (enc_int n i) = (flag + b) :: r /\ b < 2 ^ n.
Proof.
  intros flag n i. destruct (enc_int_first n i) as [b [r [E Hb]]]. exists b, r. rewrite E. split; [reflexivity | exact Hb].
Qed.

Lemma kind_flag_mod : forall k, kind_flag k mod 2 ^ kind_prefix k = 0.
Proof. destruct k; reflexivity. Qed.

Lemma kind_prefix_range : forall k, 1 <= kind_prefix k <= 8.
Proof. destruct k; cbn; lia. Qed.

(* dispatch on the first byte *)
Lemma parse_repr_dispatch_lit : forall k st b r, b < 2 ^ kind_prefix k ->
  parse_repr st ((kind_flag k + b) :: r) = parse_literal k st ((kind_flag k + b) :: r).
Proof.
  intros k st b r Hb. unfold parse_repr.
  destruct k; cbn [kind_flag kind_prefix] in *.
  - change (2 ^ 6) with 64 in Hb.
    assert (E1 : (128 <=? 64 + b) = false) by lia. assert (E2 : (64 <=? 64 + b) = true) by lia.
    rewrite E1, E2. reflexivity.
  - change (2 ^ 4) with 16 in Hb.
    assert (E1 : (128 <=? 0 + b) = false) by lia. assert (E2 : (64 <=? 0 + b) = false) by lia.
    assert (E3 : (0 + b <? 16) = true) by lia.
    rewrite E1, E2, E3. reflexivity.
  - change (2 ^ 4) with 16 in Hb.
    assert (E1 : (128 <=? 16 + b) = false) by lia. assert (E2 : (64 <=? 16 + b) = false) by lia.
    assert (E3 : (16 + b <? 16) = false) by lia. assert (E4 : (16 + b <? 32) = true) by lia.
    rewrite E1, E2, E3, E4. reflexivity.
Qed.

Lemma field_fits_parts : forall maxstr n v s, field_fits maxstr (mkF n v s) ->
  (maxstr = 0 \/ len n <= maxstr) /\ (maxstr = 0 \/ len v <= maxstr).
Proof. intros maxstr n v s [H | [H1 H2]]; cbn in *; split; auto. Qed.

Theorem parse_repr_ser : forall st r rest t' fs,
  d_emit st = true ->
  dt_allowed (d_tab st) < 2 ^ 32 ->
  (forall v, r = RSize v -> d_first st = true) ->
  repr_ok (d_maxstr st) r ->
  interp_repr (d_tab st) r = Some (t', fs) ->
  Forall (field_fits (d_maxstr st)) fs ->
  parse_repr st (ser_repr r ++ rest) = HOk (d_with_tab st t', fs, rest).
Proof.
  intros st r rest t' fs Hemit Hallowed Hfirst Hok Hint Hfits.
  destruct r as [i | k i hv v | k hn n hv v | v]; cbn [ser_repr repr_ok interp_repr] in *.
  - (* indexed *)
    destruct (tab_lookup (d_tab st) i) as [e|] eqn:El; [|discriminate].
    inversion Hint; subst t' fs. clear Hint.
    destruct (first_byte_or 128 7 i) as [b [r [E Hb]]]. change (2 ^ 7) with 128 in Hb.
    pose proof (int_roundtrip 7 128 i rest ltac:(lia) eq_refl Hok) as Hi.
    rewrite E in *. cbn [app] in *. unfold parse_repr.
    assert (E1 : (128 <=? 128 + b) = true) by lia. rewrite E1.
    unfold parse_indexed. rewrite Hi. cbn [hbind fst snd].
    rewrite tab_at_lookup. cbn [hbind]. rewrite El.
    rewrite call_emit_ok; [| exact Hemit | inversion Hfits; assumption].
    rewrite d_with_tab_same. reflexivity.
  - (* literal, indexed name *)
    destruct Hok as [Hi63 Hv].
    destruct (tab_lookup (d_tab st) i) as [e|] eqn:El; [|discriminate].
    inversion Hint; subst t' fs. clear Hint.
    assert (Hi0 : 0 < i).
    { destruct (N.eq_dec i 0) as [Z|Z]; [| lia]. subst i. unfold tab_lookup in El. discriminate. }
    destruct (first_byte_or (kind_flag k) (kind_prefix k) i) as [b [r [E Hb]]].
    pose proof (int_roundtrip (kind_prefix k) (kind_flag k) i (ser_string hv v ++ rest)
                  (kind_prefix_range k) (kind_flag_mod k) Hi63) as Hi.
    rewrite <- app_assoc. rewrite E in *. cbn [app] in *.
    rewrite parse_repr_dispatch_lit by exact Hb.
    unfold parse_literal. rewrite Hi. cbn [hbind fst snd].
    assert (E0 : (0 <? i) = true) by lia. rewrite E0.
    rewrite tab_at_lookup. cbn [hbind]. rewrite El. cbn [hbind fst snd].
    rewrite Hemit. cbn [orb].
    rewrite string_roundtrip by exact Hv. cbn [hbind fst snd].
    inversion Hfits as [|f fs' Hf _]; subst.
    destruct (kind_indexed k).
    + rewrite call_emit_ok; [reflexivity | exact Hemit | exact Hf].
    + rewrite call_emit_ok; [rewrite d_with_tab_same; reflexivity | exact Hemit | exact Hf].
  - (* literal, new name *)
    destruct Hok as [Hn Hv].
    inversion Hint; subst t' fs. clear Hint.
    assert (E : [kind_flag k] = or_first (kind_flag k) (enc_int (kind_prefix k) 0)) by (destruct k; reflexivity).
    pose proof (int_roundtrip (kind_prefix k) (kind_flag k) 0 (ser_string hn n ++ ser_string hv v ++ rest)
                  (kind_prefix_range k) (kind_flag_mod k) ltac:(cbn; lia)) as Hi.
    rewrite <- E in Hi. rewrite <- !app_assoc. cbn [app] in *.
    replace (kind_flag k) with (kind_flag k + 0) at 1 by lia.
    rewrite parse_repr_dispatch_lit by (destruct k; cbn; lia).
    rewrite N.add_0_r.
    unfold parse_literal. rewrite Hi. cbn [hbind fst snd].
    change (0 <? 0) with false. cbv iota.
    rewrite Hemit. cbn [orb].
    rewrite string_roundtrip by exact Hn. cbn [hbind fst snd].
    rewrite string_roundtrip by exact Hv. cbn [hbind fst snd].
    inversion Hfits as [|f fs' Hf _]; subst.
    destruct (kind_indexed k).
    + rewrite call_emit_ok; [reflexivity | exact Hemit | exact Hf].
    + rewrite call_emit_ok; [rewrite d_with_tab_same; reflexivity | exact Hemit | exact Hf].
  - (* dynamic table size update *)
    destruct (v <=? dt_allowed (d_tab st)) eqn:Ev; [|discriminate].
    inversion Hint; subst t' fs. clear Hint.
    destruct (first_byte_or 32 5 v) as [b [r [E Hb]]]. change (2 ^ 5) with 32 in Hb.
    assert (Hv63 : v < 2 ^ 63).
    { change (2 ^ 32) with 4294967296 in Hallowed. change (2 ^ 63) with 9223372036854775808. lia. }
    pose proof (int_roundtrip 5 32 v rest ltac:(lia) eq_refl Hv63) as Hi.
    rewrite E in *. cbn [app] in *. unfold parse_repr.
    assert (E1 : (128 <=? 32 + b) = false) by lia. assert (E2 : (64 <=? 32 + b) = false) by lia.
    assert (E3 : (32 + b <? 16) = false) by lia. assert (E4 : (32 + b <? 32) = false) by lia.
    assert (E5 : (32 + b <? 64) = true) by lia.
    rewrite E1, E2, E3, E4, E5.
    unfold parse_size_update. rewrite (Hfirst v eq_refl). cbn [negb andb].
    rewrite Hi. cbn [hbind fst snd].
    assert (E6 : (dt_allowed (d_tab st) <? v) = false) by lia. rewrite E6.
    unfold u32. rewrite N.mod_small; [reflexivity|].
    change (2 ^ 32) with 4294967296 in Hallowed. lia.
Qed.

(* ---------------------------------------------------------------- a block of representations *)
Lemma ser_repr_nonempty : forall r, exists b rest, ser_repr r = b :: rest.
Proof.
  destruct r as [i | k i hv v | k hn n hv v | v]; cbn [ser_repr].
  - destruct (first_byte_or 128 7 i) as [b [r [E _]]]. rewrite E. eauto.
  - destruct (first_byte_or (kind_flag k) (kind_prefix k) i) as [b [r [E _]]]. rewrite E. cbn [app]. eauto.
  - cbn [app]. eauto.
  - destruct (first_byte_or 32 5 v) as [b [r [E _]]]. rewrite E. eauto.
Qed.

Lemma is_size_update_ser : forall r rest,
  is_size_update (ser_repr r ++ rest) = match r with RSize _ => true | _ => false end.
Proof.
  destruct r as [i | k i hv v | k hn n hv v | v]; intro rest; cbn [ser_repr].
  - destruct (first_byte_or 128 7 i) as [b [r [E Hb]]]. rewrite E. cbn [app is_size_update]. lia.
  - destruct (first_byte_or (kind_flag k) (kind_prefix k) i) as [b [r [E Hb]]]. rewrite E. cbn [app is_size_update].
    destruct k; cbn [kind_flag kind_prefix] in *;
      [change (2 ^ 6) with 64 in Hb | change (2 ^ 4) with 16 in Hb | change (2 ^ 4) with 16 in Hb]; lia.
  - cbn [app is_size_update]. destruct k; reflexivity.
  - destruct (first_byte_or 32 5 v) as [b [r [E Hb]]]. rewrite E. cbn [app is_size_update]. change (2 ^ 5) with 32 in Hb. lia.
Qed.

Lemma interp_repr_allowed : forall t r t' fs, interp_repr t r = Some (t', fs) -> dt_allowed t' = dt_allowed t.
Proof.
  intros t r t' fs H. destruct r as [i | k i hv v | k hn n hv v | v]; cbn [interp_repr] in H.
  - destruct (tab_lookup t i); inversion H; reflexivity.
  - destruct (tab_lookup t i); [|discriminate]. inversion H. destruct (kind_indexed k); reflexivity.
  - inversion H. destruct (kind_indexed k); reflexivity.
  - destruct (v <=? dt_allowed t); inversion H; reflexivity.
Qed.

Lemma dec_loop_reprs : forall rs leading st t' fs fuel acc,
  (length (flat_map ser_repr rs) <= fuel)%nat ->
  d_emit st = true -> (leading = true -> d_first st = true) ->
  dt_allowed (d_tab st) < 2 ^ 32 ->
  reprs_shape leading rs -> Forall (repr_ok (d_maxstr st)) rs ->
  interp_reprs (d_tab st) rs = Some (t', fs) -> Forall (field_fits (d_maxstr st)) fs ->
  exists fb, dec_loop_gen true fuel st (flat_map ser_repr rs) acc =
             (mkD t' (d_maxstr st) true fb (d_save st), acc ++ fs, WOk).
Proof.
  induction rs as [|r rs IH]; intros leading st t' fs fuel acc Hfuel Hemit Hlead Hall Hshape Hok Hint Hfits.
  - cbn [interp_reprs] in Hint. inversion Hint; subst. cbn [flat_map dec_loop_gen].
    destruct fuel; cbn [dec_loop_gen]; exists (d_first st); rewrite app_nil_r; destruct st; cbn in *; subst; reflexivity.
  - cbn [interp_reprs] in Hint.
    destruct (interp_repr (d_tab st) r) as [[t1 f1]|] eqn:E1; [|discriminate].
    destruct (interp_reprs t1 rs) as [[t2 f2]|] eqn:E2; [|discriminate].
    inversion Hint; subst t' fs. clear Hint.
    apply Forall_app in Hfits as [Hf1 Hf2].
    inversion Hok as [|? ? Hr Hrs]; subst.
    cbn [flat_map] in *.
    destruct (ser_repr_nonempty r) as [b0 [tl Eser]].
    destruct fuel as [|fuel]; [rewrite Eser in Hfuel; cbn in Hfuel; lia|].
    assert (Hpr : parse_repr st (ser_repr r ++ flat_map ser_repr rs) = HOk (d_with_tab st t1, f1, flat_map ser_repr rs)).
    { apply parse_repr_ser; try assumption.
      intros v Hv. subst r. cbn [reprs_shape] in Hshape. apply Hlead. tauto. }
    pose proof (is_size_update_ser r (flat_map ser_repr rs)) as Hsu.
    remember (ser_repr r ++ flat_map ser_repr rs) as buf eqn:Ebuf.
    assert (Hne : exists b tl', buf = b :: tl') by (rewrite Ebuf, Eser; cbn [app]; eauto).
    destruct Hne as [bb [tl' Ebb]].
    cbn [dec_loop_gen]. rewrite Ebb. rewrite <- Ebb.
    rewrite Hpr. cbn [fst snd andb]. rewrite Hsu.
    assert (Hlen : (length (flat_map ser_repr rs) <= fuel)%nat).
    { rewrite Ebuf, Eser in Hfuel. rewrite Eser in Ebuf. cbn [app length] in Hfuel. rewrite app_length in Hfuel. lia. }
    pose proof (interp_repr_allowed _ _ _ _ E1) as Hal.
    destruct r as [i | k i hv v | k hn n hv v | v].
    + destruct (IH false (d_with_first (d_with_tab st t1) false) t2 f2 fuel (acc ++ f1)) as [fb Hfb];
        try assumption; try (cbn; congruence); try (intro; discriminate).
      { cbn. rewrite Hal. exact Hall. }
      exists fb. rewrite Hfb. cbn. rewrite app_assoc. reflexivity.
    + destruct (IH false (d_with_first (d_with_tab st t1) false) t2 f2 fuel (acc ++ f1)) as [fb Hfb];
        try assumption; try (cbn; congruence); try (intro; discriminate).
      { cbn. rewrite Hal. exact Hall. }
      exists fb. rewrite Hfb. cbn. rewrite app_assoc. reflexivity.
    + destruct (IH false (d_with_first (d_with_tab st t1) false) t2 f2 fuel (acc ++ f1)) as [fb Hfb];
        try assumption; try (cbn; congruence); try (intro; discriminate).
      { cbn. rewrite Hal. exact Hall. }
      exists fb. rewrite Hfb. cbn. rewrite app_assoc. reflexivity.
    + cbn [reprs_shape] in Hshape. destruct Hshape as [Hl Hsh].
      destruct (IH true (d_with_tab st t1) t2 f2 fuel (acc ++ f1)) as [fb Hfb];
        try assumption; try (cbn; congruence).
      { intros _. cbn. apply Hlead. exact Hl. }
      { cbn. rewrite Hal. exact Hall. }
      exists fb. rewrite Hfb. cbn. rewrite app_assoc. reflexivity.
Qed.

(* one complete header block: Write the serialised representations, then Close *)
Theorem dec_block_reprs : forall st rs t' fs,
  h2_hpack_multi_update = true ->
  d_save st = [] -> d_first st = true -> d_emit st = true ->
  dt_allowed (d_tab st) < 2 ^ 32 ->
  reprs_shape true rs -> Forall (repr_ok (d_maxstr st)) rs ->
  interp_reprs (d_tab st) rs = Some (t', fs) -> Forall (field_fits (d_maxstr st)) fs ->
  dec_block st (flat_map ser_repr rs) = (mkD t' (d_maxstr st) true true [], fs, WOk).
Proof.
  intros st rs t' fs Hmulti Hsave Hfirst Hemit Hall Hshape Hok Hint Hfits.
  unfold dec_block, dec_write.
  destruct (flat_map ser_repr rs) as [|b tl] eqn:Eb.
  - destruct rs as [|r rs'].
    + cbn in Hint. inversion Hint; subst. cbn [fst snd]. unfold dec_close. rewrite Hsave.
      destruct st; cbn in *; subst; reflexivity.
    + cbn [flat_map] in Eb. destruct (ser_repr_nonempty r) as [b0 [tl0 E0]]. rewrite E0 in Eb. discriminate.
  - rewrite Hsave. cbn [app]. rewrite <- Eb. unfold dec_loop. rewrite Hmulti.
    destruct (dec_loop_reprs rs true (d_with_save st []) t' fs (length (flat_map ser_repr rs)) []) as [fb Hfb];
      try assumption; try (cbn; lia); try (cbn; tauto).
    rewrite Hfb. cbn [fst snd app]. unfold dec_close. cbn. reflexivity.
Qed.
