(* Proofs about Model/PoolAdmit.v: reachable sets computed and checked closed (vm_compute), lifted to every schedule. *)
From Coq Require Import List ZArith Bool Arith Lia.
From MV Require Import Lib.Interleave Model.Pool Model.PoolAdmit.
Import ListNotations.
Open Scope Z_scope.

Lemma ainstr_eqb_eq : forall a b, ainstr_eqb a b = true -> a = b.
Proof. destruct a, b; cbn; intros H; try discriminate; reflexivity. Qed.

Lemma adl_eqb_eq : forall A (e : A -> A -> bool), (forall x y, e x y = true -> x = y) ->
  forall a b, list_eqb e a b = true -> a = b.
Proof.
  intros A e He. induction a as [|x a IH]; destruct b as [|y b]; cbn; intros H; try discriminate; [reflexivity|].
  apply andb_true_iff in H. destruct H as [H1 H2]. f_equal; [apply He; assumption|apply IH; assumption].
Qed.

Lemma ash_eqb_eq : forall a b, ash_eqb a b = true -> a = b.
Proof.
  intros [m1 a1 b1 c1 d1] [m2 a2 b2 c2 d2]. unfold ash_eqb. cbn. intros H.
  rewrite !andb_true_iff in H. destruct H as [[[[A B] C] D] E].
  apply eqb_prop in A. apply Z.eqb_eq in B, C, D, E. subst. reflexivity.
Qed.

Lemma adcfg_eqb_eq : forall a b, adcfg_eqb a b = true -> a = b.
Proof.
  intros [t1 s1] [t2 s2]. unfold adcfg_eqb. cbn. intros H. apply andb_true_iff in H. destruct H as [H1 H2].
  f_equal; [|apply ash_eqb_eq; assumption].
  apply (adl_eqb_eq _ (list_eqb ainstr_eqb)); [|assumption]. apply adl_eqb_eq. apply ainstr_eqb_eq.
Qed.

Lemma admem_In : forall c l, admem c l = true -> In c l.
Proof.
  intros c l H. unfold admem in H. apply existsb_exists in H. destruct H as [d [H1 H2]].
  apply adcfg_eqb_eq in H2. subst. assumption.
Qed.

Lemma adclosed_step : forall c0 R, adclosed_check c0 R = true ->
  In c0 R /\ forall c k, In c R -> In (sched_step adstep c k) R.
Proof.
  intros c0 R H. unfold adclosed_check in H. apply andb_true_iff in H. destruct H as [H0 H].
  split; [apply admem_In; assumption|]. rewrite forallb_forall in H.
  intros c k Hc. specialize (H c Hc). apply andb_true_iff in H. destruct H as [Hlen Hs].
  apply Nat.eqb_eq in Hlen. unfold adsucc in Hs. cbn [map forallb] in Hs.
  rewrite !andb_true_iff in Hs. destruct Hs as [S0 [S1 [S2 _]]].
  destruct k as [|[|[|k]]]; try (apply admem_In; assumption).
  unfold sched_step. destruct (fst c) as [|a [|b [|x [|y l]]]] eqn:E; cbn in Hlen; try discriminate. destruct k; cbn; assumption.
Qed.

Theorem adreach_every_schedule : forall (good : adcfg -> bool) c0,
  adclosed_check c0 (adreachable c0) = true -> forallb good (adreachable c0) = true ->
  forall sched, good (adrun sched c0) = true.
Proof.
  intros good c0 Hc Hg sched. destruct (adclosed_step c0 _ Hc) as [H0 Hstep].
  rewrite forallb_forall in Hg. apply Hg. unfold adrun.
  apply (run_invariant adstep (fun c => In c (adreachable c0))); [intros c k; apply Hstep|assumption].
Qed.

Definition entry_statement (c0 : adcfg) : Prop := forall sched, entry_good (adrun sched c0) = true.

(* the connection count taken inside the critical section of the test: max_connections holds under every schedule *)
Theorem conn_count_locked_safe : entry_statement (conn_cfg true).
Proof. unfold entry_statement. apply adreach_every_schedule; vm_compute; reflexivity. Qed.

(* counted after the dial: all three callers pass the test *)
Theorem conn_count_after_dial_refuted : ~ entry_statement (conn_cfg false).
Proof. intros H. specialize (H [0;0;0;1;1;1;0;1]%nat). vm_compute in H. discriminate. Qed.

(* Requests: CanCreate and Increase are separate calls *)
Theorem req_check_then_increase_refuted : ~ entry_statement req_cfg.
Proof. intros H. specialize (H [0;1;0;1]%nat). vm_compute in H. discriminate. Qed.

(* partial: admissions that do not overlap (each caller runs to completion before the next starts) never overshoot *)
Fixpoint serial (order : list nat) (steps : nat) : list nat :=
  match order with [] => [] | k :: r => repeat k steps ++ serial r steps end.
Theorem req_serial_safe : forall a b c, (a < 3)%nat -> (b < 3)%nat -> (c < 3)%nat ->
  entry_good (adrun (serial [a; b; c] 2) req_cfg) = true.
Proof.
  intros a b c Ha Hb Hc.
  destruct a as [|[|[|a]]]; [| | |lia]; destruct b as [|[|[|b]]]; try lia; destruct c as [|[|[|c]]]; try lia; vm_compute; reflexivity.
Qed.
