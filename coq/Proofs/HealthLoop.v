(* Proofs about Model/HealthLoop.v: for every (well-formed) event history each sent check contributes at most one
   result, exactly one timer is armed, the automaton sees exactly the list of results; with IdOnResult the awaited
   check's response is never dropped; with IdLoopTop it can be (refutation). *)
From Coq Require Import List NArith Bool Arith Lia ZifyN ZifyNat ZifyBool.
From MV Require Import Model.HealthCheck Model.HealthLoop Proofs.HealthCheck.
Import ListNotations.
Open Scope N_scope.

Record Inv (m : idmode) (s : lstate) (ids : list N) : Prop := mkInv {
  i_le : forall x, In x (l_sent s) -> x <= l_cur s;
  i_cur : l_stopped s = false -> In (l_cur s) (l_sent s) -> (0 < l_tt s)%nat /\ hd 0 (l_sent s) = l_cur s;
  i_ids : forall x, In x ids -> In x (l_sent s) /\ x < l_cur s;
  i_timers : l_stopped s = false -> (l_it s + l_tt s = 1)%nat;
  i_await : l_stopped s = false -> (0 < l_tt s)%nat -> l_sent s <> [] /\ ~ In (hd 0 (l_sent s)) ids;
  i_nodup : NoDup ids;
  i_fixed : m = IdOnResult -> l_stopped s = false -> (0 < l_tt s)%nat -> hd 0 (l_sent s) = l_cur s }.

Lemma inv_init : forall m f, Inv m (l_init f) [].
Proof.
  intros m f. constructor; cbn; intros; try contradiction; try lia; try constructor.
Qed.

Definition ev_wf (s : lstate) (e : levent) : Prop :=
  match e with EResp id _ => In id (l_sent s) | _ => True end.

Definition add_id (o : option lresult) (ids : list N) : list N :=
  match o with Some r => res_id r :: ids | None => ids end.

Lemma hd_in : forall (l : list N), l <> [] -> In (hd 0 l) l.
Proof. intros [|x l] H; [congruence|left; auto]. Qed.

Lemma step_inv : forall m u h s ids e, Inv m s ids -> ev_wf s e ->
  Inv m (fst (hc_loop_step m u h s e)) (add_id (snd (hc_loop_step m u h s e)) ids).
Proof.
  intros m u h s ids e I Hwf. unfold hc_loop_step.
  destruct (l_stopped s) eqn:Est; [exact I|].
  pose proof I as I0. destruct I as [Hle Hcur Hids Htim Haw Hnd Hfix].
  specialize (Hcur Est). specialize (Htim Est). specialize (Haw Est). specialize (fun H => Hfix H Est).
  destruct e as [|id ok| |].
  - (* tick *)
    destruct (l_it s) as [|k] eqn:Eit; [exact I0|].
    assert (Htt : l_tt s = 0%nat) by lia.
    assert (Hnotin : ~ In (l_cur s) (l_sent s)) by (intros Hin; destruct (Hcur Hin); lia).
    cbn [fst snd add_id]. constructor; cbn [l_cur l_it l_tt l_sent l_stopped]; intros.
    + destruct H as [<-|H]; [lia|auto].
    + split; [rewrite Htt; cbn; lia|reflexivity].
    + destruct (Hids x H) as [H1 H2]. split; [right; auto|auto].
    + rewrite Htt; cbn; lia.
    + split; [discriminate|]. cbn. intros Hin. destruct (Hids _ Hin); lia.
    + exact Hnd.
    + reflexivity.
  - (* response *)
    cbn in Hwf.
    destruct (N.eqb_spec id (l_cur s)) as [->|Hne].
    + destruct (Hcur Hwf) as [Htt Hhd].
      destruct (hc_step u h (l_auto s) (if ok then RSuccess else RFailure)) as [a cb].
      cbn [fst snd add_id res_id]. destruct (Haw Htt) as [Hne Hnot]. rewrite Hhd in Hnot.
      constructor; cbn [l_cur l_it l_tt l_sent l_stopped]; intros.
      * specialize (Hle x H); lia.
      * specialize (Hle _ H0); lia.
      * destruct H as [<-|H]; [split; [auto|lia]|]. destruct (Hids x H); split; [auto|lia].
      * lia.
      * lia.
      * constructor; auto.
      * lia.
    + cbn [fst snd add_id]. constructor; cbn [l_cur l_it l_tt l_sent l_stopped]; intros.
      * specialize (Hle x H). destruct m; lia.
      * destruct m; [specialize (Hle _ H0); lia|auto].
      * destruct (Hids x H); split; [auto|destruct m; lia].
      * auto.
      * auto.
      * auto.
      * subst m. apply Hfix; auto.
  - (* timeout *)
    destruct (l_tt s) as [|k] eqn:Ett; [exact I0|].
    destruct (hc_step u h (l_auto s) RTimeout) as [a cb].
    cbn [fst snd add_id res_id]. destruct (Haw ltac:(lia)) as [Hne Hnot].
    constructor; cbn [l_cur l_it l_tt l_sent l_stopped]; intros.
    + specialize (Hle x H); lia.
    + specialize (Hle _ H0); lia.
    + destruct H as [<-|H].
      * split; [apply hd_in; auto|]. specialize (Hle _ (hd_in _ Hne)). lia.
      * destruct (Hids x H); split; [auto|lia].
    + lia.
    + lia.
    + constructor; auto.
    + lia.
  - (* stop *)
    cbn [fst snd add_id]. constructor; cbn [l_cur l_it l_tt l_sent l_stopped]; intros; auto; try discriminate.
Qed.

Lemma wf_step : forall m u h s e evs, loop_wf m u h s (e :: evs) = true ->
  ev_wf s e /\ loop_wf m u h (fst (hc_loop_step m u h s e)) evs = true.
Proof.
  intros m u h s e evs H. cbn [loop_wf] in H. apply andb_prop in H. destruct H as [H1 H2]. split; auto.
  destruct e; cbn; auto. apply existsb_exists in H1. destruct H1 as (x & Hx & E). apply N.eqb_eq in E. subst; auto.
Qed.

Lemma run_inv : forall m u h evs s ids, Inv m s ids -> loop_wf m u h s evs = true ->
  Inv m (fst (loop_run m u h s evs)) (rev (map res_id (snd (loop_run m u h s evs))) ++ ids).
Proof.
  intros m u h evs. induction evs as [|e evs IH]; intros s ids I Hwf; [exact I|].
  destruct (wf_step _ _ _ _ _ _ Hwf) as [He Hrest].
  pose proof (step_inv m u h s ids e I He) as I1. cbn [loop_run].
  destruct (hc_loop_step m u h s e) as [s1 o]. cbn [fst snd] in *.
  specialize (IH s1 _ I1 Hrest). destruct (loop_run m u h s1 evs) as [s2 rs]. cbn [fst snd] in *.
  destruct o as [r|]; cbn [add_id map rev] in *; auto. rewrite <- app_assoc. exact IH.
Qed.

(* ---- the theorems ---- *)
Theorem at_most_one_result : forall m u h f evs, loop_wf m u h (l_init f) evs = true ->
  NoDup (map res_id (snd (loop_run m u h (l_init f) evs))) /\
  (forall r, In r (snd (loop_run m u h (l_init f) evs)) -> In (res_id r) (l_sent (fst (loop_run m u h (l_init f) evs)))).
Proof.
  intros m u h f evs Hwf. pose proof (run_inv m u h evs _ _ (inv_init m f) Hwf) as I.
  rewrite app_nil_r in I. destruct I as [_ _ Hids _ _ Hnd _]. split.
  - apply NoDup_rev in Hnd. rewrite rev_involutive in Hnd. exact Hnd.
  - intros r Hr. apply Hids. apply in_rev. rewrite rev_involutive. apply in_map; auto.
Qed.

Theorem one_timer_armed : forall m u h f evs, loop_wf m u h (l_init f) evs = true ->
  let s := fst (loop_run m u h (l_init f) evs) in
  l_stopped s = false -> (l_it s + l_tt s = 1)%nat.
Proof.
  intros m u h f evs Hwf s. pose proof (run_inv m u h evs _ _ (inv_init m f) Hwf) as I.
  destruct I as [_ _ _ Htim _ _ _]. exact Htim.
Qed.

(* a response for a check that already has a result (it timed out, or this is a duplicate) is ignored *)
Theorem settled_response_ignored : forall m u h f evs id ok, loop_wf m u h (l_init f) evs = true ->
  In id (map res_id (snd (loop_run m u h (l_init f) evs))) ->
  snd (hc_loop_step m u h (fst (loop_run m u h (l_init f) evs)) (EResp id ok)) = None.
Proof.
  intros m u h f evs id ok Hwf Hin. pose proof (run_inv m u h evs _ _ (inv_init m f) Hwf) as I.
  rewrite app_nil_r in I. destruct I as [_ _ Hids _ _ _ _].
  destruct (Hids id) as [_ Hlt]; [apply in_rev; rewrite rev_involutive; auto|].
  unfold hc_loop_step. destruct (l_stopped _); auto.
  destruct (N.eqb_spec id (l_cur (fst (loop_run m u h (l_init f) evs)))); [lia|reflexivity].
Qed.

(* the threshold automaton is driven by exactly the list of results, in order *)
Lemma step_auto : forall m u h s e,
  match snd (hc_loop_step m u h s e) with
  | Some r => hc_step u h (l_auto s) (res_result r) = (l_auto (fst (hc_loop_step m u h s e)), res_cb r)
  | None => l_auto (fst (hc_loop_step m u h s e)) = l_auto s
  end.
Proof.
  intros m u h s e. unfold hc_loop_step. destruct (l_stopped s); [reflexivity|].
  destruct e as [|id ok| |].
  - destruct (l_it s); reflexivity.
  - destruct (N.eqb id (l_cur s)); [|reflexivity].
    destruct (hc_step u h (l_auto s) (if ok then RSuccess else RFailure)) as [a cb] eqn:E. cbn. exact E.
  - destruct (l_tt s); [reflexivity|].
    destruct (hc_step u h (l_auto s) RTimeout) as [a cb] eqn:E. cbn. exact E.
  - reflexivity.
Qed.

Theorem automaton_sees_results : forall m u h evs s,
  hc_run u h (l_auto s) (map res_result (snd (loop_run m u h s evs))) =
  (l_auto (fst (loop_run m u h s evs)), map res_cb (snd (loop_run m u h s evs))).
Proof.
  intros m u h evs. induction evs as [|e evs IH]; intros s; [reflexivity|].
  cbn [loop_run]. pose proof (step_auto m u h s e) as Hs.
  destruct (hc_loop_step m u h s e) as [s1 o]. cbn [fst snd] in *.
  specialize (IH s1). destruct (loop_run m u h s1 evs) as [s2 rs]. cbn [fst snd] in *.
  destruct o as [r|]; cbn [map hc_run].
  - rewrite Hs, IH. reflexivity.
  - rewrite <- Hs. exact IH.
Qed.

(* IdOnResult: while the timeout timer of the check in flight is armed, its response is accepted as its result *)
Theorem awaited_response_accepted : forall u h f evs ok, loop_wf IdOnResult u h (l_init f) evs = true ->
  let s := fst (loop_run IdOnResult u h (l_init f) evs) in
  l_stopped s = false -> (0 < l_tt s)%nat ->
  exists cb, snd (hc_loop_step IdOnResult u h s (EResp (hd 0 (l_sent s)) ok))
             = Some (hd 0 (l_sent s), if ok then RSuccess else RFailure, cb).
Proof.
  intros u h f evs ok Hwf s Hst Htt. pose proof (run_inv IdOnResult u h evs _ _ (inv_init _ f) Hwf) as I.
  destruct I as [_ _ _ _ _ _ Hfix]. specialize (Hfix eq_refl Hst Htt). fold s in Hfix.
  unfold hc_loop_step. rewrite Hst, Hfix, N.eqb_refl.
  destruct (hc_step u h (l_auto s) (if ok then RSuccess else RFailure)) as [a cb]. exists cb. reflexivity.
Qed.

(* IdLoopTop: an expired response advances the id, so the in-time response of the check in flight is dropped and
   that check is later recorded as a timeout: tick, timeout, tick, late response of check 1, response of check 2 *)
Definition awaited_accepted_statement (m : idmode) : Prop :=
  forall u h f evs ok, loop_wf m u h (l_init f) evs = true ->
  let s := fst (loop_run m u h (l_init f) evs) in
  l_stopped s = false -> (0 < l_tt s)%nat ->
  snd (hc_loop_step m u h s (EResp (hd 0 (l_sent s)) ok)) <> None.

Theorem looptop_drops_awaited_response : ~ awaited_accepted_statement IdLoopTop.
Proof.
  intros H. specialize (H 1 1 false [ETick; ETimeout; ETick; EResp 1 true] true eq_refl eq_refl).
  apply H; [cbn; lia|]. vm_compute. reflexivity.
Qed.

Theorem awaited_accepted_of_mode : forall m, m = IdOnResult -> awaited_accepted_statement m.
Proof.
  intros m -> u h f evs ok Hwf s Hst Htt.
  destruct (awaited_response_accepted u h f evs ok Hwf Hst Htt) as [cb E]. fold s in E. rewrite E. discriminate.
Qed.

(* composition with the threshold theorem: the results the loop feeds to the automaton ARE the history of
   Proofs/HealthCheck.v threshold_exact *)
Theorem loop_threshold_exact : forall m u h, thr_ok u -> thr_ok h -> forall f evs e r,
  let s := fst (loop_run m u h (l_init f) evs) in
  let rs := map res_result (snd (loop_run m u h (l_init f) evs)) in
  let s' := fst (hc_loop_step m u h s e) in
  snd (hc_loop_step m u h s e) = Some r ->
  (hflag (l_auto s) = false ->
     (hflag (l_auto s') = true <-> last_n_all is_fail (N.to_nat u) (rs ++ [res_result r]))) /\
  (hflag (l_auto s) = true ->
     (hflag (l_auto s') = false <-> last_n_all is_succ (N.to_nat h) (rs ++ [res_result r]))) /\
  (fst (res_cb r) = true <-> hflag (l_auto s') <> hflag (l_auto s)) /\
  snd (res_cb r) = is_succ (res_result r).
Proof.
  intros m u h Hu Hh f evs e r s rs s' Hr.
  assert (Hs : l_auto s = hc_state u h f rs).
  { unfold hc_state, rs, s. pose proof (automaton_sees_results m u h evs (l_init f)) as H.
    cbn [l_init l_auto] in H. rewrite H. reflexivity. }
  pose proof (step_auto m u h s e) as Hstep. rewrite Hr in Hstep.
  pose proof (threshold_exact u h Hu Hh f rs (res_result r)) as T. cbn zeta in T.
  rewrite <- Hs in T. rewrite Hstep in T. cbn [fst snd] in T. exact T.
Qed.
