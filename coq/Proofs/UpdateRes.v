(* Proofs about Model/UpdateRes.v: with the adopted manager every count goes back to the manager the live cluster uses. *)
From Coq Require Import List ZArith Bool Arith Lia.
From MV Require Import Model.UpdateRes.
Import ListNotations.
Local Open Scope Z_scope.

Lemma upd_length {A} (f : A -> A) n l : List.length (upd n f l) = List.length l.
Proof. revert n; induction l as [|x l IH]; intros [|n]; cbn [upd List.length]; auto. Qed.

Lemma upd_same {A} (f : A -> A) n l : nth_error (upd n f l) n = option_map f (nth_error l n).
Proof. revert n; induction l as [|x l IH]; intros [|n]; cbn [upd nth_error option_map]; auto. Qed.

Lemma upd_other {A} (f : A -> A) n m l : n <> m -> nth_error (upd n f l) m = nth_error l m.
Proof.
  revert n m; induction l as [|x l IH]; intros [|n] [|m] H; cbn [upd nth_error]; try reflexivity; try contradiction.
  apply IH. intros ->. now apply H.
Qed.

(* how many requests in flight counted themselves in manager i *)
Definition cnt (i : nat) (l : list nat) : nat := List.length (filter (Nat.eqb i) l).

Lemma cnt_app i l1 l2 : cnt i (l1 ++ l2) = (cnt i l1 + cnt i l2)%nat.
Proof. unfold cnt. now rewrite filter_app, app_length. Qed.

Lemma cnt_remove_nth i k l m : nth_error l k = Some m ->
  (cnt i l = cnt i (remove_nth k l) + (if Nat.eqb i m then 1 else 0))%nat.
Proof.
  revert k; induction l as [|x l IH]; intros [|k]; cbn [nth_error remove_nth]; try discriminate.
  - intros H; inversion H; subst. unfold cnt. cbn [filter]. destruct (Nat.eqb i m); cbn [List.length]; lia.
  - intros H. specialize (IH k H). unfold cnt in *. cbn [filter]. destruct (Nat.eqb i x); cbn [List.length]; lia.
Qed.

Lemma cnt_none i l : (forall m, In m l -> (m < i)%nat) -> cnt i l = 0%nat.
Proof.
  unfold cnt. induction l as [|x l IH]; intros H; cbn [filter]; [reflexivity|].
  destruct (Nat.eqb_spec i x) as [->|_].
  - specialize (H x (or_introl eq_refl)). lia.
  - apply IH. intros m Hm. apply H. now right.
Qed.

Definition rinv (s : rstate) : Prop :=
  (forall i r, nth_error (rs_mgrs s) i = Some r -> r_cur r = Z.of_nat (cnt i (rs_held s))) /\
  (forall m, In m (rs_held s) -> (m < List.length (rs_mgrs s))%nat) /\
  match rs_live s with
  | Some m => exists r, nth_error (rs_mgrs s) m = Some r /\ rs_dump s = Some (r_max r)
  | None => rs_dump s = None
  end.

Lemma rinv_init : rinv rinit.
Proof. split; [|split]; [intros [|i] r H; discriminate H|intros m []|reflexivity]. Qed.

Lemma rinv_step s o : rinv s -> rinv (rstep true s o).
Proof.
  intros (Hc & Hh & Hl). destruct o as [max| | | |k]; cbn [rstep].
  - destruct (rs_live s) as [m|] eqn:El.
    + destruct Hl as (r & Hr & Hd). split; [|split]; cbn [rs_mgrs rs_held rs_live rs_dump].
      * intros i r' Hi. destruct (Nat.eq_dec m i) as [->|Hne].
        -- rewrite upd_same, Hr in Hi. cbn in Hi. inversion Hi; subst. cbn [r_cur]. now apply Hc.
        -- rewrite upd_other in Hi by exact Hne. now apply Hc.
      * intros x Hx. rewrite upd_length. now apply Hh.
      * rewrite upd_same, Hr. cbn. eexists. split; reflexivity.
    + split; [|split]; cbn [rs_mgrs rs_held rs_live rs_dump].
      * intros i r' Hi. destruct (Nat.lt_ge_cases i (List.length (rs_mgrs s))) as [Hlt|Hge].
        -- rewrite nth_error_app1 in Hi by exact Hlt. now apply Hc.
        -- rewrite nth_error_app2 in Hi by exact Hge.
           destruct (i - List.length (rs_mgrs s))%nat as [|d] eqn:Ed; cbn in Hi; [|destruct d; discriminate].
           inversion Hi; subst. cbn [r_cur]. rewrite cnt_none; [reflexivity|].
           intros x Hx. specialize (Hh x Hx). lia.
      * intros x Hx. rewrite app_length. specialize (Hh x Hx). cbn. lia.
      * rewrite nth_error_app2 by lia. rewrite Nat.sub_diag. cbn. eexists. split; reflexivity.
  - split; [|split]; assumption.
  - split; [|split]; cbn [rs_mgrs rs_held rs_live rs_dump]; auto.
  - destruct (rs_live s) as [m|] eqn:El; [|split; [|split]; [exact Hc|exact Hh|rewrite El; exact Hl]].
    destruct Hl as (r & Hr & Hd). split; [|split]; cbn [rs_mgrs rs_held rs_live rs_dump].
    + intros i r' Hi. rewrite cnt_app. unfold cnt at 2. cbn [filter].
      destruct (Nat.eq_dec m i) as [->|Hne].
      * rewrite upd_same, Hr in Hi. cbn in Hi. inversion Hi; subst. cbn [r_cur]. rewrite (Hc _ _ Hr).
        rewrite Nat.eqb_refl. cbn [List.length]. lia.
      * rewrite upd_other in Hi by exact Hne. rewrite (Hc _ _ Hi).
        destruct (Nat.eqb_spec i m); [congruence|]. cbn [List.length]. lia.
    + intros x Hx. rewrite upd_length. apply in_app_or in Hx as [Hx|[<-|[]]]; [now apply Hh|].
      apply nth_error_Some. rewrite Hr. discriminate.
    + rewrite upd_same, Hr. cbn. eexists. split; [reflexivity|exact Hd].
  - destruct (nth_error (rs_held s) k) as [m|] eqn:Ek; [|split; [|split]; assumption].
    split; [|split]; cbn [rs_mgrs rs_held rs_live rs_dump].
    + intros i r' Hi. pose proof (cnt_remove_nth i k _ m Ek) as Hcnt.
      destruct (Nat.eq_dec m i) as [->|Hne].
      * rewrite upd_same in Hi. destruct (nth_error (rs_mgrs s) i) as [r|] eqn:Er; [|discriminate]. cbn in Hi.
        inversion Hi; subst. cbn [r_cur]. rewrite (Hc _ _ Er). rewrite Nat.eqb_refl in Hcnt. lia.
      * rewrite upd_other in Hi by exact Hne. rewrite (Hc _ _ Hi).
        destruct (Nat.eqb_spec i m); [congruence|]. lia.
    + intros x Hx. rewrite upd_length. apply Hh.
      clear -Hx. revert k Hx. induction (rs_held s) as [|y l IH]; intros [|k] Hx; cbn [remove_nth] in Hx; try contradiction.
      * now right.
      * destruct Hx as [<-|Hx]; [now left|right; eapply IH; eauto].
    + destruct (rs_live s) as [m'|]; [|exact Hl]. destruct Hl as (r & Hr & Hd).
      destruct (Nat.eq_dec m m') as [->|Hne].
      * rewrite upd_same, Hr. cbn. eexists. split; [reflexivity|exact Hd].
      * rewrite upd_other by exact Hne. eauto.
Qed.

Lemma rinv_run ops : forall s, rinv s -> rinv (fold_left (rstep true) ops s).
Proof. induction ops as [|o ops IH]; intros s H; cbn [fold_left]; [exact H|]. apply IH. now apply rinv_step. Qed.

(* for every history: each manager's count is the number of requests in flight that counted themselves in it *)
Theorem counts_are_holders ops i r :
  nth_error (rs_mgrs (rrun true ops)) i = Some r -> r_cur r = Z.of_nat (cnt i (rs_held (rrun true ops))).
Proof. intros H. destruct (rinv_run ops rinit rinv_init) as (Hc & _). now apply Hc. Qed.

(* after all holders have released: every counter is 0, and the live manager is exactly the manager of a cluster freshly
   built from the stored configuration - so CanCreate answers alike *)
Theorem released_means_fresh ops :
  rs_held (rrun true ops) = [] ->
  (forall i r, nth_error (rs_mgrs (rrun true ops)) i = Some r -> r_cur r = 0) /\
  live_resource (rrun true ops) = fresh_resource (rrun true ops).
Proof.
  intros Hh. destruct (rinv_run ops rinit rinv_init) as (Hc & _ & Hl). fold (rrun true ops) in *. split.
  - intros i r Hi. rewrite (Hc _ _ Hi), Hh. reflexivity.
  - unfold live_resource, fresh_resource. destruct (rs_live (rrun true ops)) as [m|].
    + destruct Hl as (r & Hr & Hd). rewrite Hr, Hd. f_equal. destruct r as [mx cur]. cbn [r_max]. f_equal.
      specialize (Hc _ _ Hr). rewrite Hh in Hc. exact Hc.
    + rewrite Hl. reflexivity.
Qed.

Corollary released_can_create ops : rs_held (rrun true ops) = [] ->
  option_map can_create (live_resource (rrun true ops)) = option_map can_create (fresh_resource (rrun true ops)).
Proof. intros H. destruct (released_means_fresh ops H) as [_ ->]. reflexivity. Qed.

(* the copy-the-counters variant: acquire, update (identical threshold), release -> the live count is stuck at 1 and a
   cluster with threshold 1 refuses for ever what a fresh start serves *)
Theorem copy_variant_leaks :
  let s := rrun false [RUpdate 1; RAcquire; RUpdate 1; RRelease 0] in
  rs_held s = [] /\ option_map r_cur (live_resource s) = Some 1 /\
  option_map can_create (live_resource s) = Some false /\ option_map can_create (fresh_resource s) = Some true.
Proof. vm_compute. repeat split. Qed.
