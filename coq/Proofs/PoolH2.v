(* Proofs about Model/PoolH2.v (connection accounting of the HTTP/2 pool, atomic operations): for the repaired code shape
   (h2_fixed) and EVERY history, upstream_connection_active = number of open connections the pool created (so >= 0, and 0
   on a pool with no open connection), the shared client is an open connection, and every open connection that received
   no GOAWAY is the shared client (none is orphaned).  The invariant is stated for an arbitrary start state so that the
   interleaving model (Proofs/PoolH2Race.v) can hand over its final states. *)
From Coq Require Import List ZArith Bool Arith Lia.
From RecordUpdate Require Import RecordUpdate.
From MV Require Import Model.Pool Model.PoolH2.
Import ListNotations.
Open Scope Z_scope.

(* number of open connections among 0..n-1 *)
Fixpoint nopen (cl : nat -> h2client) (n : nat) : Z :=
  match n with O => 0 | S k => nopen cl k + (if h_closed (cl k) then 0 else 1) end.

Lemma nopen_nonneg : forall cl n, 0 <= nopen cl n.
Proof. induction n as [|n IH]; cbn; [lia|]. destruct (h_closed (cl n)); lia. Qed.

Lemma nopen_upd_ge : forall cl n c v, (n <= c)%nat -> nopen (upd cl c v) n = nopen cl n.
Proof.
  induction n as [|n IH]; intros c v H; cbn; [reflexivity|].
  rewrite IH by lia. unfold upd. destruct (Nat.eqb n c) eqn:E; [apply Nat.eqb_eq in E; lia|reflexivity].
Qed.

Lemma nopen_upd_lt : forall cl n c v, (c < n)%nat ->
  nopen (upd cl c v) n = nopen cl n - (if h_closed (cl c) then 0 else 1) + (if h_closed v then 0 else 1).
Proof.
  induction n as [|n IH]; intros c v H; [lia|]. cbn.
  destruct (Nat.eq_dec c n) as [->|Hne].
  - rewrite nopen_upd_ge by lia. unfold upd. rewrite Nat.eqb_refl. lia.
  - rewrite IH by lia. unfold upd. destruct (Nat.eqb n c) eqn:E; [apply Nat.eqb_eq in E; lia|]. lia.
Qed.

Lemma nopen_zero : forall cl n, (forall c, (c < n)%nat -> h_closed (cl c) = true) -> nopen cl n = 0.
Proof.
  induction n as [|n IH]; intros H; cbn; [reflexivity|]. rewrite IH by (intros c Hc; apply H; lia).
  rewrite (H n) by lia. reflexivity.
Qed.

Lemma nopen_pos : forall cl n c, (c < n)%nat -> h_closed (cl c) = false -> 0 < nopen cl n.
Proof.
  induction n as [|n IH]; intros c Hc Ho; [lia|]. cbn.
  destruct (Nat.eq_dec c n) as [->|Hne].
  - rewrite Ho. pose proof (nopen_nonneg cl n). lia.
  - specialize (IH c ltac:(lia) Ho). destruct (h_closed (cl n)); lia.
Qed.

Record H2Inv (p : h2pool) : Prop := mkH2Inv {
  hi_active : h_active p = nopen (h_cl p) (h_n p);
  hi_cur : forall c, h_cur p = Some c -> (c < h_n p)%nat /\ h_closed (h_cl p c) = false;
  hi_orphan : forall c, (c < h_n p)%nat -> h_closed (h_cl p c) = false -> h_goaway (h_cl p c) = false -> h_cur p = Some c }.

Lemma h2init_inv : H2Inv h2init.
Proof. split; cbn; [reflexivity|discriminate|intros; lia]. Qed.

Lemma fixed_sw : forall sw, h2_fixed sw = true -> sw = h2sw_fixed.
Proof. intros [[] [] []]; cbn; intros H; try discriminate; reflexivity. Qed.

Lemma close_inv : forall p c, H2Inv p -> H2Inv (h2_close h2sw_fixed c p).
Proof.
  intros p c [Ha Hc Ho]. unfold h2_close.
  destruct (Nat.ltb c (h_n p)) eqn:Hlt; cbn [andb]; [|split; assumption].
  destruct (h_closed (h_cl p c)) eqn:Hcl; cbn [negb]; [split; assumption|].
  apply Nat.ltb_lt in Hlt. cbn. split; cbn.
  - rewrite nopen_upd_lt by assumption. rewrite Hcl. cbn. lia.
  - intros c' H. destruct (h_cur p) as [c0|] eqn:Ec; [|discriminate].
    destruct (Nat.eqb c0 c) eqn:E; [discriminate|]. injection H as ->.
    destruct (Hc c' eq_refl) as [H1 H2]. split; [assumption|]. unfold upd. rewrite E. assumption.
  - intros c' H1 H2 H3. unfold upd in H2, H3. destruct (Nat.eqb c' c) eqn:E; [cbn in H2; discriminate|].
    rewrite (Ho c' H1 H2 H3). rewrite E. reflexivity.
Qed.

Lemma drop_inv : forall p c, H2Inv p -> h_cur p = Some c -> h_goaway (h_cl p c) = true -> H2Inv (p <| h_cur := None |>).
Proof.
  intros p c [Ha Hc Ho] Hcur Hga. split; cbn; [assumption|discriminate|].
  intros c' H1 H2 H3. pose proof (Ho c' H1 H2 H3) as H. rewrite Hcur in H. injection H as ->. congruence.
Qed.

Lemma dial_inv : forall p, H2Inv p -> h_cur p = None ->
  H2Inv (p <| h_cl := upd (h_cl p) (h_n p) (mkH2C false false 0) |> <| h_n := S (h_n p) |> <| h_cur := Some (h_n p) |> <| h_active := h_active p + 1 |>).
Proof.
  intros p [Ha Hc Ho] Hcur. split; cbn.
  - rewrite nopen_upd_ge by lia. unfold upd. rewrite Nat.eqb_refl. cbn. lia.
  - intros c H. injection H as <-. split; [lia|]. unfold upd. rewrite Nat.eqb_refl. reflexivity.
  - intros c H1 H2 H3. unfold upd in H2, H3. destruct (Nat.eqb c (h_n p)) eqn:E; [apply Nat.eqb_eq in E; subst; reflexivity|].
    apply Nat.eqb_neq in E. pose proof (Ho c ltac:(lia) H2 H3) as H. congruence.
Qed.

Lemma goaway_inv : forall p c, H2Inv p -> (c < h_n p)%nat ->
  H2Inv (h2_set p c (mkH2C (h_closed (h_cl p c)) true (h_decs (h_cl p c)))).
Proof.
  intros p c [Ha Hc Ho] Hlt. unfold h2_set. split; cbn.
  - rewrite nopen_upd_lt by assumption. cbn. destruct (h_closed (h_cl p c)); lia.
  - intros c' H. destruct (Hc c' H) as [H1 H2]. split; [assumption|]. unfold upd. destruct (Nat.eqb c' c) eqn:E; [|assumption].
    apply Nat.eqb_eq in E. subst. cbn. assumption.
  - intros c' H1 H2 H3. unfold upd in H2, H3. destruct (Nat.eqb c' c) eqn:E; [cbn in H3; discriminate|]. apply Ho; assumption.
Qed.

Lemma step_inv : forall p o, H2Inv p -> H2Inv (fst (h2step h2sw_fixed p o)).
Proof.
  intros p o Hi. destruct o as [d|c|c|]; cbn [h2step].
  - cbn [h2sw_fixed h2_dec_on_drop negb].
    destruct (h_cur p) as [c|] eqn:Ec.
    + destruct (h_goaway (h_cl p c)) eqn:Eg.
      * pose proof (drop_inv p c Hi Ec Eg) as Hd. cbn [h_cur set].
        change (h_cur (p <| h_cur := None |>)) with (@None nat).
        destruct (dial_ok d); [|exact Hd].
        cbn [fst]. apply (dial_inv _ Hd). reflexivity.
      * rewrite Ec. exact Hi.
    + rewrite Ec. destruct (dial_ok d); [|exact Hi]. cbn [fst]. apply dial_inv; assumption.
  - destruct (Nat.ltb c (h_n p)) eqn:Hlt; [|exact Hi]. apply Nat.ltb_lt in Hlt. cbn [fst]. apply goaway_inv; assumption.
  - cbn [fst]. apply close_inv. assumption.
  - cbn [fst]. destruct (h_cur p); [apply close_inv|]; assumption.
Qed.

Lemma run_inv : forall ops p, H2Inv p -> H2Inv (h2run h2sw_fixed ops p).
Proof.
  unfold h2run. induction ops as [|o ops IH]; intros p Hi; cbn; [assumption|]. apply IH. apply step_inv. assumption.
Qed.

(* ---- the property, from any state that satisfies the invariant (in particular the empty pool) ---------------- *)
Theorem h2_gauge_from : forall sw p ops, h2_fixed sw = true -> H2Inv p ->
  let q := h2run sw ops p in
  h_active q = nopen (h_cl q) (h_n q) /\ 0 <= h_active q /\
  ((forall c, (c < h_n q)%nat -> h_closed (h_cl q c) = true) -> h_active q = 0) /\
  (forall c, (c < h_n q)%nat -> h_closed (h_cl q c) = false -> h_goaway (h_cl q c) = false -> h_cur q = Some c) /\
  (forall c, h_cur q = Some c -> (c < h_n q)%nat /\ h_closed (h_cl q c) = false).
Proof.
  intros sw p ops Hf Hi q. apply fixed_sw in Hf. subst sw.
  destruct (run_inv ops p Hi) as [Ha Hc Ho]. fold q in Ha, Hc, Ho.
  repeat split.
  - assumption.
  - rewrite Ha. apply nopen_nonneg.
  - intros H. rewrite Ha. apply nopen_zero. assumption.
  - assumption.
  - apply (Hc c H).
  - apply (Hc c H).
Qed.

Theorem h2_gauge : forall sw ops, h2_fixed sw = true ->
  let q := h2run sw ops h2init in
  h_active q = nopen (h_cl q) (h_n q) /\ 0 <= h_active q /\
  ((forall c, (c < h_n q)%nat -> h_closed (h_cl q c) = true) -> h_active q = 0) /\
  (forall c, (c < h_n q)%nat -> h_closed (h_cl q c) = false -> h_goaway (h_cl q c) = false -> h_cur q = Some c) /\
  (forall c, h_cur q = Some c -> (c < h_n q)%nat /\ h_closed (h_cl q c) = false).
Proof. intros sw ops Hf. apply h2_gauge_from; [assumption|apply h2init_inv]. Qed.

(* a stream is only ever placed on an open connection that has received no GOAWAY, and that connection is the shared one *)
Theorem h2_lease_sound : forall sw ops d q c, h2_fixed sw = true ->
  h2step sw (h2run sw ops h2init) (HNew d) = (q, H2L c) ->
  (c < h_n q)%nat /\ h_closed (h_cl q c) = false /\ h_goaway (h_cl q c) = false /\ h_cur q = Some c.
Proof.
  intros sw ops d q c Hf H. apply fixed_sw in Hf. subst sw.
  pose proof (run_inv ops h2init h2init_inv) as Hi. set (p := h2run h2sw_fixed ops h2init) in *.
  pose proof (step_inv p (HNew d) Hi) as Hq. rewrite H in Hq. cbn [fst] in Hq.
  cbn [h2step h2sw_fixed h2_dec_on_drop negb] in H.
  assert (Hcur : h_cur q = Some c /\ h_goaway (h_cl q c) = false).
  { destruct (h_cur p) as [c0|] eqn:Ec.
    - destruct (h_goaway (h_cl p c0)) eqn:Eg.
      + change (h_cur (p <| h_cur := None |>)) with (@None nat) in H.
        destruct (dial_ok d); [|discriminate]. injection H as <- <-. cbn. unfold upd. rewrite Nat.eqb_refl. split; reflexivity.
      + rewrite Ec in H. injection H as <- <-. split; assumption.
    - rewrite Ec in H. destruct (dial_ok d); [|discriminate]. injection H as <- <-. cbn. unfold upd. rewrite Nat.eqb_refl. split; reflexivity. }
  destruct Hcur as [H1 H2]. destruct (hi_cur q Hq c H1) as [H3 H4]. repeat split; assumption.
Qed.

(* ---- the code before the repair: GOAWAY then close on an idle pool leaves the gauge at 1 with nothing open ------- *)
Definition h2_idle_zero_statement (sw : h2sw) : Prop := forall ops,
  let q := h2run sw ops h2init in
  (forall c, (c < h_n q)%nat -> h_closed (h_cl q c) = true) -> h_active q = 0.

Theorem h2_old_idle_zero_refuted : ~ h2_idle_zero_statement h2sw_old.
Proof.
  intros H. specialize (H [HNew DialOk; HGoAway 0%nat; HClose 0%nat]). cbn in H.
  assert (E : 1 = 0); [|discriminate]. apply H. intros c Hc. assert (c = 0%nat) as -> by lia. reflexivity.
Qed.

(* the repaired accounting without the identity test: a close event of a connection that is NOT the shared client
   (possible once two connections coexist) orphans the shared one - see Proofs/PoolH2Race.v for how two coexist *)
Example h2_old_counts_goaway_drop_early :
  let q := h2run h2sw_old [HNew DialOk; HGoAway 0%nat; HNew DialOk] h2init in
  h_active q = 1 /\ nopen (h_cl q) (h_n q) = 2.
Proof. vm_compute. split; reflexivity. Qed.
