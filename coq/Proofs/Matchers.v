(* Proofs/Matchers.v (codec) - protocol matchers: monotone on prefixes; which matchers can accept the same bytes;
   SelectStreamFactoryProtocol is independent of the map iteration order when at most one matcher accepts. *)
From Coq Require Import List NArith Lia ZifyBool ZifyNat ZifyN Bool Permutation.
From MV Require Import Lib.Bytes Model.CodecParams Model.Matchers.
Import ListNotations.
Open Scope N_scope.

Lemma byte_at_app b e i : i < blen b -> byte_at (b ++ e) i = byte_at b i.
Proof. intros H. unfold byte_at. apply app_nth1. unfold blen in H. lia. Qed.

Lemma is_prefix_app p b e : is_prefix p b = true -> is_prefix p (b ++ e) = true.
Proof.
  revert b; induction p as [|x p IH]; intros [|y b] H; cbn in *; try reflexivity; try discriminate.
  apply andb_true_iff in H. destruct H as [H1 H2]. rewrite H1. cbn. now apply IH.
Qed.
Lemma is_prefix_app_len p b e : blen p <= blen b -> is_prefix p (b ++ e) = is_prefix p b.
Proof.
  revert b; induction p as [|x p IH]; intros [|y b] H; cbn [is_prefix app]; try reflexivity.
  - rewrite blen_cons, blen_nil in H. lia.
  - rewrite !blen_cons in H. rewrite IH by lia. reflexivity.
Qed.
(* a proper prefix of b ++ e that is at least as long as b starts with b *)
Lemma is_prefix_trans_short p b e : is_prefix p (b ++ e) = true -> blen b <= blen p -> is_prefix b p = true.
Proof.
  revert b; induction p as [|x p IH]; intros [|y b] H Hl; cbn [is_prefix app] in *; try reflexivity.
  - rewrite blen_cons, blen_nil in Hl. lia.
  - apply andb_true_iff in H. destruct H as [H1 H2]. rewrite !blen_cons in Hl.
    rewrite N.eqb_sym, H1. cbn. apply IH; [exact H2|lia].
Qed.
Lemma is_prefix_app_l b e p : is_prefix (b ++ e) p = true -> is_prefix b p = true.
Proof.
  revert p; induction b as [|x b IH]; intros [|y p] H; cbn [is_prefix app] in *; try reflexivity; try discriminate.
  apply andb_true_iff in H. destruct H as [H1 H2]. rewrite H1. cbn. now apply IH.
Qed.

(* ---- monotonicity: Success and Failed are final, only Again may change -------------------------------- *)
Lemma bolt_match_mono code b e r : r <> MAgain -> bolt_match code b = r -> bolt_match code (b ++ e) = r.
Proof. destruct b as [|x b]; cbn; [congruence|auto]. Qed.

Lemma dubbo_match_mono b e r : r <> MAgain -> dubbo_match b = r -> dubbo_match (b ++ e) = r.
Proof.
  unfold dubbo_match. intros Hr. destruct (blen b <? dubbo_HeaderLen) eqn:E; [congruence|].
  rewrite blen_app. replace (blen b + blen e <? dubbo_HeaderLen) with false by lia.
  rewrite !byte_at_app by (unfold dubbo_HeaderLen in *; lia). auto.
Qed.
Lemma thrift_match_mono b e r : r <> MAgain -> thrift_match b = r -> thrift_match (b ++ e) = r.
Proof.
  unfold thrift_match, thrift_match_sw. intros Hr. destruct (blen b <? thrift_MessageLenSize + thrift_MagicLen) eqn:E; [congruence|].
  rewrite blen_app. replace (blen b + blen e <? thrift_MessageLenSize + thrift_MagicLen) with false by lia.
  rewrite !byte_at_app by (unfold thrift_MessageLenSize, thrift_MagicLen in *; lia). auto.
Qed.
Lemma tars_match_mono b e r : r <> MAgain -> tars_match b = r -> tars_match (b ++ e) = r.
Proof.
  unfold tars_match. intros Hr. destruct (blen b <? tars_MessageSizeLen + tars_IVersionLen) eqn:E; [congruence|].
  rewrite blen_app. replace (blen b + blen e <? tars_MessageSizeLen + tars_IVersionLen) with false by lia.
  rewrite !byte_at_app by (unfold tars_MessageSizeLen, tars_IVersionLen, tars_IVersionHeaderIdx in *; lia).
  rewrite sub_app by (unfold tars_MessageSizeLen, tars_IVersionLen in *; lia).
  destruct (_ && _); [|auto].
  destruct ((_ <? 4) || _); [auto|].
  destruct (blen b <? be_decw (sub b 0 4)) eqn:E2; [congruence|].
  replace (blen b + blen e <? be_decw (sub b 0 4)) with false by lia. auto.
Qed.

Lemma http_methods_short : forallb (fun m => blen m <=? http_max_method) http_methods = true.
Proof. vm_compute. reflexivity. Qed.

Lemma existsb_prefix_app b e : existsb (fun m => is_prefix m b) http_methods = true ->
  existsb (fun m => is_prefix m (b ++ e)) http_methods = true.
Proof.
  rewrite !existsb_exists. intros [m [Hi Hp]]. exists m. split; [exact Hi|]. now apply is_prefix_app.
Qed.
Lemma existsb_prefix_len b e : http_max_method <= blen b ->
  existsb (fun m => is_prefix m (b ++ e)) http_methods = existsb (fun m => is_prefix m b) http_methods.
Proof.
  intros Hl. pose proof http_methods_short as Hs. rewrite forallb_forall in Hs.
  induction http_methods as [|m ms IH]; [reflexivity|]. cbn [existsb].
  rewrite is_prefix_app_len by (specialize (Hs m (or_introl eq_refl)); lia).
  rewrite IH; [reflexivity|]. intros x Hx. apply Hs. now right.
Qed.

Lemma http1_match_mono b e r : r <> MAgain -> http1_match b = r -> http1_match (b ++ e) = r.
Proof.
  unfold http1_match. intros Hr. destruct (blen b <? http_min_method) eqn:E; [congruence|].
  rewrite blen_app. replace (blen b + blen e <? http_min_method) with false by lia.
  destruct (existsb (fun m => is_prefix m b) http_methods) eqn:Ex.
  - rewrite existsb_prefix_app by exact Ex. auto.
  - destruct (blen b <? http_max_method) eqn:E2; [congruence|].
    rewrite existsb_prefix_len by lia. rewrite Ex.
    replace (blen b + blen e <? http_max_method) with false by lia. auto.
Qed.

Lemma http2_match_mono b e r : r <> MAgain -> http2_match b = r -> http2_match (b ++ e) = r.
Proof.
  unfold http2_match. intros Hr. rewrite blen_app. destruct (blen h2_preface <=? blen b) eqn:E.
  - replace (blen h2_preface <=? blen b + blen e) with true by lia.
    rewrite is_prefix_app_len by lia. auto.
  - destruct (is_prefix b h2_preface) eqn:Ep; [congruence|]. intros <-.
    destruct (blen h2_preface <=? blen b + blen e) eqn:E2.
    + destruct (is_prefix h2_preface (b ++ e)) eqn:Ep2; [|reflexivity].
      apply is_prefix_trans_short in Ep2; [congruence|lia].
    + destruct (is_prefix (b ++ e) h2_preface) eqn:Ep2; [|reflexivity].
      apply is_prefix_app_l in Ep2. congruence.
Qed.

Theorem matcher_monotone : forall p b e r, r <> MAgain -> matcher p b = r -> matcher p (b ++ e) = r.
Proof.
  intros [| | | | | |] b e r Hr; cbn [matcher].
  - apply bolt_match_mono, Hr. - apply bolt_match_mono, Hr. - apply dubbo_match_mono, Hr.
  - apply thrift_match_mono, Hr. - apply tars_match_mono, Hr. - apply http1_match_mono, Hr. - apply http2_match_mono, Hr.
Qed.

(* ---- which matchers can accept the same bytes ---------------------------------------------------------- *)
(* what Success says about the first two bytes *)
Definition head2 (b : bytes) : N * N := (byte_at b 0, byte_at b 1).

Lemma bolt_success code b : bolt_match code b = MSuccess -> byte_at b 0 = code.
Proof. destruct b as [|x r]; cbn; [discriminate|]. destruct (x =? code) eqn:E; [|discriminate]. intros _. unfold byte_at. cbn. lia. Qed.
Lemma dubbo_success b : dubbo_match b = MSuccess -> byte_at b 0 = 218.
Proof.
  unfold dubbo_match. destruct (_ <? _); [discriminate|]. destruct (byte_at b 0 =? dubbo_Magic0) eqn:E; [|discriminate].
  intros _. unfold dubbo_Magic0 in E. lia.
Qed.
Lemma tars_success b : wf_bytes b -> tars_match b = MSuccess -> byte_at b 0 = 0.
Proof.
  intros Hw. unfold tars_match. destruct (blen b <? _) eqn:E0; [discriminate|].
  destruct (_ && _); [|discriminate].
  destruct ((be_decw (sub b 0 4) <? 4) || (tars_MaxPackageLength <? be_decw (sub b 0 4))) eqn:E; [discriminate|].
  intros _. unfold tars_MessageSizeLen, tars_IVersionLen, tars_MaxPackageLength in *.
  destruct b as [|x [|y [|z [|w r]]]]; try (unfold blen in E0; cbn in E0; lia).
  unfold byte_at. cbn [N.to_nat nth].
  inversion Hw as [|? ? Hx Hw1]; subst. inversion Hw1 as [|? ? Hy Hw2]; subst. inversion Hw2 as [|? ? Hz Hw3]; subst. inversion Hw3 as [|? ? Hww _]; subst.
  unfold sub in E. change (N.to_nat (4 - 0)) with 4%nat in E. change (N.to_nat 0) with 0%nat in E. cbn [skipn firstn] in E.
  unfold be_decw, be_dec in E. cbn [map fold_left] in E.
  rewrite !N.mod_small in E by assumption. lia.
Qed.
Lemma http1_success b : http1_match b = MSuccess ->
  In (byte_at b 0) [67; 68; 71; 72; 76; 79; 80; 84; 85] /\ (byte_at b 0 = 80 -> In (byte_at b 1) [65; 79; 85]).
Proof.
  unfold http1_match. destruct (blen b <? http_min_method) eqn:E0; [discriminate|].
  destruct (existsb (fun m => is_prefix m b) http_methods) eqn:E; [|destruct (blen b <? http_max_method); intros H; discriminate H].
  intros _. apply existsb_exists in E. destruct E as [m [Hi Hp]].
  unfold http_methods in Hi. cbn [In] in Hi.
  destruct b as [|x [|y r]]; try (unfold blen, http_min_method in E0; cbn in E0; lia).
  unfold byte_at. cbn [N.to_nat nth Pos.to_nat Pos.iter_op Nat.add].
  assert (Hxy : forall a c t, is_prefix (a :: c :: t) (x :: y :: r) = true -> x = a /\ y = c).
  { intros a c t H. cbn [is_prefix] in H. apply andb_true_iff in H. destruct H as [H0 H].
    apply andb_true_iff in H. destruct H as [H1 _]. lia. }
  repeat (destruct Hi as [<-|Hi]; [apply Hxy in Hp; destruct Hp as [-> ->]; cbn [In]; split; [tauto|intros; try lia; tauto]|]).
  contradiction.
Qed.
Lemma http2_success b : http2_match b = MSuccess -> byte_at b 0 = 80 /\ byte_at b 1 = 82.
Proof.
  unfold http2_match. destruct (_ <=? _) eqn:E; [|destruct (is_prefix b h2_preface); discriminate].
  destruct (is_prefix h2_preface b) eqn:Ep; [|discriminate]. intros _.
  destruct b as [|x [|y r]]; try (unfold blen, h2_preface in E; cbn in E; lia).
  unfold h2_preface in Ep. cbn [is_prefix] in Ep.
  apply andb_true_iff in Ep. destruct Ep as [H0 Ep]. apply andb_true_iff in Ep. destruct Ep as [H1 _].
  unfold byte_at. change (N.to_nat 0) with 0%nat. change (N.to_nat 1) with 1%nat. cbn [nth]. lia.
Qed.

(* the repaired dubbo-thrift matcher (first byte of the length prefix zero, magic at 4..5) *)
Lemma thrift_success b : thrift_match b = MSuccess -> byte_at b 0 = 0 /\ byte_at b 4 = 218.
Proof.
  unfold thrift_match, thrift_match_sw. change thrift_match_first_zero with true.
  destruct (blen b <? _); [discriminate|]. cbn [andb].
  destruct (byte_at b 0 =? 0) eqn:E0; cbn [negb]; [|discriminate].
  destruct (byte_at b 4 =? thrift_Magic0) eqn:E4; cbn [andb]; [|discriminate].
  intros _. unfold thrift_Magic0 in E4. lia.
Qed.
Lemma tars_success4 b : tars_match b = MSuccess -> byte_at b 4 = 16.
Proof.
  unfold tars_match. destruct (blen b <? _); [discriminate|].
  destruct (byte_at b tars_IVersionHeaderIdx =? 16) eqn:E; cbn [andb]; [|discriminate].
  intros _. unfold tars_IVersionHeaderIdx in E. lia.
Qed.

(* EXCLUSIVITY: no two different matchers accept the same (well-formed) bytes *)
Theorem matchers_exclusive : forall b p q, wf_bytes b ->
  matcher p b = MSuccess -> matcher q b = MSuccess -> p = q.
Proof.
  intros b p q Hw Hp Hq.
  destruct p, q; try reflexivity; exfalso; cbn [matcher] in Hp, Hq;
    try (pose proof (tars_success4 _ Hp)); try (pose proof (tars_success4 _ Hq));
    repeat match goal with
    | H : bolt_match _ _ = MSuccess |- _ => apply bolt_success in H
    | H : dubbo_match _ = MSuccess |- _ => apply dubbo_success in H
    | H : thrift_match _ = MSuccess |- _ => apply thrift_success in H; destruct H as [H ?]
    | H : tars_match _ = MSuccess |- _ => apply (tars_success _ Hw) in H
    | H : http1_match _ = MSuccess |- _ => apply http1_success in H; destruct H as [H ?]
    | H : http2_match _ = MSuccess |- _ => apply http2_success in H; destruct H as [H ?]
    end; unfold bolt_ProtocolCode, boltv2_ProtocolCode in *; cbn [In] in *;
    try lia;
    try (repeat match goal with H : _ \/ _ |- _ => destruct H end; try lia; try contradiction);
    try (match goal with H : byte_at b 0 = 80 -> _, H0 : byte_at b 0 = 80 |- _ => specialize (H H0); cbn [In] in H end;
         repeat match goal with H : _ \/ _ |- _ => destruct H end; try lia; try contradiction).
Qed.

(* the matcher before the repair (no check of the first byte) accepted a bolt frame carrying 0xda 0xbc at offset 4..5 *)
Lemma unrepaired_thrift_collides :
  bolt_match bolt_ProtocolCode [1;1;0;1;218; 188;0;0;7; 1; 0;0;0;100; 0;0; 0;0; 0;0;0;0] = MSuccess /\
  thrift_match_sw false [1;1;0;1;218; 188;0;0;7; 1; 0;0;0;100; 0;0; 0;0; 0;0;0;0] = MSuccess /\
  thrift_match [1;1;0;1;218; 188;0;0;7; 1; 0;0;0;100; 0;0; 0;0; 0;0;0;0] = MFailed.
Proof. vm_compute. repeat split; reflexivity. Qed.

(* ---- SelectStreamFactoryProtocol and the map iteration order ------------------------------------------- *)
Definition at_most_one (b : bytes) : Prop :=
  forall p q, matcher p b = MSuccess -> matcher q b = MSuccess -> p = q.

Lemma select_from_spec order b : forall again,
  (exists p, In p order /\ matcher p b = MSuccess /\ select_from order b again = SelProto p) \/
  ((forall p, In p order -> matcher p b <> MSuccess) /\
   select_from order b again = if again || existsb (fun p => mres_eqb (matcher p b) MAgain) order then SelAgain else SelFailed).
Proof.
  induction order as [|p r IH]; intros again; cbn [select_from existsb].
  - right. split; [intros ? []|]. now rewrite orb_false_r.
  - destruct (matcher p b) eqn:E.
    + destruct (IH true) as [[q [Hi [Hs He]]]|[Hn He]].
      * left. exists q. split; [now right|]. split; assumption.
      * right. split; [intros q [<-|Hq]; [congruence|now apply Hn]|]. rewrite He. cbn. now rewrite orb_true_r.
    + left. exists p. split; [now left|]. split; [exact E|reflexivity].
    + destruct (IH again) as [[q [Hi [Hs He]]]|[Hn He]].
      * left. exists q. split; [now right|]. split; assumption.
      * right. split; [intros q [<-|Hq]; [congruence|now apply Hn]|]. rewrite He. cbn. reflexivity.
Qed.

Lemma existsb_perm {A} (f : A -> bool) l l' : Permutation l l' -> existsb f l = existsb f l'.
Proof.
  induction 1; cbn; try congruence.
  - destruct (f x), (f y); reflexivity.
Qed.

Theorem select_order_independent : forall b order order', Permutation order order' -> at_most_one b ->
  select order b = select order' b.
Proof.
  intros b order order' Hp H1. unfold select.
  destruct (select_from_spec order b false) as [[p [Hi [Hs He]]]|[Hn He]];
  destruct (select_from_spec order' b false) as [[q [Hi' [Hs' He']]]|[Hn' He']].
  - rewrite He, He'. f_equal. now apply H1.
  - exfalso. apply (Hn' p); [eapply Permutation_in; eauto|exact Hs].
  - exfalso. apply (Hn q); [eapply Permutation_in; [apply Permutation_sym; eauto|exact Hi']|exact Hs'].
  - rewrite He, He'. cbn [orb]. now rewrite (existsb_perm _ _ _ Hp).
Qed.

(* a decision taken on a prefix is the decision on every extension, whatever the order, when at most one
   matcher accepts the extension *)
Theorem select_prefix_stable : forall b e order p, at_most_one (b ++ e) ->
  select order b = SelProto p -> select order (b ++ e) = SelProto p.
Proof.
  intros b e order p H1 Hs. unfold select in *.
  destruct (select_from_spec order b false) as [[q [Hi [Hq He]]]|[Hn He]].
  - rewrite He in Hs. inversion Hs; subst q.
    assert (Hq' : matcher p (b ++ e) = MSuccess) by (apply matcher_monotone; [discriminate|exact Hq]).
    destruct (select_from_spec order (b ++ e) false) as [[q [Hi' [Hs' He']]]|[Hn' He']].
    + rewrite He'. f_equal. now apply H1.
    + exfalso. now apply (Hn' p).
  - rewrite He in Hs. destruct (_ || _); discriminate.
Qed.

Lemma wf_at_most_one b : wf_bytes b -> at_most_one b.
Proof. intros Hw p q. now apply matchers_exclusive. Qed.

(* hence, for well-formed bytes: the selection does not depend on the iteration order of the factory map and a protocol
   chosen on a first read is the protocol chosen on every longer first read *)
Theorem select_order_independent_wf : forall b order order', wf_bytes b -> Permutation order order' ->
  select order b = select order' b.
Proof. intros b o o' Hw Hp. apply select_order_independent; [exact Hp|now apply wf_at_most_one]. Qed.
Theorem select_prefix_stable_wf : forall b e order p, wf_bytes (b ++ e) ->
  select order b = SelProto p -> select order (b ++ e) = SelProto p.
Proof. intros b e o p Hw. apply select_prefix_stable. now apply wf_at_most_one. Qed.
