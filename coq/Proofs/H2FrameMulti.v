(* Proofs/H2FrameMulti.v (group h2): header blocks split over HEADERS + CONTINUATION frames.
   - feeding the fragments of a valid header block one by one to the HPACK decoder (as readMetaFrame does) gives the
     same fields and table as the whole block, for EVERY way of cutting the block (empty fragments included);
   - hence a HEADERS frame followed by any number of CONTINUATION frames is read as ONE MetaHeadersFrame with
     exactly the encoded fields;
   - composed with the sender (Proofs/H2Send.v): what writeHeaders sends for a block is read back as its fields. *)
From Coq Require Import List NArith ZArith Arith Lia Bool.
From Coq Require Import ZifyBool ZifyNat ZifyN.
From MV Require Import Lib.HBits Gen.HpackTables Gen.H2Src Model.Hpack Model.H2Frame
  Proofs.HpackInt Proofs.HpackHuffman Proofs.HpackString Proofs.HpackRepr Proofs.HpackTotal Proofs.HpackStable
  Proofs.H2FrameStable Proofs.H2FrameRT Proofs.H2FrameMeta Proofs.H2Send.
Import ListNotations.
Open Scope N_scope.

(* ---------------------------------------------------------------- lists *)
Lemma app_split : forall {A} (x y u v : list A), x ++ y = u ++ v ->
  ((length u <= length x)%nat -> exists x', x = u ++ x' /\ v = x' ++ y) /\
  ((length x < length u)%nat -> exists c, u = x ++ c /\ c <> [] /\ y = c ++ v).
Proof.
  intros A x. induction x as [|a x IH]; intros y u v H.
  - cbn [app] in H. split.
    + intro Hl. destruct u; [|cbn in Hl; lia]. exists []. cbn in *. auto.
    + intro Hl. exists u. split; [reflexivity|]. split; [destruct u; [cbn in Hl; lia | discriminate] | exact H].
  - destruct u as [|b u].
    + cbn [app] in H. split.
      * intros _. exists (a :: x). split; [reflexivity | symmetry; exact H].
      * intro Hl. cbn in Hl. lia.
    + cbn [app] in H. inversion H as [[Hab Hrest]]. subst b. destruct (IH y u v Hrest) as [I1 I2]. split.
      * intro Hl. cbn [length] in Hl. destruct (I1 ltac:(lia)) as [x' [E1 E2]]. exists x'. subst x. auto.
      * intro Hl. cbn [length] in Hl. destruct (I2 ltac:(lia)) as [c [E1 [E2 E3]]]. exists c. subst u. auto.
Qed.

(* ---------------------------------------------------------------- the validity bundle *)
Record mvalid (leading : bool) (st : dstate) (rs : list repr) (sk : msink) (t' : dtab) (sk' : msink) : Prop := {
  mv_emit : d_emit st = true;
  mv_lead : leading = true -> d_first st = true;
  mv_all : dt_allowed (d_tab st) < 2 ^ 32;
  mv_shape : reprs_shape leading rs;
  mv_ok : Forall (repr_ok (d_maxstr st)) rs;
  mv_int : exists fs, interp_reprs (d_tab st) rs = Some (t', fs) /\ Forall (field_fits (d_maxstr st)) fs /\
                      sink_run sk fs = Some sk' }.

Lemma d_with_save_nil_id : forall st, d_save st = [] -> d_with_save st [] = st.
Proof. intros st H. destruct st; cbn in *; subst; reflexivity. Qed.

Lemma d_with_save_save : forall st x, d_with_save (d_with_save st x) [] = d_with_save st [].
Proof. intros. reflexivity. Qed.

(* the Write loop on a PREFIX x of a valid representation stream x ++ y: it succeeds, keeps the incomplete
   representation, and what remains is again a valid stream for the state reached *)
Lemma run_prefix : forall rs leading st sk t' sk' x y fuel,
  mvalid leading st rs sk t' sk' -> d_save st = [] ->
  flat_map ser_repr rs = x ++ y -> (length x <= fuel)%nat ->
  (d_maxstr st = 0 \/ len x <= 2 * (d_maxstr st + 8)) ->
  exists st1 sk1 leading1 rs2,
    meta_loop true fuel st x sk = (st1, sk1, WOk) /\
    mvalid leading1 (d_with_save st1 []) rs2 sk1 t' sk' /\
    flat_map ser_repr rs2 = d_save st1 ++ y /\
    d_maxstr st1 = d_maxstr st /\
    (length (d_save st1) <= length x)%nat /\
    (y = [] -> rs2 = [] /\ d_save st1 = []).
Proof.
  induction rs as [|r rs IH]; intros leading st sk t' sk' x y fuel Hv Hsave Hs Hfuel Hpar.
  - cbn [flat_map] in Hs. symmetry in Hs. apply app_eq_nil in Hs as [Hx Hy]. subst x y.
    exists st, sk, leading, []. destruct fuel; cbn [meta_loop];
      (split; [reflexivity|]); rewrite (d_with_save_nil_id st Hsave), Hsave;
      (split; [exact Hv|]); repeat split; auto.
  - cbn [flat_map] in Hs.
    destruct Hv as [Hemit Hlead Hall Hshape Hok [fs [Hint [Hfits Hsink]]]].
    cbn [interp_reprs] in Hint.
    destruct (interp_repr (d_tab st) r) as [[t1 f1]|] eqn:E1; [|discriminate].
    destruct (interp_reprs t1 rs) as [[t2 f2]|] eqn:E2; [|discriminate].
    inversion Hint; subst t' fs. clear Hint.
    apply Forall_app in Hfits as [Hf1 Hf2].
    inversion Hok as [|? ? Hr Hrs]; subst.
    destruct (ser_repr_nonempty r) as [b0 [tl Eser]].
    assert (Hfull : forall tail, parse_repr st (ser_repr r ++ tail) = HOk (d_with_tab st t1, f1, tail)).
    { intro tail. apply parse_repr_ser; try assumption.
      intros v Hv. subst r. cbn [reprs_shape] in Hshape. apply Hlead. tauto. }
    destruct (app_split x y (ser_repr r) (flat_map ser_repr rs) (eq_sym Hs)) as [SA SB].
    destruct (le_lt_dec (length (ser_repr r)) (length x)) as [Hle | Hlt].
    + (* the representation is complete in x *)
      destruct (SA Hle) as [x' [Ex Ey]]. subst x.
      assert (Hne : exists b tl', ser_repr r ++ x' = b :: tl') by (rewrite Eser; cbn [app]; eauto).
      destruct Hne as [bb [tl' Ebb]].
      destruct fuel as [|fuel]; [rewrite Ebb in Hfuel; cbn in Hfuel; lia|].
      pose proof (is_size_update_ser r x') as Hsu.
      cbn [meta_loop]. rewrite Ebb. rewrite <- Ebb. rewrite Hfull. cbn [fst snd andb]. rewrite Hsu.
      assert (Hlen : (length x' <= fuel)%nat).
      { rewrite app_length, Eser in Hfuel. cbn [length] in Hfuel. lia. }
      assert (Hpar' : d_maxstr st = 0 \/ len x' <= 2 * (d_maxstr st + 8)).
      { destruct Hpar as [Hp | Hp]; [left; exact Hp | right; rewrite len_app in Hp; lia]. }
      pose proof (interp_repr_allowed _ _ _ _ E1) as Hal.
      assert (Hf1s : (exists v, r = RSize v /\ f1 = []) \/ (exists f, f1 = [f] /\ match r with RSize _ => False | _ => True end)).
      { destruct r as [i | k i hv v | k hn n hv v | v]; cbn [interp_repr] in E1.
        - destruct (tab_lookup (d_tab st) i); inversion E1; subst. right. eexists. split; [reflexivity | exact I].
        - destruct (tab_lookup (d_tab st) i); inversion E1; subst. right. eexists. split; [reflexivity | exact I].
        - inversion E1; subst. right. eexists. split; [reflexivity | exact I].
        - destruct (v <=? dt_allowed (d_tab st)); inversion E1; subst. left. eexists. split; reflexivity. }
      destruct Hf1s as [[v [Hrv Hf1e]] | [f [Hf1e Hnot]]].
      * subst r f1. cbn [app] in Hsink. cbn [reprs_shape] in Hshape. destruct Hshape as [Hl Hsh].
        destruct (IH true (d_with_tab st t1) sk t2 sk' x' y fuel) as [st1 [sk1 [l1 [rs2 [H1 [H2 [H3 [H4 [H5 H6]]]]]]]]];
          try assumption.
        { constructor; cbn [d_emit d_first d_tab d_maxstr d_with_tab]; try assumption.
          - intros _. apply Hlead. exact Hl.
          - rewrite Hal. exact Hall.
          - exists f2. auto. }
        exists st1, sk1, l1, rs2. rewrite H1.
        split; [reflexivity|]. split; [exact H2|]. split; [exact H3|]. split; [exact H4|].
        split; [rewrite app_length; lia | exact H6].
      * subst f1. cbn [app sink_run] in Hsink.
        destruct (snd (sink_emit sk f)) eqn:Edis; [discriminate|].
        assert (Hsh' : reprs_shape false rs) by (destruct r; try contradiction; exact Hshape).
        assert (Hnsz : match r with RSize _ => true | _ => false end = false) by (destruct r; try contradiction; reflexivity).
        rewrite Hnsz.
        destruct (IH false (d_with_first (d_with_tab st t1) false) (fst (sink_emit sk f)) t2 sk' x' y fuel)
          as [st1 [sk1 [l1 [rs2 [H1 [H2 [H3 [H4 [H5 H6]]]]]]]]]; try assumption.
        { constructor; cbn [d_emit d_first d_tab d_maxstr d_with_tab d_with_first]; try assumption.
          - intro Hx. discriminate.
          - rewrite Hal. exact Hall.
          - exists f2. auto. }
        exists st1, sk1, l1, rs2. rewrite H1.
        split; [reflexivity|]. split; [exact H2|]. split; [exact H3|]. split; [exact H4|].
        split; [rewrite app_length; lia | exact H6].
    + (* x ends inside the representation *)
      destruct (SB Hlt) as [c [Ec [Hc Ey]]].
      assert (Hvalid : mvalid leading st (r :: rs) sk t2 sk').
      { constructor; try assumption.
        exists (f1 ++ f2). split; [cbn [interp_reprs]; rewrite E1, E2; reflexivity|].
        split; [apply Forall_app; split; assumption | exact Hsink]. }
      destruct x as [|xb xt].
      * cbn [app] in Ec.
        assert (Hml : meta_loop true fuel st [] sk = (st, sk, WOk)) by (destruct fuel; reflexivity).
        exists st, sk, leading, (r :: rs). rewrite Hml.
        split; [reflexivity|]. rewrite (d_with_save_nil_id st Hsave), Hsave.
        split; [exact Hvalid|].
        split; [cbn [flat_map app]; rewrite Ey, Ec; reflexivity|].
        split; [reflexivity|]. split; [cbn; lia|].
        intro Hy. subst y. destruct c; [contradiction | discriminate].
      * destruct fuel as [|fuel]; [cbn in Hfuel; lia|].
        assert (Hnm : parse_repr st (xb :: xt) = HNeedMore).
        { apply (parse_repr_prefix_needmore st (xb :: xt) c (flat_map ser_repr rs) (d_with_tab st t1) f1); [discriminate | exact Hc|].
          rewrite app_assoc, <- Ec. apply Hfull. }
        cbn [meta_loop]. rewrite Hnm.
        assert (Hp : (negb (d_maxstr st =? 0) && (2 * (d_maxstr st + 8) <? len (xb :: xt))) = false) by lia.
        rewrite Hp.
        exists (d_with_save st (xb :: xt)), sk, leading, (r :: rs).
        split; [reflexivity|]. rewrite d_with_save_save, (d_with_save_nil_id st Hsave).
        split; [exact Hvalid|]. cbn [d_save d_with_save d_maxstr].
        split; [cbn [flat_map]; rewrite Ec, Ey, <- app_assoc; reflexivity|].
        split; [reflexivity|]. split; [lia|].
        intro Hy. subst y. destruct c; [contradiction | discriminate].
Qed.

(* feeding the fragments one by one *)
Lemma meta_frags_valid : forall frags leading st sk rs t' sk',
  h2_hpack_multi_update = true ->
  mvalid leading (d_with_save st []) rs sk t' sk' ->
  flat_map ser_repr rs = d_save st ++ concat frags ->
  (d_maxstr st = 0 \/ len (d_save st ++ concat frags) <= 2 * (d_maxstr st + 8)) ->
  (concat frags = [] -> rs = [] /\ d_save st = []) ->
  exists fb, meta_frags st frags sk = (mkD t' (d_maxstr st) true fb [], sk', WOk).
Proof.
  induction frags as [|f frags IH]; intros leading st sk rs t' sk' Hmulti Hv Hs Hpar Hend.
  - destruct (Hend eq_refl) as [Hrs Hsv]. subst rs.
    destruct Hv as [Hemit _ _ _ _ [fs [Hint [_ Hsink]]]]. cbn [interp_reprs] in Hint. inversion Hint; subst.
    cbn [sink_run] in Hsink. inversion Hsink; subst.
    cbn [meta_frags]. exists (d_first st). destruct st; cbn in *; subst; reflexivity.
  - cbn [meta_frags concat] in *.
    destruct f as [|fb0 ft].
    + cbn [meta_write app] in *. apply (IH leading st sk rs t' sk'); assumption.
    + unfold meta_write. rewrite Hmulti.
      destruct (run_prefix rs leading (d_with_save st []) sk t' sk' (d_save st ++ fb0 :: ft) (concat frags)
                  (length (d_save st ++ fb0 :: ft)))
        as [st1 [sk1 [l1 [rs2 [H1 [H2 [H3 [H4 [H5 H6]]]]]]]]].
      * exact Hv.
      * reflexivity.
      * rewrite Hs, <- app_assoc. reflexivity.
      * lia.
      * cbn [d_maxstr d_with_save]. destruct Hpar as [Hp | Hp]; [left; exact Hp | right].
        unfold len in *. rewrite ?app_length in *. cbn [length] in *. rewrite ?app_length in *. lia.
      * rewrite H1. cbn [fst snd].
        cbn [d_maxstr d_with_save] in H4.
        destruct (IH l1 st1 sk1 rs2 t' sk' Hmulti H2 H3) as [fb Hfb].
        -- rewrite H4. destruct Hpar as [Hp | Hp]; [left; exact Hp | right].
           unfold len in *. rewrite ?app_length in *. cbn [length] in *. rewrite ?app_length in *. lia.
        -- exact H6.
        -- exists fb. rewrite Hfb, H4. reflexivity.
Qed.

(* ---------------------------------------------------------------- HEADERS + CONTINUATION* read back as one frame *)
Lemma ser_conts_len_ge : forall sid cs, (9 * length cs <= length (ser_conts sid cs))%nat.
Proof.
  intros sid. induction cs as [|f cs IH]; [cbn; lia|].
  destruct cs as [|g cs].
  - cbn [ser_conts length]. pose proof (ser_cont_len sid true f) as H. unfold len in H. lia.
  - change (ser_conts sid (f :: g :: cs)) with (ser_frame (ACont sid false f) ++ ser_conts sid (g :: cs)).
    rewrite app_length. pose proof (ser_cont_len sid false f) as H. unfold len in H. cbn [length] in *. lia.
Qed.

Theorem headers_multi_roundtrip : forall st sid es pr pad f0 cs rs t' fs rest sk',
  h2_hpack_multi_update = true ->
  fs_last st = 0 ->
  let a := AHeaders sid es (match cs with [] => true | _ => false end) pr f0 pad in
  aframe_ok a ->
  (let '(t, fl, s, p) := aframe_parts a in len p < 16777216 /\ len p <= fs_max st) ->
  Forall (fun f => len f < 16777216 /\ len f <= fs_max st) cs ->
  d_save (fs_dec st) = [] -> d_first (fs_dec st) = true ->
  dt_allowed (d_tab (fs_dec st)) < 2 ^ 32 ->
  concat (f0 :: cs) = flat_map ser_repr rs -> rs <> [] ->
  (fs_maxlist st = 0 \/ len (flat_map ser_repr rs) <= 2 * (fs_maxlist st + 8)) ->
  reprs_shape true rs -> Forall (repr_ok (fs_maxlist st)) rs ->
  interp_reprs (d_tab (fs_dec st)) rs = Some (t', fs) ->
  Forall (field_fits (fs_maxlist st)) fs ->
  sink_run (mkSink (fs_maxlist st) false false false []) fs = Some sk' ->
  check_pseudos fs [] false false = true ->
  forall drains,
  read_frame_gen psw_ok true drains st (ser_frame a ++ ser_conts sid cs ++ rest) =
  ROk (mkFrame (f_hdr (frame_of a)) (BMeta pr fs false)) (len (ser_frame a) + len (ser_conts sid cs))
      (mkFs 0 (fs_max st) (fs_maxlist st) (mkD t' (fs_maxlist st) true true [])).
Proof.
  intros st sid es pr pad f0 cs rs t' fs rest sk' Hmulti Hlast a Hok Hlen Hcs Hsave Hfirst Hall Hblk Hne Hpar
         Hshape Hrok Hint Hfits Hsink Hps drains.
  unfold read_frame_gen. rewrite Hlast.
  assert (Hsid : sid_ok sid) by (unfold a in Hok; cbn [aframe_ok] in Hok; tauto).
  set (eh := match cs with [] => true | _ => false end) in *.
  assert (Hord : check_order 0 (f_hdr (frame_of a)) = HOk (if eh then 0 else sid)).
  { unfold frame_of, a. cbn [aframe_parts f_hdr]. unfold check_order. cbn [fh_type fh_sid fh_flags N.eqb negb].
    change (T_HEADERS =? T_CONT) with false. change (T_HEADERS =? T_HEADERS) with true. cbv iota.
    assert (E : flag (b2n es 1 + b2n eh 4 + pad_flag pad + match pr with Some _ => 32 | None => 0 end) F_END_HEADERS = eh)
      by (destruct es, eh, pad, pr; reflexivity).
    rewrite E. reflexivity. }
  rewrite (frame_roundtrip a 0 (if eh then 0 else sid) (fs_max st) (ser_conts sid cs ++ rest) Hok Hlen Hord).
  unfold frame_of. unfold a. cbn [aframe_parts f_body body_of f_hdr].
  (* the fragments *)
  set (size := len (ser_frame (AHeaders sid es eh pr f0 pad))).
  set (data := ser_frame (AHeaders sid es eh pr f0 pad) ++ ser_conts sid cs ++ rest).
  assert (Hcoll : (if (if eh then 0 else sid) =? 0 then COk [f0] 0
                   else collect psw_ok true drains (length data) (if eh then 0 else sid) (fs_max st) data size 0 [f0]) =
                  COk (f0 :: cs) (len (ser_conts sid cs))).
  { destruct cs as [|c cs'].
    - subst eh. cbn [N.eqb]. reflexivity.
    - subst eh. cbv iota. destruct Hsid as [Hs1 Hs2]. assert (E : (sid =? 0) = false) by lia. rewrite E.
      unfold data.
      rewrite (collect_ser (c :: cs') sid (fs_max st) drains _
                 (ser_frame (AHeaders sid es false pr f0 pad)) rest size 0 [f0]).
      + reflexivity.
      + discriminate.
      + split; assumption.
      + exact Hcs.
      + rewrite !app_length. pose proof (ser_conts_len_ge sid (c :: cs')). lia.
      + unfold size. lia. }
  fold size. fold data. rewrite Hcoll.
  set (d0 := d_with_maxstr (d_with_emit (fs_dec st) true) (fs_maxlist st)).
  match goal with |- context [meta_frags ?D ?F ?S] =>
    assert (Hw : exists fb, meta_frags D F S = (mkD t' (fs_maxlist st) true fb [], sk', WOk)) end.
  { change (d_maxstr (d_with_maxstr (d_with_emit (fs_dec st) true) (fs_maxlist st))) with (fs_maxlist st).
    pose proof (meta_frags_valid (f0 :: cs) true d0 (mkSink (fs_maxlist st) false false false []) rs t' sk' Hmulti) as Hm.
    unfold d0 in Hm. cbn [d_maxstr d_with_maxstr d_with_emit d_save] in Hm. rewrite Hsave in Hm. cbn [app] in Hm.
    apply Hm.
    - constructor; cbn [d_emit d_first d_tab d_maxstr d_with_save d_with_maxstr d_with_emit]; try assumption; try reflexivity.
      + intros _. exact Hfirst.
      + exists fs. auto.
    - symmetry. exact Hblk.
    - rewrite Hblk. exact Hpar.
    - intro Hc. rewrite Hblk in Hc. destruct rs as [|r rs']; [contradiction|]. cbn [flat_map] in Hc.
      destruct (ser_repr_nonempty r) as [b0 [tl0 E0]]. rewrite E0 in Hc. discriminate. }
  destruct Hw as [fb Hw]. rewrite Hw. cbn [fst snd].
  unfold dec_close. cbn [d_save d_with_first fst snd].
  pose proof (sink_run_fields _ _ _ Hsink) as [Hf [Ht Hi]]. cbn [sk_fields sk_trunc sk_invalid app] in Hf, Ht, Hi.
  rewrite Hi, Hf, Ht, Hps. cbn [negb]. reflexivity.
Qed.

(* ---------------------------------------------------------------- composed with the sender *)
Lemma ser_fragments_shape : forall sid es f0 e0 r, flags_ok ((f0, e0) :: r) ->
  ser_fragments sid es ((f0, e0) :: r) =
  ser_frame (AHeaders sid es (match map fst r with [] => true | _ => false end) None f0 None) ++ ser_conts sid (map fst r).
Proof.
  intros sid es f0 e0 r Hf. cbn [ser_fragments].
  assert (He0 : e0 = match map fst r with [] => true | _ => false end).
  { destruct r; cbn [flags_ok map] in *; [exact Hf | tauto]. }
  rewrite <- He0. f_equal.
  assert (Hr : r <> [] -> flags_ok r) by (intro Hn; destruct r; [contradiction | cbn [flags_ok] in Hf; tauto]).
  clear Hf He0. induction r as [|[g eg] r IH]; [reflexivity|].
  specialize (Hr ltac:(discriminate)).
  cbn [flat_map map fst snd].
  destruct r as [|[h eh] r'].
  - cbn [flags_ok snd] in Hr. subst eg. cbn [flat_map map ser_conts]. apply app_nil_r.
  - cbn [flags_ok snd] in Hr. destruct Hr as [Hg Hr']. subst eg.
    change (ser_conts sid (g :: map fst ((h, eh) :: r'))) with (ser_frame (ACont sid false g) ++ ser_conts sid (map fst ((h, eh) :: r'))).
    f_equal. apply IH. intros _. exact Hr'.
Qed.

(* what MOSN's writeHeaders sends for a header block - any number of fragments - is read back (by the reader model,
   i.e. MFramer; the reference reader is compared in the harness) as ONE MetaHeadersFrame with the encoded fields *)
Theorem sent_block_read_back : forall st sid es mx rs t' fs rest sk',
  h2_hpack_multi_update = true -> h2_hdr_split_last_le = true ->
  fs_last st = 0 -> sid_ok sid ->
  1 <= mx -> mx < 16777216 -> mx <= fs_max st ->
  d_save (fs_dec st) = [] -> d_first (fs_dec st) = true ->
  dt_allowed (d_tab (fs_dec st)) < 2 ^ 32 ->
  rs <> [] ->
  (fs_maxlist st = 0 \/ len (flat_map ser_repr rs) <= 2 * (fs_maxlist st + 8)) ->
  reprs_shape true rs -> Forall (repr_ok (fs_maxlist st)) rs ->
  interp_reprs (d_tab (fs_dec st)) rs = Some (t', fs) ->
  Forall (field_fits (fs_maxlist st)) fs ->
  sink_run (mkSink (fs_maxlist st) false false false []) fs = Some sk' ->
  check_pseudos fs [] false false = true ->
  forall drains,
  exists hdr,
  read_frame_gen psw_ok true drains st (ser_fragments sid es (split_block (flat_map ser_repr rs) mx) ++ rest) =
  ROk (mkFrame hdr (BMeta None fs false)) (len (ser_fragments sid es (split_block (flat_map ser_repr rs) mx)))
      (mkFs 0 (fs_max st) (fs_maxlist st) (mkD t' (fs_maxlist st) true true [])).
Proof.
  intros st sid es mx rs t' fs rest sk' Hmulti Hle Hlast Hsid Hmx1 Hmx2 Hmx3 Hsave Hfirst Hall Hne Hpar Hshape Hrok Hint Hfits Hsink Hps drains.
  set (block := flat_map ser_repr rs).
  assert (Hbne : block <> []).
  { unfold block. destruct rs as [|r rs']; [contradiction|]. cbn [flat_map].
    destruct (ser_repr_nonempty r) as [b0 [tl0 E0]]. rewrite E0. discriminate. }
  destruct (split_block_correct Hle block mx Hmx1) as [Hcat [Hsz [Hfl _]]].
  destruct (Hfl Hbne) as [Hflags Hnn].
  destruct (split_block block mx) as [|[f0 e0] r] eqn:Es; [contradiction|].
  rewrite ser_fragments_shape by exact Hflags.
  inversion Hsz as [|? ? Hs0 Hsr]; subst. cbn [fst] in Hs0.
  eexists. rewrite <- app_assoc.
  rewrite (headers_multi_roundtrip st sid es None None f0 (map fst r) rs t' fs rest sk'); try assumption.
  - rewrite len_app. reflexivity.
  - cbn [aframe_ok pad_ok]. tauto.
  - cbn [aframe_parts pad_prefix pad_suffix app]. rewrite app_nil_r. split; lia.
  - apply Forall_forall. intros g Hg. apply in_map_iff in Hg as [x [Hx Hin]]. subst g.
    rewrite Forall_forall in Hsr. specialize (Hsr x Hin). cbn beta in Hsr. split; lia.
Qed.
