(* Proofs/H2FrameStable.v (group h2): the HTTP/2 frame reader (MFramer.ReadFrame) is
   - total: never Panic, never out of fuel (C08 part),
   - prefix-stable: a result other than "again" does not change when more bytes arrive, an incomplete
     frame consumes nothing (C07 part),
   and therefore the read loop extracts the same frames however the byte stream is cut (via Lib/HSeg.v). *)
From Coq Require Import List NArith Arith Lia Bool.
From Coq Require Import ZifyBool ZifyNat ZifyN.
From MV Require Import Lib.HBits Lib.HSeg Gen.HpackTables Gen.H2Src Model.Hpack Model.H2Frame
  Proofs.HpackInt Proofs.HpackHuffman Proofs.HpackString Proofs.HpackRepr Proofs.HpackTotal.
Import ListNotations.
Open Scope N_scope.

(* ---------------------------------------------------------------- lists *)
Lemma skipn_app_le : forall {A} n (b e : list A), (n <= length b)%nat -> skipn n (b ++ e) = skipn n b ++ e.
Proof. intros A n b e H. rewrite skipn_app. replace (n - length b)%nat with 0%nat by lia. reflexivity. Qed.

Lemma firstn_app_le : forall {A} n (b e : list A), (n <= length b)%nat -> firstn n (b ++ e) = firstn n b.
Proof. intros A n b e H. rewrite firstn_app. replace (n - length b)%nat with 0%nat by lia. cbn [firstn]. apply app_nil_r. Qed.

Lemma parse_fhdr_app : forall p e, (9 <= length p)%nat -> parse_fhdr (p ++ e) = parse_fhdr p.
Proof.
  intros p e H. do 9 (destruct p as [|? p]; [cbn in H; lia|]). reflexivity.
Qed.

Lemma len_skipn : forall (b : bytes) n, len (skipn (N.to_nat n) b) = len b - n.
Proof. intros b n. unfold len. rewrite skipn_length. lia. Qed.

Lemma slice_app : forall b e off n, off + n <= len b -> slice (b ++ e) off n = slice b off n.
Proof.
  intros b e off n H. unfold slice. unfold len in H.
  rewrite skipn_app_le by lia. apply firstn_app_le. rewrite skipn_length. lia.
Qed.

(* ---------------------------------------------------------------- read_raw *)
Lemma read_raw_stable : forall eo last mx b e off,
  read_raw eo last mx b off <> WAgain ->
  read_raw eo last mx (b ++ e) off = read_raw eo last mx b off.
Proof.
  intros eo last mx b e off H. unfold read_raw in *.
  destruct (len b <? off + 9) eqn:E1; [contradiction H; reflexivity|].
  assert (E1' : (len (b ++ e) <? off + 9) = false) by (rewrite len_app; lia). rewrite E1'.
  assert (Hh : parse_fhdr (skipn (N.to_nat off) (b ++ e)) = parse_fhdr (skipn (N.to_nat off) b)).
  { unfold len in E1. rewrite skipn_app_le by lia. apply parse_fhdr_app. rewrite skipn_length. lia. }
  rewrite Hh. set (fh := parse_fhdr (skipn (N.to_nat off) b)) in *.
  destruct (mx <? fh_len fh); [reflexivity|].
  destruct (len b - (off + 9) <? fh_len fh) eqn:E2; [contradiction H; reflexivity|].
  assert (E2' : (len (b ++ e) - (off + 9) <? fh_len fh) = false) by (rewrite len_app; lia). rewrite E2'.
  rewrite slice_app by lia. reflexivity.
Qed.

(* sizes of what read_raw returns *)
Lemma read_raw_frame_bound : forall eo last mx b off fr size last',
  read_raw eo last mx b off = WFrame fr size last' -> 9 <= size /\ off + size <= len b.
Proof.
  intros eo last mx b off fr size last' H. unfold read_raw in H.
  destruct (len b <? off + 9) eqn:E1; [discriminate|].
  remember (parse_fhdr (skipn (N.to_nat off) b)) as fh eqn:Efh.
  destruct (mx <? fh_len fh); [discriminate|].
  destruct (len b - (off + 9) <? fh_len fh) eqn:E2; [discriminate|].
  destruct (parse_payload eo fh (slice b (off + 9) (fh_len fh))) as [bd| |er| |]; try discriminate.
  - destruct (check_order last fh) as [l| |er| |]; try discriminate.
    assert (Hs : size = 9 + fh_len fh) by congruence. lia.
  - destruct er; discriminate.
Qed.

Lemma read_raw_stream_bound : forall eo last mx b off size,
  read_raw eo last mx b off = WStream size -> 9 <= size /\ off + size <= len b.
Proof.
  intros eo last mx b off size H. unfold read_raw in H.
  destruct (len b <? off + 9) eqn:E1; [discriminate|].
  remember (parse_fhdr (skipn (N.to_nat off) b)) as fh eqn:Efh.
  destruct (mx <? fh_len fh); [discriminate|].
  destruct (len b - (off + 9) <? fh_len fh) eqn:E2; [discriminate|].
  destruct (parse_payload eo fh (slice b (off + 9) (fh_len fh))) as [bd| |er| |]; try discriminate.
  - destruct (check_order last fh) as [l| |er| |]; discriminate.
  - destruct er; try discriminate. assert (Hs : size = 9 + fh_len fh) by congruence. lia.
Qed.

(* ---------------------------------------------------------------- collect (CONTINUATION frames) *)
Lemma collect_stable : forall eo drains fuel last mx b e off msize acc,
  collect eo true drains fuel last mx b off msize acc <> CAgain ->
  collect eo true drains fuel last mx (b ++ e) off msize acc = collect eo true drains fuel last mx b off msize acc.
Proof.
  intros eo drains fuel. induction fuel as [|fuel IH]; intros last mx b e off msize acc H; [reflexivity|].
  cbn [collect] in *.
  destruct (read_raw eo last mx b (off + msize)) as [fr size last'| |size|er] eqn:E.
  - rewrite read_raw_stable by (rewrite E; discriminate). rewrite E.
    destruct (f_body fr); try reflexivity.
    destruct (last' =? 0); [reflexivity|]. apply IH. exact H.
  - contradiction H. reflexivity.
  - rewrite read_raw_stable by (rewrite E; discriminate). rewrite E. reflexivity.
  - rewrite read_raw_stable by (rewrite E; discriminate). rewrite E. reflexivity.
Qed.

Lemma collect_fuel_mono : forall eo adv drains fuel k last mx b off msize acc,
  collect eo adv drains fuel last mx b off msize acc <> CFuel ->
  collect eo adv drains (fuel + k) last mx b off msize acc = collect eo adv drains fuel last mx b off msize acc.
Proof.
  intros eo adv drains fuel. induction fuel as [|fuel IH]; intros k last mx b off msize acc H.
  - contradiction H. reflexivity.
  - cbn [collect Nat.add] in *.
    destruct (read_raw eo last mx b (if adv then off + msize else off)) as [fr size last'| |size|er]; try reflexivity.
    destruct (f_body fr); try reflexivity.
    destruct (last' =? 0); [reflexivity|]. apply IH. exact H.
Qed.

(* with the offset advancing, one iteration per 9 bytes at most: the fuel is never exhausted *)
Lemma collect_enough : forall eo drains fuel last mx b off msize acc,
  len b - (off + msize) < 9 * N.of_nat fuel ->
  collect eo true drains fuel last mx b off msize acc <> CFuel.
Proof.
  intros eo drains fuel. induction fuel as [|fuel IH]; intros last mx b off msize acc H; [lia|].
  cbn [collect].
  destruct (read_raw eo last mx b (off + msize)) as [fr size last'| |size|er] eqn:E; try discriminate.
  - apply read_raw_frame_bound in E as [H9 Hb].
    destruct (f_body fr); try discriminate.
    destruct (last' =? 0); [discriminate|]. apply IH. lia.
  - destruct drains; discriminate.
Qed.

Lemma collect_bound : forall eo drains fuel last mx b off msize acc frags msize',
  collect eo true drains fuel last mx b off msize acc = COk frags msize' ->
  msize <= msize' /\ (msize < msize' -> off + msize' <= len b).
Proof.
  intros eo drains fuel. induction fuel as [|fuel IH]; intros last mx b off msize acc frags msize' H; [discriminate|].
  cbn [collect] in H.
  destruct (read_raw eo last mx b (off + msize)) as [fr size last'| |size|er] eqn:E; try discriminate.
  - apply read_raw_frame_bound in E as [H9 Hb].
    destruct (f_body fr); try discriminate.
    destruct (last' =? 0).
    + assert (Hm : msize' = msize + size) by congruence. clear IH H. subst msize'. split; [lia | intros _; lia].
    + apply IH in H as [H1 H2]. split; [lia|]. intros _.
      destruct (N.eq_dec (msize + size) msize') as [Heq|Hne]; [lia | apply H2; lia].
  - destruct drains; discriminate.
Qed.

Lemma collect_no_stream : forall eo adv fuel last mx b off msize acc,
  collect eo adv true fuel last mx b off msize acc <> CStream.
Proof.
  intros eo adv fuel. induction fuel as [|fuel IH]; intros last mx b off msize acc; [discriminate|].
  cbn [collect].
  destruct (read_raw eo last mx b (if adv then off + msize else off)) as [fr size last'| |size|er]; try discriminate.
  destruct (f_body fr); try discriminate.
  destruct (last' =? 0); [discriminate | apply IH].
Qed.

(* ---------------------------------------------------------------- the HPACK part of readMetaFrame is total *)
Lemma meta_loop_total : forall multi fuel st buf sk, (length buf <= fuel)%nat ->
  wgood (snd (meta_loop multi fuel st buf sk)).
Proof.
  intros multi fuel. induction fuel as [|fuel IH]; intros st buf sk Hl.
  - destruct buf; [cbn; split; discriminate | cbn in Hl; lia].
  - destruct buf as [|b tl]; [cbn; split; discriminate|].
    cbn [meta_loop].
    destruct (parse_repr_good st (b :: tl) ltac:(discriminate)) as [Hp Hf].
    destruct (parse_repr st (b :: tl)) as [r| | e | |] eqn:Er; try contradiction.
    + pose proof (parse_repr_consumes _ _ _ Er) as [u [Hu Hlu]].
      assert (Hlen : (length (snd r) <= fuel)%nat).
      { assert (length (b :: tl) = length u + length (snd r))%nat by (rewrite Hu, app_length; reflexivity). lia. }
      destruct (snd (fst r)); apply IH; exact Hlen.
    + destruct (_ && _); cbn; split; discriminate.
    + cbn. split; discriminate.
Qed.

Lemma meta_write_total : forall st p sk, wgood (snd (meta_write st p sk)).
Proof.
  intros st p sk. unfold meta_write. destruct p; [cbn; split; discriminate|].
  apply meta_loop_total. lia.
Qed.

Lemma meta_frags_total : forall frags st sk, wgood (snd (meta_frags st frags sk)).
Proof.
  induction frags as [|fr frags IH]; intros st sk; [cbn; split; discriminate|].
  cbn [meta_frags]. pose proof (meta_write_total st fr sk) as Hw.
  destruct (snd (meta_write st fr sk)) eqn:E; try (rewrite E; exact Hw). apply IH.
Qed.

(* ---------------------------------------------------------------- read_frame *)
Definition rgood (r : rres) : Prop := r <> RPanic /\ r <> RFuel.

(* C08 part: for EVERY reader state and EVERY byte string the reader answers frame / stream error /
   again / connection error - it never panics and its loops end (fuel = buffer length suffices) *)
Theorem read_frame_total : forall eo drains st data, rgood (read_frame_gen eo true drains st data).
Proof.
  intros eo drains st data. unfold read_frame_gen.
  destruct (read_raw eo (fs_last st) (fs_max st) data 0) as [fr size last'| |size|er] eqn:E; try (split; discriminate).
  destruct (f_body fr) eqn:Eb; try (split; discriminate).
  apply read_raw_frame_bound in E as [H9 Hb].
  set (coll := if last' =? 0 then COk [frag] 0 else collect eo true drains (length data) last' (fs_max st) data size 0 [frag]).
  assert (Hc : coll <> CFuel).
  { subst coll. destruct (last' =? 0); [discriminate|]. apply collect_enough. unfold len in *. lia. }
  destruct coll as [frags msize| |er| |]; try (split; discriminate); [|contradiction].
  match goal with |- context [meta_frags ?d ?f ?s] => pose proof (meta_frags_total f d s) as Hm; destruct (meta_frags d f s) as [[d1 sk1] w1] end.
  cbn [fst snd] in *. destruct Hm as [Hm1 Hm2].
  destruct w1; try contradiction; try (split; discriminate).
  pose proof (dec_close_total d1) as [Hc1 Hc2].
  destruct (dec_close d1) as [d2 w2]. cbn [fst snd] in *.
  destruct w2; try contradiction; try (split; discriminate).
  destruct (sk_invalid sk1); [split; discriminate|].
  destruct (negb (check_pseudos (sk_fields sk1) [] false false)); split; discriminate.
Qed.

(* C07 part: prefix stability *)
Theorem read_frame_stable : forall eo drains st b e,
  read_frame_gen eo true drains st b <> RAgain ->
  read_frame_gen eo true drains st (b ++ e) = read_frame_gen eo true drains st b.
Proof.
  intros eo drains st b e H. unfold read_frame_gen in *.
  destruct (read_raw eo (fs_last st) (fs_max st) b 0) as [fr size last'| |size|er] eqn:E.
  - rewrite read_raw_stable by (rewrite E; discriminate). rewrite E.
    destruct (f_body fr) eqn:Eb; try reflexivity.
    pose proof (read_raw_frame_bound _ _ _ _ _ _ _ _ E) as [H9 Hb].
    destruct (last' =? 0) eqn:El; [reflexivity|].
    assert (Hne : collect eo true drains (length b) last' (fs_max st) b size 0 [frag] <> CFuel).
    { apply collect_enough. unfold len in *. lia. }
    assert (Hna : collect eo true drains (length b) last' (fs_max st) b size 0 [frag] <> CAgain).
    { intro Hc. rewrite Hc in H. apply H. reflexivity. }
    assert (Heq : collect eo true drains (length (b ++ e)) last' (fs_max st) (b ++ e) size 0 [frag] =
                  collect eo true drains (length b) last' (fs_max st) b size 0 [frag]).
    { rewrite app_length.
      rewrite collect_fuel_mono.
      - apply collect_stable. exact Hna.
      - rewrite collect_stable by exact Hna. exact Hne. }
    rewrite Heq. reflexivity.
  - contradiction H. reflexivity.
  - rewrite read_raw_stable by (rewrite E; discriminate). rewrite E. reflexivity.
  - rewrite read_raw_stable by (rewrite E; discriminate). rewrite E. reflexivity.
Qed.

(* what is consumed lies within the buffer and is not empty *)
Theorem read_frame_consumes : forall eo st b,
  match read_frame_gen eo true true st b with
  | ROk _ n _ | RStream n _ => 0 < n <= len b
  | _ => True
  end.
Proof.
  intros eo st b. unfold read_frame_gen.
  destruct (read_raw eo (fs_last st) (fs_max st) b 0) as [fr size last'| |size|er] eqn:E; try exact I.
  - pose proof (read_raw_frame_bound _ _ _ _ _ _ _ _ E) as [H9 Hb].
    destruct (f_body fr) eqn:Eb; try lia.
    set (coll := if last' =? 0 then COk [frag] 0 else collect eo true true (length b) last' (fs_max st) b size 0 [frag]).
    assert (Hcb : forall frags msize, coll = COk frags msize -> size + msize <= len b).
    { intros frags msize Hc. subst coll. destruct (last' =? 0).
      - inversion Hc; subst. lia.
      - apply collect_bound in Hc as [H1 H2]. destruct (N.eq_dec msize 0); [lia | apply H2; lia]. }
    assert (Hns : coll <> CStream).
    { subst coll. destruct (last' =? 0); [discriminate | apply collect_no_stream]. }
    destruct coll as [frags msize| |er| |]; try exact I; [|contradiction].
    specialize (Hcb frags msize eq_refl).
    match goal with |- context [meta_frags ?d ?f ?s] => destruct (meta_frags d f s) as [[d1 sk1] w1] end.
    cbn [fst snd]. destruct w1; try exact I.
    destruct (dec_close d1) as [d2 w2]. cbn [fst snd]. destruct w2; try exact I.
    destruct (sk_invalid sk1); [cbv iota; lia|].
    destruct (negb (check_pseudos (sk_fields sk1) [] false false)); cbv iota; lia.
  - apply read_raw_stream_bound in E as [H9 Hb]. cbv iota. lia.
Qed.

(* an incomplete frame: nothing is consumed, no state changes (the reader returns no new state at all) *)
Theorem read_frame_again_antimonotone : forall eo drains st b e,
  read_frame_gen eo true drains st (b ++ e) = RAgain -> read_frame_gen eo true drains st b = RAgain.
Proof.
  intros eo drains st b e H.
  destruct (read_frame_gen eo true drains st b) eqn:E; try reflexivity;
    (rewrite read_frame_stable in H by (rewrite E; discriminate); rewrite E in H; discriminate).
Qed.

(* ---------------------------------------------------------------- the read loop: segmentation independence *)
Definition to_sres (r : rres) : sres fstate devent :=
  match r with
  | ROk fr n st' => SOk (EvFrame fr) (N.to_nat n) st'
  | RStream n st' => SOk EvStreamErr (N.to_nat n) st'
  | RAgain => SAgain
  | RConn e => SDead (EvConnErr e)
  | RPanic | RFuel => SDead (EvConnErr EOther)
  end.

Definition sparse (eo : psw) (st : fstate) (b : bytes) : sres fstate devent :=
  to_sres (read_frame_gen eo true true st b).

Lemma sparse_ok_stable : forall eo s b f n s', sparse eo s b = SOk f n s' ->
  (0 < n <= length b)%nat /\ forall e, sparse eo s (b ++ e) = SOk f n s'.
Proof.
  intros eo s b f n s' H. unfold sparse in *.
  pose proof (read_frame_consumes eo s b) as Hc.
  assert (Hna : read_frame_gen eo true true s b <> RAgain).
  { intro Hx. rewrite Hx in H. discriminate. }
  split.
  - destruct (read_frame_gen eo true true s b); cbn [to_sres] in H; try discriminate; inversion H; subst; unfold len in Hc; lia.
  - intro e. rewrite read_frame_stable by exact Hna. exact H.
Qed.

Lemma sparse_dead_stable : forall eo s b f, sparse eo s b = SDead f -> forall e, sparse eo s (b ++ e) = SDead f.
Proof.
  intros eo s b f H e. unfold sparse in *.
  assert (Hna : read_frame_gen eo true true s b <> RAgain).
  { intro Hx. rewrite Hx in H. discriminate. }
  rewrite read_frame_stable by exact Hna. exact H.
Qed.

Definition to_cst (s : cstate) : cst N fstate devent := mkCst _ _ _ (c_buf s) (c_fs s) (c_out s) (c_dead s).

Lemma drain_loop_is_drain : forall eo fuel s,
  to_cst (drain_loop_gen eo true true true fuel s) = drain _ _ _ (sparse eo) fuel (to_cst s).
Proof.
  intros eo fuel. induction fuel as [|fuel IH]; intro s; [reflexivity|].
  cbn [drain_loop_gen drain to_cst cdead cps cbuf cout].
  destruct (c_dead s) eqn:Ed; [unfold to_cst; rewrite Ed; reflexivity|].
  unfold sparse. destruct (read_frame_gen eo true true (c_fs s) (c_buf s)); cbn [to_sres].
  - rewrite IH. reflexivity.
  - rewrite IH. reflexivity.
  - unfold to_cst. rewrite Ed. reflexivity.
  - reflexivity.
  - reflexivity.
  - reflexivity.
Qed.

Lemma feed_is_feed : forall eo s chunk,
  to_cst (feed_gen eo true true true s chunk) = HSeg.feed _ _ _ (sparse eo) (to_cst s) chunk.
Proof.
  intros eo s chunk. unfold feed_gen, HSeg.feed. cbn [to_cst cdead cbuf cps cout].
  destruct (c_dead s) eqn:Ed; [unfold to_cst; rewrite Ed; reflexivity|].
  rewrite drain_loop_is_drain. reflexivity.
Qed.

Lemma fold_feed_is_fold : forall eo chunks s,
  to_cst (fold_left (feed_gen eo true true true) chunks s) = fold_left (HSeg.feed _ _ _ (sparse eo)) chunks (to_cst s).
Proof.
  intros eo chunks. induction chunks as [|c chunks IH]; intro s; [reflexivity|].
  cbn [fold_left]. rewrite IH, feed_is_feed. reflexivity.
Qed.

(* nothing buffered: the reader asks for more *)
Lemma read_frame_nil : forall eo adv drains st, read_frame_gen eo adv drains st [] = RAgain.
Proof. intros. reflexivity. Qed.

(* c07 (HTTP/2): for every byte string and EVERY way of cutting it into chunks, the read loop yields the
   same events in the same order, the same reader state (HPACK table included) and the same unconsumed
   residue as delivery in one piece - starting from any quiescent connection state, e.g. a fresh one *)
Theorem h2_segmentation_independent : forall eo chunks s,
  quiescent _ _ _ (sparse eo) (to_cst s) ->
  obs _ _ _ (to_cst (fold_left (feed_gen eo true true true) chunks s)) =
  obs _ _ _ (to_cst (feed_gen eo true true true s (concat chunks))).
Proof.
  intros eo chunks s Hq. rewrite fold_feed_is_fold, feed_is_feed.
  apply seg_independent; [apply sparse_ok_stable | apply sparse_dead_stable | exact Hq].
Qed.

Lemma c_init_quiescent : forall eo, quiescent _ _ _ (sparse eo) (to_cst c_init).
Proof. intro eo. right. reflexivity. Qed.

(* ---------------------------------------------------------------- the same facts for the reader as configured by the source
   (Gen/H2Src.v switches; the hypotheses are discharged by eq_refl in Props, so they fail to compile when the
   source no longer has the repaired shape) *)
Section Src.
  Hypothesis Hadv : h2_cont_advance = true.
  Hypothesis Hdr : h2_stream_err_drains = true.
  Hypothesis Hcont : h2_dispatch_continues = true.

  Theorem read_frame_src_total : forall st data, rgood (read_frame st data).
  Proof. intros. unfold read_frame. rewrite Hadv. apply read_frame_total. Qed.

  Theorem read_frame_src_stable : forall st b e,
    read_frame st b <> RAgain -> read_frame st (b ++ e) = read_frame st b.
  Proof. intros st b e. unfold read_frame. rewrite Hadv. apply read_frame_stable. Qed.

  Theorem read_frame_src_again : forall st b e, read_frame st (b ++ e) = RAgain -> read_frame st b = RAgain.
  Proof. intros st b e. unfold read_frame. rewrite Hadv. apply read_frame_again_antimonotone. Qed.

  Theorem read_frame_src_consumes : forall st b,
    match read_frame st b with
    | ROk _ n _ | RStream n _ => 0 < n <= len b
    | _ => True
    end.
  Proof. intros st b. unfold read_frame. rewrite Hadv, Hdr. apply read_frame_consumes. Qed.

  Theorem feed_src_segmentation : forall chunks,
    obs _ _ _ (to_cst (fold_left feed chunks c_init)) = obs _ _ _ (to_cst (feed c_init (concat chunks))).
  Proof.
    intro chunks. unfold feed. rewrite Hadv, Hdr, Hcont.
    apply h2_segmentation_independent. apply c_init_quiescent.
  Qed.

  (* an incomplete frame consumes nothing: when the reader asks for more, a read event leaves events,
     reader state and liveness untouched and only buffers the bytes *)
  Theorem feed_src_incomplete : forall s chunk, c_dead s = false ->
    read_frame (c_fs s) (c_buf s ++ chunk) = RAgain ->
    feed s chunk = mkC (c_buf s ++ chunk) (c_fs s) (c_out s) false.
  Proof.
    intros s chunk Hd Ha. unfold feed, feed_gen. rewrite Hd. cbn [drain_loop_gen c_dead c_fs c_buf].
    unfold read_frame in Ha. rewrite Ha. reflexivity.
  Qed.
End Src.
