(* Proofs about Model/Router.v: virtual host precedence (find_vhost = spec_vhost), first match, purity. *)
From Coq Require Import List String Ascii Bool Arith Lia Permutation Sorted.
From MV Require Import Model.Router.
Import ListNotations.
Local Open Scope string_scope.

(* ------------------------------------------------------------------ small facts *)
Lemma key_eqb_true a b x y i : key_eqb a b (x, y, i) = true <-> x = a /\ y = b.
Proof.
  unfold key_eqb. rewrite andb_true_iff, !String.eqb_eq. tauto.
Qed.

Lemma lookup3_some a b l i : lookup3 a b l = Some i -> In (a, b, i) l.
Proof.
  induction l as [|[[x y] j] l IH]; cbn [lookup3]; [discriminate|].
  destruct (key_eqb a b (x, y, j)) eqn:E.
  - intros H; inversion H; subst. apply key_eqb_true in E as [-> ->]. now left.
  - intros H. right. now apply IH.
Qed.

Lemma lookup3_none a b l : lookup3 a b l = None -> forall i, ~ In (a, b, i) l.
Proof.
  induction l as [|[[x y] j] l IH]; cbn [lookup3]; intros H i; [intros []|].
  destruct (key_eqb a b (x, y, j)) eqn:E; [discriminate|].
  intros [Heq|Hin].
  - inversion Heq; subst. assert (key_eqb a b (a, b, i) = true) by (apply key_eqb_true; auto). congruence.
  - now apply (IH H i).
Qed.

Lemma existsb_key_false a b l : existsb (key_eqb a b) l = false -> forall i, ~ In (a, b, i) l.
Proof.
  intros H i Hin.
  assert (existsb (key_eqb a b) l = true) as H'.
  { apply existsb_exists. exists (a, b, i). split; [exact Hin|]. apply key_eqb_true; auto. }
  congruence.
Qed.

(* ------------------------------------------------------------------ the build as a fold over entries *)
Fixpoint add_all (t : table) (es : list (nat * dkind)) : res table :=
  match es with
  | [] => Ok t
  | (i, k) :: es' => match add_entry t i k with
                     | Err e => Err e
                     | Ok t' => add_all t' es'
                     end
  end.

Lemma add_all_app t es1 es2 :
  add_all t (es1 ++ es2) = match add_all t es1 with Ok t' => add_all t' es2 | Err e => Err e end.
Proof.
  revert t; induction es1 as [|[i k] es1 IH]; intros t; cbn [add_all app]; [reflexivity|].
  destruct (add_entry t i k); [apply IH|reflexivity].
Qed.

Lemma add_domains_entries t i ds t' :
  add_domains t i ds = Ok t' -> add_all t (kinds_of i ds) = Ok t'.
Proof.
  revert t; induction ds as [|d ds IH]; intros t; cbn [add_domains kinds_of].
  - intros H; exact H.
  - destruct (classify d) as [k|e]; [|discriminate].
    cbn [add_all]. destruct (add_entry t i k) as [t1|e]; [|discriminate]. apply IH.
Qed.

Lemma build_from_entries t i vs t' :
  build_from t i vs = Ok t' -> add_all t (entries_from i vs) = Ok t'.
Proof.
  revert t i; induction vs as [|v vs IH]; intros t i; cbn [build_from entries_from].
  - intros H; exact H.
  - destruct (existsb r_bad (vh_routes v)); [discriminate|].
    destruct (add_domains t i (vh_domains v)) as [t1|e] eqn:E; [|discriminate].
    intros H. rewrite add_all_app. rewrite (add_domains_entries _ _ _ _ E). now apply IH.
Qed.

Lemma build_entries c t : build c = Ok t -> add_all empty_table (entries c) = Ok t.
Proof.
  unfold build, entries. destruct c as [|v vs]; [discriminate|]. apply build_from_entries.
Qed.

(* what a table contains: *)
Definition holds_entry (t : table) (i : nat) (k : dkind) : Prop :=
  match k with
  | KExact h p => In (h, p, i) (t_exact t)
  | KWild s p => In (p, s, i) (t_wild t)
  | KDefault => t_default t = Some i
  end.

Definition present (t : table) (k : dkind) : Prop := exists i, holds_entry t i k.

Lemma add_entry_ok t i k t' :
  add_entry t i k = Ok t' ->
  ~ present t k /\
  (forall j k', holds_entry t' j k' <-> holds_entry t j k' \/ (j = i /\ k' = k)).
Proof.
  destruct k as [h p|s p|]; cbn [add_entry].
  - destruct (existsb (key_eqb h p) (t_exact t)) eqn:E; [discriminate|].
    intros H; inversion H; subst; clear H. split.
    + intros [j Hj]. exact (existsb_key_false _ _ _ E j Hj).
    + intros j k'. destruct k' as [h' p'|s' p'|]; cbn [holds_entry t_exact t_wild t_default].
      * rewrite in_app_iff. cbn [In]. split.
        -- intros [H|[H|[]]]; [now left|]. inversion H; subst. right; auto.
        -- intros [H|[-> H]]; [now left|]. inversion H; subst. right; left; reflexivity.
      * split; [now left|]. intros [H|[_ H]]; [exact H|discriminate].
      * split; [now left|]. intros [H|[_ H]]; [exact H|discriminate].
  - destruct (existsb (key_eqb p s) (t_wild t)) eqn:E; [discriminate|].
    intros H; inversion H; subst; clear H. split.
    + intros [j Hj]. exact (existsb_key_false _ _ _ E j Hj).
    + intros j k'. destruct k' as [h' p'|s' p'|]; cbn [holds_entry t_exact t_wild t_default].
      * split; [now left|]. intros [H|[_ H]]; [exact H|discriminate].
      * rewrite in_app_iff. cbn [In]. split.
        -- intros [H|[H|[]]]; [now left|]. inversion H; subst. right; auto.
        -- intros [H|[-> H]]; [now left|]. inversion H; subst. right; left; reflexivity.
      * split; [now left|]. intros [H|[_ H]]; [exact H|discriminate].
  - destruct (t_default t) as [d|] eqn:E; [discriminate|].
    intros H; inversion H; subst; clear H. split.
    + intros [j Hj]. cbn [holds_entry] in Hj. congruence.
    + intros j k'. destruct k' as [h' p'|s' p'|]; cbn [holds_entry t_exact t_wild t_default].
      * split; [now left|]. intros [H|[_ H]]; [exact H|discriminate].
      * split; [now left|]. intros [H|[_ H]]; [exact H|discriminate].
      * rewrite E. split.
        -- intros H; inversion H; subst. right; auto.
        -- intros [H|[-> _]]; [discriminate|reflexivity].
Qed.

(* an accepted entry list: the table holds exactly the initial content plus the entries; no kind occurs twice *)
Lemma add_all_ok t es t' :
  add_all t es = Ok t' ->
  (forall j k, holds_entry t' j k <-> holds_entry t j k \/ In (j, k) es) /\
  NoDup (map snd es) /\
  (forall k, In k (map snd es) -> ~ present t k).
Proof.
  revert t; induction es as [|[i k] es IH]; intros t; cbn [add_all].
  - intros H; inversion H; subst. split; [|split].
    + intros j k. cbn [In]. tauto.
    + constructor.
    + intros k [].
  - destruct (add_entry t i k) as [t1|e] eqn:E; [|discriminate].
    intros H. destruct (add_entry_ok _ _ _ _ E) as [Hnp Hiff].
    destruct (IH _ H) as [Hall [Hnd Hfresh]]. split; [|split].
    + intros j k'. rewrite Hall, Hiff. cbn [In]. split.
      * intros [[H1|[-> ->]]|H1]; auto.
      * intros [H1|[H1|H1]]; auto. inversion H1; subst. left; right; auto.
    + cbn [map snd]. constructor; [|exact Hnd].
      intros Hin. apply (Hfresh _ Hin). exists i. apply Hiff. right; auto.
    + cbn [map snd]. intros k' [<-|Hin]; [exact Hnp|].
      intros [j Hj]. apply (Hfresh _ Hin). exists j. apply Hiff. now left.
Qed.

Lemma empty_holds j k : ~ holds_entry empty_table j k.
Proof. destruct k; cbn; intros H; try contradiction; discriminate. Qed.

Lemma nodup_snd_inj {A B} (l : list (A * B)) : NoDup (map snd l) ->
  forall a a' b, In (a, b) l -> In (a', b) l -> a = a'.
Proof.
  induction l as [|[x y] l IH]; intros Hnd a a' b; [intros []|].
  cbn [map snd] in Hnd. inversion Hnd as [|? ? Hnin Hnd']; subst.
  intros [H1|H1] [H2|H2].
  - congruence.
  - inversion H1; subst. exfalso. apply Hnin. apply (in_map snd) in H2. exact H2.
  - inversion H2; subst. exfalso. apply Hnin. apply (in_map snd) in H1. exact H1.
  - eapply IH; eauto.
Qed.

(* summary for an accepted configuration *)
Lemma build_ok c t : build c = Ok t ->
  (forall j k, holds_entry t j k <-> In (j, k) (entries c)) /\
  (forall i j k, In (i, k) (entries c) -> In (j, k) (entries c) -> i = j).
Proof.
  intros H. apply build_entries in H. destruct (add_all_ok _ _ _ H) as [Hall [Hnd _]]. split.
  - intros j k. rewrite Hall. split; [intros [H1|H1]; [exfalso; exact (empty_holds _ _ H1)|exact H1]|auto].
  - intros i j k. apply nodup_snd_inj. exact Hnd.
Qed.

(* ------------------------------------------------------------------ score *)
Lemma score_inv host port k c n : score host port k = Some (c, n) ->
  (c = 4 /\ n = 0 /\ k = KExact host port) \/
  (c = 3 /\ n = 0 /\ k = KExact host "*" /\ port <> "*") \/
  (c = 2 /\ exists s, k = KWild s port /\ n = String.length s /\ wild_matches host (port, s, 0) = true) \/
  (c = 1 /\ (exists s, k = KWild s "*" /\ n = String.length s /\ wild_matches host (port, s, 0) = true) /\ port <> "*") \/
  (c = 0 /\ n = 0 /\ k = KDefault).
Proof.
  destruct k as [h p|s p|]; cbn [score wild_matches].
  - destruct (String.eqb_spec h host) as [->|]; [|discriminate].
    destruct (String.eqb_spec p port) as [->|Hne].
    + intros H; inversion H; subst. left; auto.
    + destruct (String.eqb_spec p "*") as [->|]; [|discriminate].
      intros H; inversion H; subst. right; left. repeat split; auto.
  - destruct (Nat.ltb (String.length s) (String.length host) && is_suffix s host) eqn:E; [|discriminate].
    destruct (String.eqb_spec p port) as [->|Hne].
    + intros H; inversion H; subst. right; right; left. split; [reflexivity|]. exists s; auto.
    + destruct (String.eqb_spec p "*") as [->|]; [|discriminate].
      intros H; inversion H; subst. right; right; right; left. split; [reflexivity|]. split; [exists s; auto|auto].
  - intros H; inversion H; subst. right; right; right; right; auto.
Qed.

Lemma is_suffix_eq s host : is_suffix s host = true -> s = drop (String.length host - String.length s) host.
Proof. unfold is_suffix. rewrite andb_true_iff, String.eqb_eq. tauto. Qed.

Lemma wild_matches_unique host p s s' :
  wild_matches host (p, s, 0) = true -> wild_matches host (p, s', 0) = true ->
  String.length s = String.length s' -> s = s'.
Proof.
  unfold wild_matches. rewrite !andb_true_iff. intros [_ H1] [_ H2] Hlen.
  rewrite (is_suffix_eq _ _ H1), (is_suffix_eq _ _ H2) at 1. rewrite Hlen. reflexivity.
Qed.

(* two kinds with the same score are the same kind *)
Lemma score_same_kind host port k k' s :
  score host port k = Some s -> score host port k' = Some s -> k = k'.
Proof.
  destruct s as [c n]. intros H1 H2.
  apply score_inv in H1. apply score_inv in H2.
  destruct H1 as [(Hc & Hn & ->)|[(Hc & Hn & -> & Hp)|[(Hc & s1 & -> & Hn & Hm)|[(Hc & (s1 & -> & Hn & Hm) & Hp)|(Hc & Hn & ->)]]]];
  destruct H2 as [(Hc' & Hn' & ->)|[(Hc' & Hn' & -> & Hp')|[(Hc' & s2 & -> & Hn' & Hm')|[(Hc' & (s2 & -> & Hn' & Hm') & Hp')|(Hc' & Hn' & ->)]]]];
  try reflexivity; try (exfalso; lia).
  - f_equal. eapply wild_matches_unique; eauto. lia.
  - f_equal. eapply wild_matches_unique; eauto. lia.
Qed.

Definition score_le (a b : nat * nat) : Prop := score_lt b a = false.

Lemma score_lt_spec a b : score_lt a b = true <-> fst a < fst b \/ (fst a = fst b /\ snd a < snd b).
Proof.
  unfold score_lt. rewrite orb_true_iff, andb_true_iff, !Nat.ltb_lt, Nat.eqb_eq. tauto.
Qed.

Lemma score_le_spec a b : score_le a b <-> fst a < fst b \/ (fst a = fst b /\ snd a <= snd b).
Proof.
  unfold score_le. destruct (score_lt b a) eqn:E.
  - apply score_lt_spec in E. split; [discriminate|]. lia.
  - split; [intros _|reflexivity].
    assert (~ (fst b < fst a \/ (fst b = fst a /\ snd b < snd a))) as H.
    { intros H. apply score_lt_spec in H. congruence. }
    lia.
Qed.

Lemma score_le_antisym a b : score_le a b -> score_le b a -> a = b.
Proof. rewrite !score_le_spec. destruct a, b; cbn [fst snd]. intros; f_equal; lia. Qed.

(* ------------------------------------------------------------------ best = the maximum *)
Lemma best_spec host port es : forall acc,
  match best host port es acc with
  | None => acc = None /\ forall j k, In (j, k) es -> score host port k = None
  | Some (i, s) =>
      (acc = Some (i, s) \/ exists k, In (i, k) es /\ score host port k = Some s) /\
      (forall j k s', In (j, k) es -> score host port k = Some s' -> score_le s' s) /\
      (forall j s0, acc = Some (j, s0) -> score_le s0 s)
  end.
Proof.
  induction es as [|[i k] es IH]; intros acc; cbn [best].
  - destruct acc as [[i s]|].
    + split; [now left|]. split; [intros ? ? ? []|].
      intros j s0 H; inversion H; subst. apply score_le_spec. lia.
    + split; [reflexivity|intros ? ? []].
  - destruct (score host port k) as [s|] eqn:Es.
    + destruct acc as [[i0 s0]|].
      * destruct (score_lt s0 s) eqn:Elt.
        -- specialize (IH (Some (i, s))). destruct (best host port es (Some (i, s))) as [[i1 s1]|].
           ++ destruct IH as [Hfrom [Hmax Hacc]]. specialize (Hacc _ _ eq_refl). split; [|split].
              ** right. destruct Hfrom as [Hi|[k' [Hi Hs]]].
                 --- inversion Hi; subst. exists k. split; [now left|exact Es].
                 --- exists k'. split; [now right|exact Hs].
              ** intros j k' s' [Heq|Hin] Hs'.
                 --- inversion Heq; subst. rewrite Es in Hs'. inversion Hs'; subst. exact Hacc.
                 --- eapply Hmax; eauto.
              ** intros j s2 Heq. inversion Heq; subst. apply score_lt_spec in Elt.
                 apply score_le_spec in Hacc. apply score_le_spec. lia.
           ++ destruct IH as [Habs _]. discriminate.
        -- specialize (IH (Some (i0, s0))). destruct (best host port es (Some (i0, s0))) as [[i1 s1]|].
           ++ destruct IH as [Hfrom [Hmax Hacc]]. specialize (Hacc _ _ eq_refl). split; [|split].
              ** destruct Hfrom as [Hi|[k' [Hi Hs]]]; [now left|]. right. exists k'. split; [now right|exact Hs].
              ** intros j k' s' [Heq|Hin] Hs'.
                 --- inversion Heq; subst. rewrite Es in Hs'. inversion Hs'; subst.
                     assert (score_le s' s0) as H0 by exact Elt.
                     apply score_le_spec in H0. apply score_le_spec in Hacc. apply score_le_spec. lia.
                 --- eapply Hmax; eauto.
              ** intros j s2 Heq. inversion Heq; subst. exact Hacc.
           ++ destruct IH as [Habs _]. discriminate.
      * specialize (IH (Some (i, s))). destruct (best host port es (Some (i, s))) as [[i1 s1]|].
        -- destruct IH as [Hfrom [Hmax Hacc]]. specialize (Hacc _ _ eq_refl). split; [|split].
           ++ right. destruct Hfrom as [Hi|[k' [Hi Hs]]].
              ** inversion Hi; subst. exists k. split; [now left|exact Es].
              ** exists k'. split; [now right|exact Hs].
           ++ intros j k' s' [Heq|Hin] Hs'.
              ** inversion Heq; subst. rewrite Es in Hs'. inversion Hs'; subst. exact Hacc.
              ** eapply Hmax; eauto.
           ++ intros j s2 Heq. discriminate.
        -- destruct IH as [Habs _]. discriminate.
    + specialize (IH acc). destruct (best host port es acc) as [[i1 s1]|].
      * destruct IH as [Hfrom [Hmax Hacc]]. split; [|split].
        -- destruct Hfrom as [Hi|[k' [Hi Hs]]]; [now left|]. right. exists k'. split; [now right|exact Hs].
        -- intros j k' s' [Heq|Hin] Hs'.
           ++ inversion Heq; subst. congruence.
           ++ eapply Hmax; eauto.
        -- exact Hacc.
      * destruct IH as [Hacc Hnone]. split; [exact Hacc|].
        intros j k' [Heq|Hin]; [inversion Heq; subst; exact Es|eapply Hnone; eauto].
Qed.

(* ------------------------------------------------------------------ sorted wildcard lists *)
Definition desc (a b : string * string * nat) : Prop := suffix_len b <= suffix_len a.
Definition sorted_desc (l : list (string * string * nat)) : Prop := StronglySorted desc l.

Lemma insert_desc_perm e l : Permutation (insert_desc e l) (e :: l).
Proof.
  induction l as [|x l IH]; cbn [insert_desc]; [reflexivity|].
  destruct (Nat.ltb (suffix_len e) (suffix_len x)); [|reflexivity].
  rewrite IH. apply perm_swap.
Qed.

Lemma insert_desc_sorted e l : sorted_desc l -> sorted_desc (insert_desc e l).
Proof.
  unfold sorted_desc. induction l as [|x l IH]; cbn [insert_desc]; intros Hs.
  - constructor; constructor.
  - inversion Hs as [|? ? Hs' Hall]; subst.
    destruct (Nat.ltb (suffix_len e) (suffix_len x)) eqn:E.
    + apply Nat.ltb_lt in E. constructor; [apply IH; exact Hs'|].
      apply (Permutation_Forall (Permutation_sym (insert_desc_perm e l))).
      constructor; [unfold desc; lia|exact Hall].
    + apply Nat.ltb_ge in E. constructor; [exact Hs|].
      constructor; [unfold desc; lia|].
      eapply Forall_impl; [|exact Hall]. unfold desc. intros y Hy. lia.
Qed.

Lemma sort_desc_perm l : Permutation (sort_desc l) l.
Proof.
  unfold sort_desc. induction l as [|x l IH]; cbn [fold_right]; [reflexivity|].
  rewrite insert_desc_perm. now constructor.
Qed.

Lemma sort_desc_sorted l : sorted_desc (sort_desc l).
Proof.
  unfold sort_desc. induction l as [|x l IH]; cbn [fold_right]; [constructor|].
  apply insert_desc_sorted. exact IH.
Qed.

(* a family of per-port lists that NewRouters may produce: the entries of that port, in SOME order that is sorted by
   decreasing suffix length (Go's sort.Sort is not stable) *)
Definition wl_ok (t : table) (wl : string -> list (string * string * nat)) : Prop :=
  forall p, Permutation (wl p) (filter (port_is p) (t_wild t)) /\ sorted_desc (wl p).

Lemma wild_for_ok t : wl_ok t (wild_for t).
Proof. intros p. unfold wild_for. split; [apply sort_desc_perm|apply sort_desc_sorted]. Qed.

Lemma in_wl t wl p s j : wl_ok t wl -> (In (p, s, j) (wl p) <-> In (p, s, j) (t_wild t)).
Proof.
  intros Hwl. destruct (Hwl p) as [Hperm _]. split.
  - intros H. apply (Permutation_in _ Hperm) in H. apply filter_In in H. tauto.
  - intros H. apply (Permutation_in _ (Permutation_sym Hperm)). apply filter_In. split; [exact H|].
    cbn. apply String.eqb_refl.
Qed.

Lemma in_wl_port t wl p e : wl_ok t wl -> In e (wl p) -> exists s j, e = (p, s, j).
Proof.
  intros Hwl H. destruct (Hwl p) as [Hperm _]. apply (Permutation_in _ Hperm) in H.
  apply filter_In in H as [_ H]. destruct e as [[x s] j]. cbn in H. apply String.eqb_eq in H. subst. eauto.
Qed.

Lemma wild_matches_irrel host p s j p' j' : wild_matches host (p, s, j) = wild_matches host (p', s, j').
Proof. reflexivity. Qed.

Lemma first_wild_none l host : first_wild l host = None -> forall e, In e l -> wild_matches host e = false.
Proof.
  induction l as [|x l IH]; cbn [first_wild]; intros H e; [intros []|].
  destruct (wild_matches host x) eqn:E.
  - destruct x as [[? ?] ?]. discriminate.
  - intros [<-|Hin]; [exact E|now apply IH].
Qed.

Lemma first_wild_max l host i : sorted_desc l -> first_wild l host = Some i ->
  exists p s, In (p, s, i) l /\ wild_matches host (p, s, i) = true /\
              forall e, In e l -> wild_matches host e = true -> suffix_len e <= String.length s.
Proof.
  unfold sorted_desc. induction l as [|x l IH]; cbn [first_wild]; intros Hs; [discriminate|].
  inversion Hs as [|? ? Hs' Hall]; subst.
  destruct (wild_matches host x) eqn:E.
  - destruct x as [[p s] j]. intros H; inversion H; subst. exists p, s. split; [now left|]. split; [exact E|].
    intros e [<-|Hin] _; [cbn; lia|].
    rewrite Forall_forall in Hall. specialize (Hall _ Hin). unfold desc in Hall. cbn [suffix_len] in Hall. exact Hall.
  - intros H. destruct (IH Hs' H) as (p & s & Hin & Hm & Hmax). exists p, s. split; [now right|]. split; [exact Hm|].
    intros e [<-|Hin'] Hme; [congruence|now apply Hmax].
Qed.

(* ------------------------------------------------------------------ findHighestPriorityIndex returns the maximum *)
Lemma find_index_max c t wl host port :
  build c = Ok t -> wl_ok t wl ->
  match find_index_with wl t host port with
  | Some i => exists k s, In (i, k) (entries c) /\ score host port k = Some s /\
        forall j k' s', In (j, k') (entries c) -> score host port k' = Some s' -> score_le s' s
  | None => forall j k, In (j, k) (entries c) -> score host port k = None
  end.
Proof.
  intros Hb Hwl. destruct (build_ok _ _ Hb) as [Hhold _].
  assert (C4 : forall j, In (j, KExact host port) (entries c) -> In (host, port, j) (t_exact t)).
  { intros j Hin. apply (Hhold j (KExact host port)). exact Hin. }
  assert (C3 : forall j, In (j, KExact host "*") (entries c) -> In (host, "*", j) (t_exact t)).
  { intros j Hin. apply (Hhold j (KExact host "*")). exact Hin. }
  assert (C2 : forall p j s, In (j, KWild s p) (entries c) -> In (p, s, j) (wl p)).
  { intros p j s Hin. apply (in_wl t wl p s j Hwl). apply (Hhold j (KWild s p)). exact Hin. }
  assert (C0 : forall j, In (j, KDefault) (entries c) -> t_default t = Some j).
  { intros j Hin. apply (Hhold j KDefault). exact Hin. }
  unfold find_index_with.
  destruct (lookup3 host port (t_exact t)) as [i|] eqn:L1; cbn [orelse].
  { apply lookup3_some in L1. exists (KExact host port), (4, 0). split; [apply (Hhold i (KExact host port)); exact L1|]. split.
    - cbn [score]. rewrite !String.eqb_refl. reflexivity.
    - intros j k' [c' n'] _ Hs. apply score_inv in Hs. apply score_le_spec. cbn [fst snd].
      destruct Hs as [(-> & -> & _)|[(-> & -> & _)|[(-> & _)|[(-> & _)|(-> & -> & _)]]]]; lia. }
  destruct (lookup3 host "*" (t_exact t)) as [i|] eqn:L2; cbn [orelse].
  { assert (port <> "*") as Hp by (intros ->; congruence).
    apply lookup3_some in L2. exists (KExact host "*"), (3, 0). split; [apply (Hhold i (KExact host "*")); exact L2|]. split.
    - cbn [score]. rewrite String.eqb_refl. destruct (String.eqb_spec "*" port) as [Heq|_]; [congruence|reflexivity].
    - intros j k' [c' n'] Hin Hs. apply score_inv in Hs. apply score_le_spec. cbn [fst snd].
      destruct Hs as [(-> & -> & ->)|[(-> & -> & _)|[(-> & _)|[(-> & _)|(-> & -> & _)]]]]; try lia.
      exfalso. exact (lookup3_none _ _ _ L1 _ (C4 _ Hin)). }
  destruct (first_wild (wl port) host) as [i|] eqn:L3; cbn [orelse].
  { destruct (Hwl port) as [_ Hsorted].
    destruct (first_wild_max _ _ _ Hsorted L3) as (p0 & s0 & Hin0 & Hm0 & Hmax0).
    destruct (in_wl_port _ _ _ _ Hwl Hin0) as (s1 & j1 & Heq). inversion Heq; subst p0 s1 j1.
    exists (KWild s0 port), (2, String.length s0). split.
    { apply (Hhold i (KWild s0 port)). apply (in_wl t wl port s0 i Hwl). exact Hin0. } split.
    - cbn [score]. cbn [wild_matches] in Hm0. rewrite Hm0, String.eqb_refl. reflexivity.
    - intros j k' [c' n'] Hin Hs. apply score_inv in Hs. apply score_le_spec. cbn [fst snd].
      destruct Hs as [(-> & -> & ->)|[(-> & -> & -> & _)|[(-> & s & -> & -> & Hm)|[(-> & _)|(-> & -> & _)]]]]; try lia.
      + exfalso. exact (lookup3_none _ _ _ L1 _ (C4 _ Hin)).
      + exfalso. exact (lookup3_none _ _ _ L2 _ (C3 _ Hin)).
      + right. split; [reflexivity|].
        specialize (Hmax0 (port, s, j) (C2 _ _ _ Hin) Hm). cbn [suffix_len] in Hmax0. exact Hmax0. }
  destruct (first_wild (wl "*") host) as [i|] eqn:L4; cbn [orelse].
  { assert (port <> "*") as Hp by (intros ->; congruence).
    destruct (Hwl "*") as [_ Hsorted].
    destruct (first_wild_max _ _ _ Hsorted L4) as (p0 & s0 & Hin0 & Hm0 & Hmax0).
    destruct (in_wl_port _ _ _ _ Hwl Hin0) as (s1 & j1 & Heq). inversion Heq; subst p0 s1 j1.
    exists (KWild s0 "*"), (1, String.length s0). split.
    { apply (Hhold i (KWild s0 "*")). apply (in_wl t wl "*" s0 i Hwl). exact Hin0. } split.
    - cbn [score]. cbn [wild_matches] in Hm0. rewrite Hm0.
      destruct (String.eqb_spec "*" port) as [Heq'|_]; [congruence|reflexivity].
    - intros j k' [c' n'] Hin Hs. apply score_inv in Hs. apply score_le_spec. cbn [fst snd].
      destruct Hs as [(-> & -> & ->)|[(-> & -> & -> & _)|[(-> & s & -> & -> & Hm)|[(-> & (s & -> & -> & Hm) & _)|(-> & -> & _)]]]]; try lia.
      + exfalso. exact (lookup3_none _ _ _ L1 _ (C4 _ Hin)).
      + exfalso. exact (lookup3_none _ _ _ L2 _ (C3 _ Hin)).
      + exfalso. pose proof (first_wild_none _ _ L3 (port, s, j) (C2 _ _ _ Hin)) as Hf.
        rewrite (wild_matches_irrel host port s j port 0) in Hf. congruence.
      + right. split; [reflexivity|].
        rewrite (wild_matches_irrel host port s 0 "*" j) in Hm.
        specialize (Hmax0 ("*", s, j) (C2 _ _ _ Hin) Hm). cbn [suffix_len] in Hmax0. exact Hmax0. }
  destruct (t_default t) as [d|] eqn:L5.
  { exists KDefault, (0, 0). split; [apply (Hhold d KDefault); exact L5|]. split; [reflexivity|].
    intros j k' [c' n'] Hin Hs. apply score_inv in Hs. apply score_le_spec. cbn [fst snd].
    destruct Hs as [(-> & -> & ->)|[(-> & -> & -> & _)|[(-> & s & -> & -> & Hm)|[(-> & (s & -> & -> & Hm) & _)|(-> & -> & _)]]]]; try lia.
    + exfalso. exact (lookup3_none _ _ _ L1 _ (C4 _ Hin)).
    + exfalso. exact (lookup3_none _ _ _ L2 _ (C3 _ Hin)).
    + exfalso. pose proof (first_wild_none _ _ L3 (port, s, j) (C2 _ _ _ Hin)) as Hf.
      rewrite (wild_matches_irrel host port s j port 0) in Hf. congruence.
    + exfalso. pose proof (first_wild_none _ _ L4 ("*", s, j) (C2 _ _ _ Hin)) as Hf.
      rewrite (wild_matches_irrel host "*" s j port 0) in Hf. congruence. }
  intros j k Hin. destruct (score host port k) as [[c' n']|] eqn:Hs; [exfalso|reflexivity].
  apply score_inv in Hs.
  destruct Hs as [(-> & -> & ->)|[(-> & -> & -> & _)|[(-> & s & -> & -> & Hm)|[(-> & (s & -> & -> & Hm) & _)|(-> & -> & ->)]]]].
  + exact (lookup3_none _ _ _ L1 _ (C4 _ Hin)).
  + exact (lookup3_none _ _ _ L2 _ (C3 _ Hin)).
  + pose proof (first_wild_none _ _ L3 (port, s, j) (C2 _ _ _ Hin)) as Hf.
    rewrite (wild_matches_irrel host port s j port 0) in Hf. congruence.
  + pose proof (first_wild_none _ _ L4 ("*", s, j) (C2 _ _ _ Hin)) as Hf.
    rewrite (wild_matches_irrel host "*" s j port 0) in Hf. congruence.
  + specialize (C0 _ Hin). congruence.
Qed.

(* in an accepted configuration two candidates with the same score are the same entry (this is where "equal-length
   wildcard suffixes cannot both match" is used) *)
Lemma score_unique c t host port i j k k' s : build c = Ok t ->
  In (i, k) (entries c) -> In (j, k') (entries c) ->
  score host port k = Some s -> score host port k' = Some s -> i = j /\ k = k'.
Proof.
  intros Hb Hi Hj Hs Hs'. destruct (build_ok _ _ Hb) as [_ Huniq].
  pose proof (score_same_kind _ _ _ _ _ Hs Hs') as <-. split; [|reflexivity]. eapply Huniq; eauto.
Qed.

Lemma find_index_best c t wl host port :
  build c = Ok t -> wl_ok t wl ->
  find_index_with wl t host port = option_map fst (best host port (entries c) None).
Proof.
  intros Hb Hwl. pose proof (find_index_max c t wl host port Hb Hwl) as Hf.
  pose proof (best_spec host port (entries c) None) as Hbest.
  destruct (best host port (entries c) None) as [[i1 s1]|]; cbn [option_map fst].
  - destruct Hbest as [[Habs|(k1 & Hin1 & Hs1)] [Hmax1 _]]; [discriminate|].
    destruct (find_index_with wl t host port) as [i|].
    + destruct Hf as (k & s & Hin & Hs & Hmax).
      assert (s = s1) as ->.
      { apply score_le_antisym; [exact (Hmax1 _ _ _ Hin Hs)|exact (Hmax _ _ _ Hin1 Hs1)]. }
      destruct (score_unique _ _ _ _ _ _ _ _ _ Hb Hin Hin1 Hs Hs1) as [-> _]. reflexivity.
    + rewrite (Hf _ _ Hin1) in Hs1. discriminate.
  - destruct Hbest as [_ Hnone]. destruct (find_index_with wl t host port) as [i|]; [|reflexivity].
    destruct Hf as (k & s & Hin & Hs & _). rewrite (Hnone _ _ Hin) in Hs. discriminate.
Qed.

(* ------------------------------------------------------------------ findVirtualHost *)
Lemma only_default_index t wl host port : only_default t = true -> wl_ok t wl ->
  find_index_with wl t host port = t_default t.
Proof.
  unfold only_default. intros Ho Hwl.
  destruct (t_exact t) eqn:Ee; [|discriminate]. destruct (t_wild t) eqn:Ew; [|discriminate].
  unfold find_index_with. rewrite Ee. cbn [lookup3 orelse].
  assert (forall p, wl p = []) as Hnil.
  { intros p. destruct (Hwl p) as [Hperm _]. rewrite Ew in Hperm. cbn [filter] in Hperm.
    apply Permutation_sym in Hperm. now apply Permutation_nil in Hperm. }
  rewrite !Hnil. reflexivity.
Qed.

Theorem vhost_precedence c t wl h host port :
  build c = Ok t -> wl_ok t wl -> host_parts h = Some (host, port) ->
  find_vhost_with wl t (Some h) = spec_vhost c h.
Proof.
  intros Hb Hwl Hh. unfold spec_vhost. rewrite Hh.
  rewrite <- (find_index_best c t wl host port Hb Hwl).
  unfold find_vhost_with. cbn [host_parts_opt]. rewrite Hh.
  destruct (only_default t) eqn:Eo; [|reflexivity].
  symmetry. now apply only_default_index.
Qed.

(* the selected virtual host is a candidate of greatest (class, suffix length); none is selected iff there is no candidate *)
Theorem spec_vhost_is_max c h host port : host_parts h = Some (host, port) ->
  match spec_vhost c h with
  | Some i => exists k s, In (i, k) (entries c) /\ score host port k = Some s /\
        forall j k' s', In (j, k') (entries c) -> score host port k' = Some s' -> score_le s' s
  | None => forall j k, In (j, k) (entries c) -> score host port k = None
  end.
Proof.
  intros Hh. unfold spec_vhost. rewrite Hh.
  pose proof (best_spec host port (entries c) None) as Hbest.
  destruct (best host port (entries c) None) as [[i s]|]; cbn [option_map fst].
  - destruct Hbest as [[Habs|(k & Hin & Hs)] [Hmax _]]; [discriminate|]. exists k, s. auto.
  - destruct Hbest as [_ Hnone]. exact Hnone.
Qed.

(* a Host value that is unset, empty or not host[:port] selects the default virtual host (none if there is no default) *)
Theorem vhost_unusable_host t wl h : host_parts_opt h = None -> find_vhost_with wl t h = t_default t.
Proof.
  intros Hh. unfold find_vhost_with. rewrite Hh. destruct (only_default t); reflexivity.
Qed.

(* the default of an accepted configuration is its default entry *)
Lemma default_of_entries c t : build c = Ok t -> t_default t = default_of (entries c).
Proof.
  intros Hb. destruct (build_ok _ _ Hb) as [Hhold Huniq]. unfold default_of.
  destruct (find is_default (entries c)) as [[i k]|] eqn:Ef; cbn [option_map fst].
  - apply find_some in Ef as [Hin Hd]. unfold is_default in Hd. cbn [snd] in Hd. destruct k; try discriminate.
    apply (Hhold i KDefault). exact Hin.
  - destruct (t_default t) as [d|] eqn:Ed; [|reflexivity]. exfalso.
    assert (In (d, KDefault) (entries c)) as Hin by (apply (Hhold d KDefault); exact Ed).
    pose proof (find_none _ _ Ef _ Hin) as Hn. discriminate Hn.
Qed.

(* precedence for EVERY Host value *)
Theorem vhost_precedence_any c t wl h :
  build c = Ok t -> wl_ok t wl -> find_vhost_with wl t h = spec_vhost_opt c h.
Proof.
  intros Hb Hwl. unfold spec_vhost_opt. destruct (host_parts_opt h) as [[host port]|] eqn:Eh.
  - destruct h as [hh|]; [|discriminate]. cbn [host_parts_opt] in Eh.
    rewrite (vhost_precedence c t wl hh host port Hb Hwl Eh). unfold spec_vhost. rewrite Eh. reflexivity.
  - rewrite (vhost_unusable_host t wl h Eh). now apply default_of_entries.
Qed.

(* ------------------------------------------------------------------ case-insensitivity *)
Lemma lower_empty s : lower s = "" -> s = "".
Proof. destruct s; [reflexivity|discriminate]. Qed.

Theorem vhost_host_case_insensitive t wl h h' : lower h = lower h' ->
  find_vhost_with wl t (Some h) = find_vhost_with wl t (Some h').
Proof.
  intros Hl. unfold find_vhost_with. cbn [host_parts_opt]. unfold host_parts.
  destruct (String.eqb_spec h "") as [->|Hn]; destruct (String.eqb_spec h' "") as [->|Hn'].
  - reflexivity.
  - cbn in Hl. symmetry in Hl. apply lower_empty in Hl. congruence.
  - cbn in Hl. apply lower_empty in Hl. congruence.
  - rewrite Hl. reflexivity.
Qed.

Lemma add_domains_lower t i ds ds' : map lower ds = map lower ds' -> add_domains t i ds = add_domains t i ds'.
Proof.
  revert t ds'; induction ds as [|d ds IH]; intros t [|d' ds'] H; try discriminate; [reflexivity|].
  cbn [map] in H. inversion H as [[Hd Hds]]. cbn [add_domains]. unfold classify. rewrite Hd.
  destruct (match split_graceful (lower d') with Some hp => classify_hp hp | None => Err ENoVirtualHostPort end); [|reflexivity].
  destruct (add_entry t i a); [|reflexivity]. now apply IH.
Qed.

Definition same_modulo_case (v v' : vhost) : Prop :=
  map lower (vh_domains v) = map lower (vh_domains v') /\ vh_routes v = vh_routes v'.

Lemma build_from_lower t i vs vs' : Forall2 same_modulo_case vs vs' -> build_from t i vs = build_from t i vs'.
Proof.
  intros H; revert t i; induction H as [|v v' vs vs' [Hd Hr] _ IH]; intros t i; [reflexivity|].
  cbn [build_from]. rewrite Hr, (add_domains_lower t i _ _ Hd).
  destruct (existsb r_bad (vh_routes v')); [reflexivity|].
  destruct (add_domains t i (vh_domains v')); [apply IH|reflexivity].
Qed.

Theorem build_domain_case_insensitive c c' : Forall2 same_modulo_case c c' -> build c = build c'.
Proof.
  intros H. unfold build. inversion H as [|v v' vs vs' Hv Hvs]; subst; [reflexivity|].
  now apply build_from_lower.
Qed.

(* ------------------------------------------------------------------ first match *)
Theorem first_route_spec rs rq :
  match first_route rs rq with
  | Some r => exists pre post, rs = (pre ++ r :: post)%list /\ route_holds rq r = true /\
                               Forall (fun x => route_holds rq x = false) pre
  | None => Forall (fun x => route_holds rq x = false) rs
  end.
Proof.
  unfold first_route. induction rs as [|r rs IH]; cbn [find]; [constructor|].
  destruct (route_holds rq r) eqn:E.
  - exists [], rs. split; [reflexivity|]. split; [exact E|constructor].
  - destruct (find (route_holds rq) rs) as [r'|].
    + destruct IH as (pre & post & -> & Hh & Hpre). exists (r :: pre), post. split; [reflexivity|].
      split; [exact Hh|]. constructor; [exact E|exact Hpre].
    + constructor; [exact E|exact IH].
Qed.

Theorem all_routes_spec rs rq r : In r (all_routes rs rq) <-> In r rs /\ route_holds rq r = true.
Proof. unfold all_routes. apply filter_In. Qed.

Theorem all_routes_head rs rq : first_route rs rq = hd_error (all_routes rs rq).
Proof.
  unfold first_route, all_routes. induction rs as [|r rs IH]; cbn [find filter]; [reflexivity|].
  destruct (route_holds rq r); [reflexivity|exact IH].
Qed.

(* ------------------------------------------------------------------ purity: the answer does not depend on the order
   Go's unstable sort gave to equal-length suffixes, only on configuration and request *)
Theorem find_vhost_order_irrelevant c t wl wl' h :
  build c = Ok t -> wl_ok t wl -> wl_ok t wl' -> find_vhost_with wl t h = find_vhost_with wl' t h.
Proof.
  intros Hb Hwl Hwl'. rewrite (vhost_precedence_any c t wl h Hb Hwl), (vhost_precedence_any c t wl' h Hb Hwl'). reflexivity.
Qed.

Theorem match_route_order_irrelevant c t wl wl' rq :
  build c = Ok t -> wl_ok t wl -> wl_ok t wl' -> match_route_with wl c t rq = match_route_with wl' c t rq.
Proof.
  intros Hb Hwl Hwl'. unfold match_route_with.
  rewrite (find_vhost_order_irrelevant c t wl wl' _ Hb Hwl Hwl'). reflexivity.
Qed.

(* a sequence of lookups on one table: each answer is the answer of that request alone *)
Definition lookups (c : config) (t : table) (rqs : list request) : list (option route) := map (match_route c t) rqs.

Theorem lookups_independent c t pre rq post :
  nth_error (lookups c t (pre ++ rq :: post)%list) (List.length pre) = Some (match_route c t rq).
Proof.
  unfold lookups. rewrite map_app. cbn [map]. rewrite nth_error_app2; rewrite map_length; [|lia].
  rewrite Nat.sub_diag. reflexivity.
Qed.

(* completeness: a candidate whose score is maximal is the one selected *)
Theorem spec_vhost_beats c t h host port i k s :
  build c = Ok t -> host_parts h = Some (host, port) ->
  In (i, k) (entries c) -> score host port k = Some s ->
  (forall j k' s', In (j, k') (entries c) -> score host port k' = Some s' -> score_le s' s) ->
  spec_vhost c h = Some i.
Proof.
  intros Hb Hh Hin Hs Hmax. pose proof (spec_vhost_is_max c h host port Hh) as Hspec.
  destruct (spec_vhost c h) as [i1|].
  - destruct Hspec as (k1 & s1 & Hin1 & Hs1 & Hmax1).
    assert (s = s1) as -> by (apply score_le_antisym; [exact (Hmax1 _ _ _ Hin Hs)|exact (Hmax _ _ _ Hin1 Hs1)]).
    destruct (score_unique _ _ _ _ _ _ _ _ _ Hb Hin Hin1 Hs Hs1) as [-> _]. reflexivity.
  - rewrite (Hspec _ _ Hin) in Hs. discriminate.
Qed.

Theorem exact_port_wins c t h host port i :
  build c = Ok t -> host_parts h = Some (host, port) ->
  In (i, KExact host port) (entries c) -> spec_vhost c h = Some i.
Proof.
  intros Hb Hh Hin. eapply (spec_vhost_beats c t h host port i (KExact host port) (4, 0)); eauto.
  - cbn [score]. rewrite !String.eqb_refl. reflexivity.
  - intros j k' [c' n'] _ Hs. apply score_inv in Hs. apply score_le_spec. cbn [fst snd].
    destruct Hs as [(-> & -> & _)|[(-> & -> & _)|[(-> & _)|[(-> & _)|(-> & -> & _)]]]]; lia.
Qed.

(* the default is used only when no other domain applies *)
Theorem default_is_last c h host port i :
  host_parts h = Some (host, port) -> spec_vhost c h = Some i ->
  (forall k s, In (i, k) (entries c) -> score host port k = Some s -> k = KDefault) ->
  forall j k, In (j, k) (entries c) -> k <> KDefault -> score host port k = None.
Proof.
  intros Hh Hspec Honly j k Hin Hk. pose proof (spec_vhost_is_max c h host port Hh) as Hmax. rewrite Hspec in Hmax.
  destruct Hmax as (k0 & s0 & Hin0 & Hs0 & Hmax).
  pose proof (Honly _ _ Hin0 Hs0) as ->. cbn [score] in Hs0. inversion Hs0; subst.
  destruct (score host port k) as [[c' n']|] eqn:Hs; [|reflexivity]. exfalso.
  pose proof (Hmax _ _ _ Hin Hs) as Hle. apply score_le_spec in Hle. cbn [fst snd] in Hle.
  apply score_inv in Hs.
  destruct Hs as [(-> & _)|[(-> & _)|[(-> & _)|[(-> & _)|(_ & _ & ->)]]]]; try lia. congruence.
Qed.

(* ------------------------------------------------------------------ fast index *)
Lemma fast_lookup_fold rs k v : forall acc,
  fold_left (fun acc r => if index_key_is k v r then Some r else acc) rs acc =
  match fast_lookup rs k v with Some r => Some r | None => acc end.
Proof.
  unfold fast_lookup. induction rs as [|r rs IH]; intros acc; cbn [fold_left]; [reflexivity|].
  rewrite (IH (if index_key_is k v r then Some r else acc)), (IH (if index_key_is k v r then Some r else None)).
  destruct (fold_left _ rs None); [reflexivity|]. destruct (index_key_is k v r); reflexivity.
Qed.

(* the index holds, under key/value, the LAST route whose only header criterion is key = value; nothing if there is none *)
Theorem fast_lookup_spec rs k v :
  match fast_lookup rs k v with
  | Some r => exists pre post, rs = (pre ++ r :: post)%list /\ index_key_is k v r = true /\
                               Forall (fun x => index_key_is k v x = false) post
  | None => Forall (fun x => index_key_is k v x = false) rs
  end.
Proof.
  induction rs as [|r rs IH]; [constructor|].
  unfold fast_lookup. cbn [fold_left]. rewrite fast_lookup_fold.
  destruct (fast_lookup rs k v) as [r'|].
  - destruct IH as (pre & post & -> & Hk & Hpost). exists (r :: pre), post. auto.
  - destruct (index_key_is k v r) eqn:E.
    + exists [], rs. auto.
    + constructor; assumption.
Qed.

(* where the index can stand for the scan: the first matching route, if it is the only route recorded under its
   key/value, is what the index returns for that key/value *)
Theorem fast_lookup_finds_first_match rs rq r k v :
  first_route rs rq = Some r -> index_key_is k v r = true ->
  (forall r', In r' rs -> index_key_is k v r' = true -> r' = r) ->
  fast_lookup rs k v = Some r.
Proof.
  intros Hf Hk Huniq. pose proof (first_route_spec rs rq) as Hs. rewrite Hf in Hs.
  destruct Hs as (pre & post & Hrs & _ & _).
  pose proof (fast_lookup_spec rs k v) as Hl. destruct (fast_lookup rs k v) as [r'|].
  - destruct Hl as (pre' & post' & Hrs' & Hk' & _). f_equal. apply Huniq; [|exact Hk'].
    rewrite Hrs'. apply in_or_app. right. now left.
  - rewrite Forall_forall in Hl. assert (In r rs) as Hin by (rewrite Hrs; apply in_or_app; right; now left).
    rewrite (Hl _ Hin) in Hk. discriminate.
Qed.

(* and conversely: an indexed candidate that matches is the scan's answer when no earlier route matches - in
   particular when it is the only matching route; with several matching routes the index (last route per key/value,
   no order between keys) need NOT give the first one, so a lookup may use it only under this condition *)
Theorem fast_candidate_is_first_match rs rq r k v :
  fast_lookup rs k v = Some r -> route_holds rq r = true ->
  (forall r', In r' rs -> route_holds rq r' = true -> r' = r) ->
  first_route rs rq = Some r.
Proof.
  intros Hl Hh Huniq. pose proof (first_route_spec rs rq) as Hs. destruct (first_route rs rq) as [r'|].
  - destruct Hs as (pre & post & Hrs & Hh' & _). f_equal. apply Huniq; [|exact Hh'].
    rewrite Hrs. apply in_or_app. right. now left.
  - pose proof (fast_lookup_spec rs k v) as Hk. rewrite Hl in Hk. destruct Hk as (pre & post & Hrs & _ & _).
    rewrite Forall_forall in Hs. assert (In r rs) as Hin by (rewrite Hrs; apply in_or_app; right; now left).
    rewrite (Hs _ Hin) in Hh. discriminate.
Qed.

(* the counter-example shape: two matching routes under one key/value - the index gives the later one, the scan the
   earlier one *)
Theorem fast_index_is_not_first_match :
  let r1 := Build_route (Build_rmatch "/api/v1" "" None [Build_hmatch "x-env" "gray" None] [] []) "first" false in
  let r2 := Build_route (Build_rmatch "/api" "" None [Build_hmatch "x-env" "gray" None] [] []) "second" false in
  let rq := Build_request [("x-mosn-path", "/api/v1/x")] [("x-env", "gray")] [] [] in
  option_map r_cluster (first_route [r1; r2] rq) = Some "first" /\
  option_map r_cluster (fast_lookup [r1; r2] "x-env" "gray") = Some "second".
Proof. vm_compute. split; reflexivity. Qed.

(* ------------------------------------------------------------------ acceptance = no two domains equal after normalisation *)
(* a configuration is well formed when every route can be built and every domain classifies on its own *)
Definition vhost_wf (v : vhost) : Prop :=
  existsb r_bad (vh_routes v) = false /\ Forall (fun d => exists k, classify d = Ok k) (vh_domains v).

Lemma add_entry_fresh t i k : ~ present t k -> exists t', add_entry t i k = Ok t'.
Proof.
  intros Hnp. destruct k as [h p|s p|]; cbn [add_entry].
  - destruct (existsb (key_eqb h p) (t_exact t)) eqn:E; [|eauto]. exfalso. apply Hnp.
    apply existsb_exists in E as ([[x y] j] & Hin & Hk). apply key_eqb_true in Hk as [-> ->]. exists j. exact Hin.
  - destruct (existsb (key_eqb p s) (t_wild t)) eqn:E; [|eauto]. exfalso. apply Hnp.
    apply existsb_exists in E as ([[x y] j] & Hin & Hk). apply key_eqb_true in Hk as [-> ->]. exists j. exact Hin.
  - destruct (t_default t) as [d|] eqn:E; [|eauto]. exfalso. apply Hnp. exists d. exact E.
Qed.

Lemma add_all_complete es : forall t, NoDup (map snd es) -> (forall k, In k (map snd es) -> ~ present t k) ->
  exists t', add_all t es = Ok t'.
Proof.
  induction es as [|[i k] es IH]; intros t Hnd Hfresh; cbn [add_all]; [eauto|].
  cbn [map snd] in Hnd. inversion Hnd as [|? ? Hnin Hnd']; subst.
  destruct (add_entry_fresh t i k (Hfresh k (or_introl eq_refl))) as [t1 E]. rewrite E.
  apply IH; [exact Hnd'|]. intros k' Hin [j Hj].
  destruct (add_entry_ok _ _ _ _ E) as [_ Hiff]. apply Hiff in Hj as [Hj|[_ ->]].
  - apply (Hfresh k' (or_intror Hin)). exists j. exact Hj.
  - contradiction.
Qed.

Lemma add_domains_wf t i ds : Forall (fun d => exists k, classify d = Ok k) ds ->
  add_domains t i ds = add_all t (kinds_of i ds).
Proof.
  intros H; revert t; induction H as [|d ds [k Hk] _ IH]; intros t; cbn [add_domains kinds_of]; [reflexivity|].
  rewrite Hk. cbn [add_all]. destruct (add_entry t i k); [apply IH|reflexivity].
Qed.

Lemma build_from_wf vs : Forall vhost_wf vs -> forall t i, build_from t i vs = add_all t (entries_from i vs).
Proof.
  induction 1 as [|v vs [Hb Hd] _ IH]; intros t i; cbn [build_from entries_from]; [reflexivity|].
  rewrite Hb, add_all_app, (add_domains_wf t i _ Hd).
  destruct (add_all t (kinds_of i (vh_domains v))); [apply IH|reflexivity].
Qed.

Lemma add_domains_ok_wf t i ds t' : add_domains t i ds = Ok t' -> Forall (fun d => exists k, classify d = Ok k) ds.
Proof.
  revert t; induction ds as [|d ds IH]; intros t; cbn [add_domains]; [constructor|].
  destruct (classify d) as [k|e] eqn:E; [|discriminate]. destruct (add_entry t i k) as [t1|]; [|discriminate].
  intros H. constructor; [eauto|eapply IH; eauto].
Qed.

Lemma build_from_ok_wf vs : forall t i t', build_from t i vs = Ok t' -> Forall vhost_wf vs.
Proof.
  induction vs as [|v vs IH]; intros t i t'; cbn [build_from]; [constructor|].
  destruct (existsb r_bad (vh_routes v)) eqn:Eb; [discriminate|].
  destruct (add_domains t i (vh_domains v)) as [t1|] eqn:Ed; [|discriminate].
  intros H. constructor; [split; [exact Eb|eapply add_domains_ok_wf; eauto]|eapply IH; eauto].
Qed.

(* NewRouters accepts a configuration exactly when it is non-empty, well formed, and no two of its domains are the same
   after normalisation (classify: lower case, host / port split, "*" = "*:*") - wherever the repetitions are *)
Theorem build_accepts_iff c :
  (exists t, build c = Ok t) <-> c <> [] /\ Forall vhost_wf c /\ NoDup (map snd (entries c)).
Proof.
  split.
  - intros [t Hb]. split; [|split].
    + intros ->. discriminate Hb.
    + unfold build in Hb. destruct c; [discriminate|]. eapply build_from_ok_wf; eauto.
    + apply build_entries in Hb. destruct (add_all_ok _ _ _ Hb) as (_ & Hnd & _). exact Hnd.
  - intros (Hne & Hwf & Hnd). unfold build, entries in *. destruct c as [|v vs]; [contradiction|].
    rewrite (build_from_wf _ Hwf). apply add_all_complete; [exact Hnd|].
    intros k _ [j Hj]. exact (empty_holds _ _ Hj).
Qed.

(* no shadowing: in an accepted configuration a domain that is the best candidate for a Host decides the lookup - the
   virtual host that owns it is the one used, for every order the unstable sort may leave *)
Theorem no_shadowing c t wl h host port i k s :
  build c = Ok t -> wl_ok t wl -> host_parts h = Some (host, port) ->
  In (i, k) (entries c) -> score host port k = Some s ->
  (forall j k' s', In (j, k') (entries c) -> score host port k' = Some s' -> score_le s' s) ->
  find_vhost_with wl t (Some h) = Some i.
Proof.
  intros Hb Hwl Hh Hin Hs Hmax. rewrite (vhost_precedence c t wl h host port Hb Hwl Hh).
  eapply spec_vhost_beats; eauto.
Qed.

(* the shape of the seeded mistake: a repetition with a same-length distractor between is still a repetition *)
Theorem repeated_wildcard_rejected :
  build [Build_vhost ["*.aaa.com"] []; Build_vhost ["*.bbb.com"] []; Build_vhost ["*.AAA.com"] []] = Err EDupVirtualHost.
Proof. vm_compute. reflexivity. Qed.
