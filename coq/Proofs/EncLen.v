(* Proofs/EncLen.v (codec) - C01, "consistent length fields" stated on the EMITTED BYTES: for every frame that goes through an
   encoder's slow path (body replaced, header changed, frame built locally) every length field, read back from the emitted
   bytes at its fixed offset by a reader that knows nothing of the encoder (rd = big-endian value of a byte range), is the
   length of the part it describes, for every body / header block / class of every size the fields can hold. *)
From Coq Require Import List NArith Lia ZifyBool ZifyNat ZifyN Bool.
From MV Require Import Lib.Bytes Lib.Dec Model.CodecParams Model.HeaderKV Model.Bolt Model.Xcodecs
  Proofs.HeaderKV Proofs.Bolt Proofs.BoltEnc Proofs.Xcodecs Proofs.XcodecsEnc.
Import ListNotations.
Open Scope N_scope.

Definition rd (out : bytes) (lo hi : N) : N := be_decw (sub out lo hi).

Lemma sub_at (a m e : bytes) i j : i = blen a -> j = i + blen m -> sub (a ++ m ++ e) i j = m.
Proof. intros -> ->. apply sub_mid. Qed.
Lemma sub_at_end (a m : bytes) i j : i = blen a -> j = i + blen m -> sub (a ++ m) i j = m.
Proof. intros Hi Hj. pose proof (sub_at a m [] i j Hi Hj) as X. rewrite app_nil_r in X. exact X. Qed.
Lemma sub_at_0 (m e : bytes) j : j = blen m -> sub (m ++ e) 0 j = m.
Proof. intros ->. exact (sub_at [] m e 0 (blen m) eq_refl eq_refl). Qed.

(* ---- dubbo-thrift: the slow path, for EVERY library header writer (no premise on the library) ---- *)
Section ThriftLen.
Variable whdr : bytes -> N -> bytes.
Theorem thrift_slow_length_fields svc id payload :
  thrift_HeaderIdx + blen (whdr svc id) < U16 ->
  thrift_MessageLenSize + thrift_HeaderIdx + blen (whdr svc id) + blen payload < U32 ->
  let out := thrift_encode_slow whdr svc id payload in
  let hlen := thrift_HeaderIdx + blen (whdr svc id) in
  blen out = thrift_MessageLenSize + hlen + blen payload /\
  rd out 0 4 = blen out - 4 /\                     (* frame length prefix *)
  rd out 6 10 = blen out - 4 /\                    (* message length inside the message header *)
  rd out 10 12 = hlen /\                           (* header length *)
  sub out (thrift_MessageLenSize + hlen) (blen out) = payload.
Proof.
  intros Hh Hm. cbv zeta. unfold thrift_encode_slow.
  set (lib := whdr svc id) in *. set (hlen := thrift_HeaderIdx + blen lib) in *. set (mlen := hlen + blen payload).
  assert (Emlen : mlen mod U32 = mlen) by (apply N.mod_small; unfold mlen, hlen, thrift_MessageLenSize in *; clear - Hm; lia).
  assert (Ehlen : hlen mod U16 = hlen) by (apply N.mod_small; exact Hh).
  rewrite Emlen, Ehlen.
  set (out := be_enc 4 mlen ++ [thrift_Magic0; thrift_Magic1] ++ be_enc 4 mlen ++ be_enc 2 hlen ++ [1] ++ lib ++ payload).
  assert (Hout : blen out = thrift_MessageLenSize + hlen + blen payload).
  { unfold out. rewrite !blen_app, !be_enc_blen. unfold hlen, thrift_HeaderIdx, thrift_MessageLenSize. cbn [blen length N.of_nat]. clear. lia. }
  assert (D4 : be_decw (be_enc 4 mlen) = mlen).
  { rewrite be_decw_enc. apply N.mod_small. change (256 ^ N.of_nat 4) with U32. unfold mlen, hlen, thrift_MessageLenSize in *. clear - Hm. lia. }
  assert (D2 : be_decw (be_enc 2 hlen) = hlen).
  { rewrite be_decw_enc. apply N.mod_small. change (256 ^ N.of_nat 2) with U16. exact Hh. }
  assert (Hm4 : blen out - 4 = mlen) by (rewrite Hout; unfold mlen, thrift_MessageLenSize; clear; lia).
  split; [exact Hout|]. unfold rd. rewrite Hm4.
  split.
  { unfold out. rewrite sub_at_0 by (rewrite be_enc_blen; reflexivity). exact D4. }
  split.
  { replace out with ((be_enc 4 mlen ++ [thrift_Magic0; thrift_Magic1]) ++ be_enc 4 mlen ++ (be_enc 2 hlen ++ [1] ++ lib ++ payload))
      by (unfold out; rewrite <- !app_assoc; reflexivity).
    rewrite sub_at by (rewrite ?blen_app, !be_enc_blen; reflexivity). exact D4. }
  split.
  { replace out with ((be_enc 4 mlen ++ [thrift_Magic0; thrift_Magic1] ++ be_enc 4 mlen) ++ be_enc 2 hlen ++ ([1] ++ lib ++ payload))
      by (unfold out; rewrite <- !app_assoc; reflexivity).
    rewrite sub_at by (rewrite ?blen_app, !be_enc_blen; reflexivity). exact D2. }
  replace out with ((be_enc 4 mlen ++ [thrift_Magic0; thrift_Magic1] ++ be_enc 4 mlen ++ be_enc 2 hlen ++ [1] ++ lib) ++ payload)
    by (unfold out; rewrite <- !app_assoc; reflexivity).
  apply sub_at_end.
  - rewrite !blen_app, !be_enc_blen. unfold hlen, thrift_HeaderIdx, thrift_MessageLenSize. cbn [blen length N.of_nat]. clear. lia.
  - rewrite blen_app. rewrite !blen_app, !be_enc_blen. unfold hlen, thrift_HeaderIdx, thrift_MessageLenSize. cbn [blen length N.of_nat]. clear. lia.
Qed.
End ThriftLen.

(* ---- dubbo: SetData(d) with another buffer, then Encode (any frame with the 2-byte magic and the 8 numeric fields: decoded,
   or built locally as Hijack / Reply do) ---- *)
Theorem dubbo_set_data_length_field mem f d :
  blen (x_magic f) = 2 -> length (x_nums f) = 8%nat -> dubbo_HeaderLen + blen d < U32 ->
  let out := dubbo_encode mem (dubbo_set_data true d f) in
  blen out = dubbo_HeaderLen + blen d /\ rd out 12 16 = blen d /\ sub out dubbo_HeaderLen (blen out) = d.
Proof.
  intros Hm Hl Hlen. cbv zeta.
  unfold dubbo_encode, dubbo_set_data, set_num, nth_num. cbn [x_raw x_nums x_payload x_magic].
  destruct (x_nums f) as [|flag [|status [|id [|dl [|ev [|tw [|dir [|ser [|]]]]]]]]] eqn:En; try (cbn in Hl; lia).
  cbn [firstn skipn app nth].
  destruct (x_magic f) as [|m0 [|m1 [|]]] eqn:Em; try (unfold blen in Hm; cbn in Hm; lia).
  cbn [firstn app].
  rewrite (N.mod_small (blen d)) by (unfold dubbo_HeaderLen in Hlen; clear - Hlen; lia).
  set (pre := m0 :: m1 :: flag :: status :: be_enc 8 id).
  change (m0 :: m1 :: flag :: status :: be_enc 8 id ++ be_enc 4 (blen d) ++ d) with (pre ++ be_enc 4 (blen d) ++ d).
  assert (Hp : blen pre = 12) by (unfold pre; rewrite !blen_cons, be_enc_blen; reflexivity).
  assert (Hout : blen (pre ++ be_enc 4 (blen d) ++ d) = dubbo_HeaderLen + blen d).
  { rewrite !blen_app, Hp, be_enc_blen. unfold dubbo_HeaderLen. cbn [N.of_nat]. clear. lia. }
  split; [exact Hout|]. split.
  - unfold rd. rewrite sub_at by (rewrite ?Hp, ?be_enc_blen; reflexivity).
    rewrite be_decw_enc. apply N.mod_small. change (256 ^ N.of_nat 4) with U32. unfold dubbo_HeaderLen in Hlen. clear - Hlen. lia.
  - rewrite Hout. rewrite app_assoc. apply sub_at_end.
    + rewrite blen_app, Hp, be_enc_blen. reflexivity.
    + reflexivity.
Qed.

(* ---- tars: the length prefix written in front of the library's bytes ---- *)
Theorem tars_length_prefix (pkt : Type) (jwrite : bool -> pkt -> bytes) resp p :
  tars_MessageSizeLen + blen (jwrite resp p) < U32 ->
  let out := tars_encode pkt jwrite resp p in
  rd out 0 4 = blen out /\ sub out tars_MessageSizeLen (blen out) = jwrite resp p.
Proof.
  intros H. cbv zeta. unfold tars_encode. cbv zeta. rewrite N.mod_small by exact H.
  set (body := jwrite resp p) in *.
  assert (Hout : blen (be_enc 4 (tars_MessageSizeLen + blen body) ++ body) = tars_MessageSizeLen + blen body)
    by (rewrite blen_app, be_enc_blen; reflexivity).
  split.
  - unfold rd. rewrite sub_at_0 by (rewrite be_enc_blen; reflexivity). rewrite be_decw_enc, Hout.
    apply N.mod_small. change (256 ^ N.of_nat 4) with U32. exact H.
  - rewrite Hout. apply sub_at_end; [rewrite be_enc_blen; reflexivity|reflexivity].
Qed.

(* ---- bolt / boltv2: the slow path (header or body changed, or a frame without raw bytes: built locally) ---- *)
Theorem bolt_slow_length_fields mem c out c' :
  (b_raw c = None \/ (b_hchanged c || b_cchanged c) = true) ->
  bolt_encode_sw true mem c = EncOk out c' ->
  let L := layout_of (b_v2 c) (b_resp c) in
  fits c = true /\
  fld out (l_class L) = blen (b_class c) /\ fld out (l_header L) = hdr_enc_len (b_kvs c) /\ fld out (l_content L) = blen (b_content c) /\
  blen out = l_hlen L + blen (b_class c) + hdr_enc_len (b_kvs c) + blen (b_content c) /\
  sub out (l_hlen L) (l_hlen L + blen (b_class c)) = b_class c /\
  sub out (l_hlen L + blen (b_class c)) (l_hlen L + blen (b_class c) + hdr_enc_len (b_kvs c)) = hdr_encode (b_kvs c) /\
  sub out (l_hlen L + blen (b_class c) + hdr_enc_len (b_kvs c)) (blen out) = b_content c.
Proof.
  intros Hs He. cbv zeta.
  assert (Key : forall c1, b_class c1 = b_class c -> b_kvs c1 = b_kvs c -> b_content c1 = b_content c -> b_v2 c1 = b_v2 c -> b_resp c1 = b_resp c ->
            bolt_slow true (layout_of (b_v2 c) (b_resp c)) c1 = EncOk out c' ->
            fits c = true /\
            fld out (l_class (layout_of (b_v2 c) (b_resp c))) = blen (b_class c) /\
            fld out (l_header (layout_of (b_v2 c) (b_resp c))) = hdr_enc_len (b_kvs c) /\
            fld out (l_content (layout_of (b_v2 c) (b_resp c))) = blen (b_content c) /\
            blen out = l_hlen (layout_of (b_v2 c) (b_resp c)) + blen (b_class c) + hdr_enc_len (b_kvs c) + blen (b_content c) /\
            sub out (l_hlen (layout_of (b_v2 c) (b_resp c))) (l_hlen (layout_of (b_v2 c) (b_resp c)) + blen (b_class c)) = b_class c /\
            sub out (l_hlen (layout_of (b_v2 c) (b_resp c)) + blen (b_class c)) (l_hlen (layout_of (b_v2 c) (b_resp c)) + blen (b_class c) + hdr_enc_len (b_kvs c)) = hdr_encode (b_kvs c) /\
            sub out (l_hlen (layout_of (b_v2 c) (b_resp c)) + blen (b_class c) + hdr_enc_len (b_kvs c)) (blen out) = b_content c).
  { intros c1 E1 E2 E3 E4 E5 Hb. rewrite <- E4, <- E5 in *. rewrite <- E1, <- E2, <- E3.
    assert (Ef : fits c = fits c1) by (unfold fits; rewrite E1, E2, E3; reflexivity). rewrite Ef.
    destruct (fits c1) eqn:Ef1; [|rewrite bolt_slow_refuses in Hb by exact Ef1; discriminate Hb].
    destruct (bolt_slow_out c1 Ef1) as [c2 [Eo _]].
    set (v2 := b_v2 c1) in *. set (resp := b_resp c1) in *. set (L := layout_of v2 resp) in *.
    set (cl := blen (b_class c1)) in *. set (hl := hdr_enc_len (b_kvs c1)) in *. set (ctl := blen (b_content c1)) in *.
    assert (Hout : enc_meta L c1 cl hl ctl ++ b_class c1 ++ hdr_encode (b_kvs c1) ++ b_content c1 = out) by (clear - Eo Hb; congruence).
    pose proof (meta_fields v2 resp c1 cl hl ctl (b_class c1 ++ hdr_encode (b_kvs c1) ++ b_content c1)) as MF. cbv zeta in MF. fold L in MF.
    rewrite Hout in MF. destruct MF as [M1 [M2 [M3 [_ [_ [_ [_ [_ [_ [_ [_ [_ Mlen]]]]]]]]]]]].
    assert (B : cl <= 65535 /\ hl <= 65535 /\ ctl <= 4294967295) by (unfold fits in Ef1; fold cl hl ctl in Ef1; clear - Ef1; lia).
    destruct B as [B1 [B2 B3]].
    rewrite N.mod_small in M1 by (clear - B1; lia). rewrite N.mod_small in M2 by (clear - B2; lia). rewrite N.mod_small in M3 by (clear - B3; lia).
    assert (Hhl : blen (hdr_encode (b_kvs c1)) = hl) by apply hdr_encode_length.
    assert (Hlen : blen out = l_hlen L + cl + hl + ctl).
    { rewrite <- Hout, !blen_app, Mlen, Hhl. fold cl ctl. clear. lia. }
    split; [reflexivity|]. split; [exact M1|]. split; [exact M2|]. split; [exact M3|]. split; [exact Hlen|].
    split.
    { rewrite <- Hout. apply sub_at; [symmetry; exact Mlen|reflexivity]. }
    split.
    { rewrite <- Hout. rewrite app_assoc. apply sub_at; [rewrite blen_app, Mlen; reflexivity|rewrite Hhl; reflexivity]. }
    rewrite Hlen. rewrite <- Hout. rewrite !app_assoc. apply sub_at_end.
    - rewrite !blen_app, Mlen, Hhl. reflexivity.
    - reflexivity. }
  unfold bolt_encode_sw in He. destruct (b_raw c) as [r|] eqn:Er.
  - destruct Hs as [Hs|Hs]; [discriminate|].
    replace (negb (b_hchanged c) && negb (b_cchanged c)) with false in He by (destruct (b_hchanged c), (b_cchanged c); cbn in *; congruence).
    cbv zeta in He. eapply Key; [| | | | |exact He]; reflexivity.
  - eapply Key; [| | | | |exact He]; reflexivity.
Qed.

(* ---- the shape that the source switch thrift_enc_fields_after_body excludes: the slice through which the message length
   is written is taken from the 1024-byte scratch buffer BEFORE the body is appended; when header + body exceed the
   scratch capacity the append moves the buffer and the write goes to the old array: the emitted frame keeps the
   placeholder MaxInt32 as its message length ---- *)
Definition thrift_scratch_cap : N := 1024.
Definition thrift_encode_slow_sw (late : bool) (whdr : bytes -> N -> bytes) (svc : bytes) (id : N) (payload : bytes) : bytes :=
  let lib := whdr svc id in
  let hlen := thrift_HeaderIdx + blen lib in
  let mlen := hlen + blen payload in
  if late || (mlen <=? thrift_scratch_cap) then thrift_encode_slow whdr svc id payload
  else be_enc 4 (mlen mod U32) ++ [thrift_Magic0; thrift_Magic1] ++ be_enc 4 2147483647 ++ be_enc 2 (hlen mod U16) ++ [1] ++ lib ++ payload.

Lemma thrift_late_is_slow whdr svc id payload : thrift_encode_slow_sw true whdr svc id payload = thrift_encode_slow whdr svc id payload.
Proof. reflexivity. Qed.

Lemma thrift_stale_slice_refuted :
  let out := thrift_encode_slow_sw false (fun _ _ => repeat 0 12%nat) [] 0 (repeat 7 1004%nat) in
  blen out = 1029 /\ rd out 0 4 = blen out - 4 /\ rd out 10 12 = 21 /\ rd out 6 10 = 2147483647 /\ rd out 6 10 <> blen out - 4.
Proof. vm_compute. repeat split; try reflexivity. discriminate. Qed.
Lemma thrift_stale_slice_small_ok :
  let out := thrift_encode_slow_sw false (fun _ _ => repeat 0 12%nat) [] 0 (repeat 7 1003%nat) in
  blen out = 1028 /\ rd out 6 10 = blen out - 4.
Proof. vm_compute. split; reflexivity. Qed.
