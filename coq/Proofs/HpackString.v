(* Proofs/HpackString.v (group h2): HPACK string literals, raw and Huffman (appendHpackString / readString). *)
From Coq Require Import List NArith Arith Lia Bool.
From Coq Require Import ZifyBool ZifyNat ZifyN.
From MV Require Import Lib.HBits Gen.HpackTables Model.Hpack Proofs.HpackInt Proofs.HpackHuffman.
Import ListNotations.
Open Scope N_scope.

(* a string a decoder with limit maxstr (0 = none) accepts under coding h *)
Definition str_ok (maxstr : N) (h : bool) (s : bytes) : Prop :=
  bytes_ok s /\ len s < 2 ^ 58 /\
  (maxstr = 0 \/ (len s <= maxstr /\ (h = true -> huff_enc_len s <= maxstr))).

Lemma huff_bitlen_bound : forall s, bytes_ok s -> huff_bitlen s <= 30 * len s.
Proof.
  induction s as [|c s IH]; intro Hok.
  - cbn. lia.
  - inversion Hok as [|? ? Hc Hs]; subst. rewrite huff_bitlen_cons, len_cons.
    pose proof (huff_codelen_range c Hc). specialize (IH Hs). lia.
Qed.

Lemma huff_enc_len_bound : forall s, bytes_ok s -> len s < 2 ^ 58 -> huff_enc_len s < 2 ^ 63.
Proof.
  intros s Hok Hl. unfold huff_enc_len. pose proof (huff_bitlen_bound s Hok) as Hb.
  apply N.div_lt_upper_bound; [discriminate|].
  change (2 ^ 58) with 288230376151711744 in Hl. change (2 ^ 63) with 9223372036854775808. lia.
Qed.

Lemma firstn_len_app : forall (a b : bytes), firstn (N.to_nat (len a)) (a ++ b) = a.
Proof.
  intros a b. unfold len. rewrite Nat2N.id. rewrite firstn_app, Nat.sub_diag, firstn_all. cbn [firstn]. apply app_nil_r.
Qed.

Lemma skipn_len_app : forall (a b : bytes), skipn (N.to_nat (len a)) (a ++ b) = b.
Proof.
  intros a b. unfold len. rewrite Nat2N.id. rewrite skipn_app, Nat.sub_diag, skipn_all. reflexivity.
Qed.

(* reading a length-prefixed payload: flag 128 = Huffman, 0 = raw *)
Lemma dec_string_payload : forall maxstr (hf : bool) L payload rest,
  L < 2 ^ 63 -> len payload = L -> (maxstr = 0 \/ L <= maxstr) ->
  dec_string maxstr true (or_first (if hf then 128 else 0) (enc_int 7 L) ++ payload ++ rest) =
  if hf then hbind (huff_decode maxstr payload) (fun s => HOk (s, rest)) else HOk (payload, rest).
Proof.
  intros maxstr hf L payload rest HL Hpl Hmax.
  destruct (enc_int_first 7 L) as [b [r [E Hb]]]. change (2 ^ 7) with 128 in Hb.
  pose proof (int_roundtrip 7 (if hf then 128 else 0) L (payload ++ rest)) as Hint.
  rewrite E in *. cbn [or_first app] in *.
  unfold dec_string.
  rewrite Hint; [| lia | destruct hf; reflexivity | exact HL].
  cbn [hbind fst snd].
  assert (Hm : (negb (maxstr =? 0) && (maxstr <? L)) = false) by lia. rewrite Hm.
  assert (Hge : (len (payload ++ rest) <? L) = false) by (rewrite len_app; lia). rewrite Hge.
  unfold slice_to, slice_from.
  assert (Hle : (L <=? len (payload ++ rest)) = true) by (rewrite len_app; lia). rewrite Hle.
  cbn [hbind]. rewrite <- Hpl. rewrite firstn_len_app, skipn_len_app.
  destruct hf.
  - assert (Hh : (128 <=? 128 + b) = true) by lia. rewrite Hh. reflexivity.
  - assert (Hh : (128 <=? 0 + b) = false) by lia. rewrite Hh. reflexivity.
Qed.

(* c18_string_roundtrip: either coding, any continuation, any decoder limit the string respects *)
Theorem string_roundtrip : forall maxstr h s rest, str_ok maxstr h s ->
  dec_string maxstr true (ser_string h s ++ rest) = HOk (s, rest).
Proof.
  intros maxstr h s rest [Hok [Hlen Hmax]]. unfold ser_string. destruct h.
  - rewrite <- app_assoc.
    rewrite (dec_string_payload maxstr true (huff_enc_len s) (huff_encode s) rest).
    + rewrite huff_roundtrip; [reflexivity | exact Hok |].
      destruct Hmax as [Hm0 | [Hm1 _]]; [left; exact Hm0 | right; exact Hm1].
    + apply huff_enc_len_bound; assumption.
    + apply huff_encode_len.
    + destruct Hmax as [Hm0 | [_ Hm2]]; [left; exact Hm0 | right; apply Hm2; reflexivity].
  - rewrite <- app_assoc.
    replace (enc_int 7 (len s)) with (or_first 0 (enc_int 7 (len s))).
    + rewrite (dec_string_payload maxstr false (len s) s rest); [reflexivity | | reflexivity |].
      * change (2 ^ 58) with 288230376151711744 in Hlen. change (2 ^ 63) with 9223372036854775808. lia.
      * destruct Hmax as [Hm0 | [Hm1 _]]; [left; exact Hm0 | right; exact Hm1].
    + destruct (enc_int_first 7 (len s)) as [b [r [E _]]]. rewrite E. reflexivity.
Qed.

(* MOSN's choice (Huffman only when strictly shorter) is one of the two codings *)
Corollary mosn_string_roundtrip : forall maxstr s rest, str_ok maxstr (mosn_huff s) s ->
  dec_string maxstr true (enc_string s ++ rest) = HOk (s, rest).
Proof. intros. unfold enc_string. apply string_roundtrip. assumption. Qed.

(* when the coding is MOSN's, the limit on the encoded length follows from the limit on the string *)
Lemma mosn_str_ok : forall maxstr s, bytes_ok s -> len s < 2 ^ 58 -> (maxstr = 0 \/ len s <= maxstr) ->
  str_ok maxstr (mosn_huff s) s.
Proof.
  intros maxstr s Hok Hl Hm. split; [exact Hok|]. split; [exact Hl|].
  destruct Hm as [Hm | Hm]; [left; exact Hm|]. right. split; [exact Hm|].
  unfold mosn_huff. intro H. lia.
Qed.

Lemma ser_string_ok : forall h s, bytes_ok s -> bytes_ok (ser_string h s).
Proof.
  intros h s Hok. unfold ser_string. destruct h.
  - apply bytes_ok_app. split; [| apply huff_encode_ok].
    destruct (enc_int_first 7 (huff_enc_len s)) as [b [r [E Hb]]].
    pose proof (enc_int_ok 7 (huff_enc_len s) ltac:(lia)) as Hi. rewrite E in *. cbn [or_first].
    inversion Hi; subst. constructor; [| assumption]. unfold byte_ok. change (2 ^ 7) with 128 in Hb. lia.
  - apply bytes_ok_app. split; [apply enc_int_ok; lia | exact Hok].
Qed.

(* ---------------------------------------------------------------- totality / resource facts of readString *)
Lemma dec_string_no_panic : forall maxstr want p, dec_string maxstr want p <> HPanic /\ dec_string maxstr want p <> HFuel.
Proof.
  intros maxstr want p. unfold dec_string. destruct p as [|b0 p']; [split; discriminate|].
  destruct (dec_int_no_panic 7 (b0 :: p') ltac:(lia)) as [Hp Hf].
  destruct (dec_int 7 (b0 :: p')) as [[slen p1]| | | |] eqn:E; cbn [hbind]; try (split; discriminate); try contradiction.
  cbn [fst snd].
  destruct (negb (maxstr =? 0) && (maxstr <? slen)); [split; discriminate|].
  destruct (len p1 <? slen) eqn:El; [split; discriminate|].
  unfold slice_to, slice_from. assert (Hle : (slen <=? len p1) = true) by lia. rewrite Hle. cbn [hbind].
  destruct (negb (128 <=? b0)); [split; discriminate|].
  destruct want; [|split; discriminate].
  unfold huff_decode.
  destruct (hdec_total maxstr (unpack_bytes (firstn (N.to_nat slen) p1)) huff_trie 0 true 0 []) as [[s Hs] | [e He]];
    [rewrite Hs | rewrite He]; cbn [hbind]; split; discriminate.
Qed.

(* the rest returned by readString is a proper suffix of the input *)
Lemma dec_string_suffix : forall maxstr want p s rest, dec_string maxstr want p = HOk (s, rest) ->
  exists used, p = used ++ rest /\ (0 < length used)%nat.
Proof.
  intros maxstr want p s rest H. unfold dec_string in H. destruct p as [|b0 p']; [discriminate|].
  destruct (dec_int 7 (b0 :: p')) as [[slen p1]| | | |] eqn:E; cbn [hbind] in H; try discriminate.
  cbn [fst snd] in H.
  destruct (negb (maxstr =? 0) && (maxstr <? slen)); [discriminate|].
  destruct (len p1 <? slen) eqn:El; [discriminate|].
  unfold slice_to, slice_from in H. assert (Hle : (slen <=? len p1) = true) by lia. rewrite Hle in H. cbn [hbind] in H.
  apply dec_int_suffix in E as [u [Hu Hl]].
  assert (Hrest : rest = skipn (N.to_nat slen) p1).
  { destruct (negb (128 <=? b0)); [inversion H; reflexivity|].
    destruct want; [| inversion H; reflexivity].
    destruct (huff_decode maxstr (firstn (N.to_nat slen) p1)); cbn [hbind] in H; try discriminate.
    inversion H; reflexivity. }
  exists (u ++ firstn (N.to_nat slen) p1). split.
  - rewrite Hu, Hrest, <- app_assoc, firstn_skipn. reflexivity.
  - rewrite app_length. lia.
Qed.

(* no allocation for an announced length whose bytes have not arrived: whenever readString requests
   memory, the request is bounded by the bytes present in the buffer *)
Lemma dec_string_alloc_bounded : forall maxstr want p, dec_string_alloc maxstr want p <= 2 * len p.
Proof.
  intros maxstr want p. unfold dec_string_alloc. destruct p as [|b0 p']; [lia|].
  destruct (dec_int 7 (b0 :: p')) as [[slen p1]| | | |] eqn:E; try lia.
  destruct (negb (maxstr =? 0) && (maxstr <? slen)); [lia|].
  destruct (len p1 <? slen) eqn:El; [lia|].
  apply dec_int_suffix in E as [u [Hu Hl]].
  assert (Hp1 : len p1 <= len (b0 :: p')).
  { rewrite Hu, len_app. lia. }
  destruct want; [|lia].
  destruct (128 <=? b0); [|lia].
  assert (8 * slen / 5 <= 2 * slen).
  { apply N.div_le_upper_bound; [discriminate | lia]. }
  lia.
Qed.

(* an announced length beyond the buffered bytes yields NeedMore (or the length error) and no allocation *)
Lemma dec_string_short_no_alloc : forall maxstr want p slen p1,
  dec_int 7 p = HOk (slen, p1) -> len p1 < slen -> dec_string_alloc maxstr want p = 0.
Proof.
  intros maxstr want p slen p1 E Hs. unfold dec_string_alloc. destruct p as [|b0 p']; [reflexivity|].
  rewrite E. destruct (negb (maxstr =? 0) && (maxstr <? slen)); [reflexivity|].
  assert (Hl : (len p1 <? slen) = true) by lia. rewrite Hl. reflexivity.
Qed.
