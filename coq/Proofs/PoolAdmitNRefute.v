(* Requests().CanCreate() ... Requests().Increase() as two separate steps: the overshoot is UNBOUNDED - for every number n
   of concurrent callers there is a schedule on which all n are admitted against a limit of 1. *)
From Coq Require Import List ZArith Bool Arith Lia.
From MV Require Import Lib.Interleave Model.Pool Model.PoolAdmit Model.PoolAdmitN.
Import ListNotations.
Open Scope Z_scope.

Lemma nth_error_at : forall (l1 : list (list ainstr)) t l2, nth_error (l1 ++ t :: l2) (length l1) = Some t.
Proof. induction l1 as [|x l1 IH]; intros t l2; [reflexivity|exact (IH t l2)]. Qed.

Lemma upd_nth_at : forall (l1 : list (list ainstr)) t u l2, upd_nth (length l1) u (l1 ++ t :: l2) = l1 ++ u :: l2.
Proof. induction l1 as [|x l1 IH]; intros t u l2; [reflexivity|]. cbn [app length upd_nth]. f_equal. apply IH. Qed.

Lemma sched_step_at : forall (st : list ainstr -> ashared -> list ainstr * ashared) l1 t l2 s,
  sched_step st (l1 ++ t :: l2, s) (length l1) = (l1 ++ fst (st t s) :: l2, snd (st t s)).
Proof.
  intros st l1 t l2 s. unfold sched_step. cbn [fst snd]. rewrite nth_error_at. rewrite upd_nth_at. reflexivity.
Qed.

Lemma run_cons : forall (st : list ainstr -> ashared -> list ainstr * ashared) k sched c,
  Interleave.run st (k :: sched) c = Interleave.run st sched (sched_step st c k).
Proof. reflexivity. Qed.

Lemma snoc_assoc : forall (A : Type) (l1 : list A) x l2, l1 ++ x :: l2 = (l1 ++ [x]) ++ l2.
Proof. intros. rewrite <- app_assoc. reflexivity. Qed.

Lemma all_test : forall s m l1, ad_cur s = 0 ->
  Interleave.run (adstepN 1) (seq (length l1) m) (l1 ++ repeat req_prog m, s) = (l1 ++ repeat [AIncReq] m, s).
Proof.
  intros s m. induction m as [|m IH]; intros l1 Hc; [reflexivity|].
  cbn [seq repeat]. rewrite run_cons, sched_step_at.
  assert (Hst : adstepN 1 req_prog s = ([AIncReq], s)) by (unfold req_prog; cbn [adstepN]; rewrite Hc; reflexivity).
  rewrite Hst. cbn [fst snd].
  rewrite (snoc_assoc _ l1 [AIncReq]), (snoc_assoc _ l1 [AIncReq] (repeat [AIncReq] m)).
  replace (S (length l1)) with (length (l1 ++ [[AIncReq]])) by (rewrite app_length; cbn; lia).
  apply IH. assumption.
Qed.

Lemma all_count : forall m l1 s,
  Interleave.run (adstepN 1) (seq (length l1) m) (l1 ++ repeat [AIncReq] m, s) =
    (l1 ++ repeat [] m, mkASh (ad_mu s) (ad_cur s + Z.of_nat m) (ad_entered s + Z.of_nat m) (ad_total s) (ad_conns s)).
Proof.
  induction m as [|m IH]; intros l1 s.
  - cbn [seq repeat Z.of_nat]. rewrite !Z.add_0_r. destruct s; reflexivity.
  - cbn [seq repeat]. rewrite run_cons, sched_step_at. cbn [adstepN fst snd].
    rewrite (snoc_assoc _ l1 []), (snoc_assoc _ l1 [] (repeat [] m)).
    replace (S (length l1)) with (length (l1 ++ [[]])) by (rewrite app_length; cbn; lia).
    rewrite IH. cbn [ad_mu ad_cur ad_entered ad_total ad_conns]. f_equal. f_equal; lia.
Qed.

Theorem req_overshoot_unbounded : forall n,
  ad_entered (snd (adrunN 1 (all_test_then_all_count n) (req_cfgN n))) = Z.of_nat n.
Proof.
  intros n. unfold adrunN, all_test_then_all_count, req_cfgN. rewrite run_app.
  pose proof (all_test ad0 n [] eq_refl) as H1. cbn [length app] in H1. rewrite H1.
  pose proof (all_count n [] ad0) as H2. cbn [length app] in H2. rewrite H2. reflexivity.
Qed.

(* n = 3 is the configuration of Model/PoolAdmit.v *)
Corollary req_overshoot_unbounded_instance : ad_entered (snd (adrun (all_test_then_all_count 3) req_cfg)) = 3.
Proof. vm_compute. reflexivity. Qed.

Corollary req_threshold_refuted_any : forall n, (2 <= n)%nat ->
  exists sched, ad_max < ad_entered (snd (adrunN ad_max sched (req_cfgN n))).
Proof.
  intros n Hn. exists (all_test_then_all_count n). unfold ad_max. rewrite req_overshoot_unbounded. lia.
Qed.
