(* Proofs about Model/HealthCheck.v: threshold exactness for every result sequence. *)
From Coq Require Import List NArith Bool Lia Arith.
From MV Require Import Model.HealthCheck.
Import ListNotations.
Close Scope N_scope.

(* number of trailing results satisfying P *)
Fixpoint lead (P : result -> bool) (l : list result) : nat :=
  match l with
  | [] => 0
  | x :: l' => if P x then S (lead P l') else 0
  end.
Definition trailing (P : result -> bool) (l : list result) : nat := lead P (rev l).

(* "the last n results all satisfy P" *)
Definition last_n_all (P : result -> bool) (n : nat) (l : list result) : Prop :=
  exists pre suf, l = pre ++ suf /\ length suf = n /\ forallb P suf = true.

Lemma trailing_snoc : forall P l x, trailing P (l ++ [x]) = if P x then S (trailing P l) else 0.
Proof. intros; unfold trailing; rewrite rev_unit; reflexivity. Qed.

Lemma lead_app_all : forall P a b, forallb P a = true -> lead P (a ++ b) = (length a + lead P b)%nat.
Proof.
  induction a as [|x a IH]; cbn; intros b H; auto.
  apply andb_prop in H; destruct H as [Hx Ha]. rewrite Hx, IH; auto.
Qed.

Lemma lead_firstn : forall P l n, (n <= lead P l)%nat -> forallb P (firstn n l) = true /\ length (firstn n l) = n.
Proof.
  induction l as [|x l IH]; intros n Hn; cbn in *.
  - assert (n = 0)%nat by lia; subst; cbn; auto.
  - destruct n; cbn; auto. destruct (P x) eqn:Px; [|lia].
    destruct (IH n) as [H1 H2]; [lia|]. rewrite H1, H2; auto.
Qed.

Lemma forallb_rev : forall (P : result -> bool) l, forallb P (rev l) = forallb P l.
Proof.
  induction l as [|x l IH]; cbn; auto. rewrite forallb_app, IH; cbn. rewrite andb_true_r, andb_comm; auto.
Qed.

Lemma last_n_all_iff : forall P n l, last_n_all P n l <-> (n <= trailing P l)%nat.
Proof.
  intros P n l; unfold last_n_all, trailing; split.
  - intros (pre & suf & -> & Hlen & Hall). rewrite rev_app_distr, lead_app_all.
    + rewrite rev_length; lia.
    + rewrite forallb_rev; auto.
  - intros H. destruct (lead_firstn P (rev l) n H) as [Hall Hlen].
    exists (rev (skipn n (rev l))), (rev (firstn n (rev l))). repeat split.
    + rewrite <- rev_app_distr, firstn_skipn, rev_involutive; auto.
    + rewrite rev_length; auto.
    + rewrite forallb_rev; auto.
Qed.

Open Scope N_scope.

Definition thr_ok (t : N) : Prop := 1 <= t < 4294967296.

(* invariant tying the counters to the result history *)
Definition hc_inv (u h : N) (rs : list result) (s : hcst) : Prop :=
  if hflag s then hcc s = N.of_nat (trailing is_succ rs) /\ hcc s < h
  else unc s = N.of_nat (trailing is_fail rs) /\ unc s < u.

Lemma hc_run_snoc : forall u h rs s r,
  fst (hc_run u h s (rs ++ [r])) = fst (hc_step u h (fst (hc_run u h s rs)) r).
Proof.
  induction rs as [|x rs IH]; intros s r; cbn.
  - destruct (hc_step u h s r); auto.
  - destruct (hc_step u h s x) as [s1 o] eqn:E1. specialize (IH s1 r).
    destruct (hc_run u h s1 (rs ++ [r])); destruct (hc_run u h s1 rs); cbn in *; auto.
Qed.

Lemma hc_state_snoc : forall u h f rs r,
  hc_state u h f (rs ++ [r]) = fst (hc_step u h (hc_state u h f rs) r).
Proof. intros; unfold hc_state; apply hc_run_snoc. Qed.

Lemma u32_small : forall n, n < 4294967296 -> u32 n = n.
Proof. intros; unfold u32; apply N.mod_small; auto. Qed.

Lemma is_fail_succ : forall r, is_fail r = negb (is_succ r).
Proof. reflexivity. Qed.

Lemma hc_inv_step : forall u h, thr_ok u -> thr_ok h -> forall rs s r,
  hc_inv u h rs s -> hc_inv u h (rs ++ [r]) (fst (hc_step u h s r)).
Proof.
  intros u h Hu Hh rs s r Hinv. unfold thr_ok in *. unfold hc_inv in *. unfold hc_step.
  rewrite !trailing_snoc, is_fail_succ.
  destruct (is_succ r) eqn:Er; destruct (hflag s) eqn:Ef; cbn [negb fst hflag unc hcc].
  - destruct Hinv as [Hc Hlt]. rewrite u32_small by lia.
    destruct (N.eqb_spec (hcc s + 1) h); cbn [fst hflag unc hcc]; lia.
  - cbn. lia.
  - cbn. lia.
  - destruct Hinv as [Hc Hlt]. rewrite u32_small by lia.
    destruct (N.eqb_spec (unc s + 1) u); cbn [fst hflag unc hcc]; lia.
Qed.

Lemma hc_inv_all : forall u h, thr_ok u -> thr_ok h -> forall f rs, hc_inv u h rs (hc_state u h f rs).
Proof.
  intros u h Hu Hh f rs. induction rs as [|r rs IH] using rev_ind.
  - unfold hc_inv, hc_state, thr_ok in *; cbn. destruct f; cbn; lia.
  - rewrite hc_state_snoc. apply hc_inv_step; auto.
Qed.

(* The theorem: one more result r after ANY history rs.
   s = state before, s' = state after, (changed, isHealthy) = callback arguments. *)
Theorem threshold_exact : forall u h, thr_ok u -> thr_ok h -> forall f rs r,
  let s := hc_state u h f rs in
  let s' := fst (hc_step u h s r) in
  let cb := snd (hc_step u h s r) in
  (* healthy -> unhealthy exactly at the u-th consecutive failure (timeouts are failures) *)
  (hflag s = false -> (hflag s' = true <-> last_n_all is_fail (N.to_nat u) (rs ++ [r]))) /\
  (* unhealthy -> healthy exactly at the h-th consecutive success *)
  (hflag s = true -> (hflag s' = false <-> last_n_all is_succ (N.to_nat h) (rs ++ [r]))) /\
  (* `changed` exactly on those transitions *)
  (fst cb = true <-> hflag s' <> hflag s) /\
  (* isHealthy argument = this check's result *)
  snd cb = is_succ r.
Proof.
  intros u h Hu Hh f rs r s s' cb.
  pose proof (hc_inv_all u h Hu Hh f rs) as Hinv. fold s in Hinv.
  unfold thr_ok in *. subst s' cb. unfold hc_inv in Hinv. unfold hc_step.
  rewrite !last_n_all_iff, !trailing_snoc, is_fail_succ.
  destruct (is_succ r) eqn:Er; destruct (hflag s) eqn:Ef; cbn [negb].
  - destruct Hinv as [Hc Hlt]. rewrite u32_small by lia.
    destruct (N.eqb_spec (hcc s + 1) h); cbn [fst snd hflag]; repeat split; try congruence; try lia;
      intros; try discriminate; try lia.
  - cbn [fst snd hflag]. repeat split; try congruence; try lia; intros; try discriminate; try (exfalso; auto; fail).
  - cbn [fst snd hflag]. repeat split; try congruence; try lia; intros; try discriminate; try (exfalso; auto; fail).
  - destruct Hinv as [Hc Hlt]. rewrite u32_small by lia.
    destruct (N.eqb_spec (unc s + 1) u); cbn [fst snd hflag]; repeat split; try congruence; try lia;
      intros; try discriminate; try lia.
Qed.

(* no transition anywhere else: a success never makes a host unhealthy, a failure never makes it healthy *)
Theorem transition_direction : forall u h s r,
  (is_succ r = true -> hflag s = false -> hflag (fst (hc_step u h s r)) = false) /\
  (is_succ r = false -> hflag s = true -> hflag (fst (hc_step u h s r)) = true).
Proof.
  intros; unfold hc_step; split; intros -> ->; cbn; auto.
Qed.
