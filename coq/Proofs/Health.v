(* Proofs about Model/Health.v: no lost update for every schedule when Set/Clear are atomic
   read-modify-write programs (CAS loop or atomic Or/And); refutation for the load/store program. *)
From Coq Require Import List NArith Bool Lia Arith PeanoNat.
From MV Require Import Lib.Interleave Model.Health.
Import ListNotations.
Open Scope N_scope.

(* ---------- operations on disjoint masks commute ---------- *)
Lemma land0_bits : forall a b, N.land a b = 0 -> forall n, N.testbit a n && N.testbit b n = false.
Proof. intros a b H n. rewrite <- N.land_spec, H. apply N.bits_0. Qed.

Lemma apply_op_comm : forall a b w, N.land (hmask a) (hmask b) = 0 ->
  apply_op a (apply_op b w) = apply_op b (apply_op a w).
Proof.
  intros a b w H. apply N.bits_inj; intro n. pose proof (land0_bits _ _ H n) as Hn.
  destruct a as [ma|ma], b as [mb|mb]; cbn [apply_op hmask] in *;
    rewrite ?N.lor_spec, ?N.ldiff_spec, ?N.lor_spec, ?N.ldiff_spec;
    destruct (N.testbit w n), (N.testbit ma n), (N.testbit mb n); cbn in *; congruence.
Qed.

Lemma apply_all_app : forall l1 l2 w, apply_all (l1 ++ l2) w = apply_all l2 (apply_all l1 w).
Proof. intros; unfold apply_all; apply fold_left_app. Qed.

Lemma apply_all_comm_op : forall o A w,
  (forall a, In a A -> N.land (hmask o) (hmask a) = 0) ->
  apply_all A (apply_op o w) = apply_op o (apply_all A w).
Proof.
  intros o A; induction A as [|a A IH]; intros w H; cbn; auto.
  change (apply_all A (apply_op a (apply_op o w)) = apply_op o (apply_all A (apply_op a w))).
  rewrite apply_op_comm by (rewrite N.land_comm; apply H; left; auto).
  apply IH; intros; apply H; right; auto.
Qed.

(* ---------- cross_disjoint at a split ---------- *)
Lemma fop_split {A} (R : A -> A -> Prop) : forall l1 x l2,
  ForallOrdPairs R (l1 ++ x :: l2) -> Forall (fun y => R y x) l1.
Proof.
  induction l1 as [|y l1 IH]; intros x l2 H; cbn in *; constructor.
  - inversion H as [|? ? Hy Hrest]; subst. rewrite Forall_forall in Hy. apply Hy.
    apply in_or_app; right; left; auto.
  - inversion H; subst; eauto.
Qed.

(* ---------- the invariant quantity: the word after applying everything still to do ---------- *)
Definition remaining (ts : list tstate) : list hop := concat (map todo ts).
Definition future (c : list tstate * N) : N := apply_all (remaining (fst c)) (snd c).
Definition within (progs : list (list hop)) (ts : list tstate) : Prop :=
  Forall2 (fun t p => incl (todo t) p) ts progs.

Lemma remaining_app : forall l1 l2, remaining (l1 ++ l2) = remaining l1 ++ remaining l2.
Proof. intros; unfold remaining; rewrite map_app, concat_app; auto. Qed.

Lemma remaining_cons : forall t l, remaining (t :: l) = todo t ++ remaining l.
Proof. reflexivity. Qed.

Lemma remaining_in_concat : forall ts progs, within progs ts -> incl (remaining ts) (concat progs).
Proof.
  unfold within, remaining. induction 1 as [|t p ts progs Htp _ IH]; cbn; intros a Ha; auto.
  apply in_app_or in Ha. apply in_or_app. destruct Ha; [left|right]; auto.
Qed.

Lemma all_done_remaining : forall ts, all_done ts = true -> remaining ts = [].
Proof.
  unfold all_done, remaining, tdone. induction ts as [|t ts IH]; cbn; auto.
  intros H; apply andb_prop in H; destruct H as [H1 H2]. destruct (todo t); try discriminate. cbn; auto.
Qed.

Lemma init_within : forall progs, within progs (init_threads progs).
Proof. unfold within, init_threads. induction progs; cbn; constructor; auto. apply incl_refl. Qed.

Lemma init_remaining : forall progs, remaining (init_threads progs) = concat progs.
Proof. unfold remaining, init_threads. intros. rewrite map_map. cbn. rewrite map_id. auto. Qed.

(* one scheduled micro-step keeps `within` and `future`, for atomic shapes *)
Lemma step_preserves : forall ss sc progs, atomic_shape ss = true -> atomic_shape sc = true ->
  cross_disjoint progs -> forall c k,
  within progs (fst c) -> 
  within progs (fst (sched_step (tstep ss sc) c k)) /\ future (sched_step (tstep ss sc) c k) = future c.
Proof.
  intros ss sc progs Hss Hsc Hdis [ts w] k Hw. unfold sched_step; cbn [fst snd] in *.
  destruct (nth_error ts k) as [t|] eqn:Hk; [|split; auto].
  destruct (nth_error_split_upd _ _ _ Hk) as (l1 & l2 & Ets & Hlen & Hupd).
  rewrite Hupd. subst ts. unfold within in Hw.
  apply Forall2_app_inv_l in Hw. destruct Hw as (P1 & Prest & HW1 & HW2 & Eprogs).
  inversion HW2 as [|? p ? P2 Htp HW3]; subst.
  (* general facts *)
  assert (Hcomm : forall o, In o (todo t) -> forall a, In a (remaining l1) -> N.land (hmask o) (hmask a) = 0).
  { intros o Ho a Ha. apply (remaining_in_concat _ _ HW1) in Ha.
    apply in_concat in Ha. destruct Ha as (q & Hq & Haq).
    pose proof (fop_split _ _ _ _ Hdis) as HF. rewrite Forall_forall in HF.
    rewrite N.land_comm. apply (HF q Hq a o Haq). apply Htp; auto. }
  assert (Hsame : forall t' w', todo t' = todo t -> w' = w ->
     within (P1 ++ p :: P2) (l1 ++ t' :: l2) /\ future (l1 ++ t' :: l2, w') = future (l1 ++ t :: l2, w)).
  { intros t' w' Et ->. split.
    - apply Forall2_app; auto. constructor; auto. rewrite Et; auto.
    - unfold future; cbn [fst snd]. rewrite !remaining_app, !remaining_cons, Et. auto. }
  assert (Hcommit : forall o rest t', todo t = o :: rest -> todo t' = rest ->
     within (P1 ++ p :: P2) (l1 ++ t' :: l2) /\ future (l1 ++ t' :: l2, apply_op o w) = future (l1 ++ t :: l2, w)).
  { intros o rest t' Et Et'. split.
    - apply Forall2_app; auto. constructor; auto. rewrite Et'. intros a Ha. apply Htp. rewrite Et. right; auto.
    - unfold future; cbn [fst snd]. rewrite !remaining_app, !apply_all_app.
      rewrite !remaining_cons, Et, Et'. rewrite !apply_all_app. f_equal. cbn [app].
      change (apply_all (o :: rest) (apply_all (remaining l1) w)) with (apply_all rest (apply_op o (apply_all (remaining l1) w))).
      f_equal. rewrite apply_all_comm_op; auto.
      intros a Ha. apply Hcomm; auto. rewrite Et; left; auto. }
  unfold tstep. destruct (todo t) as [|o rest] eqn:Et.
  - cbn [fst snd]. apply Hsame; auto.
  - destruct o as [m|m]; cbn [shape_of].
    + destruct ss; try discriminate; destruct (ph t); cbn [fst snd];
        try (apply Hsame; cbn; auto; fail); try (eapply Hcommit; eauto; cbn; auto; fail).
      destruct (N.eqb_spec w (reg t)) as [E|E]; cbn [fst snd].
      * rewrite <- E. eapply Hcommit; eauto.
      * apply Hsame; cbn; auto.
    + destruct sc; try discriminate; destruct (ph t); cbn [fst snd];
        try (apply Hsame; cbn; auto; fail); try (eapply Hcommit; eauto; cbn; auto; fail).
      destruct (N.eqb_spec w (reg t)) as [E|E]; cbn [fst snd].
      * rewrite <- E. eapply Hcommit; eauto.
      * apply Hsame; cbn; auto.
Qed.

Theorem no_lost_update : forall ss sc, atomic_shape ss = true -> atomic_shape sc = true ->
  no_lost_update_statement ss sc.
Proof.
  intros ss sc Hss Hsc progs Hdis sched w0 Hdone. unfold hrun in *.
  set (c0 := (init_threads progs, w0)) in *.
  assert (H : within progs (fst (run (tstep ss sc) sched c0)) /\ future (run (tstep ss sc) sched c0) = future c0).
  { apply (run_invariant (tstep ss sc) (fun c => within progs (fst c) /\ future c = future c0)).
    - intros c k [Hw Hf]. destruct (step_preserves ss sc progs Hss Hsc Hdis c k Hw) as [Hw' Hf'].
      split; auto. congruence.
    - split; auto. apply init_within. }
  destruct H as [_ Hf].
  assert (H0 : future c0 = apply_all (concat progs) w0).
  { unfold future, c0; cbn [fst snd]. rewrite init_remaining. auto. }
  rewrite H0 in Hf. unfold future in Hf. rewrite (all_done_remaining _ Hdone) in Hf. exact Hf.
Qed.

(* ---------- the load/store program loses updates: schedule L0 L1 S0 S1 ---------- *)
Lemma two_disjoint : forall a b, N.land (hmask a) (hmask b) = 0 -> cross_disjoint [[a]; [b]].
Proof.
  intros a b H. repeat constructor. intros x y [<-|[]] [<-|[]]. auto.
Qed.

Theorem loadstore_set_refuted : forall sc, ~ no_lost_update_statement ShLoadStore sc.
Proof.
  intros sc H.
  specialize (H [[HSet 1]; [HSet 2]] (two_disjoint (HSet 1) (HSet 2) eq_refl) [0%nat; 1%nat; 0%nat; 1%nat] 0 eq_refl).
  vm_compute in H. discriminate.
Qed.

Theorem loadstore_clear_refuted : forall ss, ~ no_lost_update_statement ss ShLoadStore.
Proof.
  intros ss H.
  specialize (H [[HClear 1]; [HClear 2]] (two_disjoint (HClear 1) (HClear 2) eq_refl) [0%nat; 1%nat; 0%nat; 1%nat] 3 eq_refl).
  vm_compute in H. discriminate.
Qed.

Theorem loadstore_mixed_refuted : ~ no_lost_update_statement ShLoadStore ShLoadStore.
Proof. apply loadstore_set_refuted. Qed.

(* ---------- Health() is true exactly when no condition is set ---------- *)
Theorem health_iff_no_flag : forall w, health w = true <-> (forall n, N.testbit w n = false).
Proof.
  intros w; unfold health. rewrite N.eqb_eq. split.
  - intros -> n. apply N.bits_0.
  - intros H. apply N.bits_inj_0. auto.
Qed.

Theorem health_iff_no_contained : forall w, health w = true <-> (forall m, contain_flag w m = false).
Proof.
  intros w. unfold health, contain_flag. rewrite N.eqb_eq. split.
  - intros -> m. rewrite N.land_0_l. auto.
  - intros H. specialize (H w). rewrite N.land_diag in H. apply negb_false_iff in H. apply N.eqb_eq; auto.
Qed.

(* per-condition reading of the final word: a bit no operation mentions keeps its initial value *)
Lemma apply_all_untouched : forall ops w n, (forall o, In o ops -> N.testbit (hmask o) n = false) ->
  N.testbit (apply_all ops w) n = N.testbit w n.
Proof.
  induction ops as [|o ops IH]; intros w n H; cbn; auto.
  change (N.testbit (apply_all ops (apply_op o w)) n = N.testbit w n).
  rewrite IH by (intros; apply H; right; auto).
  pose proof (H o (or_introl eq_refl)) as Ho.
  destruct o; cbn [apply_op hmask] in *; rewrite ?N.lor_spec, ?N.ldiff_spec, Ho;
    destruct (N.testbit w n); auto.
Qed.

(* the word stays a 64-bit word (so N.lor / N.ldiff are Go's | and &^ on uint64) *)
Lemma apply_op_bound : forall o w, w < 2 ^ 64 -> hmask o < 2 ^ 64 -> apply_op o w < 2 ^ 64.
Proof.
  intros o w Hw Hm.
  assert (Hb : forall x, x < 2 ^ 64 <-> (forall n, 64 <= n -> N.testbit x n = false)).
  { intros x; split.
    - intros Hx n Hn. destruct (N.eq_dec x 0) as [->|Hx0]; [apply N.bits_0|].
      apply N.bits_above_log2. apply N.log2_lt_pow2 in Hx; lia.
    - intros Hx. destruct (N.eq_dec x 0) as [->|Hx0]; [reflexivity|].
      apply N.log2_lt_pow2; [lia|]. destruct (N.lt_ge_cases (N.log2 x) 64) as [|Hge]; auto.
      specialize (Hx _ Hge). rewrite N.bit_log2 in Hx by auto. discriminate. }
  rewrite Hb in *. intros n Hn. specialize (Hw n Hn). specialize (Hm n Hn).
  destruct o; cbn [apply_op hmask] in *; rewrite ?N.lor_spec, ?N.ldiff_spec, Hw, ?Hm; auto.
Qed.

Theorem no_invented_condition : forall ss sc, atomic_shape ss = true -> atomic_shape sc = true ->
  forall progs, cross_disjoint progs -> forall sched w0 n,
  all_done (fst (hrun ss sc sched progs w0)) = true ->
  (forall o, In o (concat progs) -> N.testbit (hmask o) n = false) ->
  N.testbit (snd (hrun ss sc sched progs w0)) n = N.testbit w0 n.
Proof.
  intros ss sc Hss Hsc progs Hdis sched w0 n Hdone Hn.
  rewrite (no_lost_update ss sc Hss Hsc progs Hdis sched w0 Hdone).
  apply apply_all_untouched; auto.
Qed.

(* ---------- every thread set can finish (the theorems above are not vacuous for any program list) ---------- *)
Lemma upd_nth_twice {A} : forall k (x y : A) l, upd_nth k y (upd_nth k x l) = upd_nth k y l.
Proof. induction k; destruct l; cbn; auto. f_equal; auto. Qed.

Lemma sched_step_at : forall ss sc ts w k t, nth_error ts k = Some t ->
  sched_step (tstep ss sc) (ts, w) k = (upd_nth k (fst (tstep ss sc t w)) ts, snd (tstep ss sc t w)).
Proof. intros. unfold sched_step; cbn [fst snd]. rewrite H. auto. Qed.

Lemma nth_error_lt {A} : forall (l : list A) k x, nth_error l k = Some x -> (k < length l)%nat.
Proof. intros. apply nth_error_Some. congruence. Qed.

Lemma tstep_rmw : forall ss sc t w o rest, todo t = o :: rest -> shape_of ss sc o = ShRmw ->
  tstep ss sc t w = (mkT rest PStart 0, apply_op o w).
Proof. intros. unfold tstep. rewrite H, H0. auto. Qed.
Lemma tstep_load : forall ss sc t w o rest, todo t = o :: rest -> ph t = PStart -> shape_of ss sc o <> ShRmw ->
  tstep ss sc t w = (mkT (o :: rest) PLoaded w, w).
Proof. intros. unfold tstep. rewrite H, H0. destruct (shape_of ss sc o); auto; congruence. Qed.
Lemma tstep_store : forall ss sc t w o rest, todo t = o :: rest -> ph t = PLoaded -> shape_of ss sc o = ShLoadStore ->
  tstep ss sc t w = (mkT rest PStart 0, apply_op o (reg t)).
Proof. intros. unfold tstep. rewrite H, H0, H1. auto. Qed.
Lemma tstep_cas_ok : forall ss sc t w o rest, todo t = o :: rest -> ph t = PLoaded -> shape_of ss sc o = ShCasLoop ->
  reg t = w -> tstep ss sc t w = (mkT rest PStart 0, apply_op o (reg t)).
Proof. intros. unfold tstep. rewrite H, H0, H1, H2, N.eqb_refl. auto. Qed.

(* a thread parked before an operation finishes all its operations when it runs alone *)
Lemma solo : forall ss sc ops ts w k t, nth_error ts k = Some t -> todo t = ops -> ph t = PStart ->
  exists n t' w', todo t' = [] /\ run (tstep ss sc) (repeat k n) (ts, w) = (upd_nth k t' ts, w').
Proof.
  intros ss sc ops. induction ops as [|o rest IH]; intros ts w k t Hk Ht Hp.
  - exists 0%nat, t, w. split; auto. cbn.
    destruct (nth_error_split_upd k ts t Hk) as (l1 & l2 & E & _ & Hu). rewrite Hu. congruence.
  - pose proof (nth_error_lt _ _ _ Hk) as Hlt.
    (* after one or two steps of thread k it is parked before `rest` *)
    assert (Hstep : exists m w1, run (tstep ss sc) (repeat k m) (ts, w) = (upd_nth k (mkT rest PStart 0) ts, w1)).
    { set (t1 := mkT (o :: rest) PLoaded w).
      assert (Hk1 : nth_error (upd_nth k t1 ts) k = Some t1) by (apply nth_error_upd_nth_eq; auto).
      destruct (shape_of ss sc o) eqn:Esh.
      - exists 2%nat, (apply_op o w). cbn [repeat]. unfold run. cbn [fold_left].
        rewrite (sched_step_at ss sc ts w k t Hk), (tstep_load ss sc t w o rest Ht Hp) by congruence. cbn [fst snd].
        fold t1. rewrite (sched_step_at ss sc _ w k t1 Hk1), (tstep_store ss sc t1 w o rest eq_refl eq_refl Esh).
        cbn [fst snd reg t1]. rewrite upd_nth_twice. auto.
      - exists 2%nat, (apply_op o w). cbn [repeat]. unfold run. cbn [fold_left].
        rewrite (sched_step_at ss sc ts w k t Hk), (tstep_load ss sc t w o rest Ht Hp) by congruence. cbn [fst snd].
        fold t1. rewrite (sched_step_at ss sc _ w k t1 Hk1), (tstep_cas_ok ss sc t1 w o rest eq_refl eq_refl Esh eq_refl).
        cbn [fst snd reg t1]. rewrite upd_nth_twice. auto.
      - exists 1%nat, (apply_op o w). cbn [repeat]. unfold run. cbn [fold_left].
        rewrite (sched_step_at ss sc ts w k t Hk), (tstep_rmw ss sc t w o rest Ht Esh). cbn [fst snd]. auto. }
    destruct Hstep as (m & w1 & Hm).
    destruct (IH (upd_nth k (mkT rest PStart 0) ts) w1 k (mkT rest PStart 0)
                (nth_error_upd_nth_eq k _ ts Hlt) eq_refl eq_refl) as (n & t' & w' & Hd & Hr).
    exists (m + n)%nat, t', w'. split; auto.
    rewrite repeat_app, run_app, Hm, Hr, upd_nth_twice. auto.
Qed.

Lemma seq_schedule : forall ss sc k ts w, (k <= length ts)%nat ->
  (forall i t, nth_error ts i = Some t -> ph t = PStart) ->
  exists sched ts' w', run (tstep ss sc) sched (ts, w) = (ts', w') /\ length ts' = length ts /\
    (forall i t, (i < k)%nat -> nth_error ts' i = Some t -> todo t = []) /\
    (forall i, (k <= i)%nat -> nth_error ts' i = nth_error ts i).
Proof.
  intros ss sc k. induction k as [|k IH]; intros ts w Hk Hps.
  - exists [], ts, w. cbn. repeat split; auto. intros; lia.
  - destruct (IH ts w ltac:(lia) Hps) as (s1 & ts1 & w1 & Hr1 & Hl1 & Hdone1 & Hrest1).
    destruct (nth_error ts k) as [t|] eqn:Ek; [|apply nth_error_None in Ek; lia].
    assert (Ek1 : nth_error ts1 k = Some t) by (rewrite Hrest1; auto).
    destruct (solo ss sc (todo t) ts1 w1 k t Ek1 eq_refl (Hps k t Ek)) as (n & t' & w' & Hd & Hr).
    exists (s1 ++ repeat k n), (upd_nth k t' ts1), w'. repeat split.
    + rewrite run_app, Hr1, Hr. auto.
    + rewrite upd_nth_length; auto.
    + intros i x Hi Hx. destruct (Nat.eq_dec i k) as [->|Hne].
      * rewrite nth_error_upd_nth_eq in Hx by lia. inversion Hx; subst; auto.
      * rewrite nth_error_upd_nth_neq in Hx by auto. eapply Hdone1; eauto. lia.
    + intros i Hi. rewrite nth_error_upd_nth_neq by lia. apply Hrest1. lia.
Qed.

Lemma all_done_nth : forall ts, (forall i t, nth_error ts i = Some t -> todo t = []) -> all_done ts = true.
Proof.
  induction ts as [|t ts IH]; intros H; cbn; auto.
  unfold tdone at 1. rewrite (H 0%nat t eq_refl). cbn. apply IH. intros i x Hx. apply (H (S i) x Hx).
Qed.

Theorem complete_schedule_exists : forall ss sc progs w0, exists sched,
  all_done (fst (hrun ss sc sched progs w0)) = true.
Proof.
  intros ss sc progs w0. unfold hrun.
  destruct (seq_schedule ss sc (length (init_threads progs)) (init_threads progs) w0 (le_n _)) as (s & ts' & w' & Hr & Hl & Hd & _).
  - intros i t Hi. unfold init_threads in Hi. rewrite nth_error_map in Hi.
    destruct (nth_error progs i); cbn in Hi; inversion Hi; auto.
  - exists s. rewrite Hr. cbn [fst]. apply all_done_nth. intros i t Hi. eapply Hd; eauto.
    rewrite <- Hl. eapply nth_error_lt; eauto.
Qed.
