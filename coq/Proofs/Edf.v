From Coq Require Import List ZArith Bool Lia.
From MV Require Import Model.Edf.
Import ListNotations.
Open Scope Z_scope.

(* ---- list update lemmas ---- *)
Lemma upd_length {A} (l : list A) i x : length (upd l i x) = length l.
Proof. revert i; induction l as [|y l IH]; intros [|i]; cbn; auto. Qed.

Lemma nth_error_upd_same {A} (l : list A) i x : (i < length l)%nat -> nth_error (upd l i x) i = Some x.
Proof. revert i; induction l as [|y l IH]; intros [|i] H; cbn in *; try lia; auto. apply IH; lia. Qed.

Lemma nth_error_upd_other {A} (l : list A) i j x : i <> j -> nth_error (upd l i x) j = nth_error l j.
Proof. revert i j; induction l as [|y l IH]; intros [|i] [|j] H; cbn; auto; try congruence. Qed.

Lemma Forall_upd {A} (P : A -> Prop) l i x : Forall P l -> P x -> Forall P (upd l i x).
Proof.
  intros HF Hx; revert i; induction HF as [|y l Hy HF IH]; intros [|i]; cbn; constructor; auto.
Qed.

Lemma dl_minimal_spec e l : dl_minimal e l = true <-> Forall (fun e' => dl e <= dl e') l.
Proof.
  unfold dl_minimal. rewrite forallb_forall, Forall_forall. split; intros H x Hx.
  - apply Z.leb_le, H, Hx.
  - apply Z.leb_le, H, Hx.
Qed.

(* ---- invariant ---- *)
Definition EInv (s : edf) : Prop :=
  Forall (fun e => 0 < per e /\ now s <= dl e <= now s + per e) (es s).

Lemma init_inv : EInv edf_init.
Proof. constructor. Qed.

Lemma add_inv s p : 0 < p -> EInv s -> EInv (edf_add s p).
Proof.
  intros Hp H. unfold EInv, edf_add in *; cbn [es now]. apply Forall_app; split; [exact H|].
  constructor; [|constructor]. cbn; lia.
Qed.

Lemma pick_inv s i s' : EInv s -> edf_pick s i = Some s' -> EInv s'.
Proof.
  unfold edf_pick, EInv. intros H Hp.
  destruct (nth_error (es s) i) as [e|] eqn:He; [|discriminate].
  destruct (dl_minimal e (es s)) eqn:Hm; [|discriminate]. inversion Hp; subst s'; clear Hp. cbn [es now].
  apply dl_minimal_spec in Hm.
  pose proof (nth_error_In _ _ He) as Hin.
  rewrite Forall_forall in H. pose proof (H e Hin) as [Hpe [Hlo Hhi]].
  apply Forall_upd.
  - rewrite Forall_forall in *. intros e' He'. pose proof (H e' He') as [Hp' [Hlo' Hhi']].
    pose proof (Hm e' He'). lia.
  - cbn; lia.
Qed.

Definition dl_at (s : edf) (j : nat) : Z := match nth_error (es s) j with Some e => dl e | None => 0 end.
Definition per_at (s : edf) (j : nat) : Z := match nth_error (es s) j with Some e => per e | None => 0 end.

Lemma pick_effect s i s' : edf_pick s i = Some s' ->
  length (es s') = length (es s) /\
  forall j, per_at s' j = per_at s j /\
            dl_at s' j = dl_at s j + (if Nat.eqb j i then per_at s j else 0).
Proof.
  unfold edf_pick. intros Hp.
  destruct (nth_error (es s) i) as [e|] eqn:He; [|discriminate].
  destruct (dl_minimal e (es s)); [|discriminate]. inversion Hp; subst s'; clear Hp. cbn [es].
  split; [apply upd_length|]. intros j. unfold per_at, dl_at; cbn [es].
  destruct (Nat.eqb_spec j i) as [->|Hne].
  - rewrite nth_error_upd_same by (apply nth_error_Some; congruence). rewrite He. cbn. split; lia.
  - rewrite nth_error_upd_other by congruence. destruct (nth_error (es s) j); split; lia.
Qed.

Lemma count_pick_cons j i ps :
  count_pick j (i :: ps) = (if Nat.eqb j i then 1 else 0) + count_pick j ps.
Proof. unfold count_pick; cbn [filter]. destruct (Nat.eqb j i); cbn [length]; lia. Qed.

Lemma run_effect picks : forall s s', EInv s -> edf_run s picks = Some s' ->
  EInv s' /\ length (es s') = length (es s) /\
  forall j, per_at s' j = per_at s j /\ dl_at s' j = dl_at s j + count_pick j picks * per_at s j.
Proof.
  induction picks as [|i ps IH]; intros s s' Hinv Hrun; cbn [edf_run] in Hrun.
  - inversion Hrun; subst. split; [exact Hinv|]. split; [reflexivity|]. intros j. unfold count_pick; cbn. split; lia.
  - destruct (edf_pick s i) as [s1|] eqn:Hp; [|discriminate].
    pose proof (pick_inv _ _ _ Hinv Hp) as Hinv1.
    destruct (pick_effect _ _ _ Hp) as [Hlen1 Heff1].
    destruct (IH _ _ Hinv1 Hrun) as [Hinv' [Hlen' Heff']].
    split; [exact Hinv'|]. split; [congruence|]. intros j.
    destruct (Heff1 j) as [Hp1 Hd1]. destruct (Heff' j) as [Hp2 Hd2].
    rewrite count_pick_cons. split; [congruence|]. rewrite Hd2, Hd1, Hp1.
    destruct (Nat.eqb j i); lia.
Qed.

Lemma inv_at s j : EInv s -> (j < length (es s))%nat ->
  0 < per_at s j /\ now s <= dl_at s j <= now s + per_at s j.
Proof.
  intros H Hj. unfold per_at, dl_at. destruct (nth_error (es s) j) as [e|] eqn:He.
  - unfold EInv in H; rewrite Forall_forall in H. apply H. eapply nth_error_In; eauto.
  - apply nth_error_None in He. lia.
Qed.

(* The window bound, scaled: per_e stands for D / w_e. *)
Theorem edf_window_scaled s0 picks s1 : EInv s0 -> edf_run s0 picks = Some s1 ->
  forall i j, (i < length (es s0))%nat -> (j < length (es s0))%nat ->
  Z.abs (count_pick i picks * per_at s0 i - count_pick j picks * per_at s0 j)
    <= per_at s0 i + per_at s0 j.
Proof.
  intros H0 Hrun i j Hi Hj.
  destruct (run_effect _ _ _ H0 Hrun) as [H1 [Hlen Heff]].
  destruct (Heff i) as [Hpi Hdi]. destruct (Heff j) as [Hpj Hdj].
  pose proof (inv_at s0 i H0 Hi) as [? [? ?]]. pose proof (inv_at s0 j H0 Hj) as [? [? ?]].
  pose proof (inv_at s1 i H1 ltac:(lia)) as [? [? ?]]. pose proof (inv_at s1 j H1 ltac:(lia)) as [? [? ?]].
  lia.
Qed.

(* reachability from the empty scheduler by Add and NextAndPush *)
Inductive eop := OAdd (p : Z) | OPick (i : nat).
Definition eop_ok (o : eop) : Prop := match o with OAdd p => 0 < p | OPick _ => True end.
Fixpoint edf_exec (s : edf) (ops : list eop) : option edf :=
  match ops with
  | [] => Some s
  | OAdd p :: ops' => edf_exec (edf_add s p) ops'
  | OPick i :: ops' => match edf_pick s i with Some s' => edf_exec s' ops' | None => None end
  end.
Lemma exec_inv ops : forall s s', Forall eop_ok ops -> EInv s -> edf_exec s ops = Some s' -> EInv s'.
Proof.
  induction ops as [|[p|i] ops IH]; intros s s' Hok Hinv Hex; cbn [edf_exec] in Hex.
  - inversion Hex; subst; exact Hinv.
  - inversion Hok; subst. eapply IH; [eassumption| |exact Hex]. apply add_inv; assumption.
  - inversion Hok; subst. destruct (edf_pick s i) eqn:Hp; [|discriminate].
    eapply IH; [eassumption| |exact Hex]. eapply pick_inv; eassumption.
Qed.

Theorem edf_window_reachable pre s0 picks s1 :
  Forall eop_ok pre -> edf_exec edf_init pre = Some s0 -> edf_run s0 picks = Some s1 ->
  forall i j, (i < length (es s0))%nat -> (j < length (es s0))%nat ->
  Z.abs (count_pick i picks * per_at s0 i - count_pick j picks * per_at s0 j)
    <= per_at s0 i + per_at s0 j.
Proof.
  intros Hok Hex Hrun. apply (edf_window_scaled s0 picks s1); [|exact Hrun].
  eapply exec_inv; [exact Hok|apply init_inv|exact Hex].
Qed.

(* the deterministic Go tie-break is an instance of `next` *)
Lemma argmin_from_spec l : forall i best be,
  (forall e, In e l -> True) ->
  let r := argmin_from l i best be in
  (r = best \/ (i <= r < i + length l)%nat).
Proof.
  induction l as [|e l IH]; intros i best be _; cbn [argmin_from length].
  - left; reflexivity.
  - destruct (entry_less e be).
    + destruct (IH (S i) i e (fun _ _ => I)) as [->|H]; right; lia.
    + destruct (IH (S i) best be (fun _ _ => I)) as [->|H]; [left; reflexivity|right; lia].
Qed.

Lemma entry_less_false_le a b : entry_less a b = false -> dl b <= dl a.
Proof. unfold entry_less. destruct (Z.eqb_spec (dl a) (dl b)); [lia|]. intros H; apply Z.ltb_ge in H; exact H. Qed.
Lemma entry_less_true_le a b : entry_less a b = true -> dl a <= dl b.
Proof. unfold entry_less. destruct (Z.eqb_spec (dl a) (dl b)); [lia|]. intros H; apply Z.ltb_lt in H; lia. Qed.

(* invariant of the scan: the current best is <= every element seen so far, and sits at index best *)
Lemma argmin_from_minimal l : forall (pre : list entry) best be,
  nth_error (pre ++ l) best = Some be -> (best < length pre)%nat ->
  Forall (fun e' => dl be <= dl e') pre ->
  exists e, nth_error (pre ++ l) (argmin_from l (length pre) best be) = Some e /\
            Forall (fun e' => dl e <= dl e') (pre ++ l).
Proof.
  induction l as [|x l IH]; intros pre best be Hb Hlt Hmin; cbn [argmin_from].
  - exists be. rewrite app_nil_r in *. split; assumption.
  - replace (pre ++ x :: l) with ((pre ++ [x]) ++ l) in * by (rewrite <- app_assoc; reflexivity).
    replace (S (length pre)) with (length (pre ++ [x])) by (rewrite app_length; cbn; lia).
    destruct (entry_less x be) eqn:E.
    + apply IH.
      * rewrite nth_error_app1 by (rewrite app_length; cbn; lia).
        rewrite nth_error_app2 by lia. rewrite Nat.sub_diag. reflexivity.
      * rewrite app_length; cbn; lia.
      * apply entry_less_true_le in E. apply Forall_app; split.
        -- eapply Forall_impl; [|exact Hmin]. cbn; intros; lia.
        -- constructor; [lia|constructor].
    + apply IH.
      * exact Hb.
      * rewrite app_length; cbn; lia.
      * apply entry_less_false_le in E. apply Forall_app; split; [exact Hmin|]. constructor; [exact E|constructor].
Qed.

Theorem next_det_is_next s i : edf_next_det s = Some i -> exists s', edf_pick s i = Some s'.
Proof.
  unfold edf_next_det. destruct (es s) as [|e l] eqn:Hes; [discriminate|]. intros H; inversion H; subst i; clear H.
  destruct (argmin_from_minimal l [e] 0%nat e) as [m [Hn Hm]]; [reflexivity|cbn; lia|constructor; [lia|constructor]|].
  cbn [length app] in Hn, Hm. unfold edf_pick. rewrite Hes, Hn.
  apply dl_minimal_spec in Hm. rewrite Hm. eexists; reflexivity.
Qed.

(* ---- from periods back to weights ---- *)
Lemma fold_add_per D ws : forall s k,
  per_at (fold_left (fun s w => edf_add s (D / w)) ws s) k =
  if Nat.ltb k (length (es s)) then per_at s k
  else match nth_error ws (k - length (es s)) with Some w => D / w | None => 0 end.
Proof.
  induction ws as [|w ws IH]; intros s k; cbn [fold_left].
  - destruct (Nat.ltb_spec k (length (es s))); [reflexivity|].
    unfold per_at. apply nth_error_None in H. rewrite H.
    destruct (k - length (es s))%nat; reflexivity.
  - rewrite IH. unfold edf_add at 1 3; cbn [es]. rewrite app_length; cbn [length].
    destruct (Nat.ltb_spec k (length (es s) + 1)); destruct (Nat.ltb_spec k (length (es s))); try lia.
    + unfold per_at, edf_add; cbn [es]. rewrite nth_error_app1 by lia. reflexivity.
    + assert (k = length (es s)) by lia; subst k. rewrite Nat.sub_diag; cbn [nth_error].
      unfold per_at, edf_add; cbn [es]. rewrite nth_error_app2 by lia. rewrite Nat.sub_diag; reflexivity.
    + replace (k - length (es s))%nat with (S (k - (length (es s) + 1)))%nat by lia. reflexivity.
Qed.

Lemma fold_add_len D ws : forall s,
  length (es (fold_left (fun s w => edf_add s (D / w)) ws s)) = (length (es s) + length ws)%nat.
Proof.
  induction ws as [|w ws IH]; intros s; cbn [fold_left length]; [lia|].
  rewrite IH. unfold edf_add; cbn [es]. rewrite app_length; cbn; lia.
Qed.

Lemma of_weights_per ws k w : nth_error ws k = Some w ->
  per_at (edf_of_weights ws) k = prod_weights ws / w.
Proof.
  intros H. unfold edf_of_weights. rewrite fold_add_per. cbn [edf_init es length].
  rewrite Nat.sub_0_r, H. reflexivity.
Qed.

Lemma prod_pos ws : Forall (fun w => 0 < w) ws -> 0 < prod_weights ws.
Proof. induction 1; cbn; [lia|]. fold (prod_weights l). nia. Qed.

Lemma prod_div ws w : In w ws -> (w | prod_weights ws).
Proof.
  induction ws as [|x ws IH]; intros []; cbn; fold (prod_weights ws).
  - subst. apply Z.divide_factor_l.
  - apply Z.divide_mul_r. auto.
Qed.

Lemma of_weights_inv ws : Forall (fun w => 0 < w) ws -> EInv (edf_of_weights ws).
Proof.
  intros Hpos. unfold edf_of_weights.
  assert (HD := prod_pos ws Hpos). set (D := prod_weights ws) in *.
  assert (Hall : Forall (fun w => 0 < D / w) ws).
  { rewrite Forall_forall in *. intros w Hw. pose proof (Hpos w Hw). pose proof (prod_div ws w Hw) as [q Hq].
    fold D in Hq. subst D. rewrite Hq in *. rewrite Z.div_mul by lia. nia. }
  clear Hpos. clearbody D. generalize edf_init init_inv. induction ws as [|w ws IH]; intros s Hs; cbn [fold_left]; [exact Hs|].
  inversion Hall; subst. apply IH; [assumption|]. apply add_inv; assumption.
Qed.

Lemma scale_arith D wi wj qi qj ni nj : D = qi * wi -> D = qj * wj -> 0 < D -> 0 < wi -> 0 < wj ->
  Z.abs (ni * qi - nj * qj) <= qi + qj -> Z.abs (ni * wj - nj * wi) <= wi + wj.
Proof.
  intros H H0 HD Hwi Hwj HW.
  assert (E : D * (ni * wj - nj * wi) = wi * wj * (ni * qi - nj * qj)).
  { transitivity (ni * wj * D - nj * wi * D); [ring|]. rewrite H at 1. rewrite H0. ring. }
  assert (E2 : D * (wi + wj) = wi * wj * (qi + qj)).
  { transitivity (D * wi + D * wj); [ring|]. rewrite H0 at 1. rewrite H. ring. }
  apply Z.abs_le in HW. destruct HW as [Hlo Hhi]. apply Z.abs_le.
  assert (Hp : 0 < wi * wj) by nia.
  assert (A1 : wi * wj * (ni * qi - nj * qj) <= wi * wj * (qi + qj)) by (apply Z.mul_le_mono_nonneg_l; lia).
  assert (A2 : wi * wj * (- (qi + qj)) <= wi * wj * (ni * qi - nj * qj)) by (apply Z.mul_le_mono_nonneg_l; lia).
  rewrite <- E in A1, A2. rewrite <- E2 in A1.
  replace (wi * wj * - (qi + qj)) with (D * - (wi + wj)) in A2 by (rewrite Z.mul_opp_r, E2; ring).
  split.
  - apply (Z.mul_le_mono_pos_l _ _ D HD). exact A2.
  - apply (Z.mul_le_mono_pos_l _ _ D HD). exact A1.
Qed.

(* Second half of C06 in integer form: multiply |n_i/w_i - n_j/w_j| <= 1/w_i + 1/w_j by w_i*w_j > 0. *)
Theorem edf_window_weights ws pre s0 picks s1 :
  Forall (fun w => 0 < w) ws ->
  edf_run (edf_of_weights ws) pre = Some s0 ->     (* any reachable window start *)
  edf_run s0 picks = Some s1 ->                     (* any window length *)
  forall i j wi wj, nth_error ws i = Some wi -> nth_error ws j = Some wj ->
  Z.abs (count_pick i picks * wj - count_pick j picks * wi) <= wi + wj.
Proof.
  intros Hpos Hpre Hrun i j wi wj Hi Hj.
  pose proof (of_weights_inv ws Hpos) as Hinv.
  destruct (run_effect _ _ _ Hinv Hpre) as [Hinv0 [Hlen0 Heff0]].
  assert (Hlen : length (es (edf_of_weights ws)) = length ws).
  { unfold edf_of_weights. rewrite fold_add_len. reflexivity. }
  assert (Hil : (i < length ws)%nat) by (apply nth_error_Some; congruence).
  assert (Hjl : (j < length ws)%nat) by (apply nth_error_Some; congruence).
  pose proof (edf_window_scaled s0 picks s1 Hinv0 Hrun i j ltac:(lia) ltac:(lia)) as HW.
  destruct (Heff0 i) as [Hpi _]. destruct (Heff0 j) as [Hpj _].
  rewrite Hpi, Hpj in HW. rewrite (of_weights_per ws i wi Hi), (of_weights_per ws j wj Hj) in HW.
  pose proof (prod_pos ws Hpos) as HD. set (D := prod_weights ws) in *.
  rewrite Forall_forall in Hpos.
  pose proof (Hpos wi (nth_error_In _ _ Hi)) as Hwi. pose proof (Hpos wj (nth_error_In _ _ Hj)) as Hwj.
  destruct (prod_div ws wi (nth_error_In _ _ Hi)) as [qi Hqi]. destruct (prod_div ws wj (nth_error_In _ _ Hj)) as [qj Hqj].
  fold D in Hqi, Hqj.
  assert (Hdi : D / wi = qi) by (rewrite Hqi; apply Z.div_mul; lia).
  assert (Hdj : D / wj = qj) by (rewrite Hqj; apply Z.div_mul; lia).
  rewrite Hdi, Hdj in HW.
  eapply (scale_arith D wi wj qi qj); eauto.
Qed.
