(* Proofs about Model/XReply.v. *)
From Coq Require Import List NArith Bool.
From MV Require Import Model.XReply.
Import ListNotations.
Open Scope N_scope.

Lemma rrun_srv : forall us s, srv_id (fold_left rforward us s) = srv_id s.
Proof. induction us as [|u us IH]; cbn; intros s; [reflexivity|]. rewrite IH. reflexivity. Qed.

(* every kind of reply, every codec policy, any number of forwards/retries with any upstream ids: what is written carries
   the downstream request's id *)
Theorem reply_id_restored : forall hj d us k id,
  wire_id RestampEnd hj (rrun d us) k = Some id -> id = d.
Proof.
  intros hj d us k id H. unfold rrun in H. destruct k, hj; cbn in H; try discriminate;
    inversion H; subst; rewrite rrun_srv; reflexivity.
Qed.

(* replies are written exactly when there is something to write *)
Theorem reply_written : forall hj d us k,
  wire_id RestampEnd hj (rrun d us) k = None <-> (k = KOneway \/ (k = KHijack /\ hj = HjNone)).
Proof.
  intros hj d us k. split.
  - destruct k, hj; cbn; intros H; try discriminate; auto.
  - intros [->|[-> ->]]; reflexivity.
Qed.

(* stamping only non-hijack frames: a hijack reply built after the forward carries the upstream id *)
Theorem reply_id_nonhijack_bad : exists d u, d <> u /\ wire_id RestampNonHijack HjCopy (rrun d [u]) KHijack = Some u.
Proof. exists 7, 9. split; [discriminate|reflexivity]. Qed.
