(* Proofs about Model/Subset.v: the two builders are observationally equivalent, subsets honour the criteria,
   fallback is exact. *)
From Coq Require Import List Arith Bool Lia.
From MV Require Import Model.Subset.
Import ListNotations.

(* ---------- association lists keyed by (key, value) ---------- *)
Lemma kv_eqb_eq : forall a b, kv_eqb a b = true <-> a = b.
Proof.
  intros [a1 a2] [b1 b2]; unfold kv_eqb; cbn. rewrite andb_true_iff, !Nat.eqb_eq. split.
  - intros [-> ->]; auto.
  - intros H; inversion H; auto.
Qed.
Lemma kv_eqb_refl : forall a, kv_eqb a a = true.
Proof. intros; apply kv_eqb_eq; auto. Qed.
Lemma kv_eqb_neq : forall a b, a <> b -> kv_eqb a b = false.
Proof. intros a b H. destruct (kv_eqb a b) eqn:E; auto. apply kv_eqb_eq in E; congruence. Qed.

Lemma assoc_upd_same {A} : forall k (f : option A -> A) l, assoc k (upd k f l) = Some (f (assoc k l)).
Proof.
  induction l as [|[k' a] l IH]; cbn.
  - rewrite kv_eqb_refl; auto.
  - destruct (kv_eqb k k') eqn:E; cbn; rewrite E; auto.
Qed.
Lemma assoc_upd_other {A} : forall k k' (f : option A -> A) l, k' <> k -> assoc k' (upd k f l) = assoc k' l.
Proof.
  induction l as [|[k'' a] l IH]; intros Hne; cbn.
  - rewrite kv_eqb_neq; auto.
  - destruct (kv_eqb k k'') eqn:E; cbn.
    + apply kv_eqb_eq in E; subst. rewrite (kv_eqb_neq k' k'') by auto. auto.
    + destruct (kv_eqb k' k''); auto.
Qed.

(* ---------- the load balancer slot reached by a path ---------- *)
Definition lb_of (t : trie) : option (list shost) := match t with TNode lb _ => lb end.
Definition lb_at (p : path) (t : trie) : option (list shost) :=
  match find p t with Some s => lb_of s | None => None end.

Lemma lb_at_empty : forall p, lb_at p empty_trie = None.
Proof. intros [|e p]; reflexivity. Qed.

Lemma lb_at_cons : forall e p lb kids,
  lb_at (e :: p) (TNode lb kids) = match assoc e kids with Some s => lb_at p s | None => None end.
Proof. intros; unfold lb_at; cbn. destruct (assoc e kids); auto. Qed.

Lemma lb_at_insert_same : forall q f t, lb_at q (insert q f t) = f (lb_at q t).
Proof.
  induction q as [|e rest IH]; intros f [lb kids].
  - reflexivity.
  - cbn [insert]. rewrite !lb_at_cons, assoc_upd_same. rewrite IH.
    destruct (assoc e kids); auto. rewrite lb_at_empty; auto.
Qed.

Lemma lb_at_insert_other : forall q p f t, p <> q -> lb_at p (insert q f t) = lb_at p t.
Proof.
  induction q as [|e rest IH]; intros p f [lb kids] Hne.
  - destruct p as [|e' p]; [congruence|]. cbn [insert]. rewrite !lb_at_cons. auto.
  - cbn [insert]. destruct p as [|e' p]; [reflexivity|]. rewrite !lb_at_cons.
    destruct (kv_eqb e' e) eqn:E.
    + apply kv_eqb_eq in E; subst e'. rewrite assoc_upd_same.
      assert (p <> rest) by congruence. rewrite IH by auto.
      destruct (assoc e kids); auto. apply lb_at_empty.
    + rewrite assoc_upd_other; auto. intros ->. rewrite kv_eqb_refl in E; discriminate.
Qed.

Lemma path_eq_dec : forall p q : path, {p = q} + {p <> q}.
Proof. decide equality. decide equality; apply Nat.eq_dec. Qed.

Lemma active_entry_lb_at : forall c t,
  active_entry c t = match c with
                     | [] => None
                     | _ => match lb_at c t with Some (x :: l) => Some (x :: l) | _ => None end
                     end.
Proof.
  intros [|e c] t; [reflexivity|]. unfold active_entry, find_subset, lb_at.
  destruct (find (e :: c) t) as [[lb kids]|]; cbn; auto. destruct lb as [[|x l]|]; auto.
Qed.

(* ---------- folds ---------- *)
Lemma fold_left_flat_map {A B C} (f : A -> C -> A) (g : B -> list C) : forall l a,
  fold_left f (flat_map g l) a = fold_left (fun a x => fold_left f (g x) a) l a.
Proof. induction l as [|x l IH]; intros a; cbn; auto. rewrite fold_left_app, IH; auto. Qed.

Lemma fold_left_map {A B C} (f : A -> C -> A) (g : B -> C) : forall l a,
  fold_left f (map g l) a = fold_left (fun a x => f a (g x)) l a.
Proof. induction l as [|x l IH]; intros a; cbn; auto. Qed.

(* ---------- builder 1 as a fold over the list of extracted paths ---------- *)
Definition step1 (hs : list shost) (t : trie) (q : path) : trie :=
  match q with [] => t | _ => insert q (init_if_none (create_subset hs q)) t end.
Definition ops1 (hs : list shost) (sels : list (list nat)) : list path :=
  flat_map (fun h => map (fun keys => extract_kvs keys (smeta h)) sels) hs.

Lemma fold_left_ext {A B} (f g : A -> B -> A) : (forall a x, f a x = g a x) ->
  forall l a, fold_left f l a = fold_left g l a.
Proof. intros H; induction l as [|x l IH]; intros a; cbn; auto. rewrite H; auto. Qed.

Lemma b1_host_ops : forall hs sels t h,
  b1_host hs sels t h = fold_left (step1 hs) (map (fun keys => extract_kvs keys (smeta h)) sels) t.
Proof.
  intros. unfold b1_host. rewrite fold_left_map. apply fold_left_ext.
  intros a keys. unfold step1. destruct (extract_kvs keys (smeta h)); reflexivity.
Qed.

Lemma build1_ops : forall hs sels, build1 hs sels = fold_left (step1 hs) (ops1 hs sels) empty_trie.
Proof.
  intros hs sels. unfold build1, ops1. rewrite fold_left_flat_map. apply fold_left_ext.
  intros a h. apply b1_host_ops.
Qed.

Lemma step1_lb_at : forall hs t q p,
  lb_at p (step1 hs t q) =
  if path_eq_dec p q then match q with [] => lb_at p t | _ => init_if_none (create_subset hs q) (lb_at p t) end
  else lb_at p t.
Proof.
  intros hs t q p. unfold step1. destruct (path_eq_dec p q) as [->|Hne].
  - destruct q; auto. apply lb_at_insert_same.
  - destruct q; auto. apply lb_at_insert_other; auto.
Qed.

Lemma fold1_lb_at : forall hs ops t p, p <> [] ->
  lb_at p (fold_left (step1 hs) ops t) =
  match lb_at p t with
  | Some x => Some x
  | None => if in_dec path_eq_dec p ops then Some (create_subset hs p) else None
  end.
Proof.
  intros hs ops. induction ops as [|q ops IH]; intros t p Hp; cbn [fold_left].
  - destruct (lb_at p t); auto.
  - rewrite IH by auto. rewrite step1_lb_at.
    destruct (path_eq_dec p q) as [->|Hne].
    + destruct q as [|e q]; [congruence|].
      assert (Hin : In (e :: q) ((e :: q) :: ops)) by (left; auto).
      destruct (lb_at (e :: q) t); cbn [init_if_none]; auto.
      match goal with |- context [if ?X then _ else _] => destruct X as [_|n1] end; [auto|contradiction].
    + destruct (lb_at p t); auto.
      destruct (in_dec path_eq_dec p ops) as [i|n]; destruct (in_dec path_eq_dec p (q :: ops)) as [i'|n']; auto.
      * exfalso; apply n'; right; auto.
      * destruct i' as [E|i']; [congruence|contradiction].
Qed.

(* ---------- builder 2 as a fold over the list of combinations ---------- *)
Definition step2 (hs : list shost) (t : trie) (q : path) : trie :=
  insert q (set_if_nonempty (filter_hosts hs q)) t.
Definition ops_of_sel (hs : list shost) (keys : list nat) : list path :=
  match keys with [] => [] | _ => combos hs keys end.
Definition ops2 (hs : list shost) (sels : list (list nat)) : list path := flat_map (ops_of_sel hs) sels.

Lemma build2_ops : forall hs sels, build2 hs sels = fold_left (step2 hs) (ops2 hs sels) empty_trie.
Proof.
  intros hs sels. unfold build2, ops2. rewrite fold_left_flat_map. apply fold_left_ext.
  intros a s. unfold b2_selector, ops_of_sel. destruct s; reflexivity.
Qed.

Lemma fold2_lb_at : forall hs ops t p,
  lb_at p (fold_left (step2 hs) ops t) =
  if in_dec path_eq_dec p ops then match filter_hosts hs p with [] => lb_at p t | l => Some l end
  else lb_at p t.
Proof.
  intros hs ops. induction ops as [|q ops IH]; intros t p; cbn [fold_left]; auto.
  rewrite IH. unfold step2.
  destruct (path_eq_dec p q) as [->|Hne].
  - rewrite lb_at_insert_same. unfold set_if_nonempty.
    destruct (in_dec path_eq_dec q (q :: ops)) as [|n]; [|exfalso; apply n; left; auto].
    destruct (in_dec path_eq_dec q ops); destruct (filter_hosts hs q); auto.
  - rewrite lb_at_insert_other by auto.
    destruct (in_dec path_eq_dec p ops) as [i|n]; destruct (in_dec path_eq_dec p (q :: ops)) as [i'|n']; auto.
    + exfalso; apply n'; right; auto.
    + destruct i' as [E|i']; [congruence|contradiction].
Qed.

(* ---------- extraction, matching, combinations ---------- *)
Lemma extract_keys : forall S m c, extract S m = Some c -> map fst c = S.
Proof.
  induction S as [|k S IH]; intros m c H; cbn in H.
  - inversion H; auto.
  - destruct (lookup k m) as [v|]; [|discriminate]. destruct (extract S m) as [r|] eqn:E; [|discriminate].
    inversion H; subst. cbn. f_equal. eapply IH; eauto.
Qed.

Lemma extract_matches : forall S m c, extract S m = Some c -> forallb (pair_ok m) c = true.
Proof.
  induction S as [|k S IH]; intros m c H; cbn in H.
  - inversion H; auto.
  - destruct (lookup k m) as [v|] eqn:L; [|discriminate]. destruct (extract S m) as [r|] eqn:E; [|discriminate].
    inversion H; subst. cbn. unfold pair_ok at 1; cbn. rewrite L, Nat.eqb_refl. cbn. eapply IH; eauto.
Qed.

Lemma matches_extract : forall c m, forallb (pair_ok m) c = true -> extract (map fst c) m = Some c.
Proof.
  induction c as [|[k v] c IH]; intros m H; cbn in *; auto.
  apply andb_prop in H; destruct H as [H1 H2]. unfold pair_ok in H1; cbn in H1.
  destruct (lookup k m) as [v'|]; [|discriminate]. apply Nat.eqb_eq in H1; subst.
  rewrite (IH m H2). auto.
Qed.

Lemma nodup_nat_in : forall l x, In x (nodup_nat l) <-> In x l.
Proof.
  induction l as [|y l IH]; intros x; cbn; [tauto|].
  destruct (existsb (Nat.eqb y) l) eqn:E.
  - rewrite IH. split; auto. intros [->|H]; auto.
    apply existsb_exists in E. destruct E as (z & Hz & Ez). apply Nat.eqb_eq in Ez; subst; auto.
  - cbn. rewrite IH. tauto.
Qed.

Lemma values_in : forall hs k v, In v (values hs k) <-> exists h, In h hs /\ lookup k (smeta h) = Some v.
Proof.
  intros hs k v. unfold values. rewrite nodup_nat_in, in_flat_map. split.
  - intros (h & Hh & Hv). exists h; split; auto. destruct (lookup k (smeta h)); cbn in Hv; intuition congruence.
  - intros (h & Hh & Hv). exists h; split; auto. rewrite Hv; left; auto.
Qed.

Lemma combos_in : forall hs S c, In c (combos hs S) <->
  map fst c = S /\ Forall (fun e => In (snd e) (values hs (fst e))) c.
Proof.
  induction S as [|k S IH]; intros c; cbn.
  - split.
    + intros [<-|[]]; auto.
    + intros [H _]. destruct c; [auto|discriminate].
  - rewrite in_flat_map. split.
    + intros (v & Hv & Hc). apply in_map_iff in Hc. destruct Hc as (r & <- & Hr). apply IH in Hr.
      destruct Hr as [Hk Hf]. cbn. split; [congruence|]. constructor; auto.
    + intros [Hk Hf]. destruct c as [|[k' v] r]; [discriminate|]. cbn in Hk. inversion Hk; subst.
      inversion Hf; subst. cbn in *. exists v; split; auto. apply in_map. apply IH; auto.
Qed.

Lemma matches_values : forall hs h c, In h hs -> host_matches c h = true ->
  Forall (fun e => In (snd e) (values hs (fst e))) c.
Proof.
  intros hs h c Hh Hm. unfold host_matches in Hm. rewrite forallb_forall in Hm. apply Forall_forall.
  intros [k v] Hin. specialize (Hm _ Hin). unfold pair_ok in Hm; cbn in *.
  destruct (lookup k (smeta h)) as [v'|] eqn:L; [|discriminate]. apply Nat.eqb_eq in Hm; subst.
  apply values_in. eauto.
Qed.

(* which paths each builder touches *)
Lemma ops1_in : forall hs sels c, c <> [] ->
  (In c (ops1 hs sels) <-> exists h S, In h hs /\ In S sels /\ extract S (smeta h) = Some c).
Proof.
  intros hs sels c Hc. unfold ops1. rewrite in_flat_map. split.
  - intros (h & Hh & Hin). apply in_map_iff in Hin. destruct Hin as (S & E & HS).
    exists h, S. repeat split; auto. unfold extract_kvs in E. destruct (extract S (smeta h)) as [r|]; [subst; auto|exfalso; apply Hc; auto].
  - intros (h & S & Hh & HS & E). exists h; split; auto. apply in_map_iff. exists S; split; auto.
    unfold extract_kvs; rewrite E; auto.
Qed.

Lemma ops2_in : forall hs sels c,
  In c (ops2 hs sels) <-> exists S, In S sels /\ S <> [] /\ In c (combos hs S).
Proof.
  intros hs sels c. unfold ops2. rewrite in_flat_map. split.
  - intros (S & HS & Hin). exists S. destruct S; [destruct Hin|]. repeat split; auto. discriminate.
  - intros (S & HS & Hne & Hin). exists S; split; auto. destruct S; [congruence|auto].
Qed.

Lemma filter_nonempty_iff : forall hs c, filter_hosts hs c <> [] <-> exists h, In h hs /\ host_matches c h = true.
Proof.
  intros hs c. unfold filter_hosts. split.
  - intros H. destruct (filter (host_matches c) hs) as [|h l] eqn:E; [congruence|].
    exists h. apply filter_In. rewrite E; left; auto.
  - intros (h & Hh & Hm) E. assert (In h (filter (host_matches c) hs)) by (apply filter_In; auto).
    rewrite E in H; destruct H.
Qed.

(* the two builders touch the same useful paths *)
Lemma ops_equiv : forall hs sels c, c <> [] ->
  (In c (ops1 hs sels) <-> (In c (ops2 hs sels) /\ filter_hosts hs c <> [])).
Proof.
  intros hs sels c Hc. rewrite (ops1_in hs sels c Hc), ops2_in, filter_nonempty_iff. split.
  - intros (h & S & Hh & HS & E). split.
    + exists S. repeat split; auto.
      * intros ->. cbn in E. inversion E; congruence.
      * apply combos_in. split; [eapply extract_keys; eauto|].
        eapply matches_values; eauto. unfold host_matches. eapply extract_matches; eauto.
    + exists h; split; auto. unfold host_matches. eapply extract_matches; eauto.
  - intros [(S & HS & Hne & Hin) (h & Hh & Hm)]. exists h, S. repeat split; auto.
    apply combos_in in Hin. destruct Hin as [Hk _]. rewrite <- Hk. apply matches_extract. exact Hm.
Qed.

(* ---------- de-duplication is the identity on host lists with distinct addresses ---------- *)
Lemma dedup_ids_id : forall l seen, NoDup (map sid l) -> (forall h, In h l -> ~ In (sid h) seen) -> dedup_ids seen l = l.
Proof.
  induction l as [|h l IH]; intros seen Hnd Hs; cbn; auto.
  inversion Hnd as [|? ? Hnot Hnd']; subst.
  destruct (existsb (Nat.eqb (sid h)) seen) eqn:E.
  - apply existsb_exists in E. destruct E as (x & Hx & Ex). apply Nat.eqb_eq in Ex; subst.
    exfalso. apply (Hs h); [left; auto|auto].
  - f_equal. apply IH; auto. intros x Hx [Hin|Hin].
    + apply Hnot. rewrite Hin. apply in_map; auto.
    + apply (Hs x); [right; auto|auto].
Qed.

Lemma NoDup_map_filter {A B} (f : A -> B) (P : A -> bool) : forall l, NoDup (map f l) -> NoDup (map f (filter P l)).
Proof.
  induction l as [|x l IH]; cbn; intros H; auto. inversion H; subst.
  destruct (P x); cbn; auto. constructor; auto.
  intros Hin. apply in_map_iff in Hin. destruct Hin as (y & E & Hy). apply filter_In in Hy.
  apply H2. rewrite <- E. apply in_map; tauto.
Qed.

Lemma create_subset_filter : forall hs c, NoDup (map sid hs) -> create_subset hs c = filter_hosts hs c.
Proof.
  intros hs c H. unfold create_subset, filter_hosts. apply dedup_ids_id; auto.
  apply NoDup_map_filter; auto.
Qed.

Lemma dedup_incl : forall l seen h, In h (dedup_ids seen l) -> In h l.
Proof.
  induction l as [|x l IH]; intros seen h; cbn; auto.
  destruct (existsb (Nat.eqb (sid x)) seen); cbn; intros H; [right; eauto|].
  destruct H; [left; auto|right; eauto].
Qed.

Lemma dedup_nonempty : forall l, l <> [] -> dedup_ids [] l <> [].
Proof. intros [|x l] H; [congruence|]. cbn. discriminate. Qed.

(* ---------- what an active entry is, per builder ---------- *)
Lemma active1 : forall hs sels c,
  active_entry c (build1 hs sels) =
  match c with
  | [] => None
  | _ => if in_dec path_eq_dec c (ops1 hs sels) then
           match create_subset hs c with [] => None | l => Some l end
         else None
  end.
Proof.
  intros hs sels c. rewrite active_entry_lb_at. destruct c as [|e c]; auto.
  rewrite build1_ops, fold1_lb_at by discriminate. rewrite lb_at_empty.
  destruct (in_dec path_eq_dec (e :: c) (ops1 hs sels)); auto;
  destruct (create_subset hs (e :: c)); auto.
Qed.

Lemma active2 : forall hs sels c,
  active_entry c (build2 hs sels) =
  match c with
  | [] => None
  | _ => if in_dec path_eq_dec c (ops2 hs sels) then
           match filter_hosts hs c with [] => None | l => Some l end
         else None
  end.
Proof.
  intros hs sels c. rewrite active_entry_lb_at. destruct c as [|e c]; auto.
  rewrite build2_ops, fold2_lb_at. rewrite lb_at_empty.
  destruct (in_dec path_eq_dec (e :: c) (ops2 hs sels)); auto;
  destruct (filter_hosts hs (e :: c)); auto.
Qed.

Theorem active_equiv : forall hs sels c, NoDup (map sid hs) ->
  active_entry c (build1 hs sels) = active_entry c (build2 hs sels).
Proof.
  intros hs sels c Hnd. rewrite active1, active2. destruct c as [|e c]; auto.
  rewrite create_subset_filter by auto.
  pose proof (ops_equiv hs sels (e :: c) ltac:(discriminate)) as Heq.
  destruct (in_dec path_eq_dec (e :: c) (ops1 hs sels)) as [i1|n1];
    destruct (in_dec path_eq_dec (e :: c) (ops2 hs sels)) as [i2|n2]; auto.
  - apply Heq in i1. tauto.
  - destruct (filter_hosts hs (e :: c)) eqn:E; auto.
    exfalso. apply n1. apply Heq. split; auto. try rewrite E; discriminate.
Qed.

(* the subset applies exactly when a selector with the criteria's key set exists and a host matches all pairs *)
Theorem active1_iff : forall hs sels c l,
  active_entry c (build1 hs sels) = Some l <->
  (c <> [] /\ In (map fst c) sels /\ (exists h, In h hs /\ host_matches c h = true) /\ l = create_subset hs c).
Proof.
  intros hs sels c l. rewrite active1. destruct c as [|e c].
  - split; [discriminate|]. intros [H _]; congruence.
  - set (p := e :: c) in *. assert (Hp : p <> []) by (unfold p; discriminate).
    destruct (in_dec path_eq_dec p (ops1 hs sels)) as [i|n].
    + apply (ops1_in hs sels p Hp) in i. destruct i as (h & S & Hh & HS & E).
      assert (Hm : host_matches p h = true) by (unfold host_matches; eapply extract_matches; eauto).
      assert (Hne : create_subset hs p <> []).
      { unfold create_subset. apply dedup_nonempty. intros E0.
        assert (In h (filter (host_matches p) hs)) by (apply filter_In; auto). rewrite E0 in H; destruct H. }
      destruct (create_subset hs p) as [|x l0] eqn:Ecs; [congruence|]. split.
      * intros H; inversion H; subst. repeat split; auto.
        -- rewrite (extract_keys _ _ _ E); auto.
        -- eauto.
      * intros (_ & _ & _ & ->). auto.
    + split; [discriminate|]. intros (_ & HS & (h & Hh & Hm) & _). exfalso. apply n.
      apply (ops1_in hs sels p Hp). exists h, (map fst p). repeat split; auto. apply matches_extract. exact Hm.
Qed.

(* ---------- the balancers ---------- *)
Lemma fallback_equiv : forall hs pol dflt, NoDup (map sid hs) -> fallback1 hs pol dflt = fallback2 hs pol dflt.
Proof. intros hs [] dflt H; cbn; auto. rewrite create_subset_filter; auto. Qed.

Theorem builders_equiv : forall hs sels pol dflt, NoDup (map sid hs) -> forall crit,
  host_num (make1 hs sels pol dflt) crit = host_num (make2 hs sels pol dflt) crit /\
  is_exists (make1 hs sels pol dflt) crit = is_exists (make2 hs sels pol dflt) crit /\
  (forall inner, choose_host inner (make1 hs sels pol dflt) crit = choose_host inner (make2 hs sels pol dflt) crit) /\
  choose_set (make1 hs sels pol dflt) crit = choose_set (make2 hs sels pol dflt) crit.
Proof.
  intros hs sels pol dflt Hnd crit.
  unfold host_num, is_exists, choose_host, choose_set, first_try, make1, make2; cbn [s_hosts s_trie s_fallback].
  rewrite (fallback_equiv hs pol dflt Hnd).
  destruct crit as [c|]; auto. rewrite (active_equiv hs sels c Hnd). auto.
Qed.

Section WithInner.
  Variable inner : list shost -> option shost.
  Hypothesis inner_member : forall l h, inner l = Some h -> In h l.

  Definition contains_all (h : shost) (c : path) : Prop := forall k v, In (k, v) c -> lookup k (smeta h) = Some v.

  Lemma matches_contains : forall c h, host_matches c h = true -> contains_all h c.
  Proof.
    intros c h Hm k v Hin. unfold host_matches in Hm. rewrite forallb_forall in Hm.
    specialize (Hm _ Hin). unfold pair_ok in Hm; cbn in Hm.
    destruct (lookup k (smeta h)) as [v'|]; [|discriminate]. apply Nat.eqb_eq in Hm; subst; auto.
  Qed.

  Lemma create_subset_members : forall hs c h, In h (create_subset hs c) -> In h hs /\ host_matches c h = true.
  Proof. intros hs c h H. unfold create_subset in H. apply dedup_incl in H. apply filter_In in H; auto. Qed.

  (* sound: when the subset for the criteria is active and its balancer picks a host, the host carries all pairs *)
  Theorem sound1 : forall hs sels pol dflt c l h,
    first_try (make1 hs sels pol dflt) (Some c) = Some l -> inner l = Some h ->
    choose_host inner (make1 hs sels pol dflt) (Some c) = Some h /\ In h hs /\ contains_all h c.
  Proof.
    intros hs sels pol dflt c l h Hft Hin. split.
    - unfold choose_host. rewrite Hft, Hin. auto.
    - cbn in Hft. apply active1_iff in Hft. destruct Hft as (_ & _ & _ & ->).
      apply inner_member in Hin. apply create_subset_members in Hin. destruct Hin as [H1 H2].
      split; auto. apply matches_contains; auto.
  Qed.

  (* fallback: when no subset applies, or its balancer has no host to give *)
  Theorem fallback_exact1 : forall hs sels pol dflt crit,
    (match first_try (make1 hs sels pol dflt) crit with Some l => inner l | None => None end) = None ->
    choose_host inner (make1 hs sels pol dflt) crit =
      match pol with
      | NoFallBack => None
      | AnyEndPoint => inner hs
      | DefaultSubset => inner (create_subset hs dflt)
      end.
  Proof.
    intros hs sels pol dflt crit H. unfold choose_host. rewrite H. destruct pol; reflexivity.
  Qed.

  Theorem fallback_default_matches : forall hs dflt h,
    inner (create_subset hs dflt) = Some h -> In h hs /\ contains_all h dflt.
  Proof.
    intros hs dflt h H. apply inner_member in H. apply create_subset_members in H. destruct H.
    split; auto. apply matches_contains; auto.
  Qed.

  Theorem fallback_any_member : forall hs h, inner hs = Some h -> In h hs.
  Proof. intros; apply inner_member; auto. Qed.

  (* no criteria: the balancer over all hosts is asked first *)
  Theorem no_criteria1 : forall hs sels pol dflt,
    first_try (make1 hs sels pol dflt) None = Some hs /\
    (forall h, inner hs = Some h -> choose_host inner (make1 hs sels pol dflt) None = Some h).
  Proof.
    intros. split; [reflexivity|]. intros h H. unfold choose_host. cbn. rewrite H. auto.
  Qed.

  (* the same for the pre-indexed builder (host sets are de-duplicated by address before they reach a balancer) *)
  Theorem sound2 : forall hs sels pol dflt c l h, NoDup (map sid hs) ->
    first_try (make2 hs sels pol dflt) (Some c) = Some l -> inner l = Some h ->
    choose_host inner (make2 hs sels pol dflt) (Some c) = Some h /\ In h hs /\ contains_all h c.
  Proof.
    intros hs sels pol dflt c l h Hnd Hft Hin.
    assert (Hft1 : first_try (make1 hs sels pol dflt) (Some c) = Some l).
    { cbn in *. rewrite (active_equiv hs sels c Hnd). auto. }
    destruct (sound1 hs sels pol dflt c l h Hft1 Hin) as (Hc & Hm & Hall). split; auto.
    destruct (builders_equiv hs sels pol dflt Hnd (Some c)) as (_ & _ & He & _). rewrite <- He. auto.
  Qed.

  Theorem fallback_exact2 : forall hs sels pol dflt crit,
    (match first_try (make2 hs sels pol dflt) crit with Some l => inner l | None => None end) = None ->
    choose_host inner (make2 hs sels pol dflt) crit =
      match pol with
      | NoFallBack => None
      | AnyEndPoint => inner hs
      | DefaultSubset => inner (filter_hosts hs dflt)
      end.
  Proof.
    intros hs sels pol dflt crit H. unfold choose_host. rewrite H. destruct pol; reflexivity.
  Qed.

  Theorem fallback_default_matches2 : forall hs dflt h,
    inner (filter_hosts hs dflt) = Some h -> In h hs /\ contains_all h dflt.
  Proof.
    intros hs dflt h H. apply inner_member in H. unfold filter_hosts in H. apply filter_In in H. destruct H.
    split; auto. apply matches_contains; auto.
  Qed.

  (* C05 on top of subset balancing: every list handed to the inner balancer is a sub-list of the cluster's hosts,
     so membership (and health, when the inner balancer guarantees it) lift to the subset balancer *)
  Lemma active1_incl : forall hs sels c l, active_entry c (build1 hs sels) = Some l -> incl l hs.
  Proof.
    intros hs sels c l H. apply active1_iff in H. destruct H as (_ & _ & _ & ->).
    intros h Hh. apply create_subset_members in Hh. tauto.
  Qed.

  Lemma active2_incl : forall hs sels c l, active_entry c (build2 hs sels) = Some l -> incl l hs.
  Proof.
    intros hs sels c l H. rewrite active2 in H. destruct c as [|e c]; [discriminate|].
    destruct (in_dec path_eq_dec (e :: c) (ops2 hs sels)); [|discriminate].
    destruct (filter_hosts hs (e :: c)) as [|x r] eqn:E; [discriminate|]. inversion H; subst.
    intros h Hh. rewrite <- E in Hh. unfold filter_hosts in Hh. apply filter_In in Hh. tauto.
  Qed.

  Theorem subset_member : forall hs sels pol dflt crit h,
    (choose_host inner (make1 hs sels pol dflt) crit = Some h \/
     choose_host inner (make2 hs sels pol dflt) crit = Some h) -> In h hs.
  Proof.
    intros hs sels pol dflt crit h [H|H]; unfold choose_host in H; cbn [s_fallback make1 make2] in H.
    - destruct (match first_try (make1 hs sels pol dflt) crit with Some l => inner l | None => None end) as [x|] eqn:E.
      + inversion H; subst. destruct crit as [c|]; cbn in E.
        * destruct (active_entry c (build1 hs sels)) as [l|] eqn:A; [|discriminate].
          apply (active1_incl _ _ _ _ A). apply inner_member; auto.
        * apply inner_member; auto.
      + destruct pol; cbn in H; [discriminate|apply inner_member; auto|].
        apply inner_member in H. apply create_subset_members in H. tauto.
    - destruct (match first_try (make2 hs sels pol dflt) crit with Some l => inner l | None => None end) as [x|] eqn:E.
      + inversion H; subst. destruct crit as [c|]; cbn in E.
        * destruct (active_entry c (build2 hs sels)) as [l|] eqn:A; [|discriminate].
          apply (active2_incl _ _ _ _ A). apply inner_member; auto.
        * apply inner_member; auto.
      + destruct pol; cbn in H; [discriminate|apply inner_member; auto|].
        apply inner_member in H. unfold filter_hosts in H. apply filter_In in H. tauto.
  Qed.

  Theorem subset_healthy : (forall l h, inner l = Some h -> shealthy h = true) ->
    forall b crit h, choose_host inner b crit = Some h -> shealthy h = true.
  Proof.
    intros Hh b crit h H. unfold choose_host in H.
    destruct (first_try b crit) as [l|]; [destruct (inner l) as [x|] eqn:E|].
    - inversion H; subst; eauto.
    - destruct (s_fallback b); [eauto|discriminate].
    - destruct (s_fallback b); [eauto|discriminate].
  Qed.
End WithInner.
