(* Proofs/H2Demux.v (group h2): C02 for the HTTP/2 stream connections.  For EVERY set of open streams, every
   interleaving of their frames and every grouping of the frames into reads: the receiver of stream sid is handed
   exactly one delivery, carrying the headers of sid and exactly the concatenation of the DATA payloads of sid, in
   order - nothing of any other stream - and, payloads being copied, what it holds does not depend on the contents
   of the read buffer at any later time.  The aliasing variant (payload of a single DATA+END_STREAM frame wrapped
   instead of copied) is refuted. *)
From Coq Require Import List NArith Arith Lia Bool.
From Coq Require Import ZifyBool ZifyNat ZifyN.
From MV Require Import Lib.HBits Model.H2Demux.
Import ListNotations.
Open Scope N_scope.

(* ---------------------------------------------------------------- the stream table *)
Lemma find_put_same : forall s l, find_s (ds_id s) l <> None -> find_s (ds_id s) (put_s s l) = Some s.
Proof.
  intros s. induction l as [|x r IH]; intro H; cbn [find_s put_s] in *; [contradiction H; reflexivity|].
  destruct (ds_id x =? ds_id s) eqn:E.
  - cbn [find_s]. rewrite N.eqb_refl. reflexivity.
  - cbn [find_s]. rewrite E. apply IH. exact H.
Qed.

Lemma find_put_other : forall s l sid, sid <> ds_id s -> find_s sid (put_s s l) = find_s sid l.
Proof.
  intros s. induction l as [|x r IH]; intros sid H; cbn [find_s put_s]; [reflexivity|].
  destruct (ds_id x =? ds_id s) eqn:E.
  - cbn [find_s]. assert (E2 : (ds_id s =? sid) = false) by lia. assert (E3 : (ds_id x =? sid) = false) by lia.
    rewrite E2, E3. reflexivity.
  - cbn [find_s]. destruct (ds_id x =? sid); [reflexivity | apply IH; exact H].
Qed.

Definition ids (l : list dstream) : list N := map ds_id l.

Lemma find_none_notin : forall sid l, ~ In sid (ids l) -> find_s sid l = None.
Proof.
  intros sid. induction l as [|x r IH]; intro H; cbn [find_s]; [reflexivity|].
  cbn [ids map In] in H. assert (E : (ds_id x =? sid) = false) by (apply N.eqb_neq; intro; apply H; left; assumption).
  rewrite E. apply IH. intro Hi. apply H. right. exact Hi.
Qed.

Lemma find_del_same : forall sid l, NoDup (ids l) -> find_s sid (del_s sid l) = None.
Proof.
  intros sid. induction l as [|x r IH]; intro H; cbn [find_s del_s]; [reflexivity|].
  inversion H as [|? ? Hn Hr]; subst.
  destruct (ds_id x =? sid) eqn:E.
  - apply N.eqb_eq in E. subst. apply find_none_notin. exact Hn.
  - cbn [find_s]. rewrite E. apply IH. exact Hr.
Qed.

Lemma find_del_other : forall sid l s2, s2 <> sid -> find_s s2 (del_s sid l) = find_s s2 l.
Proof.
  intros sid. induction l as [|x r IH]; intros s2 H; cbn [find_s del_s]; [reflexivity|].
  destruct (ds_id x =? sid) eqn:E.
  - assert (E2 : (ds_id x =? s2) = false) by lia. rewrite E2. reflexivity.
  - cbn [find_s]. destruct (ds_id x =? s2); [reflexivity | apply IH; exact H].
Qed.

Lemma ids_put : forall s l, ids (put_s s l) = ids l.
Proof.
  intros s. induction l as [|x r IH]; cbn [put_s ids map]; [reflexivity|].
  destruct (ds_id x =? ds_id s) eqn:E; cbn [ids map].
  - apply N.eqb_eq in E. rewrite E. reflexivity.
  - f_equal. exact IH.
Qed.

Lemma in_ids_del : forall sid l x, In x (ids (del_s sid l)) -> In x (ids l).
Proof.
  intros sid. induction l as [|y r IH]; intros x H; cbn [del_s ids map] in *; [exact H|].
  destruct (ds_id y =? sid); cbn [ids map In] in *; [right; exact H|].
  destruct H as [H|H]; [left; exact H | right; apply IH; exact H].
Qed.

Lemma nodup_del : forall sid l, NoDup (ids l) -> NoDup (ids (del_s sid l)).
Proof.
  intros sid. induction l as [|y r IH]; intro H; cbn [del_s ids map]; [constructor|].
  inversion H as [|? ? Hn Hr]; subst.
  destruct (ds_id y =? sid); [exact Hr|]. cbn [ids map]. constructor.
  - intro Hi. apply Hn. eapply in_ids_del. exact Hi.
  - apply IH. exact Hr.
Qed.

Lemma find_id : forall sid l s, find_s sid l = Some s -> ds_id s = sid.
Proof.
  intros sid. induction l as [|x r IH]; intros s H; cbn [find_s] in H; [discriminate|].
  destruct (ds_id x =? sid) eqn:E; [inversion H; subst; apply N.eqb_eq; exact E | apply IH; exact H].
Qed.

(* ---------------------------------------------------------------- one frame, seen from one stream *)
(* all bodies held are copies *)
Definition copies (st : list dstream) : Prop :=
  forall s, In s st -> match ds_rec s with Some (BRef _ _) => False | _ => True end.

Definition acc (s : dstream) : bytes := match ds_rec s with Some (BCopy b) => b | _ => [] end.

Definition only_sid (sid : N) (l : list delivery) : list delivery := filter (fun d => dl_sid d =? sid) l.

Lemma only_sid_app : forall sid a b, only_sid sid (a ++ b) = only_sid sid a ++ only_sid sid b.
Proof. intros. unfold only_sid. apply filter_app. Qed.

Lemma find_in : forall sid l s, find_s sid l = Some s -> In s l.
Proof.
  intros sid. induction l as [|x r IH]; intros s H; cbn [find_s] in H; [discriminate|].
  destruct (ds_id x =? sid); [inversion H; left; reflexivity | right; apply IH; exact H].
Qed.

Lemma in_put : forall s l x, In x (put_s s l) -> x = s \/ In x l.
Proof.
  intros s. induction l as [|y r IH]; intros x H; cbn [put_s] in H; [contradiction|].
  destruct (ds_id y =? ds_id s); cbn [In] in *.
  - destruct H as [H|H]; [left; symmetry; exact H | right; right; exact H].
  - destruct H as [H|H]; [right; left; exact H|]. destruct (IH x H) as [E|E]; [left; exact E | right; right; exact E].
Qed.

Lemma in_del : forall sid l x, In x (del_s sid l) -> In x l.
Proof.
  intros sid. induction l as [|y r IH]; intros x H; cbn [del_s] in H; [contradiction|].
  destruct (ds_id y =? sid); cbn [In] in *; [right; exact H|].
  destruct H as [H|H]; [left; exact H | right; apply IH; exact H].
Qed.

(* a frame of ANOTHER stream neither touches this stream's entry nor delivers anything to it *)
Lemma step_other : forall buf off st f sid, fsid f <> sid ->
  find_s sid (fst (step false buf off st f)) = find_s sid st /\ only_sid sid (snd (step false buf off st f)) = [].
Proof.
  intros buf off st f sid Hne. unfold step.
  destruct (find_s (fsid f) st) as [s|] eqn:Ef; [|split; reflexivity].
  pose proof (find_id _ _ _ Ef) as Hid.
  assert (Hflt : forall a b c d, a = fsid f -> only_sid sid [mkDl a b c d] = []).
  { intros a b c d Ha. cbn [only_sid filter dl_sid]. assert (E : (a =? sid) = false) by lia. rewrite E. reflexivity. }
  destruct f as [s0 tok es | s0 p es | s0 t]; cbn [fsid] in *.
  - destruct es; cbn [fst snd].
    + split; [apply find_del_other; congruence | apply Hflt; reflexivity].
    + split; [apply find_put_other; cbn [ds_id]; congruence | reflexivity].
  - destruct es; cbn [fst snd].
    + split; [apply find_del_other; congruence | apply Hflt; reflexivity].
    + split; [apply find_put_other; cbn [ds_id]; congruence | reflexivity].
  - cbn [fst snd]. split; [apply find_del_other; congruence | apply Hflt; reflexivity].
Qed.

Lemma step_keeps : forall buf off st f, NoDup (ids st) -> copies st ->
  NoDup (ids (fst (step false buf off st f))) /\ copies (fst (step false buf off st f)).
Proof.
  intros buf off st f Hnd Hc. unfold step.
  destruct (find_s (fsid f) st) as [s|] eqn:Ef; [|split; assumption].
  pose proof (find_in _ _ _ Ef) as Hin. pose proof (Hc s Hin) as Hcs.
  assert (Hdel : forall sid, NoDup (ids (del_s sid st)) /\ copies (del_s sid st)).
  { intro sid. split; [apply nodup_del; exact Hnd | intros x Hx; apply Hc; eapply in_del; exact Hx]. }
  assert (Hput : forall s', match ds_rec s' with Some (BRef _ _) => False | _ => True end ->
                            NoDup (ids (put_s s' st)) /\ copies (put_s s' st)).
  { intros s' Hs'. split; [rewrite ids_put; exact Hnd|]. intros x Hx. destruct (in_put _ _ _ Hx) as [E|E]; [subst; exact Hs' | apply Hc; exact E]. }
  destruct f as [s0 tok es | s0 p es | s0 t]; cbn [fst snd].
  - destruct es; cbn [fst]; [apply Hdel | apply Hput; cbn [ds_rec]; exact Hcs].
  - destruct es; cbn [fst]; [apply Hdel | apply Hput; cbn [ds_rec andb]; destruct (ds_rec s); exact I].
  - apply Hdel.
Qed.

(* ---------------------------------------------------------------- the per-stream reference machine *)
(* what ONE stream does with ITS frames (frames of other streams are skipped): state = Some (headers, body so far)
   while the stream is open, None once it has been delivered (or was never opened) *)
Definition pstep (sid : N) (st : option (bytes * bytes)) (f : dframe) : option (bytes * bytes) * list (N * bytes * bytes) :=
  if negb (fsid f =? sid) then (st, [])
  else match st with
       | None => (None, [])
       | Some (tok, a) =>
         match f with
         | FHead _ t es => if es then (None, [(sid, t, [])]) else (Some (t, a), [])
         | FData _ p es => if es then (None, [(sid, tok, a ++ p)]) else (Some (tok, a ++ p), [])
         | FTrail _ _ => (None, [(sid, tok, a)])
         end
       end.

Fixpoint prun (sid : N) (st : option (bytes * bytes)) (fs : list dframe) : option (bytes * bytes) * list (N * bytes * bytes) :=
  match fs with
  | [] => (st, [])
  | f :: r => let x := pstep sid st f in let y := prun sid (fst x) r in (fst y, snd x ++ snd y)
  end.

Definition pstate (sid : N) (st : list dstream) : option (bytes * bytes) :=
  match find_s sid st with Some s => Some (ds_tok s, acc s) | None => None end.

(* one frame of the real table, projected on stream sid, is one step of the reference machine *)
Lemma step_proj : forall buf off st f sid buf', NoDup (ids st) -> copies st ->
  pstate sid (fst (step false buf off st f)) = fst (pstep sid (pstate sid st) f) /\
  map (observe buf') (only_sid sid (snd (step false buf off st f))) = snd (pstep sid (pstate sid st) f).
Proof.
  intros buf off st f sid buf' Hnd Hc. unfold pstep.
  destruct (N.eq_dec (fsid f) sid) as [Hsame | Hother].
  - assert (E : negb (fsid f =? sid) = false) by lia. rewrite E.
    unfold step, pstate. rewrite Hsame.
    destruct (find_s sid st) as [s|] eqn:Ef; [|cbn [fst snd]; rewrite Ef; split; reflexivity].
    pose proof (Hc s (find_in _ _ _ Ef)) as Hcs. pose proof (find_id _ _ _ Ef) as Hid.
    assert (Hgone : find_s sid (del_s sid st) = None) by (apply find_del_same; exact Hnd).
    destruct f as [s0 tok es | s0 p es | s0 t]; cbn [fsid] in Hsame; subst s0.
    + destruct es; cbn [fst snd].
      * rewrite Hgone. cbn [only_sid filter dl_sid]. rewrite N.eqb_refl. split; reflexivity.
      * rewrite (find_put_same (mkDs sid tok (ds_rec s))) by (cbn [ds_id]; rewrite Ef; discriminate).
        cbn [ds_tok]. unfold acc. cbn [ds_rec]. split; reflexivity.
    + unfold acc. destruct (ds_rec s) as [[b|o n]|] eqn:Er; try contradiction; cbn [andb]; destruct es; cbn [fst snd].
      * rewrite Hgone. cbn [only_sid filter dl_sid]. rewrite N.eqb_refl. split; reflexivity.
      * rewrite (find_put_same (mkDs sid (ds_tok s) _)) by (cbn [ds_id]; rewrite Ef; discriminate).
        cbn [ds_tok ds_rec resolve]. split; reflexivity.
      * rewrite Hgone. cbn [only_sid filter dl_sid]. rewrite N.eqb_refl. split; reflexivity.
      * rewrite (find_put_same (mkDs sid (ds_tok s) _)) by (cbn [ds_id]; rewrite Ef; discriminate).
        cbn [ds_tok ds_rec resolve]. split; reflexivity.
    + cbn [fst snd]. rewrite Hgone. cbn [only_sid filter dl_sid]. rewrite N.eqb_refl.
      cbn [map observe dl_sid dl_tok dl_body]. split; [reflexivity|].
      unfold acc. destruct (ds_rec s) as [[b|o n]|]; [reflexivity | contradiction | reflexivity].
  - assert (E : negb (fsid f =? sid) = true) by lia. rewrite E. cbn [fst snd].
    destruct (step_other buf off st f sid Hother) as [H1 H2]. unfold pstate. rewrite H1, H2. split; reflexivity.
Qed.

Lemma steps_proj : forall fs buf off st sid buf', NoDup (ids st) -> copies st ->
  pstate sid (fst (steps false buf off st fs)) = fst (prun sid (pstate sid st) fs) /\
  map (observe buf') (only_sid sid (snd (steps false buf off st fs))) = snd (prun sid (pstate sid st) fs) /\
  NoDup (ids (fst (steps false buf off st fs))) /\ copies (fst (steps false buf off st fs)).
Proof.
  induction fs as [|f fs IH]; intros buf off st sid buf' Hnd Hc; [cbn; auto|].
  cbn [steps prun fst snd].
  destruct (step_keeps buf off st f Hnd Hc) as [Hnd1 Hc1].
  destruct (step_proj buf off st f sid buf' Hnd Hc) as [P1 P2].
  set (off' := match f with FData _ p _ => off + len p | _ => off end).
  destruct (IH buf off' (fst (step false buf off st f)) sid buf' Hnd1 Hc1) as [Q1 [Q2 [Q3 Q4]]].
  rewrite P1 in Q1, Q2.
  split; [exact Q1|]. split; [| split; assumption].
  rewrite only_sid_app, map_app, P2, Q2. reflexivity.
Qed.

Lemma prun_app : forall sid fs1 fs2 st,
  prun sid st (fs1 ++ fs2) = (fst (prun sid (fst (prun sid st fs1)) fs2), snd (prun sid st fs1) ++ snd (prun sid (fst (prun sid st fs1)) fs2)).
Proof.
  intros sid. induction fs1 as [|f fs1 IH]; intros fs2 st; cbn [app prun fst snd].
  - destruct (prun sid st fs2); reflexivity.
  - rewrite IH. cbn [fst snd]. rewrite app_assoc. reflexivity.
Qed.

(* all reads of a connection *)
Lemma reads_proj : forall reads c sid buf', NoDup (ids (dc_streams c)) -> copies (dc_streams c) ->
  let c' := fold_left (do_read false) reads c in
  pstate sid (dc_streams c') = fst (prun sid (pstate sid (dc_streams c)) (concat reads)) /\
  map (observe buf') (only_sid sid (dc_out c')) =
  map (observe buf') (only_sid sid (dc_out c)) ++ snd (prun sid (pstate sid (dc_streams c)) (concat reads)).
Proof.
  induction reads as [|rd reads IH]; intros c sid buf' Hnd Hc; cbn [fold_left concat].
  - cbn [prun fst snd]. rewrite app_nil_r. split; reflexivity.
  - destruct (steps_proj rd (read_buf rd) 0 (dc_streams c) sid buf' Hnd Hc) as [S1 [S2 [S3 S4]]].
    specialize (IH (do_read false c rd) sid buf'). cbv zeta in IH. unfold do_read at 2 3 4 5 in IH. cbn [dc_streams dc_out] in IH.
    destruct (IH S3 S4) as [I1 I2]. cbv zeta.
    rewrite prun_app. cbn [fst snd]. rewrite <- S1. split; [exact I1|].
    rewrite I2. unfold do_read. cbn [dc_out dc_streams].
    rewrite only_sid_app, map_app, S2. rewrite <- app_assoc. reflexivity.
Qed.

Lemma ids_new : forall opens, ids (dc_streams (dconn_new opens)) = opens.
Proof. intro opens. cbn [dconn_new dc_streams]. unfold ids. rewrite map_map. cbn [ds_id]. apply map_id. Qed.

Lemma copies_new : forall opens, copies (dc_streams (dconn_new opens)).
Proof. intros opens s H. cbn [dconn_new dc_streams] in H. apply in_map_iff in H as [x [E _]]. subst s. exact I. Qed.

Lemma pstate_new : forall opens sid, NoDup opens ->
  pstate sid (dc_streams (dconn_new opens)) = if existsb (N.eqb sid) opens then Some ([], []) else None.
Proof.
  intros opens sid _. cbn [dconn_new dc_streams]. unfold pstate.
  induction opens as [|o r IH]; [reflexivity|]. cbn [map find_s ds_id existsb].
  rewrite (N.eqb_sym sid o). destruct (o =? sid); [reflexivity | exact IH].
Qed.

(* c02 (HTTP/2): what the receiver of stream sid holds, looked at with ANY later contents of the read buffer, is
   what the per-stream reference machine produces from the frames OF THAT STREAM ALONE *)
Theorem demux_correct : forall opens reads sid buf', NoDup opens ->
  map (observe buf') (only_sid sid (dc_out (run_reads false opens reads))) =
  snd (prun sid (if existsb (N.eqb sid) opens then Some ([], []) else None) (concat reads)).
Proof.
  intros opens reads sid buf' Hnd. unfold run_reads.
  destruct (reads_proj reads (dconn_new opens) sid buf') as [_ H].
  - rewrite ids_new. exact Hnd.
  - apply copies_new.
  - cbv zeta in H. rewrite H. rewrite pstate_new by exact Hnd. reflexivity.
Qed.

(* the reference machine only looks at the frames of its own stream ... *)
Lemma prun_own_frames : forall sid fs st, prun sid st fs = prun sid st (filter (fun f => fsid f =? sid) fs).
Proof.
  intros sid. induction fs as [|f fs IH]; intro st; [reflexivity|].
  cbn [filter]. destruct (fsid f =? sid) eqn:E.
  - cbn [prun]. rewrite IH. reflexivity.
  - assert (Hp : pstep sid st f = (st, [])) by (unfold pstep; rewrite E; reflexivity).
    cbn [prun]. rewrite Hp. cbn [fst snd app]. rewrite IH.
    destruct (prun sid st (filter (fun f0 => fsid f0 =? sid) fs)); reflexivity.
Qed.

(* ... delivers at most once, nothing to a stream that is not open ... *)
Lemma prun_none : forall sid fs, prun sid None fs = (None, []).
Proof.
  intros sid. induction fs as [|f fs IH]; [reflexivity|]. cbn [prun]. unfold pstep.
  destruct (negb (fsid f =? sid)); cbn [fst snd]; rewrite IH; reflexivity.
Qed.

(* ... and, for a stream whose HEADERS do not end it, delivers its own headers with exactly the concatenation of its
   DATA payloads up to the frame that ends it *)
Theorem prun_spec : forall sid fs tok a, (forall t, ~ In (FHead sid t true) fs) ->
  snd (prun sid (Some (tok, a)) fs) = if ends sid fs then [(sid, tok_of sid tok fs, a ++ body_of sid fs)] else [].
Proof.
  intros sid. induction fs as [|f fs IH]; intros tok a Hno; [reflexivity|].
  assert (Hno' : forall t, ~ In (FHead sid t true) fs) by (intros t Hi; apply (Hno t); right; exact Hi).
  cbn [prun]. unfold pstep. destruct f as [s0 t es | s0 p es | s0 t]; cbn [fsid ends body_of tok_of].
  - destruct (s0 =? sid) eqn:E; cbn [negb andb].
    + apply N.eqb_eq in E. subst s0. destruct es; [exfalso; apply (Hno t); left; reflexivity|].
      cbn [fst snd app]. apply IH. exact Hno'.
    + cbn [fst snd app]. apply IH. exact Hno'.
  - destruct (s0 =? sid) eqn:E; cbn [negb andb].
    + destruct es; cbn [fst snd].
      * rewrite prun_none. cbn [snd]. rewrite !app_nil_r. reflexivity.
      * cbn [app]. rewrite IH by exact Hno'. destruct (ends sid fs); [rewrite app_assoc; reflexivity | reflexivity].
    + cbn [fst snd app]. apply IH. exact Hno'.
  - destruct (s0 =? sid) eqn:E; cbn [negb].
    + cbn [fst snd]. rewrite prun_none. cbn [snd]. rewrite !app_nil_r. reflexivity.
    + cbn [fst snd app]. apply IH. exact Hno'.
Qed.

(* deliveries only accumulate: more reads never change or remove what was delivered *)
Lemma run_reads_prefix : forall alias opens reads more,
  exists extra, dc_out (run_reads alias opens (reads ++ more)) = dc_out (run_reads alias opens reads) ++ extra.
Proof.
  intros alias opens reads more. unfold run_reads. rewrite fold_left_app.
  generalize (fold_left (do_read alias) reads (dconn_new opens)). induction more as [|rd more IH]; intro c.
  - exists []. cbn. rewrite app_nil_r. reflexivity.
  - cbn [fold_left]. destruct (IH (do_read alias c rd)) as [ex Hex]. rewrite Hex.
    exists (snd (steps alias (read_buf rd) 0 (dc_streams c) rd) ++ ex).
    unfold do_read. cbn [dc_out]. rewrite <- app_assoc. reflexivity.
Qed.

(* ---------------------------------------------------------------- the aliasing variant is wrong *)
(* two streams; the body of stream 1 comes in ONE DATA frame with END_STREAM and is delivered; the next read carries
   the body of stream 3: what the receiver of stream 1 holds now reads as stream 3's bytes *)
Definition alias_witness : list (list dframe) :=
  [[FHead 1 [65] false; FData 1 [65; 65; 65] true]; [FHead 3 [66] false; FData 3 [66; 66; 66] true]].

Lemma alias_refuted :
  let c := run_reads true [1; 3] alias_witness in
  map (observe (dc_buf c)) (only_sid 1 (dc_out c)) = [(1, [65], [66; 66; 66])] /\
  snd (prun 1 (Some ([], [])) (concat alias_witness)) = [(1, [65], [65; 65; 65])].
Proof. split; vm_compute; reflexivity. Qed.
